(* Lemmas about Model/Factorized.v (part 21: the reconstruction functions after the repair 8b25fc6.
   tt_to_tensor / tr_to_tensor call their validators first, the einsum tt_matrix_to_tensor checks the conditions of _validate_tt_matrix,
   the einsum multi_mode_dot checks every contracted dimension.  Hence
   (a) the entry-level theorems hold for the validating functions (the hypotheses imply that the validator accepts), and
   (b) the converse: a reconstruction function returns a tensor ONLY for a set its validator accepts (TT, TR, einsum TT-matrix; the
       core TT-matrix route: Proofs19) / only for operands that fit (Tucker, einsum backend; core backend: Proofs19). *)
From Coq Require Import List Arith ZArith Lia Bool Ring.
From TLV Require Import Base.Shape Base.PyList Base.Tensor Base.BigSum Base.Ops Model.Base Model.Factorized
  Proofs.BaseProofs Proofs.FactorizedProofs Proofs.FactorizedProofs3 Proofs.FactorizedProofs4 Proofs.FactorizedProofs5
  Proofs.FactorizedProofs8 Proofs.FactorizedProofs9 Proofs.FactorizedProofs10 Proofs.FactorizedProofs19.
Import ListNotations.

Section P.
Variable F : Type.
Variable Op : fops F.
Notation zero := (f0 Op).
Notation tensor := (tensor F).

(* ---------- (b) converses: no hypothesis on the operands, no ring axiom ---------- *)
Theorem tt_ok_validated (cs : list tensor) (t : tensor) :
  tt_to_tensor Op cs = Ok t -> exists shp rk, validate_tt cs = Ok (shp, rk).
Proof.
  unfold tt_to_tensor, tt_to_tensor_from. destruct (validate_tt cs) as [[shp rk]|]; [|discriminate]. intros _. now exists shp, rk.
Qed.
Theorem tr_ok_validated (cs : list tensor) (t : tensor) :
  tr_to_tensor Op cs = Ok t -> exists shp rk, validate_tr cs = Ok (shp, rk).
Proof.
  unfold tr_to_tensor. destruct (validate_tr cs) as [[shp rk]|]; [|discriminate]. intros _. now exists shp, rk.
Qed.
Theorem ttm_einsum_ok_validated (cs : list tensor) (t : tensor) :
  ttm_to_tensor_einsum Op cs = Ok t -> exists shp rk, validate_ttm cs = Ok (shp, rk).
Proof.
  unfold ttm_to_tensor_einsum. destruct (validate_ttm cs) as [[shp rk]|]; [|discriminate]. intros _. now exists shp, rk.
Qed.

(* Tucker, einsum backend: the single einsum is reached only if every factor that is not skipped is a matrix whose column count is
   the size of its core mode *)
Lemma skipn_cons_inv {X} (d : X) : forall k (l : list X) c r, skipn k l = c :: r -> nth k l d = c /\ skipn (S k) l = r /\ k < length l.
Proof.
  induction k as [|k IH]; intros [|x l] c r H; cbn [skipn] in H; try discriminate.
  - injection H as -> ->. cbn. repeat split; lia.
  - destruct (IH l c r H) as (H1 & H2 & H3). cbn [nth length]. repeat split; auto; lia.
Qed.
Lemma skipn_nil_S {X} : forall k (l : list X), skipn k l = [] -> skipn (S k) l = [].
Proof. induction k as [|k IH]; intros [|x l] H; cbn [skipn] in *; try discriminate; auto. Qed.

Lemma ein_tk_dims_b_fits skip : forall (Ms : list tensor) k cs full nl, skipn k full = cs ->
  ein_tk_dims_b k skip cs Ms = Ok nl -> tk_fits F k skip Ms full.
Proof.
  induction Ms as [|M Ms IH]; intros k cs full nl Hk; cbn [ein_tk_dims_b tk_fits]; [auto|].
  destruct cs as [|c cs].
  - destruct (ein_skipped skip k); [|discriminate]. intros H. split; [exact I|].
    apply (IH (S k) [] full nl); [now apply skipn_nil_S | exact H].
  - destruct (skipn_cons_inv 0 k full c cs Hk) as (Hn & Hs & Hl).
    destruct (ein_skipped skip k).
    + destruct (ein_tk_dims_b (S k) skip cs Ms) as [nl'|] eqn:E; [|discriminate]. intros _. split; [exact I|]. exact (IH _ _ _ _ Hs E).
    + destruct (Nat.eqb_spec (ndim M) 2) as [H2|]; cbn [andb]; [|discriminate].
      destruct (Nat.eqb_spec (ncols M) c) as [Hc|]; [|discriminate].
      destruct (ein_tk_dims_b (S k) skip cs Ms) as [nl'|] eqn:E; [|discriminate]. intros _.
      split; [repeat split; auto; congruence | exact (IH _ _ _ _ Hs E)].
Qed.

Theorem tucker_einsum_ok_fits (core : tensor) fs skip (t : tensor) :
  tucker_to_tensor_einsum_b Op core fs skip false = Ok t -> tk_fits F 0 skip fs (shape core).
Proof.
  unfold tucker_to_tensor_einsum_b. cbn [andb].
  destruct (ein_tk_dims_b 0 skip (shape core) fs) as [nl|] eqn:E; [|discriminate]. intros _.
  exact (ein_tk_dims_b_fits skip fs 0 (shape core) (shape core) nl eq_refl E).
Qed.
Corollary tucker_einsum_misfit_rejected (core : tensor) fs skip :
  ~ tk_fits F 0 skip fs (shape core) -> tucker_to_tensor_einsum_b Op core fs skip false = Err.
Proof.
  intros Hn. destruct (tucker_to_tensor_einsum_b Op core fs skip false) as [t|] eqn:E; [|reflexivity].
  exfalso. apply Hn. exact (tucker_einsum_ok_fits core fs skip t E).
Qed.

(* tucker_to_tensor(modes=range(len(factors))) is tucker_to_tensor without modes (the default) *)
Lemma multi_mode_dot_modes_seq : forall (Ms : list tensor) k (T : tensor),
  multi_mode_dot_modes Op T Ms (seq k (length Ms)) = multi_mode_dot_from Op k T Ms None false.
Proof.
  induction Ms as [|M Ms IH]; intros k T; [reflexivity|]. cbn [length seq multi_mode_dot_modes multi_mode_dot_from].
  destruct (negb (ndim M =? 2)); [reflexivity|]. destruct (mode_dot Op T M k); cbn [rbind]; [apply IH | reflexivity].
Qed.
Theorem tucker_modes_default (core : tensor) fs :
  tucker_to_tensor_modes Op core fs (seq 0 (length fs)) = tucker_to_tensor Op core fs None false.
Proof. apply multi_mode_dot_modes_seq. Qed.
(* and it returns a tensor only if every (factor, mode) pair fits *)
Theorem tucker_modes_ok_fits : forall (Ms : list tensor) ms (T t : tensor), length ms = length Ms -> NoDup ms ->
  multi_mode_dot_modes Op T Ms ms = Ok t ->
  Forall2 (fun (M : tensor) m => ndim M = 2 /\ m < ndim T /\ ncols M = nth m (shape T) 0) Ms ms.
Proof.
  induction Ms as [|M Ms IH]; intros [|m ms] T t Hl Hd; cbn [length] in Hl; try discriminate; [constructor|].
  cbn [multi_mode_dot_modes]. destruct (Nat.eqb_spec (ndim M) 2) as [H2|]; cbn [negb]; [|discriminate].
  destruct (mode_dot Op T M m) as [T'|] eqn:E; cbn [rbind]; [|discriminate]. intros H.
  apply mode_dot_ok_inv in E. destruct E as (_ & Hm & Hc & Hs). inversion Hd as [|? ? Hnin Hd']; subst.
  constructor; [auto|].
  pose proof (IH ms T' t ltac:(lia) Hd' H) as HF.
  clear - HF Hs Hnin. revert HF. generalize Ms. induction ms as [|m' ms IHm]; intros Ms' HF; inversion HF as [|M1 m1 Ms1 ms1 Hhead Htail]; subst; constructor.
  - destruct Hhead as (A1 & A2 & A3). unfold ndim in *. rewrite Hs, set_nth_length in A2. rewrite Hs in A3.
    rewrite nth_set_nth_other in A3 by (intros ->; apply Hnin; now left). auto.
  - apply IHm; [intros Hin; apply Hnin; now right | assumption].
Qed.

(* ---------- (a) the shape hypotheses of the entry-level theorems imply that the validator accepts ---------- *)
Lemma tt_cores_chain_shapes : forall r (cs : list tensor) ns rl, tt_cores F r cs ns rl -> exists rs, chain_shapes F r cs ns rs rl.
Proof.
  induction 1 as [r|r n r' G cs ns rl HG Hr Hc [rs IH]].
  - exists []. apply csh_nil.
  - exists (r :: rs). apply csh_cons with (r' := r'); assumption.
Qed.
Lemma tt_cores_validated (cs : list tensor) ns : cs <> [] -> tt_cores F 1 cs ns 1 -> exists rk, validate_tt cs = Ok (ns, rk).
Proof.
  intros Hne Hc. destruct (tt_cores_chain_shapes _ _ _ _ Hc) as [rs Hs]. exists (rs ++ [1]).
  apply validate_tt_iff. split; [exact Hne|]. exists rs. auto.
Qed.
Lemma chain_shapes_snoc : forall r (cs : list tensor) ns rs rl (G : tensor) n r',
  chain_shapes F r cs ns rs rl -> shape G = [rl; n; r'] -> chain_shapes F r (cs ++ [G]) (ns ++ [n]) (rs ++ [rl]) r'.
Proof.
  induction 1 as [r|r n0 r1 G0 cs ns rs rl HG0 Hc IH]; intros HG; cbn [app].
  - apply csh_cons with (r' := r'); [exact HG | apply csh_nil].
  - apply csh_cons with (r' := r1); [exact HG0 | exact (IH HG)].
Qed.
Lemma tr_cores_validated (fa : tensor) mid (fl : tensor) n0 nsm nL r0 rL :
  tt_cores F r0 (fa :: mid) (n0 :: nsm) rL -> shape fl = [rL; nL; r0] ->
  exists rk, validate_tr (fa :: mid ++ [fl]) = Ok ((n0 :: nsm) ++ [nL], rk).
Proof.
  intros Hc Hfl. destruct (tt_cores_chain_shapes _ _ _ _ Hc) as [rs Hs].
  exists ((rs ++ [rL]) ++ [r0]). apply validate_tr_iff. split.
  - cbn [length]. rewrite app_length. cbn [length]. lia.
  - exists (rs ++ [rL]), r0. split; [reflexivity|].
    change (fa :: mid ++ [fl]) with ((fa :: mid) ++ [fl]). now apply chain_shapes_snoc.
Qed.

Hypothesis Rth : ring_theory (f0 Op) (f1 Op) (fadd Op) (fmul Op) (fsub Op) (fopp Op) (@eq F).

Theorem tt_to_tensor_spec_v (cs : list tensor) ns : cs <> [] -> tt_cores F 1 cs ns 1 -> 0 < prod ns ->
  exists t, tt_to_tensor Op cs = Ok t /\ shape t = ns /\
    forall idx, inb ns idx -> get zero t idx = chain F Op cs idx 0 0.
Proof.
  intros Hne Hc Hp. destruct (tt_cores_validated cs ns Hne Hc) as [rk Hv].
  unfold tt_to_tensor, tt_to_tensor_from. rewrite Hv. cbn [rbind]. exact (tt_to_tensor_spec F Op Rth cs ns Hne Hc Hp).
Qed.

Theorem tr_to_tensor_spec_v (fa : tensor) mid (fl : tensor) n0 nsm nL r0 rL :
  tt_cores F r0 (fa :: mid) (n0 :: nsm) rL -> shape fl = [rL; nL; r0] -> 0 < r0 ->
  0 < prod ((n0 :: nsm) ++ [nL]) ->
  exists t, tr_to_tensor Op (fa :: mid ++ [fl]) = Ok t /\ shape t = (n0 :: nsm) ++ [nL] /\
    forall idx, inb ((n0 :: nsm) ++ [nL]) idx ->
      get zero t idx = fsumn Op r0 (fun a => chain F Op ((fa :: mid) ++ [fl]) idx a a).
Proof.
  intros Hc Hfl Hr Hp. destruct (tr_cores_validated fa mid fl n0 nsm nL r0 rL Hc Hfl) as [rk Hv].
  unfold tr_to_tensor. rewrite Hv. cbn [rbind]. exact (tr_to_tensor_spec F Op Rth fa mid fl n0 nsm nL r0 rL Hc Hfl Hr Hp).
Qed.
End P.
