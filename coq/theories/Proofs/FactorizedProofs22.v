(* Lemmas about Model/FactorizedSrc.v (part 22: the source tie of the chain validators).
   The reference programs tt_prog / tr_prog / ttm_prog (the validators as written in the Python source, regenerated from it on every
   run) interpreted on the shapes of the cores ARE the model's validators, for every list of cores. *)
From Coq Require Import List Arith ZArith Lia Bool.
From TLV Require Import Base.Shape Base.PyList Base.Tensor Base.BigSum Base.Ops Model.Base Model.Factorized Model.FactorizedSrc
  Proofs.FactorizedProofs Proofs.FactorizedProofs4 Proofs.FactorizedProofs8.
Import ListNotations.

Lemma last_map_ne {X Y} (f : X -> Y) (d : X) (d' : Y) : forall l, l <> [] -> last (map f l) d' = f (last l d).
Proof. induction l as [|x [|y l] IH]; intros H; [congruence | reflexivity |]. cbn [map last] in *. apply IH. discriminate. Qed.

Lemma run_chain_cons P s l :
  run_chain P (s :: l) =
  if length (s :: l) <? cp_min P then Err else
  if chain_loop P (length (s :: l)) 0 (last (s :: l) []) (s :: l)
  then Ok (flat_map (fun col => map (fun x => nth col x 0) (s :: l)) (cp_shape_cols P),
           map (fun x => nth (cp_rank_col P) x 0) (s :: l) ++ [nth (cp_last_col P) (last (s :: l) []) 0])
  else Err.
Proof. reflexivity. Qed.

Lemma loop_len P : forall l n i prev, chain_loop P n i prev l = true -> Forall (fun s => length s = cp_arity P) l.
Proof.
  induction l as [|s l IH]; intros n i prev H; [constructor|]. cbn [chain_loop] in H.
  apply andb_prop in H as [H1 H2]. apply andb_prop in H1 as [H0 H1]. constructor; [now apply Nat.eqb_eq | eapply IH; eauto].
Qed.

Section P.
Variable F : Type.
Notation tensor := (tensor F).

(* ---------- 3-D cores: tensor train and tensor ring ---------- *)
Definition tri (x : nat * nat * nat) : list nat := [d3a x; d3b x; d3c x].

Lemma all_shape3_map : forall (cs : list tensor) ds, all_shape3 cs = Ok ds -> map (@shape F) cs = map tri ds.
Proof.
  induction cs as [|c cs IH]; intros ds; cbn [all_shape3 map].
  - intros H; injection H as <-. reflexivity.
  - destruct (shape3 c) as [x|] eqn:E; cbn [rbind]; [|discriminate].
    destruct (all_shape3 cs) as [l|]; cbn [rbind]; [|discriminate]. intros H; injection H as <-. cbn [map].
    f_equal; [|now apply IH]. destruct x as [[p q] r]. apply shape3_iff in E. exact E.
Qed.
Lemma all_shape3_len : forall cs : list tensor, Forall (fun s => length s = 3) (map (@shape F) cs) -> exists ds, all_shape3 cs = Ok ds.
Proof.
  induction cs as [|c cs IH]; cbn [map]; intros H; [exists []; reflexivity|].
  inversion H as [|? ? H1 H2]; subst. destruct (IH H2) as [ds E]. cbn [all_shape3]. unfold shape3.
  destruct (shape c) as [|a [|b [|c' [|? ?]]]]; cbn in H1; try discriminate. eexists. rewrite E. reflexivity.
Qed.

Definition lastchk3 (ds : list (nat * nat * nat)) : bool := match ds with [] => true | _ => d3c (last ds (0, 0, 0)) =? 1 end.

Lemma loop_tt : forall ds n i prev, i + length ds = n ->
  chain_loop tt_prog n i prev (map tri ds) = chain_ok (if i =? 0 then 1 else nth 2 prev 0) ds && lastchk3 ds.
Proof.
  induction ds as [|x ds IH]; intros n i prev Hn; [reflexivity|].
  cbn [map chain_loop]. rewrite (IH n (S i) (tri x)) by (cbn [length] in Hn; lia).
  destruct x as [[a b] c]. cbn [chain_ok d3a d3c fst snd].
  change (chain_ok (if S i =? 0 then 1 else nth 2 (tri (a, b, c)) 0) ds) with (chain_ok c ds).
  cbn [tri d3a d3b d3c fst snd length cp_arity cp_checks tt_prog existsb evc ev nth].
  change (3 =? 3) with true. cbn [negb andb orb].
  rewrite (Nat.eqb_sym (nth 2 prev 0) a).
  destruct ds as [|y ds].
  - replace (i =? n - 1) with true by (symmetry; apply Nat.eqb_eq; cbn [length] in Hn; lia).
    cbn [lastchk3 last chain_ok d3c snd]. destruct (i =? 0), (a =? 1), (a =? nth 2 prev 0), (c =? 1); reflexivity.
  - replace (i =? n - 1) with false by (symmetry; apply Nat.eqb_neq; cbn [length] in Hn; lia).
    change (lastchk3 ((a, b, c) :: y :: ds)) with (lastchk3 (y :: ds)).
    destruct (i =? 0), (a =? 1), (a =? nth 2 prev 0), (chain_ok c (y :: ds)), (lastchk3 (y :: ds)); reflexivity.
Qed.

Lemma outputs3 ds : ds <> [] ->
  (flat_map (fun col => map (fun s => nth col s 0) (map tri ds)) [1],
   map (fun s => nth 0 s 0) (map tri ds) ++ [nth 2 (last (map tri ds) []) 0]) =
  (map d3b ds, map d3a ds ++ [d3c (last ds (0, 0, 0))]).
Proof.
  intros Hne. cbn [flat_map]. rewrite app_nil_r, !map_map. rewrite (last_map_ne tri (0, 0, 0) [] ds Hne). reflexivity.
Qed.

Theorem tt_prog_link : forall cs : list tensor, run_chain tt_prog (map (@shape F) cs) = validate_tt cs.
Proof.
  intros [|c0 cs']; [reflexivity|]. set (cs := c0 :: cs'). unfold validate_tt. fold cs.
  change (map (@shape F) cs) with (shape c0 :: map (@shape F) cs'). rewrite run_chain_cons.
  change (shape c0 :: map (@shape F) cs') with (map (@shape F) cs). cbn [cp_min tt_prog]. change (length (map (@shape F) cs) <? 0) with false. cbv iota.
  destruct (all_shape3 cs) as [ds|] eqn:E.
  - assert (Hne : ds <> []) by (intros ->; apply all_shape3_length in E; discriminate).
    rewrite (all_shape3_map _ _ E). cbn [rbind]. rewrite map_length, loop_tt by lia.
    cbn [Nat.eqb]. destruct ds as [|d0 ds0]; [congruence|]. cbn [lastchk3].
    cbn [cp_shape_cols cp_rank_col cp_last_col tt_prog]. rewrite (outputs3 (d0 :: ds0) Hne). reflexivity.
  - cbn [rbind]. destruct (chain_loop tt_prog (length (map (@shape F) cs)) 0 (last (map (@shape F) cs) []) (map (@shape F) cs)) eqn:EL; [|reflexivity].
    apply loop_len in EL. destruct (all_shape3_len cs EL) as [ds E']. congruence.
Qed.

Lemma loop_tr : forall ds n i prev, chain_loop tr_prog n i prev (map tri ds) = chain_ok (nth 2 prev 0) ds.
Proof.
  induction ds as [|x ds IH]; intros n i prev; [reflexivity|].
  cbn [map chain_loop]. rewrite (IH n (S i) (tri x)). destruct x as [[a b] c]. cbn [chain_ok d3a d3c fst snd].
  change (nth 2 (tri (a, b, c)) 0) with c.
  cbn [tri d3a d3b d3c fst snd length cp_arity cp_checks tr_prog existsb evc ev nth].
  change (3 =? 3) with true. cbn [negb andb orb]. rewrite (Nat.eqb_sym (nth 2 prev 0) a).
  destruct (a =? nth 2 prev 0); reflexivity.
Qed.

Theorem tr_prog_link : forall cs : list tensor, run_chain tr_prog (map (@shape F) cs) = validate_tr cs.
Proof.
  intros [|c0 cs']; [reflexivity|]. set (cs := c0 :: cs'). unfold validate_tr.
  change (map (@shape F) cs) with (shape c0 :: map (@shape F) cs'). rewrite run_chain_cons.
  change (shape c0 :: map (@shape F) cs') with (map (@shape F) cs). cbn [cp_min tr_prog]. rewrite map_length.
  destruct (length cs <? 2); [reflexivity|].
  destruct (all_shape3 cs) as [ds|] eqn:E.
  - assert (Hne : ds <> []) by (intros ->; apply all_shape3_length in E; discriminate).
    rewrite (all_shape3_map _ _ E). cbn [rbind]. rewrite loop_tr.
    rewrite (last_map_ne tri (0, 0, 0) [] ds Hne). change (nth 2 (tri (last ds (0, 0, 0))) 0) with (d3c (last ds (0, 0, 0))).
    cbn [cp_shape_cols cp_rank_col cp_last_col tr_prog]. rewrite <- (last_map_ne tri (0, 0, 0) [] ds Hne). rewrite (outputs3 ds Hne). reflexivity.
  - cbn [rbind]. destruct (chain_loop tr_prog (length cs) 0 (last (map (@shape F) cs) []) (map (@shape F) cs)) eqn:EL; [|reflexivity].
    apply loop_len in EL. destruct (all_shape3_len cs EL) as [ds E']. congruence.
Qed.

(* ---------- 4-D cores: TT-matrix ---------- *)
Definition quad (x : nat * nat * nat * nat) : list nat := [d4a x; d4b x; d4c x; d4e x].

Lemma all_shape4_map : forall (cs : list tensor) ds, all_shape4 cs = Ok ds -> map (@shape F) cs = map quad ds.
Proof.
  induction cs as [|c cs IH]; intros ds; cbn [all_shape4 map].
  - intros H; injection H as <-. reflexivity.
  - destruct (shape4 c) as [x|] eqn:E; cbn [rbind]; [|discriminate].
    destruct (all_shape4 cs) as [l|]; cbn [rbind]; [|discriminate]. intros H; injection H as <-. cbn [map].
    f_equal; [|now apply IH]. destruct x as [[[p q] r] u]. apply shape4_iff in E. exact E.
Qed.
Lemma all_shape4_len : forall cs : list tensor, Forall (fun s => length s = 4) (map (@shape F) cs) -> exists ds, all_shape4 cs = Ok ds.
Proof.
  induction cs as [|c cs IH]; cbn [map]; intros H; [exists []; reflexivity|].
  inversion H as [|? ? H1 H2]; subst. destruct (IH H2) as [ds E]. cbn [all_shape4]. unfold shape4.
  destruct (shape c) as [|a [|b [|c' [|e [|? ?]]]]]; cbn in H1; try discriminate. eexists. rewrite E. reflexivity.
Qed.
Lemma all_shape4_length' : forall (cs : list tensor) ds, all_shape4 cs = Ok ds -> length ds = length cs.
Proof.
  induction cs as [|c cs IH]; intros ds; cbn [all_shape4]; [intros H; injection H as <-; reflexivity|].
  destruct (shape4 c); cbn [rbind]; [|discriminate]. destruct (all_shape4 cs) as [l|]; cbn [rbind]; [|discriminate].
  intros H; injection H as <-. cbn [length]. f_equal. now apply IH.
Qed.

Definition lastchk4 (ds : list (nat * nat * nat * nat)) : bool := match ds with [] => true | _ => d4e (last ds (0, 0, 0, 0)) =? 1 end.

Lemma loop_ttm : forall ds n i prev, i + length ds = n ->
  chain_loop ttm_prog n i prev (map quad ds) = chain_ok4 (if i =? 0 then 1 else last prev 0) ds && lastchk4 ds.
Proof.
  induction ds as [|x ds IH]; intros n i prev Hn; [reflexivity|].
  cbn [map chain_loop]. rewrite (IH n (S i) (quad x)) by (cbn [length] in Hn; lia).
  destruct x as [[[a b] c] e]. cbn [chain_ok4 d4a d4e fst snd].
  change (chain_ok4 (if S i =? 0 then 1 else last (quad (a, b, c, e)) 0) ds) with (chain_ok4 e ds).
  cbn [quad d4a d4b d4c d4e fst snd length cp_arity cp_checks ttm_prog existsb evc ev nth].
  change (4 =? 4) with true. cbn [negb andb orb].
  rewrite (Nat.eqb_sym (last prev 0) a).
  destruct ds as [|y ds].
  - replace (i =? n - 1) with true by (symmetry; apply Nat.eqb_eq; cbn [length] in Hn; lia).
    cbn [lastchk4 last chain_ok4 d4e snd]. destruct (i =? 0), (a =? 1), (a =? last prev 0), (e =? 1); reflexivity.
  - replace (i =? n - 1) with false by (symmetry; apply Nat.eqb_neq; cbn [length] in Hn; lia).
    change (lastchk4 ((a, b, c, e) :: y :: ds)) with (lastchk4 (y :: ds)).
    destruct (i =? 0), (a =? 1), (a =? last prev 0), (chain_ok4 e (y :: ds)), (lastchk4 (y :: ds)); reflexivity.
Qed.

Lemma outputs4 ds : ds <> [] ->
  (flat_map (fun col => map (fun s => nth col s 0) (map quad ds)) [1; 2],
   map (fun s => nth 0 s 0) (map quad ds) ++ [nth 3 (last (map quad ds) []) 0]) =
  (map d4b ds ++ map d4c ds, map d4a ds ++ [d4e (last ds (0, 0, 0, 0))]).
Proof.
  intros Hne. cbn [flat_map]. rewrite app_nil_r, !map_map. rewrite (last_map_ne quad (0, 0, 0, 0) [] ds Hne). reflexivity.
Qed.

Theorem ttm_prog_link : forall cs : list tensor, run_chain ttm_prog (map (@shape F) cs) = validate_ttm cs.
Proof.
  intros [|c0 cs']; [reflexivity|]. set (cs := c0 :: cs'). unfold validate_ttm. fold cs.
  change (map (@shape F) cs) with (shape c0 :: map (@shape F) cs'). rewrite run_chain_cons.
  change (shape c0 :: map (@shape F) cs') with (map (@shape F) cs). cbn [cp_min ttm_prog].
  change (length (map (@shape F) cs) <? 1) with false. cbv iota.
  destruct (all_shape4 cs) as [ds|] eqn:E.
  - assert (Hne : ds <> []) by (intros ->; apply all_shape4_length' in E; discriminate).
    rewrite (all_shape4_map _ _ E). cbn [rbind]. rewrite map_length, loop_ttm by lia.
    cbn [Nat.eqb]. destruct ds as [|d0 ds0]; [congruence|]. cbn [lastchk4].
    cbn [cp_shape_cols cp_rank_col cp_last_col ttm_prog]. rewrite (outputs4 (d0 :: ds0) Hne). reflexivity.
  - cbn [rbind]. destruct (chain_loop ttm_prog (length (map (@shape F) cs)) 0 (last (map (@shape F) cs) []) (map (@shape F) cs)) eqn:EL; [|reflexivity].
    apply loop_len in EL. destruct (all_shape4_len cs EL) as [ds E']. congruence.
Qed.

(* ---------- Tucker ---------- *)
Lemma tk_loop_dims : forall (fs : list tensor) k cs,
  (if tk_loop tucker_prog cs k (map (@shape F) fs)
   then Ok (map (fun s => nth 0 s 0) (map (@shape F) fs), map (fun s => nth 1 s 0) (map (@shape F) fs)) else Err) = tucker_dims k cs fs.
Proof.
  induction fs as [|f fs IH]; intros k cs; [reflexivity|].
  cbn [map tk_loop tucker_dims]. rewrite <- (IH (S k) cs).
  destruct (shape f) as [|n [|c [|? ?]]]; try reflexivity.
  cbn [length tk_arity tk_checks tucker_prog existsb evc ev VCoreAtIndex nth Nat.eqb orb negb andb].
  rewrite (Nat.eqb_sym (nth k cs 0) c). destruct (c =? nth k cs 0); cbn [negb andb]; [|reflexivity].
  destruct (tk_loop tucker_prog cs (S k) (map (@shape F) fs)); reflexivity.
Qed.
Theorem tucker_prog_link : forall (core : tensor) (fs : list tensor),
  run_tk tucker_prog (shape core) (map (@shape F) fs) = validate_tucker core fs.
Proof.
  intros core fs. unfold run_tk, validate_tucker, ndim. cbn [tk_min tk_same_len tucker_prog andb tk_shape_col tk_rank_col]. rewrite map_length.
  destruct (length fs <? 2); [reflexivity|]. destruct (negb (length fs =? length (shape core))); [reflexivity|]. apply tk_loop_dims.
Qed.

(* ---------- CP ---------- *)
Lemma cp_loop_shapes : forall (fs : list tensor) rank i,
  (if cp_loop cp_prog rank i (map (@shape F) fs) then Ok (map (fun s => nth 0 (cp_vars cp_prog s) 0) (map (@shape F) fs)) else Err) = cp_shapes rank fs.
Proof.
  induction fs as [|f fs IH]; intros rank i; [reflexivity|].
  cbn [map cp_loop cp_shapes]. rewrite <- (IH rank (S i)). unfold cp_factor_dims.
  destruct (shape f) as [|n [|c [|? ?]]]; try reflexivity.
  - change (cp_vars cp_prog [n]) with [n; 1].
    cbn [length cpp_arity cpp_checks cp_prog existsb evc ev VRankVar nth rbind fst snd]. change (2 =? 2) with true.
    rewrite orb_false_r, negb_involutive, (Nat.eqb_sym rank 1). cbn [andb]. destruct (1 =? rank); [|reflexivity].
    destruct (cp_loop cp_prog rank (S i) (map (@shape F) fs)); reflexivity.
  - change (cp_vars cp_prog [n; c]) with [n; c].
    cbn [length cpp_arity cpp_checks cp_prog existsb evc ev VRankVar nth rbind fst snd]. change (2 =? 2) with true.
    rewrite orb_false_r, negb_involutive, (Nat.eqb_sym rank c). cbn [andb]. destruct (c =? rank); [|reflexivity].
    destruct (cp_loop cp_prog rank (S i) (map (@shape F) fs)); reflexivity.
Qed.
Theorem cp_prog_link : forall (w : option tensor) (fs : list tensor),
  run_cp cp_prog (option_map (@shape F) w) (map (@shape F) fs) = validate_cp w fs.
Proof.
  intros w [|f0 fs]; [reflexivity|]. unfold run_cp, validate_cp. cbn [map]. unfold cp_rank_of.
  assert (Hw : forall rk, (cpp_weights_exact cp_prog && match option_map (@shape F) w with None => false | Some ws => negb (match ws with [n] => n =? rk | _ => false end) end) = negb (weights_ok w rk)).
  { intros rk. unfold weights_ok. destruct w as [wt|]; cbn [option_map cpp_weights_exact cp_prog andb negb]; reflexivity. }
  assert (HL : forall rk, (if cp_loop cp_prog rk 0 (shape f0 :: map (@shape F) fs)
                           then Ok (map (fun s => nth 0 (cp_vars cp_prog s) 0) (shape f0 :: map (@shape F) fs)) else Err) = cp_shapes rk (f0 :: fs))
    by (intros rk; exact (cp_loop_shapes (f0 :: fs) rk 0)).
  destruct (shape f0) as [|n [|c [|? ?]]] eqn:E0; try reflexivity.
  - cbn [length ra_ndim rb_ndim rb_val cp_prog]. change (1 =? 2) with false. change (1 =? 1) with true. cbv iota. cbn [rbind]. rewrite <- (HL 1).
    destruct (cp_loop cp_prog 1 0 ([n] :: map (@shape F) fs)); cbn [rbind]; [|reflexivity]. rewrite Hw. cbn [cpp_shape_col cp_prog]. destruct (weights_ok w 1); reflexivity.
  - cbn [length ra_ndim ra_col cp_prog nth]. change (2 =? 2) with true. cbv iota. cbn [rbind]. rewrite <- (HL c).
    destruct (cp_loop cp_prog c 0 ([n; c] :: map (@shape F) fs)); cbn [rbind]; [|reflexivity]. rewrite Hw. cbn [cpp_shape_col cp_prog]. destruct (weights_ok w c); reflexivity.
Qed.

(* ---------- PARAFAC2 (the orthonormality test is the model's orthonormalb, handed to the interpreter as its oracle) ---------- *)
Variable Op : fops F.
Lemma p2_loop_shapes rank K : forall (ps : list tensor) i (orth : nat -> bool),
  (forall j, j < length ps -> orth (i + j) = orthonormalb Op (nth j ps (mk [] [])) rank) ->
  p2_loop p2_prog rank orth [K] i (map (@shape F) ps) = p2_proj_shapes Op rank K ps.
Proof.
  induction ps as [|P ps IH]; intros i orth Ho; [reflexivity|].
  cbn [map p2_loop p2_proj_shapes].
  rewrite (IH (S i) orth) by (intros j Hj; replace (S i + j) with (i + S j) by lia; rewrite (Ho (S j)) by (cbn [length]; lia); reflexivity).
  pose proof (Ho 0 ltac:(cbn [length]; lia)) as H0. rewrite Nat.add_0_r in H0. cbn [nth] in H0.
  destruct (shape P) as [|j [|c [|? ?]]]; try reflexivity.
  cbn [length p2_arity p2_proj_checks p2_orth p2_shape_col p2_prog existsb evc ev VRankVar nth negb orb]. change (2 =? 2) with true.
  rewrite orb_false_r, negb_involutive, (Nat.eqb_sym rank c), H0. cbn [andb]. reflexivity.
Qed.
Theorem p2_prog_link : forall (w : option tensor) (fs ps : list tensor),
  run_p2 p2_prog (option_map (@shape F) w) (map (@shape F) fs) (map (@shape F) ps) (fun r i => orthonormalb Op (nth i ps (mk [] [])) r)
  = validate_parafac2 Op w fs ps.
Proof.
  intros w fs ps. unfold run_p2, validate_parafac2. rewrite !map_length. cbn [p2_nf p2_prog].
  destruct fs as [|A [|B [|C [|D fs']]]]; try reflexivity.
  cbn [length map nth Nat.eqb negb]. destruct (shape A) as [|nI [|rank rest]]; try reflexivity.
  destruct (negb (length ps =? nI)); [reflexivity|].
  cbn [p2_tail_from p2_fac_from p2_fac_arity p2_fac_checks p2_weights_first p2_prog skipn heads].
  destruct (shape C) as [|K sc] eqn:EC; [reflexivity|]. cbn [option_map].
  rewrite (p2_loop_shapes rank K ps 0 _ (fun j _ => eq_refl)).
  destruct (p2_proj_shapes Op rank K ps) as [shp|]; cbn [rbind]; [|reflexivity].
  assert (HB : forall T : tensor, ((length (shape T) =? 2) && negb (existsb (evc 0 0 [rank] (shape T)) [CNe VRankVar (VCur 1)])) = cols_are rank T).
  { intros T. unfold cols_are. destruct (shape T) as [|a [|c [|? ?]]]; try reflexivity.
    cbn [length existsb evc ev VRankVar nth]. change (2 =? 2) with true. rewrite orb_false_r, negb_involutive, (Nat.eqb_sym rank c). reflexivity. }
  cbn [forallb]. rewrite (HB B). rewrite <- EC, (HB C). rewrite andb_true_r. cbn [negb orb].
  assert (HW : match option_map (@shape F) w with None => true | Some (n :: _) => n =? rank | Some [] => false end = p2_weights_ok w rank).
  { unfold p2_weights_ok. destruct w as [wt|]; cbn [option_map]; [|reflexivity]. destruct (shape wt); reflexivity. }
  rewrite HW. reflexivity.
Qed.
End P.
