(* Lemmas about Model/Factorized2.v (part 23):
   (a) tucker_to_tensor(modes=ms) for ARBITRARY modes: sort_modes is Python's stable sort by mode (a permutation, sorted, and
       order-preserving among equal modes); on a non-decreasing list of modes it changes nothing (so the default modes and every
       sorted selection are covered by the unsorted fold of Model/Factorized.v); a tensor is returned only if every (factor, mode)
       pair fits the RUNNING shape (repeated modes see the size left by the previous product), and -- for a well-formed
       non-empty core and non-empty factors -- whenever they fit;
   (b) the 0-order inputs: no (weights, factors) tuple has an empty validated shape, so `if not shape` of cp_to_tensor separates
       exactly the numbers from the tuples; numbers are returned as they are. *)
From Coq Require Import List Arith ZArith Lia Bool Ring Sorting.Sorted Sorting.Permutation.
From TLV Require Import Base.Shape Base.PyList Base.Tensor Base.BigSum Base.Ops Model.Base Model.Factorized Model.Factorized2
  Proofs.BaseProofs Proofs.FactorizedProofs Proofs.FactorizedProofs5 Proofs.FactorizedProofs19 Proofs.FactorizedProofs21.
Import ListNotations.

Section P.
Variable F : Type.
Variable Op : fops F.
Notation zero := (f0 Op).
Notation tensor := (tensor F).
Notation pair := (tensor * nat)%type.

(* ---------- sort_modes = sorted(..., key = mode), stable ---------- *)
Lemma insert_mode_perm (p : pair) : forall l, Permutation (insert_mode p l) (p :: l).
Proof.
  induction l as [|q r IH]; cbn [insert_mode]; [apply Permutation_refl|].
  destruct (snd p <=? snd q); [apply Permutation_refl|].
  eapply Permutation_trans; [apply perm_skip, IH | apply perm_swap].
Qed.
Theorem sort_modes_perm : forall l : list pair, Permutation (sort_modes l) l.
Proof.
  induction l as [|p l IH]; cbn [sort_modes fold_right]; [constructor|].
  eapply Permutation_trans; [apply insert_mode_perm | apply perm_skip, IH].
Qed.

Lemma insert_mode_sorted (p : pair) : forall l, StronglySorted le (map snd l) -> StronglySorted le (map snd (insert_mode p l)).
Proof.
  induction l as [|q r IH]; intros Hs; cbn [insert_mode map].
  - constructor; constructor.
  - destruct (Nat.leb_spec (snd p) (snd q)) as [Hle|Hlt]; cbn [map].
    + constructor; [exact Hs|]. inversion Hs as [|? ? Hs' Hall]; subst. constructor; [exact Hle|].
      eapply Forall_impl; [|exact Hall]. intros a Ha. lia.
    + inversion Hs as [|? ? Hs' Hall]; subst. constructor; [now apply IH|].
      assert (Hp : Permutation (map snd (insert_mode p r)) (snd p :: map snd r)) by (change (snd p :: map snd r) with (map snd (p :: r)); apply Permutation_map, insert_mode_perm).
      apply Forall_forall. intros x Hx. apply (Permutation_in _ Hp) in Hx. destruct Hx as [<-|Hx]; [lia|].
      rewrite Forall_forall in Hall. now apply Hall.
Qed.
Theorem sort_modes_sorted : forall l : list pair, StronglySorted le (map snd (sort_modes l)).
Proof.
  induction l as [|p l IH]; cbn [sort_modes fold_right]; [constructor|]. now apply insert_mode_sorted.
Qed.

(* stability: the pairs of any one mode m keep their list order *)
Definition at_mode (m : nat) (l : list pair) : list pair := filter (fun q => snd q =? m) l.
Lemma insert_mode_stable (p : pair) m : forall l, at_mode m (insert_mode p l) = at_mode m (p :: l).
Proof.
  induction l as [|q r IH]; [reflexivity|]. cbn [insert_mode].
  destruct (Nat.leb_spec (snd p) (snd q)) as [Hle|Hlt]; [reflexivity|].
  unfold at_mode in *. cbn [filter] in *. rewrite IH.
  destruct (Nat.eqb_spec (snd p) m) as [Hp|Hp]; destruct (Nat.eqb_spec (snd q) m) as [Hq|Hq]; try reflexivity.
  exfalso; lia.
Qed.
Theorem sort_modes_stable m : forall l : list pair, at_mode m (sort_modes l) = at_mode m l.
Proof.
  induction l as [|p l IH]; [reflexivity|]. cbn [sort_modes fold_right]. rewrite insert_mode_stable.
  unfold at_mode in *. cbn [filter]. fold (sort_modes l). now rewrite IH.
Qed.

(* a non-decreasing list of modes is left as it is *)
Lemma sort_modes_id : forall l : list pair, StronglySorted le (map snd l) -> sort_modes l = l.
Proof.
  induction l as [|p l IH]; intros Hs; [reflexivity|]. cbn [sort_modes fold_right]. fold (sort_modes l).
  cbn [map] in Hs. inversion Hs as [|? ? Hs' Hall]; subst. rewrite (IH Hs').
  destruct l as [|q r]; [reflexivity|]. cbn [insert_mode]. cbn [map] in Hall. inversion Hall as [|? ? Hle _]; subst.
  apply Nat.leb_le in Hle. now rewrite Hle.
Qed.

Lemma mmd_modes_combine : forall (Ms : list tensor) ms (T : tensor),
  multi_mode_dot_modes Op T (map fst (combine Ms ms)) (map snd (combine Ms ms)) = multi_mode_dot_modes Op T Ms ms.
Proof.
  induction Ms as [|M Ms IH]; intros [|m ms] T; cbn [combine map multi_mode_dot_modes fst snd]; try reflexivity.
  destruct (negb (ndim M =? 2)); [reflexivity|]. destruct (mode_dot Op T M m); cbn [rbind]; [apply IH | reflexivity].
Qed.
Lemma map_snd_combine_firstn {A B} : forall (a : list A) (b : list B), map snd (combine a b) = firstn (length a) b.
Proof. induction a as [|x a IH]; intros [|y b]; cbn [combine map length firstn]; try reflexivity. now rewrite IH. Qed.
Lemma StronglySorted_firstn {A} (R : A -> A -> Prop) : forall n l, StronglySorted R l -> StronglySorted R (firstn n l).
Proof.
  induction n as [|n IH]; intros [|x l] Hs; cbn [firstn]; try constructor.
  - inversion Hs; subst. now apply IH.
  - inversion Hs as [|? ? _ Hall]; subst. apply Forall_forall. intros y Hy. rewrite Forall_forall in Hall. apply Hall.
    clear - Hy. revert n Hy. induction l as [|z l IHl]; intros [|n] Hy; cbn [firstn] in Hy; try contradiction.
    destruct Hy as [<-|Hy]; [now left | right; eauto].
Qed.

Theorem tucker_modes_sorted_eq (core : tensor) fs ms : StronglySorted le ms ->
  tucker_to_tensor_modes_sorted Op core fs ms = tucker_to_tensor_modes Op core fs ms.
Proof.
  intros Hs. unfold tucker_to_tensor_modes_sorted, tucker_to_tensor_modes.
  rewrite sort_modes_id; [apply mmd_modes_combine|]. rewrite map_snd_combine_firstn. now apply StronglySorted_firstn.
Qed.
Lemma seq_sorted : forall n k, StronglySorted le (seq k n).
Proof.
  induction n as [|n IH]; intros k; cbn [seq]; constructor; [apply IH|].
  apply Forall_forall. intros x Hx. apply in_seq in Hx. lia.
Qed.
Theorem tucker_modes_sorted_default (core : tensor) fs :
  tucker_to_tensor_modes_sorted Op core fs (seq 0 (length fs)) = tucker_to_tensor Op core fs None false.
Proof. rewrite tucker_modes_sorted_eq by apply seq_sorted. apply tucker_modes_default. Qed.

(* a tensor comes out only if every pair fits the running shape; its shape is the running shape at the end *)
Theorem mmd_modes_ok_fits : forall (ps : list pair) (T t : tensor),
  multi_mode_dot_modes Op T (map fst ps) (map snd ps) = Ok t -> modes_fit (shape T) ps /\ shape t = modes_shape (shape T) ps.
Proof.
  induction ps as [|[M m] ps IH]; intros T t; cbn [map fst snd multi_mode_dot_modes modes_fit modes_shape].
  - intros H; injection H as <-. auto.
  - destruct (Nat.eqb_spec (ndim M) 2) as [H2|]; cbn [negb]; [|discriminate].
    destruct (mode_dot Op T M m) as [T'|] eqn:E; cbn [rbind]; [|discriminate]. intros H.
    apply mode_dot_ok_inv in E. destruct E as (_ & Hm & Hc & Hs). destruct (IH T' t H) as [Hf Hsh].
    rewrite Hs in Hf, Hsh. unfold ndim in Hm. repeat split; auto.
Qed.
Corollary tucker_modes_sorted_ok_fits (core : tensor) fs ms (t : tensor) :
  tucker_to_tensor_modes_sorted Op core fs ms = Ok t ->
  modes_fit (shape core) (sort_modes (combine fs ms)) /\ shape t = modes_shape (shape core) (sort_modes (combine fs ms)).
Proof. apply mmd_modes_ok_fits. Qed.
Corollary tucker_modes_sorted_misfit_rejected (core : tensor) fs ms :
  ~ modes_fit (shape core) (sort_modes (combine fs ms)) -> tucker_to_tensor_modes_sorted Op core fs ms = Err.
Proof.
  intros Hn. destruct (tucker_to_tensor_modes_sorted Op core fs ms) as [t|] eqn:E; [|reflexivity].
  exfalso. apply Hn. exact (proj1 (tucker_modes_sorted_ok_fits core fs ms t E)).
Qed.

(* ---------- 0-order inputs ---------- *)
Lemma cp_shapes_length R : forall (fs : list tensor) s, cp_shapes R fs = Ok s -> length s = length fs.
Proof.
  induction fs as [|f fs IH]; intros s; cbn [cp_shapes]; [intros H; now injection H as <-|].
  destruct (cp_factor_dims f) as [nc|]; cbn [rbind]; [|discriminate]. destruct (snd nc =? R); [|discriminate].
  destruct (cp_shapes R fs) as [s'|] eqn:E; cbn [rbind]; [|discriminate]. intros H; injection H as <-. cbn [length]. now rewrite (IH s' eq_refl).
Qed.
Theorem validate_cp_shape_nonempty (w : option tensor) fs shp R : validate_cp w fs = Ok (shp, R) -> shp <> [] /\ length shp = length fs.
Proof.
  unfold validate_cp. destruct fs as [|f fs]; [discriminate|].
  destruct (cp_rank_of f) as [R'|]; cbn [rbind]; [|discriminate].
  destruct (cp_shapes R' (f :: fs)) as [s|] eqn:E; cbn [rbind]; [|discriminate].
  destruct (weights_ok w R'); [|discriminate]. intros H; injection H as -> ->.
  apply cp_shapes_length in E. cbn [length] in E. split; [|exact E]. destruct shp; [discriminate E | discriminate].
Qed.

(* a number is its own reconstruction (whatever the mask), reported as (0, 0); its vectorisation has one entry; unfolding and norm raise *)
Theorem cp_in_number (x : F) mask :
  validate_cp_in (CpNum x) = Ok ([], 0) /\ cp_to_tensor_in Op (CpNum x) mask = Ok (scalar x) /\
  cp_to_vec_in Op (CpNum x) = Ok (mk [1] [x]) /\ (forall m, cp_to_unfolded_in Op (CpNum x) m = Err) /\ cp_normsq_in Op (CpNum x) = Err.
Proof. repeat split. Qed.
(* a tuple goes through the functions of Model/Factorized.v: the `if not shape` test never fires for it *)
Theorem cp_in_tuple (w : option tensor) fs mask :
  validate_cp_in (CpTup w fs) = validate_cp w fs /\ cp_to_tensor_in Op (CpTup w fs) mask = cp_to_tensor Op w fs mask /\
  cp_to_vec_in Op (CpTup w fs) = cp_to_vec Op w fs.
Proof.
  assert (H : cp_to_tensor_in Op (CpTup w fs) mask = cp_to_tensor Op w fs mask /\ cp_to_tensor_in Op (CpTup w fs) None = cp_to_tensor Op w fs None).
  { unfold cp_to_tensor_in, cp_to_tensor, validate_cp_in.
    destruct (validate_cp w fs) as [[shp R]|] eqn:E; cbn [rbind fst]; [|split; reflexivity].
    destruct (validate_cp_shape_nonempty w fs shp R E) as [Hne _]. destruct shp as [|n shp]; [congruence|]. split; reflexivity. }
  split; [reflexivity|]. split; [exact (proj1 H)|]. unfold cp_to_vec_in, cp_to_vec, cp_to_vec_from. fold (cp_to_tensor Op w fs None). now rewrite (proj2 H).
Qed.
Theorem tt_in_number (x : F) :
  validate_tt_in (TtNum x) = Err /\ tt_to_tensor_in Op (TtNum x) = Ok (scalar x) /\ tt_to_vec_in Op (TtNum x) = Ok (mk [1] [x]) /\
  (forall m, tt_to_unfolded_in Op (TtNum x) m = Err).
Proof. repeat split. Qed.

(* ---------- fitting pairs are multiplied (well-formed non-empty core, non-empty factors) ---------- *)

Lemma mul_pos_inv a b : 0 < a * b -> 0 < a /\ 0 < b.
Proof. destruct a, b; rewrite ?Nat.mul_0_r; cbn; lia. Qed.
Lemma prod_set_nth_pos : forall k p s, 0 < p -> 0 < prod s -> 0 < prod (set_nth k p s).
Proof.
  unfold prod. induction k as [|k IH]; intros p [|x s] Hp Hs; cbn [set_nth fold_right] in *; try lia.
  all: apply mul_pos_inv in Hs; apply Nat.mul_pos_pos; try tauto; apply IH; tauto.
Qed.

Theorem mmd_modes_fits_ok : forall (ps : list pair) (T : tensor), wf T -> 0 < prod (shape T) ->
  modes_fit (shape T) ps -> Forall (fun q => 0 < nrows (fst q)) ps ->
  exists t, multi_mode_dot_modes Op T (map fst ps) (map snd ps) = Ok t /\ wf t /\ shape t = modes_shape (shape T) ps.
Proof.
  induction ps as [|[M m] ps IH]; intros T W Hpos Hf Hn; cbn [map fst snd multi_mode_dot_modes modes_fit modes_shape] in *.
  - exists T. auto.
  - destruct Hf as (H2 & Hm & Hc & Hf). inversion Hn as [|? ? Hp Hn']; subst. cbn [fst] in Hp.
    rewrite H2. cbn [Nat.eqb negb].
    assert (HM : shape M = [nrows M; ncols M]).
    { unfold ndim, nrows, ncols in *. destruct (shape M) as [|a [|b [|c l]]]; cbn [length] in H2; try discriminate. reflexivity. }
    destruct (mode_dot_spec F Op T M m (shape T) (nrows M) (ncols M) W eq_refl Hm (eq_sym Hc) HM Hpos) as (T' & E & W' & Hs & _).
    rewrite E. cbn [rbind].
    assert (Hpos' : 0 < prod (shape T')) by (rewrite Hs; now apply prod_set_nth_pos).
    rewrite <- Hs in Hf. destruct (IH T' W' Hpos' Hf Hn') as (t & Et & Wt & Hst). exists t. rewrite Hs in Hst. auto.
Qed.
End P.
