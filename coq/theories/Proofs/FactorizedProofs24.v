(* Lemmas about Model/FactorizedSrc2.v (part 24): similar validator programs have the same interpretation on EVERY input.
   Used by the per-run source tie when the program regenerated from the current Python source differs from the reference program
   only by a re-ordering of independent `if ...: raise` statements or an equivalent spelling of a condition. *)
From Coq Require Import List Arith Bool Lia.
From TLV Require Import Base.Tensor Model.FactorizedSrc Model.FactorizedSrc2.
Import ListNotations.

Lemma vexp_eqb_eq a b : vexp_eqb a b = true -> a = b.
Proof. destruct a, b; cbn [vexp_eqb]; try discriminate; try reflexivity; intros H; apply Nat.eqb_eq in H; now subst. Qed.
Lemma nats_eqb_eq : forall a b, nats_eqb a b = true -> a = b.
Proof.
  induction a as [|x a IH]; intros [|y b]; cbn [nats_eqb]; try discriminate; [reflexivity|].
  intros H. apply andb_true_iff in H as [H1 H2]. apply Nat.eqb_eq in H1. subst. now rewrite (IH b H2).
Qed.

Section E.
Variables (n i : nat) (prev cur : list nat).
Notation E := (evc n i prev cur).

Lemma vcond_norm_evc : forall c, E (vcond_norm c) = E c.
Proof.
  induction c as [a b|a b|c IHc d IHd|c IHc|a]; cbn [vcond_norm evc]; try reflexivity.
  - now rewrite IHc, IHd.
  - rewrite <- IHc. destruct (vcond_norm c); cbn [evc]; try reflexivity; now rewrite ?negb_involutive.
Qed.

Lemma vcond_sim_evc : forall c d, vcond_sim c d = true -> E c = E d.
Proof.
  induction c as [a b|a b|c1 IH1 c2 IH2|c IHc|a]; intros [a' b'|a' b'|d1 d2|d|a']; cbn [vcond_sim]; try discriminate; intros H; cbn [evc].
  - apply orb_true_iff in H as [H|H]; apply andb_true_iff in H as [H1 H2]; apply vexp_eqb_eq in H1, H2; subst; [reflexivity|].
    now rewrite Nat.eqb_sym.
  - apply orb_true_iff in H as [H|H]; apply andb_true_iff in H as [H1 H2]; apply vexp_eqb_eq in H1, H2; subst; [reflexivity|].
    now rewrite Nat.eqb_sym.
  - apply orb_true_iff in H as [H|H]; apply andb_true_iff in H as [H1 H2].
    + now rewrite (IH1 _ H1), (IH2 _ H2).
    + rewrite (IH1 _ H1), (IH2 _ H2). apply andb_comm.
  - now rewrite (IHc _ H).
  - apply vexp_eqb_eq in H. now subst.
Qed.
Lemma cond_sim_evc c d : cond_sim c d = true -> E c = E d.
Proof. intros H. rewrite <- (vcond_norm_evc c), <- (vcond_norm_evc d). now apply vcond_sim_evc. Qed.

Lemma checks_sim_existsb l1 l2 : checks_sim l1 l2 = true -> existsb E l1 = existsb E l2.
Proof.
  unfold checks_sim. intros H. apply andb_true_iff in H as [H1 H2]. rewrite forallb_forall in H1, H2.
  apply eq_true_iff_eq. rewrite !existsb_exists. split.
  - intros (c & Hc & Ec). specialize (H1 c Hc). apply existsb_exists in H1 as (d & Hd & Hs). exists d. split; [exact Hd|].
    now rewrite <- (cond_sim_evc c d Hs).
  - intros (d & Hd & Ed). specialize (H2 d Hd). apply existsb_exists in H2 as (c & Hc & Hs). exists c. split; [exact Hc|].
    now rewrite (cond_sim_evc c d Hs).
Qed.
End E.

Ltac split_ands H :=
  repeat match type of H with
         | (_ && _) = true => let H1 := fresh "Hs" in apply andb_true_iff in H as [H H1]
         end.
Ltac eqs :=
  repeat match goal with
         | H : (_ =? _) = true |- _ => apply Nat.eqb_eq in H
         | H : Bool.eqb _ _ = true |- _ => apply Bool.eqb_prop in H
         | H : nats_eqb _ _ = true |- _ => apply nats_eqb_eq in H
         end.

(* ---------- the three chain validators ---------- *)
Lemma chain_loop_sim (P Q : chainprog) : cp_arity P = cp_arity Q -> checks_sim (cp_checks P) (cp_checks Q) = true ->
  forall l n i prev, chain_loop P n i prev l = chain_loop Q n i prev l.
Proof.
  intros Ha Hc. induction l as [|cur r IH]; intros n i prev; cbn [chain_loop]; [reflexivity|].
  now rewrite Ha, (checks_sim_existsb n i prev cur _ _ Hc), IH.
Qed.
Theorem run_chain_sim (P Q : chainprog) : chainprog_sim P Q = true -> forall shapes, run_chain P shapes = run_chain Q shapes.
Proof.
  unfold chainprog_sim. intros H shapes. split_ands H. eqs. unfold run_chain.
  rewrite H. destruct (length shapes <? cp_min Q); [reflexivity|]. destruct shapes as [|s0 r]; [reflexivity|].
  rewrite (chain_loop_sim P Q Hs3 Hs2). now rewrite Hs1, Hs0, Hs.
Qed.

(* ---------- Tucker ---------- *)
Lemma tk_loop_sim (P Q : tkprog) : tk_arity P = tk_arity Q -> checks_sim (tk_checks P) (tk_checks Q) = true ->
  forall l core i, tk_loop P core i l = tk_loop Q core i l.
Proof.
  intros Ha Hc. induction l as [|cur r IH]; intros core i; cbn [tk_loop]; [reflexivity|].
  now rewrite Ha, (checks_sim_existsb 0 i [nth i core 0] cur _ _ Hc), IH.
Qed.
Theorem run_tk_sim (P Q : tkprog) : tkprog_sim P Q = true -> forall core shapes, run_tk P core shapes = run_tk Q core shapes.
Proof.
  unfold tkprog_sim. intros H core shapes. split_ands H. eqs. unfold run_tk.
  now rewrite H, Hs3, (tk_loop_sim P Q Hs2 Hs1), Hs0, Hs.
Qed.

(* ---------- CP ---------- *)
Lemma cp_loop_sim (P Q : cpprog) : pad_len P = pad_len Q -> pad_val P = pad_val Q -> cpp_arity P = cpp_arity Q ->
  checks_sim (cpp_checks P) (cpp_checks Q) = true -> forall l rank i, cp_loop P rank i l = cp_loop Q rank i l.
Proof.
  intros H1 H2 Ha Hc. induction l as [|s r IH]; intros rank i; cbn [cp_loop]; [reflexivity|].
  unfold cp_vars. rewrite H1, H2, Ha. now rewrite (checks_sim_existsb 0 i [rank] _ _ _ Hc), IH.
Qed.
Theorem run_cp_sim (P Q : cpprog) : cpprog_sim P Q = true -> forall w shapes, run_cp P w shapes = run_cp Q w shapes.
Proof.
  unfold cpprog_sim. intros H w shapes. split_ands H. eqs. unfold run_cp. destruct shapes as [|s0 r]; [reflexivity|].
  rewrite H, Hs7, Hs6, Hs5. cbv zeta.
  match goal with |- match ?X with _ => _ end = _ => destruct X as [rk|] end; [|reflexivity].
  rewrite (cp_loop_sim P Q Hs4 Hs3 Hs2 Hs1). unfold cp_vars. now rewrite Hs4, Hs3, Hs0, Hs.
Qed.

(* ---------- PARAFAC2 ---------- *)
Lemma forallb_ext' {A} (f g : A -> bool) : (forall x, f x = g x) -> forall l, forallb f l = forallb g l.
Proof. intros H. induction l as [|x l IH]; cbn [forallb]; [reflexivity|]. now rewrite H, IH. Qed.
Lemma p2_loop_sim (P Q : p2prog) : p2_arity P = p2_arity Q -> checks_sim (p2_proj_checks P) (p2_proj_checks Q) = true ->
  p2_orth P = p2_orth Q -> p2_shape_col P = p2_shape_col Q ->
  forall l rank orth tail i, p2_loop P rank orth tail i l = p2_loop Q rank orth tail i l.
Proof.
  intros Ha Hc Ho Hsc. induction l as [|cur r IH]; intros rank orth tail i; cbn [p2_loop]; [reflexivity|].
  rewrite Ha, (checks_sim_existsb 0 i [rank] cur _ _ Hc), Ho, IH.
  match goal with |- (if ?X then _ else _) = _ => destruct X end; [|reflexivity].
  destruct (p2_loop Q rank orth tail (S i) r); cbn [rbind]; try reflexivity. rewrite Hsc. reflexivity.
Qed.
Theorem run_p2_sim (P Q : p2prog) : p2prog_sim P Q = true ->
  forall w fshapes pshapes orth, run_p2 P w fshapes pshapes orth = run_p2 Q w fshapes pshapes orth.
Proof.
  unfold p2prog_sim. intros H w fshapes pshapes orth. split_ands H. eqs. unfold run_p2.
  rewrite H. destruct (negb (length fshapes =? p2_nf Q)); [reflexivity|].
  destruct (nth 0 fshapes []) as [|nI [|rank rest]]; try reflexivity.
  destruct (negb (length pshapes =? nI)); [reflexivity|]. rewrite Hs3.
  destruct (heads (skipn (p2_tail_from Q) fshapes)) as [tail|]; [|reflexivity].
  rewrite (p2_loop_sim P Q Hs7 Hs6 Hs5 Hs4). rewrite Hs2, Hs1, Hs.
  destruct (p2_loop Q rank (orth rank) tail 0 pshapes); cbn [rbind]; [|reflexivity].
  rewrite (forallb_ext' _ (fun s : list nat => (length s =? p2_fac_arity Q) && negb (existsb (evc 0 0 [rank] s) (p2_fac_checks Q)))); [reflexivity|].
  intros s. now rewrite (checks_sim_existsb 0 0 [rank] s _ _ Hs0).
Qed.

(* non-vacuity: a re-ordered, re-spelled TT validator is similar to the reference program (and not equal to it) *)
Example tt_prog_respelled_sim :
  let Q := mk_chainprog 0 3
    [CAnd (CNe (VNum 1) (VCur 2)) (CEq VNFm1 VIndex);
     CAnd (CNe (VCur 0) (VPrevAt 2)) (CNot (CEq VIndex (VNum 0)));
     CNe VNdim (VNum 3);
     CAnd (CEq VIndex (VNum 0)) (CNot (CEq (VCur 0) (VNum 1)))] [1] 0 2 in
  chainprog_sim Q tt_prog = true /\ Q <> tt_prog.
Proof. split; [vm_compute; reflexivity | discriminate]. Qed.
(* the box comparison accepts an equivalent program that is NOT similar (the redundant `index and` guard dropped), and separates a
   wrong one (the last boundary check dropped) *)
Example tt_prog_box_examples :
  let Q := mk_chainprog 0 3 [CNot (CEq VNdim (VNum 3)); CNe (VPrevAt 2) (VCur 0); CAnd (CEq VIndex (VNum 0)) (CNe (VCur 0) (VNum 1));
                             CAnd (CEq VIndex VNFm1) (CNe (VCur 2) (VNum 1))] [1] 0 2 in
  let W := mk_chainprog 0 3 [CNot (CEq VNdim (VNum 3)); CAnd (CTruthy VIndex) (CNe (VPrevAt 2) (VCur 0)); CAnd (CEq VIndex (VNum 0)) (CNe (VCur 0) (VNum 1))] [1] 0 2 in
  chainprog_sim Q tt_prog = false /\ chain_box_eqb Q tt_prog = true /\ chain_box_eqb W tt_prog = false.
Proof. vm_compute. repeat split. Qed.
