(* Lemmas about Model/Factorized2.v (part 25): the READING of ein_chain.
   Model/Factorized.ttm_to_tensor_einsum evaluates the einsum-backend tt_matrix_to_tensor by the nested sums ein_chain.  Here it is
   proved that, on every TT-matrix the route accepts, this IS np.einsum -- the generic label-level semantics Tenalg.einsum of
   Model/Tenalg.v (C02): sum over all assignments of the labels that do not occur in the output of the product of the operand entries --
   applied to the equation ttm_equation N (the equation the harness records from the current source on every run), followed by the
   transposition ttm_transposition N.  Any number N >= 1 of cores, any commutative ring. *)
From Coq Require Import List Arith ZArith Lia Bool Ring.
From TLV Require Import Base.Shape Base.PyList Base.Tensor Base.BigSum Base.Ops Model.Base Model.Factorized Model.FactorizedSrc Model.Factorized2
  Proofs.BaseProofs Proofs.BaseProofs4 Proofs.FactorizedProofs Proofs.FactorizedProofs8.
From TLV Require Model.Tenalg Proofs.TenalgProofsEinsum.
Import ListNotations.

(* ---------- label lists ---------- *)
Definition labs (k : nat) : list nat := [3 * k; 3 * k + 1; 3 * k + 2; 3 * (k + 1)].
Definition outs (k : nat) : list nat := [3 * k + 1; 3 * k + 2].
Lemma ttm_equation_eq N : ttm_equation N = (map labs (seq 0 N), flat_map outs (seq 0 N)).
Proof. reflexivity. Qed.

Lemma filter_ne_id a : forall s m, a < 3 * s -> filter (fun y => negb (y =? a)) (map (fun k => 3 * k) (seq s m)) = map (fun k => 3 * k) (seq s m).
Proof.
  intros s m. revert s. induction m as [|m IH]; intros s Ha; [reflexivity|]. cbn [seq map filter].
  destruct (Nat.eqb_spec (3 * s) a) as [E|E]; [lia|]. cbn [negb]. f_equal. apply IH. lia.
Qed.
Lemma dedup_ranks : forall n j, Tenalg.dedup (3 * j :: flat_map (fun k => [3 * k; 3 * (k + 1)]) (seq j n)) = map (fun k => 3 * k) (seq j (S n)).
Proof.
  induction n as [|n IH]; intros j.
  - reflexivity.
  - cbn [seq flat_map app]. change (Tenalg.dedup (3 * j :: 3 * j :: 3 * (j + 1) :: flat_map (fun k => [3 * k; 3 * (k + 1)]) (seq (S j) n)))
      with (3 * j :: filter (fun y => negb (y =? 3 * j)) (3 * j :: filter (fun y => negb (y =? 3 * j))
              (Tenalg.dedup (3 * (j + 1) :: flat_map (fun k => [3 * k; 3 * (k + 1)]) (seq (S j) n))))).
    replace (j + 1) with (S j) by lia. rewrite IH. rewrite filter_ne_id by lia. cbn [filter]. rewrite Nat.eqb_refl. cbn [negb].
    rewrite filter_ne_id by lia. reflexivity.
Qed.

Lemma memb_outs N l : memb l (flat_map outs (seq 0 N)) = true <-> exists k, k < N /\ (l = 3 * k + 1 \/ l = 3 * k + 2).
Proof.
  rewrite memb_In, in_flat_map. split.
  - intros (k & Hk & Hl). apply in_seq in Hk. exists k. split; [lia|]. cbn in Hl. intuition lia.
  - intros (k & Hk & Hl). exists k. split; [apply in_seq; lia|]. cbn. intuition lia.
Qed.
Lemma filter_labs N : forall n j, j + n <= N ->
  filter (fun l => negb (memb l (flat_map outs (seq 0 N)))) (concat (map labs (seq j n))) = flat_map (fun k => [3 * k; 3 * (k + 1)]) (seq j n).
Proof.
  induction n as [|n IH]; intros j Hj; [reflexivity|]. cbn [seq map concat flat_map]. unfold labs at 1. cbn [app filter].
  assert (H0 : memb (3 * j) (flat_map outs (seq 0 N)) = false).
  { destruct (memb (3 * j) _) eqn:E; [|reflexivity]. apply memb_outs in E as (k & _ & Hk). lia. }
  assert (H1 : memb (3 * j + 1) (flat_map outs (seq 0 N)) = true) by (apply memb_outs; exists j; split; lia).
  assert (H2 : memb (3 * j + 2) (flat_map outs (seq 0 N)) = true) by (apply memb_outs; exists j; split; lia).
  assert (H3 : memb (3 * (j + 1)) (flat_map outs (seq 0 N)) = false).
  { destruct (memb (3 * (j + 1)) _) eqn:E; [|reflexivity]. apply memb_outs in E as (k & _ & Hk). lia. }
  rewrite H0, H1, H2, H3. cbn [negb]. f_equal. f_equal. apply IH. lia.
Qed.
Lemma summed_ttm n : Tenalg.summed_labels (map labs (seq 0 (S n))) (flat_map outs (seq 0 (S n))) = map (fun k => 3 * k) (seq 0 (S (S n))).
Proof.
  unfold Tenalg.summed_labels. rewrite filter_labs by lia. cbn [seq flat_map app].
  change (Tenalg.dedup (3 * 0 :: 3 * (0 + 1) :: flat_map (fun k => [3 * k; 3 * (k + 1)]) (seq 1 n)))
    with (3 * 0 :: filter (fun y => negb (y =? 3 * 0)) (Tenalg.dedup (3 * 1 :: flat_map (fun k => [3 * k; 3 * (k + 1)]) (seq 1 n)))).
  rewrite dedup_ranks. rewrite filter_ne_id by lia. reflexivity.
Qed.

Section P.
Variable F : Type.
Variable Op : fops F.
Hypothesis Rth : ring_theory (f0 Op) (f1 Op) (fadd Op) (fmul Op) (fsub Op) (fopp Op) (@eq F).
Add Ring Fr25 : Rth.
Notation zero := (f0 Op).
Notation tensor := (tensor F).
Notation R := (rops_of Op).
Notation "a *f b" := (fmul Op a b) (at level 40, left associativity).

(* ---------- label sizes ---------- *)
Fixpoint lab_sizes (j : nat) (ds : list (nat * nat * nat * nat)) : list (nat * nat) :=
  match ds with
  | [] => []
  | x :: r => (3 * j, d4a x) :: (3 * j + 1, d4b x) :: (3 * j + 2, d4c x) :: (3 * (j + 1), d4e x) :: lab_sizes (S j) r
  end.
Lemma all_shape4_cons_inv (G : tensor) cs ds : all_shape4 (G :: cs) = Ok ds ->
  exists x ds', ds = x :: ds' /\ shape G = [d4a x; d4b x; d4c x; d4e x] /\ all_shape4 cs = Ok ds'.
Proof.
  cbn [all_shape4]. unfold shape4. destruct (shape G) as [|a [|b [|c [|e [|? ?]]]]]; cbn [rbind]; try discriminate.
  destruct (all_shape4 cs) as [ds'|]; cbn [rbind]; [|discriminate]. intros H; injection H as <-.
  exists (a, b, c, e), ds'. auto.
Qed.
Lemma concat_lab_sizes : forall (cs : list tensor) ds j, all_shape4 cs = Ok ds ->
  concat (map (fun p => combine (fst p) (shape (snd p))) (combine (map labs (seq j (length cs))) cs)) = lab_sizes j ds.
Proof.
  induction cs as [|G cs IH]; intros ds j H.
  - cbn in H. injection H as <-. reflexivity.
  - apply all_shape4_cons_inv in H as (x & ds' & -> & HG & H'). cbn [length seq map combine concat fst snd lab_sizes].
    rewrite HG. unfold labs at 1. cbn [combine app]. do 4 f_equal. now apply IH.
Qed.
Definition lfind (l : nat) (al : list (nat * nat)) : nat :=
  match find (fun p => Nat.eqb (fst p) l) al with Some p => snd p | None => 0 end.
Lemma lfind_first : forall ds j d, lfind (3 * j) (lab_sizes j ds) = d4a (nth 0 ds d) \/ ds = [].
Proof. intros [|x ds] j d; [now right|left]. unfold lfind. cbn [lab_sizes find fst snd nth]. now rewrite Nat.eqb_refl. Qed.
Lemma lfind_in_out : forall ds j k d, k < length ds ->
  lfind (3 * (j + k) + 1) (lab_sizes j ds) = d4b (nth k ds d) /\ lfind (3 * (j + k) + 2) (lab_sizes j ds) = d4c (nth k ds d) /\
  lfind (3 * (j + k + 1)) (lab_sizes j ds) = d4e (nth k ds d).
Proof.
  induction ds as [|x ds IH]; intros j k d Hk; cbn [length] in Hk; [lia|].
  destruct k as [|k].
  - unfold lfind. cbn [lab_sizes find fst snd nth]. replace (j + 0) with j by lia.
    destruct (Nat.eqb_spec (3 * j) (3 * j + 1)); [lia|]. destruct (Nat.eqb_spec (3 * j) (3 * j + 2)); [lia|]. destruct (Nat.eqb_spec (3 * j) (3 * (j + 1))); [lia|].
    rewrite !Nat.eqb_refl. destruct (Nat.eqb_spec (3 * j + 1) (3 * j + 2)); [lia|]. destruct (Nat.eqb_spec (3 * j + 1) (3 * (j + 1))); [lia|].
    destruct (Nat.eqb_spec (3 * j + 2) (3 * (j + 1))); [lia|]. auto.
  - destruct (IH (S j) k d ltac:(lia)) as (H1 & H2 & H3).
    replace (j + S k) with (S j + k) by lia. replace (S j + k + 1) with (S j + k + 1) in * by lia.
    unfold lfind in *. cbn [lab_sizes find fst snd nth].
    repeat match goal with |- context [Nat.eqb ?a ?b] => destruct (Nat.eqb_spec a b); [lia|] end. auto.
Qed.

(* ---------- sums over environments ---------- *)
Lemma esum_ext_off : forall ls (e : Tenalg.env) (f g : Tenalg.env -> F),
  (forall e', (forall l, ~ In l (map fst ls) -> e' l = e l) -> f e' = g e') -> Tenalg.esum R ls e f = Tenalg.esum R ls e g.
Proof.
  induction ls as [|[l n] ls IH]; intros e f g H; cbn [Tenalg.esum].
  - apply H. auto.
  - unfold Tenalg.bsum. apply (bigsum_ext F _ _). intros v _. apply IH. intros e' He'. apply H. intros l0 Hn. cbn [map fst] in Hn.
    rewrite He' by (intros Hin; apply Hn; now right). unfold Tenalg.upd. destruct (Nat.eqb_spec l0 l) as [->|]; [exfalso; apply Hn; now left | reflexivity].
Qed.
Lemma esum_scale : forall ls (e : Tenalg.env) (c : F) (f : Tenalg.env -> F),
  Tenalg.esum R ls e (fun e' => c *f f e') = c *f Tenalg.esum R ls e f.
Proof.
  induction ls as [|[l n] ls IH]; intros e c f; cbn [Tenalg.esum]; [reflexivity|].
  unfold Tenalg.bsum. rewrite <- (bigsum_scale_l F _ _ _ _ _ _ Rth). apply (bigsum_ext F _ _). intros v _. apply IH.
Qed.

(* the environment reads the in / out indices of cores j, j+1, ... from ios *)
Fixpoint env_reads (e : Tenalg.env) (j : nat) (ios : list nat) (n : nat) {struct n} : Prop :=
  match n with
  | 0 => True
  | S n' => match ios with i :: o :: ios' => e (3 * j + 1) = i /\ e (3 * j + 2) = o /\ env_reads e (S j) ios' n' | _ => False end
  end.
Lemma env_reads_ext : forall n (e e' : Tenalg.env) j ios, (forall l, 3 * j < l -> l mod 3 <> 0 -> e' l = e l) -> env_reads e j ios n -> env_reads e' j ios n.
Proof.
  induction n as [|n IH]; intros e e' j ios He H; cbn [env_reads] in *; [exact I|].
  destruct ios as [|i [|o ios']]; try contradiction. destruct H as (H1 & H2 & H3).
  assert (M1 : (3 * j + 1) mod 3 <> 0) by (rewrite Nat.add_comm, Nat.mul_comm, Nat.mod_add by lia; cbn; lia).
  assert (M2 : (3 * j + 2) mod 3 <> 0) by (rewrite Nat.add_comm, Nat.mul_comm, Nat.mod_add by lia; cbn; lia).
  rewrite !He by (try lia; assumption). repeat split; auto. apply (IH e e' (S j) ios'); [|exact H3]. intros l Hl Hm. apply He; [lia | exact Hm].
Qed.
Lemma rank_label_mod k : (3 * k) mod 3 = 0.
Proof. rewrite Nat.mul_comm. apply Nat.mod_mul. lia. Qed.

Fixpoint rank_labels (j : nat) (ds : list (nat * nat * nat * nat)) : list (nat * nat) :=
  match ds with [] => [] | x :: r => (3 * (j + 1), d4e x) :: rank_labels (S j) r end.
Lemma rank_labels_fst_gt : forall ds j l, In l (map fst (rank_labels j ds)) -> 3 * j < l /\ l mod 3 = 0.
Proof.
  induction ds as [|x ds IH]; intros j l H; cbn [rank_labels map fst] in H; [contradiction|].
  destruct H as [<-|H]; [split; [lia | apply rank_label_mod]|]. destruct (IH (S j) l H). split; [lia | assumption].
Qed.

(* the heart: summing the product of the cores j, j+1, ... over their right rank labels = the nested sums of ein_chain *)
Lemma esum_chain : forall (cs : list tensor) ds j (e : Tenalg.env) ios p,
  all_shape4 cs = Ok ds -> chain_ok4 p ds = true -> e (3 * j) < p -> env_reads e j ios (length cs) ->
  Tenalg.esum R (rank_labels j ds) e (Tenalg.term R (map labs (seq j (length cs))) cs) = ein_chain Op cs ds ios (e (3 * j)).
Proof.
  induction cs as [|G cs IH]; intros ds j e ios p Hsh Hch Ha Hr.
  - cbn in Hsh. injection Hsh as <-. reflexivity.
  - apply all_shape4_cons_inv in Hsh as (x & ds' & -> & HG & Hsh'). cbn [length env_reads] in Hr.
    destruct ios as [|i [|o ios']]; try contradiction. destruct Hr as (Hi & Ho & Hr).
    cbn [chain_ok4] in Hch. apply andb_true_iff in Hch as [Hp Hch]. apply Nat.eqb_eq in Hp.
    cbn [rank_labels Tenalg.esum ein_chain length seq map].
    assert (Hls : Factorized.label_size x ds' = d4e x).
    { unfold Factorized.label_size. destruct ds' as [|y ds'']; [reflexivity|]. cbn [chain_ok4] in Hch. apply andb_true_iff in Hch as [Hy _]. apply Nat.eqb_eq in Hy. rewrite Hy. apply Nat.max_id. }
    rewrite Hls. unfold Tenalg.bsum, fsumn. apply (bigsum_ext F _ _). intros c Hc.
    (* the first factor is constant over the remaining labels *)
    set (e1 := Tenalg.upd e (3 * (j + 1)) c).
    assert (Hterm : forall e', (forall l, ~ In l (map fst (rank_labels (S j) ds')) -> e' l = e1 l) ->
              Tenalg.term R (labs j :: map labs (seq (S j) (length cs))) (G :: cs) e' =
              get zero G [e (3 * j); i; o; c] *f Tenalg.term R (map labs (seq (S j) (length cs))) cs e').
    { intros e' He'. unfold Tenalg.term. cbn [combine map Tenalg.rprod fold_right fst snd]. unfold labs at 1. cbn [map].
      assert (Hnot : forall l, l <= 3 * (j + 1) -> ~ In l (map fst (rank_labels (S j) ds'))).
      { intros l Hl Hin. apply rank_labels_fst_gt in Hin. lia. }
      rewrite !He' by (apply Hnot; lia). unfold e1, Tenalg.upd.
      destruct (Nat.eqb_spec (3 * j) (3 * (j + 1))); [lia|]. destruct (Nat.eqb_spec (3 * j + 1) (3 * (j + 1))); [lia|].
      destruct (Nat.eqb_spec (3 * j + 2) (3 * (j + 1))); [lia|]. destruct (Nat.eqb_spec (3 * (j + 1)) (3 * (j + 1))); [|lia]. now rewrite Hi, Ho. }
    rewrite (esum_ext_off _ e1 _ _ Hterm). rewrite esum_scale.
    replace (bidx (d4a x) (e (3 * j))) with (e (3 * j)) by (unfold bidx; destruct (Nat.eqb_spec (d4a x) 1); [lia | reflexivity]).
    replace (bidx (d4e x) c) with c by (unfold bidx; destruct (Nat.eqb_spec (d4e x) 1); [lia | reflexivity]).
    f_equal.
    assert (He1 : e1 (3 * S j) = c) by (unfold e1, Tenalg.upd; replace (3 * (j + 1)) with (3 * S j) by lia; now rewrite Nat.eqb_refl).
    rewrite <- He1. apply (IH ds' (S j) e1 ios' (d4e x) Hsh' Hch).
    + rewrite He1. exact Hc.
    + apply (env_reads_ext _ e e1 (S j) ios'); [|exact Hr]. intros l Hl Hm. unfold e1, Tenalg.upd.
      destruct (Nat.eqb_spec l (3 * (j + 1))) as [->|]; [exfalso; apply Hm; apply rank_label_mod | reflexivity].
Qed.

(* bind (out labels) idx reads idx back *)
Lemma bind_outs_reads : forall n j ios (e0 : Tenalg.env), length ios = 2 * n -> env_reads (Tenalg.bind (flat_map outs (seq j n)) ios e0) j ios n.
Proof.
  induction n as [|n IH]; intros j ios e0 Hl; [exact I|].
  replace (2 * S n) with (S (S (2 * n))) in Hl by lia. destruct ios as [|i [|o ios']]; cbn [length] in Hl; try lia.
  cbn [seq flat_map outs app Tenalg.bind env_reads].
  split; [unfold Tenalg.upd; now rewrite Nat.eqb_refl|].
  split; [unfold Tenalg.upd; destruct (Nat.eqb_spec (3 * j + 2) (3 * j + 1)); [lia|]; now rewrite Nat.eqb_refl|].
  apply (env_reads_ext _ (Tenalg.bind (flat_map outs (seq (S j) n)) ios' e0)); [|apply IH; lia].
  intros l Hl' _. unfold Tenalg.upd. destruct (Nat.eqb_spec l (3 * j + 1)); [lia|]. destruct (Nat.eqb_spec l (3 * j + 2)); [lia|]. reflexivity.
Qed.

(* ---------- assembling: sizes of the labels, the list of summed labels ---------- *)
Lemma flat_map_shift {B} (f : nat -> list B) : forall (l : list nat), flat_map f (map S l) = flat_map (fun k => f (S k)) l.
Proof. induction l as [|a l IH]; cbn [map flat_map]; [reflexivity | now rewrite IH]. Qed.
Lemma flat_map_nth {A B} (g : A -> list B) (d : A) : forall l, flat_map g l = flat_map (fun k => g (nth k l d)) (seq 0 (length l)).
Proof.
  induction l as [|x l IH]; [reflexivity|]. cbn [length seq flat_map nth]. rewrite <- seq_shift, flat_map_shift. cbn [nth]. now rewrite <- IH.
Qed.
Lemma rank_labels_seq d : forall ds j, rank_labels j ds = map (fun k => (3 * (j + k + 1), d4e (nth k ds d))) (seq 0 (length ds)).
Proof.
  induction ds as [|x ds IH]; intros j; [reflexivity|]. cbn [rank_labels length seq map nth]. rewrite IH, <- seq_shift, map_map.
  f_equal; [f_equal; f_equal; lia|]. apply map_ext. intros k. cbn [nth]. f_equal. lia.
Qed.
Lemma map_flat_map {A B C} (h : B -> C) (f : A -> list B) : forall l, map h (flat_map f l) = flat_map (fun a => map h (f a)) l.
Proof. induction l as [|a l IH]; cbn [flat_map]; [reflexivity | now rewrite map_app, IH]. Qed.

Lemma label_size_lfind (cs : list tensor) ds l : all_shape4 cs = Ok ds ->
  Tenalg.label_size (map labs (seq 0 (length cs))) cs l = lfind l (lab_sizes 0 ds).
Proof. intros H. unfold Tenalg.label_size, lfind. now rewrite (concat_lab_sizes cs ds 0 H). Qed.
Lemma all_shape4_length : forall (cs : list tensor) ds, all_shape4 cs = Ok ds -> length ds = length cs.
Proof.
  induction cs as [|G cs IH]; intros ds H; [cbn in H; now injection H as <-|].
  apply all_shape4_cons_inv in H as (x & ds' & -> & _ & H'). cbn [length]. now rewrite (IH ds' H').
Qed.

Lemma flat_map_ext_in {A B} (f g : A -> list B) : forall l, (forall a, In a l -> f a = g a) -> flat_map f l = flat_map g l.
Proof. induction l as [|a l IH]; intros H; cbn [flat_map]; [reflexivity|]. rewrite (H a) by now left. f_equal. apply IH. intros b Hb. apply H. now right. Qed.

Theorem ein_chain_is_einsum (cs : list tensor) ds x0 : all_shape4 cs = Ok ds -> cs <> [] -> chain_ok4 (d4a (hd x0 ds)) ds = true ->
  Tenalg.einsum R (map labs (seq 0 (length cs))) (flat_map outs (seq 0 (length cs))) cs =
  tabulate (flat_map (fun x => [d4b x; d4c x]) ds) (fun idx => fsumn Op (d4a (hd x0 ds)) (fun a => ein_chain Op cs ds idx a)).
Proof.
  intros Hsh Hne Hch. pose proof (all_shape4_length cs ds Hsh) as Hlen.
  destruct cs as [|G cs']; [congruence|]. remember (G :: cs') as cs eqn:Ecs. remember (length cs) as N eqn:EN.
  assert (HN : N = S (length cs')) by (subst; reflexivity).
  destruct ds as [|x ds']; [subst; cbn in Hlen; lia|]. remember (x :: ds') as ds eqn:Eds.
  assert (Hhd : hd x0 ds = x) by (subst; reflexivity). rewrite Hhd in *.
  unfold Tenalg.einsum.
  assert (Hsz : forall l, Tenalg.label_size (map labs (seq 0 N)) cs l = lfind l (lab_sizes 0 ds)) by (intros l; rewrite EN; now apply label_size_lfind).
  (* the shape of the result *)
  assert (C1 : map (Tenalg.label_size (map labs (seq 0 N)) cs) (flat_map outs (seq 0 N)) = flat_map (fun x => [d4b x; d4c x]) ds).
  { rewrite (flat_map_nth (fun x => [d4b x; d4c x]) x0 ds), Hlen. rewrite map_flat_map. apply flat_map_ext_in. intros k Hk. apply in_seq in Hk.
    destruct (lfind_in_out ds 0 k x0 ltac:(lia)) as (H1 & H2 & _). unfold outs. cbn [map]. rewrite !Hsz. cbn [Nat.add] in H1, H2. now rewrite H1, H2. }
  rewrite C1.
  (* the summed labels with their sizes *)
  assert (C2 : map (fun l => (l, Tenalg.label_size (map labs (seq 0 N)) cs l)) (Tenalg.summed_labels (map labs (seq 0 N)) (flat_map outs (seq 0 N)))
               = (3 * 0, d4a x) :: rank_labels 0 ds).
  { rewrite HN, summed_ttm. rewrite <- HN. cbn [seq map]. f_equal.
    - f_equal. rewrite Hsz. destruct (lfind_first ds 0 x0) as [H|H]; [|subst; discriminate]. rewrite H. subst ds. reflexivity.
    - rewrite (rank_labels_seq x0), Hlen, <- seq_shift, !map_map. apply map_ext_in. intros k Hk. apply in_seq in Hk.
      destruct (lfind_in_out ds 0 k x0 ltac:(lia)) as (_ & _ & H3). cbn [Nat.add] in H3. rewrite Hsz.
      replace (3 * S k) with (3 * (k + 1)) by lia. rewrite H3. f_equal. }
  rewrite C2. apply tabulate_ext. intros idx Hidx. cbn [Tenalg.esum]. unfold Tenalg.bsum, fsumn. apply (bigsum_ext F _ _). intros a Ha.
  set (e := Tenalg.upd (Tenalg.bind (flat_map outs (seq 0 N)) idx (fun _ => 0)) (3 * 0) a).
  assert (He0 : e (3 * 0) = a) by (unfold e, Tenalg.upd; now rewrite Nat.eqb_refl).
  rewrite <- He0. rewrite EN. apply (esum_chain cs ds 0 e idx (d4a x) Hsh Hch); [rewrite He0; exact Ha|]. rewrite <- EN.
  apply (env_reads_ext _ (Tenalg.bind (flat_map outs (seq 0 N)) idx (fun _ => 0))).
  - intros l Hl _. unfold e, Tenalg.upd. destruct (Nat.eqb_spec l (3 * 0)); [lia | reflexivity].
  - apply bind_outs_reads. rewrite (inb_length _ _ Hidx). rewrite <- Hlen. clear. induction ds as [|y ds IH]; [reflexivity|]. cbn [flat_map app length]. rewrite IH. lia.
Qed.

(* the model's einsum route IS np.einsum(ttm_equation N) + np.transpose(ttm_transposition N) on whatever it accepts *)
Theorem ttm_einsum_is_np_einsum (cs : list tensor) (t : tensor) :
  ttm_to_tensor_einsum Op cs = Ok t -> t = ttm_einsum_generic Op cs.
Proof.
  unfold ttm_to_tensor_einsum. destruct (validate_ttm cs) as [sr|] eqn:Ev; cbn [rbind]; [|discriminate].
  unfold validate_ttm in Ev. destruct cs as [|G cs']; [discriminate|].
  unfold ttm_to_tensor_einsum_raw. cbv beta iota. set (cs := G :: cs') in *.
  destruct (all_shape4 cs) as [ds|] eqn:Hsh; cbn [rbind] in *; [|discriminate].
  destruct (chain_ok4 1 ds && (d4e (last ds (0, 0, 0, 0)) =? 1)) eqn:Eok; [|discriminate]. apply andb_true_iff in Eok as [Hch _].
  destruct (ein_ok ds); [|discriminate]. intros H; injection H as <-.
  unfold ttm_einsum_generic. rewrite ttm_equation_eq. cbn [fst snd].
  assert (Hne : cs <> []) by (unfold cs; discriminate).
  assert (Hr0 : d4a (hd (0, 0, 0, 0) ds) = 1).
  { destruct ds as [|x ds']; [apply all_shape4_length in Hsh; unfold cs in Hsh; cbn in Hsh; lia|]. cbn [chain_ok4] in Hch. apply andb_true_iff in Hch as [H1 _]. now apply Nat.eqb_eq in H1. }
  rewrite (ein_chain_is_einsum cs ds (0, 0, 0, 0) Hsh Hne) by (now rewrite Hr0). reflexivity.
Qed.
End P.
