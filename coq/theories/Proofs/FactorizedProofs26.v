(* Lemmas about Model/Factorized2.v (part 26): cp_norm on a carrier with a conjugation cj (a ring homomorphism: complex numbers,
   Gaussian integers).  With the weights conjugated on one side the Gram-Hadamard number is the sum over all entries of
   entry * cj(entry) = |entry|^2, every order, weights included.  The code multiplies by w_r * w_s WITHOUT conjugation: equal whenever
   the weights are self-conjugate (real weights, weights=None), refuted at the Gaussian integers by the weight i. *)
From Coq Require Import List Arith ZArith Lia Bool Ring.
From TLV Require Import Base.Shape Base.PyList Base.Tensor Base.BigSum Base.Ops Model.Base Model.Factorized Model.Factorized2
  Proofs.BaseProofs Proofs.FactorizedProofs Proofs.FactorizedProofs5 Proofs.FactorizedProofs6.
From TLV Require Model.Tenalg.
Import ListNotations.

Section P.
Variable F : Type.
Variable Op : fops F.
Hypothesis Rth : ring_theory (f0 Op) (f1 Op) (fadd Op) (fmul Op) (fsub Op) (fopp Op) (@eq F).
Add Ring Fr26 : Rth.
Variable cj : F -> F.
Hypothesis cj_0 : cj (f0 Op) = f0 Op.
Hypothesis cj_1 : cj (f1 Op) = f1 Op.
Hypothesis cj_add : forall a b, cj (fadd Op a b) = fadd Op (cj a) (cj b).
Hypothesis cj_mul : forall a b, cj (fmul Op a b) = fmul Op (cj a) (cj b).
Notation zero := (f0 Op).
Notation one := (f1 Op).
Notation "a *f b" := (fmul Op a b) (at level 40, left associativity).
Notation "a +f b" := (fadd Op a b) (at level 50, left associativity).
Notation tensor := (tensor F).
Notation fsumn := (fsumn Op).
Notation get2 := (get2 Op).
Notation fsum_idx := (sum_idx F (f0 Op) (fadd Op)).
Notation prod_entries := (prod_entries F Op).
Notation mats := (mats F).
Notation cp_entry := (cp_entry F Op).

Lemma cj_fsumn n f : cj (fsumn n f) = fsumn n (fun i => cj (f i)).
Proof. unfold Factorized.fsumn. induction n as [|n IH]; cbn [bigsum]; [exact cj_0|]. now rewrite cj_add, IH. Qed.

Lemma gram_prod_c R r s : forall fs shp, mats R fs shp ->
  fsum_idx shp (fun idx => prod_entries fs idx r *f cj (prod_entries fs idx s)) =
  fold_right (fun f acc => gram_c Op cj f r s *f acc) one fs.
Proof.
  induction 1 as [|f n fs shp Hf Hrest IH].
  - rewrite (fsum_idx_nil F Op Rth). simpl. rewrite cj_1. ring.
  - rewrite (fsum_idx_cons F Op Rth). cbn [fold_right]. rewrite <- IH.
    unfold gram_c, nrows. rewrite Hf. cbn [nth]. rewrite <- (fsumn_scale_r F Op Rth).
    apply (fsumn_ext F Op); intros i Hi. rewrite <- (fsum_idx_scale_l F Op Rth).
    apply (fsum_idx_ext F Op); intros idx Hidx. cbn [FactorizedProofs.prod_entries]. rewrite cj_mul. ring.
Qed.
Lemma fold_left_gram_c r s : forall (fs : list tensor) a,
  fold_left (fun acc f => acc *f gram_c Op cj f r s) fs a = a *f fold_right (fun f acc => gram_c Op cj f r s *f acc) one fs.
Proof. induction fs as [|f fs IH]; intros a; simpl; [ring | rewrite IH; ring]. Qed.

(* the Gram-Hadamard number with w_r * cj(w_s) = sum over all entries of entry * cj(entry) *)
Theorem cp_normsq_conj_spec (w : option tensor) fs shp R :
  validate_cp w fs = Ok (shp, R) -> Forall (fun f => ndim f = 2) fs ->
  cp_normsq_conj Op cj true w fs = Ok (fsum_idx shp (fun idx => cp_entry w fs R idx *f cj (cp_entry w fs R idx))).
Proof.
  intros Hv H2. pose proof (valid_mats F _ _ _ _ Hv H2) as Hm.
  unfold cp_normsq_conj, cp_normsq_conj_from. rewrite Hv. cbn [rbind]. rewrite (as_matrices_id F _ H2).
  assert (Hhd : (ndim (hd (mk [] []) fs) =? 2) = true).
  { destruct fs as [|f fs']; [inversion Hm; subst; discriminate Hv|]. inversion H2; subst. cbn [hd]. now apply Nat.eqb_eq. }
  rewrite Hhd. cbn [negb]. f_equal.
  assert (HR : ncols (hd (mk [] []) fs) = R).
  { destruct fs as [|f fs]; [inversion Hm; subst; discriminate Hv|]. inversion Hm; subst. unfold ncols. cbn [hd].
    match goal with H : shape f = _ |- _ => rewrite H end. reflexivity. }
  rewrite HR. symmetry.
  rewrite (fsum_idx_ext F Op shp _ (fun idx => fsumn R (fun r => fsumn R (fun s =>
     (wv Op w r *f cj (wv Op w s)) *f (prod_entries fs idx r *f cj (prod_entries fs idx s)))))).
  2:{ intros idx Hidx. unfold FactorizedProofs.cp_entry. rewrite cj_fsumn. rewrite <- (fsumn_scale_r F Op Rth).
      apply (fsumn_ext F Op); intros r Hr. rewrite <- (fsumn_scale_l F Op Rth).
      apply (fsumn_ext F Op); intros s Hs. rewrite cj_mul. ring. }
  rewrite (sum_idx_fsumn F Op Rth). apply (fsumn_ext F Op); intros r Hr.
  rewrite (sum_idx_fsumn F Op Rth). apply (fsumn_ext F Op); intros s Hs.
  rewrite (fsum_idx_scale_l F Op Rth), (gram_prod_c R r s fs shp Hm), fold_left_gram_c. ring.
Qed.

(* the code as it is (weights not conjugated) computes the same number whenever the weights are self-conjugate *)
Theorem cp_normsq_as_written_partial (w : option tensor) fs :
  (forall s, cj (wv Op w s) = wv Op w s) -> cp_normsq_conj Op cj false w fs = cp_normsq_conj Op cj true w fs.
Proof.
  intros Hw. unfold cp_normsq_conj, cp_normsq_conj_from. destruct (validate_cp w fs); cbn [rbind]; [|reflexivity].
  destruct (negb (ndim (hd (mk [] []) (as_matrices fs)) =? 2)); [reflexivity|]. f_equal.
  apply (fsumn_ext F Op); intros r _. apply (fsumn_ext F Op); intros s _. now rewrite Hw.
Qed.
Corollary cp_normsq_as_written_no_weights fs : cp_normsq_conj Op cj false None fs = cp_normsq_conj Op cj true None fs.
Proof. apply cp_normsq_as_written_partial. intros s. exact cj_1. Qed.
End P.

(* with the identity as conjugation this is the real model cp_normsq of Model/Factorized.v *)
Lemma cp_normsq_conj_id {F} (Op : fops F) b w fs : cp_normsq_conj Op (fun x => x) b w fs = cp_normsq Op w fs.
Proof. unfold cp_normsq_conj, cp_normsq_conj_from, cp_normsq, cp_normsq_from. destruct b; reflexivity. Qed.

(* ---------- the Gaussian integers ---------- *)
Lemma GI_ring : ring_theory (f0 GIops) (f1 GIops) (fadd GIops) (fmul GIops) (fsub GIops) (fopp GIops) (@eq Tenalg.GI).
Proof.
  constructor; intros; repeat match goal with x : Tenalg.GI |- _ => destruct x end; cbv -[Z.add Z.mul Z.sub Z.opp]; try reflexivity; f_equal; ring.
Qed.
Lemma gconj_hom : gconj (f0 GIops) = f0 GIops /\ gconj (f1 GIops) = f1 GIops /\
  (forall a b, gconj (fadd GIops a b) = fadd GIops (gconj a) (gconj b)) /\ (forall a b, gconj (fmul GIops a b) = fmul GIops (gconj a) (gconj b)).
Proof. repeat split; intros; repeat match goal with x : Tenalg.GI |- _ => destruct x end; cbv -[Z.add Z.mul Z.sub Z.opp]; try reflexivity; f_equal; ring. Qed.

(* the defect: the order-1, rank-1 CP tensor with weight i and factor [1] is the vector [i], of squared norm 1; the Gram-Hadamard
   number with un-conjugated weights is i * i = -1 (cp_norm returns sqrt(-1) = 1j) *)
Theorem cp_norm_complex_weights_refuted :
  exists (w : tensor Tenalg.GI) (fs : list (tensor Tenalg.GI)) t,
    cp_to_tensor GIops (Some w) fs None = Ok t /\ data t = [(0, 1)%Z] /\
    cp_normsq_conj GIops gconj false (Some w) fs = Ok (-1, 0)%Z /\
    cp_normsq_conj GIops gconj true (Some w) fs = Ok (1, 0)%Z.
Proof.
  exists (mk [1] [(0, 1)%Z]), [mk [1; 1] [(1, 0)%Z]]. eexists. split; [vm_compute; reflexivity|]. repeat split; vm_compute; reflexivity.
Qed.
