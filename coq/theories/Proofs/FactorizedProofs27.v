(* Lemmas about Model/Factorized2.v (part 27): for pairwise DISTINCT modes the order of the mode products does not matter.
   mode products along different modes commute (as tensors: same shape, same entries, by exchanging the two sums), hence the fold over
   any permutation of the (factor, mode) pairs returns the same tensor -- in particular the stably sorted order multi_mode_dot uses and the
   list order of Model/Factorized.tucker_to_tensor_modes.  Hypotheses: a commutative ring, a well-formed non-empty core, every factor a
   non-empty matrix whose column count is the core's size along its mode (the operands on which a tensor is returned at all). *)
From Coq Require Import List Arith ZArith Lia Bool Ring Sorting.Permutation.
From TLV Require Import Base.Shape Base.PyList Base.Tensor Base.BigSum Base.Ops Model.Base Model.Factorized Model.Factorized2
  Proofs.BaseProofs Proofs.FactorizedProofs Proofs.FactorizedProofs5 Proofs.FactorizedProofs23.
Import ListNotations.

Lemma set_nth_comm' {A} (a b : A) : forall m m' l, m <> m' -> set_nth m a (set_nth m' b l) = set_nth m' b (set_nth m a l).
Proof.
  induction m as [|m IH]; intros [|m'] [|x l] H; cbn [set_nth]; try reflexivity; try lia.
  f_equal. apply IH. lia.
Qed.
Lemma inb_set_nth_back' k : forall s idx dv v, k < length s -> inb (set_nth k dv s) idx -> v < nth k s 0 -> inb s (set_nth k v idx).
Proof.
  induction k as [|k IH]; intros [|x s] [|i idx] dv v Hk Hi Hv; cbn [set_nth inb length nth] in *; try lia; try tauto.
  destruct Hi as [Hi1 Hi2]. split; [exact Hi1|]. apply (IH s idx dv v); [lia | exact Hi2 | exact Hv].
Qed.

Section P.
Variable F : Type.
Variable Op : fops F.
Hypothesis Rth : ring_theory (f0 Op) (f1 Op) (fadd Op) (fmul Op) (fsub Op) (fopp Op) (@eq F).
Add Ring Fr27 : Rth.
Notation zero := (f0 Op).
Notation "a *f b" := (fmul Op a b) (at level 40, left associativity).
Notation tensor := (tensor F).
Notation fsumn := (fsumn Op).
Notation get2 := (get2 Op).
Notation pair := (tensor * nat)%type.

Lemma mode_dot_comm (T M1 M2 : tensor) m1 m2 p1 p2 :
  wf T -> 0 < prod (shape T) -> m1 <> m2 -> m1 < length (shape T) -> m2 < length (shape T) ->
  shape M1 = [p1; nth m1 (shape T) 0] -> shape M2 = [p2; nth m2 (shape T) 0] -> 0 < p1 -> 0 < p2 ->
  exists t, rbind (mode_dot Op T M1 m1) (fun T' => mode_dot Op T' M2 m2) = Ok t /\
            rbind (mode_dot Op T M2 m2) (fun T' => mode_dot Op T' M1 m1) = Ok t.
Proof.
  intros W Hpos Hne H1 H2 HM1 HM2 Hp1 Hp2. set (s := shape T) in *. set (c1 := nth m1 s 0) in *. set (c2 := nth m2 s 0) in *.
  destruct (mode_dot_spec F Op T M1 m1 s p1 c1 W eq_refl H1 eq_refl HM1 Hpos) as (t1 & E1 & W1 & S1 & G1).
  destruct (mode_dot_spec F Op T M2 m2 s p2 c2 W eq_refl H2 eq_refl HM2 Hpos) as (t2 & E2 & W2 & S2 & G2).
  assert (Hc2 : nth m2 (set_nth m1 p1 s) 0 = c2) by (apply nth_set_nth_other; congruence).
  assert (Hc1 : nth m1 (set_nth m2 p2 s) 0 = c1) by (apply nth_set_nth_other; congruence).
  assert (L1 : m2 < length (set_nth m1 p1 s)) by now rewrite set_nth_length.
  assert (L2 : m1 < length (set_nth m2 p2 s)) by now rewrite set_nth_length.
  destruct (mode_dot_spec F Op t1 M2 m2 (set_nth m1 p1 s) p2 c2 W1 S1 L1 Hc2 HM2 (prod_set_nth_pos m1 p1 s Hp1 Hpos)) as (t12 & E12 & W12 & S12 & G12).
  destruct (mode_dot_spec F Op t2 M1 m1 (set_nth m2 p2 s) p1 c1 W2 S2 L2 Hc1 HM1 (prod_set_nth_pos m2 p2 s Hp2 Hpos)) as (t21 & E21 & W21 & S21 & G21).
  exists t12. rewrite E1, E2. cbn [rbind]. rewrite E12, E21. split; [reflexivity|]. f_equal. symmetry.
  apply (tensor_ext zero); [exact W12 | exact W21 | rewrite S12, S21; apply set_nth_comm'; congruence |].
  rewrite S12. intros idx Hi.
  assert (Hi' : inb (set_nth m1 p1 (set_nth m2 p2 s)) idx) by (rewrite set_nth_comm' by congruence; exact Hi).
  rewrite (G12 idx Hi), (G21 idx Hi').
  (* expand the inner products *)
  rewrite (fsumn_ext F Op c2 _ (fun k => fsumn c1 (fun j => get2 M2 (nth m2 idx 0) k *f (get2 M1 (nth m1 idx 0) j *f get zero T (set_nth m1 j (set_nth m2 k idx)))))).
  2:{ intros k Hk. rewrite G1 by (apply (inb_set_nth_back' m2 _ idx p2 k); [exact L1 | exact Hi | now rewrite Hc2]).
      rewrite <- (fsumn_scale_l F Op Rth). apply (fsumn_ext F Op). intros j Hj. rewrite nth_set_nth_other by congruence. reflexivity. }
  rewrite (fsumn_ext F Op c1 _ (fun j => fsumn c2 (fun k => get2 M2 (nth m2 idx 0) k *f (get2 M1 (nth m1 idx 0) j *f get zero T (set_nth m1 j (set_nth m2 k idx)))))).
  2:{ intros j Hj. rewrite G2 by (apply (inb_set_nth_back' m1 _ idx p1 j); [exact L2 | exact Hi' | now rewrite Hc1]).
      rewrite <- (fsumn_scale_l F Op Rth). apply (fsumn_ext F Op). intros k Hk. rewrite nth_set_nth_other by congruence.
      rewrite (set_nth_comm' k j m2 m1 idx) by congruence. ring. }
  unfold Factorized.fsumn. apply (bigsum_exchange F _ _ _ _ _ _ Rth).
Qed.


Lemma set_nth_set_nth {A} (a b : A) : forall m l, set_nth m a (set_nth m b l) = set_nth m a l.
Proof. induction m as [|m IH]; intros [|x l]; cbn [set_nth]; try reflexivity. f_equal. apply IH. Qed.

(* two products along the SAME mode (what a repeated mode in tucker_to_tensor(modes=...) means): the product with the matrix product *)
Theorem mode_dot_twice (T M1 M2 : tensor) m p1 p2 :
  wf T -> 0 < prod (shape T) -> m < length (shape T) -> shape M1 = [p1; nth m (shape T) 0] -> shape M2 = [p2; p1] -> 0 < p1 ->
  exists t M21, mdot Op M2 M1 = Ok M21 /\ rbind (mode_dot Op T M1 m) (fun T' => mode_dot Op T' M2 m) = Ok t /\ mode_dot Op T M21 m = Ok t.
Proof.
  intros W Hpos Hm HM1 HM2 Hp1. set (s := shape T) in *. set (c := nth m s 0) in *.
  pose proof (mdot_ok F Op M2 M1 p2 p1 c HM2 HM1) as E21.
  set (M21 := tabulate [p2; c] (fun idx => fsumn p1 (fun l => get2 M2 (ix 0 idx) l *f get2 M1 l (ix 1 idx)))) in *.
  destruct (mode_dot_spec F Op T M1 m s p1 c W eq_refl Hm eq_refl HM1 Hpos) as (t1 & E1 & W1 & S1 & G1).
  assert (L1 : m < length (set_nth m p1 s)) by now rewrite set_nth_length.
  assert (Hc1 : nth m (set_nth m p1 s) 0 = p1) by now apply nth_set_nth_same.
  destruct (mode_dot_spec F Op t1 M2 m (set_nth m p1 s) p2 p1 W1 S1 L1 Hc1 HM2 (prod_set_nth_pos m p1 s Hp1 Hpos)) as (t12 & E12 & W12 & S12 & G12).
  destruct (mode_dot_spec F Op T M21 m s p2 c W eq_refl Hm eq_refl eq_refl Hpos) as (t3 & E3 & W3 & S3 & G3).
  exists t12, M21. split; [exact E21|]. rewrite E1. cbn [rbind]. rewrite E12, E3. split; [reflexivity|]. f_equal. symmetry.
  rewrite set_nth_set_nth in S12, G12.
  apply (tensor_ext zero); [exact W12 | exact W3 | now rewrite S12, S3 |].
  rewrite S12. intros idx Hi. rewrite (G12 idx Hi), (G3 idx Hi).
  assert (Hlen : m < length idx) by (rewrite (inb_length _ _ Hi), set_nth_length; exact Hm).
  assert (Hi2 : nth m idx 0 < p2).
  { replace p2 with (nth m (set_nth m p2 s) 0) by (now apply nth_set_nth_same). apply inb_nth; [exact Hi | now rewrite set_nth_length]. }
  rewrite (fsumn_ext F Op p1 _ (fun k => fsumn c (fun j => get2 M2 (nth m idx 0) k *f get2 M1 k j *f get zero T (set_nth m j idx)))).
  2:{ intros k Hk. rewrite G1.
      - rewrite <- (fsumn_scale_l F Op Rth). apply (fsumn_ext F Op). intros j Hj.
        rewrite nth_set_nth_same by exact Hlen. rewrite set_nth_set_nth. ring.
      - apply (inb_set_nth_back' m _ idx p2 k); [exact L1 | now rewrite set_nth_set_nth | now rewrite Hc1]. }
  rewrite (fsumn_ext F Op c (fun j => get2 M21 (nth m idx 0) j *f get zero T (set_nth m j idx))
            (fun j => fsumn p1 (fun k => get2 M2 (nth m idx 0) k *f get2 M1 k j *f get zero T (set_nth m j idx)))).
  2:{ intros j Hj. unfold M21. rewrite (get2_tab F Op) by assumption. unfold ix. cbn [nth]. now rewrite <- (fsumn_scale_r F Op Rth). }
  unfold Factorized.fsumn. apply (bigsum_exchange F _ _ _ _ _ _ Rth).
Qed.

(* a pair fits the core itself: a non-empty matrix whose column count is the core's size along its mode *)
Definition fit1 (s : list nat) (q : pair) : Prop :=
  ndim (fst q) = 2 /\ snd q < length s /\ ncols (fst q) = nth (snd q) s 0 /\ 0 < nrows (fst q).
Definition mmd (T : tensor) (ps : list pair) : res tensor := multi_mode_dot_modes Op T (map fst ps) (map snd ps).

Lemma shape_matrix (M : tensor) : ndim M = 2 -> shape M = [nrows M; ncols M].
Proof. unfold ndim, nrows, ncols. destruct (shape M) as [|a [|b [|c l]]]; cbn [length]; try discriminate. reflexivity. Qed.

Lemma mmd_cons (T : tensor) (M : tensor) m ps : fit1 (shape T) (M, m) -> wf T -> 0 < prod (shape T) ->
  exists T', mode_dot Op T M m = Ok T' /\ mmd T ((M, m) :: ps) = mmd T' ps /\ wf T' /\ shape T' = set_nth m (nrows M) (shape T) /\ 0 < prod (shape T').
Proof.
  intros (H2 & Hm & Hc & Hp) W Hpos. cbn [fst snd] in *.
  destruct (mode_dot_spec F Op T M m (shape T) (nrows M) (ncols M) W eq_refl Hm (eq_sym Hc) (shape_matrix M H2) Hpos) as (T' & E & W' & S' & _).
  exists T'. split; [exact E|]. split.
  - unfold mmd. cbn [map fst snd multi_mode_dot_modes]. rewrite H2. cbn [Nat.eqb negb]. now rewrite E.
  - split; [exact W'|]. split; [exact S'|]. rewrite S'. now apply prod_set_nth_pos.
Qed.
Lemma fit1_other (s : list nat) m p (q : pair) : snd q <> m -> fit1 s q -> fit1 (set_nth m p s) q.
Proof. intros Hne (A & B & C & D). unfold fit1. rewrite set_nth_length, nth_set_nth_other by exact Hne. auto. Qed.
Lemma fits_after (s : list nat) m p (l : list pair) : ~ In m (map snd l) -> Forall (fit1 s) l -> Forall (fit1 (set_nth m p s)) l.
Proof.
  intros Hn Hf. apply Forall_forall. intros q Hq. rewrite Forall_forall in Hf. apply fit1_other; [|now apply Hf].
  intros E. apply Hn. rewrite <- E. now apply in_map.
Qed.

Theorem mmd_perm : forall ps ps', Permutation ps ps' -> forall T, wf T -> 0 < prod (shape T) ->
  Forall (fit1 (shape T)) ps -> NoDup (map snd ps) -> mmd T ps = mmd T ps'.
Proof.
  induction 1 as [|[M m] l l' Hperm IH|[M1 m1] [M2 m2] l|l l' l'' H1 IH1 H2 IH2]; intros T W Hpos Hf Hnd.
  - reflexivity.
  - inversion Hf as [|? ? Hx Hl]; subst. cbn [map snd] in Hnd. inversion Hnd as [|? ? Hnin Hnd']; subst.
    destruct (mmd_cons T M m l Hx W Hpos) as (T' & E & E1 & W' & S' & P').
    destruct (mmd_cons T M m l' Hx W Hpos) as (T'' & E' & E2 & _). rewrite E in E'. injection E' as <-.
    rewrite E1, E2. apply IH; auto. rewrite S'. now apply fits_after.
  - inversion Hf as [|? ? Hx2 Hf']; subst. inversion Hf' as [|? ? Hx1 Hl]; subst. cbn [map snd] in Hnd.
    inversion Hnd as [|? ? Hnin2 Hnd']; subst. inversion Hnd' as [|? ? Hnin1 Hnd'']; subst.
    assert (Hne : m1 <> m2) by (intros ->; apply Hnin2; now left).
    destruct Hx1 as (A1 & B1 & C1 & D1), Hx2 as (A2 & B2 & C2 & D2). cbn [fst snd] in *.
    assert (HM1 : shape M1 = [nrows M1; nth m1 (shape T) 0]) by (rewrite <- C1; now apply shape_matrix).
    assert (HM2 : shape M2 = [nrows M2; nth m2 (shape T) 0]) by (rewrite <- C2; now apply shape_matrix).
    destruct (mode_dot_comm T M1 M2 m1 m2 (nrows M1) (nrows M2) W Hpos Hne B1 B2 HM1 HM2 D1 D2) as (t & Ea & Eb).
    unfold mmd. cbn [map fst snd multi_mode_dot_modes]. rewrite A1, A2. cbn [Nat.eqb negb].
    destruct (mode_dot Op T M1 m1) as [T1|]; cbn [rbind] in Ea; [|discriminate].
    destruct (mode_dot Op T M2 m2) as [T2|]; cbn [rbind] in Eb; [|discriminate]. cbn [rbind]. now rewrite Ea, Eb.
  - rewrite (IH1 T W Hpos Hf Hnd). apply IH2; auto.
    + eapply Permutation_Forall; eassumption.
    + eapply Permutation_NoDup; [apply Permutation_map; eassumption | exact Hnd].
Qed.

(* pairwise distinct modes: the sorted order of multi_mode_dot and the list order give the same tensor *)
Theorem tucker_modes_any_order (core : tensor) fs ms : wf core -> 0 < prod (shape core) ->
  Forall (fit1 (shape core)) (combine fs ms) -> NoDup (map snd (combine fs ms)) ->
  tucker_to_tensor_modes_sorted Op core fs ms = tucker_to_tensor_modes Op core fs ms.
Proof.
  intros W Hpos Hf Hnd. unfold tucker_to_tensor_modes_sorted, tucker_to_tensor_modes.
  rewrite <- (mmd_modes_combine F Op fs ms core). symmetry.
  apply (mmd_perm (combine fs ms) (sort_modes (combine fs ms))); auto. apply Permutation_sym, sort_modes_perm.
Qed.
End P.
