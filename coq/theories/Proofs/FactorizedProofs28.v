(* Lemmas about Model/Factorized2.v (part 28, round 7 follow-up):
   (a) tucker_to_tensor(modes=ms), pairwise distinct modes, the Err half: a fold of mode products over distinct modes -- in ANY order -- returns
       a tensor only if every pair fits the core itself; hence on non-fitting operands the sorted order of multi_mode_dot and the list
       order both raise, and with Proofs27: for a well-formed non-empty core and non-empty factors the two orders ALWAYS agree;
   (b) tucker_to_tensor(transpose_factors=True) on a carrier with a conjugation: the reconstruction from the CONJUGATE-transposed matrices,
       whose entries are cj(M[j, i]);
   (c) the Hermitian PARAFAC2 validator (candidate repair) is the current one when the conjugation is the identity; Gaussian-integer
       witnesses of the defect of the current test on complex projections. *)
From Coq Require Import List Arith ZArith Lia Bool Ring Sorting.Permutation.
From TLV Require Import Base.Shape Base.PyList Base.Tensor Base.BigSum Base.Ops Model.Base Model.Factorized Model.Factorized2
  Proofs.BaseProofs Proofs.FactorizedProofs Proofs.FactorizedProofs5 Proofs.FactorizedProofs19 Proofs.FactorizedProofs23 Proofs.FactorizedProofs26 Proofs.FactorizedProofs27.
From TLV Require Model.Tenalg.
Import ListNotations.

Section P.
Variable F : Type.
Variable Op : fops F.
Notation zero := (f0 Op).
Notation tensor := (tensor F).
Notation pair := (tensor * nat)%type.

(* ---------- (a) ---------- *)
Definition fit0 (s : list nat) (q : pair) : Prop := ndim (fst q) = 2 /\ snd q < length s /\ ncols (fst q) = nth (snd q) s 0.
Lemma fit0_dec s q : {fit0 s q} + {~ fit0 s q}.
Proof.
  unfold fit0. destruct (Nat.eq_dec (ndim (fst q)) 2); [|right; tauto]. destruct (lt_dec (snd q) (length s)); [|right; tauto].
  destruct (Nat.eq_dec (ncols (fst q)) (nth (snd q) s 0)); [left; tauto | right; tauto].
Qed.
Lemma mmd_ok_fit0 : forall (ps : list pair) (T t : tensor), NoDup (map snd ps) -> mmd F Op T ps = Ok t -> Forall (fit0 (shape T)) ps.
Proof.
  induction ps as [|[M m] ps IH]; intros T t Hnd; [constructor|]. unfold mmd. cbn [map fst snd multi_mode_dot_modes].
  destruct (Nat.eqb_spec (ndim M) 2) as [H2|]; cbn [negb]; [|discriminate].
  destruct (mode_dot Op T M m) as [T'|] eqn:E; cbn [rbind]; [|discriminate]. intros H.
  apply (mode_dot_ok_inv F Op) in E. destruct E as (_ & Hm & Hc & Hs). inversion Hnd as [|? ? Hnin Hnd']; subst.
  constructor; [unfold fit0; cbn [fst snd]; unfold ndim in Hm; auto|].
  pose proof (IH T' t Hnd' H) as HF. rewrite Hs in HF. apply Forall_forall. intros q Hq. rewrite Forall_forall in HF.
  destruct (HF q Hq) as (A & B & C). assert (Hne : snd q <> m) by (intros <-; apply Hnin; now apply in_map).
  unfold fit0. rewrite set_nth_length in B. rewrite nth_set_nth_other in C by exact Hne. auto.
Qed.
Theorem tucker_modes_misfit_any_order (core : tensor) fs ms : NoDup (map snd (combine fs ms)) ->
  ~ Forall (fit0 (shape core)) (combine fs ms) ->
  tucker_to_tensor_modes_sorted Op core fs ms = Err /\ tucker_to_tensor_modes Op core fs ms = Err.
Proof.
  intros Hnd Hn. split.
  - destruct (tucker_to_tensor_modes_sorted Op core fs ms) as [t|] eqn:E; [|reflexivity]. exfalso. apply Hn.
    assert (Hp : Permutation (sort_modes (combine fs ms)) (combine fs ms)) by apply sort_modes_perm.
    eapply Permutation_Forall; [exact Hp|]. apply (mmd_ok_fit0 _ core t); [|exact E].
    eapply Permutation_NoDup; [apply Permutation_map, Permutation_sym, Hp | exact Hnd].
  - destruct (tucker_to_tensor_modes Op core fs ms) as [t|] eqn:E; [|reflexivity]. exfalso. apply Hn.
    unfold tucker_to_tensor_modes in E. rewrite <- (mmd_modes_combine F Op fs ms core) in E. exact (mmd_ok_fit0 _ core t Hnd E).
Qed.

(* ---------- (b) ---------- *)
Variable cj : F -> F.
Hypothesis cj_0 : cj zero = zero.
Lemma get_tconj (t : tensor) idx : get zero (tconj cj t) idx = cj (get zero t idx).
Proof. unfold get, tconj. cbn [shape data]. rewrite <- cj_0 at 1. apply map_nth. Qed.
Lemma ndim_tconj (t : tensor) : ndim (tconj cj t) = ndim t.
Proof. reflexivity. Qed.
Theorem tucker_conj_transpose (core : tensor) fs skip : Forall (fun M => ndim M = 2) fs ->
  tucker_to_tensor_conj Op cj core fs skip true = tucker_to_tensor Op core (map (fun M => mT Op (tconj cj M)) fs) skip false.
Proof.
  intros H. unfold tucker_to_tensor_conj, tucker_to_tensor. rewrite (multi_mode_dot_transpose F Op); [now rewrite map_map|].
  apply Forall_forall. intros M HM. apply in_map_iff in HM as (M0 & <- & H0). rewrite Forall_forall in H. rewrite ndim_tconj. now apply H.
Qed.
Lemma conj_transpose_entry (M : tensor) i j : i < ncols M -> j < nrows M -> get2 Op (mT Op (tconj cj M)) i j = cj (get2 Op M j i).
Proof.
  intros Hi Hj. unfold mT. change (ncols (tconj cj M)) with (ncols M). change (nrows (tconj cj M)) with (nrows M).
  rewrite (get2_tab F Op) by assumption. unfold ix. cbn [nth]. unfold Factorized.get2. apply get_tconj.
Qed.
End P.

Section Q.
Variable F : Type.
Variable Op : fops F.
Hypothesis Rth : ring_theory (f0 Op) (f1 Op) (fadd Op) (fmul Op) (fsub Op) (fopp Op) (@eq F).
(* pairwise distinct modes, well-formed non-empty core, non-empty factors: the sorted order and the list order ALWAYS agree
   (the same tensor, or both raise) *)
Theorem tucker_modes_any_order_total (core : tensor F) fs ms : wf core -> 0 < prod (shape core) ->
  Forall (fun q : tensor F * nat => 0 < nrows (fst q)) (combine fs ms) -> NoDup (map snd (combine fs ms)) ->
  tucker_to_tensor_modes_sorted Op core fs ms = tucker_to_tensor_modes Op core fs ms.
Proof.
  intros W Hpos Hne Hnd. destruct (Forall_dec (fit0 F (shape core)) (fit0_dec F (shape core)) (combine fs ms)) as [Hf|Hn].
  - apply (tucker_modes_any_order F Op Rth); auto. apply Forall_forall. intros q Hq. rewrite Forall_forall in Hf, Hne.
    destruct (Hf q Hq) as (A & B & C). unfold fit1. auto.
  - destruct (tucker_modes_misfit_any_order F Op core fs ms Hnd Hn) as [E1 E2]. now rewrite E1, E2.
Qed.
End Q.

(* without conjugation: the plain transpose_factors of Model/Factorized.v *)
Lemma tconj_id {F} (t : tensor F) : tconj (fun x => x) t = t.
Proof. destruct t as [s d]. unfold tconj. cbn. now rewrite map_id. Qed.
Theorem tucker_conj_id {F} (Op : fops F) (core : tensor F) fs skip tr :
  tucker_to_tensor_conj Op (fun x => x) core fs skip tr = tucker_to_tensor Op core fs skip tr.
Proof.
  assert (E : map (tconj (fun x : F => x)) fs = fs) by (rewrite <- (map_id fs) at 2; apply map_ext; intros M; apply tconj_id).
  unfold tucker_to_tensor_conj. destruct tr; [now rewrite E | reflexivity].
Qed.

(* ---------- (c) ---------- *)
Lemma p2_proj_shapes_h_id {F} (Op : fops F) rank K : forall ps : list (tensor F), p2_proj_shapes_h Op (fun x => x) rank K ps = p2_proj_shapes Op rank K ps.
Proof. induction ps as [|P ps IH]; [reflexivity|]. cbn [p2_proj_shapes_h p2_proj_shapes]. rewrite IH. reflexivity. Qed.
Theorem validate_parafac2_h_real {F} (Op : fops F) (w : option (tensor F)) fs ps :
  validate_parafac2_h Op (fun x => x) w fs ps = validate_parafac2 Op w fs ps.
Proof.
  (* the two validators are convertible once the identity is unfolded: same fixpoint body *)
  reflexivity.
Qed.
(* Gaussian integers: the unitary 1 x 1 projection [i] is rejected by the current test and accepted by the Hermitian one; the column
   (1, 1, i) -- Hermitian length sqrt 3 -- is accepted by the current test and rejected by the Hermitian one *)
Example parafac2_complex_projection_examples :
  let g (a b : Z) : Tenalg.GI := (a, b) in
  let A := mk [1; 1] [g 2 0]%Z in let B := mk [1; 1] [g 3 0]%Z in let C := mk [2; 1] [g 1 0; g 2 0]%Z in
  let Pu := mk [1; 1] [g 0 1]%Z in let Pn := mk [3; 1] [g 1 0; g 1 0; g 0 1]%Z in
  validate_parafac2 GIops None [A; B; C] [Pu] = Err /\ validate_parafac2_h GIops gconj None [A; B; C] [Pu] = Ok ([[1; 2]], 1) /\
  validate_parafac2 GIops None [A; B; C] [Pn] = Ok ([[3; 2]], 1) /\ validate_parafac2_h GIops gconj None [A; B; C] [Pn] = Err.
Proof. vm_compute. repeat split. Qed.
