(* Lemmas about Model/Factorized2.v (part 29, round 8): the CURRENT _validate_parafac2_tensor (/repo 0c112da: dot(conj(transpose(P)), P) = I)
   accepts exactly the well-formed factor sets whose projections have HERMITIAN-orthonormal columns. *)
From Coq Require Import List Arith ZArith Lia Bool Ring.
From TLV Require Import Base.Shape Base.PyList Base.Tensor Base.BigSum Base.Ops Model.Base Model.Factorized Model.Factorized2
  Proofs.BaseProofs Proofs.FactorizedProofs Proofs.FactorizedProofs4 Proofs.FactorizedProofs8.
From TLV Require Model.Tenalg.
Import ListNotations.

Section VPH.
Variable F : Type.
Variable Op : fops F.
Variable cj : F -> F.
Hypothesis feqb_eq : forall x y : F, feqb Op x y = true <-> x = y.
Notation tensor := (tensor F).

(* P^H P = I on the first R columns: sum_i cj(P[i, r]) * P[i, s] = delta_rs *)
Definition orthonormal_h (P : tensor) (R : nat) : Prop :=
  forall r s, r < R -> s < R ->
    fsumn Op (nrows P) (fun i => fmul Op (cj (get2 Op P i r)) (get2 Op P i s)) = if r =? s then f1 Op else f0 Op.

Lemma orthonormalb_h_iff (P : tensor) R : orthonormalb_h Op cj P R = true <-> orthonormal_h P R.
Proof.
  unfold orthonormalb_h, orthonormal_h. rewrite forallb_forall. split.
  - intros H r s Hr Hs. specialize (H r). rewrite in_seq in H. specialize (H ltac:(lia)).
    rewrite forallb_forall in H. specialize (H s). rewrite in_seq in H. apply feqb_eq. apply H. lia.
  - intros H r Hr. rewrite in_seq in Hr. rewrite forallb_forall. intros s Hs. rewrite in_seq in Hs.
    apply feqb_eq. apply H; lia.
Qed.

Definition proj_ok_h (R K : nat) (P : tensor) (s : list nat) : Prop :=
  exists j, shape P = [j; R] /\ orthonormal_h P R /\ s = [j; K].

Lemma p2_proj_shapes_h_iff R K : forall (ps : list tensor) shps,
  p2_proj_shapes_h Op cj R K ps = Ok shps <-> Forall2 (proj_ok_h R K) ps shps.
Proof.
  induction ps as [|P ps IH]; intros shps; cbn [p2_proj_shapes_h].
  - split; intros H; [injection H as <-; constructor | inversion H; reflexivity].
  - split.
    + destruct (shape P) as [|j [|c [|? ?]]] eqn:EP; try discriminate.
      destruct (Nat.eqb_spec c R) as [->|]; cbn [andb]; [|discriminate].
      destruct (orthonormalb_h Op cj P R) eqn:EO; [|discriminate].
      destruct (p2_proj_shapes_h Op cj R K ps) as [l|] eqn:E; cbn [rbind]; [|discriminate]. intros H; injection H as <-.
      constructor; [|now apply IH]. exists j. repeat split; auto. now apply orthonormalb_h_iff.
    + intros H. inversion H as [|? s ? l (j & HP & HO & ->) Hrest]; subst. rewrite HP, Nat.eqb_refl.
      apply orthonormalb_h_iff in HO. rewrite HO. cbn [andb]. apply IH in Hrest. rewrite Hrest. reflexivity.
Qed.

Lemma cols_are_iff' R (f : tensor) : cols_are R f = true <-> exists n, shape f = [n; R].
Proof.
  unfold cols_are. destruct (shape f) as [|n [|c [|? ?]]]; split; intros H; try discriminate; try (destruct H as [? H]; discriminate).
  - apply Nat.eqb_eq in H. subst. eauto.
  - destruct H as [n' H]. injection H as -> ->. apply Nat.eqb_refl.
Qed.

Theorem validate_parafac2_h_iff (w : option tensor) fs ps shps R :
  validate_parafac2_h Op cj w fs ps = Ok (shps, R) <->
  exists A B C K,
    fs = [A; B; C] /\ (exists rest, shape A = length ps :: R :: rest) /\ (exists q, shape B = [q; R]) /\ shape C = [K; R] /\
    Forall2 (proj_ok_h R K) ps shps /\
    match w with None => True | Some wt => exists rest, shape wt = R :: rest end.
Proof.
  unfold validate_parafac2_h. split.
  - destruct fs as [|A [|B [|C [|? ?]]]]; try discriminate.
    destruct (shape A) as [|nI [|rank restA]] eqn:EA; try discriminate.
    destruct (Nat.eqb_spec (length ps) nI) as [<-|]; cbn [negb]; [|discriminate].
    destruct (shape C) as [|K restC] eqn:EC; [discriminate|].
    destruct (p2_proj_shapes_h Op cj rank K ps) as [l|] eqn:E; cbn [rbind]; [|discriminate].
    destruct (cols_are rank B) eqn:EB; cbn [andb]; [|discriminate].
    destruct (cols_are rank C) eqn:ECc; cbn [andb]; [|discriminate].
    destruct (p2_weights_ok w rank) eqn:EW; [|discriminate]. intros H; injection H as <- <-.
    exists A, B, C, K. split; [reflexivity|]. split; [eauto|].
    apply cols_are_iff' in EB. split; [exact EB|].
    apply cols_are_iff' in ECc. destruct ECc as [n Hn]. rewrite EC in Hn. injection Hn as <- ->. split; [exact EC|].
    split; [now apply p2_proj_shapes_h_iff|].
    destruct w as [wt|]; [|exact I]. cbn [p2_weights_ok] in EW. destruct (shape wt) as [|n rest]; [discriminate|].
    apply Nat.eqb_eq in EW. subst. eauto.
  - intros (A & B & C & K & -> & (restA & HA) & HB & HC & Hps & Hw). rewrite HA, Nat.eqb_refl. cbn [negb]. rewrite HC.
    apply p2_proj_shapes_h_iff in Hps. rewrite Hps. cbn [rbind].
    apply cols_are_iff' in HB. rewrite HB.
    assert (HCc : cols_are R C = true) by (apply cols_are_iff'; eauto). rewrite HCc. cbn [andb].
    assert (HW : p2_weights_ok w R = true).
    { destruct w as [wt|]; [|reflexivity]. destruct Hw as [rest Hw]. cbn [p2_weights_ok]. rewrite Hw. apply Nat.eqb_refl. }
    rewrite HW. reflexivity.
Qed.

(* the set of accepted inputs does not depend on the entries of A, B, C or the weights: only on shapes and on the projections *)
Corollary validate_parafac2_h_shapes_only (w w' : option tensor) fs fs' ps :
  map (@shape F) fs = map (@shape F) fs' -> option_map (@shape F) w = option_map (@shape F) w' ->
  validate_parafac2_h Op cj w fs ps = validate_parafac2_h Op cj w' fs' ps.
Proof.
  intros Hf Hw. unfold validate_parafac2_h.
  destruct fs as [|A [|B [|C [|? ?]]]], fs' as [|A' [|B' [|C' [|? ?]]]]; try discriminate; try reflexivity.
  cbn [map] in Hf. injection Hf as HA HB HC. rewrite HA. unfold cols_are. rewrite HB, HC.
  assert (EW : forall rank, p2_weights_ok w rank = p2_weights_ok w' rank).
  { intros rank. destruct w as [wt|], w' as [wt'|]; cbn [option_map] in Hw; try discriminate; [|reflexivity]. injection Hw as Hw. cbn [p2_weights_ok]. now rewrite Hw. }
  destruct (shape A') as [|nI [|rank rest]]; try reflexivity.
  destruct (negb (length ps =? nI)); [reflexivity|]. destruct (shape C') as [|K ?]; [reflexivity|].
  destruct (p2_proj_shapes_h Op cj rank K ps); cbn [rbind]; [|reflexivity]. now rewrite EW.
Qed.

End VPH.

(* the order test of the Gaussian-integer operations decides equality *)
Lemma feqb_GIops : forall x y : Tenalg.GI, feqb GIops x y = true <-> x = y.
Proof.
  intros [a b] [c d]. unfold feqb. cbn [fleb GIops fst snd]. rewrite !andb_true_iff, !Z.eqb_eq. split.
  - intros [[-> ->] _]. reflexivity.
  - intros H. injection H as -> ->. auto.
Qed.

(* non-vacuity at the Gaussian integers: the unitary 2 x 1 column (i, 0) is Hermitian-orthonormal, and it is NOT bilinear-orthonormal *)
Example orthonormal_h_GI_example :
  let g (a b : Z) : Tenalg.GI := (a, b) in
  let P := mk [2; 1] [g 0 1; g 0 0]%Z in
  orthonormal_h Tenalg.GI GIops gconj P 1 /\ ~ orthonormal_h Tenalg.GI GIops (fun x => x) P 1.
Proof.
  cbv zeta. split.
  - intros r s Hr Hs. assert (r = 0) by lia. assert (s = 0) by lia. subst. vm_compute. reflexivity.
  - intros H. specialize (H 0 0 ltac:(lia) ltac:(lia)). vm_compute in H. discriminate.
Qed.
