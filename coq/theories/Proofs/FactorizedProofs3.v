(* Lemmas about Model/Factorized.v (part 3: tensor train and tensor ring). *)
From Coq Require Import List Arith Lia Bool Ring.
From TLV Require Import Base.Shape Base.PyList Base.Tensor Base.BigSum Base.Ops Model.Base Model.Factorized
  Proofs.BaseProofs Proofs.FactorizedProofs.
Import ListNotations.

(* ---------- reshape with one inferred dimension, in the three forms the code uses ---------- *)
Section Rs.
Context {A : Type}.
Lemma reshape_front (t : tensor A) a b : a <> 0 -> prod (shape t) = a * b ->
  reshape_spec [Some a; None] t = Ok (reshape [a; b] t).
Proof.
  intros Ha Hp. change [Some a; None] with (map Some [a] ++ [None] ++ map Some (@nil nat)).
  rewrite reshape_spec_one_none.
  - cbn [prod fold_right app]. rewrite Hp. replace (a * 1 * 1) with a by lia.
    rewrite Nat.mul_comm, Nat.div_mul by exact Ha. reflexivity.
  - cbn [prod fold_right]. lia.
  - cbn [prod fold_right]. rewrite Hp. replace (a * 1 * 1) with a by lia. rewrite Nat.mul_comm. now apply Nat.mod_mul.
Qed.
Lemma reshape_back (t : tensor A) b c : c <> 0 -> prod (shape t) = b * c ->
  reshape_spec [None; Some c] t = Ok (reshape [b; c] t).
Proof.
  intros Hc Hp. change [None; Some c] with (map Some (@nil nat) ++ [None] ++ map Some [c]).
  rewrite reshape_spec_one_none.
  - cbn [prod fold_right app]. rewrite Hp. replace (1 * (c * 1)) with c by lia.
    rewrite Nat.div_mul by exact Hc. reflexivity.
  - cbn [prod fold_right]. lia.
  - cbn [prod fold_right]. rewrite Hp. replace (1 * (c * 1)) with c by lia. now apply Nat.mod_mul.
Qed.
Lemma reshape_mid (t : tensor A) a b c : a <> 0 -> c <> 0 -> prod (shape t) = a * b * c ->
  reshape_spec [Some a; None; Some c] t = Ok (reshape [a; b; c] t).
Proof.
  intros Ha Hc Hp. change [Some a; None; Some c] with (map Some [a] ++ [None] ++ map Some [c]).
  rewrite reshape_spec_one_none.
  - cbn [prod fold_right app]. rewrite Hp. replace (a * 1 * (c * 1)) with (a * c) by lia.
    replace (a * b * c) with (b * (a * c)) by lia. rewrite Nat.div_mul by nia. reflexivity.
  - cbn [prod fold_right]. nia.
  - cbn [prod fold_right]. rewrite Hp. replace (a * 1 * (c * 1)) with (a * c) by lia.
    replace (a * b * c) with (b * (a * c)) by lia. apply Nat.mod_mul. nia.
Qed.
End Rs.

Section P.
Variable F : Type.
Variable Op : fops F.
Hypothesis Rth : ring_theory (f0 Op) (f1 Op) (fadd Op) (fmul Op) (fsub Op) (fopp Op) (@eq F).
Add Ring Fr3 : Rth.
Notation zero := (f0 Op).
Notation one := (f1 Op).
Notation "a *f b" := (fmul Op a b) (at level 40, left associativity).
Notation "a +f b" := (fadd Op a b) (at level 50, left associativity).
Notation tensor := (tensor F).
Notation fsumn := (fsumn Op).
Notation get2 := (get2 Op).
Notation get1 := (get1 Op).

Definition get3 (G : tensor) (a i b : nat) : F := get zero G [a; i; b].

(* entry (a, b) of the ordered product of the slices G_k[:, i_k, :]  (empty product = identity) *)
Fixpoint chain (cs : list tensor) (idx : list nat) (a b : nat) : F :=
  match cs, idx with
  | G :: cs', i :: idx' => fsumn (nth 2 (shape G) 0) (fun c => get3 G a i c *f chain cs' idx' c b)
  | _, _ => if a =? b then one else zero
  end.

(* cores G_k of shape (r_k, n_k, r_{k+1}) with r_first = r, r_last = rl, all inner and right ranks positive *)
Inductive tt_cores : nat -> list tensor -> list nat -> nat -> Prop :=
| tc_nil r : tt_cores r [] [] r
| tc_cons r n r' G cs ns rl : shape G = [r; n; r'] -> 0 < r' -> tt_cores r' cs ns rl ->
    tt_cores r (G :: cs) (n :: ns) rl.

Lemma get2_reshape2 (t : tensor) a b i j : get2 (reshape [a; b] t) i j = nth (i * b + j) (data t) zero.
Proof. unfold Factorized.get2, get, reshape. cbn [shape data]. f_equal. simpl. lia. Qed.
Lemma get3_data (G : tensor) r n r' a i b : shape G = [r; n; r'] -> get3 G a i b = nth (a * (n * r') + i * r' + b) (data G) zero.
Proof. intros H. unfold get3, get. rewrite H. f_equal. simpl. lia. Qed.

Lemma tt_step_spec (full G : tensor) rows r n r' :
  shape full = [rows; r] -> shape G = [r; n; r'] -> 0 < r -> 0 < r' ->
  exists full', tt_step Op full G = Ok full' /\ shape full' = [rows * n; r'] /\
    forall row i b, row < rows -> i < n -> b < r' ->
      get2 full' (row * n + i) b = fsumn r (fun c => get2 full row c *f get3 G c i b).
Proof.
  intros Hf HG Hr Hr'. unfold tt_step, shape3. rewrite HG. cbn [rbind d3a d3c fst snd].
  rewrite (reshape_front G r (n * r')) by (try lia; rewrite HG; simpl; lia). cbn [rbind].
  rewrite (mdot_ok F Op full (reshape [r; n * r'] G) rows r (n * r') Hf eq_refl). cbn [rbind].
  rewrite (reshape_back _ (rows * n) r') by (try lia; cbn [shape tabulate]; simpl; lia). cbn [rbind].
  eexists. split; [reflexivity|]. split; [reflexivity|].
  intros row i b Hrow Hi Hb. rewrite get2_reshape2.
  replace ((row * n + i) * r' + b) with (ravel [rows; n * r'] [row; i * r' + b]) by (simpl; lia).
  assert (Hlt : i * r' + b < n * r') by nia.
  change (nth (ravel [rows; n * r'] [row; i * r' + b]) (data ?T) zero) with (get2 T row (i * r' + b)).
  rewrite (get2_tab F Op) by assumption. apply (fsumn_ext F Op); intros c Hc. unfold ix. cbn [nth].
  f_equal. rewrite get2_reshape2, (get3_data G r n r') by exact HG. f_equal. lia.
Qed.

Lemma chain_nil idx a b : chain [] idx a b = if a =? b then one else zero.
Proof. destruct idx; reflexivity. Qed.

Lemma tt_loop_spec : forall r cs ns rl, tt_cores r cs ns rl -> forall (full : tensor) rows,
  shape full = [rows; r] -> 0 < r ->
  exists full', tt_loop Op full cs = Ok full' /\ shape full' = [rows * prod ns; rl] /\
    forall row js b, row < rows -> inb ns js -> b < rl ->
      get2 full' (row * prod ns + ravel ns js) b = fsumn r (fun c => get2 full row c *f chain cs js c b).
Proof.
  induction 1 as [r | r n r' G cs ns rl HG Hr' Hcs IH]; intros full rows Hf Hr.
  - exists full. split; [reflexivity|]. split; [rewrite Hf; simpl; f_equal; lia|].
    intros row js b Hrow Hjs Hb. destruct js; [|simpl in Hjs; tauto]. simpl ravel. simpl prod.
    replace (row * 1 + 0) with row by lia.
    rewrite (fsumn_single F Op Rth r b); [| exact Hb | intros i Hi Hne; rewrite chain_nil; destruct (Nat.eqb_spec i b); [congruence | ring]].
    rewrite chain_nil, Nat.eqb_refl. ring.
  - destruct (tt_step_spec full G rows r n r' Hf HG Hr Hr') as (full1 & H1 & Hs1 & Hg1).
    destruct (IH full1 (rows * n) Hs1 Hr') as (full' & H2 & Hs2 & Hg2).
    exists full'. cbn [tt_loop]. rewrite H1. cbn [rbind]. split; [exact H2|]. split.
    + rewrite Hs2. simpl prod. f_equal. lia.
    + intros row js b Hrow Hjs Hb. destruct js as [|i js]; [simpl in Hjs; tauto|].
      change (i < n /\ inb ns js) in Hjs. destruct Hjs as [Hi Hjs].
      replace (row * prod (n :: ns) + ravel (n :: ns) (i :: js)) with ((row * n + i) * prod ns + ravel ns js) by (simpl; lia).
      rewrite Hg2 by (try assumption; nia).
      rewrite (fsumn_ext F Op r' _ (fun c' => fsumn r (fun c => get2 full row c *f get3 G c i c' *f chain cs js c' b))).
      2:{ intros c' Hc'. rewrite Hg1 by assumption. now rewrite (fsumn_scale_r F Op Rth). }
      rewrite (fsumn_exchange F Op Rth). apply (fsumn_ext F Op); intros c Hc.
      cbn [chain]. rewrite HG. cbn [nth]. rewrite <- (fsumn_scale_l F Op Rth).
      apply (fsumn_ext F Op); intros c' Hc'. ring.
Qed.

Lemma all_shape3_tt : forall r cs ns rl, tt_cores r cs ns rl ->
  exists ds, all_shape3 cs = Ok ds /\ map d3b ds = ns.
Proof.
  induction 1 as [r | r n r' G cs ns rl HG Hr' Hcs (ds & E & Em)].
  - exists []. split; reflexivity.
  - exists ((r, n, r') :: ds). cbn [all_shape3]. unfold shape3. rewrite HG. cbn [rbind]. rewrite E. cbn [rbind].
    split; [reflexivity|]. cbn [map d3b fst snd]. now rewrite Em.
Qed.

(* tt_to_tensor_raw: entry idx = (G_1[:, i_1, :] ... G_N[:, i_N, :])[0, 0] *)
Theorem tt_to_tensor_spec cs ns : cs <> [] -> tt_cores 1 cs ns 1 -> 0 < prod ns ->
  exists t, tt_to_tensor_raw Op cs = Ok t /\ shape t = ns /\
    forall idx, inb ns idx -> get zero t idx = chain cs idx 0 0.
Proof.
  intros Hne Hc Hpos. destruct (all_shape3_tt _ _ _ _ Hc) as (ds & Eds & Ens).
  unfold tt_to_tensor_raw. destruct cs as [|fa rest]; [congruence|]. rewrite Eds. cbn [rbind]. rewrite Ens.
  inversion Hc as [|? n r1 ? ? ns' ? Hfa Hr1 Hrest]; subst. cbn [hd].
  match goal with H : _ :: _ = map d3b ds |- _ => rewrite <- H in Hpos end.
  assert (Hn : n <> 0) by (simpl in Hpos; nia).
  rewrite (reshape_front fa n r1) by (try assumption; rewrite Hfa; simpl; lia). cbn [rbind].
  destruct (tt_loop_spec _ _ _ _ Hrest (reshape [n; r1] fa) n eq_refl Hr1) as (full' & HL2 & Hs2 & Hg2).
  rewrite HL2. cbn [rbind].
  rewrite reshape_spec_all_some by (rewrite Hs2; simpl; lia).
  eexists. split; [reflexivity|]. split; [reflexivity|].
  intros idx Hi. destruct idx as [|i js]; [simpl in Hi; tauto|].
  change (i < n /\ inb ns' js) in Hi. destruct Hi as [Hi Hjs].
  assert (Hin : inb (n :: ns') (i :: js)) by (split; assumption).
  transitivity (get2 full' (i * prod ns' + ravel ns' js) 0).
  - unfold Factorized.get2, get, reshape. cbn [shape data]. rewrite Hs2. f_equal. simpl. lia.
  - rewrite Hg2 by (auto; lia). cbn [chain]. rewrite Hfa. cbn [nth].
    apply (fsumn_ext F Op); intros c Hc'. f_equal.
    rewrite get2_reshape2, (get3_data fa 1 n r1) by exact Hfa. f_equal; try lia.
Qed.

End P.
