(* Lemmas about Model/Factorized.v (part 30, round 8): what the reshape / dot chain of tt_to_tensor ALONE (tt_to_tensor_raw, the code before
   /repo 8b25fc6) accepts, WITHOUT a hypothesis on the first boundary rank: the first core (r0, n0, r1) is read as the n0 x (r0 r1) matrix, so
   the chain returns a tensor only if the rank bookkeeping of _validate_tt_tensor holds for the cores with the first one re-read as
   (1, n0, r0 r1).  With r0 = 1 that is the validator itself (tt_ok_validated_partial of Proofs19 becomes a corollary). *)
From Coq Require Import List Arith ZArith Lia Bool Ring.
From TLV Require Import Base.Shape Base.PyList Base.Tensor Base.BigSum Base.Ops Model.Base Model.Factorized
  Proofs.BaseProofs Proofs.BaseProofs7 Proofs.BaseProofs9 Proofs.FactorizedProofs Proofs.FactorizedProofs4 Proofs.FactorizedProofs19.
Import ListNotations.

Section T.
Variable F : Type.
Variable Op : fops F.
Notation tensor := (tensor F).

(* the dimension triples with the first one re-read the way the first reshape of the chain reads it *)
Definition tt_chain_dims (ds : list (nat * nat * nat)) : list (nat * nat * nat) :=
  match ds with [] => [] | x :: r => (1, d3b x, d3a x * d3c x) :: r end.

Lemma tt_chain_dims_first_one ds : d3a (hd (0, 0, 0) ds) = 1 -> tt_chain_dims ds = ds.
Proof.
  destruct ds as [|[[a b] c] r]; [reflexivity|]. cbn [hd d3a d3b d3c fst snd tt_chain_dims]. intros ->. now rewrite Nat.mul_1_l.
Qed.

Theorem tt_chain_ok_inv (cs : list tensor) (t : tensor) ds :
  tt_to_tensor_raw Op cs = Ok t -> all_shape3 cs = Ok ds -> 0 < prod (map d3b ds) ->
  chain_ok 1 (tt_chain_dims ds) = true /\ d3c (last (tt_chain_dims ds) (0, 0, 0)) = 1 /\ shape t = map d3b ds.
Proof.
  unfold tt_to_tensor_raw. destruct cs as [|fa rest]; [discriminate|].
  intros Ht Hds Hpos. rewrite Hds in *. cbn [rbind] in *.
  cbn [all_shape3] in Hds.
  destruct (shape3 fa) as [x0|] eqn:E0; cbn [rbind] in Hds; [|discriminate].
  destruct (all_shape3 rest) as [ds'|] eqn:Eds; cbn [rbind] in Hds; [|discriminate].
  injection Hds as <-. destruct x0 as [[a0 n0] r1]. apply shape3_iff in E0.
  cbn [map hd d3b fst snd] in Ht, Hpos.
  destruct (reshape_spec [Some n0; None] fa) as [full|] eqn:E1; cbn [rbind] in Ht; [|discriminate].
  apply rs_front_inv in E1. destruct E1 as (Hn0 & Hfull & _). rewrite E0 in Hfull. cbn [prod fold_right] in Hfull.
  replace (a0 * (n0 * (r1 * 1)) / n0) with (a0 * r1) in Hfull by (replace (a0 * (n0 * (r1 * 1))) with (a0 * r1 * n0) by lia; now rewrite Nat.div_mul).
  destruct (tt_loop Op full rest) as [full'|] eqn:EL; cbn [rbind] in Ht; [|discriminate].
  destruct (tt_loop_ok_inv F Op rest ds' full full' n0 (a0 * r1) Eds Hfull EL) as [Hc Hsf].
  assert (HR : prod (n0 :: map d3b ds') = prod (shape full')) by (apply reshape_spec_all_some_iff; eexists; exact Ht).
  rewrite Hsf in HR. cbn [prod fold_right] in HR, Hpos.
  set (cL := d3c (last ds' (0, 0, a0 * r1))) in *.
  assert (HcL : cL = 1).
  { clearbody cL. unfold prod in HR. remember (fold_right Nat.mul 1 (map d3b ds')) as P.
    assert (Hq : (n0 * P) * cL = (n0 * P) * 1). { rewrite HR at 2. ring. }
    apply Nat.mul_cancel_l in Hq; [exact Hq | unfold prod in Hpos; lia]. }
  cbn [tt_chain_dims d3a d3b d3c fst snd].
  split; [|split].
  - cbn [chain_ok d3a d3c fst snd]. cbn [Nat.eqb]. exact Hc.
  - destruct ds' as [|y ds']; [exact HcL|]. rewrite (last_cons_indep (1, n0, a0 * r1) (y :: ds') _ (0, 0, a0 * r1)) by discriminate. exact HcL.
  - exact (reshape_spec_some_shape full' t (n0 :: map d3b ds') Ht).
Qed.

(* with first boundary rank 1 the chain reconstructs ONLY what the validator accepts (the former tt_ok_validated_partial, now a corollary) *)
Corollary tt_chain_ok_validated_first_one (cs : list tensor) (t : tensor) ds :
  tt_to_tensor_raw Op cs = Ok t -> all_shape3 cs = Ok ds -> d3a (hd (0, 0, 0) ds) = 1 -> 0 < prod (map d3b ds) ->
  validate_tt cs = Ok (map d3b ds, map d3a ds ++ [1]).
Proof.
  intros Ht Hds H1 Hpos. destruct (tt_chain_ok_inv cs t ds Ht Hds Hpos) as (Hc & HL & _).
  rewrite (tt_chain_dims_first_one ds H1) in Hc, HL.
  unfold validate_tt. destruct cs as [|fa rest]; [discriminate|]. rewrite Hds. cbn [rbind]. rewrite Hc, HL. reflexivity.
Qed.

(* and conversely a first boundary rank other than 1 is never accepted by the validator, whatever the chain does *)
Lemma validate_tt_first_one (cs : list tensor) ds shp rk :
  all_shape3 cs = Ok ds -> validate_tt cs = Ok (shp, rk) -> d3a (hd (0, 0, 0) ds) = 1.
Proof.
  intros Hds. unfold validate_tt. destruct cs as [|fa rest]; [discriminate|]. rewrite Hds. cbn [rbind].
  destruct ds as [|x ds']; [cbn in Hds; destruct (shape3 fa); cbn in Hds; [destruct (all_shape3 rest); discriminate | discriminate]|].
  cbn [chain_ok hd]. destruct (Nat.eqb_spec (d3a x) 1) as [E|]; [auto | discriminate].
Qed.
End T.

(* non-vacuity: the witness of C03_before_8b25fc6_tt (cores (2,3,1), (2,4,1): first boundary rank 2) satisfies the hypotheses AND the conclusion
   of tt_chain_ok_inv - the chain reads the first core as 3 x 2 - while validate_tt rejects it *)
Example tt_chain_ok_inv_example :
  let cs := [mk [2; 3; 1] [1; 2; 3; 4; 5; 6]%Z; mk [2; 4; 1] [1; 0; -1; 2; 1; 1; 0; 3]%Z] in
  let ds := [(2, 3, 1); (2, 4, 1)] in
  (exists t, tt_to_tensor_raw Zops cs = Ok t) /\ all_shape3 cs = Ok ds /\ 0 < prod (map d3b ds) /\
  chain_ok 1 (tt_chain_dims ds) = true /\ d3c (last (tt_chain_dims ds) (0, 0, 0)) = 1 /\ validate_tt cs = Err.
Proof. cbv zeta. split; [eexists; vm_compute; reflexivity|]. repeat split; cbv; lia. Qed.
