(* Lemmas about Model/Factorized.v (part 31, round 8): wrapper-object HISTORIES.  An arbitrary finite sequence of __setitem__ operations each of
   which stores arrays of the shapes it replaces keeps the cache valid (induction over the history), so after ANY such history every view of a
   CPTensor is the view of the (weights, factors) it stores now, and the cached shape / rank of a TTTensor / TRTensor / TTMatrix / TuckerTensor
   is what its validator says about the stored contents. *)
From Coq Require Import List Arith ZArith Lia Bool Ring.
From TLV Require Import Base.Shape Base.PyList Base.Tensor Base.BigSum Base.Ops Model.Base Model.Factorized
  Proofs.BaseProofs Proofs.FactorizedProofs Proofs.FactorizedProofs13.
Import ListNotations.

Section H.
Variable F : Type.
Variable Op : fops F.
Notation tensor := (tensor F).

(* ---------- CPTensor: obj[0] = weights | obj[1] = factors ---------- *)
Inductive cp_op : Type := CSetW (w : option tensor) | CSetF (fs : list tensor).
Definition cp_apply (o : cp_obj (F:=F)) (op : cp_op) : cp_obj :=
  match op with CSetW w => cp_set_weights o w | CSetF fs => cp_set_factors o fs end.
Definition cp_op_keeps_shapes (o : cp_obj (F:=F)) (op : cp_op) : Prop :=
  match op with
  | CSetW w => option_map (@shape F) w = option_map (@shape F) (cpo_weights o)
  | CSetF fs => map (@shape F) fs = map (@shape F) (cpo_factors o)
  end.
(* every operation of the history keeps the shapes of the state it is applied to *)
Fixpoint cp_history_ok (o : cp_obj (F:=F)) (ops : list cp_op) : Prop :=
  match ops with [] => True | op :: r => cp_op_keeps_shapes o op /\ cp_history_ok (cp_apply o op) r end.
Definition cp_run (o : cp_obj (F:=F)) (ops : list cp_op) : cp_obj := fold_left cp_apply ops o.

Lemma cp_apply_consistent o op : cp_consistent F o -> cp_op_keeps_shapes o op -> cp_consistent F (cp_apply o op).
Proof.
  intros Hc Hk. destruct op as [w|fs]; cbn [cp_apply cp_op_keeps_shapes] in *.
  - change (cp_set_weights o w) with (cp_set_factors (cp_set_weights o w) (cpo_factors o)). now apply cp_set_consistent.
  - change (cp_set_factors o fs) with (cp_set_factors (cp_set_weights o (cpo_weights o)) fs). now apply cp_set_consistent.
Qed.
Lemma cp_apply_cache o op : cpo_shape (cp_apply o op) = cpo_shape o /\ cpo_rank (cp_apply o op) = cpo_rank o.
Proof. destruct op; split; reflexivity. Qed.

Theorem cp_history_consistent : forall ops o, cp_consistent F o -> cp_history_ok o ops ->
  cp_consistent F (cp_run o ops) /\ cpo_shape (cp_run o ops) = cpo_shape o /\ cpo_rank (cp_run o ops) = cpo_rank o.
Proof.
  induction ops as [|op ops IH]; intros o Hc Hh; cbn [cp_run fold_left].
  - auto.
  - destruct Hh as [Hk Hr]. destruct (IH (cp_apply o op) (cp_apply_consistent o op Hc Hk) Hr) as (H1 & H2 & H3).
    destruct (cp_apply_cache o op) as [E1 E2]. unfold cp_run in *. rewrite H2, H3, E1, E2. auto.
Qed.

(* constructed object, any shape-keeping history: every view = the view of the contents stored NOW; the cache never moved *)
Theorem cp_history_views (w : option tensor) (fs : list tensor) (o : cp_obj) (ops : list cp_op) :
  cp_new Op w fs = Ok o -> cp_history_ok o ops ->
  let o' := cp_run o ops in
  (forall mask, cpo_to_tensor Op o' mask = cp_to_tensor Op (cpo_weights o') (cpo_factors o') mask) /\
  (forall m, cpo_to_unfolded Op o' m = cp_to_unfolded Op (cpo_weights o') (cpo_factors o') m) /\
  cpo_to_vec Op o' = cp_to_vec Op (cpo_weights o') (cpo_factors o') /\
  cpo_normsq Op o' = cp_normsq Op (cpo_weights o') (cpo_factors o') /\
  cpo_validate o' = validate_cp (cpo_weights o') (cpo_factors o') /\
  validate_cp w fs = Ok (cpo_shape o', cpo_rank o').
Proof.
  intros Hn Hh. cbv zeta.
  destruct (cp_cache_valid F Op w fs o Hn) as [Hc _].
  destruct (cp_history_consistent ops o Hc Hh) as (Hc' & Hs & Hr).
  destruct (cp_obj_views F Op (cp_run o ops) Hc') as (V1 & V2 & V3 & V4 & V5).
  repeat split; auto.
  rewrite Hs, Hr. unfold cp_new in Hn. destruct (validate_cp w fs) as [[s r]|]; cbn [rbind] in Hn; [|discriminate].
  injection Hn as <-. reflexivity.
Qed.

(* ---------- TTTensor / TRTensor / TTMatrix: obj[k] = core ---------- *)
Fixpoint ch_run (o : ch_obj (F:=F)) (ops : list (nat * tensor)) : res ch_obj :=
  match ops with [] => Ok o | (k, c) :: r => rbind (ch_set o k c) (fun o' => ch_run o' r) end.
Fixpoint ch_history_ok (o : ch_obj (F:=F)) (ops : list (nat * tensor)) : Prop :=
  match ops with
  | [] => True
  | (k, c) :: r => shape c = shape (nth k (cho_cores o) (mk [] [])) /\
                   match ch_set o k c with Ok o' => ch_history_ok o' r | Err => True end
  end.

Theorem ch_history_consistent (validate : list tensor -> res (list nat * list nat)) :
  (validate = validate_tt \/ validate = validate_tr \/ validate = validate_ttm) ->
  forall ops o o', ch_consistent F validate o -> ch_history_ok o ops -> ch_run o ops = Ok o' ->
  ch_consistent F validate o' /\ cho_shape o' = cho_shape o /\ cho_rank o' = cho_rank o /\ length (cho_cores o') = length (cho_cores o).
Proof.
  intros Hv. induction ops as [|[k c] ops IH]; intros o o' Hc Hh Hr; cbn [ch_run ch_history_ok] in *.
  - injection Hr as <-. auto.
  - destruct Hh as [Hs Hh]. destruct (ch_set o k c) as [o1|] eqn:E1; cbn [rbind] in Hr; [|discriminate].
    assert (Hc1 : ch_consistent F validate o1).
    { destruct (chain_cache_valid F (cho_cores o) o) as (_ & _ & _ & Hset). exact (Hset validate Hv k c o1 Hc Hs E1). }
    destruct (IH o1 o' Hc1 Hh Hr) as (H1 & H2 & H3 & H4).
    unfold ch_set in E1. destruct (k <? length (cho_cores o)); [|discriminate]. injection E1 as <-.
    cbn [cho_shape cho_rank cho_cores] in *. rewrite set_nth_length in H4. auto.
Qed.

(* a history on a constructed object fails only by an index out of range, never because of the contents *)
Lemma ch_run_ok : forall ops o, Forall (fun kc : nat * tensor => fst kc < length (cho_cores o)) ops -> exists o', ch_run o ops = Ok o'.
Proof.
  induction ops as [|[k c] ops IH]; intros o Hf; cbn [ch_run].
  - eauto.
  - inversion Hf as [|? ? Hk Hr]; subst. cbn [fst] in Hk. unfold ch_set. apply Nat.ltb_lt in Hk. rewrite Hk. cbn [rbind].
    apply IH. cbn [cho_cores]. rewrite set_nth_length. exact Hr.
Qed.

(* ---------- TuckerTensor: obj[0] = core | obj[1] = factors ---------- *)
Inductive tk_op : Type := TSetC (c : tensor) | TSetF (fs : list tensor).
Definition tk_apply (o : tk_obj (F:=F)) (op : tk_op) : tk_obj :=
  match op with TSetC c => tk_set_core o c | TSetF fs => tk_set_factors o fs end.
Definition tk_op_keeps_shapes (o : tk_obj (F:=F)) (op : tk_op) : Prop :=
  match op with
  | TSetC c => shape c = shape (tko_core o)
  | TSetF fs => map (@shape F) fs = map (@shape F) (tko_factors o)
  end.
Fixpoint tk_history_ok (o : tk_obj (F:=F)) (ops : list tk_op) : Prop :=
  match ops with [] => True | op :: r => tk_op_keeps_shapes o op /\ tk_history_ok (tk_apply o op) r end.
Definition tk_run (o : tk_obj (F:=F)) (ops : list tk_op) : tk_obj := fold_left tk_apply ops o.

Lemma tk_apply_consistent o op : tk_consistent F o -> tk_op_keeps_shapes o op -> tk_consistent F (tk_apply o op).
Proof.
  intros Hc Hk. destruct op as [c|fs]; cbn [tk_apply tk_op_keeps_shapes] in *.
  - change (tk_set_core o c) with (tk_set_factors (tk_set_core o c) (tko_factors o)). now apply tk_set_consistent.
  - change (tk_set_factors o fs) with (tk_set_factors (tk_set_core o (tko_core o)) fs). now apply tk_set_consistent.
Qed.

Theorem tk_history_consistent : forall ops o, tk_consistent F o -> tk_history_ok o ops ->
  tk_consistent F (tk_run o ops) /\ tko_shape (tk_run o ops) = tko_shape o /\ tko_rank (tk_run o ops) = tko_rank o.
Proof.
  induction ops as [|op ops IH]; intros o Hc Hh; cbn [tk_run fold_left].
  - auto.
  - destruct Hh as [Hk Hr]. destruct (IH (tk_apply o op) (tk_apply_consistent o op Hc Hk) Hr) as (H1 & H2 & H3).
    unfold tk_run in *. rewrite H2, H3. destruct op; auto.
Qed.

End H.

(* non-vacuity: a two-step history on a constructed CPTensor (new factors of the same shapes, then new weights) *)
Example cp_history_example :
  let A := mk [2; 2] [1; 2; 3; 4]%Z in let B := mk [3; 2] [1; 0; 2; -1; 1; 1]%Z in
  exists o, cp_new Zops None [A; B] = Ok o /\
    cp_history_ok Z o [CSetF Z [mk [2; 2] [0; 1; 1; 0]%Z; B]; CSetW Z (Some (mk [2] [2; -1]%Z))] /\
    cpo_weights (cp_run Z o [CSetF Z [mk [2; 2] [0; 1; 1; 0]%Z; B]; CSetW Z (Some (mk [2] [2; -1]%Z))]) = Some (mk [2] [2; -1]%Z).
Proof. cbv zeta. eexists. split; [vm_compute; reflexivity|]. split; [cbn; repeat split; reflexivity | reflexivity]. Qed.
Example ch_history_example :
  exists o o', ch_new validate_tt [mk [1; 2; 1] [1; 2]%Z] = Ok o /\ ch_history_ok Z o [(0, mk [1; 2; 1] [5; 7]%Z); (0, mk [1; 2; 1] [0; 1]%Z)] /\
    ch_run Z o [(0, mk [1; 2; 1] [5; 7]%Z); (0, mk [1; 2; 1] [0; 1]%Z)] = Ok o' /\ cho_cores o' = [mk [1; 2; 1] [0; 1]%Z].
Proof. eexists. eexists. split; [vm_compute; reflexivity|]. split; [cbn; repeat split; reflexivity|]. split; vm_compute; reflexivity. Qed.
