(* Lemmas about Model/Factorized.v + Factorized2.v (part 32, round 8): PARAFAC2 reconstruction behind the CURRENT validator (P^H P = I).
   parafac2_to_tensor_from v / parafac2_to_slice_from v look at the validator's answer v only to decide whether to go on, so the defining
   contraction is proved for ANY accepted answer, and then for what validate_parafac2_h accepts: a set with Hermitian-orthonormal (e.g. unitary
   complex) projections reconstructs to P_i B diag(a_i w) C^T, zero-padded - and a rejected set has no view. *)
From Coq Require Import List Arith ZArith Lia Bool Ring.
From TLV Require Import Base.Shape Base.PyList Base.Tensor Base.BigSum Base.Ops Model.Base Model.Factorized Model.Factorized2
  Proofs.BaseProofs Proofs.FactorizedProofs Proofs.FactorizedProofs7 Proofs.FactorizedProofs8 Proofs.FactorizedProofs29.
Import ListNotations.

Section P.
Variable F : Type.
Variable Op : fops F.
Hypothesis Rth : ring_theory (f0 Op) (f1 Op) (fadd Op) (fmul Op) (fsub Op) (fopp Op) (@eq F).
Add Ring Fr32 : Rth.
Notation zero := (f0 Op).
Notation tensor := (tensor F).
Notation dflt := (mk (@nil nat) (@nil F)).

(* the validator's answer is only a gate *)
Lemma p2_from_gate (v v' : res (list (list nat) * nat)) x x' w fs ps : v = Ok x -> v' = Ok x' ->
  parafac2_to_tensor_from Op v w fs ps = parafac2_to_tensor_from Op v' w fs ps /\
  (forall i, parafac2_to_slice_from Op v w fs ps i = parafac2_to_slice_from Op v' w fs ps i) /\
  parafac2_to_slices_from Op v w fs ps = parafac2_to_slices_from Op v' w fs ps.
Proof. intros -> ->. repeat split. Qed.
Lemma p2_from_err w fs ps :
  parafac2_to_tensor_from Op Err w fs ps = Err /\ (forall i, parafac2_to_slice_from Op Err w fs ps i = Err) /\
  parafac2_to_slices_from Op Err w fs ps = Err.
Proof. repeat split. Qed.

Theorem parafac2_from_ok_slice_spec x (w : option tensor) (A B C : tensor) ps Js I Q R K i :
  shape A = [I; R] -> shape B = [Q; R] -> shape C = [K; R] -> w_ok F w R ->
  Forall2 (fun (P : tensor) J => shape P = [J; Q]) ps Js -> length ps = I -> i < I ->
  exists t, parafac2_to_slice_from Op (Ok x) w [A; B; C] ps i = Ok t /\ shape t = [nth i Js 0; K] /\
    forall j k, j < nth i Js 0 -> k < K -> get2 Op t j k = p2_entry F Op w A B C (nth i ps dflt) Q R i j k.
Proof.
  intros HA HB HC Hw Hps Hl Hi. unfold parafac2_to_slice_from. cbn [rbind].
  destruct (Forall2_nth_shape F ps Js Q Hps) as [_ Hn].
  apply (p2_slice_raw_spec F Op Rth w A B C ps I Q R K (nth i Js 0) i); auto; try lia. apply Hn. lia.
Qed.

Theorem parafac2_from_ok_spec x (w : option tensor) (A B C : tensor) ps Js I Q R K :
  shape A = [I; R] -> shape B = [Q; R] -> shape C = [K; R] -> w_ok F w R ->
  Forall2 (fun (P : tensor) J => shape P = [J; Q]) ps Js -> length ps = I ->
  exists t, parafac2_to_tensor_from Op (Ok x) w [A; B; C] ps = Ok t /\ shape t = [I; fold_right Nat.max 0 Js; K] /\
    forall i j k, i < I -> j < fold_right Nat.max 0 Js -> k < K ->
      get zero t [i; j; k] =
        if j <? nth i Js 0 then p2_entry F Op w A B C (nth i ps dflt) Q R i j k else zero.
Proof.
  intros HA HB HC Hw Hps Hl.
  destruct (Forall2_nth_shape F ps Js Q Hps) as [HlJ Hn].
  assert (Hlens : map (nrows (F:=F)) ps = Js).
  { clear - Hps. induction Hps as [|P J ps Js HP Hrest IH]; [reflexivity|]. cbn [map]. rewrite IH. unfold nrows. now rewrite HP. }
  unfold parafac2_to_tensor_from, parafac2_to_slices_from. cbn [rbind].
  assert (HA' : shape (opt_scale Op w A) = [I; R]) by (now apply (shape_opt_scale F)).
  unfold nrows at 1. rewrite HA. cbn [nth].
  destruct (collect_map_ok (fun i => p2_slice_raw Op None (opt_scale Op w A) B C ps i)
              (fun i t => forall j k, j < nth i Js 0 -> k < K -> get2 Op t j k = p2_entry F Op w A B C (nth i ps dflt) Q R i j k)
              dflt I 0) as (l & Hcol & Hlen & Hent).
  { intros i Hi.
    destruct (p2_slice_raw_spec F Op Rth None (opt_scale Op w A) B C ps I Q R K (nth i Js 0) i HA' HB HC Logic.I ltac:(lia) ltac:(lia)
                ltac:(apply Hn; lia)) as (t & Ht & _ & Hg).
    exists t. split; [exact Ht|]. intros j k Hj Hk. rewrite Hg by assumption. unfold p2_entry.
    apply (fsumn_ext F Op); intros r Hr. rewrite (get2_opt_scale F Op Rth w A I R) by (auto; lia). cbn [wv]. ring. }
  rewrite Hcol. cbn [rbind]. rewrite Hlens. unfold nrows. rewrite HA, HC. cbn [nth].
  set (Jm := fold_right Nat.max 0 Js).
  destruct (pad_slices_spec F Op I Jm K l Js (tabulate [I; Jm; K] (fun _ => zero)) 0 eq_refl) as [Hs Hg].
  { rewrite Hlen. lia. }
  eexists. split; [reflexivity|]. split; [exact Hs|].
  intros i j k Hi Hj Hk. rewrite Hg by assumption. cbn [Nat.leb andb]. rewrite Nat.sub_0_r, Nat.add_0_l, Hlen.
  apply Nat.ltb_lt in Hi as Hi'. rewrite Hi'. cbn [andb].
  destruct (Nat.ltb_spec j (nth i Js 0)) as [Hlt|Hge].
  - specialize (Hent i Hi). cbn [Nat.add] in Hent. now apply Hent.
  - rewrite get_tabulate by (simpl; tauto). reflexivity.
Qed.

Variable cj : F -> F.
Hypothesis feqb_eq : forall x y : F, feqb Op x y = true <-> x = y.

Lemma proj_ok_h_shapes R K : forall (ps : list tensor) shps, Forall2 (proj_ok_h F Op cj R K) ps shps ->
  Forall2 (fun (P : tensor) J => shape P = [J; R]) ps (map (fun s => nth 0 s 0) shps) /\
  Forall (fun s => s = [nth 0 s 0; K]) shps.
Proof.
  induction 1 as [|P s ps shps (j & HP & _ & ->) Hrest [IH1 IH2]]; cbn [map]; split; constructor; auto.
Qed.

(* what the CURRENT validator accepts is reconstructed: tensor of shape (I, max_i J_i, K), block i = slice i = P_i B diag(a_i w) C^T on its
   first J_i rows, zero below; the reported slice shapes are the shapes of the slices *)
Theorem parafac2_h_validated (w : option tensor) (A B C : tensor) ps shps R I :
  let v := validate_parafac2_h Op cj w [A; B; C] ps in
  v = Ok (shps, R) ->
  shape A = [I; R] -> shape B = [R; R] -> w_ok F w R ->
  exists t K, parafac2_to_tensor_from Op v w [A; B; C] ps = Ok t /\ shape C = [K; R] /\ length ps = I /\ length shps = I /\
    Forall (fun s => s = [nth 0 s 0; K]) shps /\
    shape t = [I; fold_right Nat.max 0 (map (fun s => nth 0 s 0) shps); K] /\
    (forall i j k, i < I -> j < fold_right Nat.max 0 (map (fun s => nth 0 s 0) shps) -> k < K ->
      get zero t [i; j; k] =
        if j <? nth 0 (nth i shps []) 0 then p2_entry F Op w A B C (nth i ps dflt) R R i j k else zero) /\
    (forall i, i < I -> exists sl, parafac2_to_slice_from Op v w [A; B; C] ps i = Ok sl /\ shape sl = nth i shps [] /\
       forall j k, j < nth 0 (nth i shps []) 0 -> k < K -> get2 Op sl j k = p2_entry F Op w A B C (nth i ps dflt) R R i j k).
Proof.
  cbv zeta. intros Hv HA HB Hw. rewrite Hv.
  apply (validate_parafac2_h_iff F Op cj feqb_eq) in Hv. destruct Hv as (A' & B' & C' & K & Efs & (rest & HA') & _ & HC & Hps & _).
  injection Efs as <- <- <-. rewrite HA in HA'. injection HA' as HI _.
  destruct (proj_ok_h_shapes R K ps shps Hps) as [HJs Hsh].
  destruct (parafac2_from_ok_spec (shps, R) w A B C ps (map (fun s => nth 0 s 0) shps) I R R K HA HB HC Hw HJs (eq_sym HI))
    as (t & Ht & Hst & Hgt).
  assert (Hlen : length shps = I) by (rewrite HI; clear - Hps; induction Hps; simpl; auto).
  assert (Hnth : forall i, nth i (map (fun s => nth 0 s 0) shps) 0 = nth 0 (nth i shps []) 0)
    by (intros i; exact (map_nth (fun s : list nat => nth 0 s 0) shps [] i)).
  exists t, K. split; [exact Ht|]. split; [exact HC|]. split; [now symmetry|]. split; [exact Hlen|].
  split; [exact Hsh|]. split; [exact Hst|]. split.
  - intros i j k Hi Hj Hk. rewrite Hgt by assumption. rewrite Hnth. reflexivity.
  - intros i Hi.
    destruct (parafac2_from_ok_slice_spec (shps, R) w A B C ps (map (fun s => nth 0 s 0) shps) I R R K i HA HB HC Hw HJs (eq_sym HI) Hi)
      as (sl & Hsl & Hss & Hgs).
    exists sl. split; [exact Hsl|]. rewrite Hnth in Hss, Hgs. split; [|exact Hgs].
    rewrite Hss. rewrite Forall_forall in Hsh. symmetry. apply Hsh. apply nth_In. lia.
Qed.

(* rejected by the current validator: no view *)
Theorem parafac2_h_rejected (w : option tensor) fs ps :
  validate_parafac2_h Op cj w fs ps = Err ->
  parafac2_to_tensor_from Op (validate_parafac2_h Op cj w fs ps) w fs ps = Err /\
  (forall i, parafac2_to_slice_from Op (validate_parafac2_h Op cj w fs ps) w fs ps i = Err) /\
  parafac2_to_slices_from Op (validate_parafac2_h Op cj w fs ps) w fs ps = Err.
Proof. intros ->. apply p2_from_err. Qed.

End P.

(* non-vacuity at the Gaussian integers: the unitary projection [i] (rejected by the old test) is accepted and reconstructed: slice 0 =
   P B diag(a) C^T = i * 3 * 2 * (1, 2) *)
Example parafac2_h_unitary_example :
  let g (a b : Z) : Tenalg.GI := (a, b) in
  let A := mk [1; 1] [g 2 0]%Z in let B := mk [1; 1] [g 3 0]%Z in let C := mk [2; 1] [g 1 0; g 2 0]%Z in
  let Pu := mk [1; 1] [g 0 1]%Z in
  validate_parafac2_h GIops gconj None [A; B; C] [Pu] = Ok ([[1; 2]], 1) /\ shape A = [1; 1] /\ shape B = [1; 1] /\
  parafac2_to_tensor_from GIops (validate_parafac2_h GIops gconj None [A; B; C] [Pu]) None [A; B; C] [Pu] = Ok (mk [1; 1; 2] [g 0 6; g 0 12]%Z).
Proof. vm_compute. repeat split. Qed.
