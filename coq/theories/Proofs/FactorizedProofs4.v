(* Lemmas about Model/Factorized.v (part 4: tensor ring = trace of the chain; TT/TR validators). *)
From Coq Require Import List Arith Lia Bool Ring.
From TLV Require Import Base.Shape Base.PyList Base.Tensor Base.BigSum Base.Ops Model.Base Model.Factorized
  Proofs.BaseProofs Proofs.FactorizedProofs Proofs.FactorizedProofs3.
Import ListNotations.

Section P.
Variable F : Type.
Variable Op : fops F.
Hypothesis Rth : ring_theory (f0 Op) (f1 Op) (fadd Op) (fmul Op) (fsub Op) (fopp Op) (@eq F).
Add Ring Fr4 : Rth.
Notation zero := (f0 Op).
Notation one := (f1 Op).
Notation "a *f b" := (fmul Op a b) (at level 40, left associativity).
Notation "a +f b" := (fadd Op a b) (at level 50, left associativity).
Notation tensor := (tensor F).
Notation fsumn := (fsumn Op).
Notation get2 := (get2 Op).
Notation get3 := (get3 F Op).
Notation chain := (chain F Op).
Notation tt_cores := (tt_cores F).

Lemma tt_cores_length r cs ns rl : tt_cores r cs ns rl -> length cs = length ns.
Proof. induction 1; simpl; auto. Qed.

Lemma tt_cores_snoc r cs ns rl : tt_cores r cs ns rl -> forall (G : tensor) n r', shape G = [rl; n; r'] -> 0 < r' ->
  tt_cores r (cs ++ [G]) (ns ++ [n]) r'.
Proof.
  induction 1 as [r | r n0 r0 G0 cs ns rl HG Hr Hcs IH]; intros G n r' HsG Hr'; simpl.
  - econstructor; [exact HsG | exact Hr' | constructor].
  - econstructor; [exact HG | exact Hr | now apply IH].
Qed.

(* appending a core multiplies the chain on the right *)
Lemma chain_snoc r cs ns rl : tt_cores r cs ns rl -> forall (G : tensor) n r' js i a b,
  shape G = [rl; n; r'] -> length js = length ns -> a < r -> b < r' ->
  chain (cs ++ [G]) (js ++ [i]) a b = fsumn rl (fun c => chain cs js a c *f get3 G c i b).
Proof.
  induction 1 as [r | r n0 r0 G0 cs ns rl HG Hr Hcs IH]; intros G n r' js i a b HsG Hl Ha Hb.
  - destruct js; [|discriminate]. simpl app. cbn [FactorizedProofs3.chain]. rewrite HsG. cbn [nth].
    rewrite (fsumn_single F Op Rth r' b); [| exact Hb | intros k Hk Hne; destruct (Nat.eqb_spec k b); [congruence | ring]].
    rewrite Nat.eqb_refl.
    rewrite (fsumn_single F Op Rth r a); [| exact Ha | intros k Hk Hne; destruct (Nat.eqb_spec a k); [congruence | ring]].
    rewrite Nat.eqb_refl. ring.
  - destruct js as [|j js]; [discriminate|]. simpl in Hl. simpl app. cbn [FactorizedProofs3.chain]. rewrite HG. cbn [nth].
    rewrite (fsumn_ext F Op r0 _ (fun c => fsumn rl (fun c' => get3 G0 a j c *f chain cs js c c' *f get3 G c' i b))).
    2:{ intros c Hc. rewrite (IH G n r' js i c b HsG) by (auto; lia). rewrite <- (fsumn_scale_l F Op Rth).
        apply (fsumn_ext F Op); intros c' Hc'. ring. }
    rewrite (fsumn_exchange F Op Rth). apply (fsumn_ext F Op); intros c' Hc'.
    rewrite <- (fsumn_scale_r F Op Rth). reflexivity.
Qed.

Lemma fsumn_mul n m f : fsumn (n * m) f = fsumn n (fun i => fsumn m (fun j => f (i * m + j))).
Proof. apply (bigsum_mul F _ _ _ _ _ _ Rth). Qed.

Lemma get3_tab a b c f i j k : i < a -> j < b -> k < c -> get zero (tabulate [a; b; c] f) [i; j; k] = f [i; j; k].
Proof. intros. apply get_tabulate. simpl. tauto. Qed.

(* tr_to_tensor_raw: entry idx = trace (G_1[:, i_1, :] ... G_N[:, i_N, :]) *)
Theorem tr_to_tensor_spec (fa : tensor) mid (fl : tensor) n0 nsm nL r0 rL :
  tt_cores r0 (fa :: mid) (n0 :: nsm) rL -> shape fl = [rL; nL; r0] -> 0 < r0 ->
  0 < prod ((n0 :: nsm) ++ [nL]) ->
  exists t, tr_to_tensor_raw Op (fa :: mid ++ [fl]) = Ok t /\ shape t = (n0 :: nsm) ++ [nL] /\
    forall idx, inb ((n0 :: nsm) ++ [nL]) idx ->
      get zero t idx = fsumn r0 (fun a => chain ((fa :: mid) ++ [fl]) idx a a).
Proof.
  intros Hc Hfl Hr0 Hpos.
  pose proof (tt_cores_snoc _ _ _ _ Hc fl nL r0 Hfl Hr0) as Hall.
  destruct (all_shape3_tt F _ _ _ _ Hall) as (ds & Eds & Ens).
  inversion Hc as [|? ? r1 ? ? ? ? Hfa Hr1 Hmid]; subst.
  assert (HrL : 0 < rL).
  { clear - Hmid Hr1. induction Hmid; auto. }
  rewrite prod_snoc in Hpos. set (M := prod (n0 :: nsm)) in *.
  assert (HM : 0 < M) by nia. assert (HnL : 0 < nL) by nia.
  unfold tr_to_tensor_raw. rewrite last_last, removelast_last.
  change (fa :: mid ++ [fl]) with ((fa :: mid) ++ [fl]). rewrite Eds. cbn [rbind]. rewrite Ens.
  unfold shape3 at 1. rewrite Hfa. cbn [rbind]. unfold shape3 at 1. rewrite Hfl. cbn [rbind d3a d3c fst snd].
  rewrite (reshape_back fa (r0 * n0) r1) by (try lia; rewrite Hfa; simpl; lia). cbn [rbind].
  destruct (tt_loop_spec F Op Rth _ _ _ _ Hmid (reshape [r0 * n0; r1] fa) (r0 * n0) eq_refl Hr1) as (full1 & H1 & Hs1 & Hg1).
  rewrite H1. cbn [rbind].
  assert (HMe : M = n0 * prod nsm) by reflexivity.
  rewrite (reshape_mid full1 r0 M rL) by (try lia; rewrite Hs1; simpl; nia). cbn [rbind].
  rewrite (reshape_back _ M (rL * r0)) by (try nia; rewrite shape_moveaxis; cbn [shape reshape]; simpl; nia). cbn [rbind].
  rewrite last_last.
  rewrite (reshape_back _ (rL * r0) nL) by (try lia; rewrite shape_moveaxis, Hfl; simpl; nia). cbn [rbind].
  match goal with |- context [mdot Op ?A ?B] => rewrite (mdot_ok F Op A B M (rL * r0) nL eq_refl eq_refl) end. cbn [rbind].
  rewrite reshape_spec_all_some by (cbn [shape tabulate]; rewrite prod_snoc; fold M; simpl; lia).
  eexists. split; [reflexivity|]. split; [reflexivity|].
  intros idx Hi. destruct (inb_snoc_inv _ _ _ Hi) as (ia & i & -> & Hia & Hil).
  pose proof (ravel_lt _ _ Hia) as HJ. fold M in HJ. set (J := ravel (n0 :: nsm) ia) in *.
  transitivity (get2 (tabulate [M; nL] (fun idx0 => fsumn (rL * r0) (fun l =>
      get2 (reshape [M; rL * r0] (moveaxis zero (reshape [r0; M; rL] full1) 0 2)) (ix 0 idx0) l *f
      get2 (reshape [rL * r0; nL] (moveaxis zero fl 2 1)) l (ix 1 idx0)))) J i).
  { unfold Factorized.get2, get, reshape. cbn [shape data tabulate]. f_equal.
    rewrite ravel_snoc by (now apply inb_length). fold J. simpl. lia. }
  rewrite (get2_tab F Op) by assumption. unfold ix. cbn [nth].
  rewrite fsumn_mul.
  rewrite (fsumn_exchange F Op Rth).
  apply (fsumn_ext F Op); intros a Ha.
  rewrite (chain_snoc _ _ _ _ Hc fl nL r0 ia i a a Hfl (inb_length _ _ Hia) Ha Ha).
  apply (fsumn_ext F Op); intros b Hb.
  f_equal.
  - (* the left operand: full3 moved and flattened *)
    rewrite get2_reshape2.
    transitivity (get zero (moveaxis zero (reshape [r0; M; rL] full1) 0 2) [J; b; a]).
    { unfold get. rewrite shape_moveaxis. cbn [shape reshape nth remove_nth insert_at]. f_equal. simpl. nia. }
    unfold moveaxis. cbn [shape reshape nth remove_nth insert_at].
    rewrite get3_tab by assumption. cbn [nth remove_nth insert_at].
    destruct ia as [|i0 js]; [simpl in Hia; tauto|]. change (i0 < n0 /\ inb nsm js) in Hia. destruct Hia as [Hi0 Hjs].
    transitivity (get2 full1 ((a * n0 + i0) * prod nsm + ravel nsm js) b).
    { unfold Factorized.get2, get, reshape. cbn [shape data]. rewrite Hs1. f_equal. unfold J. simpl. nia. }
    rewrite Hg1 by (try assumption; nia). cbn [FactorizedProofs3.chain]. rewrite Hfa. cbn [nth].
    apply (fsumn_ext F Op); intros c Hc'. f_equal.
    rewrite get2_reshape2, (get3_data F Op fa r0 n0 r1) by exact Hfa. f_equal. nia.
  - (* the right operand: the last core with its ring index moved next to the left rank *)
    rewrite get2_reshape2.
    transitivity (get zero (moveaxis zero fl 2 1) [b; a; i]).
    { unfold get. rewrite shape_moveaxis, Hfl. cbn [nth remove_nth insert_at]. f_equal. simpl. nia. }
    unfold moveaxis. rewrite Hfl. cbn [nth remove_nth insert_at].
    rewrite get3_tab by assumption. cbn [nth remove_nth insert_at]. reflexivity.
Qed.

End P.

(* ---------- _validate_tt_tensor / _validate_tr_tensor: accepted iff well-formed ---------- *)
Section V.
Variable F : Type.
Notation tensor := (tensor F).

(* cores G_k of shape (r_k, n_k, r_{k+1}): first rank r, mode sizes ns, left ranks rs, last right rank rl *)
Inductive chain_shapes : nat -> list tensor -> list nat -> list nat -> nat -> Prop :=
| csh_nil r : chain_shapes r [] [] [] r
| csh_cons r n r' (G : tensor) cs ns rs rl : shape G = [r; n; r'] -> chain_shapes r' cs ns rs rl ->
    chain_shapes r (G :: cs) (n :: ns) (r :: rs) rl.

Lemma last_indep {X} (l : list X) d d' : l <> [] -> last l d = last l d'.
Proof. induction l as [|x [|y l] IH]; intros H; [congruence | reflexivity |]. cbn [last]. apply IH. discriminate. Qed.

Lemma last_cons_indep {X} (x : X) (l : list X) d d' : l <> [] -> last (x :: l) d = last l d'.
Proof. intros H. destruct l; [congruence|]. change (last (x :: x0 :: l) d) with (last (x0 :: l) d). now apply last_indep. Qed.

Lemma shape3_iff (G : tensor) a b c : shape3 G = Ok (a, b, c) <-> shape G = [a; b; c].
Proof.
  unfold shape3. destruct (shape G) as [|x [|y [|z [|? ?]]]]; split; intros H; try discriminate.
  - injection H as -> -> ->. reflexivity.
  - injection H as -> -> ->. reflexivity.
Qed.

Lemma chain_ok_iff : forall (cs : list tensor) prev shp rs rl,
  (exists ds, all_shape3 cs = Ok ds /\ chain_ok prev ds = true /\ map d3b ds = shp /\ map d3a ds = rs /\
              d3c (last ds (0, 0, prev)) = rl) <-> chain_shapes prev cs shp rs rl.
Proof.
  induction cs as [|G cs IH]; intros prev shp rs rl; split.
  - intros (ds & E & _ & <- & <- & <-). injection E as <-. constructor.
  - intros H. inversion H; subst. exists []. repeat split; reflexivity.
  - intros (ds & E & Hok & <- & <- & <-). cbn [all_shape3] in E.
    destruct (shape3 G) as [[[a b] c]|] eqn:EG; cbn [rbind] in E; [|discriminate].
    destruct (all_shape3 cs) as [ds'|] eqn:E'; cbn [rbind] in E; [|discriminate]. injection E as <-.
    cbn [chain_ok d3a d3c fst snd] in Hok. apply andb_prop in Hok. destruct Hok as [Ha Hok]. apply Nat.eqb_eq in Ha. subst a.
    cbn [map d3a d3b fst snd]. apply csh_cons with (r' := c); [now apply shape3_iff|].
    apply IH. exists ds'. repeat split; auto.
    destruct ds' as [|x ds']; [reflexivity|]. f_equal. symmetry. apply last_cons_indep. discriminate.
  - intros H. inversion H as [|? n r' ? ? ns rs' ? HG Hrest]; subst.
    apply IH in Hrest. destruct Hrest as (ds & E & Hok & <- & <- & <-).
    exists ((prev, n, r') :: ds). cbn [all_shape3]. apply shape3_iff in HG. rewrite HG. cbn [rbind]. rewrite E. cbn [rbind].
    repeat split.
    + cbn [chain_ok d3a d3c fst snd]. rewrite Nat.eqb_refl. exact Hok.
    + destruct ds as [|x ds]; [reflexivity|]. f_equal. apply last_cons_indep. discriminate.
Qed.

Lemma all_shape3_length : forall (cs : list tensor) ds, all_shape3 cs = Ok ds -> length ds = length cs.
Proof.
  induction cs as [|G cs IH]; intros ds E; cbn [all_shape3] in E.
  - injection E as <-. reflexivity.
  - destruct (shape3 G); cbn [rbind] in E; [|discriminate]. destruct (all_shape3 cs) as [ds'|]; cbn [rbind] in E; [|discriminate].
    injection E as <-. simpl. f_equal. now apply IH.
Qed.

(* tensor train: a non-empty list of 3-D cores, consecutive ranks equal, both boundary ranks 1;
   reported (shape, rank) = (mode sizes, left ranks ++ [last right rank]) *)
Theorem validate_tt_iff (cs : list tensor) shp rk :
  validate_tt cs = Ok (shp, rk) <-> cs <> [] /\ exists rs, rk = rs ++ [1] /\ chain_shapes 1 cs shp rs 1.
Proof.
  unfold validate_tt. destruct cs as [|G cs]; [split; [discriminate | intros [H _]; congruence]|].
  split.
  - destruct (all_shape3 (G :: cs)) as [ds|] eqn:E; cbn [rbind]; [|discriminate].
    destruct (chain_ok 1 ds) eqn:Hok; cbn [andb]; [|discriminate].
    destruct (Nat.eqb_spec (d3c (last ds (0, 0, 0))) 1) as [Hl|]; [|discriminate]. intros H; injection H as <- <-.
    split; [discriminate|]. exists (map d3a ds). rewrite Hl. split; [reflexivity|].
    apply chain_ok_iff. exists ds. repeat split; auto. rewrite <- Hl. f_equal. apply last_indep.
    apply all_shape3_length in E. destruct ds; [discriminate | discriminate].
  - intros (_ & rs & -> & H). apply chain_ok_iff in H. destruct H as (ds & E & Hok & <- & <- & Hl).
    rewrite E. cbn [rbind]. rewrite Hok.
    assert (Hne : ds <> []) by (apply all_shape3_length in E; destruct ds; [discriminate | discriminate]).
    rewrite (last_indep ds (0, 0, 0) (0, 0, 1) Hne), Hl. reflexivity.
Qed.

(* tensor ring: at least two 3-D cores, consecutive ranks equal cyclically (last right rank = first left rank) *)
Theorem validate_tr_iff (cs : list tensor) shp rk :
  validate_tr cs = Ok (shp, rk) <-> 2 <= length cs /\ exists rs r0, rk = rs ++ [r0] /\ chain_shapes r0 cs shp rs r0.
Proof.
  unfold validate_tr. destruct (Nat.ltb_spec (length cs) 2) as [Hlt|Hge]; [split; [discriminate | intros [H _]; lia]|].
  split.
  - destruct (all_shape3 cs) as [ds|] eqn:E; cbn [rbind]; [|discriminate].
    destruct (chain_ok (d3c (last ds (0, 0, 0))) ds) eqn:Hok; [|discriminate]. intros H; injection H as <- <-.
    split; [exact Hge|]. exists (map d3a ds), (d3c (last ds (0, 0, 0))). split; [reflexivity|].
    apply chain_ok_iff. exists ds. repeat split; auto. f_equal. apply last_indep.
    apply all_shape3_length in E. destruct ds; simpl in *; [lia | discriminate].
  - intros (_ & rs & r0 & -> & H). apply chain_ok_iff in H. destruct H as (ds & E & Hok & <- & <- & Hl).
    rewrite E. cbn [rbind].
    assert (Hne : ds <> []) by (apply all_shape3_length in E; destruct ds; simpl in *; [lia | discriminate]).
    rewrite (last_indep ds (0, 0, 0) (0, 0, r0) Hne), Hl, Hok. reflexivity.
Qed.

End V.
