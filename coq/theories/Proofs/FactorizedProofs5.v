(* Lemmas about Model/Factorized.v (part 5: Tucker -- mode products, multi-mode product, validator). *)
From Coq Require Import List Arith Lia Bool Ring.
From TLV Require Import Base.Shape Base.PyList Base.Tensor Base.BigSum Base.Ops Model.Base Model.Factorized
  Proofs.BaseProofs Proofs.FactorizedProofs.
Import ListNotations.

(* ---------- list surgery ---------- *)
Lemma remove_set_nth {A} k (v : A) : forall l, remove_nth k (set_nth k v l) = remove_nth k l.
Proof. induction k; intros [|x l]; simpl; auto. f_equal. apply IHk. Qed.
Lemma insert_remove_set {A} k (v : A) : forall l, k < length l -> insert_at k v (remove_nth k l) = set_nth k v l.
Proof. induction k; intros [|x l] H; simpl in *; try lia; auto. f_equal. apply IHk. lia. Qed.
Lemma set_nth_app {A} (v x : A) : forall pre l, set_nth (length pre) v (pre ++ x :: l) = pre ++ v :: l.
Proof. induction pre; intros l; simpl; auto. f_equal. apply IHpre. Qed.
Lemma nth_app_mid {A} (x d : A) : forall pre l, nth (length pre) (pre ++ x :: l) d = x.
Proof. induction pre; intros l; simpl; auto. Qed.
Lemma remove_nth_app {A} (x : A) : forall pre l, remove_nth (length pre) (pre ++ x :: l) = pre ++ l.
Proof. induction pre; intros l; simpl; auto. f_equal. apply IHpre. Qed.
Lemma inb_set_nth k : forall s idx c j, inb s idx -> j < c -> inb (set_nth k c s) (set_nth k j idx).
Proof.
  induction k; intros [|a s] [|i idx] c j H Hj; simpl in *; try tauto.
  destruct H; split; auto.
Qed.
Lemma inb_app_split s1 : forall s2 idx, inb (s1 ++ s2) idx -> exists i1 i2, idx = i1 ++ i2 /\ inb s1 i1 /\ inb s2 i2.
Proof.
  induction s1 as [|d s1 IH]; intros s2 idx H.
  - exists [], idx. simpl. tauto.
  - destruct idx as [|i idx]; simpl in H; [tauto|]. destruct H as [Hi H].
    destruct (IH _ _ H) as (i1 & i2 & -> & H1 & H2). exists (i :: i1), i2. simpl. tauto.
Qed.

Section P.
Variable F : Type.
Variable Op : fops F.
Hypothesis Rth : ring_theory (f0 Op) (f1 Op) (fadd Op) (fmul Op) (fsub Op) (fopp Op) (@eq F).
Add Ring Fr5 : Rth.
Notation zero := (f0 Op).
Notation one := (f1 Op).
Notation "a *f b" := (fmul Op a b) (at level 40, left associativity).
Notation "a +f b" := (fadd Op a b) (at level 50, left associativity).
Notation tensor := (tensor F).
Notation fsumn := (fsumn Op).
Notation get2 := (get2 Op).
Notation fsum_idx := (sum_idx F (f0 Op) (fadd Op)).

Lemma sum_idx_fsumn s c (h : nat -> list nat -> F) :
  fsum_idx s (fun js => fsumn c (fun j => h j js)) = fsumn c (fun j => fsum_idx s (h j)).
Proof. unfold sum_idx, Factorized.fsumn. apply (bigsum_exchange F _ _ _ _ _ _ Rth). Qed.
Lemma fsum_idx_ext s f g : (forall idx, inb s idx -> f idx = g idx) -> fsum_idx s f = fsum_idx s g.
Proof. apply sum_idx_ext. Qed.
Lemma fsum_idx_cons d s f : fsum_idx (d :: s) f = fsumn d (fun i => fsum_idx s (fun idx => f (i :: idx))).
Proof. apply (sum_idx_cons F _ _ _ _ _ _ Rth). Qed.
Lemma fsum_idx_nil f : fsum_idx [] f = f [].
Proof. apply (sum_idx_nil F _ _ _ _ _ _ Rth). Qed.

(* mode-k product with a matrix (core backend: fold(dot(M, unfold(T, k)), k, new_shape)):
   entry idx = sum_j M[idx_k, j] * T[idx with idx_k := j] *)
Lemma mode_dot_spec (T M : tensor) k s p c :
  wf T -> shape T = s -> k < length s -> nth k s 0 = c -> shape M = [p; c] -> 0 < prod s ->
  exists t, mode_dot Op T M k = Ok t /\ wf t /\ shape t = set_nth k p s /\
    forall idx, inb (set_nth k p s) idx ->
      get zero t idx = fsumn c (fun j => get2 M (nth k idx 0) j *f get zero T (set_nth k j idx)).
Proof.
  intros W Hs Hk Hc HM Hpos. unfold mode_dot, ndim, ncols. rewrite HM, Hs. cbn [length nth].
  apply Nat.ltb_lt in Hk as Hk'. rewrite Hk', Hc, !Nat.eqb_refl. cbn [andb].
  assert (HkT : k < ndim T) by (unfold ndim; now rewrite Hs).
  assert (HpT : 0 < prod (shape T)) by now rewrite Hs.
  pose proof (unfold_eq zero T k W HkT HpT) as HU. rewrite HU. cbn [rbind]. rewrite Hs, Hc in *.
  set (rem := remove_nth k s) in *.
  set (U := reshape [c; prod rem] (moveaxis zero T k 0)) in *.
  rewrite (mdot_ok F Op M U p c (prod rem) HM eq_refl). cbn [rbind].
  unfold nrows. rewrite HM. cbn [nth].
  unfold fold. rewrite set_nth_length, Hk'. rewrite nth_set_nth_same by exact Hk. rewrite remove_set_nth. fold rem.
  rewrite reshape_spec_all_some by (cbn [shape tabulate]; change (prod (p :: rem)) with (p * prod rem); change (prod [p; prod rem]) with (p * (prod rem * 1)); lia). cbn [rbind].
  eexists. split; [reflexivity|]. split; [apply wf_moveaxis|].
  assert (Hsh : insert_at k p rem = set_nth k p s) by (now apply insert_remove_set).
  split.
  - rewrite shape_moveaxis. cbn [shape reshape nth remove_nth]. exact Hsh.
  - intros idx Hi. unfold moveaxis. cbn [shape reshape nth remove_nth]. rewrite Hsh.
    rewrite get_tabulate by exact Hi. rewrite insert_at_0.
    set (i := nth k idx 0).
    assert (Hil : i < p).
    { unfold i. replace p with (nth k (set_nth k p s) 0) by (now apply nth_set_nth_same).
      apply inb_nth; [exact Hi | now rewrite set_nth_length]. }
    assert (Hrem : inb rem (remove_nth k idx)).
    { unfold rem. rewrite <- (remove_set_nth k p s). now apply inb_remove. }
    pose proof (ravel_lt _ _ Hrem) as Hcol.
    transitivity (get2 (tabulate [p; prod rem] (fun idx0 => fsumn c (fun l => get2 M (ix 0 idx0) l *f get2 U l (ix 1 idx0))))
                       i (ravel rem (remove_nth k idx))).
    { unfold Factorized.get2, get, reshape. cbn [shape data tabulate]. f_equal. simpl. lia. }
    rewrite (get2_tab F Op) by assumption. unfold ix. cbn [nth].
    apply (fsumn_ext F Op); intros j Hj. f_equal.
    (* entry of the unfolding *)
    set (idx0 := set_nth k j idx).
    assert (Hi0 : inb (shape T) idx0).
    { rewrite Hs. unfold idx0.
      replace s with (set_nth k c (set_nth k p s)).
      - apply inb_set_nth; assumption.
      - clear - Hk Hc. revert s Hk Hc. induction k; intros [|x s] Hk Hc; simpl in *; try lia; [now subst | f_equal; apply IHk; [lia | exact Hc]]. }
    assert (HpT2 : 0 < prod (shape T)) by (rewrite Hs; exact Hpos).
    destruct (unfold_layout zero T k U idx0 W HkT HpT2 HU Hi0) as [_ HL].
    assert (Hlen : k < length idx) by (rewrite (inb_length _ _ Hi), set_nth_length; exact Hk).
    unfold idx0 in HL at 1 2. rewrite nth_set_nth_same in HL by exact Hlen. rewrite remove_set_nth in HL.
    rewrite Hs in HL. fold rem in HL. exact HL.
Qed.

(* the Tucker term: prod_l U_l[i_l, j_l], a skipped mode contributing the Kronecker delta *)
Fixpoint tk_prod (k : nat) (skip : option nat) (Ms : list tensor) (is js : list nat) : F :=
  match Ms, is, js with
  | M :: Ms', i :: is', j :: js' =>
      (if match skip with Some s => s =? k | None => false end then (if i =? j then one else zero) else get2 M i j)
      *f tk_prod (S k) skip Ms' is' js'
  | _, _, _ => one
  end.

(* factor shapes: M_l is (n_l x c_l); at the skipped position the mode size stays c_l *)
Inductive tk_shapes : nat -> option nat -> list tensor -> list nat -> list nat -> Prop :=
| tks_nil k skip : tk_shapes k skip [] [] []
| tks_cons k skip (M : tensor) Ms n c ns cs :
    (if match skip with Some s => s =? k | None => false end then n = c else shape M = [n; c]) ->
    tk_shapes (S k) skip Ms ns cs -> tk_shapes k skip (M :: Ms) (n :: ns) (c :: cs).

(* multi_mode_dot(T, Ms, skip) over the trailing modes k, k+1, ... of T *)
Lemma multi_mode_dot_spec skip : forall Ms ns cs k (T : tensor) pre,
  tk_shapes k skip Ms ns cs -> length pre = k -> shape T = pre ++ cs -> wf T -> 0 < prod (pre ++ cs) -> 0 < prod ns ->
  exists t, multi_mode_dot_from Op k T Ms skip false = Ok t /\ wf t /\ shape t = pre ++ ns /\
    forall ipre irest, inb pre ipre -> inb ns irest ->
      get zero t (ipre ++ irest) = fsum_idx cs (fun js => get zero T (ipre ++ js) *f tk_prod k skip Ms irest js).
Proof.
  induction Ms as [|M Ms IH]; intros ns cs k T pre Hsh Hlen HsT W Hpos Hpn; inversion Hsh; subst.
  - exists T. split; [reflexivity|]. split; [exact W|]. split; [exact HsT|].
    intros ipre irest Hip Hir. destruct irest; [|simpl in Hir; tauto].
    rewrite fsum_idx_nil. simpl. ring.
  - rename ns0 into ns, cs0 into cs. cbn [multi_mode_dot_from].
    destruct (match skip with Some s => s =? length pre | None => false end) eqn:Esk.
    + (* skipped mode *)
      subst n.
      destruct (IH ns cs (S (length pre)) T (pre ++ [c]) H6) as (t & Ht & Wt & Hst & Hgt).
      { rewrite app_length. simpl. lia. }
      { rewrite <- app_assoc. exact HsT. }
      { exact W. }
      { rewrite <- app_assoc. exact Hpos. }
      { simpl in Hpn. nia. }
      exists t. split; [exact Ht|]. split; [exact Wt|]. split; [rewrite Hst, <- app_assoc; reflexivity|].
      intros ipre irest Hip Hir. destruct irest as [|i irest]; [simpl in Hir; tauto|].
      change (i < c /\ inb ns irest) in Hir. destruct Hir as [Hi Hir].
      replace (ipre ++ i :: irest) with ((ipre ++ [i]) ++ irest) by (now rewrite <- app_assoc).
      rewrite Hgt by (auto; apply inb_app; simpl; auto).
      rewrite fsum_idx_cons.
      rewrite (fsumn_single F Op Rth c i); [| exact Hi |].
      * apply fsum_idx_ext; intros js Hjs. rewrite <- app_assoc. cbn [app tk_prod]. rewrite Esk, Nat.eqb_refl. ring.
      * intros j Hj Hne. apply (bigsum_zero F _ _ _ _ _ _ Rth). intros q Hq. cbn [tk_prod]. rewrite Esk.
        destruct (Nat.eqb_spec i j); [congruence | ring].
    + (* a mode product *)
      assert (HM : shape M = [n; c]) by assumption.
      replace (negb (ndim M =? 2)) with false by (unfold ndim; now rewrite HM).
      destruct (mode_dot_spec T M (length pre) (pre ++ c :: cs) n c W HsT) as (T' & HT' & WT' & HsT' & HgT').
      { rewrite app_length. simpl. lia. }
      { apply nth_app_mid. }
      { exact HM. }
      { exact Hpos. }
      rewrite HT'. cbn [rbind]. rewrite set_nth_app in HsT', HgT'.
      assert (Hn0 : n <> 0) by (simpl in Hpn; nia).
      * destruct (IH ns cs (S (length pre)) T' (pre ++ [n]) H6) as (t & Ht & Wt & Hst & Hgt).
        { rewrite app_length. simpl. lia. }
        { rewrite <- app_assoc. exact HsT'. }
        { exact WT'. }
        { rewrite <- app_assoc. rewrite prod_app in *. simpl in *. nia. }
        { simpl in Hpn. nia. }
        exists t. split; [exact Ht|]. split; [exact Wt|]. split; [rewrite Hst, <- app_assoc; reflexivity|].
        intros ipre irest Hip Hir. destruct irest as [|i irest]; [simpl in Hir; tauto|].
        change (i < n /\ inb ns irest) in Hir. destruct Hir as [Hi Hir].
        replace (ipre ++ i :: irest) with ((ipre ++ [i]) ++ irest) by (now rewrite <- app_assoc).
        rewrite Hgt by (auto; apply inb_app; simpl; auto).
        rewrite fsum_idx_cons.
        rewrite (fsum_idx_ext cs _ (fun js => fsumn c (fun j =>
                   get zero T (ipre ++ j :: js) *f (get2 M i j *f tk_prod (S (length pre)) skip Ms irest js)))).
        2:{ intros js Hjs. rewrite <- app_assoc. cbn [app].
            rewrite HgT' by (apply inb_app; [exact Hip | split; assumption]).
            rewrite <- (fsumn_scale_r F Op Rth). apply (fsumn_ext F Op); intros j Hj.
            rewrite <- (inb_length _ _ Hip). rewrite nth_app_mid, set_nth_app. ring. }
        rewrite sum_idx_fsumn. apply (fsumn_ext F Op); intros j Hj.
        apply fsum_idx_ext; intros js Hjs. cbn [tk_prod]. rewrite Esk. reflexivity.
Qed.

(* tucker_to_tensor(core, factors, skip_factor): entry idx = sum over the core indices js of core[js] * prod_l U_l[idx_l, js_l] *)
Theorem tucker_to_tensor_spec (core : tensor) fs ns skip :
  tk_shapes 0 skip fs ns (shape core) -> wf core -> 0 < prod (shape core) -> 0 < prod ns ->
  exists t, tucker_to_tensor Op core fs skip false = Ok t /\ shape t = ns /\
    forall idx, inb ns idx ->
      get zero t idx = fsum_idx (shape core) (fun js => get zero core js *f tk_prod 0 skip fs idx js).
Proof.
  intros Hsh W Hpos Hpn.
  destruct (multi_mode_dot_spec skip fs ns (shape core) 0 core [] Hsh eq_refl eq_refl W Hpos Hpn) as (t & Ht & _ & Hst & Hgt).
  exists t. split; [exact Ht|]. split; [exact Hst|]. intros idx Hi. apply (Hgt [] idx I Hi).
Qed.

(* transpose_factors=True is the same as storing the transposed matrices *)
Lemma multi_mode_dot_transpose skip : forall Ms k (T : tensor), Forall (fun M => ndim M = 2) Ms ->
  multi_mode_dot_from Op k T Ms skip true = multi_mode_dot_from Op k T (map (mT Op) Ms) skip false.
Proof.
  induction Ms as [|M Ms IH]; intros k T H; [reflexivity|]. inversion H; subst. cbn [multi_mode_dot_from map].
  destruct (match skip with Some s => s =? k | None => false end); [now apply IH|].
  replace (ndim (mT Op M) =? 2) with true by reflexivity. replace (ndim M =? 2) with true by (symmetry; now apply Nat.eqb_eq).
  cbn [negb]. destruct (mode_dot Op T (mT Op M) k); cbn [rbind]; [now apply IH | reflexivity].
Qed.
Theorem tucker_transpose_factors (core : tensor) fs skip : Forall (fun M => ndim M = 2) fs ->
  tucker_to_tensor Op core fs skip true = tucker_to_tensor Op core (map (mT Op) fs) skip false.
Proof. apply multi_mode_dot_transpose. Qed.

End P.

(* ---------- _validate_tucker_tensor ---------- *)
Section V.
Variable F : Type.
Notation tensor := (tensor F).
Notation tk_shapes := (tk_shapes F).

Lemma tucker_dims_iff (cs : list nat) : forall (fs : list tensor) k ns rs, k + length fs = length cs ->
  (tucker_dims k cs fs = Ok (ns, rs) <-> tk_shapes k None fs ns rs /\ rs = skipn k cs).
Proof.
  induction fs as [|f fs IH]; intros k ns rs Hl; simpl in Hl.
  - cbn [tucker_dims]. rewrite skipn_all2 by lia. split.
    + intros H; injection H as <- <-. split; [constructor | reflexivity].
    + intros [H ->]. inversion H; subst. reflexivity.
  - cbn [tucker_dims].
    assert (Hsk : skipn k cs = nth k cs 0 :: skipn (S k) cs).
    { clear - Hl. revert k Hl. induction cs as [|c cs IHc]; intros k Hl; simpl in Hl; [lia|].
      destruct k; [reflexivity|]. simpl. apply IHc. lia. }
    split.
    + destruct (shape f) as [|n [|c [|? ?]]] eqn:Ef; try discriminate.
      destruct (Nat.eqb_spec c (nth k cs 0)) as [->|]; [|discriminate].
      destruct (tucker_dims (S k) cs fs) as [[ns' rs']|] eqn:E; cbn [rbind]; [|discriminate].
      intros H; injection H as <- <-. apply IH in E; [|lia]. destruct E as [E ->]. cbn [fst snd]. split.
      * constructor; [exact Ef | exact E].
      * now rewrite Hsk.
    + intros [H ->]. inversion H as [|? ? ? ? n c ns' rs' Hf Hrest]; subst. cbn in Hf. rewrite Hf.
      match goal with H' : c :: rs' = skipn k cs |- _ => rewrite Hsk in H'; injection H' as -> -> end. rewrite Nat.eqb_refl.
      assert (E : tucker_dims (S k) cs fs = Ok (ns', skipn (S k) cs)) by (apply IH; [lia | split; auto]).
      rewrite E. reflexivity.
Qed.

(* accepted iff: at least two factors, as many as the core has modes, factor l is a matrix with as many columns
   as the core has entries along mode l; reported shape = row counts, rank = shape of the core *)
Theorem validate_tucker_iff (core : tensor) fs shp rk :
  validate_tucker core fs = Ok (shp, rk) <->
  2 <= length fs /\ length fs = ndim core /\ rk = shape core /\ tk_shapes 0 None fs shp rk.
Proof.
  unfold validate_tucker. destruct (Nat.ltb_spec (length fs) 2) as [Hlt|Hge]; [split; [discriminate | intros [H _]; lia]|].
  destruct (Nat.eqb_spec (length fs) (ndim core)) as [He|Hne]; cbn [negb].
  - rewrite (tucker_dims_iff (shape core) fs 0 shp rk) by (unfold ndim in He; simpl; lia). cbn [skipn]. tauto.
  - split; [discriminate | intros (_ & H & _); contradiction].
Qed.

End V.
