(* Lemmas about Model/Factorized.v (part 6: cp_norm^2 from the Gram matrices = sum of the squared entries of the reconstruction). *)
From Coq Require Import List Arith Lia Bool Ring.
From TLV Require Import Base.Shape Base.PyList Base.Tensor Base.BigSum Base.Ops Model.Base Model.Factorized
  Proofs.BaseProofs Proofs.FactorizedProofs Proofs.FactorizedProofs5.
Import ListNotations.

Section P.
Variable F : Type.
Variable Op : fops F.
Hypothesis Rth : ring_theory (f0 Op) (f1 Op) (fadd Op) (fmul Op) (fsub Op) (fopp Op) (@eq F).
Add Ring Fr6 : Rth.
Notation zero := (f0 Op).
Notation one := (f1 Op).
Notation "a *f b" := (fmul Op a b) (at level 40, left associativity).
Notation "a +f b" := (fadd Op a b) (at level 50, left associativity).
Notation tensor := (tensor F).
Notation fsumn := (fsumn Op).
Notation get2 := (get2 Op).
Notation fsum_idx := (sum_idx F (f0 Op) (fadd Op)).
Notation prod_entries := (prod_entries F Op).
Notation mats := (mats F).
Notation cp_entry := (cp_entry F Op).

Lemma fsum_idx_scale_l s c f : fsum_idx s (fun idx => c *f f idx) = c *f fsum_idx s f.
Proof. unfold sum_idx. apply (bigsum_scale_l F _ _ _ _ _ _ Rth). Qed.

(* sum over all multi-indices of the product of two rank-one terms = product of the Gram entries *)
Lemma gram_prod R r s : forall fs shp, mats R fs shp ->
  fsum_idx shp (fun idx => prod_entries fs idx r *f prod_entries fs idx s) =
  fold_right (fun f acc => gram Op f r s *f acc) one fs.
Proof.
  induction 1 as [|f n fs shp Hf Hrest IH].
  - rewrite (fsum_idx_nil F Op Rth). simpl. ring.
  - rewrite (fsum_idx_cons F Op Rth). cbn [fold_right]. rewrite <- IH.
    unfold gram, nrows. rewrite Hf. cbn [nth]. rewrite <- (fsumn_scale_r F Op Rth).
    apply (fsumn_ext F Op); intros i Hi. rewrite <- fsum_idx_scale_l.
    apply (fsum_idx_ext F Op); intros idx Hidx. cbn [FactorizedProofs.prod_entries]. ring.
Qed.

Lemma fold_left_gram r s : forall (fs : list tensor) a,
  fold_left (fun acc f => acc *f gram Op f r s) fs a = a *f fold_right (fun f acc => gram Op f r s *f acc) one fs.
Proof. induction fs as [|f fs IH]; intros a; simpl; [ring | rewrite IH; ring]. Qed.

(* cp_norm(cp)^2 computed from the factors = sum over all entries of the squared reconstruction *)
Theorem cp_normsq_spec (w : option tensor) fs shp R :
  validate_cp w fs = Ok (shp, R) -> Forall (fun f => ndim f = 2) fs ->
  cp_normsq Op w fs = Ok (fsum_idx shp (fun idx => cp_entry w fs R idx *f cp_entry w fs R idx)).
Proof.
  intros Hv H2. pose proof (valid_mats F _ _ _ _ Hv H2) as Hm.
  unfold cp_normsq, cp_normsq_from. rewrite Hv. cbn [rbind]. rewrite (as_matrices_id F _ H2).
  assert (Hhd : (ndim (hd (mk [] []) fs) =? 2) = true).
  { destruct fs as [|f fs']; [inversion Hm; subst; discriminate Hv|]. inversion H2; subst. cbn [hd]. now apply Nat.eqb_eq. }
  rewrite Hhd. cbn [negb]. f_equal.
  assert (HR : ncols (hd (mk [] []) fs) = R).
  { destruct fs as [|f fs]; [inversion Hm; subst; discriminate Hv|]. inversion Hm; subst. unfold ncols. cbn [hd].
    match goal with H : shape f = _ |- _ => rewrite H end. reflexivity. }
  rewrite HR. symmetry.
  rewrite (fsum_idx_ext F Op shp _ (fun idx => fsumn R (fun r => fsumn R (fun s =>
     (wv Op w r *f wv Op w s) *f (prod_entries fs idx r *f prod_entries fs idx s))))).
  2:{ intros idx Hidx. unfold FactorizedProofs.cp_entry. rewrite <- (fsumn_scale_r F Op Rth).
      apply (fsumn_ext F Op); intros r Hr. rewrite <- (fsumn_scale_l F Op Rth).
      apply (fsumn_ext F Op); intros s Hs. ring. }
  rewrite (sum_idx_fsumn F Op Rth). apply (fsumn_ext F Op); intros r Hr.
  rewrite (sum_idx_fsumn F Op Rth). apply (fsumn_ext F Op); intros s Hs.
  rewrite fsum_idx_scale_l, (gram_prod R r s fs shp Hm), fold_left_gram. ring.
Qed.

End P.
