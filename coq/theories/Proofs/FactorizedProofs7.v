(* Lemmas about Model/Factorized.v (part 7: PARAFAC2 -- slices, zero padding). *)
From Coq Require Import List Arith Lia Bool Ring.
From TLV Require Import Base.Shape Base.PyList Base.Tensor Base.BigSum Base.Ops Model.Base Model.Factorized
  Proofs.BaseProofs Proofs.FactorizedProofs.
Import ListNotations.

Section P.
Variable F : Type.
Variable Op : fops F.
Hypothesis Rth : ring_theory (f0 Op) (f1 Op) (fadd Op) (fmul Op) (fsub Op) (fopp Op) (@eq F).
Add Ring Fr7 : Rth.
Notation zero := (f0 Op).
Notation one := (f1 Op).
Notation "a *f b" := (fmul Op a b) (at level 40, left associativity).
Notation "a +f b" := (fadd Op a b) (at level 50, left associativity).
Notation tensor := (tensor F).
Notation fsumn := (fsumn Op).
Notation get2 := (get2 Op).
Notation get1 := (get1 Op).
Notation dflt := (mk (@nil nat) (@nil F)).

(* entry (j, k) of slice i:  sum_r (P_i B)[j, r] * (A[i, r] * w_r) * C[k, r] *)
Definition p2_entry (w : option tensor) (A B C P : tensor) (Q R i j k : nat) : F :=
  fsumn R (fun r => fsumn Q (fun q => get2 P j q *f get2 B q r) *f (get2 A i r *f wv Op w r) *f get2 C k r).

Definition w_ok (w : option tensor) (R : nat) : Prop := match w with None => True | Some wt => shape wt = [R] end.

Lemma p2_slice_raw_spec (w : option tensor) (A B C : tensor) ps I Q R K J i :
  shape A = [I; R] -> shape B = [Q; R] -> shape C = [K; R] -> w_ok w R ->
  i < I -> i < length ps -> shape (nth i ps dflt) = [J; Q] ->
  exists t, p2_slice_raw Op w A B C ps i = Ok t /\ shape t = [J; K] /\
    forall j k, j < J -> k < K -> get2 t j k = p2_entry w A B C (nth i ps dflt) Q R i j k.
Proof.
  intros HA HB HC Hw Hi Hil HP. unfold p2_slice_raw, nrows. rewrite HA. cbn [nth].
  apply Nat.ltb_lt in Hi as Hi'. apply Nat.ltb_lt in Hil as Hil'. rewrite Hi', Hil'. cbn [andb].
  rewrite (mdot_ok F Op _ _ J Q R HP HB). cbn [rbind].
  set (Bi := tabulate [J; R] _).
  set (a' := match w with None => row_of Op A i | Some wt => mul_vec Op (row_of Op A i) wt end).
  assert (HsS : shape (scale_cols Op Bi a') = [J; R]) by (now apply (shape_scale_cols F Op)).
  pose proof (shape_mT F Op C K R HC) as HsT.
  rewrite (mdot_ok F Op _ _ J R K HsS HsT). cbn [rbind].
  eexists. split; [reflexivity|]. split; [reflexivity|].
  intros j k Hj Hk. rewrite (get2_tab F Op) by assumption. unfold ix. cbn [nth]. unfold p2_entry.
  apply (fsumn_ext F Op); intros r Hr.
  rewrite (get2_scale_cols F Op Bi a' J R) by (auto; reflexivity).
  rewrite (get2_mT F Op C K R) by assumption.
  unfold Bi. rewrite (get2_tab F Op) by assumption. unfold ix. cbn [nth].
  assert (Ha' : get1 a' r = get2 A i r *f wv Op w r).
  { unfold a', row_of, ncols. rewrite HA. cbn [nth]. destruct w as [wt|]; cbn [wv].
    - unfold mul_vec. cbn [shape tabulate]. rewrite (get1_tab F Op) by exact Hr. unfold ix. cbn [nth].
      rewrite (get1_tab F Op) by exact Hr. unfold ix. cbn [nth]. reflexivity.
    - rewrite (get1_tab F Op) by exact Hr. unfold ix. cbn [nth]. ring. }
  rewrite Ha'. reflexivity.
Qed.

(* collecting a list of successful computations *)
Lemma collect_map_ok {X} (f : nat -> res X) (P : nat -> X -> Prop) (d : X) : forall n a,
  (forall i, a <= i < a + n -> exists x, f i = Ok x /\ P i x) ->
  exists l, collect (map f (seq a n)) = Ok l /\ length l = n /\ forall i, i < n -> P (a + i) (nth i l d).
Proof.
  induction n as [|n IH]; intros a H.
  - exists []. repeat split; auto. intros i Hi. lia.
  - destruct (H a ltac:(lia)) as (x & Hx & Px).
    destruct (IH (S a)) as (l & Hl & Hlen & Hp). { intros i Hi. apply H. lia. }
    exists (x :: l). cbn [seq map collect]. rewrite Hx. cbn [rbind]. rewrite Hl. cbn [rbind].
    split; [reflexivity|]. split; [simpl; lia|].
    intros [|i] Hi; cbn [nth]; [now rewrite Nat.add_0_r|]. replace (a + S i) with (S a + i) by lia. apply Hp. lia.
Qed.

(* zero tensor + slice updates: row block i, rows < len_i, is slice i; everything else keeps its old value *)
Lemma pad_slices_spec I Jm K : forall slices lens (T : tensor) i0,
  shape T = [I; Jm; K] -> length slices = length lens ->
  let T' := pad_slices Op T i0 slices lens in
  shape T' = [I; Jm; K] /\
  forall i j k, i < I -> j < Jm -> k < K ->
    get zero T' [i; j; k] =
      if (i0 <=? i) && (i <? i0 + length slices) && (j <? nth (i - i0) lens 0)
      then get2 (nth (i - i0) slices dflt) j k else get zero T [i; j; k].
Proof.
  induction slices as [|Sl slices IH]; intros lens T i0 HT Hlen; destruct lens as [|len lens]; try discriminate; cbn [pad_slices].
  - split; [exact HT|]. intros i j k Hi Hj Hk. cbn [length]. rewrite Nat.add_0_r.
    destruct (i0 <=? i) eqn:E1; destruct (i <? i0) eqn:E2; cbn [andb]; try reflexivity.
    apply Nat.leb_le in E1. apply Nat.ltb_lt in E2. lia.
  - simpl in Hlen. injection Hlen as Hlen.
    assert (HsU : shape (slice_update Op T i0 len Sl) = [I; Jm; K]) by (unfold slice_update; cbn [shape tabulate]; exact HT).
    destruct (IH lens (slice_update Op T i0 len Sl) (S i0) HsU Hlen) as [Hs Hg]. split; [exact Hs|].
    intros i j k Hi Hj Hk. rewrite Hg by assumption. cbn [length].
    assert (Hup : get zero (slice_update Op T i0 len Sl) [i; j; k] =
                  if (i =? i0) && (j <? len) then get2 Sl j k else get zero T [i; j; k]).
    { unfold slice_update. rewrite HT. rewrite get_tabulate by (simpl; tauto). unfold ix. cbn [nth]. reflexivity. }
    destruct (Nat.eq_dec i i0) as [->|Hne].
    + (* the block written at this step; later steps write other blocks *)
      replace (S i0 <=? i0) with false by (symmetry; apply Nat.leb_gt; lia). cbn [andb].
      rewrite Hup, Nat.eqb_refl, Nat.leb_refl, Nat.sub_diag. cbn [andb nth].
      replace (i0 <? i0 + S (length slices)) with true by (symmetry; apply Nat.ltb_lt; lia). reflexivity.
    + rewrite Hup. replace (i =? i0) with false by (symmetry; now apply Nat.eqb_neq). cbn [andb].
      destruct (Nat.lt_ge_cases i i0) as [Hlt|Hge].
      * replace (S i0 <=? i) with false by (symmetry; apply Nat.leb_gt; lia).
        replace (i0 <=? i) with false by (symmetry; apply Nat.leb_gt; lia). reflexivity.
      * replace (S i0 <=? i) with true by (symmetry; apply Nat.leb_le; lia).
        replace (i0 <=? i) with true by (symmetry; apply Nat.leb_le; lia).
        replace (i0 + S (length slices)) with (S i0 + length slices) by lia.
        replace (i - i0) with (S (i - S i0)) by lia. cbn [nth]. reflexivity.
Qed.

Lemma Forall2_nth_shape (ps : list tensor) Js Q : Forall2 (fun (P : tensor) J => shape P = [J; Q]) ps Js ->
  length ps = length Js /\ forall i, i < length ps -> shape (nth i ps dflt) = [nth i Js 0; Q].
Proof.
  induction 1 as [|P J ps Js HP Hrest [IHl IHn]]; simpl; [split; [reflexivity | intros; lia]|].
  split; [now rewrite IHl|]. intros [|i] Hi; [exact HP | apply IHn; lia].
Qed.

(* parafac2_to_slice(.., i): entry (j, k) = sum_r (P_i B)[j, r] * (A[i, r] * w_r) * C[k, r] *)
Theorem parafac2_to_slice_spec (w : option tensor) (A B C : tensor) ps Js shp I Q R K i :
  validate_parafac2 Op w [A; B; C] ps = Ok (shp, R) ->
  shape A = [I; R] -> shape B = [Q; R] -> shape C = [K; R] -> w_ok w R ->
  Forall2 (fun (P : tensor) J => shape P = [J; Q]) ps Js -> length ps = I -> i < I ->
  exists t, parafac2_to_slice Op w [A; B; C] ps i = Ok t /\ shape t = [nth i Js 0; K] /\
    forall j k, j < nth i Js 0 -> k < K -> get2 t j k = p2_entry w A B C (nth i ps dflt) Q R i j k.
Proof.
  intros Hv HA HB HC Hw Hps Hl Hi. unfold parafac2_to_slice, parafac2_to_slice_from. rewrite Hv. cbn [rbind].
  destruct (Forall2_nth_shape ps Js Q Hps) as [_ Hn].
  apply (p2_slice_raw_spec w A B C ps I Q R K (nth i Js 0) i); auto; try lia. apply Hn. lia.
Qed.

(* parafac2_to_tensor: slice i occupies rows < J_i of block i, the remaining rows (up to the longest slice) are zero *)
Theorem parafac2_to_tensor_spec (w : option tensor) (A B C : tensor) ps Js shp I Q R K :
  validate_parafac2 Op w [A; B; C] ps = Ok (shp, R) ->
  shape A = [I; R] -> shape B = [Q; R] -> shape C = [K; R] -> w_ok w R ->
  Forall2 (fun (P : tensor) J => shape P = [J; Q]) ps Js -> length ps = I ->
  exists t, parafac2_to_tensor Op w [A; B; C] ps = Ok t /\ shape t = [I; fold_right Nat.max 0 Js; K] /\
    forall i j k, i < I -> j < fold_right Nat.max 0 Js -> k < K ->
      get zero t [i; j; k] =
        if j <? nth i Js 0 then p2_entry w A B C (nth i ps dflt) Q R i j k else zero.
Proof.
  intros Hv HA HB HC Hw Hps Hl.
  destruct (Forall2_nth_shape ps Js Q Hps) as [HlJ Hn].
  assert (Hlens : map (nrows (F:=F)) ps = Js).
  { clear - Hps. induction Hps as [|P J ps Js HP Hrest IH]; [reflexivity|]. cbn [map]. rewrite IH. unfold nrows. now rewrite HP. }
  unfold parafac2_to_tensor, parafac2_to_tensor_from, parafac2_to_slices_from. rewrite Hv. cbn [rbind].
  assert (HA' : shape (opt_scale Op w A) = [I; R]) by (now apply (shape_opt_scale F)).
  unfold nrows at 1. rewrite HA. cbn [nth].
  destruct (collect_map_ok (fun i => p2_slice_raw Op None (opt_scale Op w A) B C ps i)
              (fun i t => forall j k, j < nth i Js 0 -> k < K -> get2 t j k = p2_entry w A B C (nth i ps dflt) Q R i j k)
              dflt I 0) as (l & Hcol & Hlen & Hent).
  { intros i Hi.
    destruct (p2_slice_raw_spec None (opt_scale Op w A) B C ps I Q R K (nth i Js 0) i HA' HB HC Logic.I ltac:(lia) ltac:(lia)
                ltac:(apply Hn; lia)) as (t & Ht & _ & Hg).
    exists t. split; [exact Ht|]. intros j k Hj Hk. rewrite Hg by assumption. unfold p2_entry.
    apply (fsumn_ext F Op); intros r Hr. rewrite (get2_opt_scale F Op Rth w A I R) by (auto; lia). cbn [wv]. ring. }
  rewrite Hcol. cbn [rbind]. rewrite Hlens. unfold nrows. rewrite HA, HC. cbn [nth].
  set (Jm := fold_right Nat.max 0 Js).
  destruct (pad_slices_spec I Jm K l Js (tabulate [I; Jm; K] (fun _ => zero)) 0 eq_refl) as [Hs Hg].
  { rewrite Hlen. lia. }
  eexists. split; [reflexivity|]. split; [exact Hs|].
  intros i j k Hi Hj Hk. rewrite Hg by assumption. cbn [Nat.leb andb]. rewrite Nat.sub_0_r, Nat.add_0_l, Hlen.
  apply Nat.ltb_lt in Hi as Hi'. rewrite Hi'. cbn [andb].
  destruct (Nat.ltb_spec j (nth i Js 0)) as [Hlt|Hge].
  - specialize (Hent i Hi). cbn [Nat.add] in Hent. now apply Hent.
  - rewrite get_tabulate by (simpl; tauto). reflexivity.
Qed.

End P.
