(* Lemmas about Model/Factorized.v (part 8: _validate_tt_matrix and _validate_parafac2_tensor accepted iff well-formed). *)
From Coq Require Import List Arith Lia Bool Ring.
From TLV Require Import Base.Shape Base.PyList Base.Tensor Base.BigSum Base.Ops Model.Base Model.Factorized
  Proofs.BaseProofs Proofs.FactorizedProofs Proofs.FactorizedProofs4.
Import ListNotations.

Section V.
Variable F : Type.
Notation tensor := (tensor F).

(* cores G_k of shape (r_k, in_k, out_k, r_{k+1}) *)
Inductive chain_shapes4 : nat -> list tensor -> list nat -> list nat -> list nat -> nat -> Prop :=
| csh4_nil r : chain_shapes4 r [] [] [] [] r
| csh4_cons r n m r' (G : tensor) cs ns ms rs rl : shape G = [r; n; m; r'] -> chain_shapes4 r' cs ns ms rs rl ->
    chain_shapes4 r (G :: cs) (n :: ns) (m :: ms) (r :: rs) rl.

Lemma shape4_iff (G : tensor) a b c e : shape4 G = Ok (a, b, c, e) <-> shape G = [a; b; c; e].
Proof.
  unfold shape4. destruct (shape G) as [|x [|y [|z [|u [|? ?]]]]]; split; intros H; try discriminate.
  - injection H as -> -> -> ->. reflexivity.
  - injection H as -> -> -> ->. reflexivity.
Qed.

Lemma chain_ok4_iff : forall (cs : list tensor) prev ns ms rs rl,
  (exists ds, all_shape4 cs = Ok ds /\ chain_ok4 prev ds = true /\ map d4b ds = ns /\ map d4c ds = ms /\ map d4a ds = rs /\
              d4e (last ds (0, 0, 0, prev)) = rl) <-> chain_shapes4 prev cs ns ms rs rl.
Proof.
  induction cs as [|G cs IH]; intros prev ns ms rs rl; split.
  - intros (ds & E & _ & <- & <- & <- & <-). injection E as <-. constructor.
  - intros H. inversion H; subst. exists []. repeat split; reflexivity.
  - intros (ds & E & Hok & <- & <- & <- & <-). cbn [all_shape4] in E.
    destruct (shape4 G) as [[[[a b] c] e]|] eqn:EG; cbn [rbind] in E; [|discriminate].
    destruct (all_shape4 cs) as [ds'|] eqn:E'; cbn [rbind] in E; [|discriminate]. injection E as <-.
    cbn [chain_ok4 d4a d4e fst snd] in Hok. apply andb_prop in Hok. destruct Hok as [Ha Hok]. apply Nat.eqb_eq in Ha. subst a.
    cbn [map d4a d4b d4c fst snd]. apply csh4_cons with (r' := e); [now apply shape4_iff|].
    apply IH. exists ds'. repeat split; auto.
    destruct ds' as [|x ds']; [reflexivity|]. f_equal. symmetry. apply last_cons_indep. discriminate.
  - intros H. inversion H as [|? n m r' ? ? ns' ms' rs' ? HG Hrest]; subst.
    apply IH in Hrest. destruct Hrest as (ds & E & Hok & <- & <- & <- & <-).
    exists ((prev, n, m, r') :: ds). cbn [all_shape4]. apply shape4_iff in HG. rewrite HG. cbn [rbind]. rewrite E. cbn [rbind].
    repeat split.
    + cbn [chain_ok4 d4a d4e fst snd]. rewrite Nat.eqb_refl. exact Hok.
    + destruct ds as [|x ds]; [reflexivity|]. f_equal. apply last_cons_indep. discriminate.
Qed.

Lemma all_shape4_length : forall (cs : list tensor) ds, all_shape4 cs = Ok ds -> length ds = length cs.
Proof.
  induction cs as [|G cs IH]; intros ds E; cbn [all_shape4] in E.
  - injection E as <-. reflexivity.
  - destruct (shape4 G); cbn [rbind] in E; [|discriminate]. destruct (all_shape4 cs) as [ds'|]; cbn [rbind] in E; [|discriminate].
    injection E as <-. simpl. f_equal. now apply IH.
Qed.

(* TT-matrix: a non-empty list of 4-D cores (r_k, in_k, out_k, r_k+1), consecutive ranks equal, both boundary ranks 1;
   reported shape = in sizes ++ out sizes *)
Theorem validate_ttm_iff (cs : list tensor) shp rk :
  validate_ttm cs = Ok (shp, rk) <->
  cs <> [] /\ exists ns ms rs, shp = ns ++ ms /\ rk = rs ++ [1] /\ chain_shapes4 1 cs ns ms rs 1.
Proof.
  unfold validate_ttm. destruct cs as [|G cs]; [split; [discriminate | intros [H _]; congruence]|].
  split.
  - destruct (all_shape4 (G :: cs)) as [ds|] eqn:E; cbn [rbind]; [|discriminate].
    destruct (chain_ok4 1 ds) eqn:Hok; cbn [andb]; [|discriminate].
    destruct (Nat.eqb_spec (d4e (last ds (0, 0, 0, 0))) 1) as [Hl|]; [|discriminate]. intros H; injection H as <- <-.
    split; [discriminate|]. exists (map d4b ds), (map d4c ds), (map d4a ds). rewrite Hl. split; [reflexivity|]. split; [reflexivity|].
    apply chain_ok4_iff. exists ds. repeat split; auto. rewrite <- Hl. f_equal. apply last_indep.
    apply all_shape4_length in E. destruct ds; [discriminate | discriminate].
  - intros (_ & ns & ms & rs & -> & -> & H). apply chain_ok4_iff in H. destruct H as (ds & E & Hok & <- & <- & <- & Hl).
    rewrite E. cbn [rbind]. rewrite Hok.
    assert (Hne : ds <> []) by (apply all_shape4_length in E; destruct ds; [discriminate | discriminate]).
    rewrite (last_indep ds (0, 0, 0, 0) (0, 0, 0, 1) Hne), Hl. reflexivity.
Qed.

End V.

(* ---------- _validate_parafac2_tensor ---------- *)
Section VP.
Variable F : Type.
Variable Op : fops F.
(* the order test of the carrier decides equality (true at Z, see feqb_Zops below) *)
Hypothesis feqb_eq : forall x y : F, feqb Op x y = true <-> x = y.
Notation tensor := (tensor F).
Notation "a *f b" := (fmul Op a b) (at level 40, left associativity).

(* P^T P = I on the first R columns *)
Definition orthonormal (P : tensor) (R : nat) : Prop :=
  forall r s, r < R -> s < R ->
    fsumn Op (nrows P) (fun i => get2 Op P i r *f get2 Op P i s) = if r =? s then f1 Op else f0 Op.

Lemma orthonormalb_iff (P : tensor) R : orthonormalb Op P R = true <-> orthonormal P R.
Proof.
  unfold orthonormalb, orthonormal. rewrite forallb_forall. split.
  - intros H r s Hr Hs. specialize (H r). rewrite in_seq in H. specialize (H ltac:(lia)).
    rewrite forallb_forall in H. specialize (H s). rewrite in_seq in H. apply feqb_eq. apply H. lia.
  - intros H r Hr. rewrite in_seq in Hr. rewrite forallb_forall. intros s Hs. rewrite in_seq in Hs.
    apply feqb_eq. apply H; lia.
Qed.

(* projection i is a (J_i x R) matrix with orthonormal columns; its slice has shape (J_i, K) *)
Definition proj_ok (R K : nat) (P : tensor) (s : list nat) : Prop :=
  exists j, shape P = [j; R] /\ orthonormal P R /\ s = [j; K].

Lemma p2_proj_shapes_iff R K : forall (ps : list tensor) shps,
  p2_proj_shapes Op R K ps = Ok shps <-> Forall2 (proj_ok R K) ps shps.
Proof.
  induction ps as [|P ps IH]; intros shps; cbn [p2_proj_shapes].
  - split; intros H; [injection H as <-; constructor | inversion H; reflexivity].
  - split.
    + destruct (shape P) as [|j [|c [|? ?]]] eqn:EP; try discriminate.
      destruct (Nat.eqb_spec c R) as [->|]; cbn [andb]; [|discriminate].
      destruct (orthonormalb Op P R) eqn:EO; [|discriminate].
      destruct (p2_proj_shapes Op R K ps) as [l|] eqn:E; cbn [rbind]; [|discriminate]. intros H; injection H as <-.
      constructor; [|now apply IH]. exists j. repeat split; auto. now apply orthonormalb_iff.
    + intros H. inversion H as [|? s ? l (j & HP & HO & ->) Hrest]; subst. rewrite HP, Nat.eqb_refl.
      apply orthonormalb_iff in HO. rewrite HO. cbn [andb]. apply IH in Hrest. rewrite Hrest. reflexivity.
Qed.

Lemma cols_are_iff R (f : tensor) : cols_are R f = true <-> exists n, shape f = [n; R].
Proof.
  unfold cols_are. destruct (shape f) as [|n [|c [|? ?]]]; split; intros H; try discriminate; try (destruct H as [? H]; discriminate).
  - apply Nat.eqb_eq in H. subst. eauto.
  - destruct H as [n' H]. injection H as -> ->. apply Nat.eqb_refl.
Qed.

(* accepted iff: exactly three factors; A has one row per projection and R columns; B and C are matrices with R columns; every
   projection is a matrix with R orthonormal columns; weights (if any) have leading length R.
   Reported: the slice shapes (J_i, K) and R *)
Theorem validate_parafac2_iff (w : option tensor) fs ps shps R :
  validate_parafac2 Op w fs ps = Ok (shps, R) <->
  exists A B C K,
    fs = [A; B; C] /\ (exists rest, shape A = length ps :: R :: rest) /\ (exists q, shape B = [q; R]) /\ shape C = [K; R] /\
    Forall2 (proj_ok R K) ps shps /\
    match w with None => True | Some wt => exists rest, shape wt = R :: rest end.
Proof.
  unfold validate_parafac2. split.
  - destruct fs as [|A [|B [|C [|? ?]]]]; try discriminate.
    destruct (shape A) as [|nI [|rank restA]] eqn:EA; try discriminate.
    destruct (Nat.eqb_spec (length ps) nI) as [<-|]; cbn [negb]; [|discriminate].
    destruct (shape C) as [|K restC] eqn:EC; [discriminate|].
    destruct (p2_proj_shapes Op rank K ps) as [l|] eqn:E; cbn [rbind]; [|discriminate].
    destruct (cols_are rank B) eqn:EB; cbn [andb]; [|discriminate].
    destruct (cols_are rank C) eqn:ECc; cbn [andb]; [|discriminate].
    destruct (p2_weights_ok w rank) eqn:EW; [|discriminate]. intros H; injection H as <- <-.
    exists A, B, C, K. split; [reflexivity|]. split; [eauto|].
    apply cols_are_iff in EB. split; [exact EB|].
    apply cols_are_iff in ECc. destruct ECc as [n Hn]. rewrite EC in Hn. injection Hn as <- ->. split; [exact EC|].
    split; [now apply p2_proj_shapes_iff|].
    destruct w as [wt|]; [|exact I]. cbn [p2_weights_ok] in EW. destruct (shape wt) as [|n rest]; [discriminate|].
    apply Nat.eqb_eq in EW. subst. eauto.
  - intros (A & B & C & K & -> & (restA & HA) & HB & HC & Hps & Hw). rewrite HA, Nat.eqb_refl. cbn [negb]. rewrite HC.
    apply p2_proj_shapes_iff in Hps. rewrite Hps. cbn [rbind].
    apply cols_are_iff in HB. rewrite HB.
    assert (HCc : cols_are R C = true) by (apply cols_are_iff; eauto). rewrite HCc. cbn [andb].
    assert (HW : p2_weights_ok w R = true).
    { destruct w as [wt|]; [|reflexivity]. destruct Hw as [rest Hw]. cbn [p2_weights_ok]. rewrite Hw. apply Nat.eqb_refl. }
    rewrite HW. reflexivity.
Qed.

End VP.

Lemma feqb_Zops : forall x y : BinNums.Z, feqb Zops x y = true <-> x = y.
Proof.
  intros x y. unfold feqb. cbn [fleb Zops]. rewrite andb_true_iff, !BinInt.Z.leb_le. lia.
Qed.
