(* Lemmas about Model/Factorized.v (part 9: TT-matrix -- tensordot chain, interleaved reshape, transposition). *)
From Coq Require Import List Arith Lia Bool Ring.
From TLV Require Import Base.Shape Base.PyList Base.Tensor Base.BigSum Base.Ops Model.Base Model.Factorized
  Proofs.BaseProofs Proofs.FactorizedProofs Proofs.FactorizedProofs3 Proofs.FactorizedProofs5.
Import ListNotations.

(* ---------- interleaving two lists; the transposition order evens ++ odds ---------- *)
Fixpoint interleave {A} (l1 l2 : list A) : list A :=
  match l1, l2 with
  | x :: l1', y :: l2' => x :: y :: interleave l1' l2'
  | _, _ => []
  end.

Lemma interleave_length {A} : forall (l1 l2 : list A), length l1 = length l2 -> length (interleave l1 l2) = 2 * length l1.
Proof. induction l1; intros [|y l2] H; simpl in *; try lia. rewrite IHl1 by lia. lia. Qed.

Lemma nth_interleave_even {A} (d : A) : forall (l1 l2 : list A) k, length l1 = length l2 -> k < length l1 ->
  nth (2 * k) (interleave l1 l2) d = nth k l1 d.
Proof.
  induction l1 as [|x l1 IH]; intros [|y l2] k H Hk; cbn [length] in *; try lia.
  destruct k; [reflexivity|]. replace (2 * S k) with (S (S (2 * k))) by lia. cbn [interleave nth]. apply IH; lia.
Qed.
Lemma nth_interleave_odd {A} (d : A) : forall (l1 l2 : list A) k, length l1 = length l2 -> k < length l1 ->
  nth (2 * k + 1) (interleave l1 l2) d = nth k l2 d.
Proof.
  induction l1 as [|x l1 IH]; intros [|y l2] k H Hk; cbn [length] in *; try lia.
  destruct k; [reflexivity|]. replace (2 * S k + 1) with (S (S (2 * k + 1))) by lia. cbn [interleave nth]. apply IH; lia.
Qed.

Definition tt_order (n : nat) : list nat := map (fun k => 2 * k) (seq 0 n) ++ map (fun k => 2 * k + 1) (seq 0 n).

Lemma tt_order_length n : length (tt_order n) = 2 * n.
Proof. unfold tt_order. rewrite app_length, !map_length, seq_length. lia. Qed.

Lemma nth_tt_order n j : j < 2 * n -> nth j (tt_order n) 0 = if j <? n then 2 * j else 2 * (j - n) + 1.
Proof.
  intros Hj. unfold tt_order. destruct (Nat.ltb_spec j n) as [Hlt|Hge].
  - rewrite app_nth1 by (rewrite map_length, seq_length; exact Hlt).
    rewrite (nth_map' (fun k => 2 * k) (seq 0 n) j 0 0) by (rewrite seq_length; exact Hlt). rewrite seq_nth by exact Hlt. reflexivity.
  - rewrite app_nth2 by (rewrite map_length, seq_length; exact Hge). rewrite map_length, seq_length.
    rewrite (nth_map' (fun k => 2 * k + 1) (seq 0 n) (j - n) 0 0) by (rewrite seq_length; lia). rewrite seq_nth by lia. reflexivity.
Qed.

Lemma tt_order_NoDup n : NoDup (tt_order n).
Proof.
  apply (NoDup_nth (tt_order n) 0). rewrite tt_order_length. intros i j Hi Hj. rewrite !nth_tt_order by assumption.
  destruct (Nat.ltb_spec i n), (Nat.ltb_spec j n); lia.
Qed.

Lemma index_of_even n k : k < n -> index_of (2 * k) (tt_order n) = k.
Proof.
  intros Hk. replace (2 * k) with (nth k (tt_order n) 0).
  - apply index_of_nth; [apply tt_order_NoDup | rewrite tt_order_length; lia].
  - rewrite nth_tt_order by lia. apply Nat.ltb_lt in Hk. now rewrite Hk.
Qed.
Lemma index_of_odd n k : k < n -> index_of (2 * k + 1) (tt_order n) = n + k.
Proof.
  intros Hk. replace (2 * k + 1) with (nth (n + k) (tt_order n) 0).
  - apply index_of_nth; [apply tt_order_NoDup | rewrite tt_order_length; lia].
  - rewrite nth_tt_order by lia. replace (n + k <? n) with false by (symmetry; apply Nat.ltb_ge; lia). f_equal. lia.
Qed.

Lemma even_or_odd a : exists k, a = 2 * k \/ a = 2 * k + 1.
Proof. exists (a / 2). pose proof (Nat.div_mod a 2 ltac:(lia)). pose proof (Nat.mod_upper_bound a 2 ltac:(lia)). lia. Qed.

(* the index read by transpose(., evens ++ odds) at position is ++ os is the interleaved index *)
Lemma scatter_tt_order (is os : list nat) : length is = length os ->
  scatter (tt_order (length is)) (is ++ os) = interleave is os.
Proof.
  intros Hl. set (n := length is). unfold scatter. rewrite tt_order_length.
  apply (nth_ext _ _ 0 0).
  - rewrite map_length, seq_length, interleave_length by exact Hl. reflexivity.
  - intros a Ha. rewrite map_length, seq_length in Ha.
    rewrite (nth_map' _ (seq 0 (2 * n)) a 0 0) by (rewrite seq_length; exact Ha). rewrite seq_nth by exact Ha. cbn [Nat.add].
    destruct (even_or_odd a) as [k [-> | ->]].
    + rewrite index_of_even by lia. rewrite app_nth1 by (fold n; lia). symmetry. apply nth_interleave_even; [exact Hl | fold n; lia].
    + rewrite index_of_odd by lia. rewrite app_nth2 by (fold n; lia). fold n. replace (n + k - n) with k by lia.
      symmetry. apply nth_interleave_odd; [exact Hl | fold n; lia].
Qed.

(* the transposed shape *)
Lemma permute_tt_order (ns ms : list nat) : length ns = length ms ->
  permute 0 (tt_order (length ns)) (interleave ns ms) = ns ++ ms.
Proof.
  intros Hl. set (n := length ns). unfold permute, tt_order. rewrite map_app, !map_map. f_equal.
  - apply (nth_ext _ _ 0 0); [rewrite map_length, seq_length; reflexivity|]. intros k Hk. rewrite map_length, seq_length in Hk.
    rewrite (nth_map' _ (seq 0 n) k 0 0) by (rewrite seq_length; exact Hk). rewrite seq_nth by exact Hk. cbn [Nat.add].
    apply nth_interleave_even; [exact Hl | exact Hk].
  - apply (nth_ext _ _ 0 0); [rewrite map_length, seq_length; fold n; lia|]. intros k Hk. rewrite map_length, seq_length in Hk.
    rewrite (nth_map' _ (seq 0 n) k 0 0) by (rewrite seq_length; exact Hk). rewrite seq_nth by exact Hk. cbn [Nat.add].
    apply nth_interleave_odd; [exact Hl | exact Hk].
Qed.

Lemma inb_interleave : forall ns ms is os, inb ns is -> inb ms os -> length ns = length ms -> inb (interleave ns ms) (interleave is os).
Proof.
  induction ns as [|n ns IH]; intros [|m ms] [|i is] [|o os] H1 H2 Hl; simpl in *; try tauto; try lia.
  destruct H1, H2. repeat split; auto.
Qed.

Lemma ravel_wrap1 : forall S idx, length idx = length S -> ravel (1 :: S ++ [1]) (0 :: idx ++ [0]) = ravel S idx.
Proof.
  intros S idx Hl. cbn [ravel]. rewrite Nat.mul_0_l, Nat.add_0_l. revert idx Hl.
  induction S as [|d S IH]; intros [|i idx] Hl; simpl in Hl; try lia; [reflexivity|].
  cbn [app ravel]. rewrite IH by lia. rewrite prod_app. simpl. lia.
Qed.

Section P.
Variable F : Type.
Variable Op : fops F.
Hypothesis Rth : ring_theory (f0 Op) (f1 Op) (fadd Op) (fmul Op) (fsub Op) (fopp Op) (@eq F).
Add Ring Fr9 : Rth.
Notation zero := (f0 Op).
Notation one := (f1 Op).
Notation "a *f b" := (fmul Op a b) (at level 40, left associativity).
Notation "a +f b" := (fadd Op a b) (at level 50, left associativity).
Notation tensor := (tensor F).
Notation fsumn := (fsumn Op).

(* entry (a, b) of the ordered product of the matrices G_k[:, i_k, o_k, :]; the index list is interleaved i_1, o_1, i_2, o_2, ... *)
Fixpoint chain4 (cs : list tensor) (ios : list nat) (a b : nat) : F :=
  match cs, ios with
  | G :: cs', i :: o :: ios' => fsumn (nth 3 (shape G) 0) (fun c => get zero G [a; i; o; c] *f chain4 cs' ios' c b)
  | _, _ => if a =? b then one else zero
  end.

(* cores of shape (r_k, in_k, out_k, r_k+1), positive ranks; dims = interleaved in/out sizes *)
Inductive ttm_cores : nat -> list tensor -> list nat -> list nat -> nat -> Prop :=
| tm_nil r : ttm_cores r [] [] [] r
| tm_cons r n m r' (G : tensor) cs ns ms rl : shape G = [r; n; m; r'] -> 0 < r' -> ttm_cores r' cs ns ms rl ->
    ttm_cores r (G :: cs) (n :: ns) (m :: ms) rl.

Lemma ttm_cores_length r cs ns ms rl : ttm_cores r cs ns ms rl -> length ns = length cs /\ length ms = length cs.
Proof. induction 1; simpl; [auto | lia]. Qed.

(* tensordot(A, B, ([-1], [0])) *)
Lemma tdot_spec (A B : tensor) sa c sb : shape A = sa ++ [c] -> shape B = c :: sb ->
  exists t, tdot Op A B = Ok t /\ shape t = sa ++ sb /\
    forall ia ib, inb sa ia -> inb sb ib ->
      get zero t (ia ++ ib) = fsumn c (fun k => get zero A (ia ++ [k]) *f get zero B (k :: ib)).
Proof.
  intros HA HB. unfold tdot, ndim. rewrite HB, HA. rewrite last_last, removelast_last, app_length. cbn [length].
  replace (1 <=? length sa + 1) with true by (symmetry; apply Nat.leb_le; lia). rewrite Nat.eqb_refl. cbn [andb].
  eexists. split; [reflexivity|]. split; [reflexivity|].
  intros ia ib Hia Hib. rewrite get_tabulate by (now apply inb_app).
  pose proof (inb_length _ _ Hia) as Hl. rewrite <- Hl.
  rewrite firstn_app, Nat.sub_diag, firstn_all, firstn_O, app_nil_r.
  rewrite skipn_app, Nat.sub_diag, skipn_all, skipn_O. reflexivity.
Qed.

(* the chain of tensordots over the remaining cores *)
Lemma tdot_chain_spec : forall rest ns ms rk rl, ttm_cores rk rest ns ms rl ->
  forall (acc : tensor) r0 pre, shape acc = r0 :: pre ++ [rk] ->
  exists r, fold_left (fun a f => rbind a (fun a' => tdot Op a' f)) rest (Ok acc) = Ok r /\
    shape r = r0 :: pre ++ interleave ns ms ++ [rl] /\
    forall a ipre ipost b, a < r0 -> inb pre ipre -> inb (interleave ns ms) ipost -> b < rl ->
      get zero r (a :: ipre ++ ipost ++ [b]) = fsumn rk (fun c => get zero acc (a :: ipre ++ [c]) *f chain4 rest ipost c b).
Proof.
  induction 1 as [r | r n m r' G cs ns ms rl HG Hr' Hcs IH]; intros acc r0 pre Hacc.
  - exists acc. split; [reflexivity|]. split; [exact Hacc|].
    intros a ipre ipost b Ha Hip Hipost Hb. destruct ipost; [|simpl in Hipost; tauto]. cbn [app chain4].
    rewrite (fsumn_single F Op Rth r b); [| exact Hb | intros k Hk Hne; destruct (Nat.eqb_spec k b); [congruence | ring]].
    rewrite Nat.eqb_refl. ring.
  - cbn [fold_left rbind].
    destruct (tdot_spec acc G (r0 :: pre) r [n; m; r']) as (acc' & Hacc' & Hs' & Hg').
    { rewrite Hacc. reflexivity. }
    { exact HG. }
    rewrite Hacc'.
    destruct (IH acc' r0 (pre ++ [n; m])) as (res & Hres & Hsr & Hgr).
    { rewrite Hs'. cbn [app]. rewrite <- app_assoc. reflexivity. }
    exists res. split; [exact Hres|]. split.
    { rewrite Hsr. cbn [interleave app]. rewrite <- app_assoc. reflexivity. }
    intros a ipre ipost b Ha Hip Hipost Hb.
    destruct ipost as [|i [|o ipost]]; try (simpl in Hipost; tauto).
    change (i < n /\ o < m /\ inb (interleave ns ms) ipost) in Hipost. destruct Hipost as (Hi & Ho & Hipost).
    replace (a :: ipre ++ (i :: o :: ipost) ++ [b]) with (a :: (ipre ++ [i; o]) ++ ipost ++ [b])
      by (rewrite <- !app_assoc; reflexivity).
    rewrite Hgr by (auto; apply inb_app; simpl; auto).
    cbn [chain4]. rewrite HG. cbn [nth].
    rewrite (fsumn_ext F Op r' _ (fun c' => fsumn r (fun k =>
               get zero acc (a :: ipre ++ [k]) *f get zero G [k; i; o; c'] *f chain4 cs ipost c' b))).
    2:{ intros c' Hc'. specialize (Hg' (a :: ipre) [i; o; c']).
        replace (a :: (ipre ++ [i; o]) ++ [c']) with ((a :: ipre) ++ [i; o; c']) by (cbn [app]; rewrite <- app_assoc; reflexivity).
        rewrite Hg' by (simpl; auto). now rewrite (fsumn_scale_r F Op Rth). }
    rewrite (fsumn_exchange F Op Rth). apply (fsumn_ext F Op); intros k Hk.
    rewrite <- (fsumn_scale_l F Op Rth). apply (fsumn_ext F Op); intros c' Hc'. ring.
Qed.

Lemma all_shape4_ttm : forall r cs ns ms rl, ttm_cores r cs ns ms rl ->
  exists ds, all_shape4 cs = Ok ds /\ flat_map (fun x => [d4b x; d4c x]) ds = interleave ns ms.
Proof.
  induction 1 as [r | r n m r' G cs ns ms rl HG Hr' Hcs (ds & E & Em)].
  - exists []. split; reflexivity.
  - exists ((r, n, m, r') :: ds). cbn [all_shape4]. unfold shape4. rewrite HG. cbn [rbind]. rewrite E. cbn [rbind].
    split; [reflexivity|]. cbn [flat_map d4b d4c fst snd app interleave]. now rewrite Em.
Qed.

(* tt_matrix_to_tensor (core backend): entry (i_1..i_N, o_1..o_N) = (G_1[:, i_1, o_1, :] ... G_N[:, i_N, o_N, :])[0, 0] *)
Theorem ttm_to_tensor_spec cs ns ms : cs <> [] -> ttm_cores 1 cs ns ms 1 ->
  exists t, ttm_to_tensor Op cs = Ok t /\ shape t = ns ++ ms /\
    forall is os, inb ns is -> inb ms os -> get zero t (is ++ os) = chain4 cs (interleave is os) 0 0.
Proof.
  intros Hne Hc. destruct (all_shape4_ttm _ _ _ _ _ Hc) as (ds & Eds & Efs).
  destruct (ttm_cores_length _ _ _ _ _ Hc) as [Hln Hlm].
  unfold ttm_to_tensor. destruct cs as [|fa rest]; [congruence|]. rewrite Eds. cbn [rbind]. rewrite Efs.
  inversion Hc as [|? n m r1 ? ? ns' ms' ? Hfa Hr1 Hrest]; subst.
  destruct (tdot_chain_spec _ _ _ _ _ Hrest fa 1 [n; m] Hfa) as (r & Hr & Hsr & Hgr).
  rewrite Hr. cbn [rbind].
  rewrite reshape_spec_all_some.
  2:{ rewrite Hsr. cbn [interleave]. change (1 :: [n; m] ++ interleave ns' ms' ++ [1]) with (1 :: (n :: m :: interleave ns' ms') ++ [1]).
      cbn [prod fold_right]. rewrite prod_app. cbn [prod fold_right]. lia. }
  cbn [rbind].
  assert (Hord : map (fun k => 2 * k) (seq 0 (length (fa :: rest))) ++ map (fun k => 2 * k + 1) (seq 0 (length (fa :: rest)))
                 = tt_order (length (n :: ns'))) by (rewrite Hln; reflexivity).
  rewrite Hord.
  eexists. split; [reflexivity|]. split.
  - unfold transpose. cbn [shape tabulate reshape]. apply permute_tt_order. rewrite Hln, Hlm. reflexivity.
  - intros is os His Hos.
    assert (Hlen : length is = length os) by (rewrite (inb_length _ _ His), (inb_length _ _ Hos), Hln, Hlm; reflexivity).
    unfold transpose. cbn [shape reshape].
    rewrite get_tabulate by (rewrite permute_tt_order by (rewrite Hln, Hlm; reflexivity); now apply inb_app).
    rewrite <- (inb_length _ _ His). rewrite scatter_tt_order by exact Hlen.
    destruct is as [|i is]; [simpl in His; tauto|]. destruct os as [|o os]; [simpl in Hos; tauto|].
    change (i < n /\ inb ns' is) in His. change (o < m /\ inb ms' os) in Hos. destruct His as [Hi His]. destruct Hos as [Ho Hos].
    assert (Hio : inb (interleave ns' ms') (interleave is os)).
    { apply inb_interleave; auto. simpl in Hln, Hlm. lia. }
    transitivity (get zero r (0 :: [i; o] ++ interleave is os ++ [0])).
    { unfold get, reshape. cbn [shape data]. rewrite Hsr. f_equal.
      change (1 :: [n; m] ++ interleave ns' ms' ++ [1]) with (1 :: (n :: m :: interleave ns' ms') ++ [1]).
      change (0 :: [i; o] ++ interleave is os ++ [0]) with (0 :: (i :: o :: interleave is os) ++ [0]).
      rewrite ravel_wrap1; [reflexivity|]. cbn [length]. rewrite (inb_length _ _ Hio). reflexivity. }
    rewrite Hgr by (simpl; auto; lia).
    cbn [interleave chain4]. rewrite Hfa. cbn [nth app]. reflexivity.
Qed.

Lemma all_shape4_ins : forall r cs ns ms rl, ttm_cores r cs ns ms rl -> forall ds, all_shape4 cs = Ok ds -> map d4b ds = ns.
Proof.
  induction 1 as [r | r n m r' G cs ns ms rl HG Hr' Hcs IH]; intros ds E; cbn [all_shape4] in E.
  - injection E as <-. reflexivity.
  - unfold shape4 in E. rewrite HG in E. cbn [rbind] in E. destruct (all_shape4 cs) as [ds'|]; cbn [rbind] in E; [|discriminate].
    injection E as <-. cbn [map d4b fst snd]. f_equal. now apply IH.
Qed.

(* tt_matrix_to_matrix: row = row-major index over the in dims, column = row-major index over the out dims *)
Theorem ttm_to_matrix_spec cs ns ms : cs <> [] -> ttm_cores 1 cs ns ms 1 -> 0 < prod ns ->
  exists M, ttm_to_matrix Op cs = Ok M /\ shape M = [prod ns; prod ms] /\
    forall is os, inb ns is -> inb ms os -> get2 Op M (ravel ns is) (ravel ms os) = chain4 cs (interleave is os) 0 0.
Proof.
  intros Hne Hc Hpos. destruct (ttm_to_tensor_spec cs ns ms Hne Hc) as (t & Ht & Hst & Hgt).
  destruct (all_shape4_ttm _ _ _ _ _ Hc) as (ds & Eds & _). pose proof (all_shape4_ins _ _ _ _ _ Hc ds Eds) as Hins.
  unfold ttm_to_matrix. rewrite Eds. cbn [rbind]. rewrite Ht. cbn [rbind]. rewrite Hins.
  rewrite (reshape_front t (prod ns) (prod ms)) by (try lia; rewrite Hst; apply prod_app).
  eexists. split; [reflexivity|]. split; [reflexivity|].
  intros is os His Hos. rewrite <- Hgt by assumption. rewrite (get2_reshape2 F Op).
  unfold get. rewrite Hst. f_equal. rewrite ravel_app by (now apply inb_length). reflexivity.
Qed.

End P.
