(* Lemmas for C20, part 1: the brute-force search space is complete, argmax attains the maximum,
   bridge between the list model at Rops and rsum, Cauchy-Schwarz bound on the cosine, range of the
   congruence coefficient, the oracle's answer equals the brute-force optimum. *)
From Coq Require Import List Arith Lia Bool Permutation Reals Lra Psatz.
From TLV Require Import Base.Shape Base.PyList Base.Tensor Base.Ops Base.RSum Model.Metrics.
Import ListNotations.
Local Close Scope R_scope.

(* ---------- permutations ---------- *)
Lemma insert_all_in {A} (x : A) l1 l2 : In (l1 ++ x :: l2) (insert_all x (l1 ++ l2)).
Proof.
  induction l1 as [|a l1 IH]; simpl.
  - destruct l2; simpl; auto.
  - right. apply in_map. exact IH.
Qed.

Lemma perms_complete {A} (l : list A) : forall p, Permutation l p -> In p (perms l).
Proof.
  induction l as [|x r IH]; intros p Hp.
  - apply Permutation_nil in Hp. subst. simpl. auto.
  - assert (Hin : In x p) by (eapply Permutation_in; [exact Hp | left; reflexivity]).
    apply in_split in Hin. destruct Hin as (l1 & l2 & ->).
    apply Permutation_cons_app_inv in Hp.
    simpl. apply in_flat_map. exists (l1 ++ l2). split; [apply IH; exact Hp | apply insert_all_in].
Qed.

Lemma insert_all_perm {A} (x : A) l : forall q, In q (insert_all x l) -> Permutation (x :: l) q.
Proof.
  induction l as [|y r IH]; simpl; intros q H.
  - destruct H as [<-|[]]. apply Permutation_refl.
  - destruct H as [<-|H]; [apply Permutation_refl|]. apply in_map_iff in H. destruct H as (q' & <- & Hq').
    apply IH in Hq'. eapply Permutation_trans; [apply perm_swap|]. apply perm_skip. exact Hq'.
Qed.

Lemma perms_sound {A} (l : list A) : forall p, In p (perms l) -> Permutation l p.
Proof.
  induction l as [|x r IH]; simpl; intros p H.
  - destruct H as [<-|[]]. constructor.
  - apply in_flat_map in H. destruct H as (q & Hq & Hp). apply IH in Hq. apply insert_all_perm in Hp.
    eapply Permutation_trans; [apply perm_skip; exact Hq | exact Hp].
Qed.

Lemma is_perm_Permutation n p : is_perm n p -> Permutation (seq 0 n) p.
Proof.
  intros (Hl & Hnd & Hb). apply NoDup_Permutation; [apply seq_NoDup | exact Hnd |].
  intros k. rewrite in_seq. split.
  - intros [_ Hk]. apply (perm_complete n); auto.
  - intros Hk. specialize (Hb k Hk). lia.
Qed.

Lemma Permutation_is_perm n p : Permutation (seq 0 n) p -> is_perm n p.
Proof.
  intros H. repeat split.
  - rewrite <- (Permutation_length H). apply seq_length.
  - eapply Permutation_NoDup; [exact H | apply seq_NoDup].
  - intros k Hk. apply Permutation_sym in H. apply (Permutation_in _ H) in Hk. apply in_seq in Hk. lia.
Qed.

Theorem all_perms_complete n p : is_perm n p -> In p (all_perms n).
Proof. intros H. apply perms_complete. now apply is_perm_Permutation. Qed.

Theorem all_perms_sound n p : In p (all_perms n) -> is_perm n p.
Proof. intros H. apply Permutation_is_perm. now apply perms_sound. Qed.

Lemma is_permb_is_perm n p : is_permb n p = true -> is_perm n p.
Proof. intros H. apply is_permb_spec in H. destruct H as (H1 & H2 & H3 & _). repeat split; auto. Qed.

Lemma is_perm_id n : is_perm n (seq 0 n).
Proof. apply Permutation_is_perm. apply Permutation_refl. Qed.

Lemma is_perm_nth n p i : is_perm n p -> i < n -> nth i p 0 < n.
Proof. intros (Hl & _ & Hb) Hi. apply Hb. apply nth_In. lia. Qed.

Local Open Scope R_scope.

(* ---------- argmax over R ---------- *)
Lemma argmax_fold {X} (sc : X -> R) (l : list X) : forall st : X * R, snd st = sc (fst st) ->
  let st' := fold_left (fun (b : X * R) x => let sx := sc x in if Rleb sx (snd b) then b else (x, sx)) l st in
  snd st' = sc (fst st') /\ (fst st' = fst st \/ In (fst st') l) /\ snd st <= snd st' /\
  forall x, In x l -> sc x <= snd st'.
Proof.
  induction l as [|y l IH]; intros st Hst; cbn [fold_left].
  - cbv zeta. repeat split; auto; try lra. intros x [].
  - cbv zeta.
    set (st1 := if Rleb (sc y) (snd st) then st else (y, sc y)).
    assert (H1 : snd st1 = sc (fst st1)) by (unfold st1; destruct (Rleb (sc y) (snd st)); auto).
    assert (H2 : snd st <= snd st1 /\ sc y <= snd st1 /\ (fst st1 = fst st \/ fst st1 = y)).
    { unfold st1. destruct (Rleb (sc y) (snd st)) eqn:E.
      - apply Rleb_true in E. repeat split; auto; lra.
      - apply Rleb_false in E. simpl. repeat split; auto; lra. }
    destruct H2 as (H2 & H3 & H4).
    specialize (IH st1 H1). cbv zeta in IH. destruct IH as (I1 & I2 & I3 & I4).
    repeat split; auto.
    + destruct I2 as [I2|I2]; [|right; right; exact I2]. rewrite I2. destruct H4 as [H4|H4]; [left; exact H4 | right; left; auto].
    + lra.
    + intros x [<-|Hx]; [lra | auto].
Qed.

Lemma argmax_spec {X} (sc : X -> R) (l : list X) (d : X) :
  let b := argmax Rops sc l d in (b = d \/ In b l) /\ sc d <= sc b /\ forall x, In x l -> sc x <= sc b.
Proof.
  cbv zeta. unfold argmax. cbn [fleb Rops].
  pose proof (argmax_fold sc l (d, sc d) eq_refl) as H. cbv zeta in H. cbn [fst snd] in H.
  destruct H as (H1 & H2 & H3 & H4). rewrite <- H1. repeat split; auto.
Qed.

(* ---------- bridge: list model at Rops = rsum ---------- *)
Lemma sumn_rsum n f : sumn Rops n f = rsum n f.
Proof.
  unfold sumn, fsum. cbn [fadd f0 Rops]. induction n; [reflexivity|].
  rewrite seq_S, map_app, fold_left_app. cbn [map fold_left plus]. rewrite IHn. reflexivity.
Qed.

Lemma nat2F_INR n : nat2F Rops n = INR n.
Proof. induction n; [reflexivity|]. cbn [nat2F]. rewrite IHn, S_INR. reflexivity. Qed.

Lemma fabs_Rabs x : fabs Rops x = Rabs x.
Proof.
  unfold fabs. cbn [fleb f0 fopp Rops]. destruct (Rleb 0 x) eqn:E.
  - apply Rleb_true in E. now rewrite Rabs_right by lra.
  - apply Rleb_false in E. now rewrite Rabs_left by lra.
Qed.

Lemma fmax_Rmax a b : fmax Rops a b = Rmax a b.
Proof.
  unfold fmax. cbn [fleb Rops]. destruct (Rleb a b) eqn:E.
  - apply Rleb_true in E. now rewrite Rmax_right.
  - apply Rleb_false in E. rewrite Rmax_left; lra.
Qed.

Section Bridge.
Context {F : Type} (Op : fops F).
Lemma mget_mtab n m f i j : (i < n)%nat -> (j < m)%nat -> mget Op (mtab n m f) i j = f i j.
Proof.
  intros Hi Hj. unfold mget, mtab.
  rewrite (nth_map' _ _ _ 0%nat) by (now rewrite seq_length). rewrite seq_nth by exact Hi.
  rewrite (nth_map' _ _ _ 0%nat) by (now rewrite seq_length). rewrite seq_nth by exact Hj. reflexivity.
Qed.
Lemma nrows_mtab n m (f : nat -> nat -> F) : nrows (mtab n m f) = n.
Proof. unfold nrows, mtab. now rewrite map_length, seq_length. Qed.
Lemma ncols_mtab n m (f : nat -> nat -> F) : (0 < n)%nat -> ncols (mtab n m f) = m.
Proof. intros H. destruct n; [lia|]. unfold ncols, mtab. cbn [seq map]. now rewrite map_length, seq_length. Qed.
Lemma ncols_mtab0 m (f : nat -> nat -> F) : ncols (mtab 0 m f) = 0%nat.
Proof. reflexivity. Qed.
Lemma nrows_0_ncols (M : mat F) : nrows M = 0%nat -> ncols M = 0%nat.
Proof. destruct M; simpl; [reflexivity | discriminate]. Qed.
Lemma ncols_normalise (M : mat F) ns : ncols (normalise Op M ns) = ncols M.
Proof.
  unfold normalise. destruct (Nat.eq_dec (nrows M) 0) as [E|E].
  - rewrite E. now rewrite (nrows_0_ncols _ E).
  - apply ncols_mtab. lia.
Qed.
Lemma nrows_normalise (M : mat F) ns : nrows (normalise Op M ns) = nrows M.
Proof. apply nrows_mtab. Qed.
End Bridge.

(* ---------- the cosine of two columns is bounded by 1 (Cauchy-Schwarz) ---------- *)
Lemma sq_le_1_Rabs x : x ^ 2 <= 1 -> Rabs x <= 1.
Proof. intros H. apply Rabs_le. split; nra. Qed.

Lemma Rabs_le_inv' x a : Rabs x <= a -> - a <= x <= a.
Proof. unfold Rabs. destruct (Rcase_abs x); lra. Qed.

Lemma cos_sq_le_1 n (a b : nat -> R) na nb :
  0 < na -> 0 < nb -> na ^ 2 = rsum n (fun k => (a k) ^ 2) -> nb ^ 2 = rsum n (fun k => (b k) ^ 2) ->
  (rsum n (fun k => a k / na * (b k / nb))) ^ 2 <= 1.
Proof.
  intros Ha Hb Ea Eb.
  rewrite (rsum_ext n _ (fun k => / (na * nb) * (a k * b k))) by (intros; field; lra).
  rewrite rsum_scale. set (s := rsum n (fun k => a k * b k)).
  pose proof (cauchy_schwarz n a b) as CS. fold s in CS. rewrite <- Ea, <- Eb in CS.
  set (q := na * nb). assert (Hq : 0 < q) by (unfold q; nra).
  assert (Hq2 : 0 < q ^ 2) by nra.
  apply (Rmult_le_reg_r (q ^ 2)); [exact Hq2|].
  replace ((/ q * s) ^ 2 * q ^ 2) with (s ^ 2) by (field; lra).
  unfold q. nra.
Qed.

Definition norms_valid (M : mat R) (ns : list R) : Prop :=
  forall j, (j < ncols M)%nat -> 0 < nth j ns 0 /\ (nth j ns 0) ^ 2 = col_sq Rops M j.

Lemma col_sq_rsum (M : mat R) j : col_sq Rops M j = rsum (nrows M) (fun i => (mget Rops M i j) ^ 2).
Proof. unfold col_sq. rewrite sumn_rsum. apply rsum_ext; intros. unfold fsq. cbn [fmul Rops]. ring. Qed.

(* a mode the congruence coefficient accepts: common rank r, equal heights, valid norm tape *)
Definition mode_ok (r : nat) (m : cmode R) : Prop :=
  ncols (mA m) = r /\ ncols (mB m) = r /\ nrows (mA m) = nrows (mB m) /\
  norms_valid (mA m) (nA m) /\ norms_valid (mB m) (nB m).

Definition cosine (m : cmode R) (i j : nat) : R :=
  rsum (nrows (mA m)) (fun k => mget Rops (mA m) k i / nth i (nA m) 0 * (mget Rops (mB m) k j / nth j (nB m) 0)).

Lemma cong_one_entry absv r (m : cmode R) i j : mode_ok r m -> (i < r)%nat -> (j < r)%nat ->
  mget Rops (cong_one Rops absv m) i j = if absv then Rabs (cosine m i j) else cosine m i j.
Proof.
  intros (Ha & Hb & Hn & _ & _) Hi Hj.
  assert (E : mget Rops (dotT Rops (normalise Rops (mA m) (nA m)) (normalise Rops (mB m) (nB m))) i j = cosine m i j).
  { unfold dotT. rewrite !ncols_normalise, Ha, Hb, nrows_normalise. rewrite mget_mtab by assumption.
    rewrite sumn_rsum. unfold cosine. apply rsum_ext. intros k Hk.
    unfold normalise. rewrite !mget_mtab; try lia. reflexivity. }
  unfold cong_one. destruct absv; [|exact E].
  unfold mabs. assert (Hr : (0 < r)%nat) by lia.
  unfold dotT at 1 2. rewrite nrows_mtab, !ncols_normalise, Ha, Hb. rewrite ncols_mtab by exact Hr.
  rewrite mget_mtab by assumption. rewrite fabs_Rabs. now rewrite E.
Qed.

Lemma cosine_bound r (m : cmode R) i j : mode_ok r m -> (i < r)%nat -> (j < r)%nat -> Rabs (cosine m i j) <= 1.
Proof.
  intros (Ha & Hb & Hn & Va & Vb) Hi Hj. apply sq_le_1_Rabs. unfold cosine.
  destruct (Va i ltac:(lia)) as (Pa & Ea). destruct (Vb j ltac:(lia)) as (Pb & Eb).
  rewrite col_sq_rsum in Ea, Eb. rewrite <- Hn in Eb.
  apply cos_sq_le_1; assumption.
Qed.

Lemma cong_one_range absv r (m : cmode R) i j : mode_ok r m -> (i < r)%nat -> (j < r)%nat ->
  Rabs (mget Rops (cong_one Rops absv m) i j) <= 1 /\ (absv = true -> 0 <= mget Rops (cong_one Rops absv m) i j).
Proof.
  intros Hm Hi Hj. rewrite (cong_one_entry absv r) by assumption.
  pose proof (cosine_bound r m i j Hm Hi Hj) as B. destruct absv.
  - split; [rewrite Rabs_Rabsolu; exact B | intros _; apply Rabs_pos].
  - split; [exact B | discriminate].
Qed.

(* product over modes *)
Lemma cong_all_fold absv r ms : forall acc,
  fold_left (fun a m => hadamard Rops r a (cong_one Rops absv m)) ms acc =
  match ms with [] => acc | _ => fold_left (fun a m => hadamard Rops r a (cong_one Rops absv m)) ms acc end.
Proof. destruct ms; reflexivity. Qed.

Definition entry_prod (absv : bool) (ms : list (cmode R)) (i j : nat) : R :=
  fold_left Rmult (map (fun m => mget Rops (cong_one Rops absv m) i j) ms) 1.

Lemma fold_Rmult_acc l : forall a, fold_left Rmult l a = a * fold_left Rmult l 1.
Proof. induction l as [|x l IH]; intros a; simpl; [ring|]. rewrite IH, (IH (1 * x)). ring. Qed.

Lemma cong_all_entry_gen absv r ms : forall acc i j, (i < r)%nat -> (j < r)%nat ->
  mget Rops (fold_left (fun a m => hadamard Rops r a (cong_one Rops absv m)) ms acc) i j =
  mget Rops acc i j * entry_prod absv ms i j.
Proof.
  unfold entry_prod. induction ms as [|m ms IH]; intros acc i j Hi Hj; cbn [fold_left map].
  - ring.
  - rewrite IH by assumption. unfold hadamard. rewrite mget_mtab by assumption.
    rewrite (fold_Rmult_acc _ (1 * _)). cbn [fmul Rops]. ring.
Qed.

Lemma cong_all_entry absv r ms i j : (i < r)%nat -> (j < r)%nat ->
  mget Rops (cong_all Rops absv r ms) i j = entry_prod absv ms i j.
Proof.
  intros Hi Hj. unfold cong_all. rewrite cong_all_entry_gen by assumption.
  unfold ones. rewrite mget_mtab by assumption. cbn [f1 Rops]. ring.
Qed.

Lemma nrows_cong_all absv r ms : nrows (cong_all Rops absv r ms) = r.
Proof.
  unfold cong_all. assert (H : forall acc, nrows acc = r -> nrows (fold_left (fun a m => hadamard Rops r a (cong_one Rops absv m)) ms acc) = r).
  { induction ms as [|m ms IH]; intros acc Hacc; cbn [fold_left]; [exact Hacc|]. apply IH. apply nrows_mtab. }
  apply H. apply nrows_mtab.
Qed.

Lemma entry_prod_range absv r ms i j : Forall (mode_ok r) ms -> (i < r)%nat -> (j < r)%nat ->
  Rabs (entry_prod absv ms i j) <= 1 /\ (absv = true -> 0 <= entry_prod absv ms i j).
Proof.
  intros Hms Hi Hj. unfold entry_prod. induction Hms as [|m ms Hm Hms IH]; cbn [map fold_left].
  - rewrite Rabs_R1. split; [lra | intros; lra].
  - rewrite fold_Rmult_acc. rewrite Rmult_1_l.
    destruct (cong_one_range absv r m i j Hm Hi Hj) as (B1 & P1). destruct IH as (B2 & P2).
    split.
    + rewrite Rabs_mult. pose proof (Rabs_pos (mget Rops (cong_one Rops absv m) i j)).
      pose proof (Rabs_pos (fold_left Rmult (map (fun m0 => mget Rops (cong_one Rops absv m0) i j) ms) 1)). nra.
    + intros E. specialize (P1 E). specialize (P2 E). nra.
Qed.

(* mean over a matching *)
Lemma rsum_const n c : rsum n (fun _ => c) = INR n * c.
Proof. induction n; [simpl; ring|]. cbn [rsum]. rewrite IHn, S_INR. ring. Qed.

Lemma mean_bounds n (f : nat -> R) lo hi : (0 < n)%nat -> (forall i, (i < n)%nat -> lo <= f i <= hi) ->
  lo <= rsum n f / INR n <= hi.
Proof.
  intros Hn H. assert (Hp : 0 < INR n) by (apply lt_0_INR; exact Hn).
  assert (L : rsum n (fun _ => lo) <= rsum n f) by (apply rsum_le; intros; apply H; assumption).
  assert (U : rsum n f <= rsum n (fun _ => hi)) by (apply rsum_le; intros; apply H; assumption).
  rewrite rsum_const in L, U. split.
  - apply (Rmult_le_reg_r (INR n)); [exact Hp|]. replace (rsum n f / INR n * INR n) with (rsum n f) by (field; lra). lra.
  - apply (Rmult_le_reg_r (INR n)); [exact Hp|]. replace (rsum n f / INR n * INR n) with (rsum n f) by (field; lra). lra.
Qed.

Lemma score_rsum r C p : score Rops r C p = rsum r (fun i => mget Rops C i (nth i p 0%nat)) / INR r.
Proof. unfold score. rewrite sumn_rsum, nat2F_INR. reflexivity. Qed.

Lemma score_bounds r C p lo hi : (0 < r)%nat -> is_perm r p ->
  (forall i j, (i < r)%nat -> (j < r)%nat -> lo <= mget Rops C i j <= hi) -> lo <= score Rops r C p <= hi.
Proof.
  intros Hr Hp H. rewrite score_rsum. apply mean_bounds; [exact Hr|]. intros i Hi. apply H; [exact Hi|].
  now apply is_perm_nth.
Qed.

Theorem cong_all_score_range absv r ms p : Forall (mode_ok r) ms -> is_perm r p ->
  -1 <= score Rops r (cong_all Rops absv r ms) p <= 1 /\ (absv = true -> 0 <= score Rops r (cong_all Rops absv r ms) p).
Proof.
  intros Hms Hp. destruct (Nat.eq_dec r 0) as [->|Hr].
  - rewrite score_rsum. cbn [rsum]. unfold Rdiv. rewrite Rmult_0_l. split; [lra | intros; lra].
  - assert (Hr' : (0 < r)%nat) by lia. split.
    + apply score_bounds; auto. intros i j Hi Hj. rewrite cong_all_entry by assumption.
      destruct (entry_prod_range absv r ms i j Hms Hi Hj) as (B & _). apply Rabs_le_inv' in B. exact B.
    + intros E. apply (score_bounds r _ p 0 1); auto. intros i j Hi Hj. rewrite cong_all_entry by assumption.
      destruct (entry_prod_range absv r ms i j Hms Hi Hj) as (B & P). apply Rabs_le_inv' in B. specialize (P E). lra.
Qed.

(* ---------- brute force attains the maximum over ALL matchings ---------- *)
Theorem best_perm_max r C p : is_perm r p -> score Rops r C p <= score Rops r C (best_perm Rops r C).
Proof.
  intros Hp. unfold best_perm. pose proof (argmax_spec (score Rops r C) (all_perms r) (seq 0 r)) as H.
  cbv zeta in H. destruct H as (_ & _ & H). apply H. now apply all_perms_complete.
Qed.

Theorem best_perm_is_perm r C : is_perm r (best_perm Rops r C).
Proof.
  unfold best_perm. pose proof (argmax_spec (score Rops r C) (all_perms r) (seq 0 r)) as H.
  cbv zeta in H. destruct H as ([H|H] & _ & _).
  - rewrite H. apply is_perm_id.
  - now apply all_perms_sound.
Qed.

(* the assignment oracle's contract: a maximum-weight perfect matching of a square matrix *)
Definition lsa_contract (assign : mat R -> list nat) : Prop :=
  forall r (C : mat R), nrows C = r ->
    is_perm r (assign C) /\ forall q, is_perm r q -> score Rops r C q <= score Rops r C (assign C).

Lemma oracle_equals_brute_force assign r (C : mat R) : lsa_contract assign -> nrows C = r ->
  score Rops r C (assign C) = score Rops r C (best_perm Rops r C).
Proof.
  intros Hc Hn. destruct (Hc r C Hn) as (P & M).
  apply Rle_antisym; [apply best_perm_max; exact P | apply M; apply best_perm_is_perm].
Qed.

(* ---------- unpacking the validated entry point ---------- *)
Lemma zip_modes_in (As : list (mat R)) : forall Bs nas nbs (m : cmode R), In m (zip_modes As Bs nas nbs) -> In (mA m, mB m) (combine As Bs).
Proof.
  induction As as [|A As IH]; intros [|B Bs] [|na nas] [|nb nbs] m H; cbn [zip_modes] in H; try contradiction.
  destruct H as [<-|H]; [left; reflexivity | right; eapply IH; exact H].
Qed.

Definition tape_valid (ms : list (cmode R)) : Prop :=
  Forall (fun m => norms_valid (mA m) (nA m) /\ norms_valid (mB m) (nB m)) ms.

Lemma cong_matrix_inv absv As Bs nas nbs r C :
  cong_matrix Rops absv As Bs nas nbs = Ok (r, C) ->
  r = ncols (hd [] As) /\ C = cong_all Rops absv r (zip_modes As Bs nas nbs) /\
  forall m, In m (zip_modes As Bs nas nbs) -> ncols (mA m) = r /\ ncols (mB m) = r /\ nrows (mA m) = nrows (mB m).
Proof.
  unfold cong_matrix. intros H.
  destruct (negb (length As =? length Bs)%nat); [discriminate|].
  destruct As as [|A0 As']; [discriminate|]. cbn [hd]. set (As := A0 :: As') in *.
  destruct (forallb (fun M => (ncols M =? ncols A0)%nat) (As ++ Bs)) eqn:E1; [|discriminate]. cbn [negb] in H.
  destruct (forallb (fun ab => (nrows (fst ab) =? nrows (snd ab))%nat) (combine As Bs)) eqn:E2; [|discriminate]. cbn [negb] in H.
  destruct (existsb (has_zero_col Rops) (As ++ Bs)); [discriminate|].
  inversion H; subst. split; [reflexivity|]. split; [reflexivity|].
  rewrite forallb_forall in E1, E2. intros m Hm.
  pose proof (zip_modes_in _ _ _ _ _ Hm) as Hin.
  pose proof (in_combine_l _ _ _ _ Hin) as Ha. pose proof (in_combine_r _ _ _ _ Hin) as Hb.
  specialize (E2 _ Hin). cbn [fst snd] in E2. apply Nat.eqb_eq in E2.
  assert (Ea : ncols (mA m) = ncols A0) by (apply Nat.eqb_eq; apply E1; apply in_or_app; left; exact Ha).
  assert (Eb : ncols (mB m) = ncols A0) by (apply Nat.eqb_eq; apply E1; apply in_or_app; right; exact Hb).
  auto.
Qed.

Lemma congruence_unfold absv As Bs nas nbs assign v p :
  congruence Rops absv As Bs nas nbs assign = Ok (v, p) ->
  exists r C, cong_matrix Rops absv As Bs nas nbs = Ok (r, C) /\ p = assign C /\ v = score Rops r C p.
Proof.
  unfold congruence. destruct (cong_matrix Rops absv As Bs nas nbs) as [[r C]|]; [|discriminate].
  cbv zeta. intros H. inversion H; subst. exists r, C. auto.
Qed.

Lemma congruence_inv absv As Bs nas nbs assign v p :
  congruence Rops absv As Bs nas nbs assign = Ok (v, p) -> tape_valid (zip_modes As Bs nas nbs) ->
  let r := ncols (hd [] As) in let C := cong_all Rops absv r (zip_modes As Bs nas nbs) in
  Forall (mode_ok r) (zip_modes As Bs nas nbs) /\ p = assign C /\ v = score Rops r C p.
Proof.
  intros H Ht. destruct (congruence_unfold _ _ _ _ _ _ _ _ H) as (r & C & Hc & Hp & Hv).
  destruct (cong_matrix_inv _ _ _ _ _ _ _ Hc) as (Er & EC & Hs). cbv zeta. subst r. rewrite <- EC.
  split; [|split; assumption].
  apply Forall_forall. intros m Hm.
  unfold tape_valid in Ht. rewrite Forall_forall in Ht. destruct (Ht m Hm) as (Va & Vb).
  destruct (Hs m Hm) as (Ea & Eb & En). exact (conj Ea (conj Eb (conj En (conj Va Vb)))).
Qed.

Theorem congruence_range absv As Bs nas nbs assign v p :
  congruence Rops absv As Bs nas nbs assign = Ok (v, p) -> tape_valid (zip_modes As Bs nas nbs) ->
  is_perm (ncols (hd [] As)) p -> -1 <= v <= 1 /\ (absv = true -> 0 <= v).
Proof.
  intros H Ht Hp. destruct (congruence_inv _ _ _ _ _ _ _ _ H Ht) as (Hm & _ & ->).
  apply cong_all_score_range; assumption.
Qed.

Lemma congruence_ok_inv absv As Bs nas nbs assign v p :
  congruence Rops absv As Bs nas nbs assign = Ok (v, p) ->
  let r := ncols (hd [] As) in let C := cong_all Rops absv r (zip_modes As Bs nas nbs) in
  p = assign C /\ v = score Rops r C p.
Proof.
  intros H. destruct (congruence_unfold _ _ _ _ _ _ _ _ H) as (r & C & Hc & Hp & Hv).
  destruct (cong_matrix_inv _ _ _ _ _ _ _ Hc) as (Er & EC & _). cbv zeta. subst r. rewrite <- EC. auto.
Qed.

Theorem congruence_is_max absv As Bs nas nbs assign v p :
  congruence Rops absv As Bs nas nbs assign = Ok (v, p) -> lsa_contract assign ->
  let r := ncols (hd [] As) in let C := cong_all Rops absv r (zip_modes As Bs nas nbs) in
  is_perm r p /\ v = score Rops r C p /\ v = score Rops r C (best_perm Rops r C) /\
  forall q, is_perm r q -> score Rops r C q <= v.
Proof.
  intros H Hc. pose proof (congruence_ok_inv _ _ _ _ _ _ _ _ H) as Hi. cbv zeta in Hi. cbv zeta.
  set (r := ncols (hd [] As)) in *. set (C := cong_all Rops absv r _) in *. destruct Hi as (-> & ->).
  assert (Hn : nrows C = r) by apply nrows_cong_all.
  destruct (Hc r C Hn) as (P & M).
  split; [exact P|]. split; [reflexivity|]. split; [now apply oracle_equals_brute_force | exact M].
Qed.
