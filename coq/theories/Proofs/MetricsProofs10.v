(* Lemmas for C20, part 10: column rescaling (what cp_normalize does to the reference and to listed tensors inside
   cp_permute_factors, and what "CP scaling indeterminacy" means) changes a cosine only by the signs of the scalars;
   hence positive rescaling -- and, with absolute values, any non-zero rescaling -- leaves the whole congruence matrix,
   the mean congruence of every matching and therefore the set of optimal matchings unchanged. *)
From Coq Require Import List Arith Lia Bool Reals Lra Psatz.
From TLV Require Import Base.Shape Base.PyList Base.Tensor Base.Ops Base.RSum Model.Metrics Proofs.MetricsProofs
  Proofs.MetricsProofs2.
Import ListNotations.
Local Open Scope R_scope.

(* m' = m with column i of A multiplied by a i and column j of B by b j *)
Definition rescaled (r : nat) (m m' : cmode R) (a b : nat -> R) : Prop :=
  nrows (mA m') = nrows (mA m) /\
  (forall k i, (k < nrows (mA m))%nat -> (i < r)%nat -> mget Rops (mA m') k i = a i * mget Rops (mA m) k i) /\
  (forall k j, (k < nrows (mA m))%nat -> (j < r)%nat -> mget Rops (mB m') k j = b j * mget Rops (mB m) k j).

Lemma Rabs_sq d : Rabs d ^ 2 = d ^ 2.
Proof. rewrite <- !Rsqr_pow2. symmetry. apply Rsqr_abs. Qed.

Lemma scaled_norm n (f : nat -> R) d na na' : 0 < na -> 0 < na' -> d <> 0 ->
  na ^ 2 = rsum n (fun k => f k ^ 2) -> na' ^ 2 = rsum n (fun k => (d * f k) ^ 2) -> na' = Rabs d * na.
Proof.
  intros Pa Pa' Hd Ea Ea'. assert (Had : 0 < Rabs d) by (apply Rabs_pos_lt; exact Hd).
  apply pos_sq_eq; [exact Pa' | nra |].
  rewrite Ea', Rpow_mult_distr, Rabs_sq, Ea, <- rsum_scale. apply rsum_ext. intros; ring.
Qed.

Theorem cosine_rescaled r (m m' : cmode R) a b i j : mode_ok r m -> mode_ok r m' -> rescaled r m m' a b ->
  (i < r)%nat -> (j < r)%nat -> a i <> 0 -> b j <> 0 ->
  cosine m' i j = (a i / Rabs (a i)) * (b j / Rabs (b j)) * cosine m i j.
Proof.
  intros (Ha & Hb & Hn & Va & Vb) (Ha' & Hb' & Hn' & Va' & Vb') (En & EA & EB) Hi Hj Hai Hbj.
  destruct (Va i ltac:(lia)) as (Pa & Ea). destruct (Vb j ltac:(lia)) as (Pb & Eb).
  destruct (Va' i ltac:(lia)) as (Pa' & Ea'). destruct (Vb' j ltac:(lia)) as (Pb' & Eb').
  rewrite col_sq_rsum in Ea, Eb, Ea', Eb'. rewrite <- Hn in Eb. rewrite <- Hn', En in Eb'. rewrite En in Ea'.
  set (n := nrows (mA m)) in *.
  assert (Na : nth i (nA m') 0 = Rabs (a i) * nth i (nA m) 0).
  { apply (scaled_norm n (fun k => mget Rops (mA m) k i) (a i)); auto.
    rewrite Ea'. apply rsum_ext. intros k Hk. now rewrite EA. }
  assert (Nb : nth j (nB m') 0 = Rabs (b j) * nth j (nB m) 0).
  { apply (scaled_norm n (fun k => mget Rops (mB m) k j) (b j)); auto.
    rewrite Eb'. apply rsum_ext. intros k Hk. now rewrite EB. }
  assert (Haa : 0 < Rabs (a i)) by (apply Rabs_pos_lt; exact Hai).
  assert (Hbb : 0 < Rabs (b j)) by (apply Rabs_pos_lt; exact Hbj).
  unfold cosine. rewrite En. fold n. rewrite Na, Nb. rewrite <- rsum_scale. apply rsum_ext. intros k Hk.
  rewrite EA, EB by assumption. field. repeat split; lra.
Qed.

Lemma sign_abs_one d : d <> 0 -> Rabs (d / Rabs d) = 1.
Proof. exact (Rabs_sign_one d). Qed.

(* the entry of the per-mode congruence matrix: unchanged by positive rescaling; with absolute values by ANY non-zero one *)
Definition scaling_ok (absv : bool) (r : nat) (a b : nat -> R) : Prop :=
  forall i, (i < r)%nat -> a i <> 0 /\ b i <> 0 /\ (absv = false -> 0 < a i /\ 0 < b i).

Theorem cong_one_rescaled absv r (m m' : cmode R) a b i j : mode_ok r m -> mode_ok r m' -> rescaled r m m' a b ->
  scaling_ok absv r a b -> (i < r)%nat -> (j < r)%nat ->
  mget Rops (cong_one Rops absv m') i j = mget Rops (cong_one Rops absv m) i j.
Proof.
  intros Hm Hm' Hr Hs Hi Hj. rewrite (cong_one_entry absv r m' i j Hm' Hi Hj), (cong_one_entry absv r m i j Hm Hi Hj).
  destruct (Hs i Hi) as (Hai & _ & Pa). destruct (Hs j Hj) as (_ & Hbj & Pb).
  rewrite (cosine_rescaled r m m' a b i j Hm Hm' Hr Hi Hj Hai Hbj).
  destruct absv.
  - rewrite !Rabs_mult, (Rabs_sign_one _ Hai), (Rabs_sign_one _ Hbj). ring.
  - destruct (Pa eq_refl) as (Pa1 & _). destruct (Pb eq_refl) as (_ & Pb2).
    rewrite (sign_pos_one _ Pa1), (sign_pos_one _ Pb2). ring.
Qed.

(* mode by mode rescaled factor lists *)
Definition modes_rescaled (absv : bool) (r : nat) (ms ms' : list (cmode R)) : Prop :=
  Forall2 (fun m m' => mode_ok r m /\ mode_ok r m' /\ exists a b, rescaled r m m' a b /\ scaling_ok absv r a b) ms ms'.

Theorem cong_all_rescaled absv r ms ms' i j : modes_rescaled absv r ms ms' -> (i < r)%nat -> (j < r)%nat ->
  mget Rops (cong_all Rops absv r ms') i j = mget Rops (cong_all Rops absv r ms) i j.
Proof.
  intros H Hi Hj. rewrite !cong_all_entry by assumption. unfold entry_prod.
  induction H as [|m m' ms ms' (Hm & Hm' & a & b & Hr & Hs) _ IH]; [reflexivity|].
  cbn [map fold_left]. rewrite (fold_Rmult_acc _ (1 * _)), (fold_Rmult_acc _ (1 * mget Rops (cong_one Rops absv m) i j)).
  rewrite IH. now rewrite (cong_one_rescaled absv r m m' a b i j Hm Hm' Hr Hs Hi Hj).
Qed.

(* every matching has the same mean congruence before and after rescaling, so the optimal matchings are the same:
   normalising the reference / the tensors to permute (cp_normalize) cannot change which permutations are optimal *)
Theorem score_rescaled absv r ms ms' p : modes_rescaled absv r ms ms' -> is_perm r p ->
  score Rops r (cong_all Rops absv r ms') p = score Rops r (cong_all Rops absv r ms) p.
Proof.
  intros H Hp. rewrite !score_rsum. f_equal. apply rsum_ext. intros i Hi.
  apply cong_all_rescaled; [exact H | exact Hi | now apply is_perm_nth].
Qed.

Theorem optimal_matching_rescaled absv r ms ms' p : modes_rescaled absv r ms ms' -> is_perm r p ->
  ((forall q, is_perm r q -> score Rops r (cong_all Rops absv r ms) q <= score Rops r (cong_all Rops absv r ms) p) <->
   (forall q, is_perm r q -> score Rops r (cong_all Rops absv r ms') q <= score Rops r (cong_all Rops absv r ms') p)).
Proof.
  intros H Hp. split; intros K q Hq; specialize (K q Hq).
  - now rewrite !(score_rescaled absv r ms ms') by assumption.
  - now rewrite !(score_rescaled absv r ms ms') in K by assumption.
Qed.
