(* Lemmas for C20, part 11: WHEN the entry points fail.  congruence_coefficient / correlation_index reject exactly the
   malformed requests their validation code names; leverage_score_dist fails exactly when no singular value exceeds the
   cut-off, and otherwise the numerical rank is (last index above the cut-off) + 1. *)
From Coq Require Import List Arith Lia Bool Reals Lra.
From TLV Require Import Base.Shape Base.PyList Base.Tensor Base.Ops Base.RSum Model.Metrics Proofs.MetricsProofs Proofs.MetricsProofs3.
Import ListNotations.
Local Open Scope R_scope.

Lemma forallb_false_iff {A} (f : A -> bool) l : forallb f l = false <-> exists x, In x l /\ f x = false.
Proof.
  induction l as [|a l IH]; cbn [forallb].
  - split; [discriminate | intros (x & [] & _)].
  - rewrite andb_false_iff, IH. split.
    + intros [H|(x & Hx & Hf)]; [exists a; split; [now left | exact H] | exists x; split; [now right | exact Hf]].
    + intros (x & [<-|Hx] & Hf); [now left | right; now exists x].
Qed.

Lemma has_zero_col_iff (M : mat R) : has_zero_col Rops M = true <-> exists j, (j < ncols M)%nat /\ col_sq Rops M j = 0.
Proof.
  unfold has_zero_col. rewrite existsb_exists. split.
  - intros (j & Hj & E). apply in_seq in Hj. exists j. split; [lia|].
    unfold feqb in E. cbn [fleb Rops] in E. apply andb_true_iff in E. destruct E as (E1 & E2).
    apply Rleb_true in E1. apply Rleb_true in E2. cbn [f0 Rops] in *. lra.
  - intros (j & Hj & E). exists j. split; [apply in_seq; lia|].
    unfold feqb. cbn [fleb Rops f0]. rewrite E. apply andb_true_iff. split; apply Rleb_true; lra.
Qed.

(* a column of squares sums to 0 exactly when the column is 0 *)
Lemma col_sq_zero_iff (M : mat R) j : col_sq Rops M j = 0 <-> forall i, (i < nrows M)%nat -> mget Rops M i j = 0.
Proof.
  rewrite col_sq_rsum. split.
  - intros H. apply (rsum_sq_zero (nrows M) (fun i => mget Rops M i j)). exact H.
  - intros H. apply rsum_zero. intros i Hi. rewrite H by exact Hi. ring.
Qed.

(* ---------- congruence_coefficient: the model rejects EXACTLY the four malformed kinds (in the code's order) ---------- *)
Theorem cong_matrix_err_iff absv (As Bs : list (mat R)) nas nbs :
  cong_matrix Rops absv As Bs nas nbs = Err <->
  length As <> length Bs \/ As = [] \/
  (exists M, In M (As ++ Bs) /\ ncols M <> ncols (hd [] As)) \/
  (exists A B, In (A, B) (combine As Bs) /\ nrows A <> nrows B) \/
  (exists M j, In M (As ++ Bs) /\ (j < ncols M)%nat /\ forall i, (i < nrows M)%nat -> mget Rops M i j = 0).
Proof.
  unfold cong_matrix.
  destruct (Nat.eqb (length As) (length Bs)) eqn:EL; cbn [negb].
  2:{ apply Nat.eqb_neq in EL. split; [intros _; now left | reflexivity]. }
  apply Nat.eqb_eq in EL.
  destruct As as [|A0 As']; [split; [intros _; right; now left | reflexivity]|]. cbn [hd]. set (As := A0 :: As') in *.
  destruct (forallb (fun M => Nat.eqb (ncols M) (ncols A0)) (As ++ Bs)) eqn:E1; cbn [negb].
  2:{ split; [|reflexivity]. intros _. right. right. left. apply forallb_false_iff in E1. destruct E1 as (M & HM & E).
      exists M. split; [exact HM | now apply Nat.eqb_neq]. }
  destruct (forallb (fun ab => Nat.eqb (nrows (fst ab)) (nrows (snd ab))) (combine As Bs)) eqn:E2; cbn [negb].
  2:{ split; [|reflexivity]. intros _. right. right. right. left. apply forallb_false_iff in E2. destruct E2 as ((A, B) & HM & E).
      exists A, B. split; [exact HM | now apply Nat.eqb_neq]. }
  destruct (existsb (has_zero_col Rops) (As ++ Bs)) eqn:E3.
  - split; [|reflexivity]. intros _. right. right. right. right. apply existsb_exists in E3. destruct E3 as (M & HM & E).
    apply has_zero_col_iff in E. destruct E as (j & Hj & E). exists M, j. split; [exact HM|]. split; [exact Hj|]. now apply col_sq_zero_iff.
  - split; [discriminate|]. intros [H|[H|[H|[H|H]]]].
    + contradiction.
    + discriminate.
    + destruct H as (M & HM & Hn). rewrite forallb_forall in E1. specialize (E1 M HM). apply Nat.eqb_eq in E1. contradiction.
    + destruct H as (A & B & HM & Hn). rewrite forallb_forall in E2. specialize (E2 (A, B) HM). cbn [fst snd] in E2.
      apply Nat.eqb_eq in E2. contradiction.
    + destruct H as (M & j & HM & Hj & Hz). exfalso.
      assert (K : existsb (has_zero_col Rops) (As ++ Bs) = true).
      { apply existsb_exists. exists M. split; [exact HM|]. apply has_zero_col_iff. exists j. split; [exact Hj|]. now apply col_sq_zero_iff. }
      congruence.
Qed.

Theorem congruence_err_iff absv (As Bs : list (mat R)) nas nbs assign :
  congruence Rops absv As Bs nas nbs assign = Err <-> cong_matrix Rops absv As Bs nas nbs = Err.
Proof.
  unfold congruence. destruct (cong_matrix Rops absv As Bs nas nbs) as [[r C]|]; [split; discriminate | split; reflexivity].
Qed.

(* ---------- leverage_score_dist: the numerical rank ---------- *)
Lemma num_rank_fold_spec (sv : list R) cutoff l : forall acc,
  let k := fold_left (fun acc k => if fltb Rops cutoff (nth k sv (f0 Rops)) then S k else acc) l acc in
  (k = acc /\ forall i, In i l -> nth i sv 0 <= cutoff) \/
  (exists l1 i l2, l = l1 ++ i :: l2 /\ k = S i /\ cutoff < nth i sv 0 /\ forall i', In i' l2 -> nth i' sv 0 <= cutoff).
Proof.
  induction l as [|x l IH]; intros acc; cbn [fold_left]; [left; split; [reflexivity | intros i []]|].
  destruct (fltb Rops cutoff (nth x sv (f0 Rops))) eqn:E.
  - assert (Hx : cutoff < nth x sv 0).
    { unfold fltb in E. cbn [fleb Rops] in E. apply negb_true_iff in E. now apply Rleb_false in E. }
    destruct (IH (S x)) as [(Ek & Hall)|(l1 & i & l2 & -> & Ek & Hi & Hall)].
    + right. exists [], x, l. split; [reflexivity|]. split; [exact Ek|]. split; [exact Hx | exact Hall].
    + right. exists (x :: l1), i, l2. split; [reflexivity|]. split; [exact Ek|]. split; [exact Hi | exact Hall].
  - assert (Hx : nth x sv 0 <= cutoff).
    { unfold fltb in E. cbn [fleb Rops] in E. apply negb_false_iff in E. now apply Rleb_true in E. }
    destruct (IH acc) as [(Ek & Hall)|(l1 & i & l2 & -> & Ek & Hi & Hall)].
    + left. split; [exact Ek|]. intros i [<-|Hi]; [exact Hx | now apply Hall].
    + right. exists (x :: l1), i, l2. split; [reflexivity|]. split; [exact Ek|]. split; [exact Hi | exact Hall].
Qed.

Definition lev_cutoff (sv : list R) (nr nc : nat) (eps : R) : R := list_max Rops sv * INR (Nat.max nr nc) * eps.

Lemma seq_split_inv n l1 i l2 : seq 0 n = l1 ++ i :: l2 -> (i < n)%nat /\ forall i', In i' l2 <-> (i < i' < n)%nat.
Proof.
  intros E. assert (Hl : length l1 = i).
  { assert (H : nth (length l1) (seq 0 n) 0%nat = i) by (rewrite E, app_nth2, Nat.sub_diag by lia; reflexivity).
    rewrite seq_nth in H; [lia|]. rewrite <- (seq_length n 0), E, app_length. cbn [length]. lia. }
  assert (Hn : (i < n)%nat) by (rewrite <- (seq_length n 0), E, app_length; cbn [length]; lia).
  split; [exact Hn|]. intros i'.
  assert (E2 : l2 = seq (S i) (n - S i)).
  { assert (E' : seq 0 n = seq 0 i ++ i :: seq (S i) (n - S i)).
    { replace n with (i + S (n - S i))%nat at 1 by lia. rewrite seq_app. cbn [seq plus]. reflexivity. }
    rewrite E' in E. apply app_inv_head_iff with (l := seq 0 i).
    assert (E1 : l1 = seq 0 i).
    { apply (f_equal (firstn i)) in E. rewrite firstn_app, seq_length, Nat.sub_diag, firstn_O, app_nil_r in E.
      rewrite firstn_all2 in E by (rewrite seq_length; lia). rewrite firstn_app, Hl, Nat.sub_diag, firstn_O, app_nil_r in E.
      rewrite firstn_all2 in E by lia. now symmetry. }
    rewrite E1 in E. apply app_inv_head in E. inversion E. reflexivity. }
  rewrite E2, in_seq. lia.
Qed.

(* k = numerical rank: 0 iff no singular value exceeds the cut-off; otherwise sv[k-1] is the LAST one above it *)
Theorem num_rank_spec (sv : list R) nr nc eps :
  let k := num_rank Rops sv nr nc eps in let c := lev_cutoff sv nr nc eps in
  (k = 0%nat /\ forall i, (i < length sv)%nat -> nth i sv 0 <= c) \/
  ((0 < k <= length sv)%nat /\ c < nth (k - 1) sv 0 /\ forall i, (k <= i < length sv)%nat -> nth i sv 0 <= c).
Proof.
  cbv zeta. unfold lev_cutoff.
  set (c := list_max Rops sv * INR (Nat.max nr nc) * eps).
  assert (Ec : num_rank Rops sv nr nc eps =
               fold_left (fun acc k => if fltb Rops c (nth k sv (f0 Rops)) then S k else acc) (seq 0 (length sv)) 0%nat).
  { unfold num_rank. rewrite nat2F_INR. reflexivity. }
  rewrite Ec.
  destruct (num_rank_fold_spec sv c (seq 0 (length sv)) 0%nat) as [(Ek & Hall)|(l1 & i & l2 & E & Ek & Hi & Hall)]; cbv zeta in *.
  - left. split; [exact Ek|]. intros i Hi. apply Hall. apply in_seq. lia.
  - right. rewrite Ek. destruct (seq_split_inv _ _ _ _ E) as (Hlt & Hin).
    split; [lia|]. split; [replace (S i - 1)%nat with i by lia; exact Hi|].
    intros i' Hi'. apply Hall. apply Hin. lia.
Qed.

Theorem leverage_err_iff (U : mat R) sv nr nc eps :
  leverage_score_dist Rops U sv nr nc eps = Err <-> forall i, (i < length sv)%nat -> nth i sv 0 <= lev_cutoff sv nr nc eps.
Proof.
  unfold leverage_score_dist. pose proof (num_rank_spec sv nr nc eps) as H. cbv zeta in H.
  destruct (Nat.eqb (num_rank Rops sv nr nc eps) 0) eqn:E.
  - apply Nat.eqb_eq in E. split; [|reflexivity]. intros _. destruct H as [(_ & Hall)|((Hk & _) & _)]; [exact Hall | lia].
  - apply Nat.eqb_neq in E. split; [discriminate|]. intros Hall. exfalso.
    destruct H as [(Hk & _)|((Hk & Hk2) & Hgt & _)]; [contradiction|].
    specialize (Hall (num_rank Rops sv nr nc eps - 1)%nat ltac:(lia)). lra.
Qed.
