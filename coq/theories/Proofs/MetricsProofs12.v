(* Lemmas for C20, part 12: (a) the permutation indeterminacy -- the CP tensor returned by cp_permute_factors stands for the
   SAME full tensor as its input (every entry, any order, any rank); (b) correlation_index rejects exactly the malformed
   requests its validation code names. *)
From Coq Require Import List Arith Lia Bool Reals Lra.
From TLV Require Import Base.Shape Base.PyList Base.Tensor Base.Ops Base.RSum Model.Metrics Proofs.MetricsProofs
  Proofs.MetricsProofs2 Proofs.MetricsProofs9 Proofs.MetricsProofs11.
Import ListNotations.
Local Open Scope R_scope.

(* ---------- (a) ---------- *)
(* product over the modes of component k at the row indices idx *)
Fixpoint comp_prod (fs : list (mat R)) (idx : list nat) (k : nat) : R :=
  match fs, idx with
  | F :: fs', i :: idx' => mget Rops F i k * comp_prod fs' idx' k
  | _, _ => 1
  end.
(* entry idx of the full tensor a rank-r CP tensor (weights w, factors fs) stands for: sum_k w_k prod_m F_m[i_m, k] *)
Definition cp_entry (r : nat) (w : list R) (fs : list (mat R)) (idx : list nat) : R :=
  rsum r (fun k => nth k w 0 * comp_prod fs idx k).

Lemma comp_prod_permuted (p : list nat) (fs : list (mat R)) idx k : (k < length p)%nat ->
  Forall2 (fun F i => (i < nrows F)%nat) fs idx ->
  comp_prod (map (permute_cols Rops p) fs) idx k = comp_prod fs idx (nth k p 0%nat).
Proof.
  intros Hk H. induction H as [|F i fs idx Hi _ IH]; cbn [map comp_prod]; [reflexivity|].
  rewrite IH. rewrite permute_cols_get by assumption. reflexivity.
Qed.

Theorem cp_permute_same_tensor r p w (fs : list (mat R)) idx : is_perm r p ->
  Forall2 (fun F i => (i < nrows F)%nat) fs idx ->
  cp_entry r (fst (cp_permute Rops p w fs)) (snd (cp_permute Rops p w fs)) idx = cp_entry r w fs idx.
Proof.
  intros Hp Hidx. unfold cp_permute, cp_entry. cbn [fst snd].
  pose proof Hp as (Hl & _).
  rewrite (rsum_ext r _ (fun k => (fun j => nth j w 0 * comp_prod fs idx j) (nth k p 0%nat))).
  - apply (rsum_permuted r p (fun j => nth j w 0 * comp_prod fs idx j) Hp).
  - intros k Hk. cbv beta. rewrite (nth_map' (fun j => nth j w (f0 Rops)) p k 0%nat) by lia.
    rewrite comp_prod_permuted by (lia || exact Hidx). reflexivity.
Qed.

(* ---------- (b) ---------- *)
Lemma one_rank_false_iff (fs : list (mat R)) :
  one_rank fs = false <-> fs = [] \/ exists M, In M (tl fs) /\ ncols M <> ncols (hd [] fs).
Proof.
  destruct fs as [|A l]; cbn [one_rank tl hd].
  - split; [intros _; now left | reflexivity].
  - rewrite forallb_false_iff. split.
    + intros (M & HM & E). right. exists M. split; [exact HM | now apply Nat.eqb_neq].
    + intros [H|(M & HM & E)]; [discriminate|]. exists M. split; [exact HM | now apply Nat.eqb_neq].
Qed.

Definition ci_sides (me : cmethod) (fs : list (mat R)) : list (mat R) := match me with Stacked => [concat fs] | _ => fs end.

Theorem correlation_index_err_iff meth tol (f1s f2s : list (mat R)) n1s n2s :
  correlation_index Rops meth tol f1s f2s n1s n2s = Err <->
  one_rank f1s = false \/ one_rank f2s = false \/ meth = None \/
  exists me, meth = Some me /\
    ((exists A B, In (A, B) (combine (ci_sides me f1s) (ci_sides me f2s)) /\ (nrows A <> nrows B \/ ncols A <> ncols B)) \/
     (exists M j, In M (ci_sides me f1s ++ ci_sides me f2s) /\ (j < ncols M)%nat /\
                  forall i, (i < nrows M)%nat -> mget Rops M i j = 0)).
Proof.
  unfold correlation_index.
  destruct (one_rank f1s) eqn:R1; cbn [andb negb]; [|split; [intros _; now left | reflexivity]].
  destruct (one_rank f2s) eqn:R2; cbn [negb]; [|split; [intros _; right; now left | reflexivity]].
  destruct meth as [me|]; [|split; [intros _; right; right; now left | reflexivity]].
  change (match me with Stacked => [concat f1s] | _ => f1s end) with (ci_sides me f1s).
  change (match me with Stacked => [concat f2s] | _ => f2s end) with (ci_sides me f2s).
  cbv zeta. set (X1 := ci_sides me f1s). set (X2 := ci_sides me f2s).
  match goal with |- context [negb ?b] => destruct b eqn:E end; cbn [negb].
  2:{ split; [|reflexivity]. intros _. right. right. right. exists me. split; [reflexivity|]. left.
      apply forallb_false_iff in E. destruct E as ((A, B) & HM & E). exists A, B. split; [exact HM|].
      cbn [fst snd] in E. unfold same_shape in E. apply andb_false_iff in E.
      destruct E as [E|E]; apply Nat.eqb_neq in E; [now left | now right]. }
  rewrite <- existsb_app.
  match goal with |- context [if ?b then Err else _] => destruct b eqn:Z end.
  - split; [|reflexivity]. intros _. right. right. right. exists me. split; [reflexivity|]. right.
    apply existsb_exists in Z. destruct Z as (M & HM & Hz). apply has_zero_col_iff in Hz. destruct Hz as (j & Hj & Hz).
    exists M, j. split; [exact HM|]. split; [exact Hj | now apply col_sq_zero_iff].
  - split; [destruct me; discriminate|]. intros [H|[H|[H|(me' & Eme & H)]]]; try discriminate.
    inversion Eme; subst me'. exfalso. destruct H as [(A & B & HM & Hs)|(M & j & HM & Hj & Hz)].
    + rewrite forallb_forall in E. specialize (E (A, B) HM). cbn [fst snd] in E. unfold same_shape in E.
      apply andb_true_iff in E. destruct E as (E1 & E2). apply Nat.eqb_eq in E1. apply Nat.eqb_eq in E2. tauto.
    + assert (K : existsb (has_zero_col Rops) (X1 ++ X2) = true).
      { apply existsb_exists. exists M. split; [exact HM|]. apply has_zero_col_iff. exists j. split; [exact Hj | now apply col_sq_zero_iff]. }
      congruence.
Qed.
