(* Lemmas for C20, part 13:
   (a) reflective correlation for axis=None: definition and bound;
   (b) leverage scores from the SVD contract U^T U = I (the premise the correspondence checks on every run) instead of the
       bare unit-norm assumption, and the float32 renormalisation branch as a statement about the model alone: it sums to
       one as soon as the selected block of U is not identically zero;
   (c) cp_permute_factors on a LIST of CP tensors, end to end: for every listed tensor equivalent to the reference, the
       returned weights / factors are the input ones permuted by the returned permutation, component i of every permuted
       factor is collinear with component i of the reference, and the permuted CP tensor stands for the same full tensor. *)
From Coq Require Import List Arith Lia Bool Reals Lra Psatz.
From TLV Require Import Base.Shape Base.PyList Base.Tensor Base.Ops Base.RSum Model.Metrics Proofs.MetricsProofs
  Proofs.MetricsProofs2 Proofs.MetricsProofs3 Proofs.MetricsProofs5 Proofs.MetricsProofs6 Proofs.MetricsProofs7
  Proofs.MetricsProofs8 Proofs.MetricsProofs9 Proofs.MetricsProofs12.
Import ListNotations.
Local Open Scope R_scope.

(* ---------- (a) ---------- *)
Lemma tsum_none_get (t : tensor R) : tget Rops (tsum Rops None t) [] = rsum (length (data t)) (fun k => nth k (data t) 0).
Proof. unfold tsum, tget, get. cbn [shape data ravel nth]. apply fsum_nth. Qed.

Theorem reflective_none_def_bound (yt yp : tensor R) : wf yt -> wf yp -> shape yp = shape yt ->
  let n := prod (shape yt) in
  let f := fun k => nth k (data yt) 0 in let g := fun k => nth k (data yp) 0 in
  tget Rops (reflective_correlation Rops sqrt None yt yp) [] =
    rsum n (fun k => f k * g k) / sqrt (rsum n (fun k => f k ^ 2) * rsum n (fun k => g k ^ 2)) /\
  (0 < rsum n (fun k => f k ^ 2) * rsum n (fun k => g k ^ 2) ->
   Rabs (tget Rops (reflective_correlation Rops sqrt None yt yp) []) <= 1).
Proof.
  intros Wt Wp Sh n f g.
  assert (E : tget Rops (reflective_correlation Rops sqrt None yt yp) [] =
              rsum n (fun k => f k * g k) / sqrt (rsum n (fun k => f k ^ 2) * rsum n (fun k => g k ^ 2))).
  { rewrite reflective_is_ratio by (cbn; exact I). rewrite !tsum_none_get.
    unfold tzip, tmap. cbn [data shape]. rewrite length_data_tabulate, !map_length, Wt, Wp, Sh. fold n.
    f_equal; [| f_equal; f_equal].
    - apply rsum_ext. intros k Hk. rewrite nth_data_tabulate by exact Hk.
      rewrite (tget_unravel' yt (shape yt) k eq_refl Hk), (tget_unravel' yp (shape yt) k Sh Hk). reflexivity.
    - apply rsum_ext. intros k Hk. rewrite (nth_map' (fsq Rops) _ k 0 0) by (rewrite Wt; exact Hk).
      unfold fsq, f. cbn [fmul Rops]. ring.
    - apply rsum_ext. intros k Hk. rewrite (nth_map' (fsq Rops) _ k 0 0) by (rewrite Wp, Sh; exact Hk).
      unfold fsq, g. cbn [fmul Rops]. ring. }
  split; [exact E|]. intros Hpos. rewrite E. apply ratio_abs_le_1; [exact Hpos | apply cauchy_schwarz].
Qed.

(* ---------- (b) ---------- *)
(* the part of the thin-SVD contract that concerns U: its first k columns are orthonormal *)
Definition orthonormal_cols (U : mat R) (nr k : nat) : Prop :=
  forall a b, (a < k)%nat -> (b < k)%nat ->
  rsum nr (fun i => mget Rops U i a * mget Rops U i b) = if Nat.eqb a b then 1 else 0.

Lemma orthonormal_unit (U : mat R) nr k : orthonormal_cols U nr k ->
  forall j, (j < k)%nat -> rsum nr (fun i => (mget Rops U i j) ^ 2) = 1.
Proof.
  intros H j Hj. specialize (H j j Hj Hj). rewrite Nat.eqb_refl in H. rewrite <- H. apply rsum_ext. intros; ring.
Qed.

Theorem leverage_simplex_given_svd renorm (U : mat R) sv nr nc eps l :
  leverage_score_dist_any Rops renorm U sv nr nc eps = Ok l -> orthonormal_cols U nr (length sv) ->
  length l = nr /\ Forall (fun x => 0 <= x) l /\ fsum Rops l = 1.
Proof.
  intros H Ho. destruct (leverage_any_simplex renorm U sv nr nc eps l H (orthonormal_unit U nr _ Ho)) as (A & B & C & _). auto.
Qed.

Lemma fsum_leverage_k (U : mat R) nr k :
  fsum Rops (leverage_k Rops U nr k) = rsum nr (fun i => rsum k (fun j => (mget Rops U i j) ^ 2) / INR k).
Proof.
  unfold leverage_k. rewrite fsum_map_seq. apply rsum_ext. intros i _. rewrite sumn_rsum, nat2F_INR. cbn [fdiv Rops].
  f_equal. apply rsum_ext. intros j _. unfold fsq. cbn [fmul Rops]. ring.
Qed.

Lemma rsum_pos_witness n (f : nat -> R) i : (forall k, (k < n)%nat -> 0 <= f k) -> (i < n)%nat -> 0 < f i -> 0 < rsum n f.
Proof.
  intros Hn Hi Hp. induction n as [|n IH]; [lia|]. cbn [rsum].
  destruct (Nat.eq_dec i n) as [->|Hne].
  - assert (0 <= rsum n f) by (apply rsum_nonneg; intros; apply Hn; lia). lra.
  - assert (0 < rsum n f) by (apply IH; [intros; apply Hn; lia | lia]). assert (0 <= f n) by (apply Hn; lia). lra.
Qed.

(* the renormalisation branch, about the model alone (U arbitrary, e.g. only approximately orthonormal as in float32):
   whenever the selected block U[:, :num_rank] has a non-zero entry the result is non-negative and sums to one *)
Theorem leverage_renorm_sum_one (U : mat R) sv nr nc eps l :
  leverage_score_dist_any Rops true U sv nr nc eps = Ok l ->
  (exists i j, (i < nr)%nat /\ (j < num_rank Rops sv nr nc eps)%nat /\ mget Rops U i j <> 0) ->
  length l = nr /\ Forall (fun x => 0 <= x) l /\ fsum Rops l = 1.
Proof.
  intros H (i & j & Hi & Hj & Hne).
  destruct (leverage_score_dist Rops U sv nr nc eps) as [l0|] eqn:E.
  2:{ unfold leverage_score_dist_any in H. rewrite E in H. discriminate. }
  assert (Hl0 : l0 = leverage_k Rops U nr (num_rank Rops sv nr nc eps)).
  { unfold leverage_score_dist in E. destruct (Nat.eqb _ 0); [discriminate | now inversion E]. }
  set (k := num_rank Rops sv nr nc eps) in *.
  assert (Hk : 0 < INR k) by (apply lt_0_INR; lia).
  assert (Hpos : 0 < fsum Rops l0).
  { rewrite Hl0, fsum_leverage_k.
    assert (Hrow : forall i', 0 <= rsum k (fun j' => (mget Rops U i' j') ^ 2) / INR k).
    { intros i'. apply Rmult_le_pos; [apply rsum_nonneg; intros; apply pow2_ge_0 | left; now apply Rinv_0_lt_compat]. }
    apply (rsum_pos_witness nr _ i); [intros; apply Hrow | exact Hi|].
    apply Rmult_lt_0_compat; [|now apply Rinv_0_lt_compat].
    apply (rsum_pos_witness k _ j); [intros; apply pow2_ge_0 | exact Hj|]. nra. }
  destruct (leverage_renorm_simplex U sv nr nc eps l0 l E H Hpos) as (A & B).
  split; [|split; assumption].
  unfold leverage_score_dist_any in H. rewrite E in H. inversion H; subst l. rewrite map_length, Hl0.
  unfold leverage_k. now rewrite map_length, seq_length.
Qed.

(* ---------- (c) ---------- *)
Theorem cp_permute_list_aligned ref nas (ts : list (list R * list (mat R) * list (list R))) assign outs :
  cp_permute_factors_list Rops ref nas ts assign = Ok outs -> lsa_contract assign ->
  let r := ncols (hd [] ref) in (0 < r)%nat ->
  (forall t, In t ts -> tape_valid (zip_modes ref (snd (fst t)) nas (snd t)) /\
                        exists rec, equivalent_by true r (zip_modes ref (snd (fst t)) nas (snd t)) rec) ->
  Forall2 (fun t out =>
    let w := fst (fst t) in let fs := snd (fst t) in let p := snd out in
    is_perm r p /\ fst (fst out) = map (fun k => nth k w 0) p /\ snd (fst out) = map (permute_cols Rops p) fs /\
    (forall i m, (i < r)%nat -> In m (zip_modes ref fs nas (snd t)) -> exists d, d <> 0 /\
       forall k, (k < nrows (mB m))%nat -> mget Rops (permute_cols Rops p (mB m)) k i = d * mget Rops (mA m) k i) /\
    (forall idx, Forall2 (fun F i => (i < nrows F)%nat) fs idx ->
       cp_entry r (fst (fst out)) (snd (fst out)) idx = cp_entry r w fs idx)) ts outs.
Proof.
  intros H Hc r Hr Hall. pose proof (cp_permute_list_spec ref nas ts assign outs H) as HF.
  induction HF as [|t out ts outs Ht _ IH]; [constructor|].
  constructor.
  - destruct out as ((w', fs'), p). destruct (Hall t (or_introl eq_refl)) as (Hv & rec & He).
    destruct (cp_permute_collinear ref (snd (fst t)) (fst (fst t)) nas (snd t) assign w' fs' p rec Ht Hv Hc Hr He)
      as (Hp & Ew & Ef & Hcol).
    cbn [fst snd]. split; [exact Hp|]. split; [exact Ew|]. split; [exact Ef|]. split; [exact Hcol|].
    intros idx Hidx. rewrite Ew, Ef.
    exact (cp_permute_same_tensor r p (fst (fst t)) (snd (fst t)) idx Hp Hidx).
  - apply IH.
    + (* the tail call succeeded *)
      cbn [cp_permute_factors_list] in H. destruct t as ((w, fs), nbs).
      destruct (cp_permute_factors Rops ref fs w nas nbs assign); [|discriminate].
      destruct (cp_permute_factors_list Rops ref nas ts assign) as [xs|]; [|discriminate].
      inversion H; subst. reflexivity.
    + intros t' Ht'. apply Hall. now right.
Qed.
