(* Lemmas for C20, part 14: the axis argument given as a TUPLE: which tuples are accepted, a one-element tuple is the integer
   axis, and the multi-axis reduction is the iterated single-axis reduction from the highest axis down. *)
From Coq Require Import List Arith Lia Bool ZArith Reals.
From TLV Require Import Base.Shape Base.PyList Base.Tensor Base.Ops Model.Metrics Proofs.MetricsProofs8.
Import ListNotations.

Lemma nodupb_NoDup l : nodupb l = true <-> NoDup l.
Proof.
  induction l as [|a l IH]; cbn [nodupb]; [split; [constructor | reflexivity]|].
  rewrite andb_true_iff, negb_true_iff, IH. split.
  - intros (H & Hn). constructor; [|exact Hn]. intros Hin.
    assert (K : existsb (Nat.eqb a) l = true) by (apply existsb_exists; exists a; split; [exact Hin | apply Nat.eqb_refl]). congruence.
  - intros Hn. inversion Hn as [|? ? Hni Hnd]; subst. split; [|exact Hnd].
    destruct (existsb (Nat.eqb a) l) eqn:E; [|reflexivity]. apply existsb_exists in E. destruct E as (x & Hx & E).
    apply Nat.eqb_eq in E. subst x. contradiction.
Qed.

Lemma norm_axes_list_ok zs nd : forall l, norm_axes_list zs nd = Ok l -> Forall2 (fun z a => norm_axis z nd = Ok a) zs l.
Proof.
  induction zs as [|z r IH]; intros l H; cbn [norm_axes_list] in H; [inversion H; constructor|].
  destruct (norm_axis z nd) as [a|] eqn:E; [|discriminate]. destruct (norm_axes_list r nd) as [l'|]; [|discriminate].
  inversion H; subst. constructor; [exact E | now apply IH].
Qed.

Lemma norm_axes_list_err zs nd : norm_axes_list zs nd = Err <-> exists z, In z zs /\ norm_axis z nd = Err.
Proof.
  induction zs as [|z r IH]; cbn [norm_axes_list]; [split; [discriminate | intros (z & [] & _)]|].
  destruct (norm_axis z nd) as [a|] eqn:E.
  - destruct (norm_axes_list r nd) as [l'|] eqn:E2.
    + split; [discriminate|]. intros (z' & [<-|Hin] & Hz); [congruence|].
      assert (K : @Ok (list nat) l' = Err) by (apply IH; exists z'; split; assumption). discriminate.
    + split; [|reflexivity]. intros _. destruct (proj1 IH eq_refl) as (z' & Hin & Hz). exists z'. split; [now right | exact Hz].
  - split; [|reflexivity]. intros _. exists z. split; [now left | exact E].
Qed.

(* accepted: every entry is a legal axis (C20_norm_axis_spec) and no axis occurs twice after normalisation *)
Theorem norm_axes_spec zs nd :
  match norm_axes zs nd with
  | Ok l => Forall2 (fun z a => norm_axis z nd = Ok a) zs l /\ NoDup l
  | Err => (exists z, In z zs /\ norm_axis z nd = Err) \/
           (exists l, Forall2 (fun z a => norm_axis z nd = Ok a) zs l /\ ~ NoDup l)
  end.
Proof.
  unfold norm_axes. destruct (norm_axes_list zs nd) as [l|] eqn:E.
  - destruct (nodupb l) eqn:N.
    + split; [now apply norm_axes_list_ok | now apply nodupb_NoDup].
    + right. exists l. split; [now apply norm_axes_list_ok|]. intros K. apply nodupb_NoDup in K. congruence.
  - left. now apply norm_axes_list_err.
Qed.

Section A.
Context {F : Type} (Op : fops F).

(* a one-element tuple is the integer axis *)
Theorem axes_singleton (sq : F -> F) (a : nat) (yt yp : tensor F) :
  MSE_axes Op [a] yt yp = MSE Op (Some a) yt yp /\
  RMSE_axes Op sq [a] yt yp = RMSE Op sq (Some a) yt yp /\
  reflective_correlation_axes Op sq [a] yt yp = reflective_correlation Op sq (Some a) yt yp.
Proof. repeat split; reflexivity. Qed.

Lemma In_insert_desc a l x : In x (insert_desc a l) -> x = a \/ In x l.
Proof.
  induction l as [|b r IH]; cbn [insert_desc]; [intros [<-|[]]; now left|].
  destruct (b <=? a); cbn [In]; [intros [<-|H]; [now left | now right]|].
  intros [<-|H]; [right; now left|]. destruct (IH H) as [->|K]; [now left | right; now right].
Qed.

Lemma In_sort_desc l x : In x (sort_desc l) -> In x l.
Proof.
  induction l as [|a l IH]; cbn [sort_desc fold_right]; [intros []|].
  intros H. apply In_insert_desc in H. destruct H as [->|H]; [now left | right; now apply IH].
Qed.

Lemma sort_desc_cons_max a l : (forall b, In b l -> b <= a) -> sort_desc (a :: l) = a :: sort_desc l.
Proof.
  intros H. change (sort_desc (a :: l)) with (insert_desc a (sort_desc l)).
  destruct (sort_desc l) as [|b r] eqn:E; [reflexivity|]. cbn [insert_desc].
  assert (Hb : b <= a) by (apply H, In_sort_desc; rewrite E; now left).
  apply Nat.leb_le in Hb. now rewrite Hb.
Qed.

(* the multi-axis reduction = reduce the highest axis, then the rest: with tsum_axis_get (entry formula of one reduction)
   this determines every entry; the empty tuple reduces nothing *)
Theorem tsum_axes_step (a : nat) (l : list nat) (t : tensor F) : (forall b, In b l -> b <= a) ->
  tsum_axes Op (a :: l) t = tsum_axes Op l (tsum Op (Some a) t).
Proof. intros H. unfold tsum_axes. rewrite (sort_desc_cons_max a l H). reflexivity. Qed.

Theorem tsum_axes_nil (t : tensor F) : tsum_axes Op [] t = t.
Proof. reflexivity. Qed.
End A.
