(* Lemmas for C20, part 15: a tuple axis argument may list its axes in ANY order: the reductions of the model depend only on
   the set of axes (the descending insertion sort is invariant under permutation; so is the number of reduced entries). *)
From Coq Require Import List Arith Lia Bool Permutation.
From TLV Require Import Base.Shape Base.PyList Base.Tensor Base.Ops Model.Metrics.
Import ListNotations.

Lemma insert_desc_comm a b l : insert_desc a (insert_desc b l) = insert_desc b (insert_desc a l).
Proof.
  induction l as [|c l IH]; cbn [insert_desc].
  - destruct (b <=? a) eqn:E1, (a <=? b) eqn:E2; try reflexivity.
    + apply Nat.leb_le in E1. apply Nat.leb_le in E2. assert (a = b) by lia. now subst.
    + apply Nat.leb_gt in E1. apply Nat.leb_gt in E2. lia.
  - destruct (c <=? b) eqn:Eb, (c <=? a) eqn:Ea.
    + (* c <= a, c <= b *)
      destruct (b <=? a) eqn:E1, (a <=? b) eqn:E2.
      * apply Nat.leb_le in E1. apply Nat.leb_le in E2. assert (a = b) by lia. now subst.
      * repeat (cbn [insert_desc]; rewrite ?E1, ?E2, ?Ea, ?Eb). reflexivity.
      * repeat (cbn [insert_desc]; rewrite ?E1, ?E2, ?Ea, ?Eb). reflexivity.
      * apply Nat.leb_gt in E1. apply Nat.leb_gt in E2. lia.
    + (* c <= b, c > a *)
      assert (E1 : (b <=? a) = false) by (apply Nat.leb_gt; apply Nat.leb_le in Eb; apply Nat.leb_gt in Ea; lia).
      repeat (cbn [insert_desc]; rewrite ?E1, ?Ea, ?Eb). reflexivity.
    + (* c > b, c <= a *)
      assert (E2 : (a <=? b) = false) by (apply Nat.leb_gt; apply Nat.leb_le in Ea; apply Nat.leb_gt in Eb; lia).
      repeat (cbn [insert_desc]; rewrite ?E2, ?Ea, ?Eb). reflexivity.
    + repeat (cbn [insert_desc]; rewrite ?Ea, ?Eb). now rewrite IH.
Qed.

Theorem sort_desc_perm l l' : Permutation l l' -> sort_desc l = sort_desc l'.
Proof.
  induction 1 as [| x l l' _ IH | x y l | l l' l'' _ IH1 _ IH2].
  - reflexivity.
  - change (insert_desc x (sort_desc l) = insert_desc x (sort_desc l')). now rewrite IH.
  - change (insert_desc y (insert_desc x (sort_desc l)) = insert_desc x (insert_desc y (sort_desc l))). apply insert_desc_comm.
  - now rewrite IH1.
Qed.

Section P.
Context {F : Type} (Op : fops F).

Lemma red_len_fold (axs : list nat) (t : tensor F) :
  red_len_axes axs t = fold_right (fun a acc => nth a (shape t) 0 * acc) 1 axs.
Proof.
  unfold red_len_axes. destruct axs as [|a r]; [reflexivity|]. cbn [fold_right].
  revert a. generalize (shape t) as s. intros s.
  assert (H : forall r x, fold_left (fun acc b => acc * nth b s 0) r x = x * fold_right (fun a acc => nth a s 0 * acc) 1 r).
  { induction r0 as [|b r0 IH]; intros x; cbn [fold_left fold_right]; [lia|]. rewrite IH. lia. }
  intros a. apply H.
Qed.

Lemma red_len_perm (axs axs' : list nat) (t : tensor F) : Permutation axs axs' -> red_len_axes axs t = red_len_axes axs' t.
Proof.
  intros H. rewrite !red_len_fold. induction H; cbn [fold_right]; lia.
Qed.

Theorem axes_order_irrelevant (sq : F -> F) (axs axs' : list nat) (yt yp : tensor F) : Permutation axs axs' ->
  MSE_axes Op axs yt yp = MSE_axes Op axs' yt yp /\
  RMSE_axes Op sq axs yt yp = RMSE_axes Op sq axs' yt yp /\
  reflective_correlation_axes Op sq axs yt yp = reflective_correlation_axes Op sq axs' yt yp.
Proof.
  intros H.
  assert (E : forall t : tensor F, tsum_axes Op axs t = tsum_axes Op axs' t)
    by (intros t; unfold tsum_axes; now rewrite (sort_desc_perm _ _ H)).
  assert (M : MSE_axes Op axs yt yp = MSE_axes Op axs' yt yp).
  { unfold MSE_axes, tmean_axes. now rewrite E, (red_len_perm axs axs' _ H). }
  split; [exact M|]. split; [unfold RMSE_axes; now rewrite M|].
  unfold reflective_correlation_axes, refl_parts_axes. now rewrite !E.
Qed.
End P.
