(* Lemmas for C20, part 16: the optimality checks that the correspondence EXECUTES (Corr/C20.v: optimal_on = brute force,
   certified_on = LP-dual certificate) run on a copy of the congruence matrix rounded DOWN to multiples of 2^-80.  Here the
   rounding is made explicit:
   (a) over R: a matching that is e-optimal on a matrix Cd with Cd <= C <= Cd + delta entrywise is (e + delta)-optimal on C
       (brute-force form and dual-certificate form);
   (b) over Q: qdy x <= x < qdy x + 2^-80, so mdy C is such a matrix with delta = 2^-80;
   (c) transfer (Paramcoq free theorems, Base/Transfer.v): the rational numbers computed by the executed instance map to
       the real-number model's values, hence  certified_on r C p vs = true  (the boolean evaluated by vm_compute on the
       implementation's returned matching) IMPLIES that p is a permutation and every matching of the EXACT matrix scores at
       most score p + 1e-9 + 2^-80. *)
From Coq Require Import List Arith Lia Bool ZArith QArith Qabs Reals Lra Qreals Psatz.
From Param Require Import Param.
From TLV Require Import Base.Shape Base.PyList Base.Tensor Base.Ops Base.RSum Base.Transfer Model.Metrics Proofs.MetricsProofs
  Proofs.MetricsProofs9.
From TLV Require Corr.C20.
Import ListNotations.
Local Close Scope Q_scope.
Local Open Scope R_scope.

(* ---------- (a) ---------- *)
Definition rounded_down (r : nat) (delta : R) (C Cd : mat R) : Prop :=
  forall i j, (i < r)%nat -> (j < r)%nat -> mget Rops Cd i j <= mget Rops C i j <= mget Rops Cd i j + delta.

Lemma score_rounded r delta (C Cd : mat R) p : (0 < r)%nat -> is_perm r p -> rounded_down r delta C Cd ->
  score Rops r Cd p <= score Rops r C p <= score Rops r Cd p + delta.
Proof.
  intros Hr Hp H. rewrite !score_rsum. assert (Hn : 0 < INR r) by (apply lt_0_INR; exact Hr).
  assert (L : rsum r (fun i => mget Rops Cd i (nth i p 0%nat)) <= rsum r (fun i => mget Rops C i (nth i p 0%nat))).
  { apply rsum_le. intros i Hi. apply H; [exact Hi | now apply is_perm_nth]. }
  assert (U : rsum r (fun i => mget Rops C i (nth i p 0%nat)) <= rsum r (fun i => mget Rops Cd i (nth i p 0%nat) + delta)).
  { apply rsum_le. intros i Hi. apply H; [exact Hi | now apply is_perm_nth]. }
  rewrite rsum_add, rsum_const in U. split.
  - apply (Rmult_le_reg_r (INR r)); [exact Hn|]. unfold Rdiv. rewrite !Rmult_assoc, Rinv_l by lra. lra.
  - apply (Rmult_le_reg_r (INR r)); [exact Hn|]. rewrite Rmult_plus_distr_r. unfold Rdiv. rewrite !Rmult_assoc, Rinv_l by lra. lra.
Qed.

(* brute force on the rounded matrix *)
Theorem brute_force_rounded_optimal r delta e (C Cd : mat R) p : (0 < r)%nat -> is_perm r p -> rounded_down r delta C Cd ->
  score Rops r Cd (best_perm Rops r Cd) <= score Rops r Cd p + e ->
  forall q, is_perm r q -> score Rops r C q <= score Rops r C p + e + delta.
Proof.
  intros Hr Hp H Hb q Hq.
  pose proof (score_rounded r delta C Cd q Hr Hq H) as (_ & Q2).
  pose proof (score_rounded r delta C Cd p Hr Hp H) as (P1 & _).
  pose proof (best_perm_max r Cd q Hq). lra.
Qed.

(* dual certificate on the rounded matrix *)
Theorem dual_certificate_rounded r delta eps (C Cd : mat R) vs p : (0 < r)%nat -> is_perm r p -> rounded_down r delta C Cd ->
  dual_gap Rops r Cd vs p <= eps ->
  forall q, is_perm r q -> score Rops r C q <= score Rops r C p + eps / INR r + delta.
Proof.
  intros Hr Hp H Hg q Hq.
  pose proof (score_rounded r delta C Cd q Hr Hq H) as (_ & Q2).
  pose proof (score_rounded r delta C Cd p Hr Hp H) as (P1 & _).
  pose proof (dual_certificate_optimal r Cd vs p eps Hr Hg q Hq). lra.
Qed.

(* ---------- (b) ---------- *)
Local Open Scope Q_scope.
Lemma qdy_spec (x : Q) : C20.qdy x <= x /\ x < C20.qdy x + (1 # (2 ^ 80)).
Proof.
  unfold C20.qdy. set (P := (2 ^ 80)%positive).
  set (k := (Qnum x * Zpos P / Zpos (Qden x))%Z).
  assert (Hd : (0 < Zpos (Qden x))%Z) by reflexivity.
  pose proof (Z.mul_div_le (Qnum x * Zpos P) (Zpos (Qden x)) Hd) as L. fold k in L.
  pose proof (Z.mul_succ_div_gt (Qnum x * Zpos P) (Zpos (Qden x)) Hd) as U. fold k in U.
  split.
  - rewrite Qred_correct. unfold Qle. cbn [Qnum Qden]. lia.
  - rewrite Qred_correct. unfold Qlt, Qplus. cbn [Qnum Qden].
    assert (E : (Z.pos (P * P) = Zpos P * Zpos P)%Z) by reflexivity. rewrite E. clear E.
    assert (HP : (0 < Zpos P)%Z) by reflexivity. nia.
Qed.
Local Close Scope Q_scope.

Definition mapR (M : mat Q) : mat R := map (map Q2R) M.

Lemma mget_mapR (M : mat Q) i j : mget Rops (mapR M) i j = Q2R (mget Qops M i j).
Proof.
  unfold mget, mapR. cbn [f0 Rops Qops].
  change (@nil R) with (map Q2R []). rewrite map_nth. rewrite <- RMicromega.Q2R_0. apply map_nth.
Qed.

Lemma mget_mdy (M : mat Q) i j : (i < length M)%nat -> (j < length (nth i M []))%nat ->
  mget Qops (C20.mdy M) i j = C20.qdy (mget Qops M i j).
Proof.
  intros Hi Hj. unfold mget, C20.mdy. cbn [f0 Qops].
  rewrite (nth_indep _ [] (map C20.qdy [])) by (now rewrite map_length). rewrite map_nth.
  rewrite (nth_indep _ 0%Q (C20.qdy 0%Q)) by (now rewrite map_length). apply map_nth.
Qed.

Lemma mget_mdy0 (M : mat Q) i j : mget Qops (C20.mdy M) i j = C20.qdy (mget Qops M i j).
Proof.
  unfold mget, C20.mdy. cbn [f0 Qops].
  change (@nil Q) with (map C20.qdy []). rewrite map_nth.
  change 0%Q with (C20.qdy 0%Q) at 1. apply map_nth.
Qed.

Lemma pow2_80 : Q2R (1 # (2 ^ 80)) = / 2 ^ 80.
Proof. unfold Q2R. cbn [Qnum Qden]. rewrite Rmult_1_l. f_equal. rewrite pow_IZR. f_equal. Qed.

(* the matrix the executed checks enumerate / certify on is the exact one rounded down by less than 2^-80, entry by entry *)
Theorem mdy_rounded_down (r : nat) (M : mat Q) : rounded_down r (/ 2 ^ 80) (mapR M) (mapR (C20.mdy M)).
Proof.
  intros i j _ _. rewrite !mget_mapR, mget_mdy0. destruct (qdy_spec (mget Qops M i j)) as (L & U).
  apply Qle_Rle in L. apply Qlt_Rlt in U. rewrite Q2R_plus, pow2_80 in U. lra.
Qed.

(* ---------- (c) ---------- *)
Parametricity Recursive score. Check score_R.
Parametricity Recursive dual_gap. Check dual_gap_R.

Lemma nat_list_R_refl (p : list nat) : list_R nat nat nat_R p p.
Proof. induction p; constructor; [apply nat_R_refl | assumption]. Qed.

Lemma score_transfer r (C : mat Q) p : Q2R (score Qops r C p) = score Rops r (mapR C) p.
Proof. exact (score_R Q R QR Qops Rops ops_rel r r (nat_R_refl r) C (mapR C) (list_list_R_of_map C) p p (nat_list_R_refl p)). Qed.

Lemma dual_gap_transfer r (C : mat Q) vs p : Q2R (dual_gap Qops r C vs p) = dual_gap Rops r (mapR C) (map Q2R vs) p.
Proof.
  exact (dual_gap_R Q R QR Qops Rops ops_rel r r (nat_R_refl r) C (mapR C) (list_list_R_of_map C) vs (map Q2R vs) (list_R_of_map vs)
           p p (nat_list_R_refl p)).
Qed.

Lemma Q2R_tol : Q2R C20.tol = / 10 ^ 9.
Proof. unfold C20.tol, Q2R. cbn [Qnum Qden]. rewrite Rmult_1_l. f_equal. rewrite pow_IZR. f_equal. Qed.

(* THE EXECUTED CERTIFICATE CHECK IS SOUND, rounding included: if the boolean that the correspondence evaluates is true then the
   returned matching is a permutation and no matching of the exact (rational) congruence matrix beats it by more than
   1e-9 + 2^-80 *)
Theorem certified_on_sound (r : nat) (C : mat Q) (p : list nat) (vs : list Q) : (0 < r)%nat ->
  C20.certified_on r C p vs = true ->
  is_perm r p /\ forall q, is_perm r q -> score Rops r (mapR C) q <= score Rops r (mapR C) p + / 10 ^ 9 + / 2 ^ 80.
Proof.
  intros Hr H. unfold C20.certified_on in H. cbv zeta in H. rewrite !andb_true_iff in H. destruct H as ((Hp & _) & Hg).
  apply is_permb_is_perm in Hp. split; [exact Hp|]. intros q Hq.
  apply Qle_bool_iff in Hg. apply Qle_Rle in Hg. rewrite dual_gap_transfer, Q2R_red, Q2R_mult, Q2R_tol in Hg.
  assert (En : Q2R (inject_Z (Z.of_nat r)) = INR r).
  { unfold Q2R, inject_Z. cbn [Qnum Qden]. rewrite Rinv_1, Rmult_1_r. symmetry. apply INR_IZR_INZ. }
  rewrite En in Hg.
  pose proof (dual_certificate_rounded r (/ 2 ^ 80) (/ 10 ^ 9 * INR r) (mapR C) (mapR (C20.mdy C)) (map Q2R vs) p Hr Hp
                (mdy_rounded_down r C) Hg q Hq) as K.
  assert (Hn : 0 < INR r) by (apply lt_0_INR; exact Hr).
  replace (/ 10 ^ 9 * INR r / INR r) with (/ 10 ^ 9) in K by (field; lra). exact K.
Qed.

(* the same for the executed BRUTE-FORCE check: the permutation found by the rational brute force IS the real-number model's *)
Parametricity Recursive best_perm. Check best_perm_R.

Lemma nat_R_eq a b : nat_R a b -> a = b.
Proof. induction 1; [reflexivity | now f_equal]. Qed.
Lemma nat_list_R_eq (p q : list nat) : list_R nat nat nat_R p q -> p = q.
Proof. induction 1 as [|a b E l l' _ IH]; [reflexivity|]. now rewrite (nat_R_eq _ _ E), IH. Qed.

Lemma best_perm_transfer r (C : mat Q) : best_perm Qops r C = best_perm Rops r (mapR C).
Proof.
  apply nat_list_R_eq.
  exact (best_perm_R Q R QR Qops Rops ops_rel r r (nat_R_refl r) C (mapR C) (list_list_R_of_map C)).
Qed.

Lemma Q2R_abs x : Q2R (Qabs x) = Rabs (Q2R x).
Proof.
  apply Qabs_case; intros H; apply Qle_Rle in H; rewrite RMicromega.Q2R_0 in H.
  - rewrite Rabs_right; lra.
  - rewrite Q2R_opp, Rabs_left1; lra.
Qed.

Lemma qclose_R a b : Common.qclose C20.tol C20.tol a b = true ->
  Rabs (Q2R a - Q2R b) <= / 10 ^ 9 * (1 + Rabs (Q2R a) + Rabs (Q2R b)).
Proof.
  unfold Common.qclose. intros H. apply Qle_bool_iff in H. apply Qle_Rle in H.
  rewrite Q2R_plus, Q2R_mult, Q2R_plus, !Q2R_abs, Q2R_minus, Q2R_tol in H. lra.
Qed.

Theorem optimal_on_sound (r : nat) (C : mat Q) (p : list nat) : (0 < r)%nat ->
  C20.optimal_on r C p = true ->
  let Cd := mapR (C20.mdy C) in
  is_perm r p /\ forall q, is_perm r q ->
    score Rops r (mapR C) q <=
    score Rops r (mapR C) p + / 10 ^ 9 * (1 + Rabs (score Rops r Cd p) + Rabs (score Rops r Cd (best_perm Rops r Cd))) + / 2 ^ 80.
Proof.
  intros Hr H Cd. unfold C20.optimal_on in H. cbv zeta in H. rewrite andb_true_iff in H. destruct H as (Hp & Hc).
  apply is_permb_is_perm in Hp. split; [exact Hp|]. intros q Hq.
  apply qclose_R in Hc. rewrite !score_transfer, best_perm_transfer in Hc. fold Cd in Hc.
  apply (brute_force_rounded_optimal r (/ 2 ^ 80) _ (mapR C) Cd p Hr Hp (mdy_rounded_down r C)); [|exact Hq].
  apply Rabs_le_inv' in Hc. lra.
Qed.

(* ---------- (d) what a passing congruence case MEANS: the whole executed comparison agree_cong, transferred ---------- *)
Parametricity Recursive cong_matrix. Check cong_matrix_R.

Lemma mats_R_of_map (Xs : list (mat Q)) : list_R (mat Q) (mat R) (list_R (list Q) (list R) (list_R Q R QR)) Xs (map mapR Xs).
Proof. induction Xs; cbn [map]; constructor; [apply list_list_R_of_map | assumption]. Qed.

Lemma cong_matrix_transfer absv (As Bs : list (mat Q)) nas nbs :
  cong_matrix Rops absv (map mapR As) (map mapR Bs) (map (map Q2R) nas) (map (map Q2R) nbs) =
  match cong_matrix Qops absv As Bs nas nbs with Ok (r, C) => Ok (r, mapR C) | Err => Err end.
Proof.
  pose proof (cong_matrix_R Q R QR Qops Rops ops_rel absv absv (bool_R_refl absv) As (map mapR As) (mats_R_of_map As)
                Bs (map mapR Bs) (mats_R_of_map Bs) nas (map (map Q2R) nas) (list_list_R_of_map nas)
                nbs (map (map Q2R) nbs) (list_list_R_of_map nbs)) as H.
  destruct H as [x1 x2 Hx|]; [|reflexivity].
  destruct Hx as [r1 r2 Hr C1 C2 HC]. rewrite <- (nat_R_eq _ _ Hr). now rewrite <- (list_list_R_map _ _ HC).
Qed.

(* If the executed comparison of a congruence_coefficient case succeeds (vm_compute says true) on an accepted input, then,
   about the REAL-number model on the (rational) inputs of that case: the model accepts with some rank r and matrix C, the
   implementation's permutation is a permutation of 0..r-1, the implementation's value is within 1e-9 (1 + |v| + |score|) of
   the mean congruence of that permutation, and no column matching scores more than that permutation's score plus
   1e-9 (1 + ...) + 2^-80. *)
Theorem agree_cong_sound absv (As Bs : list (mat Q)) nas nbs (v : Q) (p : list nat) :
  C20.agree_cong absv As Bs nas nbs (Ok (v, p)) = true ->
  exists (r : nat) (Cq : mat Q), let C := mapR Cq in let Cd := mapR (C20.mdy Cq) in
    cong_matrix Rops absv (map mapR As) (map mapR Bs) (map (map Q2R) nas) (map (map Q2R) nbs) = Ok (r, C) /\
    Rabs (Q2R v - score Rops r C p) <= / 10 ^ 9 * (1 + Rabs (Q2R v) + Rabs (score Rops r C p)) /\
    ((0 < r)%nat -> is_perm r p /\ forall q, is_perm r q ->
       score Rops r C q <=
       score Rops r C p + / 10 ^ 9 * (1 + Rabs (score Rops r Cd p) + Rabs (score Rops r Cd (best_perm Rops r Cd))) + / 2 ^ 80).
Proof.
  intros H. unfold C20.agree_cong in H. pose proof (cong_matrix_transfer absv As Bs nas nbs) as T.
  destruct (cong_matrix Qops absv As Bs nas nbs) as [[r Cq]|]; [|discriminate].
  rewrite !andb_true_iff in H. destruct H as (((_ & _) & Ho) & Hv).
  exists r, Cq. cbv zeta. split; [exact T|]. split.
  - apply qclose_R in Hv. now rewrite score_transfer in Hv.
  - intros Hr. exact (optimal_on_sound r Cq p Hr Ho).
Qed.
