(* Lemmas for C20, part 17: the CLOSED ENTRY FORMULA of the multi-axis (tuple) reductions.  For a tuple of distinct legal axes
   the entry of tsum_axes at an index idx of the reduced shape is ONE sum over the box of the reduced dimensions:
       sum over K < prod box  of  t [ scatter l (unravel box K) idx ]
   where l = the axes in descending order, box = their lengths, and scatter re-inserts the coordinates k_1..k_m at the axes
   l_1 > .. > l_m (lowest axis first, so that every position is the position in the FULL index).  Consequences: MSE / RMSE /
   reflective correlation with a tuple axis equal their textbook definitions over the reduced box, entry by entry. *)
From Coq Require Import List Arith Lia Bool Reals Lra Permutation.
From TLV Require Import Base.Shape Base.PyList Base.Tensor Base.Ops Base.RSum Model.Metrics Proofs.MetricsProofs
  Proofs.MetricsProofs7 Proofs.MetricsProofs9 Proofs.MetricsProofs14 Proofs.MetricsProofs15.
Import ListNotations.
Local Open Scope R_scope.

(* ---------- sums over a product range ---------- *)
Lemma rsum_shift a b (f : nat -> R) : rsum (a + b) f = rsum a f + rsum b (fun j => f (a + j)%nat).
Proof.
  induction b as [|b IH]; [rewrite Nat.add_0_r; cbn [rsum]; lra|].
  rewrite Nat.add_succ_r. cbn [rsum]. rewrite IH. lra.
Qed.

Lemma rsum_mul n m (f : nat -> R) : rsum (n * m) f = rsum n (fun i => rsum m (fun j => f (i * m + j)%nat)).
Proof.
  induction n as [|n IH]; [reflexivity|].
  replace (S n * m)%nat with (n * m + m)%nat by lia. rewrite rsum_shift, IH. cbn [rsum]. reflexivity.
Qed.

(* ---------- the index map ---------- *)
Fixpoint scatter (axs ks idx : list nat) : list nat :=
  match axs, ks with a :: ar, k :: kr => insert_at a k (scatter ar kr idx) | _, _ => idx end.
Definition box (s axs : list nat) : list nat := map (fun a => nth a s 0%nat) axs.
Definition rshape_axes (axs s : list nat) : list nat := fold_left (fun s a => remove_nth a s) axs s.
(* strictly decreasing, all below the bound *)
Fixpoint desc_below (bound : nat) (l : list nat) : Prop :=
  match l with [] => True | a :: r => (a < bound)%nat /\ desc_below a r end.

Lemma nth_remove_lt {A} (d : A) : forall a b (s : list A), (b < a)%nat -> nth b (remove_nth a s) d = nth b s d.
Proof.
  induction a as [|a IH]; intros b s H; [lia|]. destruct s as [|x s]; [destruct b; reflexivity|].
  destruct b as [|b]; cbn [remove_nth nth]; [reflexivity|]. apply IH. lia.
Qed.

Lemma desc_below_lt n l : desc_below n l -> forall b, In b l -> (b < n)%nat.
Proof.
  revert n. induction l as [|a r IH]; intros n H b Hb; [destruct Hb|]. destruct H as (Ha & Hr).
  destruct Hb as [<-|Hb]; [exact Ha|]. specialize (IH a Hr b Hb). lia.
Qed.

Lemma box_remove a s l : desc_below a l -> box (remove_nth a s) l = box s l.
Proof.
  intros H. unfold box. apply map_ext_in. intros b Hb. apply nth_remove_lt. exact (desc_below_lt a l H b Hb).
Qed.

Lemma desc_below_weaken n m l : desc_below n l -> (n <= m)%nat -> desc_below m l.
Proof. destruct l as [|a r]; [trivial|]. intros (Ha & Hr) Hnm. split; [lia | exact Hr]. Qed.

Lemma scatter_inb : forall l s ks idx, desc_below (length s) l -> inb (box s l) ks -> inb (rshape_axes l s) idx ->
  inb s (scatter l ks idx).
Proof.
  induction l as [|a l IH]; intros s ks idx Hd Hk Hi.
  - destruct ks; exact Hi.
  - destruct ks as [|k kr]; [destruct Hk|]. destruct Hd as (Ha & Hl). cbn [box map] in Hk. destruct Hk as (Hk & Hkr).
    cbn [scatter]. apply inb_reinsert; [exact Ha | | exact Hk].
    apply IH.
    + apply (desc_below_weaken a); [exact Hl|]. rewrite remove_nth_length by exact Ha. lia.
    + rewrite box_remove by exact Hl. exact Hkr.
    + exact Hi.
Qed.

Lemma shape_fold_tsum (l : list nat) : forall t : tensor R,
  shape (fold_left (fun acc a => tsum Rops (Some a) acc) l t) = rshape_axes l (shape t).
Proof. induction l as [|a l IH]; intros t; [reflexivity|]. cbn [fold_left rshape_axes]. rewrite IH. reflexivity. Qed.

(* the core: iterated single-axis reductions from the highest axis down = one sum over the box *)
Lemma fold_tsum_get : forall (l : list nat) (t : tensor R) idx, desc_below (ndim t) l -> inb (rshape_axes l (shape t)) idx ->
  tget Rops (fold_left (fun acc a => tsum Rops (Some a) acc) l t) idx =
  rsum (prod (box (shape t) l)) (fun K => tget Rops t (scatter l (unravel (box (shape t) l) K) idx)).
Proof.
  induction l as [|a l IH]; intros t idx Hd Hi.
  - cbn [fold_left box map prod fold_right rsum unravel scatter]. lra.
  - destruct Hd as (Ha & Hl). unfold ndim in Ha. cbn [fold_left].
    assert (Hd' : desc_below (ndim (tsum Rops (Some a) t)) l).
    { apply (desc_below_weaken a); [exact Hl|]. unfold ndim, tsum. cbn [shape tabulate]. rewrite remove_nth_length by exact Ha. lia. }
    assert (Sh : shape (tsum Rops (Some a) t) = remove_nth a (shape t)) by reflexivity.
    rewrite (IH (tsum Rops (Some a) t) idx Hd') by (rewrite Sh; exact Hi).
    rewrite Sh, (box_remove a (shape t) l Hl).
    set (bx := box (shape t) l). set (n := nth a (shape t) 0%nat).
    change (box (shape t) (a :: l)) with (n :: bx). cbn [prod fold_right]. fold (prod bx).
    rewrite rsum_mul.
    transitivity (rsum (prod bx) (fun K => rsum n (fun k => tget Rops t (insert_at a k (scatter l (unravel bx K) idx))))).
    { apply rsum_ext. intros K HK. apply tsum_axis_get.
      apply scatter_inb.
      - apply (desc_below_weaken a); [exact Hl|]. rewrite remove_nth_length by exact Ha. lia.
      - rewrite box_remove by exact Hl. apply unravel_inb. exact HK.
      - exact Hi. }
    rewrite rsum_exchange. apply rsum_ext. intros i Hi'. apply rsum_ext. intros j Hj.
    cbn [unravel scatter]. fold (prod bx).
    assert (Hp : (0 < prod bx)%nat) by lia.
    rewrite Nat.div_add_l by lia. rewrite (Nat.div_small j) by exact Hj. rewrite Nat.add_0_r.
    rewrite (Nat.mod_small i n) by exact Hi'.
    replace (i * prod bx + j)%nat with (j + i * prod bx)%nat by lia. rewrite Nat.mod_add by lia.
    rewrite (Nat.mod_small j) by exact Hj. reflexivity.
Qed.

(* ---------- from a tuple (any order, distinct legal axes) to its descending arrangement ---------- *)
Lemma insert_desc_below n a l : desc_below n l -> (a < n)%nat -> ~ In a l -> desc_below n (insert_desc a l).
Proof.
  revert n. induction l as [|b r IH]; intros n Hd Ha Hn; cbn [insert_desc]; [split; [exact Ha | exact I]|].
  destruct Hd as (Hb & Hr). destruct (b <=? a) eqn:E.
  - apply Nat.leb_le in E. assert (b <> a) by (intros ->; apply Hn; now left).
    split; [exact Ha|]. split; [lia | exact Hr].
  - apply Nat.leb_gt in E. split; [exact Hb|]. apply IH; [exact Hr | exact E | intros K; apply Hn; now right].
Qed.

Lemma sort_desc_below n l : NoDup l -> (forall a, In a l -> (a < n)%nat) -> desc_below n (sort_desc l).
Proof.
  induction l as [|a l IH]; intros Hn Hb; [exact I|].
  change (sort_desc (a :: l)) with (insert_desc a (sort_desc l)). inversion Hn as [|? ? Hna Hnl]; subst.
  apply insert_desc_below.
  - apply IH; [exact Hnl | intros b Hb'; apply Hb; now right].
  - apply Hb. now left.
  - intros K. apply Hna. now apply (In_sort_desc l a).
Qed.

Lemma insert_desc_permutation a l : Permutation (a :: l) (insert_desc a l).
Proof.
  induction l as [|b r IH]; cbn [insert_desc]; [apply Permutation_refl|].
  destruct (b <=? a); [apply Permutation_refl|].
  eapply Permutation_trans; [apply perm_swap|]. now apply perm_skip.
Qed.

Lemma sort_desc_permutation l : Permutation l (sort_desc l).
Proof.
  induction l as [|a l IH]; [apply Permutation_refl|].
  change (sort_desc (a :: l)) with (insert_desc a (sort_desc l)).
  eapply Permutation_trans; [apply perm_skip; exact IH | apply insert_desc_permutation].
Qed.

Lemma prod_box_red_len (axs : list nat) (t : tensor R) : prod (box (shape t) axs) = red_len_axes axs t.
Proof.
  rewrite red_len_fold. unfold box. induction axs as [|a r IH]; [reflexivity|]. cbn [map prod fold_right]. fold (prod (map (fun a0 => nth a0 (shape t) 0%nat) r)).
  now rewrite IH.
Qed.

Section Closed.
Context (axs : list nat) (t : tensor R).
Hypothesis Hnd : NoDup axs.
Hypothesis Hlt : forall a, In a axs -> (a < ndim t)%nat.
Let l := sort_desc axs.
Let bx := box (shape t) l.

Lemma shape_tsum_axes : shape (tsum_axes Rops axs t) = rshape_axes l (shape t).
Proof. unfold tsum_axes. apply shape_fold_tsum. Qed.

Lemma prod_bx_red_len : prod bx = red_len_axes axs t.
Proof.
  unfold bx. rewrite prod_box_red_len. symmetry. apply red_len_perm. apply sort_desc_permutation.
Qed.

(* THE CLOSED ENTRY FORMULA *)
Theorem tsum_axes_closed idx : inb (rshape_axes l (shape t)) idx ->
  tget Rops (tsum_axes Rops axs t) idx = rsum (prod bx) (fun K => tget Rops t (scatter l (unravel bx K) idx)).
Proof.
  intros Hi. unfold tsum_axes. apply fold_tsum_get; [|exact Hi]. apply sort_desc_below; assumption.
Qed.

(* every summand is a legal entry of t, and distinct K address distinct entries (unravel is injective, scatter re-inserts) *)
Lemma closed_index_inb idx K : inb (rshape_axes l (shape t)) idx -> (K < prod bx)%nat -> inb (shape t) (scatter l (unravel bx K) idx).
Proof.
  intros Hi HK. apply scatter_inb; [apply sort_desc_below; assumption | apply unravel_inb; exact HK | exact Hi].
Qed.
End Closed.

Lemma wf_fold_tsum (l : list nat) : forall t : tensor R, wf t -> wf (fold_left (fun acc a => tsum Rops (Some a) acc) l t).
Proof. induction l as [|a l IH]; intros t Hw; [exact Hw|]. cbn [fold_left]. apply IH. apply wf_tsum. Qed.

(* ---------- the tuple-axis metrics = their definitions over the reduced box ---------- *)
Section Defs.
Context (axs : list nat) (yt yp : tensor R).
Hypothesis Wt : wf yt.
Hypothesis Wp : wf yp.
Hypothesis Sh : shape yp = shape yt.
Hypothesis Hnd : NoDup axs.
Hypothesis Hlt : forall a, In a axs -> (a < ndim yt)%nat.
Let l := sort_desc axs.
Let bx := box (shape yt) l.
Let J (idx : list nat) (K : nat) : list nat := scatter l (unravel bx K) idx.

Theorem MSE_axes_def idx : inb (rshape_axes l (shape yt)) idx ->
  tget Rops (MSE_axes Rops axs yt yp) idx =
  mean_of (prod bx) (fun K => (tget Rops yt (J idx K) - tget Rops yp (J idx K)) ^ 2) /\ prod bx = red_len_axes axs yt.
Proof.
  intros Hi. set (d := tmap (fsq Rops) (tzip Rops (fsub Rops) yt yp)).
  assert (Wd : wf d) by (apply wf_tmap, wf_tzip).
  assert (Sd : shape d = shape yt) by reflexivity.
  assert (Hlt' : forall a, In a axs -> (a < ndim d)%nat) by (intros a Ha; unfold ndim; rewrite Sd; now apply Hlt).
  split; [|exact (prod_bx_red_len axs yt)].
  unfold MSE_axes, tmean_axes. fold d.
  rewrite tget_tmap; [| unfold tsum_axes; now apply wf_fold_tsum | rewrite (shape_tsum_axes axs d), Sd; exact Hi].
  rewrite (tsum_axes_closed axs d Hnd Hlt' idx) by (rewrite Sd; exact Hi). rewrite Sd. fold l bx.
  rewrite nat2F_INR. unfold mean_of. cbn [fdiv Rops].
  replace (red_len_axes axs d) with (prod bx).
  2:{ unfold bx, l. rewrite (prod_bx_red_len axs yt). unfold red_len_axes. now rewrite Sd. }
  f_equal. apply rsum_ext. intros K HK.
  assert (HJ : inb (shape yt) (J idx K)) by (apply closed_index_inb; assumption).
  unfold d. rewrite tget_tmap; [| apply wf_tzip | exact HJ]. rewrite tget_tzip by exact HJ.
  unfold fsq. cbn [fmul fsub Rops]. fold (J idx K). ring.
Qed.

Theorem RMSE_axes_def idx : inb (rshape_axes l (shape yt)) idx ->
  tget Rops (RMSE_axes Rops sqrt axs yt yp) idx =
  sqrt (mean_of (prod bx) (fun K => (tget Rops yt (J idx K) - tget Rops yp (J idx K)) ^ 2)).
Proof.
  intros Hi. unfold RMSE_axes. rewrite tget_tmap.
  - now rewrite (proj1 (MSE_axes_def idx Hi)).
  - unfold MSE_axes, tmean_axes. apply wf_tmap. unfold tsum_axes. apply wf_fold_tsum. apply wf_tmap, wf_tzip.
  - unfold MSE_axes, tmean_axes. change (shape (tmap ?f ?x)) with (shape x). rewrite shape_tsum_axes. exact Hi.
Qed.

Theorem reflective_axes_def_bound idx : inb (rshape_axes l (shape yt)) idx ->
  let n := prod bx in
  let f := fun K => tget Rops yt (J idx K) in let g := fun K => tget Rops yp (J idx K) in
  tget Rops (reflective_correlation_axes Rops sqrt axs yt yp) idx =
    rsum n (fun K => f K * g K) / sqrt (rsum n (fun K => f K ^ 2) * rsum n (fun K => g K ^ 2)) /\
  (0 < rsum n (fun K => f K ^ 2) * rsum n (fun K => g K ^ 2) ->
   Rabs (tget Rops (reflective_correlation_axes Rops sqrt axs yt yp) idx) <= 1).
Proof.
  intros Hi n f g.
  assert (Hltp : forall a, In a axs -> (a < ndim yp)%nat) by (intros a Ha; unfold ndim; rewrite Sh; now apply Hlt).
  assert (HJ : forall K, (K < n)%nat -> inb (shape yt) (J idx K)) by (intros K HK; apply closed_index_inb; assumption).
  assert (E : tget Rops (reflective_correlation_axes Rops sqrt axs yt yp) idx =
              rsum n (fun K => f K * g K) / sqrt (rsum n (fun K => f K ^ 2) * rsum n (fun K => g K ^ 2))).
  { unfold reflective_correlation_axes. rewrite ratio_parts_get.
    - unfold refl_parts_axes. cbn [fst snd].
      rewrite tget_tzip by (rewrite shape_tsum_axes; exact Hi).
      rewrite (tsum_axes_closed axs (tzip Rops (fmul Rops) yt yp)) by (try assumption; exact Hi).
      rewrite (tsum_axes_closed axs (tmap (fsq Rops) yt)) by (try assumption; exact Hi).
      rewrite (tsum_axes_closed axs (tmap (fsq Rops) yp)) by (try assumption; cbn [tmap shape]; rewrite Sh; exact Hi).
      cbn [tmap tzip shape]. unfold tzip. cbn [shape]. rewrite Sh. fold l bx n. change (fmul Rops) with Rmult.
      f_equal; [| f_equal; f_equal].
      + apply rsum_ext. intros K HK. fold (J idx K). rewrite tget_tabulate by (apply HJ; exact HK). reflexivity.
      + apply rsum_ext. intros K HK. fold (J idx K). rewrite tget_tmap; [| exact Wt | apply HJ; exact HK]. unfold fsq, f. cbn [fmul Rops]. ring.
      + apply rsum_ext. intros K HK. fold (J idx K). rewrite tget_tmap; [| exact Wp | rewrite Sh; apply HJ; exact HK]. unfold fsq, g. cbn [fmul Rops]. ring.
    - unfold refl_parts_axes. cbn [snd]. apply wf_tzip.
    - unfold refl_parts_axes. cbn [fst snd]. unfold tzip at 1. cbn [shape]. rewrite !shape_tsum_axes. reflexivity.
    - unfold refl_parts_axes. cbn [fst]. rewrite shape_tsum_axes. exact Hi. }
  split; [exact E|]. intros Hpos. rewrite E. apply ratio_abs_le_1; [exact Hpos | apply cauchy_schwarz].
Qed.
End Defs.
