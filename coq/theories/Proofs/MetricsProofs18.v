(* Lemmas for C20, part 18: cp_permute_factors with its cp_copy / cp_normalize glue (Model/MetricsPermute.v; cp_normalize is
   C04's model Model/Transforms.v, whose lemmas Proofs/TransformsProofs*.v are used read-only).
   (a) whenever the call succeeds, every returned tensor is the ORIGINAL (copied) tensor -- un-normalised weights and factors --
       permuted by the matching computed from the compared factors; a list is treated tensor by tensor; the call fails iff
       the congruence of one compared pair fails;
   (b) every compared (normalised) factor is the input factor with column i multiplied by a scalar c_i: c_i = w_i / s_i for
       factor 0 and 1 / s_i for the others (s_i = the recorded norm, 1 if it is 0): non-zero exactly when (factor 0) w_i <> 0.
       With C20_congruence_matrix_rescale_invariant: for non-zero weights the normalisation changes no entry of the
       congruence matrix; a ZERO weight gives a zero column, which congruence_coefficient rejects;
   (c) hence the list form and the single form differ: witness (executed instance). *)
From Coq Require Import List Arith Lia Bool Reals Lra QArith.
From TLV Require Import Base.Shape Base.PyList Base.Tensor Base.Ops Model.Metrics Model.MetricsSrc Model.MetricsPermute Proofs.MetricsProofs.
From TLV Require Model.Transforms Proofs.TransformsProofs Proofs.TransformsProofsR.
Import ListNotations.
Local Close Scope Q_scope.
Local Open Scope R_scope.

Section Spec.
Context {F : Type} (Op : fops F).

(* ---------- (a) ---------- *)
Definition one_spec (ref : ptensor F) (nrm : bool) (assign : mat F -> list nat) (t : ptensor F)
  (out : list F * list (mat F) * list nat) : Prop :=
  exists v, congruence Op true (compared Op true ref) (compared Op nrm t) (pcong ref) (pcong t) assign = Ok (v, snd out) /\
            fst out = cp_permute Op (snd out) (pw t) (pfs t).

Lemma cpf_one_spec ref nrm t assign out : cpf_one Op ref nrm t assign = Ok out -> one_spec ref nrm assign t out.
Proof.
  unfold cpf_one, one_spec. destruct (congruence Op true _ _ _ _ assign) as [[v p]|]; [|discriminate].
  intros H. inversion H; subst. exists v. split; reflexivity.
Qed.

Lemma cpf_list_spec ref nrm assign : forall ts outs, cpf_list Op ref nrm ts assign = Ok outs -> Forall2 (one_spec ref nrm assign) ts outs.
Proof.
  induction ts as [|t ts IH]; intros outs H; cbn [cpf_list] in H; [inversion H; constructor|].
  destruct (cpf_one Op ref nrm t assign) as [x|] eqn:E1; [|discriminate].
  destruct (cpf_list Op ref nrm ts assign) as [xs|] eqn:E2; [|discriminate].
  inversion H; subst. constructor; [now apply cpf_one_spec | now apply IH].
Qed.

Lemma cpf_list_err ref nrm assign : forall ts, cpf_list Op ref nrm ts assign = Err <-> exists t, In t ts /\ cpf_one Op ref nrm t assign = Err.
Proof.
  induction ts as [|t ts IH]; cbn [cpf_list]; [split; [discriminate | intros (t & [] & _)]|].
  destruct (cpf_one Op ref nrm t assign) as [x|] eqn:E1.
  - destruct (cpf_list Op ref nrm ts assign) as [xs|] eqn:E2.
    + split; [discriminate|]. intros (t' & [<-|Hin] & Ht'); [congruence|].
      assert (K : @Ok (list (list F * list (mat F) * list nat)) xs = Err) by (apply IH; exists t'; split; assumption). discriminate.
    + split; [|reflexivity]. intros _. destruct (proj1 IH eq_refl) as (t' & Hin & Ht'). exists t'. split; [now right | exact Ht'].
  - split; [|reflexivity]. intros _. exists t. split; [now left | exact E1].
Qed.

Definition arg_tensors (a : parg F) : bool * list (ptensor F) := match a with PSingle t => (false, [t]) | PList ts => (true, ts) end.

Theorem cp_permute_full_spec ref arg assign :
  let nrm := fst (arg_tensors arg) in let ts := snd (arg_tensors arg) in
  match cp_permute_factors_full Op ref arg assign with
  | Ok outs => Forall2 (one_spec ref nrm assign) ts outs
  | Err => exists t, In t ts /\
             congruence Op true (compared Op true ref) (compared Op nrm t) (pcong ref) (pcong t) assign = Err
  end.
Proof.
  destruct arg as [t|ts]; cbn [arg_tensors fst snd cp_permute_factors_full].
  - destruct (cpf_list Op ref false [t] assign) as [outs|] eqn:E; [now apply cpf_list_spec|].
    apply cpf_list_err in E. destruct E as (t' & Hin & Ht'). exists t'. split; [exact Hin|].
    unfold cpf_one in Ht'. destruct (congruence Op true _ _ _ _ assign) as [[v p]|]; [discriminate | reflexivity].
  - destruct (cpf_list Op ref true ts assign) as [outs|] eqn:E; [now apply cpf_list_spec|].
    apply cpf_list_err in E. destruct E as (t' & Hin & Ht'). exists t'. split; [exact Hin|].
    unfold cpf_one in Ht'. destruct (congruence Op true _ _ _ _ assign) as [[v p]|]; [discriminate | reflexivity].
Qed.

(* source tie: the meaning of the canonical decision record of cp_permute_factors IS the full model, for all inputs *)
Lemma cpf_one_src_canonical ref nrm t assign : cpf_one_src Op canonical_pp ref nrm t assign = cpf_one Op ref nrm t assign.
Proof. reflexivity. Qed.
Lemma cpf_list_src_canonical ref nrm assign : forall ts, cpf_list_src Op canonical_pp ref nrm ts assign = cpf_list Op ref nrm ts assign.
Proof. induction ts as [|t ts IH]; [reflexivity|]. cbn [cpf_list_src cpf_list]. now rewrite IH, cpf_one_src_canonical. Qed.
Theorem cp_permute_full_src_canonical ref arg assign :
  cp_permute_factors_full_src Op canonical_pp ref arg assign = cp_permute_factors_full Op ref arg assign.
Proof. destruct arg; cbn [cp_permute_factors_full_src cp_permute_factors_full pp_norm_list canonical_pp]; apply cpf_list_src_canonical. Qed.

(* the compared factors of the tensor passed ALONE are its own factors: nothing is normalised *)
Lemma compared_single (t : ptensor F) : compared Op false t = pfs t.
Proof. reflexivity. Qed.
End Spec.

(* ---------- (b) ---------- *)
Import Transforms.
Lemma norm_loop_factors (tape : list (list R)) : forall (fs : list (mat R)) w j, (j < length fs)%nat -> (j < length tape)%nat ->
  nth j (snd (norm_loop Rops tape fs w)) [] = div_cols Rops (nth j fs []) (map (nz1 Rops) (nth j tape [])).
Proof.
  induction tape as [|sc tape IH]; intros fs w j Hf Ht; [cbn in Ht; lia|].
  destruct fs as [|A fs]; [cbn in Hf; lia|]. cbn [norm_loop].
  destruct (norm_loop Rops tape fs (zipw (fmul Rops) w sc)) as [wf out] eqn:E. cbn [snd].
  destruct j as [|j]; [reflexivity|]. cbn [nth]. cbn [length] in Hf, Ht.
  specialize (IH fs (zipw (fmul Rops) w sc) j ltac:(lia) ltac:(lia)). rewrite E in IH. exact IH.
Qed.

Theorem compared_factor_entry (t : ptensor R) j k i : (j < length (pfs t))%nat -> (j < length (pnorm t))%nat ->
  (i < length (nth j (pnorm t) []))%nat ->
  let s := nz1 Rops (vget Rops (nth j (pnorm t) []) i) in
  let c := (if Nat.eqb j 0 then vget Rops (pw t) i else 1) / s in
  Metrics.mget Rops (nth j (compared Rops true t) []) k i = c * Metrics.mget Rops (nth j (pfs t) []) k i /\
  s <> 0 /\ (c <> 0 <-> (j = 0%nat -> vget Rops (pw t) i <> 0)).
Proof.
  intros Hf Ht Hi s c. unfold compared, cp_normalize.
  assert (Hs : s <> 0).
  { unfold s. rewrite TransformsProofsR.nz1_R. destruct (Req_EM_T _ 0); [lra | assumption]. }
  split; [|split; [exact Hs|]].
  - rewrite norm_loop_factors; [| unfold norm_inputs; destruct (pfs t); cbn [length] in *; [lia | exact Hf] | exact Ht].
    change (Metrics.mget Rops ?M k i) with (mget Rops M k i). rewrite TransformsProofsR.mget_div_cols.
    assert (Ev : vget Rops (map (nz1 Rops) (nth j (pnorm t) [])) i = s).
    { unfold s, vget. cbn [f0 Rops]. rewrite (nth_indep _ 0 (nz1 Rops 0)) by (now rewrite map_length). apply map_nth. }
    rewrite Ev. unfold c, norm_inputs. destruct (pfs t) as [|A0 rest]; [cbn in Hf; lia|].
    destruct j as [|j]; cbn [Nat.eqb nth].
    + rewrite (TransformsProofs.mget_scale_cols Rops TransformsProofsR.Rops_ring). cbn [fmul Rops]. field; exact Hs.
    + unfold Rdiv. rewrite Rmult_1_l. apply Rmult_comm.
  - unfold c. destruct (Nat.eqb j 0) eqn:Ej.
    + apply Nat.eqb_eq in Ej. split.
      * intros Hc _ Hw. apply Hc. rewrite Hw. unfold Rdiv. ring.
      * intros Hw. specialize (Hw Ej). unfold Rdiv. apply Rmult_integral_contrapositive_currified; [exact Hw | now apply Rinv_neq_0_compat].
    + apply Nat.eqb_neq in Ej. split; [intros _ Hj; contradiction|]. intros _. unfold Rdiv. rewrite Rmult_1_l. now apply Rinv_neq_0_compat.
Qed.

(* ---------- (c) the list form rejects what the single form accepts: a zero weight in the tensor to permute ---------- *)
Local Open Scope Q_scope.
Definition wit_ref : ptensor Q := mkPT [1; 1] [[[3; 0]; [4; 1]]] [[5; 1]] [[1; 1]].
Definition wit_t (nrm : bool) : ptensor Q :=
  mkPT [0; 2] [[[0; 3]; [1; 4]]] [[0; 10]] (if nrm then [[0; 1]] else [[1; 5]]).
Theorem cp_permute_list_vs_single_refuted :
  cp_permute_factors_full Qops wit_ref (PSingle (wit_t false)) (fun _ => [1; 0]%nat) = Ok [([2; 0], [[[3; 0]; [4; 1]]], [1; 0]%nat)] /\
  cp_permute_factors_full Qops wit_ref (PList [wit_t true]) (fun _ => [1; 0]%nat) = Err.
Proof. split; vm_compute; reflexivity. Qed.

(* ---------- (d) per mode: the compared (normalised) pair of factors is a non-zero column rescaling of the original pair as soon
   as no absorbed weight is zero -- exactly the premise `rescaled` + `scaling_ok true` of the invariance theorems of
   Proofs/MetricsProofs10.v (cosine_rescaled, cong_one_rescaled, cong_all_rescaled, optimal_matching_rescaled) ---------- *)
From TLV Require Import Proofs.MetricsProofs10.
Local Close Scope Q_scope.
Local Open Scope R_scope.

Lemma nrows_compared (t : ptensor R) k : (k < length (pfs t))%nat -> (k < length (pnorm t))%nat ->
  nrows (nth k (compared Rops true t) []) = nrows (nth k (pfs t) []).
Proof.
  intros Hf Ht. unfold compared, cp_normalize.
  rewrite norm_loop_factors; [| unfold norm_inputs; destruct (pfs t); cbn [length] in *; [lia | exact Hf] | exact Ht].
  unfold nrows, div_cols. rewrite map_length. unfold norm_inputs. destruct (pfs t) as [|A0 rest]; [cbn in Hf; lia|].
  destruct k; [|reflexivity]. cbn [nth]. unfold scale_cols. now rewrite map_length.
Qed.

Theorem compared_mode_rescaled (ref t : ptensor R) (k r : nat) (na nb na' nb' : list R) :
  (k < length (pfs ref))%nat -> (k < length (pnorm ref))%nat -> (k < length (pfs t))%nat -> (k < length (pnorm t))%nat ->
  length (nth k (pnorm ref) []) = r -> length (nth k (pnorm t) []) = r ->
  (k = 0%nat -> forall i, (i < r)%nat -> vget Rops (pw ref) i <> 0 /\ vget Rops (pw t) i <> 0) ->
  let m := mkMode (nth k (pfs ref) []) (nth k (pfs t) []) na nb in
  let m' := mkMode (nth k (compared Rops true ref) []) (nth k (compared Rops true t) []) na' nb' in
  exists a b, rescaled r m m' a b /\ scaling_ok true r a b.
Proof.
  intros Hfr Htr Hft Htt Lr Lt Hw m m'.
  exists (fun i => (if Nat.eqb k 0 then vget Rops (pw ref) i else 1) / nz1 Rops (vget Rops (nth k (pnorm ref) []) i)),
         (fun i => (if Nat.eqb k 0 then vget Rops (pw t) i else 1) / nz1 Rops (vget Rops (nth k (pnorm t) []) i)).
  split.
  - unfold rescaled, m, m'. cbn [mA mB]. split; [now apply nrows_compared|]. split.
    + intros q i _ Hi. destruct (compared_factor_entry ref k q i Hfr Htr ltac:(lia)) as (E & _). exact E.
    + intros q j _ Hj. destruct (compared_factor_entry t k q j Hft Htt ltac:(lia)) as (E & _). exact E.
  - intros i Hi.
    destruct (compared_factor_entry ref k 0 i Hfr Htr ltac:(lia)) as (_ & _ & Ca).
    destruct (compared_factor_entry t k 0 i Hft Htt ltac:(lia)) as (_ & _ & Cb).
    split; [apply Ca; intros E; now apply (Hw E i Hi)|]. split; [apply Cb; intros E; now apply (Hw E i Hi) | discriminate].
Qed.
