(* Lemmas for C20, part 19: taking the absolute value AFTER the product over modes (one abs of the product matrix) gives the same
   congruence matrix as taking it mode by mode before the product (what the code does): |prod_m c_m| = prod_m |c_m|.  This is
   what allows the source-tie executor to accept that refactoring as the canonical decision record. *)
From Coq Require Import List Arith Lia Bool Reals Lra.
From TLV Require Import Base.Shape Base.PyList Base.Tensor Base.Ops Base.RSum Model.Metrics Proofs.MetricsProofs.
Import ListNotations.
Local Open Scope R_scope.

Lemma Rabs_fold_mult l : Rabs (fold_left Rmult l 1) = fold_left Rmult (map Rabs l) 1.
Proof.
  induction l as [|x l IH]; cbn [fold_left map]; [apply Rabs_R1|].
  rewrite (fold_Rmult_acc l (1 * x)), (fold_Rmult_acc (map Rabs l) (1 * Rabs x)), Rabs_mult, IH, !Rmult_1_l. reflexivity.
Qed.

Theorem abs_after_product r (ms : list (cmode R)) i j : Forall (mode_ok r) ms -> (i < r)%nat -> (j < r)%nat ->
  mget Rops (mabs Rops (cong_all Rops false r ms)) i j = mget Rops (cong_all Rops true r ms) i j.
Proof.
  intros Hms Hi Hj. unfold mabs. rewrite nrows_cong_all.
  assert (Hc : ncols (cong_all Rops false r ms) = r).
  { unfold cong_all. destruct ms as [|m ms]; cbn [fold_left]; [apply ncols_mtab; lia|].
    assert (H : forall l acc, ncols acc = r -> ncols (fold_left (fun a m => hadamard Rops r a (cong_one Rops false m)) l acc) = r).
    { induction l as [|x l IH]; intros acc Hacc; cbn [fold_left]; [exact Hacc|]. apply IH. apply ncols_mtab. lia. }
    apply H. apply ncols_mtab. lia. }
  rewrite Hc, mget_mtab by assumption. rewrite fabs_Rabs, !cong_all_entry by assumption. unfold entry_prod.
  rewrite Rabs_fold_mult, map_map. f_equal. apply map_ext_in. intros m Hm.
  rewrite Forall_forall in Hms. rewrite !(cong_one_entry _ r) by (try apply Hms; assumption). reflexivity.
Qed.
