(* Lemmas for C20, part 2: column-permuted / column-rescaled copies.  If column j of B is a non-zero multiple of
   column i of A then their cosine is +-1; hence for equivalent factor sets the recovering permutation has mean
   congruence 1, the coefficient returned under the oracle contract is 1, and EVERY matching of value 1 pairs
   collinear columns in every mode (alignment after cp_permute_factors). *)
From Coq Require Import List Arith Lia Bool Permutation Reals Lra Psatz.
From TLV Require Import Base.Shape Base.PyList Base.Tensor Base.Ops Base.RSum Model.Metrics Proofs.MetricsProofs.
Import ListNotations.
Local Open Scope R_scope.

(* column j of (mB m) is d times column i of (mA m), d <> 0 *)
Definition col_multiple (m : cmode R) (i j : nat) (d : R) : Prop :=
  d <> 0 /\ forall k, (k < nrows (mA m))%nat -> mget Rops (mB m) k j = d * mget Rops (mA m) k i.

Lemma pos_sq_eq x y : 0 < x -> 0 < y -> x ^ 2 = y ^ 2 -> x = y.
Proof. intros Hx Hy H. nra. Qed.

Lemma cosine_of_multiple r (m : cmode R) i j d : mode_ok r m -> (i < r)%nat -> (j < r)%nat ->
  col_multiple m i j d -> cosine m i j = d / Rabs d.
Proof.
  intros (Ha & Hb & Hn & Va & Vb) Hi Hj (Hd & Hc).
  destruct (Va i ltac:(lia)) as (Pa & Ea). destruct (Vb j ltac:(lia)) as (Pb & Eb).
  rewrite col_sq_rsum in Ea, Eb. rewrite <- Hn in Eb.
  set (na := nth i (nA m) 0) in *. set (nb := nth j (nB m) 0) in *.
  set (S := rsum (nrows (mA m)) (fun k => (mget Rops (mA m) k i) ^ 2)) in *.
  assert (Eb' : nb ^ 2 = d ^ 2 * S).
  { rewrite Eb. unfold S. rewrite <- rsum_scale. apply rsum_ext. intros k Hk. rewrite Hc by exact Hk. ring. }
  assert (Had : 0 < Rabs d) by (apply Rabs_pos_lt; exact Hd).
  assert (Enb : nb = Rabs d * na).
  { apply pos_sq_eq; [exact Pb | nra |]. rewrite Eb', <- Ea. rewrite Rpow_mult_distr. rewrite <- (Rsqr_abs d) || idtac.
    replace (Rabs d ^ 2) with (d ^ 2); [ring|]. rewrite <- !Rsqr_pow2. apply Rsqr_abs. }
  unfold cosine. fold na nb.
  rewrite (rsum_ext _ _ (fun k => d / (na * nb) * (mget Rops (mA m) k i) ^ 2)).
  2:{ intros k Hk. rewrite Hc by exact Hk. field. split; lra. }
  rewrite rsum_scale. fold S. rewrite <- Ea. rewrite Enb. field. split; lra.
Qed.

Lemma Rabs_sign_one d : d <> 0 -> Rabs (d / Rabs d) = 1.
Proof.
  intros Hd. assert (0 < Rabs d) by (apply Rabs_pos_lt; exact Hd).
  unfold Rdiv. rewrite Rabs_mult, Rabs_inv, Rabs_Rabsolu. field. lra.
Qed.

Lemma sign_pos_one d : 0 < d -> d / Rabs d = 1.
Proof. intros Hd. rewrite Rabs_right by lra. field. lra. Qed.

(* the congruence entry of a pair of collinear columns is 1 (with absolute values, or for positive multiples) *)
Lemma cong_one_multiple absv r (m : cmode R) i j d : mode_ok r m -> (i < r)%nat -> (j < r)%nat ->
  col_multiple m i j d -> (absv = false -> 0 < d) -> mget Rops (cong_one Rops absv m) i j = 1.
Proof.
  intros Hm Hi Hj Hc Hs. rewrite (cong_one_entry absv r) by assumption.
  rewrite (cosine_of_multiple r m i j d) by assumption. destruct absv.
  - apply Rabs_sign_one. apply Hc.
  - apply sign_pos_one. now apply Hs.
Qed.

Definition pair_equiv (absv : bool) (ms : list (cmode R)) (i j : nat) : Prop :=
  forall m, In m ms -> exists d, col_multiple m i j d /\ (absv = false -> 0 < d).

Lemma entry_prod_multiple absv r ms i j : Forall (mode_ok r) ms -> (i < r)%nat -> (j < r)%nat ->
  pair_equiv absv ms i j -> entry_prod absv ms i j = 1.
Proof.
  intros Hms Hi Hj He. unfold entry_prod. induction Hms as [|m ms Hm Hms IH]; cbn [map fold_left]; [reflexivity|].
  rewrite fold_Rmult_acc, Rmult_1_l. rewrite IH by (intros m' Hm'; apply He; now right).
  destruct (He m (or_introl eq_refl)) as (d & Hc & Hs).
  rewrite (cong_one_multiple absv r m i j d) by assumption. ring.
Qed.

(* B is A with columns permuted by rec and rescaled:  column rec[i] of B is a non-zero multiple of column i of A *)
Definition equivalent_by (absv : bool) (r : nat) (ms : list (cmode R)) (rec : list nat) : Prop :=
  is_perm r rec /\ forall i, (i < r)%nat -> pair_equiv absv ms i (nth i rec 0%nat).

Lemma score_all_one r C p : (0 < r)%nat -> (forall i, (i < r)%nat -> mget Rops C i (nth i p 0%nat) = 1) -> score Rops r C p = 1.
Proof.
  intros Hr H. rewrite score_rsum. rewrite (rsum_ext _ _ (fun _ => 1)) by exact H. rewrite rsum_const.
  field. apply not_0_INR. lia.
Qed.

Theorem recovering_perm_score_one absv r ms rec : (0 < r)%nat -> Forall (mode_ok r) ms ->
  equivalent_by absv r ms rec -> score Rops r (cong_all Rops absv r ms) rec = 1.
Proof.
  intros Hr Hms (Hp & He). apply score_all_one; [exact Hr|]. intros i Hi.
  assert (Hj : (nth i rec 0 < r)%nat) by now apply is_perm_nth.
  rewrite cong_all_entry by assumption. apply (entry_prod_multiple absv r); auto.
Qed.

(* ---------- a mean of numbers <= 1 that equals 1: all are 1; same for a product of numbers in [0,1] ---------- *)
Lemma rsum_nonneg_zero n f : (forall i, (i < n)%nat -> 0 <= f i) -> rsum n f = 0 -> forall i, (i < n)%nat -> f i = 0.
Proof.
  induction n as [|n IH]; intros Hf Hs i Hi; [lia|]. cbn [rsum] in Hs.
  assert (H0 : 0 <= rsum n f) by (apply rsum_nonneg; intros; apply Hf; lia).
  assert (Hn : 0 <= f n) by (apply Hf; lia).
  destruct (Nat.eq_dec i n) as [->|Hne]; [lra|]. apply IH; [intros; apply Hf; lia | lra | lia].
Qed.

Lemma mean_one_all_one n f : (0 < n)%nat -> (forall i, (i < n)%nat -> f i <= 1) -> rsum n f / INR n = 1 ->
  forall i, (i < n)%nat -> f i = 1.
Proof.
  intros Hn Hf Hm i Hi. assert (Hp : 0 < INR n) by (apply lt_0_INR; exact Hn).
  assert (Hs : rsum n f = INR n).
  { apply (Rmult_eq_reg_r (/ INR n)); [|apply Rinv_neq_0_compat; lra]. fold (Rdiv (rsum n f) (INR n)). rewrite Hm. field. lra. }
  assert (Hz : rsum n (fun i => 1 - f i) = 0) by (rewrite rsum_sub, rsum_const, Hs; ring).
  pose proof (rsum_nonneg_zero n (fun i => 1 - f i) (fun k Hk => ltac:(specialize (Hf k Hk); lra)) Hz i Hi) as H. cbv beta in H. lra.
Qed.

Lemma prod01_range l : Forall (fun x => 0 <= x <= 1) l -> 0 <= fold_left Rmult l 1 <= 1.
Proof.
  induction 1 as [|x l Hx Hl IH]; cbn [fold_left]; [lra|]. rewrite fold_Rmult_acc, Rmult_1_l. nra.
Qed.

Lemma prod01_one l : Forall (fun x => 0 <= x <= 1) l -> fold_left Rmult l 1 = 1 -> Forall (fun x => x = 1) l.
Proof.
  induction 1 as [|x l Hx Hl IH]; cbn [fold_left]; intros E; [constructor|].
  rewrite fold_Rmult_acc, Rmult_1_l in E. pose proof (prod01_range l Hl) as Hr.
  assert (x = 1 /\ fold_left Rmult l 1 = 1) as (E1 & E2) by nra.
  constructor; [exact E1 | apply IH; exact E2].
Qed.

(* a matching of mean congruence 1 (absolute values) pairs columns of |cosine| = 1 in EVERY mode *)
Theorem score_one_aligned r ms p : (0 < r)%nat -> Forall (mode_ok r) ms -> is_perm r p ->
  score Rops r (cong_all Rops true r ms) p = 1 ->
  forall i m, (i < r)%nat -> In m ms -> Rabs (cosine m i (nth i p 0%nat)) = 1.
Proof.
  intros Hr Hms Hp Hs i m Hi Hm.
  assert (Hj : forall k, (k < r)%nat -> (nth k p 0 < r)%nat) by (intros; now apply is_perm_nth).
  rewrite score_rsum in Hs.
  assert (He : entry_prod true ms i (nth i p 0%nat) = 1).
  { rewrite <- cong_all_entry with (r := r) by auto.
    apply (mean_one_all_one r (fun k => mget Rops (cong_all Rops true r ms) k (nth k p 0%nat))); auto.
    intros k Hk. rewrite cong_all_entry by auto.
    destruct (entry_prod_range true r ms k (nth k p 0%nat) Hms Hk (Hj k Hk)) as (B & _). apply Rabs_le_inv' in B. lra. }
  unfold entry_prod in He.
  assert (Hall : Forall (fun x => 0 <= x <= 1) (map (fun m0 => mget Rops (cong_one Rops true m0) i (nth i p 0%nat)) ms)).
  { apply Forall_forall. intros x Hx. apply in_map_iff in Hx. destruct Hx as (m0 & <- & Hm0).
    rewrite Forall_forall in Hms.
    destruct (cong_one_range true r m0 i (nth i p 0%nat) (Hms m0 Hm0) Hi (Hj i Hi)) as (B & P).
    apply Rabs_le_inv' in B. specialize (P eq_refl). lra. }
  pose proof (prod01_one _ Hall He) as H1. rewrite Forall_forall in H1.
  specialize (H1 (mget Rops (cong_one Rops true m) i (nth i p 0%nat)) (in_map _ _ _ Hm)).
  rewrite Forall_forall in Hms. rewrite (cong_one_entry true r) in H1 by auto. exact H1.
Qed.

(* ---------- the entry point ---------- *)
Theorem congruence_equiv_one absv As Bs nas nbs assign v p rec :
  congruence Rops absv As Bs nas nbs assign = Ok (v, p) -> tape_valid (zip_modes As Bs nas nbs) -> lsa_contract assign ->
  let r := ncols (hd [] As) in let ms := zip_modes As Bs nas nbs in
  (0 < r)%nat -> equivalent_by absv r ms rec ->
  v = 1 /\ score Rops r (cong_all Rops absv r ms) rec = 1 /\ score Rops r (cong_all Rops absv r ms) p = 1 /\
  (absv = true -> forall i m, (i < r)%nat -> In m ms -> Rabs (cosine m i (nth i p 0%nat)) = 1).
Proof.
  intros H Ht Hc. cbv zeta. intros Hr He.
  destruct (congruence_inv _ _ _ _ _ _ _ _ H Ht) as (Hms & _ & _).
  pose proof (congruence_is_max _ _ _ _ _ _ _ _ H Hc) as Hmax. cbv zeta in Hmax. destruct Hmax as (Pp & Ev & _ & Hq).
  pose proof (recovering_perm_score_one absv _ _ rec Hr Hms He) as Hrec.
  destruct (congruence_range _ _ _ _ _ _ _ _ H Ht Pp) as ((_ & Hle) & _).
  assert (Hge : 1 <= v) by (rewrite <- Hrec; apply Hq; apply He).
  assert (Hv : v = 1) by lra.
  split; [exact Hv|]. split; [exact Hrec|]. split; [rewrite <- Ev; exact Hv|].
  intros -> i m Hi Hm. apply (score_one_aligned _ _ p Hr Hms Pp); auto. rewrite <- Ev. exact Hv.
Qed.

(* ---------- cp_permute_factors: the permuted tensor is column-wise aligned with the reference ---------- *)
Lemma permute_cols_get (p : list nat) (M : mat R) k i : (k < nrows M)%nat -> (i < length p)%nat ->
  mget Rops (permute_cols Rops p M) k i = mget Rops M k (nth i p 0%nat).
Proof.
  intros Hk Hi. unfold mget, permute_cols.
  rewrite (nth_map' _ _ _ []) by exact Hk.
  rewrite (nth_map' _ _ _ 0%nat) by exact Hi. reflexivity.
Qed.

Theorem cp_permute_aligned ref fs w nas nbs assign w' fs' p rec :
  cp_permute_factors Rops ref fs w nas nbs assign = Ok (w', fs', p) ->
  tape_valid (zip_modes ref fs nas nbs) -> lsa_contract assign ->
  let r := ncols (hd [] ref) in let ms := zip_modes ref fs nas nbs in
  (0 < r)%nat -> equivalent_by true r ms rec ->
  is_perm r p /\ w' = map (fun k => nth k w 0) p /\ fs' = map (permute_cols Rops p) fs /\
  (forall i m, (i < r)%nat -> In m ms -> Rabs (cosine m i (nth i p 0%nat)) = 1).
Proof.
  unfold cp_permute_factors. intros H Ht Hc. cbv zeta. intros Hr He.
  destruct (congruence Rops true ref fs nas nbs assign) as [[v p0]|] eqn:E; [|discriminate].
  unfold cp_permute in H. inversion H; subst. clear H.
  pose proof (congruence_is_max _ _ _ _ _ _ _ _ E Hc) as Hmax. cbv zeta in Hmax. destruct Hmax as (Pp & _).
  destruct (congruence_equiv_one _ _ _ _ _ _ _ _ rec E Ht Hc Hr He) as (_ & _ & _ & Hal).
  split; [exact Pp|]. split; [reflexivity|]. split; [reflexivity|]. exact (Hal eq_refl).
Qed.
