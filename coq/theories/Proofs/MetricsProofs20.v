(* Lemmas for C20, part 20: the axis argument in all its forms (Model/MetricsAxis.v): when a request is rejected, negative
   integers, one-element tuples, tuples in any order. *)
From Coq Require Import List Arith Lia Bool ZArith Permutation.
From TLV Require Import Base.Shape Base.PyList Base.Tensor Base.Ops Model.Metrics Model.MetricsAxis Proofs.MetricsProofs8
  Proofs.MetricsProofs14 Proofs.MetricsProofs15.
Import ListNotations.

Theorem resolve_axis_err_iff (m : metric) (a : axis_arg) (nd : nat) :
  resolve_axis m a nd = Err <->
  match a with
  | AxNone => False
  | AxInt z => ~ (- Z.of_nat nd <= z < Z.of_nat nd)%Z
  | AxTuple zs => takes_tuple m = false \/ norm_axes zs nd = Err
  end.
Proof.
  destruct a as [|z|zs]; cbn [resolve_axis].
  - split; [discriminate | intros []].
  - pose proof (norm_axis_spec z nd) as H. destruct (norm_axis z nd) as [k|].
    + split; [discriminate|]. intros K. exfalso. apply K. destruct H as (H & [(A & B)|(A & B)]); lia.
    + split; [intros _; lia | reflexivity].
  - destruct (takes_tuple m).
    + destruct (norm_axes zs nd); split; try discriminate; try reflexivity.
      * intros [K|K]; discriminate.
      * intros _. now right.
    + split; [intros _; now left | reflexivity].
Qed.

(* a negative integer axis and its non-negative twin are the same request *)
Theorem resolve_axis_negative (m : metric) (z : Z) (nd : nat) : (- Z.of_nat nd <= z < 0)%Z ->
  resolve_axis m (AxInt z) nd = resolve_axis m (AxInt (z + Z.of_nat nd)) nd /\
  resolve_axis m (AxInt z) nd = Ok (RedOne (Z.to_nat (z + Z.of_nat nd))).
Proof.
  intros H. cbn [resolve_axis]. unfold norm_axis.
  assert (E1 : ((0 <=? z) && (z <? Z.of_nat nd))%Z = false) by (apply andb_false_iff; left; apply Z.leb_gt; lia).
  assert (E2 : ((- Z.of_nat nd <=? z) && (z <? 0))%Z = true) by (apply andb_true_iff; split; [apply Z.leb_le | apply Z.ltb_lt]; lia).
  assert (E3 : ((0 <=? z + Z.of_nat nd) && (z + Z.of_nat nd <? Z.of_nat nd))%Z = true)
    by (apply andb_true_iff; split; [apply Z.leb_le | apply Z.ltb_lt]; lia).
  rewrite E1, E2, E3. split; reflexivity.
Qed.

Section V.
Context {F : Type} (Op : fops F) (sq : F -> F).

(* a one-element tuple is the integer axis, for the three metrics that take tuples; the others reject it *)
Theorem metric_value_singleton (m : metric) (z : Z) (yt yp : tensor F) :
  metric_value Op sq m (AxTuple [z]) yt yp = if takes_tuple m then metric_value Op sq m (AxInt z) yt yp else Err.
Proof.
  unfold metric_value. cbn [resolve_axis]. destruct (takes_tuple m) eqn:T; [|reflexivity].
  unfold norm_axes. cbn [norm_axes_list]. destruct (norm_axis z (ndim yt)) as [k|]; [|reflexivity].
  cbn [nodupb existsb negb andb]. destruct m; try discriminate; reflexivity.
Qed.

(* the order of a tuple is irrelevant: same verdict, same value *)
Lemma norm_axes_list_perm nd : forall zs zs', Permutation zs zs' ->
  match norm_axes_list zs nd, norm_axes_list zs' nd with
  | Ok l, Ok l' => Permutation l l'
  | Err, Err => True
  | _, _ => False
  end.
Proof.
  induction 1 as [| z zs zs' _ IH | z1 z2 zs | zs zs' zs'' _ IH1 _ IH2]; cbn [norm_axes_list].
  - constructor.
  - destruct (norm_axis z nd); [|exact I]. destruct (norm_axes_list zs nd), (norm_axes_list zs' nd); try exact IH; try exact I.
    now constructor.
  - destruct (norm_axis z1 nd), (norm_axis z2 nd), (norm_axes_list zs nd); try exact I. apply perm_swap.
  - destruct (norm_axes_list zs nd), (norm_axes_list zs' nd), (norm_axes_list zs'' nd); try contradiction; try exact I.
    eapply Permutation_trans; eassumption.
Qed.

Lemma nodupb_perm l l' : Permutation l l' -> nodupb l = nodupb l'.
Proof.
  intros H. destruct (nodupb l) eqn:E1, (nodupb l') eqn:E2; try reflexivity.
  - apply nodupb_NoDup in E1. assert (K : NoDup l') by (eapply Permutation_NoDup; eassumption). apply nodupb_NoDup in K. congruence.
  - apply nodupb_NoDup in E2. assert (K : NoDup l) by (eapply Permutation_NoDup; [apply Permutation_sym|]; eassumption).
    apply nodupb_NoDup in K. congruence.
Qed.

Theorem metric_value_tuple_order (m : metric) (zs zs' : list Z) (yt yp : tensor F) : Permutation zs zs' ->
  metric_value Op sq m (AxTuple zs) yt yp = metric_value Op sq m (AxTuple zs') yt yp.
Proof.
  intros H. unfold metric_value. cbn [resolve_axis]. destruct (takes_tuple m) eqn:T; [|reflexivity].
  unfold norm_axes. pose proof (norm_axes_list_perm (ndim yt) zs zs' H) as P.
  destruct (norm_axes_list zs (ndim yt)) as [l|], (norm_axes_list zs' (ndim yt)) as [l'|]; try contradiction; [|reflexivity].
  rewrite (nodupb_perm l l' P). destruct (nodupb l'); [|reflexivity]. f_equal.
  destruct (axes_order_irrelevant Op sq l l' yt yp P) as (A & B & D).
  destruct m; try discriminate; cbn [eval_many]; assumption.
Qed.
End V.
