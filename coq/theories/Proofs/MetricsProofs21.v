(* Lemmas for C20, part 21: WHAT A PASSING CASE MEANS, continued (Paramcoq transfer Q -> R as in part 16): the executed
   comparisons of correlation_index and of the certified congruence cases (leverage_score_dist uses Nat.max, outside the
   transferable fragment), transferred to the real-number
   model on the rational inputs of the case; so the range / simplex theorems apply to the IMPLEMENTATION's outputs up to the
   comparison tolerance. *)
From Coq Require Import List Arith Lia Bool ZArith QArith Qabs Reals Lra Qreals.
From Param Require Import Param.
From TLV Require Import Base.Shape Base.PyList Base.Tensor Base.Ops Base.RSum Base.Transfer Model.Metrics Proofs.MetricsProofs
  Proofs.MetricsProofs4 Proofs.MetricsProofs9 Proofs.MetricsProofs16.
From TLV Require Corr.C20 Corr.Common.
Import ListNotations.
Local Close Scope Q_scope.
Local Open Scope R_scope.

Parametricity Recursive correlation_index. Check correlation_index_R.

Lemma cmethod_R_refl (m : cmethod) : cmethod_R m m.
Proof. destruct m; constructor. Qed.
Lemma opt_cmethod_R_refl (m : option cmethod) : option_R cmethod cmethod cmethod_R m m.
Proof. destruct m; constructor. apply cmethod_R_refl. Qed.

Lemma correlation_index_transfer meth (ctol : Q) (f1 f2 : list (mat Q)) n1 n2 :
  correlation_index Rops meth (Q2R ctol) (map mapR f1) (map mapR f2) (map (map Q2R) n1) (map (map Q2R) n2) =
  match correlation_index Qops meth ctol f1 f2 n1 n2 with Ok v => Ok (Q2R v) | Err => Err end.
Proof.
  pose proof (correlation_index_R Q R QR Qops Rops ops_rel meth meth (opt_cmethod_R_refl meth) ctol (Q2R ctol) (QR_refl ctol)
                f1 (map mapR f1) (mats_R_of_map f1) f2 (map mapR f2) (mats_R_of_map f2)
                n1 (map (map Q2R) n1) (list_list_R_of_map n1) n2 (map (map Q2R) n2) (list_list_R_of_map n2)) as H.
  destruct H as [x1 x2 Hx|]; [|reflexivity]. unfold QR in Hx. now rewrite Hx.
Qed.

(* a passing correlation_index case: the model over R accepts the mapped inputs with a value vm, and the implementation's value
   is within 1e-9 (1 + |v| + |vm|) of it *)
Theorem agree_corridx_sound meth ctol (f1 f2 : list (mat Q)) n1 n2 (v : Q) :
  C20.agree_corridx meth ctol f1 f2 n1 n2 (Ok v) = true ->
  exists vm : R, correlation_index Rops meth (Q2R ctol) (map mapR f1) (map mapR f2) (map (map Q2R) n1) (map (map Q2R) n2) = Ok vm /\
    Rabs (Q2R v - vm) <= / 10 ^ 9 * (1 + Rabs (Q2R v) + Rabs vm).
Proof.
  intros H. unfold C20.agree_corridx in H. pose proof (correlation_index_transfer meth ctol f1 f2 n1 n2) as T.
  destruct (correlation_index Qops meth ctol f1 f2 n1 n2) as [vm|]; [|discriminate].
  rewrite !andb_true_iff in H. destruct H as (_ & Hc). exists (Q2R vm). split; [exact T|]. now apply qclose_R.
Qed.

(* the certified congruence cases (ranks up to 14) *)
Theorem agree_cong_dual_sound absv (As Bs : list (mat Q)) nas nbs vs brute (v : Q) (p : list nat) :
  C20.agree_cong_dual absv As Bs nas nbs vs brute (Ok (v, p)) = true ->
  exists (r : nat) (Cq : mat Q), let C := mapR Cq in
    cong_matrix Rops absv (map mapR As) (map mapR Bs) (map (map Q2R) nas) (map (map Q2R) nbs) = Ok (r, C) /\
    Rabs (Q2R v - score Rops r C p) <= / 10 ^ 9 * (1 + Rabs (Q2R v) + Rabs (score Rops r C p)) /\
    ((0 < r)%nat -> is_perm r p /\ forall q, is_perm r q -> score Rops r C q <= score Rops r C p + / 10 ^ 9 + / 2 ^ 80).
Proof.
  intros H. unfold C20.agree_cong_dual in H. pose proof (cong_matrix_transfer absv As Bs nas nbs) as T.
  destruct (cong_matrix Qops absv As Bs nas nbs) as [[r Cq]|]; [|discriminate].
  rewrite !andb_true_iff in H. destruct H as ((((_ & _) & Hc) & _) & Hv).
  exists r, Cq. cbv zeta. split; [exact T|]. split.
  - apply qclose_R in Hv. now rewrite score_transfer in Hv.
  - intros Hr. exact (certified_on_sound r Cq p vs Hr Hc).
Qed.
