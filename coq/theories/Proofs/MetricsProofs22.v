(* Lemmas for C20, part 22: the cp_normalize calls inside cp_permute_factors do not change the congruence matrix when no weight
   is zero -- assembled over the whole list of modes from the per-mode statement (part 18) and the invariance under column
   rescaling (part 10). *)
From Coq Require Import List Arith Lia Bool Reals Lra.
From TLV Require Import Base.Shape Base.PyList Base.Tensor Base.Ops Model.Metrics Model.MetricsPermute Proofs.MetricsProofs
  Proofs.MetricsProofs10 Proofs.MetricsProofs18.
From TLV Require Model.Transforms Proofs.TransformsProofsR.
Import ListNotations.
Local Open Scope R_scope.

Definition mode_at (As Bs : list (mat R)) (nas nbs : list (list R)) (k : nat) : cmode R :=
  mkMode (nth k As []) (nth k Bs []) (nth k nas []) (nth k nbs []).

Lemma Forall2_zip_modes (P : cmode R -> cmode R -> Prop) : forall n (As Bs : list (mat R)) nas nbs (As' Bs' : list (mat R)) nas' nbs',
  length As = n -> length Bs = n -> length nas = n -> length nbs = n ->
  length As' = n -> length Bs' = n -> length nas' = n -> length nbs' = n ->
  (forall k, (k < n)%nat -> P (mode_at As Bs nas nbs k) (mode_at As' Bs' nas' nbs' k)) ->
  Forall2 P (zip_modes As Bs nas nbs) (zip_modes As' Bs' nas' nbs').
Proof.
  induction n as [|n IH]; intros As Bs nas nbs As' Bs' nas' nbs' L1 L2 L3 L4 L5 L6 L7 L8 H.
  - destruct As; [|discriminate]. destruct As'; [|discriminate]. constructor.
  - destruct As as [|A As]; [discriminate|]. destruct Bs as [|B Bs]; [discriminate|].
    destruct nas as [|na nas]; [discriminate|]. destruct nbs as [|nb nbs]; [discriminate|].
    destruct As' as [|A' As']; [discriminate|]. destruct Bs' as [|B' Bs']; [discriminate|].
    destruct nas' as [|na' nas']; [discriminate|]. destruct nbs' as [|nb' nbs']; [discriminate|].
    cbn [zip_modes]. constructor.
    + exact (H 0%nat ltac:(lia)).
    + apply IH; cbn [length] in *; try lia. intros k Hk. exact (H (S k) ltac:(lia)).
Qed.

(* reference ref and tensor t, both normalised (the list branch); nas / nbs = norm tapes of the ORIGINAL factors *)
Theorem normalisation_keeps_congruence_matrix (ref t : ptensor R) (r n : nat) (nas nbs : list (list R)) :
  length (pfs ref) = n -> length (pfs t) = n -> length (pnorm ref) = n -> length (pnorm t) = n ->
  length (pcong ref) = n -> length (pcong t) = n -> length nas = n -> length nbs = n ->
  (forall k, (k < n)%nat -> length (nth k (pnorm ref) []) = r /\ length (nth k (pnorm t) []) = r) ->
  (forall i, (i < r)%nat -> Transforms.vget Rops (pw ref) i <> 0 /\ Transforms.vget Rops (pw t) i <> 0) ->
  (forall k, (k < n)%nat -> mode_ok r (mode_at (pfs ref) (pfs t) nas nbs k) /\
                            mode_ok r (mode_at (compared Rops true ref) (compared Rops true t) (pcong ref) (pcong t) k)) ->
  let ms := zip_modes (pfs ref) (pfs t) nas nbs in
  let ms' := zip_modes (compared Rops true ref) (compared Rops true t) (pcong ref) (pcong t) in
  modes_rescaled true r ms ms' /\
  forall i j, (i < r)%nat -> (j < r)%nat -> mget Rops (cong_all Rops true r ms') i j = mget Rops (cong_all Rops true r ms) i j.
Proof.
  intros L1 L2 L3 L4 L5 L6 L7 L8 Hlen Hw Hok ms ms'.
  assert (Lc : forall u : ptensor R, length (pfs u) = n -> length (pnorm u) = n -> length (compared Rops true u) = n).
  { intros u Hu Hv. unfold compared, Transforms.cp_normalize.
    assert (G : forall tape fs w, length tape = length fs -> length (snd (Transforms.norm_loop Rops tape fs w)) = length fs).
    { induction tape as [|sc tape IH]; intros fs w E; destruct fs as [|A fs]; try discriminate; [reflexivity|].
      cbn [Transforms.norm_loop]. destruct (Transforms.norm_loop Rops tape fs (Transforms.zipw (fmul Rops) w sc)) as [wf out] eqn:E2.
      assert (E' : length tape = length fs) by (cbn [length] in E; lia).
      cbn [snd length]. f_equal. specialize (IH fs (Transforms.zipw (fmul Rops) w sc) E').
      now rewrite E2 in IH. }
    assert (N : length (Transforms.norm_inputs Rops (pw u) (pfs u)) = length (pfs u)).
    { unfold Transforms.norm_inputs. destruct (pfs u); reflexivity. }
    rewrite G; rewrite N; lia. }
  assert (M : modes_rescaled true r ms ms').
  { unfold modes_rescaled, ms, ms'. apply (Forall2_zip_modes _ n); try assumption; try (apply Lc; assumption).
    intros k Hk. destruct (Hok k Hk) as (O1 & O2). split; [exact O1|]. split; [exact O2|].
    destruct (Hlen k Hk) as (E1 & E2).
    apply (compared_mode_rescaled ref t k r); try lia; try assumption. intros _ i Hi. now apply Hw. }
  split; [exact M|]. intros i j Hi Hj. now apply cong_all_rescaled.
Qed.

(* non-vacuity: the hypotheses of normalisation_keeps_congruence_matrix hold for weights [2], factor (3, 4)^T, recorded norm 10 *)
Definition exr : ptensor R := mkPT [2] [[[3]; [4]]] [[10]] [[1]].
Lemma nz10 : Transforms.nz1 Rops 10 = 10.
Proof. rewrite TransformsProofsR.nz1_R. destruct (Req_EM_T 10 0); lra. Qed.
Lemma cmp_exr : compared Rops true exr = [[[3 * 2 / 10]; [4 * 2 / 10]]].
Proof. unfold compared, Transforms.cp_normalize, exr. cbn. rewrite nz10. reflexivity. Qed.
Example ex_hyps : 
  (forall k, (k < 1)%nat -> mode_ok 1 (mode_at (pfs exr) (pfs exr) [[5]] [[5]] k) /\
                            mode_ok 1 (mode_at (compared Rops true exr) (compared Rops true exr) (pcong exr) (pcong exr) k)).
Proof.
  intros k Hk. assert (k = 0)%nat by lia. subst k. rewrite cmp_exr. unfold mode_at, mode_ok, norms_valid. cbn [nth pfs pcong exr mA mB nA nB ncols nrows length].
  repeat split; try reflexivity; try lia; (destruct j as [|j]; [|lia]); cbn; lra.
Qed.
