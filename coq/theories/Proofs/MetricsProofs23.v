(* Lemmas for C20, part 23: THE RANGE THEOREMS WITH THE TOLERANCE OF THE EXECUTED NORM TAPES EXPLICIT.
   The range theorems of parts 1-4 assume the exact contract norms_valid (n > 0, n^2 = sum of squares).  The tapes recorded from
   the implementation are floating-point square roots: the correspondence accepts them when  |n^2 - s| <= tau s  (norms_okb, tau =
   1e-11).  Here: with such tapes every cosine is bounded by K = 1 / (1 - tau), the congruence coefficient lies in
   [-K^m, K^m] (m = number of modes; [0, K^m] with absolute values), and the correlation index still lies in [0, 1] EXACTLY
   for every tau <= 1/2; the Boolean norms_okb implies the Prop norms_approx, and (Paramcoq transfer Q -> R) the Boolean tapes_ok
   evaluated on the rational case implies norms_approx of the real-number model's tapes. *)
From Coq Require Import List Arith Lia Bool ZArith QArith Qabs Reals Lra Psatz Qreals.
From Param Require Import Param.
From TLV Require Import Base.Shape Base.PyList Base.Tensor Base.Ops Base.RSum Base.Transfer Model.Metrics Proofs.MetricsProofs
  Proofs.MetricsProofs2 Proofs.MetricsProofs3 Proofs.MetricsProofs4 Proofs.MetricsProofs16 Proofs.MetricsProofs21.
From TLV Require Corr.C20 Corr.Common.
Import ListNotations.
Local Close Scope Q_scope.
Local Open Scope R_scope.

Definition norms_approx (tau : R) (M : mat R) (ns : list R) : Prop :=
  forall j, (j < ncols M)%nat ->
    0 < nth j ns 0 /\ Rabs ((nth j ns 0) ^ 2 - col_sq Rops M j) <= tau * col_sq Rops M j.

(* the exact contract is the case tau = 0 *)
Lemma norms_valid_approx0 M ns : norms_valid M ns <-> norms_approx 0 M ns.
Proof.
  split; intros H j Hj; destruct (H j Hj) as (P & E); split; try exact P.
  - rewrite E. unfold Rminus. rewrite Rplus_opp_r, Rabs_R0. lra.
  - rewrite Rmult_0_l in E. pose proof (Rabs_pos ((nth j ns 0) ^ 2 - col_sq Rops M j)) as Hp.
    assert (Z : Rabs ((nth j ns 0) ^ 2 - col_sq Rops M j) = 0) by lra.
    destruct (Req_dec ((nth j ns 0) ^ 2 - col_sq Rops M j) 0) as [D|D]; [lra|]. apply Rabs_no_R0 in D. contradiction.
Qed.

Lemma norms_approx_mono tau tau' M ns : tau <= tau' -> norms_approx tau M ns -> norms_approx tau' M ns.
Proof.
  intros Ht H j Hj. destruct (H j Hj) as (P & E). split; [exact P|].
  assert (S : 0 <= col_sq Rops M j).
  { rewrite col_sq_rsum. apply rsum_nonneg. intros. apply pow2_ge_0. }
  nra.
Qed.

Definition mode_shape (r : nat) (m : cmode R) : Prop :=
  ncols (mA m) = r /\ ncols (mB m) = r /\ nrows (mA m) = nrows (mB m).
Definition mode_approx (tau : R) (r : nat) (m : cmode R) : Prop :=
  mode_shape r m /\ norms_approx tau (mA m) (nA m) /\ norms_approx tau (mB m) (nB m).
Definition tape_approx (tau : R) (ms : list (cmode R)) : Prop :=
  Forall (fun m => norms_approx tau (mA m) (nA m) /\ norms_approx tau (mB m) (nB m)) ms.

Lemma cos_sq_le_approx tau n (a b : nat -> R) na nb : 0 <= tau < 1 ->
  0 < na -> 0 < nb ->
  Rabs (na ^ 2 - rsum n (fun k => (a k) ^ 2)) <= tau * rsum n (fun k => (a k) ^ 2) ->
  Rabs (nb ^ 2 - rsum n (fun k => (b k) ^ 2)) <= tau * rsum n (fun k => (b k) ^ 2) ->
  (rsum n (fun k => a k / na * (b k / nb))) ^ 2 <= (/ (1 - tau)) ^ 2.
Proof.
  intros Ht Ha Hb Ea Eb.
  rewrite (rsum_ext n _ (fun k => / (na * nb) * (a k * b k))) by (intros; field; lra).
  rewrite rsum_scale. set (s := rsum n (fun k => a k * b k)).
  pose proof (cauchy_schwarz n a b) as CS. fold s in CS.
  set (sa := rsum n (fun k => (a k) ^ 2)) in *. set (sb := rsum n (fun k => (b k) ^ 2)) in *.
  assert (Sa : 0 <= sa) by (apply rsum_nonneg; intros; apply pow2_ge_0).
  assert (Sb : 0 <= sb) by (apply rsum_nonneg; intros; apply pow2_ge_0).
  apply Rabs_le_inv' in Ea. apply Rabs_le_inv' in Eb.
  set (q := na * nb). assert (Hq : 0 < q) by (unfold q; nra).
  set (c := 1 - tau). assert (Hc : 0 < c) by (unfold c; lra).
  assert (La : c * sa <= na ^ 2) by (unfold c; lra).
  assert (Lb : c * sb <= nb ^ 2) by (unfold c; lra).
  assert (Hq2 : 0 < q ^ 2) by nra.
  assert (Hc2 : 0 < c ^ 2) by nra.
  (* (s / q)^2 <= 1 / c^2   <=   c^2 s^2 <= q^2 *)
  assert (K : c ^ 2 * s ^ 2 <= q ^ 2).
  { assert (K1 : c ^ 2 * s ^ 2 <= (c * sa) * (c * sb)) by nra.
    assert (K2 : (c * sa) * (c * sb) <= na ^ 2 * nb ^ 2).
    { apply Rmult_le_compat; nra. }
    unfold q. nra. }
  apply (Rmult_le_reg_r (q ^ 2 * c ^ 2)); [nra|].
  replace ((/ q * s) ^ 2 * (q ^ 2 * c ^ 2)) with (c ^ 2 * s ^ 2) by (field; lra).
  replace ((/ c) ^ 2 * (q ^ 2 * c ^ 2)) with (q ^ 2) by (field; lra).
  exact K.
Qed.

Lemma sq_le_sq_Rabs x k : 0 <= k -> x ^ 2 <= k ^ 2 -> Rabs x <= k.
Proof. intros Hk H. apply Rabs_le. split; nra. Qed.

Lemma cosine_bound_approx tau r (m : cmode R) i j : 0 <= tau < 1 -> mode_approx tau r m -> (i < r)%nat -> (j < r)%nat ->
  Rabs (cosine m i j) <= / (1 - tau).
Proof.
  intros Ht ((Ha & Hb & Hn) & Va & Vb) Hi Hj.
  assert (Hk : 0 < / (1 - tau)) by (apply Rinv_0_lt_compat; lra).
  apply sq_le_sq_Rabs; [lra|]. unfold cosine.
  destruct (Va i ltac:(lia)) as (Pa & Ea). destruct (Vb j ltac:(lia)) as (Pb & Eb).
  rewrite col_sq_rsum in Ea, Eb. rewrite <- Hn in Eb.
  apply cos_sq_le_approx; assumption.
Qed.

(* the entry of the per-mode matrix needs the shapes only *)
Lemma cong_one_entry_shape absv r (m : cmode R) i j : mode_shape r m -> (i < r)%nat -> (j < r)%nat ->
  mget Rops (cong_one Rops absv m) i j = if absv then Rabs (cosine m i j) else cosine m i j.
Proof.
  intros (Ha & Hb & Hn) Hi Hj.
  assert (E : mget Rops (dotT Rops (normalise Rops (mA m) (nA m)) (normalise Rops (mB m) (nB m))) i j = cosine m i j).
  { unfold dotT. rewrite !ncols_normalise, Ha, Hb, nrows_normalise. rewrite mget_mtab by assumption.
    rewrite sumn_rsum. unfold cosine. apply rsum_ext. intros k Hk.
    unfold normalise. rewrite !mget_mtab; try lia. reflexivity. }
  unfold cong_one. destruct absv; [|exact E].
  unfold mabs. assert (Hr : (0 < r)%nat) by lia.
  unfold dotT at 1 2. rewrite nrows_mtab, !ncols_normalise, Ha, Hb. rewrite ncols_mtab by exact Hr.
  rewrite mget_mtab by assumption. rewrite fabs_Rabs. now rewrite E.
Qed.

Lemma cong_one_range_approx tau absv r (m : cmode R) i j : 0 <= tau < 1 -> mode_approx tau r m -> (i < r)%nat -> (j < r)%nat ->
  Rabs (mget Rops (cong_one Rops absv m) i j) <= / (1 - tau) /\ (absv = true -> 0 <= mget Rops (cong_one Rops absv m) i j).
Proof.
  intros Ht Hm Hi Hj. rewrite (cong_one_entry_shape absv r) by (try assumption; apply Hm).
  pose proof (cosine_bound_approx tau r m i j Ht Hm Hi Hj) as B. destruct absv.
  - split; [rewrite Rabs_Rabsolu; exact B | intros _; apply Rabs_pos].
  - split; [exact B | discriminate].
Qed.

Lemma entry_prod_range_approx tau absv r ms i j : 0 <= tau < 1 -> Forall (mode_approx tau r) ms -> (i < r)%nat -> (j < r)%nat ->
  Rabs (entry_prod absv ms i j) <= (/ (1 - tau)) ^ length ms /\ (absv = true -> 0 <= entry_prod absv ms i j).
Proof.
  intros Ht Hms Hi Hj. unfold entry_prod.
  assert (Hk : 0 < / (1 - tau)) by (apply Rinv_0_lt_compat; lra).
  induction Hms as [|m ms Hm Hms IH]; cbn [map fold_left length pow].
  - rewrite Rabs_R1. split; [lra | intros; lra].
  - rewrite fold_Rmult_acc. rewrite Rmult_1_l.
    destruct (cong_one_range_approx tau absv r m i j Ht Hm Hi Hj) as (B1 & P1). destruct IH as (B2 & P2).
    split.
    + rewrite Rabs_mult. pose proof (Rabs_pos (mget Rops (cong_one Rops absv m) i j)).
      pose proof (Rabs_pos (fold_left Rmult (map (fun m0 => mget Rops (cong_one Rops absv m0) i j) ms) 1)).
      apply Rmult_le_compat; assumption.
    + intros E. specialize (P1 E). specialize (P2 E). nra.
Qed.

Theorem cong_all_score_range_approx tau absv r ms p : 0 <= tau < 1 -> Forall (mode_approx tau r) ms -> is_perm r p ->
  let K := (/ (1 - tau)) ^ length ms in
  - K <= score Rops r (cong_all Rops absv r ms) p <= K /\ (absv = true -> 0 <= score Rops r (cong_all Rops absv r ms) p).
Proof.
  intros Ht Hms Hp K.
  assert (Hk : 0 < / (1 - tau)) by (apply Rinv_0_lt_compat; lra).
  assert (HK : 0 < K) by (unfold K; apply pow_lt; exact Hk).
  destruct (Nat.eq_dec r 0) as [->|Hr].
  - rewrite score_rsum. cbn [rsum]. unfold Rdiv. rewrite Rmult_0_l. split; [lra | intros; lra].
  - assert (Hr' : (0 < r)%nat) by lia. split.
    + apply score_bounds; auto. intros i j Hi Hj. rewrite cong_all_entry by assumption.
      destruct (entry_prod_range_approx tau absv r ms i j Ht Hms Hi Hj) as (B & _). apply Rabs_le_inv' in B. exact B.
    + intros E. apply (score_bounds r _ p 0 K); auto. intros i j Hi Hj. rewrite cong_all_entry by assumption.
      destruct (entry_prod_range_approx tau absv r ms i j Ht Hms Hi Hj) as (B & P). apply Rabs_le_inv' in B. specialize (P E). unfold K. lra.
Qed.

Lemma length_zip_modes_le (As : list (mat R)) : forall Bs nas nbs, (length (zip_modes As Bs nas nbs) <= length As)%nat.
Proof.
  induction As as [|A As IH]; intros [|B Bs] [|na nas] [|nb nbs]; cbn [zip_modes length]; try lia.
  specialize (IH Bs nas nbs). lia.
Qed.

(* congruence_coefficient with tapes valid up to tau: the returned value lies in [-K, K], K = (1 - tau)^-(number of modes) *)
Theorem congruence_range_approx tau absv As Bs nas nbs assign v p : 0 <= tau < 1 ->
  congruence Rops absv As Bs nas nbs assign = Ok (v, p) -> tape_approx tau (zip_modes As Bs nas nbs) ->
  is_perm (ncols (hd [] As)) p ->
  let K := (/ (1 - tau)) ^ length (zip_modes As Bs nas nbs) in - K <= v <= K /\ (absv = true -> 0 <= v).
Proof.
  intros Ht H Hta Hp. destruct (congruence_unfold _ _ _ _ _ _ _ _ H) as (r & C & Hc & Hpe & Hv).
  destruct (cong_matrix_inv _ _ _ _ _ _ _ Hc) as (Er & EC & Hs). subst r. rewrite Hv, EC.
  apply cong_all_score_range_approx; [exact Ht | | exact Hp].
  apply Forall_forall. intros m Hm. unfold tape_approx in Hta. rewrite Forall_forall in Hta.
  destruct (Hta m Hm) as (Va & Vb). destruct (Hs m Hm) as (Ea & Eb & En).
  exact (conj (conj Ea (conj Eb En)) (conj Va Vb)).
Qed.

(* a usable numeric form: for tau <= 1/2,  K^m <= 1 + 2 m tau (1 + 2 tau)^(m-1) ... kept simple: K <= 1 + 2 tau *)
Lemma K_le tau : 0 <= tau <= / 2 -> / (1 - tau) <= 1 + 2 * tau.
Proof.
  intros Ht. apply (Rmult_le_reg_r (1 - tau)); [lra|].
  rewrite Rinv_l by lra. nra.
Qed.

(* ---------- correlation index: the range [0, 1] is EXACT for every tau <= 1/2 ---------- *)
Lemma corr_index_one_unfold_shape tol r (m : cmode R) : mode_shape r m -> (0 < r)%nat ->
  corr_index_one Rops tol (mA m) (mB m) (nA m) (nB m) =
  let s := 1 / INR (r + r) * ci_sum r (cong_one Rops true m) in if fltb Rops s tol then 0 else s.
Proof.
  intros (Ha & Hb & Hn) Hr. unfold corr_index_one, cong_one.
  set (c := mabs Rops (dotT Rops (normalise Rops (mA m) (nA m)) (normalise Rops (mB m) (nB m)))).
  assert (Hnr : nrows c = r).
  { unfold c, mabs. rewrite nrows_mtab. unfold dotT. rewrite nrows_mtab. now rewrite ncols_normalise. }
  assert (Hnc : ncols c = r).
  { unfold c, mabs. unfold dotT at 1 2. rewrite nrows_mtab, !ncols_normalise, Ha, Hb. rewrite ncols_mtab by exact Hr.
    apply ncols_mtab. exact Hr. }
  rewrite Hnr, Hnc. cbv zeta. rewrite !sumn_rsum, nat2F_INR. unfold ci_sum. cbn [fmul fdiv fadd fsub f0 f1 Rops].
  rewrite (rsum_ext r (fun i => fabs Rops (maxn Rops r (fun j => mget Rops c i j) - 1))
                      (fun i => Rabs (maxn Rops r (fun j => mget Rops c i j) - 1))) by (intros; apply fabs_Rabs).
  rewrite (rsum_ext r (fun j => fabs Rops (maxn Rops r (fun i => mget Rops c i j) - 1))
                      (fun j => Rabs (maxn Rops r (fun i => mget Rops c i j) - 1))) by (intros; apply fabs_Rabs).
  reflexivity.
Qed.

Lemma abs_entry_range_approx tau r (m : cmode R) i j : 0 <= tau <= / 2 -> mode_approx tau r m -> (i < r)%nat -> (j < r)%nat ->
  0 <= mget Rops (cong_one Rops true m) i j <= 2.
Proof.
  intros Ht Hm Hi Hj. assert (Ht' : 0 <= tau < 1) by lra.
  destruct (cong_one_range_approx tau true r m i j Ht' Hm Hi Hj) as (B & P). apply Rabs_le_inv' in B.
  specialize (P eq_refl). pose proof (K_le tau Ht). lra.
Qed.

Lemma ci_sum_range_approx tau r (m : cmode R) : 0 <= tau <= / 2 -> mode_approx tau r m -> (0 < r)%nat ->
  0 <= ci_sum r (cong_one Rops true m) <= INR (r + r).
Proof.
  intros Ht Hm Hr. unfold ci_sum. rewrite plus_INR.
  assert (H1 : forall i, (i < r)%nat -> 0 <= Rabs (maxn Rops r (fun j => mget Rops (cong_one Rops true m) i j) - 1) <= 1).
  { intros i Hi. split; [apply Rabs_pos|].
    assert (L : 0 <= maxn Rops r (fun j => mget Rops (cong_one Rops true m) i j)).
    { eapply Rle_trans; [|apply (maxn_ge r _ 0%nat Hr)]. apply (abs_entry_range_approx tau r m i 0 Ht Hm Hi Hr). }
    assert (U : maxn Rops r (fun j => mget Rops (cong_one Rops true m) i j) <= 2)
      by (apply maxn_le; [exact Hr | intros j Hj; apply (abs_entry_range_approx tau r m i j Ht Hm Hi Hj)]).
    apply Rabs_le. lra. }
  assert (H2 : forall j, (j < r)%nat -> 0 <= Rabs (maxn Rops r (fun i => mget Rops (cong_one Rops true m) i j) - 1) <= 1).
  { intros j Hj. split; [apply Rabs_pos|].
    assert (L : 0 <= maxn Rops r (fun i => mget Rops (cong_one Rops true m) i j)).
    { eapply Rle_trans; [|apply (maxn_ge r _ 0%nat Hr)]. apply (abs_entry_range_approx tau r m 0 j Ht Hm Hr Hj). }
    assert (U : maxn Rops r (fun i => mget Rops (cong_one Rops true m) i j) <= 2)
      by (apply maxn_le; [exact Hr | intros i Hi; apply (abs_entry_range_approx tau r m i j Ht Hm Hi Hj)]).
    apply Rabs_le. lra. }
  pose proof (rsum_nonneg r _ (fun i Hi => proj1 (H1 i Hi))) as A1.
  pose proof (rsum_nonneg r _ (fun j Hj => proj1 (H2 j Hj))) as A2.
  pose proof (rsum_le r _ (fun _ => 1) (fun i Hi => proj2 (H1 i Hi))) as B1.
  pose proof (rsum_le r _ (fun _ => 1) (fun j Hj => proj2 (H2 j Hj))) as B2.
  rewrite rsum_const in B1, B2. lra.
Qed.

Lemma ci_one_range_approx tau tol (m : cmode R) : 0 <= tau <= / 2 -> mode_approx tau (ncols (mA m)) m -> 0 <= ci_one tol m <= 1.
Proof.
  intros Ht Hm. destruct (Nat.eq_dec (ncols (mA m)) 0) as [E|E].
  - rewrite corr_index_one_rank0; [lra | exact E |]. destruct Hm as ((_ & Hb & _) & _). now rewrite Hb.
  - assert (Hr : (0 < ncols (mA m))%nat) by lia. unfold ci_one.
    rewrite (corr_index_one_unfold_shape tol _ m (proj1 Hm) Hr). cbv zeta.
    pose proof (ci_sum_range_approx tau _ m Ht Hm Hr) as (L & U).
    set (r := ncols (mA m)) in *.
    assert (Hp : 0 < INR (r + r)) by (apply lt_0_INR; lia).
    assert (S : 0 <= 1 / INR (r + r) * ci_sum r (cong_one Rops true m) <= 1).
    { split.
      - apply Rmult_le_pos; [|exact L]. unfold Rdiv. rewrite Rmult_1_l. left. apply Rinv_0_lt_compat. exact Hp.
      - apply (Rmult_le_reg_l (INR (r + r))); [exact Hp|].
        replace (INR (r + r) * (1 / INR (r + r) * ci_sum r (cong_one Rops true m))) with (ci_sum r (cong_one Rops true m)) by (field; lra).
        lra. }
    destruct (fltb Rops _ tol); [cbn [f0 Rops]; lra | exact S].
Qed.

Theorem correlation_index_range_approx tau meth tol f1s f2s n1s n2s v : 0 <= tau <= / 2 ->
  correlation_index Rops (Some meth) tol f1s f2s n1s n2s = Ok v ->
  tape_approx tau (ci_modes meth f1s f2s n1s n2s) -> 0 <= v <= 1.
Proof.
  intros Ht H Hta. destruct (correlation_index_inv _ _ _ _ _ _ _ H) as (Hs & ->).
  assert (Hall : Forall (fun x => 0 <= x <= 1) (map (ci_one tol) (ci_modes meth f1s f2s n1s n2s))).
  { apply Forall_forall. intros x Hx. apply in_map_iff in Hx. destruct Hx as (m & <- & Hm). apply (ci_one_range_approx tau); [exact Ht|].
    unfold tape_approx in Hta. rewrite Forall_forall in Hta. destruct (Hta m Hm) as (Va & Vb). destruct (Hs m Hm) as (E1 & E2).
    split; [|split; assumption]. split; [reflexivity|]. split; [now symmetry | exact E1]. }
  destruct (list_stats_range _ Hall) as (A & B & C & D). destruct meth; assumption.
Qed.

(* ---------- the Boolean the correspondence evaluates implies the Prop ---------- *)
Lemma fltb_Rops a b : fltb Rops a b = true <-> a < b.
Proof.
  unfold fltb. cbn [fleb Rops]. destruct (Rleb b a) eqn:E; cbn [negb].
  - apply Rleb_true in E. split; [discriminate | lra].
  - apply Rleb_false in E. split; auto.
Qed.

Lemma norms_okb_approx tau (M : mat R) ns : norms_okb Rops tau M ns = true -> norms_approx tau M ns.
Proof.
  unfold norms_okb. intros H. apply andb_true_iff in H. destruct H as (_ & H). rewrite forallb_forall in H.
  intros j Hj. specialize (H j ltac:(apply in_seq; lia)). cbv zeta in H. apply andb_true_iff in H. destruct H as (H1 & H2).
  apply fltb_Rops in H1. cbn [f0 Rops] in H1. split; [exact H1|].
  cbn [fleb fsub fmul Rops] in H2. apply Rleb_true in H2. rewrite fabs_Rabs in H2. unfold fsq in H2. cbn [fmul Rops] in H2.
  replace (nth j ns 0 ^ 2) with (nth j ns 0 * nth j ns 0) by ring. exact H2.
Qed.

(* Paramcoq transfer of the Boolean from the executed rational instance *)
Parametricity Recursive norms_okb.

Lemma norms_okb_transfer (tau : Q) (M : mat Q) (ns : list Q) :
  norms_okb Rops (Q2R tau) (mapR M) (map Q2R ns) = norms_okb Qops tau M ns.
Proof.
  pose proof (norms_okb_R Q R QR Qops Rops ops_rel tau (Q2R tau) (QR_refl tau) M (mapR M) (list_list_R_of_map M)
                ns (map Q2R ns) (list_R_of_map ns)) as H.
  destruct H; reflexivity.
Qed.

Definition tau_exec : R := Q2R C20.tape_tol.

Lemma tau_exec_val : tau_exec = / 10 ^ 11.
Proof. unfold tau_exec, C20.tape_tol, Q2R. cbn [Qnum Qden]. rewrite Rmult_1_l. f_equal. rewrite pow_IZR. f_equal. Qed.

Lemma tau_exec_small : 0 <= tau_exec <= / 2.
Proof.
  rewrite tau_exec_val. assert (H : 2 <= 10 ^ 11) by (simpl; lra).
  split.
  - left. apply Rinv_0_lt_compat. lra.
  - apply Rinv_le_contravar; lra.
Qed.

Lemma tapes_ok_sound (Xs : list (mat Q)) : forall ns, C20.tapes_ok Xs ns = true ->
  Forall2 (fun X n => norms_approx tau_exec (mapR X) (map Q2R n)) Xs ns.
Proof.
  unfold C20.tapes_ok. induction Xs as [|X Xs IH]; intros [|n ns] H; cbn [C20.forallb2] in H; try discriminate; [constructor|].
  apply andb_true_iff in H. destruct H as (H1 & H2). constructor; [|now apply IH].
  apply norms_okb_approx. unfold tau_exec. rewrite norms_okb_transfer. exact H1.
Qed.

Lemma tape_approx_zip tau (As : list (mat R)) : forall Bs nas nbs,
  Forall2 (norms_approx tau) As nas -> Forall2 (norms_approx tau) Bs nbs -> tape_approx tau (zip_modes As Bs nas nbs).
Proof.
  unfold tape_approx. induction As as [|A As IH]; intros [|B Bs] [|na nas] [|nb nbs] HA HB; cbn [zip_modes]; try constructor.
  - inversion HA; subst. inversion HB; subst. cbn [mA mB nA nB]. split; assumption.
  - inversion HA; subst. inversion HB; subst. now apply IH.
Qed.

Lemma Forall2_map_R (Xs : list (mat Q)) : forall (ns : list (list Q)) tau,
  Forall2 (fun X n => norms_approx tau (mapR X) (map Q2R n)) Xs ns ->
  Forall2 (norms_approx tau) (map mapR Xs) (map (map Q2R) ns).
Proof. induction Xs as [|X Xs IH]; intros ns tau H; inversion H; subst; cbn [map]; constructor; auto. Qed.

(* WHAT A PASSING congruence_coefficient CASE MEANS FOR THE RANGE: the tapes of the real-number model are valid up to 1e-11 and its
   value for the returned matching lies in [-K, K] (in [0, K] with absolute values), K = (1 - 1e-11)^-(number of modes) *)
Theorem agree_cong_range_sound absv (As Bs : list (mat Q)) nas nbs (v : Q) (p : list nat) :
  C20.agree_cong absv As Bs nas nbs (Ok (v, p)) = true ->
  let ms := zip_modes (map mapR As) (map mapR Bs) (map (map Q2R) nas) (map (map Q2R) nbs) in
  let K := (/ (1 - / 10 ^ 11)) ^ length ms in
  tape_approx (/ 10 ^ 11) ms /\
  exists (r : nat) (C : mat R),
    cong_matrix Rops absv (map mapR As) (map mapR Bs) (map (map Q2R) nas) (map (map Q2R) nbs) = Ok (r, C) /\
    ((0 < r)%nat -> - K <= score Rops r C p <= K /\ (absv = true -> 0 <= score Rops r C p)).
Proof.
  intros H ms K. unfold C20.agree_cong in H. pose proof (cong_matrix_transfer absv As Bs nas nbs) as T.
  destruct (cong_matrix Qops absv As Bs nas nbs) as [[r Cq]|]; [|discriminate].
  rewrite !andb_true_iff in H. destruct H as (((Ta & Tb) & Ho) & Hv).
  assert (Hta : tape_approx (/ 10 ^ 11) ms).
  { rewrite <- tau_exec_val. unfold ms. apply tape_approx_zip; apply Forall2_map_R; now apply tapes_ok_sound. }
  split; [exact Hta|]. exists r, (mapR Cq). split; [exact T|]. intros Hr.
  assert (Hp : is_perm r p) by (exact (proj1 (optimal_on_sound r Cq p Hr Ho))).
  destruct (cong_matrix_inv _ _ _ _ _ _ _ T) as (Er & EC & Hs). rewrite EC. subst r.
  assert (Ht : 0 <= / 10 ^ 11 < 1) by (pose proof tau_exec_small as S; rewrite tau_exec_val in S; lra).
  apply (cong_all_score_range_approx (/ 10 ^ 11) absv _ ms p Ht); [|exact Hp].
  apply Forall_forall. intros m Hm. unfold tape_approx in Hta. rewrite Forall_forall in Hta.
  destruct (Hta m Hm) as (Va & Vb). destruct (Hs m Hm) as (Ea & Eb & En).
  exact (conj (conj Ea (conj Eb En)) (conj Va Vb)).
Qed.

(* the same for correlation_index: the value of the real-number model on the case's inputs lies in [0, 1] EXACTLY (tapes valid up
   to 1e-11 <= 1/2), so the implementation's value lies in [0, 1] up to the comparison tolerance *)
Lemma mapR_concat (fs : list (mat Q)) : mapR (concat fs) = concat (map mapR fs).
Proof. unfold mapR. apply concat_map. Qed.

Theorem agree_corridx_range_sound meth ctol (f1 f2 : list (mat Q)) n1 n2 (v : Q) :
  C20.agree_corridx (Some meth) ctol f1 f2 n1 n2 (Ok v) = true ->
  exists vm : R, correlation_index Rops (Some meth) (Q2R ctol) (map mapR f1) (map mapR f2) (map (map Q2R) n1) (map (map Q2R) n2) = Ok vm /\
    tape_approx (/ 10 ^ 11) (ci_modes meth (map mapR f1) (map mapR f2) (map (map Q2R) n1) (map (map Q2R) n2)) /\
    0 <= vm <= 1 /\ Rabs (Q2R v - vm) <= / 10 ^ 9 * (2 + Rabs (Q2R v)).
Proof.
  intros H. unfold C20.agree_corridx in H. pose proof (correlation_index_transfer (Some meth) ctol f1 f2 n1 n2) as T.
  destruct (correlation_index Qops (Some meth) ctol f1 f2 n1 n2) as [vm|]; [|discriminate].
  rewrite !andb_true_iff in H. destruct H as ((T1 & T2) & Hc). exists (Q2R vm). split; [exact T|].
  assert (Hta : tape_approx (/ 10 ^ 11) (ci_modes meth (map mapR f1) (map mapR f2) (map (map Q2R) n1) (map (map Q2R) n2))).
  { rewrite <- tau_exec_val. unfold ci_modes. apply tapes_ok_sound in T1. apply tapes_ok_sound in T2.
    apply Forall2_map_R in T1. apply Forall2_map_R in T2.
    destruct meth; cbn [map] in T1, T2; rewrite ?mapR_concat in T1, T2; apply tape_approx_zip; assumption. }
  split; [exact Hta|].
  assert (Hr : 0 <= Q2R vm <= 1).
  { eapply (correlation_index_range_approx (/ 10 ^ 11) meth); [|exact T|exact Hta].
    pose proof tau_exec_small as S. rewrite tau_exec_val in S. exact S. }
  split; [exact Hr|]. apply qclose_R in Hc.
  assert (E : Rabs (Q2R vm) <= 1) by (apply Rabs_le; lra).
  assert (P : 0 < / 10 ^ 9) by (apply Rinv_0_lt_compat; apply pow_lt; lra). nra.
Qed.
