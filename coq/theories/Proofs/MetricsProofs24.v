(* Lemmas for C20, part 24: leverage_score_dist, WHAT A PASSING CASE MEANS.
   (a) the simplex property with the tolerance of the executed SVD check explicit: if the first length(S) columns of U have
       squared norm within delta of 1 (what svd_ok re-checks, delta = ltol) then the scores are non-negative, one per row, and
       sum to one up to delta;
   (b) Paramcoq transfer Q -> R of leverage_score_dist_any.  Nat.max (in the rank cut-off) makes Paramcoq emit obligations, so the
       function is first restated with max(shape) as a nat ARGUMENT (lev_any_mx; equal to the model function by reflexivity) and
       that restatement is transferred;
   (c) the executed comparison agree_lev, transferred: the real-number model accepts the case's rational inputs, its scores are
       within ltol (1 + ..) of the implementation's, the tape's U is orthonormal up to ltol (from the Boolean svd_ok), hence the
       model's scores sum to one up to ltol. *)
From Coq Require Import List Arith Lia Bool ZArith QArith Qabs Reals Lra Psatz Qreals.
From Param Require Import Param.
From TLV Require Import Base.Shape Base.PyList Base.Tensor Base.Ops Base.RSum Base.Transfer Model.Metrics Proofs.MetricsProofs
  Proofs.MetricsProofs3 Proofs.MetricsProofs7 Proofs.MetricsProofs13 Proofs.MetricsProofs16.
From TLV Require Corr.C20 Corr.Common.
Import ListNotations.
Local Close Scope Q_scope.
Local Open Scope R_scope.

(* ---------- (a) ---------- *)
Lemma rsum_Rabs_le n (f : nat -> R) d : (forall i, (i < n)%nat -> Rabs (f i) <= d) -> Rabs (rsum n f) <= INR n * d.
Proof.
  intros H. induction n as [|n IH]; cbn [rsum].
  - rewrite Rabs_R0. simpl. lra.
  - rewrite S_INR. eapply Rle_trans; [apply Rabs_triang|].
    assert (A : Rabs (rsum n f) <= INR n * d) by (apply IH; intros; apply H; lia).
    specialize (H n ltac:(lia)). lra.
Qed.

Theorem leverage_simplex_approx (U : mat R) sv nr nc eps l delta :
  leverage_score_dist Rops U sv nr nc eps = Ok l ->
  (forall j, (j < length sv)%nat -> Rabs (rsum nr (fun i => (mget Rops U i j) ^ 2) - 1) <= delta) ->
  length l = nr /\ Forall (fun x => 0 <= x) l /\ Rabs (fsum Rops l - 1) <= delta.
Proof.
  unfold leverage_score_dist. intros H Hu. pose proof (num_rank_le sv nr nc eps) as Hle.
  destruct (Nat.eqb_spec (num_rank Rops sv nr nc eps) 0) as [E|E]; [discriminate|]. inversion H; subst. clear H.
  set (k := num_rank Rops sv nr nc eps) in *.
  assert (Hk : 0 < INR k) by (apply lt_0_INR; lia).
  split; [unfold leverage_k; now rewrite map_length, seq_length|]. split.
  - apply Forall_forall. intros x Hx. unfold leverage_k in Hx. apply in_map_iff in Hx. destruct Hx as (i & <- & _).
    rewrite sumn_rsum, nat2F_INR. cbn [fdiv Rops]. apply Rmult_le_pos; [|left; now apply Rinv_0_lt_compat].
    apply rsum_nonneg. intros j _. unfold fsq. cbn [fmul Rops]. nra.
  - rewrite fsum_leverage_k.
    rewrite (rsum_ext nr _ (fun i => / INR k * rsum k (fun j => (mget Rops U i j) ^ 2))) by (intros; unfold Rdiv; ring).
    rewrite rsum_scale, rsum_exchange.
    replace (/ INR k * rsum k (fun j => rsum nr (fun i => mget Rops U i j ^ 2)) - 1)
      with (/ INR k * rsum k (fun j => rsum nr (fun i => mget Rops U i j ^ 2) - 1)).
    2:{ rewrite (rsum_sub k (fun j => rsum nr (fun i => mget Rops U i j ^ 2)) (fun _ => 1)). rewrite rsum_const. field. lra. }
    rewrite Rabs_mult, Rabs_right by (left; now apply Rinv_0_lt_compat).
    assert (B : Rabs (rsum k (fun j => rsum nr (fun i => mget Rops U i j ^ 2) - 1)) <= INR k * delta).
    { apply rsum_Rabs_le. intros j Hj. apply Hu. lia. }
    apply (Rmult_le_reg_l (INR k)); [exact Hk|]. rewrite <- Rmult_assoc, Rinv_r, Rmult_1_l by lra. exact B.
Qed.

(* ---------- (b) ---------- *)
Definition num_rank_mx {F : Type} (Op : fops F) (sv : list F) (mx : nat) (eps : F) : nat :=
  let cutoff := fmul Op (fmul Op (list_max Op sv) (nat2F Op mx)) eps in
  fold_left (fun acc k => if fltb Op cutoff (nth k sv (f0 Op)) then S k else acc) (seq 0 (length sv)) 0%nat.
Definition lev_any_mx {F : Type} (Op : fops F) (renorm : bool) (U : mat F) (sv : list F) (nr mx : nat) (eps : F) : res (list F) :=
  match (let k := num_rank_mx Op sv mx eps in if Nat.eqb k 0 then Err else Ok (leverage_k Op U nr k)) with
  | Ok l => Ok (if renorm then (let t := fsum Op l in map (fun x => fdiv Op x t) l) else l)
  | Err => Err
  end.

Lemma lev_any_mx_eq {F : Type} (Op : fops F) renorm U sv nr nc eps :
  leverage_score_dist_any Op renorm U sv nr nc eps = lev_any_mx Op renorm U sv nr (Nat.max nr nc) eps.
Proof. reflexivity. Qed.

Parametricity Recursive lev_any_mx.

Lemma leverage_transfer renorm (U : mat Q) (sv : list Q) nr nc (eps : Q) :
  leverage_score_dist_any Rops renorm (mapR U) (map Q2R sv) nr nc (Q2R eps) =
  match leverage_score_dist_any Qops renorm U sv nr nc eps with Ok l => Ok (map Q2R l) | Err => Err end.
Proof.
  rewrite !lev_any_mx_eq.
  pose proof (lev_any_mx_R Q R QR Qops Rops ops_rel renorm renorm (bool_R_refl renorm) U (mapR U) (list_list_R_of_map U)
                sv (map Q2R sv) (list_R_of_map sv) nr nr (nat_R_refl nr) (Nat.max nr nc) (Nat.max nr nc) (nat_R_refl _)
                eps (Q2R eps) (QR_refl eps)) as H.
  destruct H as [x1 x2 Hx|]; [|reflexivity]. now rewrite (list_R_map _ _ Hx).
Qed.

(* ---------- (c) ---------- *)
Lemma Q2R_abs' x : Q2R (Qabs x) = Rabs (Q2R x).
Proof. apply Q2R_abs. Qed.

Lemma qclose_gen_R atol rtol a b : Common.qclose atol rtol a b = true ->
  Rabs (Q2R a - Q2R b) <= Q2R atol + Q2R rtol * (Rabs (Q2R a) + Rabs (Q2R b)).
Proof.
  unfold Common.qclose. intros H. apply Qle_bool_iff in H. apply Qle_Rle in H.
  rewrite Q2R_plus, Q2R_mult, Q2R_plus, !Q2R_abs, Q2R_minus in H. exact H.
Qed.

Lemma q_list_close_R atol rtol (a : list Q) : forall b, Common.q_list_close atol rtol a b = true ->
  Forall2 (fun x y => Rabs (x - y) <= Q2R atol + Q2R rtol * (Rabs x + Rabs y)) (map Q2R a) (map Q2R b).
Proof.
  induction a as [|x a IH]; intros [|y b] H; cbn [Common.q_list_close] in H; try discriminate; cbn [map]; constructor.
  - apply andb_true_iff in H. now apply qclose_gen_R.
  - apply andb_true_iff in H. now apply IH.
Qed.

(* transfer of the pieces svd_ok is made of *)
Parametricity Recursive sumn.
Parametricity Recursive mget.

Lemma mget_transfer (U : mat Q) i j : Q2R (mget Qops U i j) = mget Rops (mapR U) i j.
Proof.
  exact (mget_R Q R QR Qops Rops ops_rel U (mapR U) (list_list_R_of_map U) i i (nat_R_refl i) j j (nat_R_refl j)).
Qed.

Lemma sumn_transfer n (f : nat -> Q) (g : nat -> R) : (forall i, Q2R (f i) = g i) -> Q2R (sumn Qops n f) = sumn Rops n g.
Proof.
  intros H. apply (sumn_R Q R QR Qops Rops ops_rel n n (nat_R_refl n) f g).
  intros i i' Hi. rewrite <- (nat_R_eq _ _ Hi). apply H.
Qed.

Definition ortho_approx (delta : R) (U : mat R) (nr k : nat) : Prop :=
  forall a b, (a < k)%nat -> (b < k)%nat ->
    Rabs (rsum nr (fun i => mget Rops U i a * mget Rops U i b) - (if Nat.eqb a b then 1 else 0)) <= delta.

Lemma svd_ok_ortho ltol (M U Vt : mat Q) sv : C20.svd_ok ltol M U Vt sv = true ->
  ortho_approx (Q2R ltol) (mapR U) (nrows M) (length sv).
Proof.
  unfold C20.svd_ok. cbv zeta. intros H. rewrite !andb_true_iff in H. destruct H as ((_ & H) & _).
  rewrite forallb_forall in H. intros a b Ha Hb.
  specialize (H a ltac:(apply in_seq; lia)). rewrite forallb_forall in H. specialize (H b ltac:(apply in_seq; lia)).
  apply qclose_gen_R in H.
  rewrite (sumn_transfer (nrows M) _ (fun i => mget Rops (mapR U) i a * mget Rops (mapR U) i b)) in H.
  2:{ intros i. rewrite Q2R_red, Q2R_mult, !mget_transfer. reflexivity. }
  rewrite sumn_rsum in H.
  assert (E : Q2R (if Nat.eqb a b then 1%Q else 0%Q) = if Nat.eqb a b then 1 else 0).
  { destruct (Nat.eqb a b); [apply RMicromega.Q2R_1 | apply RMicromega.Q2R_0]. }
  rewrite E in H. rewrite RMicromega.Q2R_0, Rmult_0_l, Rplus_0_r in H. exact H.
Qed.

Lemma ortho_unit_approx delta (U : mat R) nr k : ortho_approx delta U nr k ->
  forall j, (j < k)%nat -> Rabs (rsum nr (fun i => (mget Rops U i j) ^ 2) - 1) <= delta.
Proof.
  intros H j Hj. specialize (H j j Hj Hj). rewrite Nat.eqb_refl in H.
  rewrite (rsum_ext nr (fun i => mget Rops U i j ^ 2) (fun i => mget Rops U i j * mget Rops U i j)) by (intros; ring). exact H.
Qed.

(* WHAT A PASSING leverage_score_dist CASE MEANS (float64 branch, renorm = false): about the real-number model on the rational
   inputs of the case (matrix shape, the recorded U and S, eps): it accepts, every score is within ltol (1 + ..) of the
   implementation's, the scores are non-negative, one per row, and sum to one up to ltol *)
Theorem agree_lev_sound ltol (M U Vt : mat Q) sv eps (l : list Q) :
  C20.agree_lev false ltol M U Vt sv eps (Ok l) = true ->
  exists lm : list R,
    leverage_score_dist_any Rops false (mapR U) (map Q2R sv) (nrows M) (ncols M) (Q2R eps) = Ok lm /\
    Forall2 (fun x y => Rabs (x - y) <= Q2R ltol + Q2R ltol * (Rabs x + Rabs y)) lm (map Q2R l) /\
    ortho_approx (Q2R ltol) (mapR U) (nrows M) (length sv) /\
    length lm = nrows M /\ Forall (fun x => 0 <= x) lm /\ Rabs (fsum Rops lm - 1) <= Q2R ltol.
Proof.
  intros H. unfold C20.agree_lev in H. pose proof (leverage_transfer false U sv (nrows M) (ncols M) eps) as T.
  destruct (leverage_score_dist_any Qops false U sv (nrows M) (ncols M) eps) as [lq|]; [|discriminate].
  rewrite !andb_true_iff in H. destruct H as ((Hs & Hc) & _).
  exists (map Q2R lq). split; [exact T|]. split; [now apply q_list_close_R|].
  pose proof (svd_ok_ortho _ _ _ _ _ Hs) as Ho. split; [exact Ho|].
  assert (T' : leverage_score_dist Rops (mapR U) (map Q2R sv) (nrows M) (ncols M) (Q2R eps) = Ok (map Q2R lq)).
  { unfold leverage_score_dist_any in T. destruct (leverage_score_dist Rops (mapR U) (map Q2R sv) (nrows M) (ncols M) (Q2R eps)); [exact T | discriminate]. }
  apply (leverage_simplex_approx _ _ _ _ _ _ (Q2R ltol) T').
  intros j Hj. rewrite map_length in Hj. now apply (ortho_unit_approx _ _ _ _ Ho).
Qed.

(* the renormalisation branch (float32 input): the model accepts, scores within ltol (1 + ..), and the implementation's own output
   sums to one up to 1e-12 (checked on the output itself) *)
Theorem agree_lev_renorm_sound ltol (M U Vt : mat Q) sv eps (l : list Q) :
  C20.agree_lev true ltol M U Vt sv eps (Ok l) = true ->
  exists lm : list R,
    leverage_score_dist_any Rops true (mapR U) (map Q2R sv) (nrows M) (ncols M) (Q2R eps) = Ok lm /\
    Forall2 (fun x y => Rabs (x - y) <= Q2R ltol + Q2R ltol * (Rabs x + Rabs y)) lm (map Q2R l) /\
    Rabs (Q2R (fsum Qops l) - 1) <= / 10 ^ 12.
Proof.
  intros H. unfold C20.agree_lev in H. pose proof (leverage_transfer true U sv (nrows M) (ncols M) eps) as T.
  destruct (leverage_score_dist_any Qops true U sv (nrows M) (ncols M) eps) as [lq|]; [|discriminate].
  rewrite !andb_true_iff in H. destruct H as ((Hs & Hc) & Hn).
  exists (map Q2R lq). split; [exact T|]. split; [now apply q_list_close_R|].
  apply Qle_bool_iff in Hn. apply Qle_Rle in Hn. rewrite Q2R_abs, Q2R_red, Q2R_minus, RMicromega.Q2R_1 in Hn.
  assert (E : Q2R (1 # 1000000000000) = / 10 ^ 12).
  { unfold Q2R. cbn [Qnum Qden]. rewrite Rmult_1_l. f_equal. rewrite pow_IZR. f_equal. }
  rewrite E in Hn. exact Hn.
Qed.
