(* Lemmas for C20, part 3: leverage scores form a probability vector; the correlation index lies in [0,1] and is 0
   for equivalent factor sets (every column has a collinear partner, both ways); with tol <= 0 the converse. *)
From Coq Require Import List Arith Lia Bool Permutation Reals Lra Psatz.
From TLV Require Import Base.Shape Base.PyList Base.Tensor Base.Ops Base.RSum Model.Metrics Proofs.MetricsProofs
  Proofs.MetricsProofs2.
Import ListNotations.
Local Open Scope R_scope.

(* ---------- leverage scores ---------- *)
Lemma fsum_map_seq n (g : nat -> R) : fsum Rops (map g (seq 0 n)) = rsum n g.
Proof. exact (sumn_rsum n g). Qed.

Theorem leverage_k_simplex (U : mat R) nr k : (0 < k)%nat ->
  (forall j, (j < k)%nat -> rsum nr (fun i => (mget Rops U i j) ^ 2) = 1) ->
  Forall (fun x => 0 <= x) (leverage_k Rops U nr k) /\ fsum Rops (leverage_k Rops U nr k) = 1.
Proof.
  intros Hk Hu. assert (Hp : 0 < INR k) by (apply lt_0_INR; exact Hk). unfold leverage_k. split.
  - apply Forall_forall. intros x Hx. apply in_map_iff in Hx. destruct Hx as (i & <- & _).
    rewrite sumn_rsum, nat2F_INR. cbn [fdiv Rops]. apply Rmult_le_pos; [|left; apply Rinv_0_lt_compat; exact Hp].
    apply rsum_nonneg. intros j _. unfold fsq. cbn [fmul Rops]. nra.
  - rewrite fsum_map_seq.
    rewrite (rsum_ext _ _ (fun i => / INR k * rsum k (fun j => (mget Rops U i j) ^ 2))).
    2:{ intros i _. rewrite sumn_rsum, nat2F_INR. cbn [fdiv Rops]. unfold Rdiv. rewrite Rmult_comm. f_equal.
        apply rsum_ext. intros j _. unfold fsq. cbn [fmul Rops]. ring. }
    rewrite rsum_scale, rsum_exchange. rewrite (rsum_ext _ _ (fun _ => 1)) by exact Hu. rewrite rsum_const. field. lra.
Qed.

Lemma num_rank_fold (sv : list R) cutoff l : forall acc n, (acc <= n)%nat -> (forall k, In k l -> (k < n)%nat) ->
  (fold_left (fun acc k => if fltb Rops cutoff (nth k sv 0%R) then S k else acc) l acc <= n)%nat.
Proof.
  induction l as [|k l IH]; intros acc n Ha Hl; cbn [fold_left]; [exact Ha|].
  apply IH; [|intros; apply Hl; now right]. destruct (fltb Rops cutoff (nth k sv 0)); [|exact Ha].
  specialize (Hl k (or_introl eq_refl)). lia.
Qed.

Lemma num_rank_le sv nr nc eps : (num_rank Rops sv nr nc eps <= length sv)%nat.
Proof. unfold num_rank. apply num_rank_fold; [lia|]. intros k Hk. apply in_seq in Hk. lia. Qed.

(* the entry point: U = left factor of a thin SVD, its first (length sv) columns have unit norm *)
Theorem leverage_score_dist_simplex (U : mat R) sv nr nc eps l :
  leverage_score_dist Rops U sv nr nc eps = Ok l ->
  (forall j, (j < length sv)%nat -> rsum nr (fun i => (mget Rops U i j) ^ 2) = 1) ->
  length l = nr /\ Forall (fun x => 0 <= x) l /\ fsum Rops l = 1.
Proof.
  unfold leverage_score_dist. intros H Hu. pose proof (num_rank_le sv nr nc eps) as Hle.
  destruct (Nat.eqb_spec (num_rank Rops sv nr nc eps) 0) as [E|E]; [discriminate|]. inversion H; subst. clear H.
  split; [unfold leverage_k; now rewrite map_length, seq_length|].
  apply leverage_k_simplex; [lia|]. intros j Hj. apply Hu. lia.
Qed.

(* ---------- maxima ---------- *)
Lemma fold_fmax_ge l : forall a, a <= fold_left (fmax Rops) l a /\ forall x, In x l -> x <= fold_left (fmax Rops) l a.
Proof.
  induction l as [|y l IH]; intros a; cbn [fold_left]; [split; [lra | intros x []]|].
  destruct (IH (fmax Rops a y)) as (I1 & I2). rewrite fmax_Rmax in *.
  pose proof (Rmax_l a y). pose proof (Rmax_r a y). split; [lra|]. intros x [<-|Hx]; [lra | auto].
Qed.

Lemma fold_fmax_le l hi : forall a, a <= hi -> (forall x, In x l -> x <= hi) -> fold_left (fmax Rops) l a <= hi.
Proof.
  induction l as [|y l IH]; intros a Ha Hl; cbn [fold_left]; [exact Ha|].
  apply IH; [|intros; apply Hl; now right]. rewrite fmax_Rmax. apply Rmax_lub; [exact Ha | apply Hl; now left].
Qed.

Lemma maxn_ge n f i : (i < n)%nat -> f i <= maxn Rops n f.
Proof.
  intros Hi. unfold maxn. apply (proj2 (fold_fmax_ge (map f (seq 0 n)) (f 0%nat))). apply in_map. apply in_seq. lia.
Qed.

Lemma maxn_le n f hi : (0 < n)%nat -> (forall i, (i < n)%nat -> f i <= hi) -> maxn Rops n f <= hi.
Proof.
  intros Hn H. unfold maxn. apply fold_fmax_le; [apply H; exact Hn|].
  intros x Hx. apply in_map_iff in Hx. destruct Hx as (i & <- & Hi). apply in_seq in Hi. apply H. lia.
Qed.

Lemma fold_fmax_in l : forall a, fold_left (fmax Rops) l a = a \/ In (fold_left (fmax Rops) l a) l.
Proof.
  induction l as [|y l IH]; intros a; cbn [fold_left]; [now left|].
  destruct (IH (fmax Rops a y)) as [H|H]; [|right; right; exact H].
  rewrite H. unfold fmax. destruct (fleb Rops a y); [right; now left | now left].
Qed.

Lemma maxn_attained n f : (0 < n)%nat -> exists j, (j < n)%nat /\ maxn Rops n f = f j.
Proof.
  intros Hn. unfold maxn. destruct (fold_fmax_in (map f (seq 0 n)) (f 0%nat)) as [H|H].
  - exists 0%nat. split; [exact Hn | exact H].
  - apply in_map_iff in H. destruct H as (j & Ej & Hj). apply in_seq in Hj. exists j. split; [lia | now rewrite Ej].
Qed.

(* ---------- one correlation index ---------- *)
(* s1 + s2 of _compute_correlation_index for a square r x r matrix c *)
Definition ci_sum (r : nat) (c : mat R) : R :=
  rsum r (fun i => Rabs (maxn Rops r (fun j => mget Rops c i j) - 1)) +
  rsum r (fun j => Rabs (maxn Rops r (fun i => mget Rops c i j) - 1)).

Lemma corr_index_one_unfold tol r (m : cmode R) : mode_ok r m -> (0 < r)%nat ->
  corr_index_one Rops tol (mA m) (mB m) (nA m) (nB m) =
  let s := 1 / INR (r + r) * ci_sum r (cong_one Rops true m) in if fltb Rops s tol then 0 else s.
Proof.
  intros (Ha & Hb & Hn & _ & _) Hr. unfold corr_index_one, cong_one.
  set (c := mabs Rops (dotT Rops (normalise Rops (mA m) (nA m)) (normalise Rops (mB m) (nB m)))).
  assert (Hnr : nrows c = r).
  { unfold c, mabs. rewrite nrows_mtab. unfold dotT. rewrite nrows_mtab. now rewrite ncols_normalise. }
  assert (Hnc : ncols c = r).
  { unfold c, mabs. unfold dotT at 1 2. rewrite nrows_mtab, !ncols_normalise, Ha, Hb. rewrite ncols_mtab by exact Hr.
    apply ncols_mtab. exact Hr. }
  rewrite Hnr, Hnc. cbv zeta. rewrite !sumn_rsum, nat2F_INR. unfold ci_sum. cbn [fmul fdiv fadd fsub f0 f1 Rops].
  rewrite (rsum_ext r (fun i => fabs Rops (maxn Rops r (fun j => mget Rops c i j) - 1))
                      (fun i => Rabs (maxn Rops r (fun j => mget Rops c i j) - 1))) by (intros; apply fabs_Rabs).
  rewrite (rsum_ext r (fun j => fabs Rops (maxn Rops r (fun i => mget Rops c i j) - 1))
                      (fun j => Rabs (maxn Rops r (fun i => mget Rops c i j) - 1))) by (intros; apply fabs_Rabs).
  reflexivity.
Qed.

Lemma abs_entry_range r (m : cmode R) i j : mode_ok r m -> (i < r)%nat -> (j < r)%nat ->
  0 <= mget Rops (cong_one Rops true m) i j <= 1.
Proof.
  intros Hm Hi Hj. destruct (cong_one_range true r m i j Hm Hi Hj) as (B & P). apply Rabs_le_inv' in B.
  specialize (P eq_refl). lra.
Qed.

Lemma ci_sum_range r (m : cmode R) : mode_ok r m -> (0 < r)%nat ->
  0 <= ci_sum r (cong_one Rops true m) <= INR (r + r).
Proof.
  intros Hm Hr. unfold ci_sum. rewrite plus_INR.
  assert (H1 : forall i, (i < r)%nat -> 0 <= Rabs (maxn Rops r (fun j => mget Rops (cong_one Rops true m) i j) - 1) <= 1).
  { intros i Hi. split; [apply Rabs_pos|].
    assert (L : 0 <= maxn Rops r (fun j => mget Rops (cong_one Rops true m) i j)).
    { eapply Rle_trans; [|apply (maxn_ge r _ 0%nat Hr)]. apply (abs_entry_range r m i 0 Hm Hi Hr). }
    assert (U : maxn Rops r (fun j => mget Rops (cong_one Rops true m) i j) <= 1)
      by (apply maxn_le; [exact Hr | intros j Hj; apply (abs_entry_range r m i j Hm Hi Hj)]).
    apply Rabs_le. lra. }
  assert (H2 : forall j, (j < r)%nat -> 0 <= Rabs (maxn Rops r (fun i => mget Rops (cong_one Rops true m) i j) - 1) <= 1).
  { intros j Hj. split; [apply Rabs_pos|].
    assert (L : 0 <= maxn Rops r (fun i => mget Rops (cong_one Rops true m) i j)).
    { eapply Rle_trans; [|apply (maxn_ge r _ 0%nat Hr)]. apply (abs_entry_range r m 0 j Hm Hr Hj). }
    assert (U : maxn Rops r (fun i => mget Rops (cong_one Rops true m) i j) <= 1)
      by (apply maxn_le; [exact Hr | intros i Hi; apply (abs_entry_range r m i j Hm Hi Hj)]).
    apply Rabs_le. lra. }
  pose proof (rsum_nonneg r _ (fun i Hi => proj1 (H1 i Hi))) as A1.
  pose proof (rsum_nonneg r _ (fun j Hj => proj1 (H2 j Hj))) as A2.
  pose proof (rsum_le r _ (fun _ => 1) (fun i Hi => proj2 (H1 i Hi))) as B1.
  pose proof (rsum_le r _ (fun _ => 1) (fun j Hj => proj2 (H2 j Hj))) as B2.
  rewrite rsum_const in B1, B2. lra.
Qed.

Theorem corr_index_one_range tol r (m : cmode R) : mode_ok r m -> (0 < r)%nat ->
  0 <= corr_index_one Rops tol (mA m) (mB m) (nA m) (nB m) <= 1.
Proof.
  intros Hm Hr. rewrite (corr_index_one_unfold tol r m Hm Hr). cbv zeta.
  pose proof (ci_sum_range r m Hm Hr) as (L & U).
  assert (Hp : 0 < INR (r + r)) by (apply lt_0_INR; lia).
  assert (S : 0 <= 1 / INR (r + r) * ci_sum r (cong_one Rops true m) <= 1).
  { split.
    - apply Rmult_le_pos; [|exact L]. unfold Rdiv. rewrite Rmult_1_l. left. apply Rinv_0_lt_compat. exact Hp.
    - apply (Rmult_le_reg_l (INR (r + r))); [exact Hp|].
      replace (INR (r + r) * (1 / INR (r + r) * ci_sum r (cong_one Rops true m))) with (ci_sum r (cong_one Rops true m)) by (field; lra).
      lra. }
  destruct (fltb Rops _ tol); [cbn [f0 Rops]; lra | exact S].
Qed.

(* every column of A has a collinear partner in B and vice versa (what "equivalent" means for one pair of matrices) *)
Definition cols_covered (m : cmode R) (r : nat) : Prop :=
  (forall i, (i < r)%nat -> exists j, (j < r)%nat /\ Rabs (cosine m i j) = 1) /\
  (forall j, (j < r)%nat -> exists i, (i < r)%nat /\ Rabs (cosine m i j) = 1).

Lemma ci_sum_zero_iff r (m : cmode R) : mode_ok r m -> (0 < r)%nat ->
  (ci_sum r (cong_one Rops true m) = 0 <-> cols_covered m r).
Proof.
  intros Hm Hr.
  assert (E : forall i j, (i < r)%nat -> (j < r)%nat -> mget Rops (cong_one Rops true m) i j = Rabs (cosine m i j))
    by (intros; now rewrite (cong_one_entry true r)).
  split.
  - intros Hz. unfold ci_sum in Hz.
    set (f1 := fun i => Rabs (maxn Rops r (fun j => mget Rops (cong_one Rops true m) i j) - 1)) in *.
    set (f2 := fun j => Rabs (maxn Rops r (fun i => mget Rops (cong_one Rops true m) i j) - 1)) in *.
    assert (N1 : forall i, (i < r)%nat -> 0 <= f1 i) by (intros; apply Rabs_pos).
    assert (N2 : forall j, (j < r)%nat -> 0 <= f2 j) by (intros; apply Rabs_pos).
    pose proof (rsum_nonneg r f1 N1) as A1. pose proof (rsum_nonneg r f2 N2) as A2.
    assert (Z1 : rsum r f1 = 0) by lra. assert (Z2 : rsum r f2 = 0) by lra.
    split.
    + intros i Hi. pose proof (rsum_nonneg_zero r f1 N1 Z1 i Hi) as H. unfold f1 in H.
      assert (Hmax : maxn Rops r (fun j => mget Rops (cong_one Rops true m) i j) = 1).
      { destruct (Req_dec (maxn Rops r (fun j => mget Rops (cong_one Rops true m) i j) - 1) 0) as [D|D]; [lra|].
        apply Rabs_no_R0 in D. contradiction. }
      (* the maximum is attained *)
      assert (Hex : exists j, (j < r)%nat /\ 1 <= mget Rops (cong_one Rops true m) i j).
      { destruct (maxn_attained r (fun j => mget Rops (cong_one Rops true m) i j) Hr) as (j & Hj & Ej).
        exists j. split; [exact Hj | rewrite <- Ej, Hmax; lra]. }
      destruct Hex as (j & Hj & Ge). exists j. split; [exact Hj|]. rewrite <- E by assumption.
      pose proof (abs_entry_range r m i j Hm Hi Hj). lra.
    + intros j Hj. pose proof (rsum_nonneg_zero r f2 N2 Z2 j Hj) as H. unfold f2 in H.
      assert (Hmax : maxn Rops r (fun i => mget Rops (cong_one Rops true m) i j) = 1).
      { destruct (Req_dec (maxn Rops r (fun i => mget Rops (cong_one Rops true m) i j) - 1) 0) as [D|D]; [lra|].
        apply Rabs_no_R0 in D. contradiction. }
      destruct (maxn_attained r (fun i => mget Rops (cong_one Rops true m) i j) Hr) as (i & Hi & Ei).
      exists i. split; [exact Hi|]. rewrite <- E by assumption.
      pose proof (abs_entry_range r m i j Hm Hi Hj). lra.
  - intros (C1 & C2). unfold ci_sum.
    rewrite (rsum_zero r (fun i => Rabs (maxn Rops r (fun j => mget Rops (cong_one Rops true m) i j) - 1))).
    2:{ intros i Hi. destruct (C1 i Hi) as (j & Hj & Ej).
        assert (U : maxn Rops r (fun j => mget Rops (cong_one Rops true m) i j) <= 1)
          by (apply maxn_le; [exact Hr | intros j' Hj'; apply (abs_entry_range r m i j' Hm Hi Hj')]).
        pose proof (maxn_ge r (fun j => mget Rops (cong_one Rops true m) i j) j Hj) as L. cbv beta in L.
        rewrite E, Ej in L by assumption.
        replace (maxn Rops r (fun j => mget Rops (cong_one Rops true m) i j)) with 1 by lra.
        replace (1 - 1) with 0 by ring. apply Rabs_R0. }
    rewrite (rsum_zero r (fun j => Rabs (maxn Rops r (fun i => mget Rops (cong_one Rops true m) i j) - 1))).
    2:{ intros j Hj. destruct (C2 j Hj) as (i & Hi & Ei).
        assert (U : maxn Rops r (fun i => mget Rops (cong_one Rops true m) i j) <= 1)
          by (apply maxn_le; [exact Hr | intros i' Hi'; apply (abs_entry_range r m i' j Hm Hi' Hj)]).
        pose proof (maxn_ge r (fun i => mget Rops (cong_one Rops true m) i j) i Hi) as L. cbv beta in L.
        rewrite E, Ei in L by assumption.
        replace (maxn Rops r (fun i => mget Rops (cong_one Rops true m) i j)) with 1 by lra.
        replace (1 - 1) with 0 by ring. apply Rabs_R0. }
    ring.
Qed.
