(* Lemmas for C20, part 4: the entry point correlation_index (all four methods): range [0,1], value 0 for
   equivalent factor sets, and (for tol <= 0) the converse. *)
From Coq Require Import List Arith Lia Bool Permutation Reals Lra Psatz.
From TLV Require Import Base.Shape Base.PyList Base.Tensor Base.Ops Base.RSum Model.Metrics Proofs.MetricsProofs
  Proofs.MetricsProofs2 Proofs.MetricsProofs3.
Import ListNotations.
Local Open Scope R_scope.

(* the pairs of matrices the method compares *)
Definition ci_modes (meth : cmethod) (f1s f2s : list (mat R)) (n1s n2s : list (list R)) : list (cmode R) :=
  zip_modes (match meth with Stacked => [concat f1s] | _ => f1s end)
            (match meth with Stacked => [concat f2s] | _ => f2s end) n1s n2s.

Definition ci_one (tol : R) (m : cmode R) : R := corr_index_one Rops tol (mA m) (mB m) (nA m) (nB m).

Lemma corr_index_one_rank0 tol (m : cmode R) : ncols (mA m) = 0%nat -> ncols (mB m) = 0%nat -> ci_one tol m = 0.
Proof.
  intros Ha Hb. unfold ci_one, corr_index_one, dotT. rewrite !ncols_normalise, Ha, Hb. cbn.
  destruct (fltb Rops _ tol); [reflexivity | ring].
Qed.

Lemma ci_one_range tol (m : cmode R) : mode_ok (ncols (mA m)) m -> 0 <= ci_one tol m <= 1.
Proof.
  intros Hm. destruct (Nat.eq_dec (ncols (mA m)) 0) as [E|E].
  - rewrite corr_index_one_rank0; [lra | exact E |]. destruct Hm as (_ & Hb & _). now rewrite Hb.
  - unfold ci_one. apply (corr_index_one_range tol (ncols (mA m)) m); [exact Hm | lia].
Qed.

Lemma ci_one_zero tol (m : cmode R) : mode_ok (ncols (mA m)) m -> cols_covered m (ncols (mA m)) -> ci_one tol m = 0.
Proof.
  intros Hm Hc. destruct (Nat.eq_dec (ncols (mA m)) 0) as [E|E].
  - apply corr_index_one_rank0; [exact E|]. destruct Hm as (_ & Hb & _). now rewrite Hb.
  - assert (Hr : (0 < ncols (mA m))%nat) by lia. unfold ci_one.
    rewrite (corr_index_one_unfold tol _ m Hm Hr). cbv zeta.
    rewrite (proj2 (ci_sum_zero_iff _ m Hm Hr) Hc). rewrite Rmult_0_r. destruct (fltb Rops 0 tol); reflexivity.
Qed.

Lemma ci_one_zero_inv tol (m : cmode R) : tol <= 0 -> mode_ok (ncols (mA m)) m -> (0 < ncols (mA m))%nat ->
  ci_one tol m = 0 -> cols_covered m (ncols (mA m)).
Proof.
  intros Ht Hm Hr H. unfold ci_one in H. rewrite (corr_index_one_unfold tol _ m Hm Hr) in H. cbv zeta in H.
  pose proof (ci_sum_range _ m Hm Hr) as (L & _).
  assert (Hp : 0 < INR (ncols (mA m) + ncols (mA m))) by (apply lt_0_INR; lia).
  set (s := 1 / INR (ncols (mA m) + ncols (mA m)) * ci_sum (ncols (mA m)) (cong_one Rops true m)) in *.
  assert (Hs : 0 <= s).
  { unfold s. apply Rmult_le_pos; [|exact L]. unfold Rdiv. rewrite Rmult_1_l. left. now apply Rinv_0_lt_compat. }
  unfold fltb in H. cbn [fleb Rops] in H. destruct (Rleb tol s) eqn:E; cbn [negb] in H.
  - apply (ci_sum_zero_iff _ m Hm Hr). unfold s in H.
    apply Rmult_integral in H. destruct H as [H|H]; [|exact H].
    exfalso. unfold Rdiv in H. rewrite Rmult_1_l in H. apply Rinv_neq_0_compat in H; [exact H | lra].
  - apply Rleb_false in E. lra.
Qed.

(* ---------- lists of indices ---------- *)
Lemma fold_fmin_bounds l lo : forall a, lo <= a -> (forall x, In x l -> lo <= x) ->
  lo <= fold_left (fmin Rops) l a <= a.
Proof.
  induction l as [|y l IH]; intros a Ha Hl; cbn [fold_left]; [lra|].
  assert (Hy : lo <= y) by (apply Hl; now left).
  assert (Hm : lo <= fmin Rops a y <= a).
  { unfold fmin. cbn [fleb Rops]. destruct (Rleb a y) eqn:E; [lra|]. apply Rleb_false in E. lra. }
  destruct (IH (fmin Rops a y) (proj1 Hm) (fun x Hx => Hl x (or_intror Hx))) as (I1 & I2). lra.
Qed.

Lemma fold_Rplus_acc l : forall a, fold_left Rplus l a = a + fold_left Rplus l 0.
Proof. induction l as [|x l IH]; intros a; cbn [fold_left]; [ring|]. rewrite IH, (IH (0 + x)). ring. Qed.

Lemma fsum_bounds l lo hi : Forall (fun x => lo <= x <= hi) l ->
  INR (length l) * lo <= fsum Rops l <= INR (length l) * hi.
Proof.
  unfold fsum. cbn [fadd f0 Rops]. induction 1 as [|x l Hx Hl IH]; [cbn; lra|].
  cbn [fold_left]. rewrite fold_Rplus_acc. change (length (x :: l)) with (S (length l)). rewrite S_INR. lra.
Qed.

Lemma list_stats_range l : Forall (fun x => 0 <= x <= 1) l ->
  0 <= hd 0 l <= 1 /\ 0 <= list_max Rops l <= 1 /\ 0 <= list_min Rops l <= 1 /\ 0 <= list_mean Rops l <= 1.
Proof.
  intros H. rewrite Forall_forall in H. repeat split.
  - destruct l; cbn; [lra | apply H; now left].
  - destruct l; cbn; [lra | apply H; now left].
  - destruct l as [|x l]; cbn [list_max f0 Rops]; [lra|].
    eapply Rle_trans; [apply (H x); now left | apply (proj1 (fold_fmax_ge l x))].
  - destruct l as [|x l]; cbn [list_max f0 Rops]; [lra|].
    apply fold_fmax_le; [apply H; now left | intros y Hy; apply H; now right].
  - destruct l as [|x l]; cbn [list_min f0 Rops]; [lra|].
    apply (fold_fmin_bounds l 0 x); [apply H; now left | intros y Hy; apply H; now right].
  - destruct l as [|x l]; cbn [list_min f0 Rops]; [lra|].
    eapply Rle_trans; [apply (fold_fmin_bounds l 0 x); [apply H; now left | intros y Hy; apply H; now right] | apply H; now left].
  - unfold list_mean. rewrite nat2F_INR. cbn [fdiv Rops]. destruct l as [|x l]; [cbn; lra|].
    assert (Hp : 0 < INR (length (x :: l))) by (apply lt_0_INR; cbn; lia).
    pose proof (fsum_bounds (x :: l) 0 1 (proj2 (Forall_forall _ _) H)) as (L & _).
    apply Rmult_le_pos; [lra | left; now apply Rinv_0_lt_compat].
  - unfold list_mean. rewrite nat2F_INR. cbn [fdiv Rops]. destruct l as [|x l]; [cbn; lra|].
    assert (Hp : 0 < INR (length (x :: l))) by (apply lt_0_INR; cbn; lia).
    pose proof (fsum_bounds (x :: l) 0 1 (proj2 (Forall_forall _ _) H)) as (_ & U).
    apply (Rmult_le_reg_r (INR (length (x :: l)))); [exact Hp|].
    replace (fsum Rops (x :: l) / INR (length (x :: l)) * INR (length (x :: l))) with (fsum Rops (x :: l)) by (field; lra). lra.
Qed.

Lemma list_stats_zero l : Forall (fun x => x = 0) l ->
  hd 0 l = 0 /\ list_max Rops l = 0 /\ list_min Rops l = 0 /\ list_mean Rops l = 0.
Proof.
  intros H.
  assert (R01 : Forall (fun x => 0 <= x <= 0) l) by (eapply Forall_impl; [|exact H]; intros; cbv beta in *; lra).
  rewrite Forall_forall in R01. repeat split.
  - destruct l; cbn; [reflexivity | inversion H; auto].
  - destruct l as [|x l]; cbn [list_max f0 Rops]; [reflexivity|].
    apply Rle_antisym.
    + apply fold_fmax_le; [apply R01; now left | intros y Hy; apply R01; now right].
    + eapply Rle_trans; [apply (R01 x); now left | apply (proj1 (fold_fmax_ge l x))].
  - destruct l as [|x l]; cbn [list_min f0 Rops]; [reflexivity|].
    pose proof (fold_fmin_bounds l 0 x (proj1 (R01 x (or_introl eq_refl))) (fun y Hy => proj1 (R01 y (or_intror Hy)))) as (A & B).
    pose proof (proj2 (R01 x (or_introl eq_refl))). lra.
  - unfold list_mean. cbn [fdiv Rops].
    pose proof (fsum_bounds l 0 0 (proj2 (Forall_forall _ _) R01)) as (L & U).
    assert (E : fsum Rops l = 0) by lra. rewrite E. unfold Rdiv. ring.
Qed.

(* ---------- the entry point ---------- *)
Lemma correlation_index_inv meth tol f1s f2s n1s n2s v :
  correlation_index Rops (Some meth) tol f1s f2s n1s n2s = Ok v ->
  let ms := ci_modes meth f1s f2s n1s n2s in
  (forall m, In m ms -> nrows (mA m) = nrows (mB m) /\ ncols (mA m) = ncols (mB m)) /\
  v = match meth with
      | Stacked => hd 0 (map (ci_one tol) ms)
      | MaxScore => list_max Rops (map (ci_one tol) ms)
      | MinScore => list_min Rops (map (ci_one tol) ms)
      | AvgScore => list_mean Rops (map (ci_one tol) ms)
      end.
Proof.
  unfold correlation_index, ci_modes. intros H.
  destruct (negb (one_rank f1s && one_rank f2s)); [discriminate|].
  set (X1 := match meth with Stacked => [concat f1s] | _ => f1s end) in *.
  set (X2 := match meth with Stacked => [concat f2s] | _ => f2s end) in *.
  destruct (forallb (fun ab => same_shape (fst ab) (snd ab)) (combine X1 X2)) eqn:E; [|discriminate]. cbn [negb] in H.
  destruct (existsb (has_zero_col Rops) X1 || existsb (has_zero_col Rops) X2); [discriminate|].
  cbv zeta. split.
  - intros m Hm. apply zip_modes_in in Hm. rewrite forallb_forall in E. specialize (E _ Hm). cbn [fst snd] in E.
    unfold same_shape in E. apply andb_true_iff in E. destruct E as (E1 & E2).
    apply Nat.eqb_eq in E1. apply Nat.eqb_eq in E2. auto.
  - destruct meth; inversion H; reflexivity.
Qed.

Lemma modes_ok_of_inv (ms : list (cmode R)) :
  (forall m, In m ms -> nrows (mA m) = nrows (mB m) /\ ncols (mA m) = ncols (mB m)) -> tape_valid ms ->
  forall m, In m ms -> mode_ok (ncols (mA m)) m.
Proof.
  intros Hs Ht m Hm. unfold tape_valid in Ht. rewrite Forall_forall in Ht. destruct (Ht m Hm) as (Va & Vb).
  destruct (Hs m Hm) as (E1 & E2). unfold mode_ok.
  split; [reflexivity|]. split; [now symmetry|]. split; [exact E1|]. split; assumption.
Qed.

Theorem correlation_index_range meth tol f1s f2s n1s n2s v :
  correlation_index Rops (Some meth) tol f1s f2s n1s n2s = Ok v ->
  tape_valid (ci_modes meth f1s f2s n1s n2s) -> 0 <= v <= 1.
Proof.
  intros H Ht. destruct (correlation_index_inv _ _ _ _ _ _ _ H) as (Hs & ->).
  pose proof (modes_ok_of_inv _ Hs Ht) as Hok.
  assert (Hall : Forall (fun x => 0 <= x <= 1) (map (ci_one tol) (ci_modes meth f1s f2s n1s n2s))).
  { apply Forall_forall. intros x Hx. apply in_map_iff in Hx. destruct Hx as (m & <- & Hm). apply ci_one_range. now apply Hok. }
  destruct (list_stats_range _ Hall) as (A & B & C & D). destruct meth; assumption.
Qed.

(* equivalent factor sets: in every compared pair each column has a collinear partner, both ways *)
Theorem correlation_index_zero meth tol f1s f2s n1s n2s v :
  correlation_index Rops (Some meth) tol f1s f2s n1s n2s = Ok v ->
  tape_valid (ci_modes meth f1s f2s n1s n2s) ->
  (forall m, In m (ci_modes meth f1s f2s n1s n2s) -> cols_covered m (ncols (mA m))) -> v = 0.
Proof.
  intros H Ht Hc. destruct (correlation_index_inv _ _ _ _ _ _ _ H) as (Hs & ->).
  pose proof (modes_ok_of_inv _ Hs Ht) as Hok.
  assert (Hall : Forall (fun x => x = 0) (map (ci_one tol) (ci_modes meth f1s f2s n1s n2s))).
  { apply Forall_forall. intros x Hx. apply in_map_iff in Hx. destruct Hx as (m & <- & Hm). apply ci_one_zero; auto. }
  destruct (list_stats_zero _ Hall) as (A & B & C & D). destruct meth; assumption.
Qed.

(* a column-permuted, column-rescaled copy is covered *)
Lemma perm_preimage r rec j : is_perm r rec -> (j < r)%nat -> exists i, (i < r)%nat /\ nth i rec 0%nat = j.
Proof.
  intros (Hl & Hnd & Hb) Hj. pose proof (perm_complete r rec Hl Hnd Hb j Hj) as Hin.
  destruct (In_nth _ _ 0%nat Hin) as (i & Hi & E). exists i. split; [lia | exact E].
Qed.

Theorem equivalent_covered r (m : cmode R) rec : mode_ok r m -> equivalent_by true r [m] rec -> cols_covered m r.
Proof.
  intros Hm (Hp & He).
  assert (K : forall i, (i < r)%nat -> Rabs (cosine m i (nth i rec 0%nat)) = 1).
  { intros i Hi. destruct (He i Hi m (or_introl eq_refl)) as (d & Hc & Hs).
    assert (Hj : (nth i rec 0 < r)%nat) by now apply is_perm_nth.
    rewrite <- (cong_one_entry true r m i (nth i rec 0%nat) Hm Hi Hj : _ = Rabs _).
    apply (cong_one_multiple true r m i _ d); auto. }
  split.
  - intros i Hi. exists (nth i rec 0%nat). split; [now apply is_perm_nth | now apply K].
  - intros j Hj. destruct (perm_preimage r rec j Hp Hj) as (i & Hi & <-). exists i. split; [exact Hi | now apply K].
Qed.

(* the "exactly" direction holds when no positive threshold is applied (tol <= 0); with tol > 0 the code returns 0
   for every index below tol, by design *)
Theorem correlation_index_zero_inv tol f1s f2s n1s n2s v :
  correlation_index Rops (Some MaxScore) tol f1s f2s n1s n2s = Ok v -> tol <= 0 ->
  tape_valid (ci_modes MaxScore f1s f2s n1s n2s) -> v = 0 ->
  forall m, In m (ci_modes MaxScore f1s f2s n1s n2s) -> (0 < ncols (mA m))%nat -> cols_covered m (ncols (mA m)).
Proof.
  intros H Htol Ht Hv m Hm Hr. destruct (correlation_index_inv _ _ _ _ _ _ _ H) as (Hs & Ev).
  pose proof (modes_ok_of_inv _ Hs Ht) as Hok. cbv zeta in Ev.
  set (ms := ci_modes MaxScore f1s f2s n1s n2s) in *.
  assert (Hall : Forall (fun x => 0 <= x <= 1) (map (ci_one tol) ms)).
  { apply Forall_forall. intros x Hx. apply in_map_iff in Hx. destruct Hx as (m' & <- & Hm'). apply ci_one_range. now apply Hok. }
  assert (Hz : ci_one tol m = 0).
  { assert (Hin : In (ci_one tol m) (map (ci_one tol) ms)) by now apply in_map.
    rewrite Forall_forall in Hall. pose proof (Hall _ Hin) as (L & _).
    assert (U : ci_one tol m <= list_max Rops (map (ci_one tol) ms)).
    { destruct (map (ci_one tol) ms) as [|x l]; [contradiction|]. cbn [list_max].
      destruct Hin as [<-|Hin]; [apply (proj1 (fold_fmax_ge l x)) | apply (proj2 (fold_fmax_ge l x)); exact Hin]. }
    rewrite <- Ev, Hv in U. lra. }
  apply (ci_one_zero_inv tol m Htol (Hok m Hm) Hr Hz).
Qed.
