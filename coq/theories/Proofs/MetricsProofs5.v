(* Lemmas for C20, part 5: the equality case of Cauchy-Schwarz.  |cosine| = 1 forces the two columns to be
   collinear, so "aligned components" can be stated as collinearity:  column j of B = d * column i of A, d <> 0. *)
From Coq Require Import List Arith Lia Bool Permutation Reals Lra Psatz.
From TLV Require Import Base.Shape Base.PyList Base.Tensor Base.Ops Base.RSum Model.Metrics Proofs.MetricsProofs
  Proofs.MetricsProofs2 Proofs.MetricsProofs3 Proofs.MetricsProofs4.
Import ListNotations.
Local Open Scope R_scope.

Lemma cauchy_schwarz_eq n (a b : nat -> R) :
  0 < rsum n (fun k => (a k) ^ 2) ->
  (rsum n (fun k => a k * b k)) ^ 2 = rsum n (fun k => (a k) ^ 2) * rsum n (fun k => (b k) ^ 2) ->
  forall k, (k < n)%nat -> b k = rsum n (fun k => a k * b k) / rsum n (fun k => (a k) ^ 2) * a k.
Proof.
  intros Hp He. set (Saa := rsum n (fun k => (a k) ^ 2)) in *. set (Sab := rsum n (fun k => a k * b k)) in *.
  set (Sbb := rsum n (fun k => (b k) ^ 2)) in *. set (d := Sab / Saa).
  assert (Hz : rsum n (fun k => (b k - d * a k) ^ 2) = 0).
  { rewrite (rsum_ext _ _ (fun k => (b k) ^ 2 + (-2 * d) * (a k * b k) + d ^ 2 * (a k) ^ 2)) by (intros; ring).
    rewrite !rsum_add, !rsum_scale. fold Saa Sab Sbb. unfold d.
    replace (Sbb + -2 * (Sab / Saa) * Sab + (Sab / Saa) ^ 2 * Saa) with (Sbb - Sab ^ 2 / Saa) by (field; lra).
    rewrite He. field. lra. }
  intros k Hk. pose proof (rsum_sq_zero n (fun k => b k - d * a k) Hz k Hk) as H. cbv beta in H. lra.
Qed.

Lemma Rabs_one_sq x : Rabs x = 1 -> x ^ 2 = 1.
Proof. intros H. unfold Rabs in H. destruct (Rcase_abs x); nra. Qed.

Theorem cosine_one_collinear r (m : cmode R) i j : mode_ok r m -> (i < r)%nat -> (j < r)%nat ->
  Rabs (cosine m i j) = 1 -> exists d, col_multiple m i j d.
Proof.
  intros (Ha & Hb & Hn & Va & Vb) Hi Hj Hc.
  destruct (Va i ltac:(lia)) as (Pa & Ea). destruct (Vb j ltac:(lia)) as (Pb & Eb).
  rewrite col_sq_rsum in Ea, Eb. rewrite <- Hn in Eb.
  set (na := nth i (nA m) 0) in *. set (nb := nth j (nB m) 0) in *. set (n := nrows (mA m)) in *.
  set (a := fun k => mget Rops (mA m) k i) in *. set (b := fun k => mget Rops (mB m) k j) in *.
  assert (Ec : cosine m i j = rsum n (fun k => a k * b k) / (na * nb)).
  { unfold cosine. fold na nb n.
    rewrite (rsum_ext _ _ (fun k => / (na * nb) * (a k * b k))) by (intros; unfold a, b; field; lra).
    rewrite rsum_scale. field. lra. }
  set (Sab := rsum n (fun k => a k * b k)) in *.
  assert (Hsq : Sab ^ 2 = rsum n (fun k => (a k) ^ 2) * rsum n (fun k => (b k) ^ 2)).
  { change (rsum n (fun k => (a k) ^ 2)) with (rsum n (fun k => (mget Rops (mA m) k i) ^ 2)).
    change (rsum n (fun k => (b k) ^ 2)) with (rsum n (fun k => (mget Rops (mB m) k j) ^ 2)).
    rewrite <- Ea, <- Eb.
    assert (H1 : (cosine m i j) ^ 2 = 1) by (apply Rabs_one_sq; exact Hc).
    rewrite Ec in H1. assert (Hq : 0 < na * nb) by nra.
    assert (H2 : Sab ^ 2 = (na * nb) ^ 2).
    { apply (Rmult_eq_reg_r (/ (na * nb) ^ 2)); [|apply Rinv_neq_0_compat; nra].
      replace (Sab ^ 2 * / (na * nb) ^ 2) with ((Sab / (na * nb)) ^ 2) by (field; lra). rewrite H1. field. lra. }
    rewrite H2. ring. }
  assert (Hpa : 0 < rsum n (fun k => (a k) ^ 2)).
  { change (rsum n (fun k => (a k) ^ 2)) with (rsum n (fun k => (mget Rops (mA m) k i) ^ 2)). rewrite <- Ea. nra. }
  set (d := Sab / rsum n (fun k => (a k) ^ 2)).
  assert (Hcol : forall k, (k < n)%nat -> b k = d * a k) by exact (cauchy_schwarz_eq n a b Hpa Hsq).
  exists d. split.
  - intros Hd. (* d = 0 would make column j of B zero, but its norm is positive *)
    assert (Hz : rsum n (fun k => (b k) ^ 2) = 0).
    { apply rsum_zero. intros k Hk. rewrite (Hcol k Hk), Hd. ring. }
    change (rsum n (fun k => (b k) ^ 2)) with (rsum n (fun k => (mget Rops (mB m) k j) ^ 2)) in Hz.
    rewrite <- Eb in Hz. nra.
  - intros k Hk. exact (Hcol k Hk).
Qed.

(* |cosine| = 1  <->  collinear *)
Theorem cosine_one_iff_collinear r (m : cmode R) i j : mode_ok r m -> (i < r)%nat -> (j < r)%nat ->
  (Rabs (cosine m i j) = 1 <-> exists d, col_multiple m i j d).
Proof.
  intros Hm Hi Hj. split; [now apply (cosine_one_collinear r)|].
  intros (d & Hc). rewrite (cosine_of_multiple r m i j d) by assumption. apply Rabs_sign_one. apply Hc.
Qed.

(* any matching of mean congruence 1 pairs COLLINEAR columns in every mode *)
Theorem score_one_collinear r ms p : (0 < r)%nat -> Forall (mode_ok r) ms -> is_perm r p ->
  score Rops r (cong_all Rops true r ms) p = 1 ->
  forall i m, (i < r)%nat -> In m ms -> exists d, col_multiple m i (nth i p 0%nat) d.
Proof.
  intros Hr Hms Hp Hs i m Hi Hm. rewrite Forall_forall in Hms.
  apply (cosine_one_collinear r); auto; [now apply is_perm_nth|].
  apply (score_one_aligned r ms p); auto. now apply Forall_forall.
Qed.

(* column i of the permuted factor IS column p[i] of the input factor *)
Theorem cp_permute_collinear ref fs w nas nbs assign w' fs' p rec :
  cp_permute_factors Rops ref fs w nas nbs assign = Ok (w', fs', p) ->
  tape_valid (zip_modes ref fs nas nbs) -> lsa_contract assign ->
  let r := ncols (hd [] ref) in let ms := zip_modes ref fs nas nbs in
  (0 < r)%nat -> equivalent_by true r ms rec ->
  is_perm r p /\ w' = map (fun k => nth k w 0) p /\ fs' = map (permute_cols Rops p) fs /\
  (forall i m, (i < r)%nat -> In m ms -> exists d, d <> 0 /\
     forall k, (k < nrows (mB m))%nat -> mget Rops (permute_cols Rops p (mB m)) k i = d * mget Rops (mA m) k i).
Proof.
  intros H Ht Hc. cbv zeta. intros Hr He.
  assert (Hok : Forall (mode_ok (ncols (hd [] ref))) (zip_modes ref fs nas nbs)).
  { unfold cp_permute_factors in H. destruct (congruence Rops true ref fs nas nbs assign) as [[v p0]|] eqn:E; [|discriminate].
    exact (proj1 (congruence_inv _ _ _ _ _ _ _ _ E Ht)). }
  destruct (cp_permute_aligned _ _ _ _ _ _ _ _ _ rec H Ht Hc Hr He) as (Pp & Ew & Ef & Hal).
  split; [exact Pp|]. split; [exact Ew|]. split; [exact Ef|].
  intros i m Hi Hm. rewrite Forall_forall in Hok. pose proof (Hok m Hm) as Hmok.
  assert (Hj : (nth i p 0 < ncols (hd [] ref))%nat) by now apply is_perm_nth.
  destruct (cosine_one_collinear _ m i _ Hmok Hi Hj (Hal i m Hi Hm)) as (d & Hd & Hcol).
  exists d. split; [exact Hd|]. intros k Hk.
  destruct Hmok as (_ & _ & Hn & _ & _). destruct Pp as (Hl & _).
  rewrite permute_cols_get by (try exact Hk; lia). apply Hcol. lia.
Qed.
