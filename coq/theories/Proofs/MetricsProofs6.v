(* Lemmas for C20, part 6: the converse of correlation_index_zero for every method (tol <= 0), and the
   list-of-tensors loop of cp_permute_factors: every tensor is treated exactly as if it were passed alone. *)
From Coq Require Import List Arith Lia Bool Permutation Reals Lra Psatz.
From TLV Require Import Base.Shape Base.PyList Base.Tensor Base.Ops Base.RSum Model.Metrics Proofs.MetricsProofs
  Proofs.MetricsProofs2 Proofs.MetricsProofs3 Proofs.MetricsProofs4 Proofs.MetricsProofs5.
Import ListNotations.
Local Open Scope R_scope.

Lemma fold_Rplus_nonneg l : Forall (fun x => 0 <= x) l -> 0 <= fold_left Rplus l 0.
Proof. induction 1 as [|y l Hy Hl IH]; cbn [fold_left]; [lra|]. rewrite fold_Rplus_acc. lra. Qed.

Lemma fsum_nonneg_zero l : Forall (fun x => 0 <= x) l -> fsum Rops l = 0 -> Forall (fun x => x = 0) l.
Proof.
  unfold fsum. cbn [fadd f0 Rops]. induction 1 as [|x l Hx Hl IH]; intros E; [constructor|].
  cbn [fold_left] in E. rewrite fold_Rplus_acc in E. pose proof (fold_Rplus_nonneg l Hl) as Hs.
  constructor; [lra | apply IH; lra].
Qed.

Lemma fold_fmin_in l : forall a, fold_left (fmin Rops) l a = a \/ In (fold_left (fmin Rops) l a) l.
Proof.
  induction l as [|y l IH]; intros a; cbn [fold_left]; [now left|].
  destruct (IH (fmin Rops a y)) as [H|H]; [|right; right; exact H].
  rewrite H. unfold fmin. destruct (fleb Rops a y); [now left | right; now left].
Qed.

Lemma zip_modes_single (X Y : mat R) n1s n2s m : In m (zip_modes [X] [Y] n1s n2s) -> zip_modes [X] [Y] n1s n2s = [m].
Proof. destruct n1s as [|n1 ?], n2s as [|n2 ?]; cbn; try contradiction. intros [<-|[]]. reflexivity. Qed.

(* v = 0 and tol <= 0: every compared pair is covered (Stacked, MaxScore, AvgScore) *)
Theorem correlation_index_zero_inv_all meth tol f1s f2s n1s n2s v :
  meth <> MinScore ->
  correlation_index Rops (Some meth) tol f1s f2s n1s n2s = Ok v -> tol <= 0 ->
  tape_valid (ci_modes meth f1s f2s n1s n2s) -> v = 0 ->
  forall m, In m (ci_modes meth f1s f2s n1s n2s) -> (0 < ncols (mA m))%nat -> cols_covered m (ncols (mA m)).
Proof.
  intros Hne H Htol Ht Hv m Hm Hr.
  destruct meth; try congruence.
  - (* Stacked *)
    destruct (correlation_index_inv _ _ _ _ _ _ _ H) as (Hs & Ev). cbv zeta in Ev.
    pose proof (modes_ok_of_inv _ Hs Ht) as Hok.
    assert (Es : ci_modes Stacked f1s f2s n1s n2s = [m]) by (apply zip_modes_single; exact Hm).
    rewrite Es in Ev. cbn [map hd] in Ev.
    apply (ci_one_zero_inv tol m Htol (Hok m Hm) Hr). lra.
  - (* MaxScore *)
    exact (correlation_index_zero_inv tol f1s f2s n1s n2s v H Htol Ht Hv m Hm Hr).
  - (* AvgScore *)
    destruct (correlation_index_inv _ _ _ _ _ _ _ H) as (Hs & Ev). cbv zeta in Ev.
    pose proof (modes_ok_of_inv _ Hs Ht) as Hok.
    set (ms := ci_modes AvgScore f1s f2s n1s n2s) in *.
    assert (Hall : Forall (fun x => 0 <= x) (map (ci_one tol) ms)).
    { apply Forall_forall. intros x Hx. apply in_map_iff in Hx. destruct Hx as (m' & <- & Hm').
      apply (ci_one_range tol m'). now apply Hok. }
    assert (Hlen : 0 < INR (length (map (ci_one tol) ms))).
    { apply lt_0_INR. rewrite map_length. destruct ms; [contradiction | cbn; lia]. }
    assert (Hsum : fsum Rops (map (ci_one tol) ms) = 0).
    { unfold list_mean in Ev. rewrite nat2F_INR in Ev. cbn [fdiv Rops] in Ev. rewrite Hv in Ev.
      apply (Rmult_eq_reg_r (/ INR (length (map (ci_one tol) ms)))); [|apply Rinv_neq_0_compat; lra].
      rewrite Rmult_0_l. symmetry. exact Ev. }
    pose proof (fsum_nonneg_zero _ Hall Hsum) as Hz. rewrite Forall_forall in Hz.
    apply (ci_one_zero_inv tol m Htol (Hok m Hm) Hr). apply Hz. now apply in_map.
Qed.

(* MinScore: the minimum is attained, so SOME compared pair is covered *)
Theorem correlation_index_zero_inv_min tol f1s f2s n1s n2s v :
  correlation_index Rops (Some MinScore) tol f1s f2s n1s n2s = Ok v -> tol <= 0 ->
  tape_valid (ci_modes MinScore f1s f2s n1s n2s) -> v = 0 -> ci_modes MinScore f1s f2s n1s n2s <> [] ->
  exists m, In m (ci_modes MinScore f1s f2s n1s n2s) /\ ((0 < ncols (mA m))%nat -> cols_covered m (ncols (mA m))).
Proof.
  intros H Htol Ht Hv Hne.
  destruct (correlation_index_inv _ _ _ _ _ _ _ H) as (Hs & Ev). cbv zeta in Ev.
  pose proof (modes_ok_of_inv _ Hs Ht) as Hok.
  set (ms := ci_modes MinScore f1s f2s n1s n2s) in *.
  assert (Hin : In v (map (ci_one tol) ms)).
  { rewrite Ev. destruct ms as [|m0 ms']; [congruence|]. cbn [map list_min].
    destruct (fold_fmin_in (map (ci_one tol) ms') (ci_one tol m0)) as [E|E]; [rewrite E; now left | right; exact E]. }
  apply in_map_iff in Hin. destruct Hin as (m & Em & Hm). exists m. split; [exact Hm|].
  intros Hr. apply (ci_one_zero_inv tol m Htol (Hok m Hm) Hr). lra.
Qed.

(* ---------- cp_permute_factors on a list of tensors ---------- *)
Definition single_call (ref : list (mat R)) (nas : list (list R)) (assign : mat R -> list nat)
  (t : list R * list (mat R) * list (list R)) : res (list R * list (mat R) * list nat) :=
  cp_permute_factors Rops ref (snd (fst t)) (fst (fst t)) nas (snd t) assign.

Theorem cp_permute_list_spec ref nas ts assign outs :
  cp_permute_factors_list Rops ref nas ts assign = Ok outs ->
  Forall2 (fun t out => single_call ref nas assign t = Ok out) ts outs.
Proof.
  revert outs. induction ts as [|[[w fs] nbs] ts IH]; intros outs H; cbn [cp_permute_factors_list] in H.
  - inversion H. constructor.
  - destruct (cp_permute_factors Rops ref fs w nas nbs assign) as [x|] eqn:E1; [|discriminate].
    destruct (cp_permute_factors_list Rops ref nas ts assign) as [xs|]; [|discriminate].
    inversion H; subst. constructor; [exact E1 | apply IH; reflexivity].
Qed.

Theorem cp_permute_list_err ref nas ts assign :
  cp_permute_factors_list Rops ref nas ts assign = Err <-> exists t, In t ts /\ single_call ref nas assign t = Err.
Proof.
  induction ts as [|[[w fs] nbs] ts IH]; cbn [cp_permute_factors_list].
  - split; [discriminate | intros (t & [] & _)].
  - destruct (cp_permute_factors Rops ref fs w nas nbs assign) as [x|] eqn:E1.
    + destruct (cp_permute_factors_list Rops ref nas ts assign) as [xs|].
      * split; [discriminate|]. intros (t & [<-|Ht] & Et).
        -- unfold single_call in Et. cbn [fst snd] in Et. congruence.
        -- assert (X : @Err (list (list R * list (mat R) * list nat)) = Err) by reflexivity.
           destruct IH as (_ & IH2). specialize (IH2 (ex_intro _ t (conj Ht Et))). discriminate.
      * split; [|reflexivity]. intros _. destruct IH as (IH1 & _). destruct (IH1 eq_refl) as (t & Ht & Et).
        exists t. split; [now right | exact Et].
    + split; [|reflexivity]. intros _. exists (w, fs, nbs). split; [now left | exact E1].
Qed.

(* ---------- what is proved about optimality WITHOUT assuming anything about the assignment oracle ---------- *)
(* (1) the run-time check of the correspondence, in its exact form: a permutation whose score equals the brute-force
   optimum dominates every matching *)
Theorem checked_assignment_optimal r (C : mat R) p :
  score Rops r C p = score Rops r C (best_perm Rops r C) -> forall q, is_perm r q -> score Rops r C q <= score Rops r C p.
Proof. intros E q Hq. rewrite E. now apply best_perm_max. Qed.

(* (2) the model with the brute force plugged in for linear_sum_assignment: the returned value is the maximum over all
   matchings and the returned permutation attains it -- no hypothesis on any oracle *)
Theorem congruence_brute_force_is_max absv As Bs nas nbs v p :
  congruence Rops absv As Bs nas nbs (fun C => best_perm Rops (nrows C) C) = Ok (v, p) ->
  let r := ncols (hd [] As) in let C := cong_all Rops absv r (zip_modes As Bs nas nbs) in
  is_perm r p /\ v = score Rops r C p /\ forall q, is_perm r q -> score Rops r C q <= v.
Proof.
  intros H.
  assert (Hc : lsa_contract (fun C => best_perm Rops (nrows C) C)).
  { intros r C <-. split; [apply best_perm_is_perm | intros q Hq; now apply best_perm_max]. }
  destruct (congruence_is_max _ _ _ _ _ _ _ _ H Hc) as (A & B & _ & D). cbv zeta. auto.
Qed.
