(* Lemmas for C20, part 7: the regression metrics of the model equal their textbook definitions, entry by entry,
   for every shape and every axis argument; consequences (variance >= 0, cov^2 <= var*var, R2 <= 1) and the
   sqrt-free characterisation used by the correspondence for RMSE / correlation / standard deviation. *)
From Coq Require Import List Arith Lia Bool Reals Lra Psatz.
From TLV Require Import Base.Shape Base.PyList Base.Tensor Base.Ops Base.RSum Model.Metrics Proofs.MetricsProofs.
Import ListNotations.
Local Open Scope R_scope.

Definition mean_of (n : nat) (f : nat -> R) : R := rsum n f / INR n.

Lemma mean_of_ext n f g : (forall k, (k < n)%nat -> f k = g k) -> mean_of n f = mean_of n g.
Proof. intros H. unfold mean_of. f_equal. now apply rsum_ext. Qed.

(* ---------- index plumbing ---------- *)
Lemma inb_insert' k : forall s idx dm i, inb s idx -> (i < dm)%nat -> inb (insert_at k dm s) (insert_at k i idx).
Proof.
  induction k; intros [|a s] [|j idx] dm i H Hi; simpl in *; try tauto.
  destruct H; split; auto.
Qed.

Lemma inb_reinsert (s : list nat) a idx k : (a < length s)%nat -> inb (remove_nth a s) idx -> (k < nth a s 0)%nat ->
  inb s (insert_at a k idx).
Proof.
  intros Ha Hi Hk. pose proof (inb_insert' a _ _ (nth a s 0%nat) k Hi Hk) as H.
  now rewrite insert_remove in H.
Qed.

Lemma remove_reinsert (s : list nat) a idx (k : nat) : (a < length s)%nat -> inb (remove_nth a s) idx ->
  remove_nth a (insert_at a k idx) = idx.
Proof.
  intros Ha Hi. apply remove_insert. rewrite (inb_length _ _ Hi). rewrite remove_nth_length by exact Ha. lia.
Qed.

Lemma tget_tabulate s (f : list nat -> R) idx : inb s idx -> tget Rops (tabulate s f) idx = f idx.
Proof. intros H. unfold tget. now apply get_tabulate. Qed.

Lemma tget_tmap (f : R -> R) (t : tensor R) idx : wf t -> inb (shape t) idx ->
  tget Rops (tmap f t) idx = f (tget Rops t idx).
Proof.
  intros Hw Hi. unfold tget, get, tmap. cbn [shape data]. apply nth_map'.
  rewrite Hw. now apply ravel_lt.
Qed.

Lemma wf_tmap (f : R -> R) (t : tensor R) : wf t -> wf (tmap f t).
Proof. unfold wf, tmap. cbn [shape data]. now rewrite map_length. Qed.

Lemma wf_tzip (f : R -> R -> R) (a b : tensor R) : wf (tzip Rops f a b).
Proof. apply wf_tabulate. Qed.

Lemma tget_tzip (f : R -> R -> R) (a b : tensor R) idx : inb (shape a) idx ->
  tget Rops (tzip Rops f a b) idx = f (tget Rops a idx) (tget Rops b idx).
Proof. intros H. unfold tzip. now rewrite tget_tabulate. Qed.

(* ---------- mean along an axis / over everything ---------- *)
Lemma tmean_axis_get (t : tensor R) a idx : wf t -> (a < ndim t)%nat -> inb (remove_nth a (shape t)) idx ->
  tget Rops (tmean Rops (Some a) t) idx = mean_of (nth a (shape t) 0%nat) (fun k => tget Rops t (insert_at a k idx)).
Proof.
  intros Hw Ha Hi. unfold tmean, red_len. rewrite tget_tmap; [| apply wf_tabulate | exact Hi].
  unfold tsum. rewrite tget_tabulate by exact Hi. rewrite sumn_rsum, nat2F_INR. reflexivity.
Qed.

Lemma fsum_map_seq' n (g : nat -> R) : fsum Rops (map g (seq 0 n)) = rsum n g.
Proof. exact (sumn_rsum n g). Qed.

Lemma fsum_nth (l : list R) : fsum Rops l = rsum (length l) (fun k => nth k l 0).
Proof.
  rewrite <- fsum_map_seq'. f_equal. apply nth_ext with (d := 0) (d' := 0).
  - now rewrite map_length, seq_length.
  - intros k Hk. rewrite (nth_map' (fun k => nth k l 0) (seq 0 (length l)) k 0%nat 0) by (now rewrite seq_length).
    now rewrite seq_nth.
Qed.

Lemma tmean_none_get (t : tensor R) : wf t ->
  tget Rops (tmean Rops None t) [] = mean_of (prod (shape t)) (fun k => nth k (data t) 0).
Proof.
  intros Hw. unfold tmean, red_len, tsum, tmap, tget, get. cbn [shape data ravel map nth].
  rewrite nat2F_INR, fsum_nth, Hw. reflexivity.
Qed.

Lemma length_data_tabulate s (f : list nat -> R) : length (data (tabulate s f)) = prod s.
Proof. unfold tabulate. cbn [data]. now rewrite map_length, seq_length. Qed.

Lemma nth_data_tabulate s (f : list nat -> R) k : (k < prod s)%nat -> nth k (data (tabulate s f)) 0 = f (unravel s k).
Proof. apply nth_tabulate. Qed.

Lemma tget_unravel (t : tensor R) k : (k < prod (shape t))%nat -> tget Rops t (unravel (shape t) k) = nth k (data t) 0.
Proof. intros Hk. unfold tget, get. now rewrite ravel_unravel. Qed.

Lemma tget_unravel' (t : tensor R) s k : shape t = s -> (k < prod s)%nat -> tget Rops t (unravel s k) = nth k (data t) 0.
Proof. intros <-. apply tget_unravel. Qed.

Section Reg.
Context (yt yp : tensor R) (Wt : wf yt) (Wp : wf yp) (Sh : shape yp = shape yt).

Let s := shape yt.
Let dt k := nth k (data yt) 0.
Let dp k := nth k (data yp) 0.

(* ---- axis = None ---- *)
Theorem MSE_none_def :
  tget Rops (MSE Rops None yt yp) [] = mean_of (prod s) (fun k => (dt k - dp k) ^ 2).
Proof.
  unfold MSE. rewrite tmean_none_get by (apply wf_tmap, wf_tzip).
  unfold tmap, tzip. cbn [shape data]. fold s. unfold mean_of. f_equal. apply rsum_ext. intros k Hk.
  rewrite (nth_map' (fsq Rops) _ k 0 0) by (rewrite length_data_tabulate; exact Hk).
  rewrite nth_data_tabulate by exact Hk.
  rewrite (tget_unravel' yt s k eq_refl Hk), (tget_unravel' yp s k Sh Hk).
  unfold fsq, dt, dp. cbn [fmul fsub Rops]. ring.
Qed.

Let mt := mean_of (prod s) dt.
Let mp := mean_of (prod s) dp.

Lemma tcenter_none_nth (y : tensor R) k : wf y -> shape y = s -> (k < prod s)%nat ->
  nth k (data (tcenter Rops None y)) 0 = nth k (data y) 0 - mean_of (prod s) (fun k => nth k (data y) 0).
Proof.
  intros Hw Hs Hk. unfold tcenter. rewrite Hs. rewrite nth_data_tabulate by exact Hk.
  rewrite (tget_unravel' y s k Hs Hk). rewrite tmean_none_get by exact Hw. now rewrite Hs.
Qed.

Theorem covariance_none_def :
  tget Rops (covariance Rops None yt yp) [] = mean_of (prod s) (fun k => (dt k - mt) * (dp k - mp)).
Proof.
  unfold covariance. rewrite tmean_none_get by apply wf_tzip.
  assert (E1 : shape (tcenter Rops None yt) = s) by reflexivity.
  assert (E2 : shape (tcenter Rops None yp) = s) by (unfold tcenter; cbn [shape]; exact Sh).
  unfold tzip. cbn [shape data]. rewrite E1.
  apply mean_of_ext. intros k Hk.
  rewrite nth_data_tabulate by exact Hk.
  rewrite (tget_unravel' _ s k E1 Hk), (tget_unravel' _ s k E2 Hk).
  rewrite (tcenter_none_nth yt k Wt eq_refl Hk), (tcenter_none_nth yp k Wp Sh Hk). reflexivity.
Qed.

(* ---- axis = Some a ---- *)
Context (a : nat) (Ha : (a < ndim yt)%nat).
Let n := nth a s 0%nat.

Theorem MSE_axis_def idx : inb (remove_nth a s) idx ->
  tget Rops (MSE Rops (Some a) yt yp) idx =
  mean_of n (fun k => (tget Rops yt (insert_at a k idx) - tget Rops yp (insert_at a k idx)) ^ 2).
Proof.
  intros Hi. unfold MSE.
  assert (Es : shape (tmap (fsq Rops) (tzip Rops (fsub Rops) yt yp)) = s) by reflexivity.
  rewrite tmean_axis_get; [| apply wf_tmap, wf_tzip | unfold ndim; rewrite Es; exact Ha | rewrite Es; exact Hi].
  rewrite Es. fold n. apply mean_of_ext. intros k Hk.
  assert (Hin : inb s (insert_at a k idx)) by (apply inb_reinsert; auto).
  rewrite tget_tmap; [| apply wf_tzip | exact Hin]. rewrite tget_tzip by exact Hin.
  unfold fsq. cbn [fmul fsub Rops]. ring.
Qed.

Definition slice_mean (y : tensor R) (idx : list nat) : R := mean_of n (fun k => tget Rops y (insert_at a k idx)).

Lemma tcenter_axis_get (y : tensor R) idx k : wf y -> shape y = s -> inb (remove_nth a s) idx -> (k < n)%nat ->
  tget Rops (tcenter Rops (Some a) y) (insert_at a k idx) = tget Rops y (insert_at a k idx) - slice_mean y idx.
Proof.
  intros Hw Hs Hi Hk. assert (Hin : inb s (insert_at a k idx)) by (apply inb_reinsert; auto).
  unfold tcenter. rewrite Hs. rewrite tget_tabulate by exact Hin.
  rewrite (remove_reinsert s a idx k Ha Hi).
  rewrite tmean_axis_get; [| exact Hw | unfold ndim; rewrite Hs; exact Ha | rewrite Hs; exact Hi].
  rewrite Hs. reflexivity.
Qed.

Theorem covariance_axis_def idx : inb (remove_nth a s) idx ->
  tget Rops (covariance Rops (Some a) yt yp) idx =
  mean_of n (fun k => (tget Rops yt (insert_at a k idx) - slice_mean yt idx) *
                      (tget Rops yp (insert_at a k idx) - slice_mean yp idx)).
Proof.
  intros Hi. unfold covariance.
  assert (Es : shape (tzip Rops (fmul Rops) (tcenter Rops (Some a) yt) (tcenter Rops (Some a) yp)) = s) by reflexivity.
  rewrite tmean_axis_get; [| apply wf_tzip | unfold ndim; rewrite Es; exact Ha | rewrite Es; exact Hi].
  rewrite Es. fold n. apply mean_of_ext. intros k Hk.
  assert (Hin : inb s (insert_at a k idx)) by (apply inb_reinsert; auto).
  rewrite tget_tzip by exact Hin.
  rewrite (tcenter_axis_get yt idx k Wt eq_refl Hi Hk). rewrite (tcenter_axis_get yp idx k Wp Sh Hi Hk). reflexivity.
Qed.
End Reg.

(* variance = covariance of y with itself (by definition in the code and in the model) *)
Lemma variance_is_covariance ax (y : tensor R) : variance Rops ax y = covariance Rops ax y y.
Proof. reflexivity. Qed.

(* ---------- consequences on the index-level definitions ---------- *)
Lemma mean_sq_nonneg n f : 0 <= mean_of n (fun k => (f k) * (f k)).
Proof.
  unfold mean_of. destruct n as [|n]; [cbn; unfold Rdiv; rewrite Rmult_0_l; lra|].
  apply Rmult_le_pos; [apply rsum_nonneg; intros; nra | left; apply Rinv_0_lt_compat, lt_0_INR; lia].
Qed.

(* cov^2 <= var * var  (Cauchy-Schwarz), hence |correlation| <= 1 wherever it is defined *)
Theorem cov_sq_le_var_var n (f g : nat -> R) :
  (mean_of n (fun k => f k * g k)) ^ 2 <= mean_of n (fun k => f k * f k) * mean_of n (fun k => g k * g k).
Proof.
  unfold mean_of. destruct n as [|n]; [cbn; unfold Rdiv; rewrite !Rmult_0_l; lra|].
  assert (Hp : 0 < INR (S n)) by (apply lt_0_INR; lia).
  pose proof (cauchy_schwarz (S n) f g) as CS.
  rewrite (rsum_ext (S n) (fun i => f i ^ 2) (fun i => f i * f i)) in CS by (intros; ring).
  rewrite (rsum_ext (S n) (fun i => g i ^ 2) (fun i => g i * g i)) in CS by (intros; ring).
  set (A := rsum (S n) (fun k => f k * f k)) in *. set (B := rsum (S n) (fun k => g k * g k)) in *.
  set (Cc := rsum (S n) (fun k => f k * g k)) in *.
  replace ((Cc / INR (S n)) ^ 2) with (Cc ^ 2 * / (INR (S n)) ^ 2) by (field; lra).
  replace (A / INR (S n) * (B / INR (S n))) with (A * B * / (INR (S n)) ^ 2) by (field; lra).
  apply Rmult_le_compat_r; [left; apply Rinv_0_lt_compat; nra | exact CS].
Qed.

(* the sqrt-free relation checked by the correspondence pins the value:  c = num / sqrt den *)
Theorem ratio_characterised c num den : 0 < den -> c ^ 2 * den = num ^ 2 -> 0 <= c * num -> c = num / sqrt den.
Proof.
  intros Hd He Hs. assert (Hq : 0 < sqrt den) by now apply sqrt_lt_R0.
  assert (Hq2 : sqrt den * sqrt den = den) by (apply sqrt_sqrt; lra).
  assert (E : (c * sqrt den) ^ 2 = num ^ 2).
  { rewrite <- He. replace ((c * sqrt den) ^ 2) with (c ^ 2 * (sqrt den * sqrt den)) by ring. now rewrite Hq2. }
  assert (E' : c * sqrt den = num).
  { set (x := c * sqrt den) in *.
    assert (Hx : 0 <= x * num) by (unfold x; replace (c * sqrt den * num) with (c * num * sqrt den) by ring; nra).
    assert (Hf : (x - num) * (x + num) = 0) by (replace ((x - num) * (x + num)) with (x ^ 2 - num ^ 2) by ring; lra).
    apply Rmult_integral in Hf. destruct Hf as [Hf|Hf]; [lra|].
    assert (Hxn : x = - num) by lra. rewrite Hxn in Hx. assert (num = 0) by nra. lra. }
  rewrite <- E'. field. lra.
Qed.

Theorem root_characterised v x : 0 <= v -> v ^ 2 = x -> v = sqrt x.
Proof. intros Hv <-. replace (v ^ 2) with (v * v) by ring. symmetry. now apply sqrt_square. Qed.

Theorem correlation_bound c num den : 0 < den -> c ^ 2 * den = num ^ 2 -> num ^ 2 <= den -> Rabs c <= 1.
Proof. intros Hd He Hn. apply sq_le_1_Rabs. nra. Qed.

(* R2 = 1 - ||Xp - Xo||^2 / ||Xo||^2  <= 1 *)
Theorem R2_def_and_bound (xo xp : tensor R) : wf xo -> wf xp -> shape xp = shape xo ->
  R2_score Rops xo xp =
    1 - rsum (prod (shape xo)) (fun k => (nth k (data xp) 0 - nth k (data xo) 0) ^ 2) /
        rsum (prod (shape xo)) (fun k => (nth k (data xo) 0) ^ 2) /\
  (0 < rsum (prod (shape xo)) (fun k => (nth k (data xo) 0) ^ 2) -> R2_score Rops xo xp <= 1).
Proof.
  intros Wo Wp Sh. unfold R2_score.
  assert (E1 : fsum Rops (map (fsq Rops) (data (tzip Rops (fsub Rops) xp xo))) =
               rsum (prod (shape xo)) (fun k => (nth k (data xp) 0 - nth k (data xo) 0) ^ 2)).
  { rewrite fsum_nth, map_length. unfold tzip. rewrite length_data_tabulate, Sh.
    apply rsum_ext. intros k Hk. rewrite (nth_map' (fsq Rops) _ k 0 0) by (rewrite length_data_tabulate; exact Hk).
    rewrite (nth_data_tabulate (shape xo)) by exact Hk.
    rewrite (tget_unravel' xp (shape xo) k Sh Hk), (tget_unravel' xo (shape xo) k eq_refl Hk). unfold fsq. cbn [fmul fsub Rops]. ring. }
  assert (E2 : fsum Rops (map (fsq Rops) (data xo)) = rsum (prod (shape xo)) (fun k => (nth k (data xo) 0) ^ 2)).
  { rewrite fsum_nth, map_length, Wo. apply rsum_ext. intros k Hk.
    rewrite (nth_map' (fsq Rops) _ k 0 0) by (rewrite Wo; exact Hk). unfold fsq. cbn [fmul Rops]. ring. }
  rewrite E1, E2. cbn [fsub fdiv f1 Rops]. split; [reflexivity|]. intros Hp.
  assert (Hn : 0 <= rsum (prod (shape xo)) (fun k => (nth k (data xp) 0 - nth k (data xo) 0) ^ 2))
    by (apply rsum_nonneg; intros; apply pow2_ge_0).
  assert (0 <= rsum (prod (shape xo)) (fun k => (nth k (data xp) 0 - nth k (data xo) 0) ^ 2) /
               rsum (prod (shape xo)) (fun k => (nth k (data xo) 0) ^ 2)).
  { apply Rmult_le_pos; [exact Hn | left; now apply Rinv_0_lt_compat]. }
  lra.
Qed.
