(* Lemmas for C20, part 8: at the level of the tensors the code computes -- the numerator and the radicand of
   `correlation` satisfy num^2 <= den entry by entry (so |correlation| <= 1 wherever it is defined), variance >= 0. *)
From Coq Require Import List Arith Lia Bool Reals Lra Psatz.
From TLV Require Import Base.Shape Base.PyList Base.Tensor Base.Ops Base.RSum Model.Metrics Proofs.MetricsProofs
  Proofs.MetricsProofs3 Proofs.MetricsProofs7.
Import ListNotations.
Local Open Scope R_scope.

Lemma shape_covariance_axis (a : nat) (y z : tensor R) : shape (covariance Rops (Some a) y z) = remove_nth a (shape y).
Proof. reflexivity. Qed.

Section CorrBound.
Context (yt yp : tensor R) (Wt : wf yt) (Wp : wf yp) (Sh : shape yp = shape yt).

Theorem corr_parts_axis_bound a idx : (a < ndim yt)%nat -> inb (remove_nth a (shape yt)) idx ->
  let parts := corr_parts Rops (Some a) yt yp in
  (tget Rops (fst parts) idx) ^ 2 <= tget Rops (snd parts) idx /\
  0 <= tget Rops (variance Rops (Some a) yt) idx /\ 0 <= tget Rops (variance Rops (Some a) yp) idx.
Proof.
  intros Ha Hi. cbv zeta. unfold corr_parts. cbn [fst snd].
  assert (Hap : (a < ndim yp)%nat) by (unfold ndim in *; now rewrite Sh).
  assert (Hip : inb (remove_nth a (shape yp)) idx) by now rewrite Sh.
  rewrite tget_tzip by (unfold variance; rewrite shape_covariance_axis; exact Hi).
  unfold variance.
  rewrite (covariance_axis_def yt yp Wt Wp Sh a Ha idx Hi).
  rewrite (covariance_axis_def yt yt Wt Wt eq_refl a Ha idx Hi).
  rewrite (covariance_axis_def yp yp Wp Wp eq_refl a Hap idx Hip).
  assert (Esm : slice_mean yp a yp idx = slice_mean yt a yp idx) by (unfold slice_mean; now rewrite Sh).
  rewrite Esm, Sh.
  set (n := nth a (shape yt) 0%nat).
  set (f := fun k => tget Rops yt (insert_at a k idx) - slice_mean yt a yt idx).
  set (g := fun k => tget Rops yp (insert_at a k idx) - slice_mean yt a yp idx).
  change (mean_of n (fun k => f k * g k) ^ 2 <= mean_of n (fun k => f k * f k) * mean_of n (fun k => g k * g k) /\
          0 <= mean_of n (fun k => f k * f k) /\ 0 <= mean_of n (fun k => g k * g k)).
  split; [apply cov_sq_le_var_var|]. split; apply mean_sq_nonneg.
Qed.

Theorem corr_parts_none_bound :
  let parts := corr_parts Rops None yt yp in
  (tget Rops (fst parts) []) ^ 2 <= tget Rops (snd parts) [] /\
  0 <= tget Rops (variance Rops None yt) [] /\ 0 <= tget Rops (variance Rops None yp) [].
Proof.
  cbv zeta. unfold corr_parts. cbn [fst snd].
  rewrite tget_tzip by (cbn; exact I). unfold variance.
  rewrite (covariance_none_def yt yp Wt Wp Sh).
  rewrite (covariance_none_def yt yt Wt Wt eq_refl).
  rewrite (covariance_none_def yp yp Wp Wp eq_refl). rewrite Sh.
  set (n := prod (shape yt)).
  set (f := fun k => nth k (data yt) 0 - mean_of n (fun k0 => nth k0 (data yt) 0)).
  set (g := fun k => nth k (data yp) 0 - mean_of n (fun k0 => nth k0 (data yp) 0)).
  change (mean_of n (fun k => f k * g k) ^ 2 <= mean_of n (fun k => f k * f k) * mean_of n (fun k => g k * g k) /\
          0 <= mean_of n (fun k => f k * f k) /\ 0 <= mean_of n (fun k => g k * g k)).
  split; [apply cov_sq_le_var_var|]. split; apply mean_sq_nonneg.
Qed.
End CorrBound.

(* ---------- leverage scores: the renormalisation branch (lower-precision input) ---------- *)
Lemma fold_Rplus_acc' l : forall a, fold_left Rplus l a = a + fold_left Rplus l 0.
Proof. induction l as [|x l IH]; intros a; cbn [fold_left]; [ring|]. rewrite IH, (IH (0 + x)). ring. Qed.

Lemma fsum_map_div (l : list R) t : fsum Rops (map (fun x => x / t) l) = fsum Rops l / t.
Proof.
  unfold fsum. cbn [fadd f0 Rops]. induction l as [|x l IH]; cbn [map fold_left]; [unfold Rdiv; ring|].
  rewrite fold_Rplus_acc', IH, (fold_Rplus_acc' l (0 + x)). unfold Rdiv. ring.
Qed.

(* whatever U is (not even unit columns): if the raw scores are non-negative with a positive sum, the renormalised
   vector is a probability vector; with unit-norm columns the renormalisation is the identity *)
Theorem leverage_any_simplex renorm (U : mat R) sv nr nc eps l :
  leverage_score_dist_any Rops renorm U sv nr nc eps = Ok l ->
  (forall j, (j < length sv)%nat -> rsum nr (fun i => (mget Rops U i j) ^ 2) = 1) ->
  length l = nr /\ Forall (fun x => 0 <= x) l /\ fsum Rops l = 1 /\ leverage_score_dist Rops U sv nr nc eps = Ok l.
Proof.
  unfold leverage_score_dist_any. intros H Hu.
  destruct (leverage_score_dist Rops U sv nr nc eps) as [l0|] eqn:E; [|discriminate].
  destruct (leverage_score_dist_simplex U sv nr nc eps l0 E Hu) as (Hl & Hp & Hs).
  assert (El : l = l0).
  { destruct renorm; inversion H; [|reflexivity]. cbn [fdiv Rops]. rewrite Hs.
    rewrite <- (map_id l0) at 2. apply map_ext. intros x. field. }
  subst l. auto.
Qed.

Theorem leverage_renorm_simplex (U : mat R) sv nr nc eps l0 l :
  leverage_score_dist Rops U sv nr nc eps = Ok l0 -> leverage_score_dist_any Rops true U sv nr nc eps = Ok l ->
  0 < fsum Rops l0 -> Forall (fun x => 0 <= x) l /\ fsum Rops l = 1.
Proof.
  unfold leverage_score_dist_any. intros E H Hp. rewrite E in H. inversion H; subst. clear H. cbn [fdiv Rops]. split.
  - apply Forall_forall. intros y Hy. apply in_map_iff in Hy. destruct Hy as (x & <- & Hx).
    unfold leverage_score_dist in E. destruct (Nat.eqb _ 0); [discriminate|]. inversion E; subst.
    unfold leverage_k in Hx. apply in_map_iff in Hx. destruct Hx as (i & <- & _).
    rewrite sumn_rsum, nat2F_INR. cbn [fdiv Rops].
    apply Rmult_le_pos; [|left; now apply Rinv_0_lt_compat].
    apply Rmult_le_pos; [apply rsum_nonneg; intros; unfold fsq; cbn [fmul Rops]; nra|].
    destruct (num_rank Rops sv nr nc eps) eqn:En; [cbn; rewrite Rinv_0; lra || (unfold Rdiv; lra) | left; apply Rinv_0_lt_compat, lt_0_INR; lia].
  - rewrite fsum_map_div. field. lra.
Qed.

(* ---------- the axis argument: NumPy's normalisation of negative axes ---------- *)
Local Close Scope R_scope.
From Coq Require Import ZArith.
Theorem norm_axis_spec (z : Z) (nd : nat) :
  match norm_axis z nd with
  | Ok a => (a < nd)%nat /\ ((0 <= z)%Z /\ Z.of_nat a = z \/ (z < 0)%Z /\ Z.of_nat a = (z + Z.of_nat nd)%Z)
  | Err => (z < - Z.of_nat nd)%Z \/ (Z.of_nat nd <= z)%Z
  end.
Proof.
  unfold norm_axis.
  destruct ((0 <=? z)%Z) eqn:E1; destruct ((z <? Z.of_nat nd)%Z) eqn:E2; cbn [andb].
  - apply Z.leb_le in E1. apply Z.ltb_lt in E2. split; [lia|]. left. split; [exact E1 | apply Z2Nat.id; exact E1].
  - apply Z.leb_le in E1. apply Z.ltb_ge in E2.
    destruct ((- Z.of_nat nd <=? z)%Z); destruct ((z <? 0)%Z) eqn:E4; cbn [andb]; try (right; exact E2).
    apply Z.ltb_lt in E4. lia.
  - apply Z.leb_gt in E1. apply Z.ltb_lt in E2.
    destruct ((- Z.of_nat nd <=? z)%Z) eqn:E3; destruct ((z <? 0)%Z) eqn:E4; cbn [andb].
    + apply Z.leb_le in E3. split; [lia|]. right. split; [exact E1 | apply Z2Nat.id; lia].
    + apply Z.ltb_ge in E4. lia.
    + apply Z.leb_gt in E3. left. exact E3.
    + apply Z.ltb_ge in E4. lia.
  - apply Z.leb_gt in E1. apply Z.ltb_ge in E2. lia.
Qed.
