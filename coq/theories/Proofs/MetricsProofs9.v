(* Lemmas for C20, part 9:
   (a) a dual certificate bounds the weight of EVERY perfect matching (weak LP duality), so a matching whose weight is
       within eps of the certificate's bound is eps-optimal -- no assumption on linear_sum_assignment, any rank;
   (b) the sqrt-based regression metrics (RMSE, standard_deviation, correlation, reflective correlation) as model
       functions with sq := sqrt: they equal their definitions entry by entry, |correlation| <= 1;
   (c) correlation_index = 0 characterised for EVERY threshold tol (raw index < tol, or covered). *)
From Coq Require Import List Arith Lia Bool Permutation Reals Lra Psatz.
From TLV Require Import Base.Shape Base.PyList Base.Tensor Base.Ops Base.RSum Model.Metrics Proofs.MetricsProofs
  Proofs.MetricsProofs2 Proofs.MetricsProofs3 Proofs.MetricsProofs4 Proofs.MetricsProofs6 Proofs.MetricsProofs7 Proofs.MetricsProofs8.
Import ListNotations.
Local Open Scope R_scope.

(* ---------- (a) sums over a permutation; weak duality ---------- *)
Fixpoint lsum (l : list nat) (f : nat -> R) : R := match l with [] => 0 | k :: r => f k + lsum r f end.

Lemma lsum_perm l l' f : Permutation l l' -> lsum l f = lsum l' f.
Proof. induction 1; cbn [lsum]; lra. Qed.

Lemma lsum_app l1 l2 f : lsum (l1 ++ l2) f = lsum l1 f + lsum l2 f.
Proof. induction l1 as [|x l1 IH]; cbn [lsum app]; [lra | rewrite IH; lra]. Qed.

Lemma lsum_seq n f : lsum (seq 0 n) f = rsum n f.
Proof.
  induction n as [|n IH]; [reflexivity|]. rewrite seq_S, lsum_app, IH. cbn [lsum rsum plus]. lra.
Qed.

Lemma rsum_nth_lsum (p : list nat) f : rsum (length p) (fun i => f (nth i p 0%nat)) = lsum p f.
Proof.
  induction p as [|x p IH] using rev_ind; [reflexivity|].
  rewrite app_length, Nat.add_comm. cbn [length plus rsum]. rewrite lsum_app. cbn [lsum].
  rewrite app_nth2 by lia. rewrite Nat.sub_diag. cbn [nth].
  rewrite (rsum_ext (length p) (fun i => f (nth i (p ++ [x]) 0%nat)) (fun i => f (nth i p 0%nat)))
    by (intros i Hi; now rewrite app_nth1). rewrite IH. lra.
Qed.

(* summing v over the image of a permutation = summing v *)
Lemma rsum_permuted r q (v : nat -> R) : is_perm r q -> rsum r (fun i => v (nth i q 0%nat)) = rsum r v.
Proof.
  intros Hq. pose proof (is_perm_Permutation r q Hq) as HP. destruct Hq as (Hl & _).
  rewrite <- Hl at 1. rewrite rsum_nth_lsum. rewrite <- (lsum_perm _ _ v HP). apply lsum_seq.
Qed.

Lemma match_weight_rsum r (C : mat R) p : match_weight Rops r C p = rsum r (fun i => mget Rops C i (nth i p 0%nat)).
Proof. unfold match_weight. apply sumn_rsum. Qed.

Lemma dual_bound_rsum r (C : mat R) vs :
  dual_bound Rops r C vs = rsum r (dual_u Rops r C vs) + rsum r (fun j => nth j vs 0).
Proof. unfold dual_bound. rewrite !sumn_rsum. reflexivity. Qed.

(* feasibility by construction: C_ij <= u_i + v_j *)
Lemma dual_feasible r (C : mat R) vs i j : (j < r)%nat -> mget Rops C i j <= dual_u Rops r C vs i + nth j vs 0.
Proof.
  intros Hj. unfold dual_u.
  pose proof (maxn_ge r (fun j => fsub Rops (mget Rops C i j) (nth j vs (f0 Rops))) j Hj) as H. cbn [fsub f0 Rops] in *. lra.
Qed.

(* WEAK DUALITY: whatever the potentials vs, every perfect matching weighs at most dual_bound *)
Theorem weak_duality r (C : mat R) vs q : is_perm r q -> match_weight Rops r C q <= dual_bound Rops r C vs.
Proof.
  intros Hq. rewrite match_weight_rsum, dual_bound_rsum.
  rewrite <- (rsum_permuted r q (fun j => nth j vs 0) Hq). rewrite <- rsum_add.
  apply rsum_le. intros i Hi. apply dual_feasible. now apply is_perm_nth.
Qed.

(* the certificate: a matching whose weight is within eps of the dual bound is eps-optimal (total weight) ... *)
Theorem dual_certificate_weight r (C : mat R) vs p eps : dual_gap Rops r C vs p <= eps ->
  forall q, is_perm r q -> match_weight Rops r C q <= match_weight Rops r C p + eps.
Proof.
  intros Hg q Hq. pose proof (weak_duality r C vs q Hq) as W. unfold dual_gap in Hg. cbn [fsub Rops] in Hg. lra.
Qed.

(* ... and in terms of the value congruence_coefficient returns (the mean): within eps / r of the maximum *)
Theorem dual_certificate_optimal r (C : mat R) vs p eps : (0 < r)%nat -> dual_gap Rops r C vs p <= eps ->
  forall q, is_perm r q -> score Rops r C q <= score Rops r C p + eps / INR r.
Proof.
  intros Hr Hg q Hq. pose proof (dual_certificate_weight r C vs p eps Hg q Hq) as W.
  rewrite !match_weight_rsum in W. rewrite !score_rsum.
  assert (Hp : 0 < INR r) by (apply lt_0_INR; exact Hr).
  apply (Rmult_le_reg_r (INR r)); [exact Hp|].
  replace ((rsum r (fun i => mget Rops C i (nth i p 0%nat)) / INR r + eps / INR r) * INR r)
    with (rsum r (fun i => mget Rops C i (nth i p 0%nat)) + eps) by (field; lra).
  replace (rsum r (fun i => mget Rops C i (nth i q 0%nat)) / INR r * INR r)
    with (rsum r (fun i => mget Rops C i (nth i q 0%nat))) by (field; lra).
  exact W.
Qed.

(* the gap of a certificate is never negative for a permutation: gap 0 = exactly optimal *)
Theorem dual_gap_nonneg r (C : mat R) vs p : is_perm r p -> 0 <= dual_gap Rops r C vs p.
Proof. intros Hp. pose proof (weak_duality r C vs p Hp). unfold dual_gap. cbn [fsub Rops]. lra. Qed.

Theorem dual_gap_zero_optimal r (C : mat R) vs p : (0 < r)%nat -> dual_gap Rops r C vs p <= 0 ->
  forall q, is_perm r q -> score Rops r C q <= score Rops r C p.
Proof.
  intros Hr Hg q Hq. pose proof (dual_certificate_optimal r C vs p 0 Hr Hg q Hq) as H.
  unfold Rdiv in H. rewrite Rmult_0_l in H. lra.
Qed.

(* the wiring: congruence (the model of congruence_coefficient) with ANY assignment oracle; if the returned matching passes
   the certificate check then the returned value is within eps / r of the maximum over all matchings *)
Theorem congruence_certified absv As Bs nas nbs assign v p vs eps :
  congruence Rops absv As Bs nas nbs assign = Ok (v, p) ->
  let r := ncols (hd [] As) in let C := cong_all Rops absv r (zip_modes As Bs nas nbs) in
  (0 < r)%nat -> dual_gap Rops r C vs p <= eps ->
  v = score Rops r C p /\ forall q, is_perm r q -> score Rops r C q <= v + eps / INR r.
Proof.
  intros H r C Hr Hg. pose proof (congruence_ok_inv _ _ _ _ _ _ _ _ H) as Hi. cbv zeta in Hi. fold r in Hi. fold C in Hi.
  destruct Hi as (_ & Ev). split; [exact Ev|]. intros q Hq. rewrite Ev. now apply (dual_certificate_optimal r C vs p eps).
Qed.

(* ---------- (b) sqrt-based metrics ---------- *)
Lemma wf_tsum ax (t : tensor R) : wf (tsum Rops ax t).
Proof. destruct ax; unfold tsum; [apply wf_tabulate | reflexivity]. Qed.
Lemma wf_tmean ax (t : tensor R) : wf (tmean Rops ax t).
Proof. unfold tmean. apply wf_tmap, wf_tsum. Qed.
Lemma shape_tmean ax (t : tensor R) : shape (tmean Rops ax t) = rshape ax (shape t).
Proof. destruct ax; reflexivity. Qed.
Lemma shape_MSE ax (yt yp : tensor R) : shape (MSE Rops ax yt yp) = rshape ax (shape yt).
Proof. destruct ax; reflexivity. Qed.
Lemma shape_covariance ax (y z : tensor R) : shape (covariance Rops ax y z) = rshape ax (shape y).
Proof. destruct ax; reflexivity. Qed.

Theorem RMSE_is_sqrt ax (yt yp : tensor R) idx : inb (rshape ax (shape yt)) idx ->
  tget Rops (RMSE Rops sqrt ax yt yp) idx = sqrt (tget Rops (MSE Rops ax yt yp) idx).
Proof.
  intros Hi. unfold RMSE. apply tget_tmap; [apply wf_tmean | rewrite shape_MSE; exact Hi].
Qed.

Theorem std_is_sqrt ax (y : tensor R) idx : inb (rshape ax (shape y)) idx ->
  tget Rops (standard_deviation Rops sqrt ax y) idx = sqrt (tget Rops (variance Rops ax y) idx).
Proof.
  intros Hi. unfold standard_deviation. apply tget_tmap; [apply wf_tmean | unfold variance; rewrite shape_covariance; exact Hi].
Qed.

Lemma ratio_parts_get (parts : tensor R * tensor R) idx : wf (snd parts) -> shape (snd parts) = shape (fst parts) ->
  inb (shape (fst parts)) idx ->
  tget Rops (ratio_parts Rops sqrt parts) idx = tget Rops (fst parts) idx / sqrt (tget Rops (snd parts) idx).
Proof.
  intros Hw Hs Hi. unfold ratio_parts. rewrite tget_tzip by exact Hi.
  rewrite tget_tmap; [reflexivity | exact Hw | rewrite Hs; exact Hi].
Qed.

Theorem correlation_is_ratio ax (yt yp : tensor R) idx : inb (rshape ax (shape yt)) idx ->
  tget Rops (correlation Rops sqrt ax yt yp) idx =
  tget Rops (covariance Rops ax yt yp) idx / sqrt (tget Rops (variance Rops ax yt) idx * tget Rops (variance Rops ax yp) idx).
Proof.
  intros Hi. unfold correlation. rewrite ratio_parts_get.
  - unfold corr_parts. cbn [fst snd]. rewrite tget_tzip by (unfold variance; rewrite shape_covariance; exact Hi). reflexivity.
  - unfold corr_parts. cbn [snd]. apply wf_tzip.
  - unfold corr_parts. cbn [fst snd]. unfold tzip, variance. cbn [shape]. now rewrite !shape_covariance.
  - unfold corr_parts. cbn [fst]. rewrite shape_covariance. exact Hi.
Qed.

Lemma ratio_abs_le_1 num den : 0 < den -> num ^ 2 <= den -> Rabs (num / sqrt den) <= 1.
Proof.
  intros Hd Hn. assert (Hq : 0 < sqrt den) by now apply sqrt_lt_R0.
  assert (Hq2 : sqrt den * sqrt den = den) by (apply sqrt_sqrt; lra).
  apply sq_le_1_Rabs. replace ((num / sqrt den) ^ 2) with (num ^ 2 / (sqrt den * sqrt den)) by (field; lra).
  rewrite Hq2. apply (Rmult_le_reg_r den); [exact Hd|]. replace (num ^ 2 / den * den) with (num ^ 2) by (field; lra). lra.
Qed.

Lemma inb_nil_inv idx : inb [] idx -> idx = [].
Proof. destruct idx; [reflexivity | cbn; tauto]. Qed.

(* |correlation| <= 1 wherever the radicand is positive (i.e. wherever the code does not divide by zero) *)
Theorem correlation_abs_le_1 ax (yt yp : tensor R) idx : wf yt -> wf yp -> shape yp = shape yt ->
  axis_ok ax yt = true -> inb (rshape ax (shape yt)) idx ->
  0 < tget Rops (variance Rops ax yt) idx * tget Rops (variance Rops ax yp) idx ->
  Rabs (tget Rops (correlation Rops sqrt ax yt yp) idx) <= 1.
Proof.
  intros Wt Wp Sh Hax Hi Hpos. rewrite correlation_is_ratio by exact Hi.
  apply ratio_abs_le_1; [exact Hpos|].
  destruct ax as [a|].
  - cbn [axis_ok] in Hax. apply Nat.ltb_lt in Hax. cbn [rshape] in Hi.
    destruct (corr_parts_axis_bound yt yp Wt Wp Sh a idx Hax Hi) as (B & _).
    unfold corr_parts in B. cbn [fst snd] in B.
    rewrite tget_tzip in B by (unfold variance; rewrite shape_covariance_axis; exact Hi). exact B.
  - cbn [rshape] in Hi. apply inb_nil_inv in Hi. subst idx.
    destruct (corr_parts_none_bound yt yp Wt Wp Sh) as (B & _).
    unfold corr_parts in B. cbn [fst snd] in B. rewrite tget_tzip in B by (cbn; exact I). exact B.
Qed.

(* reflective correlation: num / sqrt(den) with num = sum yt*yp, den = (sum yt^2) (sum yp^2) *)
Lemma shape_tsum ax (t : tensor R) : shape (tsum Rops ax t) = rshape ax (shape t).
Proof. destruct ax; reflexivity. Qed.

Theorem reflective_is_ratio ax (yt yp : tensor R) idx : inb (rshape ax (shape yt)) idx ->
  tget Rops (reflective_correlation Rops sqrt ax yt yp) idx =
  tget Rops (tsum Rops ax (tzip Rops Rmult yt yp)) idx /
  sqrt (tget Rops (tsum Rops ax (tmap (fsq Rops) yt)) idx * tget Rops (tsum Rops ax (tmap (fsq Rops) yp)) idx).
Proof.
  intros Hi. unfold reflective_correlation. rewrite ratio_parts_get.
  - unfold refl_parts. cbn [fst snd]. rewrite tget_tzip by (rewrite shape_tsum; exact Hi). reflexivity.
  - unfold refl_parts. cbn [snd]. apply wf_tzip.
  - unfold refl_parts. cbn [fst snd]. unfold tzip at 1. cbn [shape]. now rewrite !shape_tsum.
  - unfold refl_parts. cbn [fst]. rewrite shape_tsum. exact Hi.
Qed.

Lemma tsum_axis_get (t : tensor R) a idx : inb (remove_nth a (shape t)) idx ->
  tget Rops (tsum Rops (Some a) t) idx = rsum (nth a (shape t) 0%nat) (fun k => tget Rops t (insert_at a k idx)).
Proof. intros Hi. unfold tsum. rewrite tget_tabulate by exact Hi. apply sumn_rsum. Qed.

(* axis = a: the three sums are the textbook ones and |reflective correlation| <= 1 (Cauchy-Schwarz) *)
Theorem reflective_axis_def_bound (yt yp : tensor R) a idx : wf yt -> wf yp -> shape yp = shape yt ->
  (a < ndim yt)%nat -> inb (remove_nth a (shape yt)) idx ->
  let n := nth a (shape yt) 0%nat in
  let f := fun k => tget Rops yt (insert_at a k idx) in let g := fun k => tget Rops yp (insert_at a k idx) in
  tget Rops (reflective_correlation Rops sqrt (Some a) yt yp) idx =
    rsum n (fun k => f k * g k) / sqrt (rsum n (fun k => f k ^ 2) * rsum n (fun k => g k ^ 2)) /\
  (0 < rsum n (fun k => f k ^ 2) * rsum n (fun k => g k ^ 2) ->
   Rabs (tget Rops (reflective_correlation Rops sqrt (Some a) yt yp) idx) <= 1).
Proof.
  intros Wt Wp Sh Ha Hi n f g.
  assert (E : tget Rops (reflective_correlation Rops sqrt (Some a) yt yp) idx =
              rsum n (fun k => f k * g k) / sqrt (rsum n (fun k => f k ^ 2) * rsum n (fun k => g k ^ 2))).
  { rewrite reflective_is_ratio by exact Hi.
    assert (Hin : forall k, (k < n)%nat -> inb (shape yt) (insert_at a k idx)) by (intros; apply inb_reinsert; auto).
    rewrite !tsum_axis_get; [| cbn [tmap shape]; rewrite Sh; exact Hi | exact Hi | exact Hi].
    cbn [tmap tzip shape]. unfold tzip. cbn [shape]. rewrite Sh. fold n.
    f_equal; [| f_equal; f_equal].
    - apply rsum_ext. intros k Hk. rewrite tget_tabulate by (apply Hin; exact Hk). reflexivity.
    - apply rsum_ext. intros k Hk. rewrite tget_tmap; [| exact Wt | apply Hin; exact Hk]. unfold fsq, f. cbn [fmul Rops]. ring.
    - apply rsum_ext. intros k Hk. rewrite tget_tmap; [| exact Wp | rewrite Sh; apply Hin; exact Hk]. unfold fsq, g. cbn [fmul Rops]. ring. }
  split; [exact E|]. intros Hpos. rewrite E. apply ratio_abs_le_1; [exact Hpos | apply cauchy_schwarz].
Qed.

(* ---------- (c) correlation index = 0, any threshold ---------- *)
Definition ci_raw (m : cmode R) : R := corr_index_raw Rops (mA m) (mB m) (nA m) (nB m).

Lemma ci_one_threshold tol (m : cmode R) : ci_one tol m = if fltb Rops (ci_raw m) tol then 0 else ci_raw m.
Proof. reflexivity. Qed.

Lemma ci_raw_unfold r (m : cmode R) : mode_ok r m -> (0 < r)%nat ->
  ci_raw m = 1 / INR (r + r) * ci_sum r (cong_one Rops true m).
Proof.
  intros Hm Hr. pose proof (corr_index_one_unfold (-1) r m Hm Hr) as H. cbv zeta in H.
  change (corr_index_one Rops (-1) (mA m) (mB m) (nA m) (nB m)) with (ci_one (-1) m) in H.
  rewrite ci_one_threshold in H.
  pose proof (ci_sum_range r m Hm Hr) as (L & _).
  assert (Hp : 0 < INR (r + r)) by (apply lt_0_INR; lia).
  set (s := 1 / INR (r + r) * ci_sum r (cong_one Rops true m)) in *.
  assert (Hs : 0 <= s).
  { unfold s. apply Rmult_le_pos; [|exact L]. unfold Rdiv. rewrite Rmult_1_l. left. now apply Rinv_0_lt_compat. }
  assert (F2 : fltb Rops s (-1) = false).
  { unfold fltb. cbn [fleb Rops]. assert (Rleb (-1) s = true) as -> by (apply Rleb_true; lra). reflexivity. }
  rewrite F2 in H.
  destruct (fltb Rops (ci_raw m) (-1)) eqn:F1; [|exact H].
  (* raw < -1 and 0 = s: then the raw value ... cannot happen since H : 0 = s and raw itself is what? *)
  exfalso. unfold fltb in F1. cbn [fleb Rops] in F1. apply negb_true_iff in F1. apply Rleb_false in F1.
  (* ci_raw m < -1 : but ci_raw m is, by conversion, the value computed inside corr_index_one; use tol := ci_raw m - 1 *)
  pose proof (corr_index_one_unfold (ci_raw m - 1) r m Hm Hr) as H'. cbv zeta in H'.
  change (corr_index_one Rops (ci_raw m - 1) (mA m) (mB m) (nA m) (nB m)) with (ci_one (ci_raw m - 1) m) in H'.
  rewrite ci_one_threshold in H'. fold s in H'.
  assert (G1 : fltb Rops (ci_raw m) (ci_raw m - 1) = false).
  { unfold fltb. cbn [fleb Rops]. assert (Rleb (ci_raw m - 1) (ci_raw m) = true) as -> by (apply Rleb_true; lra). reflexivity. }
  assert (G2 : fltb Rops s (ci_raw m - 1) = false).
  { unfold fltb. cbn [fleb Rops]. assert (Rleb (ci_raw m - 1) s = true) as -> by (apply Rleb_true; lra). reflexivity. }
  rewrite G1, G2 in H'. lra.
Qed.

Lemma ci_raw_nonneg_zero r (m : cmode R) : mode_ok r m -> (0 < r)%nat ->
  0 <= ci_raw m /\ (ci_raw m = 0 <-> cols_covered m r).
Proof.
  intros Hm Hr. rewrite (ci_raw_unfold r m Hm Hr).
  pose proof (ci_sum_range r m Hm Hr) as (L & _).
  assert (Hp : 0 < INR (r + r)) by (apply lt_0_INR; lia).
  assert (Hi : 0 < 1 / INR (r + r)) by (unfold Rdiv; rewrite Rmult_1_l; now apply Rinv_0_lt_compat).
  split; [apply Rmult_le_pos; lra|].
  rewrite <- (ci_sum_zero_iff r m Hm Hr). split; intros H; [nra | rewrite H; ring].
Qed.

(* what "the pair counts as equivalent" means to the code, for ANY threshold: the raw index is below tol, or the pair is covered *)
Definition ci_negligible (tol : R) (m : cmode R) : Prop := ci_raw m < tol \/ cols_covered m (ncols (mA m)).

Lemma ci_one_zero_iff tol (m : cmode R) : mode_ok (ncols (mA m)) m -> (ci_one tol m = 0 <-> ci_negligible tol m).
Proof.
  intros Hm. destruct (Nat.eq_dec (ncols (mA m)) 0) as [E0|E0].
  - split; intros _.
    + right. rewrite E0. split; intros k Hk; lia.
    + apply corr_index_one_rank0; [exact E0 | destruct Hm as (_ & Hb & _); now rewrite Hb].
  - assert (Hr : (0 < ncols (mA m))%nat) by lia.
    destruct (ci_raw_nonneg_zero _ m Hm Hr) as (Hn & Hz).
    rewrite ci_one_threshold. unfold ci_negligible, fltb. cbn [fleb Rops].
    destruct (Rleb tol (ci_raw m)) eqn:E; cbn [negb].
    + apply Rleb_true in E. rewrite Hz. split; [intros H; now right | intros [H|H]; [lra | exact H]].
    + apply Rleb_false in E. split; [intros _; now left | reflexivity].
Qed.

Lemma fold_fmin_le l : forall a, fold_left (fmin Rops) l a <= a /\ forall x, In x l -> fold_left (fmin Rops) l a <= x.
Proof.
  induction l as [|y l IH]; intros a; cbn [fold_left]; [split; [lra | intros x []]|].
  destruct (IH (fmin Rops a y)) as (A & B).
  assert (Hm : fmin Rops a y <= a /\ fmin Rops a y <= y).
  { unfold fmin. cbn [fleb Rops]. destruct (Rleb a y) eqn:E; [apply Rleb_true in E | apply Rleb_false in E]; lra. }
  split; [lra|]. intros x [<-|Hx]; [lra | now apply B].
Qed.

(* Stacked / MaxScore / AvgScore: the index is 0 exactly when EVERY compared pair is negligible *)
Theorem correlation_index_zero_iff_all meth tol f1s f2s n1s n2s v :
  meth <> MinScore ->
  correlation_index Rops (Some meth) tol f1s f2s n1s n2s = Ok v ->
  tape_valid (ci_modes meth f1s f2s n1s n2s) ->
  (v = 0 <-> forall m, In m (ci_modes meth f1s f2s n1s n2s) -> ci_negligible tol m).
Proof.
  intros Hne H Ht.
  destruct (correlation_index_inv _ _ _ _ _ _ _ H) as (Hs & Ev). cbv zeta in Ev.
  pose proof (modes_ok_of_inv _ Hs Ht) as Hok.
  set (ms := ci_modes meth f1s f2s n1s n2s) in *.
  assert (Hall : Forall (fun x => 0 <= x <= 1) (map (ci_one tol) ms)).
  { apply Forall_forall. intros x Hx. apply in_map_iff in Hx. destruct Hx as (m' & <- & Hm'). apply ci_one_range. now apply Hok. }
  split.
  - intros Hv m Hm. apply (ci_one_zero_iff tol m (Hok m Hm)).
    assert (Hin : In (ci_one tol m) (map (ci_one tol) ms)) by now apply in_map.
    destruct meth; try congruence.
    + (* Stacked *)
      assert (Es : ms = [m]) by (apply zip_modes_single; exact Hm). rewrite Es in Ev. cbn [map hd] in Ev. lra.
    + (* MaxScore *)
      rewrite Forall_forall in Hall. pose proof (Hall _ Hin) as (L & _).
      assert (U : ci_one tol m <= list_max Rops (map (ci_one tol) ms)).
      { destruct (map (ci_one tol) ms) as [|x l]; [contradiction|]. cbn [list_max].
        destruct Hin as [<-|Hin]; [apply (proj1 (fold_fmax_ge l x)) | apply (proj2 (fold_fmax_ge l x)); exact Hin]. }
      rewrite <- Ev, Hv in U. lra.
    + (* AvgScore *)
      assert (Hall0 : Forall (fun x => 0 <= x) (map (ci_one tol) ms)).
      { eapply Forall_impl; [|exact Hall]. cbv beta. intros; lra. }
      assert (Hlen : 0 < INR (length (map (ci_one tol) ms))).
      { apply lt_0_INR. rewrite map_length. destruct ms; [contradiction | cbn; lia]. }
      assert (Hsum : fsum Rops (map (ci_one tol) ms) = 0).
      { unfold list_mean in Ev. rewrite nat2F_INR in Ev. cbn [fdiv Rops] in Ev. rewrite Hv in Ev.
        apply (Rmult_eq_reg_r (/ INR (length (map (ci_one tol) ms)))); [|apply Rinv_neq_0_compat; lra].
        rewrite Rmult_0_l. symmetry. exact Ev. }
      pose proof (fsum_nonneg_zero _ Hall0 Hsum) as Hz. rewrite Forall_forall in Hz. now apply Hz.
  - intros Hc.
    assert (Hz : Forall (fun x => x = 0) (map (ci_one tol) ms)).
    { apply Forall_forall. intros x Hx. apply in_map_iff in Hx. destruct Hx as (m & <- & Hm).
      apply (ci_one_zero_iff tol m (Hok m Hm)). now apply Hc. }
    destruct (list_stats_zero _ Hz) as (A & B & C & D). rewrite Ev. destruct meth; try congruence; assumption.
Qed.

(* MinScore: the index is 0 exactly when SOME compared pair is negligible *)
Theorem correlation_index_zero_iff_min tol f1s f2s n1s n2s v :
  correlation_index Rops (Some MinScore) tol f1s f2s n1s n2s = Ok v ->
  tape_valid (ci_modes MinScore f1s f2s n1s n2s) -> ci_modes MinScore f1s f2s n1s n2s <> [] ->
  (v = 0 <-> exists m, In m (ci_modes MinScore f1s f2s n1s n2s) /\ ci_negligible tol m).
Proof.
  intros H Ht Hne.
  destruct (correlation_index_inv _ _ _ _ _ _ _ H) as (Hs & Ev). cbv zeta in Ev.
  pose proof (modes_ok_of_inv _ Hs Ht) as Hok.
  set (ms := ci_modes MinScore f1s f2s n1s n2s) in *.
  split.
  - intros Hv.
    assert (Hin : In v (map (ci_one tol) ms)).
    { rewrite Ev. destruct ms as [|m0 ms']; [congruence|]. cbn [map list_min].
      destruct (fold_fmin_in (map (ci_one tol) ms') (ci_one tol m0)) as [E|E]; [rewrite E; now left | right; exact E]. }
    apply in_map_iff in Hin. destruct Hin as (m & Em & Hm). exists m. split; [exact Hm|].
    apply (ci_one_zero_iff tol m (Hok m Hm)). lra.
  - intros (m & Hm & Hc).
    assert (Hz : ci_one tol m = 0) by (apply (ci_one_zero_iff tol m (Hok m Hm)); exact Hc).
    assert (Hall : forall x, In x (map (ci_one tol) ms) -> 0 <= x).
    { intros x Hx. apply in_map_iff in Hx. destruct Hx as (m' & <- & Hm'). apply ci_one_range. now apply Hok. }
    assert (Hin : In (ci_one tol m) (map (ci_one tol) ms)) by now apply in_map.
    rewrite Ev. destruct (map (ci_one tol) ms) as [|x l]; [contradiction|]. cbn [list_min].
    destruct (fold_fmin_le l x) as (A & B).
    destruct (fold_fmin_bounds l 0 x (Hall x (or_introl eq_refl)) (fun y Hy => Hall y (or_intror Hy))) as (L & _).
    destruct Hin as [E|Hin]; [| pose proof (B _ Hin)]; lra.
Qed.

(* without a positive threshold "negligible" is "covered": the index is 0 EXACTLY for covered pairs *)
Lemma ci_negligible_tol0 tol (m : cmode R) : tol <= 0 -> mode_ok (ncols (mA m)) m ->
  (ci_negligible tol m <-> cols_covered m (ncols (mA m))).
Proof.
  intros Ht Hm. split; [|intros H; now right]. intros [H|H]; [|exact H].
  destruct (Nat.eq_dec (ncols (mA m)) 0) as [E0|E0].
  - rewrite E0. split; intros k Hk; lia.
  - destruct (ci_raw_nonneg_zero _ m Hm) as (Hn & _); [lia | lra].
Qed.

Theorem correlation_index_zero_exact_all meth tol f1s f2s n1s n2s v :
  meth <> MinScore ->
  correlation_index Rops (Some meth) tol f1s f2s n1s n2s = Ok v -> tol <= 0 ->
  tape_valid (ci_modes meth f1s f2s n1s n2s) ->
  (v = 0 <-> forall m, In m (ci_modes meth f1s f2s n1s n2s) -> cols_covered m (ncols (mA m))).
Proof.
  intros Hne H Htol Ht. rewrite (correlation_index_zero_iff_all meth tol f1s f2s n1s n2s v Hne H Ht).
  destruct (correlation_index_inv _ _ _ _ _ _ _ H) as (Hs & _). pose proof (modes_ok_of_inv _ Hs Ht) as Hok.
  split; intros K m Hm; apply (ci_negligible_tol0 tol m Htol (Hok m Hm)); now apply K.
Qed.

Theorem correlation_index_zero_exact_min tol f1s f2s n1s n2s v :
  correlation_index Rops (Some MinScore) tol f1s f2s n1s n2s = Ok v -> tol <= 0 ->
  tape_valid (ci_modes MinScore f1s f2s n1s n2s) -> ci_modes MinScore f1s f2s n1s n2s <> [] ->
  (v = 0 <-> exists m, In m (ci_modes MinScore f1s f2s n1s n2s) /\ cols_covered m (ncols (mA m))).
Proof.
  intros H Htol Ht Hne. rewrite (correlation_index_zero_iff_min tol f1s f2s n1s n2s v H Ht Hne).
  destruct (correlation_index_inv _ _ _ _ _ _ _ H) as (Hs & _). pose proof (modes_ok_of_inv _ Hs Ht) as Hok.
  split; intros (m & Hm & K); exists m; (split; [exact Hm|]); apply (ci_negligible_tol0 tol m Htol (Hok m Hm)); exact K.
Qed.
