(* Source tie, the proved half: for every carrier and ALL inputs the interpretation (Model/MetricsSrc.v) of the canonical
   decision records is the hand-written model of Model/Metrics.v.  The per-run half -- the record extracted from the
   current Python source equals the canonical one -- is a closed computation done by the harness. *)
From Coq Require Import List Arith Bool.
From TLV Require Import Base.Shape Base.PyList Base.Tensor Base.Ops Model.Metrics Model.MetricsSrc.
Import ListNotations.

Section T.
Context {F : Type} (Op : fops F).

Theorem cong_matrix_src_canonical absv (As Bs : list (mat F)) nas nbs :
  cong_matrix_src Op canonical_cs absv As Bs nas nbs = cong_matrix Op absv As Bs nas nbs.
Proof.
  unfold cong_matrix_src, cong_matrix. cbn [canonical_cs cs_len cs_cols cs_rows cs_zero1 cs_zero2 andb].
  destruct (negb (Nat.eqb (length As) (length Bs))); [reflexivity|].
  destruct As as [|A0 As']; [reflexivity|]. rewrite existsb_app. reflexivity.
Qed.

Theorem congruence_src_canonical absv (As Bs : list (mat F)) nas nbs assign :
  congruence_src Op canonical_cs absv As Bs nas nbs assign = congruence Op absv As Bs nas nbs assign.
Proof. unfold congruence_src, congruence. now rewrite cong_matrix_src_canonical. Qed.

Theorem corr_index_one_src_canonical tol (X1 X2 : mat F) n1 n2 :
  corr_index_one_src Op canonical_ci tol X1 X2 n1 n2 = corr_index_one Op tol X1 X2 n1 n2.
Proof. reflexivity. Qed.

Theorem correlation_index_src_canonical meth tol (f1s f2s : list (mat F)) n1s n2s :
  correlation_index_src Op canonical_ci meth tol f1s f2s n1s n2s = correlation_index Op meth tol f1s f2s n1s n2s.
Proof.
  unfold correlation_index_src, correlation_index. cbn [canonical_ci ci_rank ci_methods ci_stack ci_shapes ci_zero1 ci_zero2 ci_red andb].
  destruct (negb (one_rank f1s && one_rank f2s)); [reflexivity|].
  destruct meth as [me|]; [|reflexivity]. destruct me; reflexivity.
Qed.

Theorem leverage_src_canonical low (U : mat F) sv nr nc eps :
  leverage_src Op canonical_lv low U sv nr nc eps = leverage_score_dist_any Op low U sv nr nc eps.
Proof.
  unfold leverage_src, leverage_score_dist_any, leverage_score_dist.
  change (num_rank_src Op canonical_lv sv nr nc eps) with (num_rank Op sv nr nc eps).
  destruct (Nat.eqb (num_rank Op sv nr nc eps) 0); [reflexivity|]. destruct low; reflexivity.
Qed.

Theorem cp_permute_factors_src_canonical (ref fs : list (mat F)) w nas nbs assign :
  cp_permute_factors_src Op canonical_pp ref fs w nas nbs assign = cp_permute_factors Op ref fs w nas nbs assign.
Proof. reflexivity. Qed.

Theorem cp_permute_factors_list_src_canonical (ref : list (mat F)) nas ts assign :
  cp_permute_factors_list_src Op canonical_pp ref nas ts assign = cp_permute_factors_list Op ref nas ts assign.
Proof.
  induction ts as [|[[w fs] nbs] ts IH]; [reflexivity|]. cbn [cp_permute_factors_list_src cp_permute_factors_list].
  now rewrite IH, cp_permute_factors_src_canonical.
Qed.
End T.
