(* Lemmas about Model/Nnls.v at the real instance: list-level model <-> the function-level
   engines of Base/RSum.v (qp_f, qp_grad, hals_new, hals_row_exact, kkt_optimal). *)
From Coq Require Import List Arith Bool Reals Lra Lia Psatz.
From TLV Require Import Base.Ops Base.PyList Base.Tensor Base.RSum Model.Nnls.
Import ListNotations.
Open Scope R_scope.

Notation mat := (list (list R)).
Notation Mget := (mget Rops).

(* ---------- sums ---------- *)
Lemma rsum_shift n f : rsum (S n) f = f O + rsum n (fun i => f (S i)).
Proof. induction n; [simpl; ring|]. cbn [rsum] in *. rewrite IHn. ring. Qed.

Lemma dot_rsum a : forall b, length b = length a ->
  dot Rops a b = rsum (length a) (fun i => nth i a 0 * nth i b 0).
Proof.
  induction a as [|x a IH]; intros [|y b] H; try discriminate; [reflexivity|].
  cbn [dot length]. rewrite rsum_shift. cbn [nth]. rewrite (IH b) by (simpl in H; lia). reflexivity.
Qed.

(* ---------- shapes ---------- *)
Definition wfm (r n : nat) (V : mat) : Prop := length V = r /\ forall i, (i < r)%nat -> length (nth i V []) = n.

Lemma nth_map_seq {A} (f : nat -> A) n j d : (j < n)%nat -> nth j (map f (seq 0 n)) d = f j.
Proof. intros H. rewrite (nth_map' f (seq 0 n) j 0%nat d) by (now rewrite seq_length). now rewrite seq_nth. Qed.

Lemma mget_set_same k row (V : mat) j : (k < length V)%nat -> Mget (set_nth k row V) k j = nth j row 0.
Proof. intros H. unfold mget, mrow. now rewrite nth_set_nth_same. Qed.
Lemma mget_set_other k row (V : mat) i j : i <> k -> Mget (set_nth k row V) i j = Mget V i j.
Proof. intros H. unfold mget, mrow. now rewrite nth_set_nth_other. Qed.

Lemma nth_mcol (V : mat) i j : (i < length V)%nat -> nth i (mcol Rops V j) 0 = Mget V i j.
Proof. intros H. unfold mcol, mget, mrow. now rewrite (nth_map' _ V i [] 0). Qed.
Lemma length_mcol (V : mat) j : length (mcol Rops V j) = length V.
Proof. unfold mcol. now rewrite map_length. Qed.

Lemma nth_vecmat n g (V : mat) j : (j < n)%nat -> length g = length V ->
  nth j (vecmat Rops n g V) 0 = rsum (length V) (fun i => nth i g 0 * Mget V i j).
Proof.
  intros Hj Hl. unfold vecmat. rewrite nth_map_seq by exact Hj.
  rewrite dot_rsum by (now rewrite length_mcol). rewrite Hl.
  apply rsum_ext. intros i Hi. now rewrite nth_mcol.
Qed.

Lemma wfm_set_nth r n k row V : wfm r n V -> length row = n -> wfm r n (set_nth k row V).
Proof.
  intros [HL HR] Hrow. split; [now rewrite set_nth_length|].
  intros i Hi. destruct (Nat.eq_dec i k) as [->|Hne].
  - rewrite nth_set_nth_same by lia. exact Hrow.
  - rewrite nth_set_nth_other by exact Hne. now apply HR.
Qed.

(* a matrix is determined by its entries *)
Lemma list_ext_nth {A} (d : A) (l1 l2 : list A) : length l1 = length l2 ->
  (forall i, (i < length l1)%nat -> nth i l1 d = nth i l2 d) -> l1 = l2.
Proof. intros H1 H2. apply nth_ext with (d := d) (d' := d); assumption. Qed.
Lemma wfm_ext r n (V W : mat) : wfm r n V -> wfm r n W ->
  (forall i j, (i < r)%nat -> (j < n)%nat -> Mget V i j = Mget W i j) -> V = W.
Proof.
  intros [LV RV] [LW RW] H. apply (list_ext_nth []); [congruence|].
  intros i Hi. rewrite LV in Hi. apply (list_ext_nth 0); [rewrite RV, RW by exact Hi; reflexivity|].
  intros j Hj. rewrite RV in Hj by exact Hi. apply (H i j Hi Hj).
Qed.

(* ---------- the problem data seen by the engines ---------- *)
Definition Gf (UtU : mat) : nat -> nat -> R := fun i j => Mget UtU i j.
Definition bf (UtM : mat) (j : nat) : nat -> R := fun i => Mget UtM i j.
Definition colf (V : mat) (j : nat) : nat -> R := fun i => Mget V i j.
Definition l1of (o : @hopts R) : R := match h_sp o with Some s => s | None => 0 end.
Definition l2of (o : @hopts R) : R := match h_ridge o with Some s => s | None => 0 end.

Section HalsFacts.
Variables (UtM UtU : mat) (r n : nat) (o : @hopts R).
Hypothesis WG : wfm r r UtU.
Hypothesis WB : wfm r n UtM.
Let G := Gf UtU.
Let l1 := l1of o.
Let l2 := l2of o.
Let eps := h_eps o.

Lemma length_newrow V k : length (hals_newrow Rops UtM UtU n o V k) = n.
Proof. unfold hals_newrow. now rewrite map_length, seq_length. Qed.

(* entry j of the new row k is the engine's clipped coordinate minimiser for column j *)
Lemma nth_newrow V k j : wfm r n V -> (k < r)%nat -> (j < n)%nat ->
  nth j (hals_newrow Rops UtM UtU n o V k) 0 = hals_new r G (bf UtM j) l1 l2 eps (colf V j) k.
Proof.
  intros [LV RV] Hk Hj. unfold hals_newrow. rewrite nth_map_seq by exact Hj.
  destruct WG as [LG RG].
  rewrite nth_vecmat by (try exact Hj; unfold mrow; rewrite RG, LV by exact Hk; reflexivity).
  rewrite LV. unfold hals_new, fmax, G, Gf, bf, colf, l1, l2, l1of, l2of, eps, two. cbn [fleb fadd fsub fmul fdiv f1 Rops].
  unfold Rleb.
  assert (E : forall a b c d : R, a = c -> b = d -> (if (if Rle_dec (h_eps o) (a / b) then true else false) then a / b else h_eps o) =
              (if Rle_dec (h_eps o) (c / d) then c / d else h_eps o)).
  { intros a b c d -> ->. destruct (Rle_dec _ _); reflexivity. }
  apply E.
  - replace (rsum r (fun i => nth i (mrow UtU k) 0 * Mget V i j)) with (rsum r (fun j0 => Mget UtU k j0 * Mget V j0 j)) by reflexivity.
    destruct (h_sp o); ring.
  - destruct (h_ridge o); ring.
Qed.

Lemma is0_R x : is0 Rops x = true <-> x = 0.
Proof.
  unfold is0, feqb. cbn [fleb f0 Rops]. rewrite andb_true_iff, !Rleb_true. split; [intros []; lra | intros ->; lra].
Qed.
Lemma is0_R_false x : is0 Rops x = false <-> x <> 0.
Proof. rewrite <- is0_R. destruct (is0 Rops x); split; congruence. Qed.

Notation step := (hals_step Rops UtM UtU n o).
Notation newrow := (hals_newrow Rops UtM UtU n o).
Hypothesis NZ : h_nz o = false.

Lemma step_zero V k : G k k = 0 -> step V k = V.
Proof. intros H. unfold hals_step. apply is0_R in H. unfold G, Gf in H. now rewrite H. Qed.
Lemma step_nonzero V k : G k k <> 0 -> step V k = set_nth k (newrow V k) V.
Proof. intros H. unfold hals_step. apply is0_R_false in H. unfold G, Gf in H. rewrite H, NZ. reflexivity. Qed.

Lemma step_wfm V k : wfm r n V -> wfm r n (step V k).
Proof.
  intros W. destruct (Req_dec (G k k) 0) as [E|E]; [now rewrite step_zero | rewrite step_nonzero by exact E].
  apply wfm_set_nth; [exact W | apply length_newrow].
Qed.
Lemma step_other V k i j : i <> k -> Mget (step V k) i j = Mget V i j.
Proof.
  intros H. destruct (Req_dec (G k k) 0) as [E|E]; [now rewrite step_zero | rewrite step_nonzero by exact E].
  now apply mget_set_other.
Qed.
Lemma step_same V k j : wfm r n V -> (k < r)%nat -> (j < n)%nat -> G k k <> 0 ->
  Mget (step V k) k j = hals_new r G (bf UtM j) l1 l2 eps (colf V j) k.
Proof.
  intros W Hk Hj E. rewrite step_nonzero by exact E. rewrite mget_set_same by (destruct W as [-> _]; exact Hk).
  now apply nth_newrow.
Qed.
(* column view: a step replaces coordinate k of every column by the engine's update *)
Lemma step_col V k j i : wfm r n V -> (k < r)%nat -> (j < n)%nat -> G k k <> 0 ->
  colf (step V k) j i = updv (colf V j) k (hals_new r G (bf UtM j) l1 l2 eps (colf V j) k) i.
Proof.
  intros W Hk Hj E. unfold updv, colf. destruct (Nat.eq_dec i k) as [->|Hne].
  - now apply step_same.
  - now apply step_other.
Qed.

Lemma hals_new_ge (b : nat -> R) v k : eps <= hals_new r G b l1 l2 eps v k.
Proof. unfold hals_new. cbv zeta. destruct (Rle_dec _ _); lra. Qed.

Definition rowge (V : mat) (i : nat) : Prop := forall j, (j < n)%nat -> eps <= Mget V i j.
Notation foldp := (fold_left (hals_step Rops UtM UtU n o)).

Lemma fold_wfm ks : forall V, wfm r n V -> wfm r n (foldp ks V).
Proof. induction ks; simpl; intros V W; [exact W | apply IHks, step_wfm, W]. Qed.

Lemma fold_row_other ks : forall V i j, ~ In i ks -> Mget (foldp ks V) i j = Mget V i j.
Proof.
  induction ks as [|k ks IH]; simpl; intros V i j H; [reflexivity|].
  rewrite IH by tauto. apply step_other. intros ->. tauto.
Qed.

(* (i) rows that are updated, and rows that were feasible, are >= eps afterwards *)
Lemma fold_ge ks : forall V i, wfm r n V -> (forall k, In k ks -> (k < r)%nat) -> (i < r)%nat ->
  (rowge V i \/ (In i ks /\ G i i <> 0)) -> rowge (foldp ks V) i.
Proof.
  induction ks as [|k ks IH]; simpl; intros V i W Hks Hi H.
  - destruct H as [H|[[] _]]. exact H.
  - apply IH; [now apply step_wfm | intros; apply Hks; tauto | exact Hi |].
    destruct (Nat.eq_dec i k) as [->|Hne].
    + destruct (Req_dec (G k k) 0) as [E|E].
      * rewrite step_zero by exact E. destruct H as [H|[[_|H] H2]]; [now left | contradiction | now right].
      * left. intros j Hj. rewrite step_same by assumption. apply hals_new_ge.
    + destruct H as [H|[[H|H] H2]]; [left | congruence | now right].
      intros j Hj. rewrite step_other by exact Hne. now apply H.
Qed.

Section Objective.
Hypothesis Gsym : forall i j, G i j = G j i.
Hypothesis Hden : forall k, (k < r)%nat -> G k k <> 0 -> 0 < G k k + 2 * l2.
Notation obj j := (qp_f r G (bf UtM j) l1 l2).

Lemma qp_f_ext (b : nat -> R) v w : (forall i, (i < r)%nat -> v i = w i) -> qp_f r G b l1 l2 v = qp_f r G b l1 l2 w.
Proof.
  intros H. unfold qp_f, quad. f_equal; [f_equal; [f_equal|]|].
  - f_equal. apply rsum_ext; intros i Hi. apply rsum_ext; intros j Hj. now rewrite (H i Hi), (H j Hj).
  - apply rsum_ext; intros i Hi. now rewrite H.
  - f_equal. apply rsum_ext; intros i Hi. now apply H.
  - f_equal. apply rsum_ext; intros i Hi. now rewrite H.
Qed.

(* (ii) one row update from a feasible V does not increase the objective of any column *)
Lemma step_mono V k j : wfm r n V -> (k < r)%nat -> (j < n)%nat -> eps <= Mget V k j ->
  obj j (colf (step V k) j) <= obj j (colf V j).
Proof.
  intros W Hk Hj Hf. destruct (Req_dec (G k k) 0) as [E|E]; [rewrite step_zero by exact E; lra|].
  rewrite (qp_f_ext _ _ (updv (colf V j) k (hals_new r G (bf UtM j) l1 l2 eps (colf V j) k))) by (intros; now apply step_col).
  rewrite (qp_f_ext _ (colf V j) (updv (colf V j) k (colf V j k))).
  2:{ intros i _. unfold updv. destruct (Nat.eq_dec i k) as [->|]; reflexivity. }
  apply hals_row_exact; [exact Gsym | exact Hk | now apply Hden | exact Hf].
Qed.

Lemma fold_mono ks : forall V j, wfm r n V -> (forall k, In k ks -> (k < r)%nat) -> (j < n)%nat ->
  (forall i, (i < r)%nat -> rowge V i) -> obj j (colf (foldp ks V) j) <= obj j (colf V j).
Proof.
  induction ks as [|k ks IH]; simpl; intros V j W Hks Hj Hf; [lra|].
  eapply Rle_trans; [apply IH | apply step_mono]; auto.
  - now apply step_wfm.
  - intros i Hi. apply (fold_ge [k]); [exact W | intros ? [<-|[]]; auto | exact Hi | left; now apply Hf].
  - apply Hf; auto.
Qed.
End Objective.

(* (iii) a pass that returns its input is a fixed point of every row update *)
Lemma fold_fixed ks : forall V, NoDup ks -> (forall k, In k ks -> (k < r)%nat) -> wfm r n V ->
  foldp ks V = V -> forall k, In k ks -> step V k = V.
Proof.
  induction ks as [|k ks IH]; simpl; intros V ND Hks W Hfix q Hq; [contradiction|].
  inversion ND as [|? ? Hnin ND']; subst.
  assert (E : step V k = V).
  { apply (wfm_ext r n); [now apply step_wfm | exact W |]. intros i j Hi Hj.
    destruct (Nat.eq_dec i k) as [->|Hne]; [|now apply step_other].
    rewrite <- (fold_row_other ks (step V k) k j Hnin). now rewrite Hfix. }
  destruct Hq as [<-|Hq]; [exact E|]. rewrite E in Hfix. apply IH; auto.
Qed.
End HalsFacts.

(* per coordinate: hals_new = v_k  <=>  complementarity at the bound eps *)
Lemma hals_new_fixed_kkt n (G : nat -> nat -> R) b l1 l2 eps (v : nat -> R) k :
  0 < G k k + 2 * l2 -> hals_new n G b l1 l2 eps v k = v k ->
  eps <= v k /\ 0 <= qp_grad n G b l1 l2 v k /\ (v k - eps) * qp_grad n G b l1 l2 v k = 0.
Proof.
  intros Ha. unfold hals_new. cbv zeta. set (a := G k k + 2 * l2) in *. set (g := qp_grad n G b l1 l2 v k).
  assert (Hq : b k - rsum n (fun j => G k j * v j) + G k k * v k - l1 = a * v k - g) by (unfold g, qp_grad, a; ring).
  rewrite Hq. assert (Hs : (a * v k - g) / a = v k - g / a) by (field; lra). rewrite Hs.
  destruct (Rle_dec eps (v k - g / a)) as [H|H]; intros E.
  - assert (g / a = 0) by lra. assert (g = 0). { assert (g = g / a * a) by (field; lra). rewrite H0 in H1. lra. }
    rewrite H1. split; [lra | split; [lra | ring]].
  - assert (0 < g / a) by lra. assert (0 < g). { replace g with (g / a * a) by (field; lra). apply Rmult_lt_0_compat; lra. }
    rewrite <- E. split; [lra | split; [lra | ring]].
Qed.
(* conversely a KKT point is left unchanged *)
Lemma kkt_hals_new_fixed n (G : nat -> nat -> R) b l1 l2 eps (v : nat -> R) k :
  0 < G k k + 2 * l2 -> eps <= v k -> 0 <= qp_grad n G b l1 l2 v k -> (v k - eps) * qp_grad n G b l1 l2 v k = 0 ->
  hals_new n G b l1 l2 eps v k = v k.
Proof.
  intros Ha Hv Hg Hc. unfold hals_new. cbv zeta. set (a := G k k + 2 * l2) in *. set (g := qp_grad n G b l1 l2 v k) in *.
  assert (Hq : b k - rsum n (fun j => G k j * v j) + G k k * v k - l1 = a * v k - g) by (unfold g, qp_grad, a; ring).
  rewrite Hq. assert (Hs : (a * v k - g) / a = v k - g / a) by (field; lra). rewrite Hs.
  apply Rmult_integral in Hc.
  destruct (Rle_dec eps (v k - g / a)) as [H|H].
  - destruct Hc as [Hc|Hc]; [|rewrite Hc; unfold Rdiv; ring].
    assert (0 <= g / a) by (apply Rmult_le_pos; [lra | left; apply Rinv_0_lt_compat; lra]). 
    assert (g / a = 0) by lra. lra.
  - destruct Hc as [Hc|Hc]; [lra|]. exfalso. apply H. rewrite Hc. unfold Rdiv. lra.
Qed.

(* ====================================================================================== *)
(*  whole passes and the iteration loop                                                   *)
(* ====================================================================================== *)
Fixpoint iterl {A} (m : nat) (f : A -> A) (x : A) : A := match m with O => x | S k => iterl k f (f x) end.

Lemma fold_step_e_fst {F} (Op : fops F) UtM UtU n o ks : forall st,
  fst (fold_left (hals_step_e Op UtM UtU n o) ks st) = fold_left (hals_step Op UtM UtU n o) ks (fst st).
Proof. induction ks; simpl; intros st; [reflexivity|]. now rewrite IHks. Qed.
Lemma hals_pass_e_fst {F} (Op : fops F) UtM UtU n o V : fst (hals_pass_e Op UtM UtU n o V) = hals_pass Op UtM UtU n o V.
Proof. unfold hals_pass_e, hals_pass. now rewrite fold_step_e_fst. Qed.

(* whatever the tolerance and the budget, the loop returns some iterate of the pass *)
Lemma hals_loop_iter {F} (Op : fops F) UtM UtU n o tol fuel : forall first err0 V,
  exists m, (m <= fuel)%nat /\ hals_loop Op UtM UtU n o tol fuel first err0 V = iterl m (hals_pass Op UtM UtU n o) V.
Proof.
  induction fuel as [|f IH]; intros first err0 V; [exists 0%nat; split; [lia | reflexivity]|].
  cbn [hals_loop]. cbv zeta. rewrite hals_pass_e_fst.
  destruct (fltb _ _ _).
  - exists 1%nat. split; [lia | reflexivity].
  - destruct (IH false (if first then snd (hals_pass_e Op UtM UtU n o V) else err0) (hals_pass Op UtM UtU n o V)) as (m & Hm & E).
    exists (S m). split; [lia | exact E].
Qed.

Section HalsTop.
Variables (UtM UtU : mat) (r n : nat) (o : @hopts R).
Hypothesis WG : wfm r r UtU.
Hypothesis WB : wfm r n UtM.
Hypothesis NZ : h_nz o = false.
Notation pass := (hals_pass Rops UtM UtU n o).
Notation G := (Gf UtU).
Notation eps := (h_eps o).
Definition feasible (V : mat) : Prop := forall i j, (i < r)%nat -> (j < n)%nat -> eps <= Mget V i j.

Lemma pass_unfold V : pass V = fold_left (hals_step Rops UtM UtU n o) (seq 0 r) V.
Proof. unfold hals_pass. destruct WB as [-> _]. reflexivity. Qed.
Lemma in_seq_lt k : In k (seq 0 r) -> (k < r)%nat.
Proof. rewrite in_seq. lia. Qed.

Lemma pass_wfm V : wfm r n V -> wfm r n (pass V).
Proof. intros W. rewrite pass_unfold. now apply fold_wfm. Qed.

(* (i) *)
Theorem pass_ge_eps V i j : wfm r n V -> (i < r)%nat -> (j < n)%nat ->
  (G i i <> 0 \/ (forall j', (j' < n)%nat -> eps <= Mget V i j')) -> eps <= Mget (pass V) i j.
Proof.
  intros W Hi Hj H. rewrite pass_unfold.
  assert (D : rowge n o V i \/ (In i (seq 0 r) /\ G i i <> 0)).
  { destruct H as [H|H]; [right; split; [apply in_seq; lia | exact H] | left; exact H]. }
  eapply fold_ge; eauto using in_seq_lt.
Qed.
Lemma pass_feasible V : wfm r n V -> feasible V -> feasible (pass V).
Proof. intros W H i j Hi Hj. apply pass_ge_eps; [exact W | exact Hi | exact Hj | right; intros; now apply H]. Qed.
Lemma iterl_feasible m : forall V, wfm r n V -> feasible V -> feasible (iterl m pass V) /\ wfm r n (iterl m pass V).
Proof. induction m; simpl; intros V W H; [tauto|]. apply IHm; [now apply pass_wfm | now apply pass_feasible]. Qed.
Theorem iterates_ge_eps m V : wfm r n V -> feasible V -> feasible (iterl m pass V).
Proof. intros W H. now apply iterl_feasible. Qed.
Theorem iterates_ge_eps_any_start m V : wfm r n V -> (forall k, (k < r)%nat -> G k k <> 0) ->
  feasible (iterl (S m) pass V).
Proof.
  intros W HG. cbn [iterl]. apply iterl_feasible; [now apply pass_wfm|].
  intros i j Hi Hj. apply pass_ge_eps; [exact W | exact Hi | exact Hj | left; now apply HG].
Qed.
Theorem loop_ge_eps tol fuel V : wfm r n V -> feasible V ->
  feasible (hals_loop Rops UtM UtU n o tol fuel true 0 V).
Proof. intros W H. destruct (hals_loop_iter Rops UtM UtU n o tol fuel true 0 V) as (m & _ & ->). now apply iterates_ge_eps. Qed.

(* (ii) *)
Section Mono.
Hypothesis Gsym : forall i j, G i j = G j i.
Hypothesis Hden : forall k, (k < r)%nat -> G k k <> 0 -> 0 < G k k + 2 * l2of o.
Notation obj j := (qp_f r G (bf UtM j) (l1of o) (l2of o)).
Theorem pass_monotone V j : wfm r n V -> feasible V -> (j < n)%nat ->
  obj j (colf (pass V) j) <= obj j (colf V j).
Proof.
  intros W H Hj. rewrite pass_unfold.
  eapply fold_mono; eauto using in_seq_lt.
  intros i Hi j' Hj'. now apply H.
Qed.
Theorem iterates_monotone m : forall V j, wfm r n V -> feasible V -> (j < n)%nat ->
  obj j (colf (iterl m pass V) j) <= obj j (colf V j).
Proof.
  induction m; simpl; intros V j W H Hj; [lra|].
  eapply Rle_trans; [apply IHm; [now apply pass_wfm | now apply pass_feasible | exact Hj] | now apply pass_monotone].
Qed.
Theorem loop_monotone tol fuel V j : wfm r n V -> feasible V -> (j < n)%nat ->
  obj j (colf (hals_loop Rops UtM UtU n o tol fuel true 0 V) j) <= obj j (colf V j).
Proof. intros W H Hj. destruct (hals_loop_iter Rops UtM UtU n o tol fuel true 0 V) as (m & _ & ->). now apply iterates_monotone. Qed.
End Mono.

(* (iii) fixed point of a pass => KKT at the bound eps, for every column, l1 and ridge included *)
Theorem fixed_point_kkt V : wfm r n V -> (forall k, (k < r)%nat -> G k k <> 0 /\ 0 < G k k + 2 * l2of o) ->
  pass V = V ->
  forall k j, (k < r)%nat -> (j < n)%nat ->
    let g := qp_grad r G (bf UtM j) (l1of o) (l2of o) (colf V j) k in
    eps <= Mget V k j /\ 0 <= g /\ (Mget V k j - eps) * g = 0.
Proof.
  intros W HG Hfix k j Hk Hj. cbv zeta. rewrite pass_unfold in Hfix.
  assert (Hs : hals_step Rops UtM UtU n o V k = V).
  { eapply fold_fixed; eauto using in_seq_lt, seq_NoDup. apply in_seq; lia. }
  destruct (HG k Hk) as [Hnz Hpos].
  assert (E : Mget (hals_step Rops UtM UtU n o V k) k j = hals_new r G (bf UtM j) (l1of o) (l2of o) eps (colf V j) k) by (eapply step_same; eauto).
  rewrite Hs in E.
  symmetry in E. apply (hals_new_fixed_kkt r G (bf UtM j) (l1of o) (l2of o) eps (colf V j) k Hpos E).
Qed.

(* and conversely every KKT point is a fixed point of the pass (the characterisation is exact) *)
Lemma kkt_step_fixed V k : wfm r n V -> (k < r)%nat -> (G k k <> 0 -> 0 < G k k + 2 * l2of o) ->
  (forall j, (j < n)%nat -> let g := qp_grad r G (bf UtM j) (l1of o) (l2of o) (colf V j) k in
     eps <= Mget V k j /\ 0 <= g /\ (Mget V k j - eps) * g = 0) ->
  hals_step Rops UtM UtU n o V k = V.
Proof.
  intros W Hk Hpos HK. destruct (Req_dec (G k k) 0) as [E|E]; [now apply step_zero|].
  apply (wfm_ext r n); [eapply step_wfm; eauto | exact W|]. intros i j Hi Hj.
  destruct (Nat.eq_dec i k) as [->|Hne]; [|now apply step_other].
  erewrite step_same; eauto.
  destruct (HK j Hj) as (H1 & H2 & H3). 
  transitivity (colf V j k); [|reflexivity]. apply kkt_hals_new_fixed; auto.
Qed.
Theorem kkt_fixed_point V : wfm r n V -> (forall k, (k < r)%nat -> G k k <> 0 -> 0 < G k k + 2 * l2of o) ->
  (forall k j, (k < r)%nat -> (j < n)%nat ->
    let g := qp_grad r G (bf UtM j) (l1of o) (l2of o) (colf V j) k in
    eps <= Mget V k j /\ 0 <= g /\ (Mget V k j - eps) * g = 0) ->
  pass V = V.
Proof.
  intros W Hpos HK. rewrite pass_unfold.
  assert (H : forall ks, (forall k, In k ks -> (k < r)%nat) -> fold_left (hals_step Rops UtM UtU n o) ks V = V).
  { induction ks as [|k ks IH]; simpl; intros Hks; [reflexivity|].
    rewrite kkt_step_fixed; auto. intros j Hj. apply HK; auto. }
  apply H. exact in_seq_lt.
Qed.

(* (iii)+(iv): with eps = 0 and a positive semidefinite Gram matrix a fixed point is a global minimiser
   of every column's penalised objective over the non-negative orthant *)
Theorem fixed_point_optimal V : wfm r n V -> eps = 0 -> 0 <= l2of o ->
  (forall i j, G i j = G j i) -> (forall d, 0 <= quad r G d) ->
  (forall k, (k < r)%nat -> G k k <> 0 /\ 0 < G k k + 2 * l2of o) ->
  pass V = V ->
  forall j z, (j < n)%nat -> (forall i, (i < r)%nat -> 0 <= z i) ->
    qp_f r G (bf UtM j) (l1of o) (l2of o) (colf V j) <= qp_f r G (bf UtM j) (l1of o) (l2of o) z.
Proof.
  intros W E0 Hl2 Gsym Gpsd HG Hfix j z Hj Hz.
  apply kkt_optimal; auto.
  intros i Hi. pose proof (fixed_point_kkt V W HG Hfix i j Hi Hj) as H. cbv zeta in H. rewrite E0 in H.
  unfold colf at 1 3. destruct H as (H1 & H2 & H3). rewrite Rminus_0_r in H3. auto.
Qed.
End HalsTop.

(* ====================================================================================== *)
(*  ADMM, n_const = None                                                                  *)
(* ====================================================================================== *)
Lemma mget_transpose n (A : mat) i j : (j < n)%nat -> (i < length A)%nat -> Mget (mtranspose Rops n A) j i = Mget A i j.
Proof.
  intros Hj Hi. unfold mtranspose. unfold mget at 1. unfold mrow. rewrite nth_map_seq by exact Hj. now apply nth_mcol.
Qed.
Lemma wfm_transpose r n (A : mat) : length A = r -> wfm n r (mtranspose Rops n A).
Proof.
  intros L. split; [unfold mtranspose; now rewrite map_length, seq_length|].
  intros i Hi. unfold mtranspose. rewrite nth_map_seq by exact Hi. now rewrite length_mcol.
Qed.

(* contract of tl.solve(A, B): the answer S is r x m and A S = B entrywise *)
Definition solves (r m : nat) (A B S : mat) : Prop :=
  wfm r m S /\ forall i c, (i < r)%nat -> (c < m)%nat -> rsum r (fun k => Mget A i k * Mget S k c) = Mget B i c.

Theorem admm_none_normal_equations (solve : mat -> mat -> mat) UtM UtU x dual m r it :
  it <> 0%nat -> wfm r r UtU -> wfm m r UtM ->
  solves r m (mtranspose Rops r UtU) (mtranspose Rops r UtM) (solve (mtranspose Rops r UtU) (mtranspose Rops r UtM)) ->
  let x' := fst (fst (admm_none Rops solve UtM UtU x dual m r it)) in
  wfm m r x' /\ forall c i, (c < m)%nat -> (i < r)%nat -> rsum r (fun k => Mget UtU k i * Mget x' c k) = Mget UtM c i.
Proof.
  intros Hit WG WB [WS HS]. destruct it as [|it]; [congruence|]. cbn [admm_none fst]. cbv zeta.
  set (S := solve _ _) in *. split; [apply wfm_transpose; apply WS|].
  intros c i Hc Hi. specialize (HS i c Hi Hc).
  rewrite mget_transpose in HS by (rewrite ?(proj1 WG), ?(proj1 WS), ?(proj1 WB); assumption).
  rewrite <- HS. apply rsum_ext. intros k Hk.
  rewrite mget_transpose by (rewrite ?(proj1 WG), ?(proj1 WS), ?(proj1 WB); assumption).
  rewrite mget_transpose by (rewrite ?(proj1 WG), ?(proj1 WS), ?(proj1 WB); assumption). reflexivity.
Qed.

(* the loop with its decision trace computes the same result as the loop (any field) *)
Lemma hals_trace_snd {F} (Op : fops F) UtM UtU n o tol fuel : forall first err0 V,
  snd (hals_trace Op UtM UtU n o tol fuel first err0 V) = hals_loop Op UtM UtU n o tol fuel first err0 V.
Proof.
  induction fuel as [|f IH]; intros first err0 V; [reflexivity|].
  cbn [hals_trace hals_loop]. cbv zeta. destruct (fltb _ _ _); [reflexivity|]. cbn [snd]. apply IH.
Qed.
Lemma hals_nnls_trace {F} (Op : fops F) UtM UtU n V0 sol iters tol o :
  hals_nnls Op UtM UtU n V0 sol iters tol o =
  if hals_rejects Op UtM UtU iters o then Err
  else Ok (snd (hals_trace Op UtM UtU n o tol iters true (f0 Op) (match V0 with Some V => V | None => hals_init Op UtM UtU n sol end))).
Proof. unfold hals_nnls. destruct (hals_rejects _ _ _ _ _); [reflexivity|]. cbv zeta. now rewrite hals_trace_snd. Qed.

(* the callback can only make the loop return an EARLIER iterate of the pass *)
Lemma hals_loop_cb_iter {F} (Op : fops F) UtM UtU n o cb tol fuel : forall first err0 V,
  exists m, (m <= fuel)%nat /\ hals_loop_cb Op UtM UtU n o cb tol fuel first err0 V = iterl m (hals_pass Op UtM UtU n o) V.
Proof.
  induction fuel as [|f IH]; intros first err0 V; [exists 0%nat; split; [lia | reflexivity]|].
  cbn [hals_loop_cb]. cbv zeta. rewrite hals_pass_e_fst.
  destruct (cb _ _); [exists 1%nat; split; [lia | reflexivity]|].
  destruct (fltb _ _ _); [exists 1%nat; split; [lia | reflexivity]|].
  destruct (IH false (if first then snd (hals_pass_e Op UtM UtU n o V) else err0) (hals_pass Op UtM UtU n o V)) as (m & Hm & E).
  exists (S m). split; [lia | exact E].
Qed.
Lemma hals_loop_cb_none {F} (Op : fops F) UtM UtU n o tol fuel : forall first err0 V,
  hals_loop_cb Op UtM UtU n o (fun _ _ => false) tol fuel first err0 V = hals_loop Op UtM UtU n o tol fuel first err0 V.
Proof. induction fuel as [|f IH]; intros first err0 V; [reflexivity|]. cbn [hals_loop_cb hals_loop]. cbv zeta. destruct (fltb _ _ _); [reflexivity | apply IH]. Qed.
(* a callback that answers True exactly at pass j (and the rule not firing before) returns the j-th iterate: with tol = 0 *)
Lemma hals_loop_cb_true_first {F} (Op : fops F) UtM UtU n o cb tol fuel first err0 V :
  cb (hals_pass Op UtM UtU n o V) (snd (hals_pass_e Op UtM UtU n o V)) = true ->
  hals_loop_cb Op UtM UtU n o cb tol (S fuel) first err0 V = hals_pass Op UtM UtU n o V.
Proof. intros H. cbn [hals_loop_cb]. cbv zeta. rewrite hals_pass_e_fst. now rewrite H. Qed.
