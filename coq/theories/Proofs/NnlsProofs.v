(* Lemmas about Model/Nnls.v at the real instance: list-level model <-> the function-level
   engines of Base/RSum.v (qp_f, qp_grad, hals_new, hals_row_exact, kkt_optimal). *)
From Coq Require Import List Arith Bool Reals Lra Lia Psatz.
From TLV Require Import Base.Ops Base.PyList Base.Tensor Base.RSum Model.Nnls.
Import ListNotations.
Open Scope R_scope.

Notation mat := (list (list R)).
Notation Mget := (mget Rops).

(* ---------- sums ---------- *)
Lemma rsum_shift n f : rsum (S n) f = f O + rsum n (fun i => f (S i)).
Proof. induction n; [simpl; ring|]. cbn [rsum] in *. rewrite IHn. ring. Qed.

Lemma dot_rsum a : forall b, length b = length a ->
  dot Rops a b = rsum (length a) (fun i => nth i a 0 * nth i b 0).
Proof.
  induction a as [|x a IH]; intros [|y b] H; try discriminate; [reflexivity|].
  cbn [dot length]. rewrite rsum_shift. cbn [nth]. rewrite (IH b) by (simpl in H; lia). reflexivity.
Qed.

(* ---------- shapes ---------- *)
Definition wfm (r n : nat) (V : mat) : Prop := length V = r /\ forall i, (i < r)%nat -> length (nth i V []) = n.

Lemma nth_map_seq {A} (f : nat -> A) n j d : (j < n)%nat -> nth j (map f (seq 0 n)) d = f j.
Proof. intros H. rewrite (nth_map' f (seq 0 n) j 0%nat d) by (now rewrite seq_length). now rewrite seq_nth. Qed.

Lemma mget_set_same k row (V : mat) j : (k < length V)%nat -> Mget (set_nth k row V) k j = nth j row 0.
Proof. intros H. unfold mget, mrow. now rewrite nth_set_nth_same. Qed.
Lemma mget_set_other k row (V : mat) i j : i <> k -> Mget (set_nth k row V) i j = Mget V i j.
Proof. intros H. unfold mget, mrow. now rewrite nth_set_nth_other. Qed.

Lemma nth_mcol (V : mat) i j : (i < length V)%nat -> nth i (mcol Rops V j) 0 = Mget V i j.
Proof. intros H. unfold mcol, mget, mrow. now rewrite (nth_map' _ V i [] 0). Qed.
Lemma length_mcol (V : mat) j : length (mcol Rops V j) = length V.
Proof. unfold mcol. now rewrite map_length. Qed.

Lemma nth_vecmat n g (V : mat) j : (j < n)%nat -> length g = length V ->
  nth j (vecmat Rops n g V) 0 = rsum (length V) (fun i => nth i g 0 * Mget V i j).
Proof.
  intros Hj Hl. unfold vecmat. rewrite nth_map_seq by exact Hj.
  rewrite dot_rsum by (now rewrite length_mcol). rewrite Hl.
  apply rsum_ext. intros i Hi. now rewrite nth_mcol.
Qed.

Lemma wfm_set_nth r n k row V : wfm r n V -> length row = n -> wfm r n (set_nth k row V).
Proof.
  intros [HL HR] Hrow. split; [now rewrite set_nth_length|].
  intros i Hi. destruct (Nat.eq_dec i k) as [->|Hne].
  - rewrite nth_set_nth_same by lia. exact Hrow.
  - rewrite nth_set_nth_other by exact Hne. now apply HR.
Qed.

(* a matrix is determined by its entries *)
Lemma list_ext_nth {A} (d : A) (l1 l2 : list A) : length l1 = length l2 ->
  (forall i, (i < length l1)%nat -> nth i l1 d = nth i l2 d) -> l1 = l2.
Proof. intros H1 H2. apply nth_ext with (d := d) (d' := d); assumption. Qed.
Lemma wfm_ext r n (V W : mat) : wfm r n V -> wfm r n W ->
  (forall i j, (i < r)%nat -> (j < n)%nat -> Mget V i j = Mget W i j) -> V = W.
Proof.
  intros [LV RV] [LW RW] H. apply (list_ext_nth []); [congruence|].
  intros i Hi. rewrite LV in Hi. apply (list_ext_nth 0); [rewrite RV, RW by exact Hi; reflexivity|].
  intros j Hj. rewrite RV in Hj by exact Hi. apply (H i j Hi Hj).
Qed.

(* ---------- the problem data seen by the engines ---------- *)
Definition Gf (UtU : mat) : nat -> nat -> R := fun i j => Mget UtU i j.
Definition bf (UtM : mat) (j : nat) : nat -> R := fun i => Mget UtM i j.
Definition colf (V : mat) (j : nat) : nat -> R := fun i => Mget V i j.
Definition l1of (o : @hopts R) : R := match h_sp o with Some s => s | None => 0 end.
Definition l2of (o : @hopts R) : R := match h_ridge o with Some s => s | None => 0 end.

Section HalsFacts.
Variables (UtM UtU : mat) (r n : nat) (o : @hopts R).
Hypothesis WG : wfm r r UtU.
Hypothesis WB : wfm r n UtM.
Let G := Gf UtU.
Let l1 := l1of o.
Let l2 := l2of o.
Let eps := h_eps o.

Lemma length_newrow V k : length (hals_newrow Rops UtM UtU n o V k) = n.
Proof. unfold hals_newrow. now rewrite map_length, seq_length. Qed.

(* entry j of the new row k is the engine's clipped coordinate minimiser for column j *)
Lemma nth_newrow V k j : wfm r n V -> (k < r)%nat -> (j < n)%nat ->
  nth j (hals_newrow Rops UtM UtU n o V k) 0 = hals_new r G (bf UtM j) l1 l2 eps (colf V j) k.
Proof.
  intros [LV RV] Hk Hj. unfold hals_newrow. rewrite nth_map_seq by exact Hj.
  destruct WG as [LG RG].
  rewrite nth_vecmat by (try exact Hj; unfold mrow; rewrite RG, LV by exact Hk; reflexivity).
  rewrite LV. unfold hals_new, fmax, G, Gf, bf, colf, l1, l2, l1of, l2of, eps, two. cbn [fleb fadd fsub fmul fdiv f1 Rops].
  unfold Rleb.
  assert (E : forall a b c d : R, a = c -> b = d -> (if (if Rle_dec (h_eps o) (a / b) then true else false) then a / b else h_eps o) =
              (if Rle_dec (h_eps o) (c / d) then c / d else h_eps o)).
  { intros a b c d -> ->. destruct (Rle_dec _ _); reflexivity. }
  apply E.
  - replace (rsum r (fun i => nth i (mrow UtU k) 0 * Mget V i j)) with (rsum r (fun j0 => Mget UtU k j0 * Mget V j0 j)) by reflexivity.
    destruct (h_sp o); ring.
  - destruct (h_ridge o); ring.
Qed.
End HalsFacts.
