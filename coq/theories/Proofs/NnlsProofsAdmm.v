(* admm(n_const=None): from the normal equations (a transposition of the tl.solve contract) to the statement of the
   property: when UtU and UtM ARE the normal-equation data of a least-squares problem (UtU = U^T U, UtM = M^T U for
   a design U with q rows and data rows M_c), every row of the returned x minimises ||M_c - U x_c||^2 over all vectors. *)
From Coq Require Import List Arith Bool Reals Lra Lia.
From TLV Require Import Base.Ops Base.PyList Base.Tensor Base.RSum Model.Nnls Proofs.NnlsProofs.
Import ListNotations.
Open Scope R_scope.

Theorem admm_none_least_squares (solve : mat -> mat -> mat) UtM UtU x dual (m r it q : nat)
        (A : nat -> nat -> R) (Y : nat -> nat -> R) :
  it <> 0%nat -> wfm r r UtU -> wfm m r UtM ->
  solves r m (mtranspose Rops r UtU) (mtranspose Rops r UtM) (solve (mtranspose Rops r UtU) (mtranspose Rops r UtM)) ->
  (forall k i, (k < r)%nat -> (i < r)%nat -> Mget UtU k i = rsum q (fun t => A t k * A t i)) ->
  (forall c i, (c < m)%nat -> (i < r)%nat -> Mget UtM c i = rsum q (fun t => Y c t * A t i)) ->
  let x' := fst (fst (admm_none Rops solve UtM UtU x dual m r it)) in
  forall c z, (c < m)%nat ->
    ls_obj q r A (Y c) 0 (fun k => Mget x' c k) <= ls_obj q r A (Y c) 0 z.
Proof.
  intros Hit WG WB HS HG HB x' c z Hc.
  destruct (admm_none_normal_equations solve UtM UtU x dual m r it Hit WG WB HS) as [_ NE]. fold x' in NE.
  apply normal_eq_minimises; [lra|]. intros j Hj. rewrite Rmult_0_l.
  rewrite (rsum_ext q _ (fun t => Y c t * A t j - rsum r (fun k => A t j * A t k * Mget x' c k))).
  2:{ intros t _. unfold Av.
      rewrite (rsum_ext r (fun k => A t j * A t k * Mget x' c k) (fun k => A t j * (A t k * Mget x' c k))) by (intros; ring).
      rewrite rsum_scale. ring. }
  rewrite rsum_sub. rewrite rsum_exchange.
  rewrite (rsum_ext r _ (fun k => Mget UtU k j * Mget x' c k)).
  2:{ intros k Hk. rewrite (HG k j Hk Hj).
      rewrite (rsum_ext q (fun t => A t j * A t k * Mget x' c k) (fun t => Mget x' c k * (A t k * A t j))) by (intros; ring).
      rewrite rsum_scale. ring. }
  rewrite (NE c j Hc Hj). rewrite (HB c j Hc Hj). lra.
Qed.
