(* The whole function `admm` (Model/NnlsAdmm.v).
   Any field: the traced loop computes the loop; a loop that ran once has bound x_split; when the call returns
   (n_iter_max >= 1 and proximal_operator does not raise); the documented way to run admm outside constrained_parafac
   (n_const = 1, order left at its default None) raises; the n_const=None branch is admm_none.
   Real instance, NO constraint selected but n_const given (proximal_operator returns its argument): after every loop
   body the dual variable is identically zero, hence the stopping rule never fires (its second test is a strict
   comparison with tol * 0) and ALL n_iter_max iterations run whatever tol is; each iteration contracts the distance
   of every row of x to the solution of the normal equations by rho / (mu + rho) (mu: a lower bound of the quadratic
   form of UtU, rho = trace(UtU) / r); so the returned x converges geometrically to the unconstrained least-squares
   solution.  The elementwise operators of the model are those of the C12 model of proximal.py. *)
From Coq Require Import List Arith Bool Reals Lra Lia Psatz.
From TLV Require Import Base.Ops Base.PyList Base.Tensor Base.RSum Model.Nnls Model.NnlsAdmm
     Proofs.NnlsProofs Proofs.NnlsProofsFista Proofs.NnlsProofsAsetFull.
From TLV Require Model.Prox.
Import ListNotations.

(* ====================================================================================== *)
(*  any field                                                                             *)
(* ====================================================================================== *)
Section Generic.
Context {F : Type} (Op : fops F).
Notation fmat := (list (list F)).
Variables (solve : fmat -> fmat -> fmat) (prox : fmat -> fmat).
Variables (UtM UtU : fmat) (m r : nat) (tol : F).

Lemma admm_trace_snd fuel : forall x xs d,
  snd (admm_trace Op solve prox UtM UtU m r tol fuel x xs d) = admm_loop Op solve prox UtM UtU m r tol fuel x xs d.
Proof.
  induction fuel as [|f IH]; intros x xs d; [reflexivity|]. cbn [admm_trace admm_loop].
  destruct (admm_body Op solve prox UtM UtU m r x d) as [[x' xs'] d'].
  destruct (admm_stop Op m tol x x' xs' d'); [reflexivity|]. cbn [snd]. apply IH.
Qed.

Lemma admm_loop_some fuel : forall x xs0 d, exists xf xsf df,
  admm_loop Op solve prox UtM UtU m r tol fuel x (Some xs0) d = (xf, Some xsf, df).
Proof.
  induction fuel as [|f IH]; intros x xs0 d; [now exists x, xs0, d|]. cbn [admm_loop].
  destruct (admm_body Op solve prox UtM UtU m r x d) as [[x' xs'] d'].
  destruct (admm_stop Op m tol x x' xs' d'); [now exists x', xs', d' | apply IH].
Qed.

Lemma admm_loop_ran fuel x xs d : exists xf xsf df,
  admm_loop Op solve prox UtM UtU m r tol (S fuel) x xs d = (xf, Some xsf, df).
Proof.
  cbn [admm_loop]. destruct (admm_body Op solve prox UtM UtU m r x d) as [[x' xs'] d'].
  destruct (admm_stop Op m tol x x' xs' d'); [now exists x', xs', d' | apply admm_loop_some].
Qed.
End Generic.

(* the call returns for EVERY n_iter_max when proximal_operator accepts (n_const, order) -- order = None counts as 0 (repaired code,
   /repo a5b9e5b) -- and for n_iter_max = 0 whatever they are (repaired code, /repo fe4edf7: x_split = x^T is bound before the loop) *)
Theorem admm_returns {F} (Op : fops F) solve n_const order k UtM UtU x dual m r n tol :
  (n = 0%nat \/ n_const = None \/ exists nc, n_const = Some nc /\ (order_eff order < nc)%nat) ->
  exists t, admm Op solve n_const order k UtM UtU x dual m r n tol = Ok t.
Proof.
  intros H. destruct n as [|n]; [cbn; eexists; reflexivity|]. destruct H as [H | [-> | (nc & -> & Ho)]]; [discriminate | |].
  - cbn. eexists; reflexivity.
  - unfold admm, admm_gen, prox_call. apply Nat.ltb_lt in Ho. rewrite Ho.
    destruct (admm_loop_ran Op solve (apply_constr Op k) UtM UtU m r tol n x (Some (mtranspose Op r x)) dual) as (xf & xsf & df & ->).
    eexists; reflexivity.
Qed.
Theorem admm_zero_iterations {F} (Op : fops F) solve n_const order k UtM UtU x dual m r tol :
  admm Op solve n_const order k UtM UtU x dual m r 0 tol = Ok (x, mtranspose Op r x, dual).
Proof. reflexivity. Qed.
Theorem admm_zero_iterations_raised_before {F} (Op : fops F) solve n_const order k UtM UtU x dual m r tol :
  admm_before_fe4edf7 Op solve n_const order k UtM UtU x dual m r 0 tol = Err.
Proof. reflexivity. Qed.

(* ... and raises in the one remaining case: at least one iteration and an order out of range (IndexError, as it should) *)
Theorem admm_raises {F} (Op : fops F) solve n_const order k UtM UtU x dual m r n tol :
  n <> 0%nat -> (exists nc, n_const = Some nc /\ (nc <= order_eff order)%nat) ->
  admm Op solve n_const order k UtM UtU x dual m r n tol = Err.
Proof.
  intros Hn (nc & -> & Ho). destruct n as [|n]; [congruence|].
  unfold admm, admm_gen, prox_call. apply Nat.ltb_ge in Ho. now rewrite Ho.
Qed.

(* order = None IS order = 0 (the two lines added by /repo a5b9e5b); before, the same call raised *)
Theorem admm_order_none_is_zero {F} (Op : fops F) solve n_const k UtM UtU x dual m r n tol :
  admm Op solve n_const None k UtM UtU x dual m r n tol = admm Op solve n_const (Some 0%nat) k UtM UtU x dual m r n tol.
Proof. reflexivity. Qed.
Theorem admm_order_none_raised_before {F} (Op : fops F) solve nc k UtM UtU x dual m r n tol :
  admm_before_a5b9e5b Op solve (Some nc) None k UtM UtU x dual m r n tol = Err.
Proof. destruct n; reflexivity. Qed.

(* the n_const=None branch is the function admm_none of Model/Nnls.v (so its theorems apply to the entry point) *)
Theorem admm_nconst_none {F} (Op : fops F) solve order k UtM UtU x dual m r n tol :
  n <> 0%nat ->
  match admm_none Op solve UtM UtU x dual m r n with
  | (x', Some xs', d') => admm Op solve None order k UtM UtU x dual m r n tol = Ok (x', xs', d')
  | _ => False
  end.
Proof. intros Hn. destruct n as [|n]; [congruence|]. reflexivity. Qed.

(* the elementwise operators are those of the C12 model of tensorly/tenalg/proximal.py, applied row by row *)
Lemma prox_is_C12_non_negative {F} (Op : fops F) T :
  apply_constr Op (KNonneg) T = map (Prox.non_negative Op) T.
Proof. reflexivity. Qed.
Lemma prox_is_C12_soft_thresholding {F} (Op : fops F) t T : is0 Op t = false ->
  apply_constr Op (KL1 t) T = map (Prox.soft_thresholding Op t) T.
Proof. intros H. cbn. rewrite H. reflexivity. Qed.
Lemma prox_is_C12_l2_square {F} (Op : fops F) t T : is0 Op t = false ->
  apply_constr Op (KL2sq t) T = map (Prox.l2_square_prox Op t) T.
Proof. intros H. cbn. rewrite H. reflexivity. Qed.

(* ====================================================================================== *)
(*  real instance                                                                         *)
(* ====================================================================================== *)
Open Scope R_scope.

Lemma map2_cons (f : R -> R -> R) a l b l' : map2 f (a :: l) (b :: l') = f a b :: map2 f l l'.
Proof. reflexivity. Qed.
Lemma mmap2_cons (f : R -> R -> R) a (A : mat) b B : mmap2 f (a :: A) (b :: B) = map2 f a b :: mmap2 f A B.
Proof. reflexivity. Qed.

Lemma map2_cancel : forall d x : list R,
  Forall (fun v => v = 0) (map2 (fsub Rops) (map2 (fadd Rops) d (map2 (fsub Rops) x d)) x).
Proof.
  induction d as [|a d IH]; intros [|b x]; try (cbn; constructor).
  - cbn. ring.
  - apply IH.
Qed.
(* dual + (x_split^T - dual) - x_split^T = 0, whatever the shapes *)
Lemma mmap2_cancel : forall D X : mat, allz (msub Rops (madd Rops D (msub Rops X D)) X).
Proof.
  unfold allz, msub, madd. induction D as [|a D IH]; intros [|b X]; try (cbn; constructor).
  - apply map2_cancel.
  - apply IH.
Qed.

Lemma allz_mget (A : mat) : allz A -> forall i j, Mget A i j = 0.
Proof.
  intros H i j. unfold mget, mrow. unfold allz in H. rewrite Forall_forall in H.
  destruct (Nat.lt_ge_cases i (length A)) as [Hi|Hi].
  - specialize (H (nth i A []) (nth_In A [] Hi)). rewrite Forall_forall in H.
    destruct (Nat.lt_ge_cases j (length (nth i A []))) as [Hj|Hj].
    + apply H. now apply nth_In.
    + now apply nth_overflow.
  - rewrite (nth_overflow A [] Hi). now destruct j.
Qed.

Lemma nrm2_nonneg (A : mat) : 0 <= nrm2 Rops A.
Proof.
  unfold nrm2. apply msum_ge_entry. unfold mmap. apply Forall_map, Forall_forall. intros row _.
  apply Forall_map, Forall_forall. intros v _. unfold sq. cbn. nra.
Qed.
Lemma nrm2_allz (A : mat) : allz A -> nrm2 Rops A = 0.
Proof.
  intros H. unfold nrm2. apply msum_zero. unfold allz, mmap in *. apply Forall_map.
  eapply Forall_impl; [|exact H]. intros row Hr. cbn beta. apply Forall_map.
  eapply Forall_impl; [|exact Hr]. intros v ->. unfold sq. cbn. ring.
Qed.

(* `norm(a) < tol * norm(0)` is false for every tol *)
Lemma norm_lt_zero tol a b : allz b -> norm_lt Rops tol a b = false.
Proof.
  intros H. unfold norm_lt. destruct (fltb Rops tol (f0 Rops)); [reflexivity|].
  rewrite (nrm2_allz b H). destruct (fltb Rops (nrm2 Rops a) _) eqn:E; [|reflexivity].
  apply fltb_R in E. cbn in E. pose proof (nrm2_nonneg a). lra.
Qed.

(* the square-root-free stopping test of the model IS `tl.norm(a) < tol * tl.norm(b)` *)
Theorem norm_lt_spec tol a b :
  norm_lt Rops tol a b = true <-> sqrt (nrm2 Rops a) < tol * sqrt (nrm2 Rops b).
Proof.
  pose proof (nrm2_nonneg a) as Ha. pose proof (nrm2_nonneg b) as Hb.
  pose proof (sqrt_pos (nrm2 Rops a)) as Sa. pose proof (sqrt_pos (nrm2 Rops b)) as Sb.
  unfold norm_lt. destruct (fltb Rops tol (f0 Rops)) eqn:T.
  - apply fltb_R in T. cbn in T. split; [discriminate|]. intros H. exfalso. nra.
  - assert (Ht : 0 <= tol).
    { destruct (Rle_dec 0 tol) as [L|L]; [exact L|]. exfalso. assert (fltb Rops tol (f0 Rops) = true) by (apply fltb_R; cbn; lra). congruence. }
    rewrite fltb_R. cbn [fmul Rops].
    assert (E : tol * sqrt (nrm2 Rops b) = sqrt (tol * tol * nrm2 Rops b)).
    { rewrite sqrt_mult by nra. now rewrite sqrt_square. }
    rewrite E. split; intros H.
    + apply sqrt_lt_1; [exact Ha | nra | exact H].
    + apply sqrt_lt_0; [exact Ha | nra | exact H].
Qed.

Lemma contraction_core r (G : nat -> nat -> R) rho mu (e e' : nat -> R) :
  0 < rho -> 0 <= mu ->
  mu * rsum r (fun i => (e' i)^2) <= rsum r (fun i => rsum r (fun k => e' i * G k i * e' k)) ->
  (forall i, (i < r)%nat -> rsum r (fun k => G k i * e' k) + rho * e' i = rho * e i) ->
  (mu + rho)^2 * rsum r (fun i => (e' i)^2) <= rho^2 * rsum r (fun i => (e i)^2).
Proof.
  intros Hr Hm PD EQ.
  set (N' := rsum r (fun i => (e' i)^2)) in *. set (N := rsum r (fun i => (e i)^2)).
  set (C := rsum r (fun i => e i * e' i)).
  assert (HN' : 0 <= N') by (apply rsum_nonneg; intros; apply pow2_ge_0).
  assert (HN : 0 <= N) by (apply rsum_nonneg; intros; apply pow2_ge_0).
  assert (H1 : (mu + rho) * N' <= rho * C).
  { assert (H : rsum r (fun i => e' i * (rsum r (fun k => G k i * e' k) + rho * e' i)) = rho * C).
    { unfold C. rewrite <- rsum_scale. apply rsum_ext. intros i Hi. rewrite (EQ i Hi). ring. }
    rewrite (rsum_ext r _ (fun i => rsum r (fun k => e' i * G k i * e' k) + rho * (e' i)^2)) in H.
    2:{ intros i Hi. rewrite Rmult_plus_distr_l. f_equal; [|ring]. rewrite <- rsum_scale. apply rsum_ext; intros; ring. }
    rewrite rsum_add, rsum_scale in H. fold N' in H. lra. }
  assert (CS : C^2 <= N * N') by apply cauchy_schwarz.
  destruct (Req_dec N' 0) as [Z|NZ].
  - rewrite Z. nra.
  - assert (P : 0 < N') by lra.
    assert (H2 : ((mu + rho) * N')^2 <= (rho * C)^2) by (apply pow_incr; split; nra).
    assert (H3 : (mu + rho)^2 * N' * N' <= rho^2 * N * N') by nra.
    apply Rmult_le_reg_r with N'; [exact P | lra].
Qed.

Lemma wfm_meye r : wfm r r (meye Rops r).
Proof.
  unfold meye. split; [now rewrite map_length, seq_length|]. intros i Hi.
  rewrite (nth_map_seq _ r i [] Hi). now rewrite map_length, seq_length.
Qed.
Lemma mget_meye r i j : (i < r)%nat -> (j < r)%nat -> Mget (meye Rops r) i j = if Nat.eqb i j then 1 else 0.
Proof.
  intros Hi Hj. unfold mget, mrow, meye. rewrite (nth_map_seq _ r i [] Hi). now rewrite (nth_map_seq _ r j _ Hj).
Qed.

Section Unconstrained.
Variables (solve : mat -> mat -> mat) (UtM UtU : mat) (m r : nat).
Notation rho := (admm_rho Rops UtU r).
Notation idp := (fun T : mat => T).
Hypothesis WG : wfm r r UtU.
Hypothesis WB : wfm m r UtM.

(* --- no hypothesis at all: the dual variable vanishes, the rule never fires --- *)
Lemma body_id_dual x d : allz (snd (admm_body Rops solve idp UtM UtU m r x d)).
Proof. unfold admm_body. cbn [snd]. apply mmap2_cancel. Qed.

Lemma stop_id_false tol x d :
  let b := admm_body Rops solve idp UtM UtU m r x d in
  admm_stop Rops m tol x (fst (fst b)) (snd (fst b)) (snd b) = false.
Proof.
  cbv zeta. unfold admm_stop. rewrite (norm_lt_zero tol _ _ (body_id_dual x d)). apply andb_false_r.
Qed.

(* the loop without its stopping rule *)
Fixpoint admm_iter (fuel : nat) (x : mat) (xs : option mat) (d : mat) : mat * option mat * mat :=
  match fuel with
  | O => (x, xs, d)
  | S f => let b := admm_body Rops solve idp UtM UtU m r x d in admm_iter f (fst (fst b)) (Some (snd (fst b))) (snd b)
  end.

Theorem admm_id_runs_all tol fuel : forall x xs d,
  admm_loop Rops solve idp UtM UtU m r tol fuel x xs d = admm_iter fuel x xs d.
Proof.
  induction fuel as [|f IH]; intros x xs d; [reflexivity|]. cbn [admm_loop admm_iter].
  pose proof (stop_id_false tol x d) as H. cbv zeta in H.
  destruct (admm_body Rops solve idp UtM UtU m r x d) as [[x' xs'] d']. cbn [fst snd] in *. rewrite H. apply IH.
Qed.

(* --- with the contract of tl.solve on the one matrix the loop inverts --- *)
Hypothesis Hrho : 0 < rho.
Variable mu : R.
Hypothesis Hmu : 0 <= mu.
Hypothesis PD : forall v : nat -> R,
  mu * rsum r (fun i => (v i)^2) <= rsum r (fun i => rsum r (fun k => v i * Mget UtU k i * v k)).
Hypothesis SOLVE : forall B, wfm r m B -> solves r m (admm_lhs Rops UtU r) B (solve (admm_lhs Rops UtU r) B).
Variable xstar : mat.
Hypothesis NE : forall c i, (c < m)%nat -> (i < r)%nat ->
  rsum r (fun k => Mget UtU k i * Mget xstar c k) = Mget UtM c i.

(* squared distance of row c of x to row c of the solution of the normal equations *)
Definition err2 (x : mat) (c : nat) : R := rsum r (fun i => (Mget x c i - Mget xstar c i)^2).

Lemma body_shape x d : wfm m r x -> wfm m r d ->
  let b := admm_body Rops solve idp UtM UtU m r x d in
  wfm m r (fst (fst b)) /\ wfm r m (snd (fst b)) /\ wfm m r (snd b).
Proof.
  intros Wx Wd. cbv zeta. unfold admm_body. cbn [fst snd].
  set (B := mtranspose Rops r (madd Rops UtM (mscale Rops rho (madd Rops x d)))).
  assert (WBm : wfm r m B).
  { apply wfm_transpose. apply (wfm_mmap2 m r); [exact WB|]. apply wfm_mmap. now apply wfm_mmap2. }
  destruct (SOLVE B WBm) as [WS _]. fold (admm_xsplit Rops solve UtM UtU r x d). unfold admm_xsplit. fold B.
  set (S := solve (admm_lhs Rops UtU r) B) in *.
  assert (WT : wfm m r (mtranspose Rops m S)) by (apply wfm_transpose; apply WS).
  assert (Wx' : wfm m r (msub Rops (mtranspose Rops m S) d)) by (now apply wfm_mmap2).
  split; [exact Wx'|]. split; [exact WS|]. apply wfm_mmap2; [|exact WT]. now apply wfm_mmap2.
Qed.

Lemma body_contract x d : wfm m r x -> wfm m r d -> allz d ->
  let b := admm_body Rops solve idp UtM UtU m r x d in
  forall c, (c < m)%nat -> (mu + rho)^2 * err2 (fst (fst b)) c <= rho^2 * err2 x c.
Proof.
  intros Wx Wd Zd. cbv zeta. intros c Hc. unfold admm_body. cbn [fst snd]. unfold admm_xsplit.
  set (B := mtranspose Rops r (madd Rops UtM (mscale Rops rho (madd Rops x d)))).
  assert (WBm : wfm r m B).
  { apply wfm_transpose. apply (wfm_mmap2 m r); [exact WB|]. apply wfm_mmap. now apply wfm_mmap2. }
  destruct (SOLVE B WBm) as [WS HS]. set (S := solve (admm_lhs Rops UtU r) B) in *.
  assert (WT : wfm m r (mtranspose Rops m S)) by (apply wfm_transpose; apply WS).
  unfold err2.
  apply (contraction_core r (fun k i => Mget UtU k i) rho mu
           (fun i => Mget x c i - Mget xstar c i)
           (fun i => Mget (msub Rops (mtranspose Rops m S) d) c i - Mget xstar c i) Hrho Hmu (PD _)).
  intros i Hi.
  assert (X' : forall k, (k < r)%nat -> Mget (msub Rops (mtranspose Rops m S) d) c k = Mget S k c).
  { intros k Hk. unfold msub. rewrite (mget_mmap2 m r) by assumption. rewrite (allz_mget d Zd).
    rewrite mget_transpose by (rewrite ?(proj1 WS); assumption). cbn. ring. }
  specialize (HS i c Hi Hc).
  assert (L : forall k, (k < r)%nat -> Mget (admm_lhs Rops UtU r) i k = Mget UtU k i + rho * (if Nat.eqb k i then 1 else 0)).
  { intros k Hk. unfold admm_lhs.
    assert (WE : wfm r r (mscale Rops rho (meye Rops r))) by (apply wfm_mmap, wfm_meye).
    assert (WA : wfm r r (madd Rops UtU (mscale Rops rho (meye Rops r)))) by (now apply wfm_mmap2).
    rewrite mget_transpose by (rewrite ?(proj1 WA); assumption).
    unfold madd. rewrite (mget_mmap2 r r) by assumption. unfold mscale. rewrite (mget_mmap r r) by (try apply wfm_meye; assumption).
    rewrite mget_meye by assumption. reflexivity. }
  rewrite (rsum_ext r _ (fun k => Mget UtU k i * Mget S k c + rho * ((if Nat.eqb k i then 1 else 0) * Mget S k c))) in HS.
  2:{ intros k Hk. rewrite (L k Hk). ring. }
  rewrite rsum_add, rsum_scale in HS.
  rewrite (rsum_single r i (fun k => (if Nat.eqb k i then 1 else 0) * Mget S k c)) in HS.
  2: exact Hi.
  2:{ intros k Hk Hne. apply Nat.eqb_neq in Hne. rewrite Hne. ring. }
  rewrite Nat.eqb_refl in HS.
  assert (RB : Mget B i c = Mget UtM c i + rho * Mget x c i).
  { unfold B. assert (WX : wfm m r (madd Rops x d)) by (now apply wfm_mmap2).
    assert (WR : wfm m r (mscale Rops rho (madd Rops x d))) by (now apply wfm_mmap).
    assert (WA : wfm m r (madd Rops UtM (mscale Rops rho (madd Rops x d)))) by (now apply wfm_mmap2).
    rewrite mget_transpose by (rewrite ?(proj1 WA); assumption).
    unfold madd at 1. rewrite (mget_mmap2 m r) by assumption. unfold mscale. rewrite (mget_mmap m r) by assumption.
    unfold madd. rewrite (mget_mmap2 m r) by assumption. rewrite (allz_mget d Zd). cbn. ring. }
  rewrite RB in HS.
  rewrite (rsum_ext r _ (fun k => Mget UtU k i * Mget S k c - Mget UtU k i * Mget xstar c k)).
  2:{ intros k Hk. rewrite (X' k Hk). ring. }
  rewrite rsum_sub, (NE c i Hc Hi), (X' i Hi). lra.
Qed.

Lemma iter_contract fuel : forall x xs d, wfm m r x -> wfm m r d -> allz d ->
  let t := admm_iter fuel x xs d in
  wfm m r (fst (fst t)) /\ wfm m r (snd t) /\ allz (snd t) /\
  forall c, (c < m)%nat -> ((mu + rho)^2)^fuel * err2 (fst (fst t)) c <= (rho^2)^fuel * err2 x c.
Proof.
  induction fuel as [|f IH]; intros x xs d Wx Wd Zd; cbv zeta.
  - cbn [admm_iter fst snd pow]. split; [exact Wx | split; [exact Wd | split; [exact Zd | intros; lra]]].
  - cbn [admm_iter]. pose proof (body_shape x d Wx Wd) as (W1 & _ & W3). pose proof (body_contract x d Wx Wd Zd) as BC.
    pose proof (body_id_dual x d) as Z1. cbv zeta in *.
    set (b := admm_body Rops solve idp UtM UtU m r x d) in *.
    destruct (IH (fst (fst b)) (Some (snd (fst b))) (snd b) W1 W3 Z1) as (I1 & I2 & I3 & I4). cbv zeta in *.
    split; [exact I1 | split; [exact I2 | split; [exact I3 |]]]. intros c Hc. specialize (I4 c Hc). specialize (BC c Hc).
    rewrite <- (tech_pow_Rmult ((mu + rho)^2) f), <- (tech_pow_Rmult (rho^2) f).
    assert (P1 : 0 <= ((mu + rho)^2)^f) by (apply pow_le, pow2_ge_0).
    assert (P2 : 0 <= (rho^2)^f) by (apply pow_le, pow2_ge_0).
    assert (P3 : 0 <= (mu + rho)^2) by apply pow2_ge_0.
    apply Rle_trans with ((mu + rho)^2 * ((rho^2)^f * err2 (fst (fst b)) c)); [rewrite Rmult_assoc; apply Rmult_le_compat_l; assumption|].
    replace ((mu + rho)^2 * ((rho^2)^f * err2 (fst (fst b)) c)) with ((rho^2)^f * ((mu + rho)^2 * err2 (fst (fst b)) c)) by ring.
    replace (rho^2 * (rho^2)^f * err2 x c) with ((rho^2)^f * (rho^2 * err2 x c)) by ring.
    apply Rmult_le_compat_l; assumption.
Qed.

(* END TO END: admm with a number of constraints but none selected, dual variable initialised to zero:
   the call returns after exactly n_iter_max iterations whatever tol is, the dual variable is still zero, and every
   row of x is within (rho / (mu + rho))^n of the least-squares solution (squared form, no division) *)
Theorem admm_unconstrained_bound nc o tol n x d : (o < nc)%nat -> n <> 0%nat ->
  wfm m r x -> wfm m r d -> allz d ->
  exists x' xs' d',
    admm Rops solve (Some nc) (Some o) (KNone) UtM UtU x d m r n tol = Ok (x', xs', d') /\
    (x', Some xs', d') = admm_iter n x (Some (mtranspose Rops r x)) d /\
    wfm m r x' /\ allz d' /\
    forall c, (c < m)%nat -> ((mu + rho)^2)^n * err2 x' c <= (rho^2)^n * err2 x c.
Proof.
  intros Ho Hn Wx Wd Zd. destruct n as [|n]; [congruence|].
  unfold admm, admm_gen, prox_call. cbn [order_eff]. apply Nat.ltb_lt in Ho. rewrite Ho.
  change (apply_constr Rops KNone) with idp.
  destruct (admm_loop_ran Rops solve idp UtM UtU m r tol n x (Some (mtranspose Rops r x)) d) as (xf & xsf & df & E). rewrite E.
  rewrite admm_id_runs_all in E.
  destruct (iter_contract (S n) x (Some (mtranspose Rops r x)) d Wx Wd Zd) as (I1 & I2 & I3 & I4). cbv zeta in *. rewrite E in *. cbn [fst snd] in *.
  exists xf, xsf, df. split; [reflexivity | split; [reflexivity | split; [exact I1 | split; [exact I3 | exact I4]]]].
Qed.

(* the limit: for a positive definite UtU (mu > 0) the returned x tends to the least-squares solution as n_iter_max grows *)
Theorem admm_unconstrained_converges nc o tol x d : (o < nc)%nat -> 0 < mu ->
  wfm m r x -> wfm m r d -> allz d ->
  forall eps, 0 < eps -> exists N, forall n, (N <= n)%nat -> n <> 0%nat ->
    forall x' xs' d', admm Rops solve (Some nc) (Some o) (KNone) UtM UtU x d m r n tol = Ok (x', xs', d') ->
    forall c, (c < m)%nat -> err2 x' c < eps.
Proof.
  intros Ho Hm Wx Wd Zd eps He.
  set (q := rho^2 / (mu + rho)^2).
  assert (Pm : 0 < (mu + rho)^2) by (apply pow_lt; lra).
  assert (Hq : 0 <= q < 1).
  { unfold q. split; [apply Rmult_le_pos; [apply pow2_ge_0 | left; now apply Rinv_0_lt_compat]|].
    apply Rmult_lt_reg_r with ((mu + rho)^2); [exact Pm|]. unfold Rdiv. rewrite Rmult_assoc, Rinv_l by lra. nra. }
  (* a bound of all the initial row errors *)
  assert (EB : exists E0, 0 < E0 /\ forall c, (c < m)%nat -> err2 x c <= E0).
  { clear -m. induction m as [|k IH].
    - exists 1. split; [lra | intros; lia].
    - destruct IH as (E0 & P & H). exists (E0 + Rabs (err2 x k)). pose proof (Rabs_pos (err2 x k)). split; [lra|].
      intros c Hc. destruct (Nat.eq_dec c k) as [->|Hne]; [pose proof (Rle_abs (err2 x k)); lra|].
      specialize (H c ltac:(lia)). lra. }
  destruct EB as (E0 & PE & HE).
  destruct (pow_lt_1_zero q) with (y := eps / E0) as [N HN].
  { rewrite Rabs_right; lra. }
  { apply Rdiv_lt_0_compat; assumption. }
  exists N. intros n Hn Hn0 x' xs' d' E c Hc.
  destruct (admm_unconstrained_bound nc o tol n x d Ho Hn0 Wx Wd Zd) as (y & ys & dy & E' & _ & _ & _ & B).
  rewrite E in E'. injection E' as <- <- <-. specialize (B c Hc).
  specialize (HN n Hn). rewrite Rabs_right in HN by (apply Rle_ge, pow_le; lra).
  assert (Pn : 0 < ((mu + rho)^2)^n) by (now apply pow_lt).
  assert (Q : q^n * ((mu + rho)^2)^n = (rho^2)^n).
  { rewrite <- Rpow_mult_distr. f_equal. unfold q, Rdiv. rewrite Rmult_assoc, Rinv_l by lra. ring. }
  assert (B2 : err2 x' c <= q^n * err2 x c).
  { apply Rmult_le_reg_l with (((mu + rho)^2)^n); [exact Pn|].
    replace (((mu + rho)^2)^n * (q^n * err2 x c)) with ((q^n * ((mu + rho)^2)^n) * err2 x c) by ring. rewrite Q. exact B. }
  assert (0 <= q^n) by (apply pow_le; lra).
  assert (0 <= err2 x c) by (apply rsum_nonneg; intros; apply pow2_ge_0).
  apply Rle_lt_trans with (q^n * E0); [specialize (HE c Hc); nra|].
  apply Rmult_lt_reg_r with (/ E0); [now apply Rinv_0_lt_compat|].
  rewrite Rmult_assoc, Rinv_r by lra. unfold Rdiv in HN. lra.
Qed.

(* ANY initial dual variable: the first body absorbs it (dual_var becomes zero, x becomes x_1), the contraction holds from x_1 on *)
Theorem admm_unconstrained_bound_any_dual nc o tol n x d : (o < nc)%nat ->
  wfm m r x -> wfm m r d ->
  let x1 := fst (fst (admm_body Rops solve idp UtM UtU m r x d)) in
  exists x' xs' d',
    admm Rops solve (Some nc) (Some o) (KNone) UtM UtU x d m r (S n) tol = Ok (x', xs', d') /\
    wfm m r x' /\ allz d' /\
    forall c, (c < m)%nat -> ((mu + rho)^2)^n * err2 x' c <= (rho^2)^n * err2 x1 c.
Proof.
  intros Ho Wx Wd. cbv zeta.
  unfold admm, admm_gen, prox_call. cbn [order_eff]. apply Nat.ltb_lt in Ho. rewrite Ho.
  change (apply_constr Rops KNone) with idp.
  destruct (admm_loop_ran Rops solve idp UtM UtU m r tol n x (Some (mtranspose Rops r x)) d) as (xf & xsf & df & E). rewrite E.
  rewrite admm_id_runs_all in E. cbn [admm_iter] in E.
  pose proof (body_shape x d Wx Wd) as (W1 & _ & W3). pose proof (body_id_dual x d) as Z1. cbv zeta in *.
  set (b := admm_body Rops solve idp UtM UtU m r x d) in *.
  destruct (iter_contract n (fst (fst b)) (Some (snd (fst b))) (snd b) W1 W3 Z1) as (I1 & I2 & I3 & I4). cbv zeta in *.
  rewrite E in *. cbn [fst snd] in *.
  exists xf, xsf, df. split; [reflexivity | split; [exact I1 | split; [exact I3 | exact I4]]].
Qed.

End Unconstrained.

(* ---------- entrywise meaning of the loop body and of the stopping rule (used by the static tie, harness/props/C13_tie.py:
   the entries computed from the Python ast of the current source are proved equal to these) ---------- *)
Definition admm_rhs (UtM UtU : mat) (r : nat) (x dual : mat) : mat :=
  mtranspose Rops r (madd Rops UtM (mscale Rops (admm_rho Rops UtU r) (madd Rops x dual))).
Lemma admm_body_struct (solve : mat -> mat -> mat) (prox : mat -> mat) UtM UtU m r x dual :
  let xs := solve (admm_lhs Rops UtU r) (admm_rhs UtM UtU r x dual) in
  let x' := prox (msub Rops (mtranspose Rops m xs) dual) in
  admm_body Rops solve prox UtM UtU m r x dual = (x', xs, msub Rops (madd Rops dual x') (mtranspose Rops m xs)).
Proof. reflexivity. Qed.
Lemma admm_stop_struct m tol (x_old x' xs dual' : mat) :
  admm_stop Rops m tol x_old x' xs dual' =
  norm_lt Rops tol (msub Rops x' (mtranspose Rops m xs)) x' && norm_lt Rops tol (msub Rops x' x_old) dual'.
Proof. reflexivity. Qed.
Lemma admm_lhs_entry UtU r i k : wfm r r UtU -> (i < r)%nat -> (k < r)%nat ->
  Mget (admm_lhs Rops UtU r) i k = Mget UtU k i + admm_rho Rops UtU r * (if Nat.eqb k i then 1 else 0).
Proof.
  intros WG Hi Hk. unfold admm_lhs.
  assert (WE : wfm r r (mscale Rops (admm_rho Rops UtU r) (meye Rops r))) by (apply wfm_mmap, wfm_meye).
  assert (WA : wfm r r (madd Rops UtU (mscale Rops (admm_rho Rops UtU r) (meye Rops r)))) by (now apply wfm_mmap2).
  rewrite mget_transpose by (rewrite ?(proj1 WA); assumption).
  unfold madd. rewrite (mget_mmap2 r r) by assumption. unfold mscale. rewrite (mget_mmap r r) by (try apply wfm_meye; assumption).
  rewrite mget_meye by assumption. reflexivity.
Qed.
Lemma admm_rhs_entry UtM UtU m r x dual i c : wfm m r UtM -> wfm m r x -> wfm m r dual -> (i < r)%nat -> (c < m)%nat ->
  Mget (admm_rhs UtM UtU r x dual) i c = Mget UtM c i + admm_rho Rops UtU r * (Mget x c i + Mget dual c i).
Proof.
  intros WB Wx Wd Hi Hc. unfold admm_rhs.
  assert (WX : wfm m r (madd Rops x dual)) by (now apply wfm_mmap2).
  assert (WR : wfm m r (mscale Rops (admm_rho Rops UtU r) (madd Rops x dual))) by (now apply wfm_mmap).
  assert (WA : wfm m r (madd Rops UtM (mscale Rops (admm_rho Rops UtU r) (madd Rops x dual)))) by (now apply wfm_mmap2).
  rewrite mget_transpose by (rewrite ?(proj1 WA); assumption).
  unfold madd at 1. rewrite (mget_mmap2 m r) by assumption. unfold mscale. rewrite (mget_mmap m r) by assumption.
  unfold madd. rewrite (mget_mmap2 m r) by assumption. reflexivity.
Qed.
Lemma msub_entry m r (A B : mat) c i : wfm m r A -> wfm m r B -> (c < m)%nat -> (i < r)%nat ->
  Mget (msub Rops A B) c i = Mget A c i - Mget B c i.
Proof. intros. unfold msub. now rewrite (mget_mmap2 m r). Qed.
Lemma admm_proxarg_entry m r (xs dual : mat) c i : wfm r m xs -> wfm m r dual -> (c < m)%nat -> (i < r)%nat ->
  Mget (msub Rops (mtranspose Rops m xs) dual) c i = Mget xs i c - Mget dual c i.
Proof.
  intros WS Wd Hc Hi. rewrite (msub_entry m r) by (try apply wfm_transpose; try apply WS; assumption).
  rewrite mget_transpose by (rewrite ?(proj1 WS); assumption). reflexivity.
Qed.
Lemma admm_dual_entry m r (xs x' dual : mat) c i : wfm r m xs -> wfm m r x' -> wfm m r dual -> (c < m)%nat -> (i < r)%nat ->
  Mget (msub Rops (madd Rops dual x') (mtranspose Rops m xs)) c i = Mget dual c i + Mget x' c i - Mget xs i c.
Proof.
  intros WS Wx Wd Hc Hi. rewrite (msub_entry m r) by (try apply wfm_transpose; try apply WS; try (now apply wfm_mmap2); assumption).
  unfold madd. rewrite (mget_mmap2 m r) by assumption.
  rewrite mget_transpose by (rewrite ?(proj1 WS); assumption). reflexivity.
Qed.

Lemma admm_dres_entry m r (xs x' : mat) c i : wfm r m xs -> wfm m r x' -> (c < m)%nat -> (i < r)%nat ->
  Mget (msub Rops x' (mtranspose Rops m xs)) c i = Mget x' c i - Mget xs i c.
Proof.
  intros WS Wx Hc Hi. rewrite (msub_entry m r) by (try apply wfm_transpose; try apply WS; assumption).
  rewrite mget_transpose by (rewrite ?(proj1 WS); assumption). reflexivity.
Qed.

(* ---------- non-vacuity: a 1 x 1 instance over R satisfying every hypothesis of the section jointly ---------- *)
Definition asolve1 (A B : mat) : mat :=
  match A, B with [[a]], [[b]] => [[b / a]] | _, _ => [] end.
Lemma wfm11 (a : R) : wfm 1 1 [[a]].
Proof. split; [reflexivity|]. intros i Hi. destruct i; [reflexivity | lia]. Qed.
Lemma rho1 : admm_rho Rops [[2]] 1 = 2.
Proof. unfold admm_rho, mtrace, vsum. cbn. field. Qed.
Lemma admm_example_hyps :
  wfm 1 1 [[2]] /\ wfm 1 1 [[4]] /\ 0 < admm_rho Rops [[2]] 1 /\
  (forall v : nat -> R, 2 * rsum 1 (fun i => (v i)^2) <= rsum 1 (fun i => rsum 1 (fun k => v i * Mget [[2]] k i * v k))) /\
  (forall B, wfm 1 1 B -> solves 1 1 (admm_lhs Rops [[2]] 1) B (asolve1 (admm_lhs Rops [[2]] 1) B)) /\
  (forall c i, (c < 1)%nat -> (i < 1)%nat -> rsum 1 (fun k => Mget [[2]] k i * Mget [[2]] c k) = Mget [[4]] c i).
Proof.
  split; [apply wfm11|]. split; [apply wfm11|]. split; [rewrite rho1; lra|]. split; [|split].
  - intros v. cbn. nra.
  - intros B [LB RB]. destruct B as [|row [|]]; try discriminate. specialize (RB 0%nat ltac:(lia)). cbn in RB.
    destruct row as [|b [|]]; try discriminate.
    assert (E : admm_lhs Rops [[2]] 1 = [[2 + admm_rho Rops [[2]] 1 * 1]]) by reflexivity.
    rewrite E, rho1. cbn [asolve1]. split; [apply wfm11|].
    intros i c Hi Hc. destruct i; [|lia]. destruct c; [|lia]. cbn. field.
  - intros c i Hc Hi. destruct c; [|lia]. destruct i; [|lia]. cbn. ring.
Qed.
(* the end-to-end bound on that instance: from x = 0 the error 2^2 shrinks by (2/4)^2 per iteration *)
Example admm_example_bound n : n <> 0%nat ->
  exists x' xs' d', admm Rops asolve1 (Some 1%nat) (Some 0%nat) (KNone) [[4]] [[2]] [[0]] [[0]] 1 1 n (1/10000) = Ok (x', xs', d') /\
    ((2 + 2)^2)^n * (Mget x' 0 0 - 2)^2 <= (2^2)^n * (0 - 2)^2.
Proof.
  intros Hn. destruct admm_example_hyps as (WG & WB & Hr & PD & SV & NE).
  assert (Zd : allz [[0]]) by (repeat constructor).
  destruct (admm_unconstrained_bound asolve1 [[4]] [[2]] 1 1 WG WB Hr 2 ltac:(lra) PD SV [[2]] NE 1 0 (1/10000) n [[0]] [[0]]
              ltac:(lia) Hn (wfm11 0) (wfm11 0) Zd) as (x' & xs' & d' & E & _ & _ & _ & B).
  exists x', xs', d'. split; [exact E|]. specialize (B 0%nat ltac:(lia)). unfold err2 in B. cbn [rsum] in B.
  rewrite rho1 in B. change (Mget [[2]] 0 0) with 2 in B. change (Mget [[0]] 0 0) with 0 in B. lra.
Qed.


(* ---------- admm with non_negative=True: a state the loop body leaves unchanged is a KKT point ---------- *)
(* (x, dual_var) reproduced by one loop body  =>  every row of x satisfies the KKT conditions of
   min 1/2 x' UtU x - UtM_c x  s.t. x >= 0, with multiplier rho * dual_var: x >= 0, gradient >= 0, complementary.
   (With Base/RSum.v kkt_optimal: x is then a global minimiser of the non-negative least-squares problem.) *)
Section Nonneg.
Variables (solve : mat -> mat -> mat) (UtM UtU : mat) (m r : nat).
Notation rho := (admm_rho Rops UtU r).
Hypothesis WG : wfm r r UtU.
Hypothesis WB : wfm m r UtM.
Hypothesis Hrho : 0 < rho.
Hypothesis SOLVE : forall B, wfm r m B -> solves r m (admm_lhs Rops UtU r) B (solve (admm_lhs Rops UtU r) B).

Theorem admm_nonneg_fixed_point_kkt x d : wfm m r x -> wfm m r d ->
  let b := admm_body Rops solve (apply_constr Rops KNonneg) UtM UtU m r x d in
  fst (fst b) = x -> snd b = d ->
  forall c i, (c < m)%nat -> (i < r)%nat ->
    let g := rsum r (fun k => Mget UtU k i * Mget x c k) - Mget UtM c i in
    0 <= Mget x c i /\ 0 <= g /\ Mget x c i * g = 0 /\ g = rho * Mget d c i.
Proof.
  intros Wx Wd. cbv zeta. unfold admm_body. cbn [fst snd]. unfold admm_xsplit.
  set (B := mtranspose Rops r (madd Rops UtM (mscale Rops rho (madd Rops x d)))).
  assert (WBm : wfm r m B).
  { apply wfm_transpose. apply (wfm_mmap2 m r); [exact WB|]. apply wfm_mmap. now apply wfm_mmap2. }
  destruct (SOLVE B WBm) as [WS HS]. set (S := solve (admm_lhs Rops UtU r) B) in *.
  assert (WT : wfm m r (mtranspose Rops m S)) by (apply wfm_transpose; apply WS).
  intros Hx Hd c i Hc Hi. rewrite Hx in Hd.
  assert (ST : forall k, (k < r)%nat -> Mget (mtranspose Rops m S) c k = Mget S k c).
  { intros k Hk. apply mget_transpose; rewrite ?(proj1 WS); assumption. }
  (* x_c = S_c *)
  assert (XS : forall k, (k < r)%nat -> Mget x c k = Mget S k c).
  { intros k Hk. assert (E : Mget (msub Rops (madd Rops d x) (mtranspose Rops m S)) c k = Mget d c k) by now rewrite Hd.
    unfold msub, madd in E. rewrite (mget_mmap2 m r) in E; try assumption; [|now apply wfm_mmap2].
    rewrite (mget_mmap2 m r) in E by assumption. rewrite (ST k Hk) in E. cbn in E. lra. }
  (* x = relu (x - d) *)
  assert (RL : Mget x c i = relu Rops (Mget x c i - Mget d c i)).
  { assert (E : Mget (apply_constr Rops KNonneg (msub Rops (mtranspose Rops m S) d)) c i = Mget x c i) by now rewrite Hx.
    cbn [apply_constr] in E. rewrite (mget_mmap m r) in E; try assumption; [|now apply wfm_mmap2].
    unfold msub in E. rewrite (mget_mmap2 m r) in E by assumption. rewrite (ST i Hi), <- (XS i Hi) in E. cbn [fsub Rops] in E. now rewrite E. }
  (* the solve contract at (i, c) *)
  specialize (HS i c Hi Hc).
  assert (L : forall k, (k < r)%nat -> Mget (admm_lhs Rops UtU r) i k = Mget UtU k i + rho * (if Nat.eqb k i then 1 else 0)).
  { intros k Hk. unfold admm_lhs.
    assert (WE : wfm r r (mscale Rops rho (meye Rops r))) by (apply wfm_mmap, wfm_meye).
    assert (WA : wfm r r (madd Rops UtU (mscale Rops rho (meye Rops r)))) by (now apply wfm_mmap2).
    rewrite mget_transpose by (rewrite ?(proj1 WA); assumption).
    unfold madd. rewrite (mget_mmap2 r r) by assumption. unfold mscale. rewrite (mget_mmap r r) by (try apply wfm_meye; assumption).
    rewrite mget_meye by assumption. reflexivity. }
  rewrite (rsum_ext r _ (fun k => Mget UtU k i * Mget x c k + rho * ((if Nat.eqb k i then 1 else 0) * Mget x c k))) in HS.
  2:{ intros k Hk. rewrite (L k Hk), (XS k Hk). ring. }
  rewrite rsum_add, rsum_scale in HS.
  rewrite (rsum_single r i (fun k => (if Nat.eqb k i then 1 else 0) * Mget x c k)) in HS.
  2: exact Hi.
  2:{ intros k Hk Hne. apply Nat.eqb_neq in Hne. rewrite Hne. ring. }
  rewrite Nat.eqb_refl in HS.
  assert (RB : Mget B i c = Mget UtM c i + rho * (Mget x c i + Mget d c i)).
  { unfold B. assert (WX : wfm m r (madd Rops x d)) by (now apply wfm_mmap2).
    assert (WR : wfm m r (mscale Rops rho (madd Rops x d))) by (now apply wfm_mmap).
    assert (WA : wfm m r (madd Rops UtM (mscale Rops rho (madd Rops x d)))) by (now apply wfm_mmap2).
    rewrite mget_transpose by (rewrite ?(proj1 WA); assumption).
    unfold madd at 1. rewrite (mget_mmap2 m r) by assumption. unfold mscale. rewrite (mget_mmap m r) by assumption.
    unfold madd. rewrite (mget_mmap2 m r) by assumption. reflexivity. }
  rewrite RB in HS. cbn [fadd fmul Rops] in HS.
  assert (Gd : rsum r (fun k => Mget UtU k i * Mget x c k) - Mget UtM c i = rho * Mget d c i) by lra.
  rewrite Gd. unfold relu in RL. cbn [fleb f0 Rops] in RL. unfold Rleb in RL.
  destruct (Rle_dec 0 (Mget x c i - Mget d c i)) as [P|P].
  - assert (Mget d c i = 0) by lra. rewrite H. repeat split; (lra || nra).
  - assert (Mget x c i = 0) by exact RL. rewrite H in *. repeat split; (lra || nra).
Qed.
End Nonneg.

(* ---------- admm with non_negative=True returns a non-negative x (any tl.solve, any data, any tol) ---------- *)
Definition nonnegm (A : mat) : Prop := Forall (Forall (fun v => 0 <= v)) A.
Lemma relu_nonneg v : 0 <= relu Rops v.
Proof. unfold relu. cbn [fleb f0 Rops]. unfold Rleb. destruct (Rle_dec 0 v); lra. Qed.
Lemma apply_nonneg_nonneg (T : mat) : nonnegm (apply_constr Rops KNonneg T).
Proof.
  cbn [apply_constr]. unfold nonnegm, mmap. apply Forall_map, Forall_forall. intros row _.
  apply Forall_map, Forall_forall. intros v _. apply relu_nonneg.
Qed.
Lemma admm_nonneg_loop (solve : mat -> mat -> mat) UtM UtU m r tol fuel : forall x xs d, nonnegm x ->
  nonnegm (fst (fst (admm_loop Rops solve (apply_constr Rops KNonneg) UtM UtU m r tol fuel x xs d))).
Proof.
  induction fuel as [|f IH]; intros x xs d Hx; [exact Hx|]. cbn [admm_loop].
  assert (B : nonnegm (fst (fst (admm_body Rops solve (apply_constr Rops KNonneg) UtM UtU m r x d)))) by (unfold admm_body; cbn [fst]; apply apply_nonneg_nonneg).
  destruct (admm_body Rops solve (apply_constr Rops KNonneg) UtM UtU m r x d) as [[x' xs'] d']. cbn [fst] in B.
  destruct (admm_stop Rops m tol x x' xs' d'); [exact B | now apply IH].
Qed.
Theorem admm_nonneg_returns_nonneg (solve : mat -> mat -> mat) nc order UtM UtU x dual m r n tol x' xs' d' :
  (n <> 0%nat \/ nonnegm x) ->
  admm Rops solve (Some nc) order (KNonneg) UtM UtU x dual m r n tol = Ok (x', xs', d') -> nonnegm x'.
Proof.
  intros Hn. destruct n as [|n]; [destruct Hn as [C|Hx]; [congruence|]; cbn; intros H; injection H as <- _ _; exact Hx|]. clear Hn.
  unfold admm, admm_gen. destruct (prox_call Rops (Some nc) order KNonneg x); [|discriminate].
  pose proof (admm_loop_ran Rops solve (apply_constr Rops KNonneg) UtM UtU m r tol n x (Some (mtranspose Rops r x)) dual) as (xf & xsf & df & E).
  rewrite E. intros H. injection H as <- <- <-.
  (* the first body already yields a non-negative x; the rest of the loop preserves it *)
  cbn [admm_loop] in E.
  assert (B : nonnegm (fst (fst (admm_body Rops solve (apply_constr Rops KNonneg) UtM UtU m r x dual)))) by (unfold admm_body; cbn [fst]; apply apply_nonneg_nonneg).
  destruct (admm_body Rops solve (apply_constr Rops KNonneg) UtM UtU m r x dual) as [[x1 xs1] d1]. cbn [fst] in B.
  destruct (admm_stop Rops m tol x x1 xs1 d1).
  - injection E as <- _ _. exact B.
  - pose proof (admm_nonneg_loop solve UtM UtU m r tol n x1 (Some xs1) d1 B) as H. rewrite E in H. exact H.
Qed.

(* ---------- any entrywise proximal operator: what a reproduced state satisfies; l1_reg: the lasso conditions ---------- *)
Section Entrywise.
Variables (solve : mat -> mat -> mat) (UtM UtU : mat) (m r : nat) (f : R -> R).
Notation rho := (admm_rho Rops UtU r).
Hypothesis WG : wfm r r UtU.
Hypothesis WB : wfm m r UtM.
Hypothesis SOLVE : forall B, wfm r m B -> solves r m (admm_lhs Rops UtU r) B (solve (admm_lhs Rops UtU r) B).

Lemma admm_fixed_point_entries x d : wfm m r x -> wfm m r d ->
  let b := admm_body Rops solve (mmap f) UtM UtU m r x d in
  fst (fst b) = x -> snd b = d ->
  forall c i, (c < m)%nat -> (i < r)%nat ->
    Mget x c i = f (Mget x c i - Mget d c i) /\
    rsum r (fun k => Mget UtU k i * Mget x c k) - Mget UtM c i = rho * Mget d c i.
Proof.
  intros Wx Wd. cbv zeta. rewrite admm_body_struct. cbv zeta. cbn [fst snd].
  set (B := admm_rhs UtM UtU r x d).
  assert (WBm : wfm r m B).
  { apply wfm_transpose. apply (wfm_mmap2 m r); [exact WB|]. apply wfm_mmap. now apply wfm_mmap2. }
  destruct (SOLVE B WBm) as [WS HS]. set (S := solve (admm_lhs Rops UtU r) B) in *.
  intros Hx Hd c i Hc Hi. rewrite Hx in Hd.
  assert (XS : forall k, (k < r)%nat -> Mget x c k = Mget S k c).
  { intros k Hk. assert (E : Mget (msub Rops (madd Rops d x) (mtranspose Rops m S)) c k = Mget d c k) by now rewrite Hd.
    rewrite (admm_dual_entry m r) in E by assumption. lra. }
  split.
  - assert (E : Mget (mmap f (msub Rops (mtranspose Rops m S) d)) c i = Mget x c i) by now rewrite Hx.
    rewrite (mget_mmap m r) in E; try assumption; [|apply wfm_mmap2; [apply wfm_transpose; apply WS | exact Wd]].
    rewrite (admm_proxarg_entry m r) in E by assumption. rewrite <- (XS i Hi) in E. now rewrite E.
  - specialize (HS i c Hi Hc).
    rewrite (rsum_ext r _ (fun k => Mget UtU k i * Mget x c k + rho * ((if Nat.eqb k i then 1 else 0) * Mget x c k))) in HS.
    2:{ intros k Hk. rewrite (admm_lhs_entry UtU r i k WG Hi Hk), (XS k Hk). ring. }
    rewrite rsum_add, rsum_scale in HS.
    rewrite (rsum_single r i (fun k => (if Nat.eqb k i then 1 else 0) * Mget x c k)) in HS.
    2: exact Hi.
    2:{ intros k Hk Hne. apply Nat.eqb_neq in Hne. rewrite Hne. ring. }
    rewrite Nat.eqb_refl in HS. unfold B in HS. rewrite (admm_rhs_entry UtM UtU m r) in HS by assumption. lra.
Qed.
End Entrywise.

Lemma soft1_fixed t x d : 0 < t -> x = soft1 Rops t (x - d) ->
  - t <= d <= t /\ (0 < x -> d = - t) /\ (x < 0 -> d = t).
Proof.
  intros Ht. unfold soft1, fsign, relu, fabs, fltb. cbn [fleb fmul fsub fopp f0 f1 Rops]. unfold Rleb.
  repeat (destruct (Rle_dec _ _); cbn [negb]); intros E; repeat split; intros; lra.
Qed.

(* admm with l1_reg = t > 0: a state (x, dual_var) that one loop body reproduces satisfies the optimality conditions of
   min 1/2 z' UtU z - UtM_c z + (rho t) |z|_1 row by row: the gradient g of the quadratic part is rho * dual_var,
   |g| <= rho t everywhere, g = - rho t where x > 0, g = rho t where x < 0 *)
Theorem admm_l1_fixed_point_kkt (solve : mat -> mat -> mat) (UtM UtU : mat) (m r : nat) (t : R) :
  wfm r r UtU -> wfm m r UtM -> 0 < admm_rho Rops UtU r -> 0 < t ->
  (forall B, wfm r m B -> solves r m (admm_lhs Rops UtU r) B (solve (admm_lhs Rops UtU r) B)) ->
  forall x d, wfm m r x -> wfm m r d ->
  let b := admm_body Rops solve (apply_constr Rops (KL1 t)) UtM UtU m r x d in
  fst (fst b) = x -> snd b = d ->
  forall c i, (c < m)%nat -> (i < r)%nat ->
    let g := rsum r (fun k => Mget UtU k i * Mget x c k) - Mget UtM c i in
    - (admm_rho Rops UtU r * t) <= g <= admm_rho Rops UtU r * t /\
    (0 < Mget x c i -> g = - (admm_rho Rops UtU r * t)) /\ (Mget x c i < 0 -> g = admm_rho Rops UtU r * t).
Proof.
  intros WG WB Hrho Ht SV x d Wx Wd. cbv zeta.
  assert (E : admm_body Rops solve (apply_constr Rops (KL1 t)) UtM UtU m r x d = admm_body Rops solve (mmap (soft1 Rops t)) UtM UtU m r x d).
  { unfold admm_body. cbn [apply_constr]. destruct (is0 Rops t) eqn:Z; [apply is0_R in Z; lra | reflexivity]. }
  rewrite E. intros Hx Hd c i Hc Hi.
  destruct (admm_fixed_point_entries solve UtM UtU m r (soft1 Rops t) WG WB SV x d Wx Wd Hx Hd c i Hc Hi) as [F G].
  rewrite G. destruct (soft1_fixed t _ _ Ht F) as (A & B & C).
  split; [split; nra|]. split; intros P; [rewrite (B P) | rewrite (C P)]; ring.
Qed.
