(* Executed witnesses (rational instance) for the model of `admm` (Model/NnlsAdmm.v). *)
From Coq Require Import List Arith Bool ZArith QArith.
From TLV Require Import Base.Ops Base.PyList Base.Tensor Model.Nnls Model.NnlsAdmm.
Import ListNotations.

Definition aw_solve (A B : list (list Q)) : list (list Q) :=
  match A, B with [[a]], [[b]] => [[Qred (b / a)]] | _, _ => [] end.

(* regression of the former defect (before /repo a5b9e5b): the documented stand-alone use of admm -- n_const = 1, a constraint,
   order left at its default None -- raised (validate_constraints indexed its lists with None); the repaired code reads None as
   mode 0: the same call returns, and from x = 0 the non-negative ADMM iterates 1, 3/2, 7/4 approach the solution 2 of 2 x = 4.
   Still raising, as it should: an order out of range. *)
Lemma admm_order_none_witness :
  admm_before_a5b9e5b Qops aw_solve (Some 1%nat) None (KNonneg) [[4%Q]] [[2%Q]] [[0%Q]] [[0%Q]] 1 1 3 (1#10000)%Q = Err /\
  admm Qops aw_solve (Some 1%nat) None (KNonneg) [[4%Q]] [[2%Q]] [[0%Q]] [[0%Q]] 1 1 3 (1#10000)%Q = Ok ([[7#4]], [[7#4]], [[0]])%Q /\
  admm Qops aw_solve (Some 1%nat) (Some 0%nat) (KNonneg) [[4%Q]] [[2%Q]] [[0%Q]] [[0%Q]] 1 1 3 (1#10000)%Q
    = Ok ([[7#4]], [[7#4]], [[0]])%Q /\
  admm Qops aw_solve (Some 1%nat) (Some 1%nat) (KNonneg) [[4%Q]] [[2%Q]] [[0%Q]] [[0%Q]] 1 1 3 (1#10000)%Q = Err /\
  admm Qops aw_solve None None (KNone) [[4%Q]] [[2%Q]] [[0%Q]] [[0%Q]] 1 1 100 (1#10000)%Q = Ok ([[2]], [[1]], [[0]])%Q.
Proof. vm_compute. repeat split; reflexivity. Qed.
(* regression of the former defect (before /repo fe4edf7): n_iter_max = 0 raised UnboundLocalError (x_split was only bound inside the
   loop); the repaired code binds x_split = x^T before the loop and returns the start *)
Lemma admm_zero_iterations_witness :
  admm_before_fe4edf7 Qops aw_solve None None (KNone) [[4%Q]] [[2%Q]] [[1%Q]] [[0%Q]] 1 1 0 (1#10000)%Q = Err /\
  admm Qops aw_solve None None (KNone) [[4%Q]] [[2%Q]] [[1%Q]] [[0%Q]] 1 1 0 (1#10000)%Q = Ok ([[1]], [[1]], [[0]])%Q /\
  admm Qops aw_solve (Some 1%nat) (Some 5%nat) (KNonneg) [[4%Q]] [[2%Q]] [[1%Q]] [[0%Q]] 1 1 0 (1#10000)%Q = Ok ([[1]], [[1]], [[0]])%Q.
Proof. vm_compute. repeat split; reflexivity. Qed.
