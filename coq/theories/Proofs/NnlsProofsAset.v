(* active_set_nnls (Model/Nnls.v, Section ActiveSet), repaired code (/repo dadc3ff).
   The interpolation step x + alpha (s - x) is modelled with a rounding function `rnd`.  Before the repair a
   perturbation of 2^-60 on the blocking coordinate (exact value 0) made the algorithm return a point that is not
   KKT on the integer 2 x 2 problem below (cond 6.9); the repaired step puts the coordinates attaining alpha exactly
   on the bound, and the same perturbed run now returns the optimum (regression witness, executed at Qops). *)
From Coq Require Import List Arith Bool ZArith QArith Qabs Lia.
From TLV Require Import Base.Ops Base.PyList Base.Tensor Model.Nnls.
Import ListNotations.

Definition rw_UtU : list (list Q) := [[1; -1]; [-1; 4]]%Q.
Definition rw_Utm : list Q := [-6; 1]%Q.
Definition rw_x0 : list Q := [3; 1]%Q.
Definition rw_tol : Q := (1 # 10000000)%Q.
Definition rw_ulp : Q := (1 # 1152921504606846976)%Q.   (* 2^-60 *)
Definition rw_rnd (x : Q) : Q := if Qeq_bool x 0 then rw_ulp else x.

Lemma rw_rnd_small x : (Qabs (rw_rnd x - x) <= rw_ulp)%Q.
Proof.
  unfold rw_rnd. destruct (Qeq_bool x 0) eqn:E.
  - apply Qeq_bool_eq in E. rewrite E. vm_compute. discriminate.
  - setoid_replace (x - x)%Q with 0%Q by ring. vm_compute. discriminate.
Qed.

Lemma active_set_rounding_witness :
  (forall x, (Qabs (rw_rnd x - x) <= rw_ulp)%Q) /\
  active_set_nnls Qops (gauss_solve Qops) (fun x => x) rw_Utm rw_UtU rw_tol (Some rw_x0) 100 = Some [0; 1 # 4]%Q /\
  active_set_nnls Qops (gauss_solve Qops) rw_rnd rw_Utm rw_UtU rw_tol (Some rw_x0) 100 = Some [0; 1 # 4]%Q /\
  (* Utm - UtU x at the returned point: zero on the passive coordinate, negative on the active one (KKT) *)
  gradient Qops rw_Utm rw_UtU [0; 1 # 4]%Q = [-23 # 4; 0]%Q.
Proof.
  split; [exact rw_rnd_small|]. repeat split; vm_compute; reflexivity.
Qed.

(* the loop is left through its termination test on this input (flag true): the hypothesis of the exit certificate
   (Proofs/NnlsProofsAsetCert.v) is reachable *)
Lemma active_set_run_witness :
  active_set_run Qops (gauss_solve Qops) (fun x => x) rw_Utm rw_UtU rw_tol (Some rw_x0) 100 = Some ([0; 1 # 4]%Q, true) /\
  active_set_run Qops (gauss_solve Qops) (fun x => x) rw_Utm rw_UtU rw_tol None 1 = Some ([0; 1 # 4]%Q, true) /\
  active_set_run Qops (gauss_solve Qops) (fun x => x) [3; 3]%Q [[2; 1]; [1; 2]]%Q rw_tol None 1 = Some ([3 # 2; 0]%Q, false).
Proof. repeat split; vm_compute; reflexivity. Qed.

(* ---------------------------------------------------------------------------------------------- *)
(* fista: regression of the former stopping-rule defect (before /repo f4b2876 the rule was |sum(x - x_new)| < tol * norm_0).
   UtU = [[2,1],[1,2]], UtM = (6,3), defaults (x0 = 0, non_negative, no penalties, lr = 1/3 = 1/sigma_max, tol = 1e-8,
   epsilon = 0): the second step is (-1/3, 1/3), its signed sum is 0 and the old loop stopped at (7/3, 2/3) (gradient
   (-2/3, 2/3), not KKT; optimum (3, 0)).  The repaired quantity is the l1 norm 2/3 of that step, far above
   tol * norm_0 = 3e-8, and a three-iteration run moves on.  Executed at the rational instance. *)
Definition fw_UtU : list (list Q) := [[2; 1]; [1; 2]]%Q.
Definition fw_UtM : list (list Q) := [[6]; [3]]%Q.
Definition fw_tol : Q := (1 # 100000000)%Q.
Lemma fista_stop_rule_witness :
  fista Qops fw_UtM fw_UtU 1 true 0 0 (1 # 3) fw_tol 0 [[0]; [0]]%Q [0%Q] = [[2]; [1]]%Q /\
  fista Qops fw_UtM fw_UtU 1 true 0 0 (1 # 3) fw_tol 0 [[0]; [0]]%Q [0%Q; 0%Q] = [[7 # 3]; [2 # 3]]%Q /\
  fista_nrm Qops [[2]; [1]]%Q [[7 # 3]; [2 # 3]]%Q = (2 # 3)%Q /\
  fista Qops fw_UtM fw_UtU 1 true 0 0 (1 # 3) fw_tol 0 [[0]; [0]]%Q [0%Q; 0%Q; 0%Q] = [[23 # 9]; [4 # 9]]%Q /\
  (* the optimum is a fixed point of the projected step and its gradient vanishes *)
  fista_new Qops fw_UtM fw_UtU 1 true 0 0 (1 # 3) 0 [[3]; [0]]%Q = [[3]; [0]]%Q /\
  fista_grad Qops fw_UtM fw_UtU 1 0 0 [[3]; [0]]%Q = [[0]; [0]]%Q.
Proof. repeat split; vm_compute; reflexivity. Qed.

(* ---------------------------------------------------------------------------------------------- *)
(* hals_nnls with nonzero_rows = True is NOT monotone and its fixed points are not the KKT points (by design: the
   safety procedure refuses zero rows).  UtU = I, UtM = (1, -1): the optimum (1, 0) is a fixed point of the pass with
   nonzero_rows = False, and is moved to (1, meps * 1) with nonzero_rows = True (meps = 1/8 here for readability),
   which raises the objective x'x/2 - b'x from -1/2 to -1/2 + 1/8 + 1/128. *)
Definition nzw_UtU : list (list Q) := [[1; 0]; [0; 1]]%Q.
Definition nzw_UtM : list (list Q) := [[1]; [-1]]%Q.
Definition nzw_V : list (list Q) := [[1]; [0]]%Q.
Lemma hals_nonzero_rows_witness :
  hals_pass Qops nzw_UtM nzw_UtU 1 (mkH None None false 0 (1 # 8))%Q nzw_V = nzw_V /\
  hals_pass Qops nzw_UtM nzw_UtU 1 (mkH None None true 0 (1 # 8))%Q nzw_V = [[1]; [1 # 8]]%Q /\
  kkt_grad Qops nzw_UtM nzw_UtU 1 0 0 nzw_V = [[0]; [1]]%Q.
Proof. repeat split; vm_compute; reflexivity. Qed.
