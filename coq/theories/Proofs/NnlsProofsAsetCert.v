(* Exit certificate of active_set_nnls (Model/Nnls.v, Section ActiveSet) over R, for an ABSTRACT tl.solve with its
   contract and an arbitrary rounding function of the interpolation step:
   1. whenever the loop is left through its termination test, the returned point is clip(s, 0) for the support
      vector s = scatter p (solve (UtU[p,p]) (Utm[p])) of the final passive set p, the final active set is the
      complement of p, and the test `no active index or max (Utm - UtU x)[active] <= tol` holds at that point
      (induction over the iteration budget, invariant active = not passive);
   2. such a point, when the support vector is non-negative, satisfies the KKT conditions within tol:
      x >= 0, (Utm - UtU x)_i = 0 on the passive set, x_i = 0 and (Utm - UtU x)_i <= tol on the active set. *)
From Coq Require Import List Arith Bool Reals Lra Lia.
From TLV Require Import Base.Ops Base.PyList Base.Tensor Base.RSum Model.Nnls Proofs.NnlsProofs Proofs.NnlsProofsFista.
Import ListNotations.
Open Scope R_scope.

(* ---------- masks ---------- *)
Lemma negmask_set_nth k : forall p, negmask (set_nth k true p) = set_nth k false (negmask p).
Proof.
  unfold negmask. induction k as [|k IH]; intros [|b p]; cbn; try reflexivity.
  now rewrite IH.
Qed.

Lemma dot_select_scatter p : forall (row ps : list R), dot Rops (select p row) ps = dot Rops row (scatter Rops p ps).
Proof.
  induction p as [|[|] p IH]; intros row ps.
  - destruct row; reflexivity.
  - destruct row as [|x row]; [reflexivity|]. destruct ps as [|y ps]; cbn [select scatter dot].
    + rewrite <- IH. destruct (select p row); cbn [dot fadd fmul f0 Rops]; ring.
    + now rewrite IH.
  - destruct row as [|x row]; [reflexivity|]. cbn [select scatter dot]. rewrite <- IH. cbn [fadd fmul f0 Rops]. ring.
Qed.

Lemma nth_scatter_false p : forall i ps, nth i p true = false -> nth i (scatter Rops p ps) 0 = 0.
Proof.
  induction p as [|b p IH]; intros i ps H.
  - destruct i; discriminate.
  - destruct i as [|i].
    + cbn in H. subst b. reflexivity.
    + cbn [nth] in H. destruct b; cbn [scatter]; [destruct ps|]; cbn [nth]; now apply IH.
Qed.

Lemma Forall2_select_nth {A B} (P : A -> B -> Prop) (da : A) (db : B) p : forall la lb i,
  Forall2 P (select p la) (select p lb) -> length la = length lb ->
  nth i p false = true -> (i < length la)%nat -> P (nth i la da) (nth i lb db).
Proof.
  induction p as [|b p IH]; intros la lb i HF HL Hp Hi; [destruct i; discriminate|].
  destruct la as [|a la]; [cbn in Hi; lia|]. destruct lb as [|b' lb]; [discriminate|].
  destruct i as [|i].
  - cbn in Hp. subst b. cbn [select] in HF. inversion HF; subst. assumption.
  - cbn [nth] in Hp. cbn [nth]. cbn in Hi, HL. apply IH; try lia; try assumption.
    destruct b; cbn [select] in HF; [inversion HF; subst; assumption | assumption].
Qed.

Lemma in_select {A} (d : A) a : forall (g : list A) i, nth i a false = true -> (i < length g)%nat -> In (nth i g d) (select a g).
Proof.
  induction a as [|b a IH]; intros g i Ha Hi; [destruct i; discriminate|].
  destruct g as [|y g]; [cbn in Hi; lia|]. destruct i as [|i].
  - cbn in Ha. subst b. now left.
  - cbn [nth] in *. cbn in Hi. destruct b; cbn [select]; [right|]; apply IH; auto; lia.
Qed.

Lemma anyb_nth a i : nth i a false = true -> anyb a = true.
Proof.
  intros H. unfold anyb. apply existsb_exists. exists true. split; [|reflexivity].
  destruct (Nat.lt_ge_cases i (length a)) as [L|L]; [rewrite <- H; now apply nth_In | rewrite nth_overflow in H by lia; discriminate].
Qed.
Lemma nth_negmask p i : (i < length p)%nat -> nth i (negmask p) false = negb (nth i p true).
Proof. intros H. unfold negmask. rewrite (nth_map' negb p i true false) by exact H. reflexivity. Qed.

(* ---------- minimum ---------- *)
Lemma fmin_le_l a b : fmin Rops a b <= a.
Proof. unfold fmin. cbn [fleb Rops]. unfold Rleb. destruct (Rle_dec a b); lra. Qed.
Lemma fmin_le_r a b : fmin Rops a b <= b.
Proof. unfold fmin. cbn [fleb Rops]. unfold Rleb. destruct (Rle_dec a b); lra. Qed.
Lemma vmin_le l : forall d, vmin Rops d l <= d /\ forall v, In v l -> vmin Rops d l <= v.
Proof.
  unfold vmin. induction l as [|y l IH]; intros d; cbn [fold_left]; [split; [lra | intros v []]|].
  destruct (IH (fmin Rops d y)) as [H1 H2]. split.
  - eapply Rle_trans; [exact H1 | apply fmin_le_l].
  - intros v [<-|Hv]; [eapply Rle_trans; [exact H1 | apply fmin_le_r] | now apply H2].
Qed.
Lemma vmin'_le l m : vmin' Rops l = Some m -> forall v, In v l -> m <= v.
Proof.
  destruct l as [|y l]; [discriminate|]. cbn [vmin']. intros [= <-]. destruct (vmin_le l y) as [H1 H2].
  intros v [<-|Hv]; [exact H1 | now apply H2].
Qed.

Lemma clip_nonneg s : Forall (fun v => 0 <= v) s -> map (fmax Rops (f0 Rops)) s = s.
Proof.
  induction 1 as [|v s Hv _ IH]; [reflexivity|]. cbn [map]. rewrite IH. f_equal.
  unfold fmax. cbn [fleb f0 Rops]. unfold Rleb. destruct (Rle_dec 0 v); [reflexivity | lra].
Qed.
Lemma clip_ge0 s i : 0 <= nth i (map (fmax Rops (f0 Rops)) s) 0.
Proof.
  destruct (Nat.lt_ge_cases i (length s)) as [L|L]; [|rewrite nth_overflow by (rewrite map_length; lia); lra].
  rewrite (nth_map' _ s i 0 0) by exact L. unfold fmax. cbn [fleb f0 Rops]. unfold Rleb. destruct (Rle_dec 0 _); lra.
Qed.

Section Cert.
Variables (solve : list (list R) -> list R -> option (list R)) (rnd : R -> R).
Variables (Utm : list R) (UtU : list (list R)) (tol : R).
Notation r := (length Utm).
Hypothesis LG : length UtU = length Utm.
(* contract of tl.solve: an answer satisfies every equation of the block system *)
Hypothesis solve_ok : forall A b ps, solve A b = Some ps -> Forall2 (fun row bi => dot Rops row ps = bi) A b.

Notation sscat := (solve_scatter Rops solve Utm UtU).
Notation grad := (gradient Rops Utm UtU).
Notation body := (as_body Rops solve rnd Utm UtU).
Notation loop := (as_loop Rops solve rnd Utm UtU tol).
Notation done := (as_done Rops tol).

Lemma nth_gradient x i : (i < r)%nat -> nth i (grad x) 0 = nth i Utm 0 - dot Rops (nth i UtU []) x.
Proof.
  intros Hi. unfold gradient. rewrite nth_map2 by (rewrite ?map_length; lia).
  rewrite (nth_map' _ UtU i [] 0) by lia. reflexivity.
Qed.

(* the inner loop keeps "s is the support vector of the passive set" *)
Lemma inner_support fuel : forall x s p x2 s2 p2, sscat p = Some s ->
  inner Rops solve rnd Utm UtU fuel x s p = Some (x2, s2, p2) -> sscat p2 = Some s2.
Proof.
  induction fuel as [|f IH]; intros x s p x2 s2 p2 Hs H; cbn [inner] in H; [now inversion H; subst|].
  destruct (vmin' _ _) as [alpha|]; [|discriminate]. cbv zeta in H.
  destruct (sscat (posmask Rops _)) as [s'|] eqn:E; [|discriminate].
  destruct (negb (anyb _)); [inversion H; subst; exact E|].
  destruct (vmin' Rops (select _ s')) as [mn|]; [|inversion H; subst; exact E].
  destruct (fltb _ _ _); [inversion H; subst; exact E | eapply IH; eauto].
Qed.

(* one outer iteration: the returned support vector belongs to the returned passive set, and the active set stays
   the complement of the passive set *)
Lemma body_spec iter0 x g p a s2 p2 a2 : a = negmask p -> body iter0 x g p a = Some (s2, p2, a2) ->
  sscat p2 = Some s2 /\ a2 = negmask p2.
Proof.
  intros Ha H. unfold as_body in H. cbv zeta in H.
  set (add := negb iter0 || forallb (is0 Rops) x) in *.
  set (p1 := if add then set_nth (argmax Rops g) true p else p) in *.
  set (a1 := if add then set_nth (argmax Rops g) false a else a) in *.
  assert (A1 : a1 = negmask p1). { unfold a1, p1. destruct add; [rewrite Ha; symmetry; apply negmask_set_nth | exact Ha]. }
  destruct (sscat p1) as [s|] eqn:E1.
  - destruct (vmin' Rops (select p1 s)) as [mn|]; [|discriminate].
    destruct (fleb Rops mn (f0 Rops)).
    + destruct (inner _ _ _ _ _ _ _ _ _) as [[[x2' s2'] p2']|] eqn:EI; [|discriminate].
      inversion H; subst. split; [eapply inner_support; eauto | reflexivity].
    + inversion H; subst. split; [exact E1 | exact A1].
  - set (x0 := map (fun _ => f0 Rops) x) in *. set (p0 := posmask Rops x0) in *.
    set (q1 := if anyb (negmask p0) then set_nth (argmax Rops g) true p0 else p0) in *.
    set (b1 := if anyb (negmask p0) then set_nth (argmax Rops g) false (negmask p0) else negmask p0) in *.
    assert (B1 : b1 = negmask q1). { unfold b1, q1. destruct (anyb (negmask p0)); [symmetry; apply negmask_set_nth | reflexivity]. }
    destruct (sscat q1) as [s|] eqn:E2; [|discriminate].
    destruct (vmin' Rops (select q1 s)) as [mn|]; [|discriminate].
    destruct (fleb Rops mn (f0 Rops)).
    + destruct (inner _ _ _ _ _ _ _ _ _) as [[[x2' s2'] p2']|] eqn:EI; [|discriminate].
      inversion H; subst. split; [eapply inner_support; eauto | reflexivity].
    + inversion H; subst. split; [exact E2 | exact B1].
Qed.

(* 1. what leaving the loop through the termination test means *)
Definition exit_state (y : list R) : Prop :=
  exists s p, sscat p = Some s /\ y = map (fmax Rops (f0 Rops)) s /\ done (negmask p) (grad y) = true.

Theorem loop_exit fuel : forall iter0 x g p a y, a = negmask p -> loop fuel iter0 x g p a = Some (y, true) -> exit_state y.
Proof.
  induction fuel as [|f IH]; intros iter0 x g p a y Ha H; cbn [as_loop] in H; [discriminate|].
  destruct (body iter0 x g p a) as [[[s2 p2] a2]|] eqn:EB; [|discriminate]. cbv zeta in H.
  destruct (body_spec _ _ _ _ _ _ _ _ Ha EB) as [HS HA].
  destruct (done a2 _) eqn:ED.
  - inversion H; subst y. exists s2, p2. rewrite <- HA. auto.
  - eapply IH; eauto.
Qed.

Theorem active_set_exit x0 n_iter_max y :
  active_set_run Rops solve rnd Utm UtU tol x0 n_iter_max = Some (y, true) -> exit_state y.
Proof. unfold active_set_run. apply loop_exit. reflexivity. Qed.

(* 2. an exit state with a non-negative support vector is KKT within tol *)
Theorem exit_state_kkt y s p : length p = r -> (forall i, (i < r)%nat -> length (nth i UtU []) = r) ->
  sscat p = Some s -> y = map (fmax Rops (f0 Rops)) s -> done (negmask p) (grad y) = true ->
  Forall (fun v => 0 <= v) s ->
  forall i, (i < r)%nat ->
    0 <= nth i y 0 /\
    (nth i p true = true -> nth i (grad y) 0 = 0) /\
    (nth i p true = false -> nth i y 0 = 0 /\ nth i (grad y) 0 <= tol).
Proof.
  intros LP WG HS Hy HD Hpos i Hi. split; [rewrite Hy; apply clip_ge0|].
  rewrite (clip_nonneg s Hpos) in Hy. subst y.
  unfold solve_scatter in HS. destruct (solve _ _) as [ps|] eqn:ES; [|discriminate]. inversion HS; subst s. clear HS.
  split.
  - intros Hp. rewrite nth_gradient by exact Hi.
    pose proof (solve_ok _ _ _ ES) as HF. unfold sub_block in HF. rewrite Forall2_map_l in HF || idtac.
    assert (HF' : Forall2 (fun row bi => dot Rops (select p row) ps = bi) (select p UtU) (select p Utm)).
    { clear -HF. remember (select p UtU) as L. remember (select p Utm) as M. clear HeqL HeqM.
      revert M HF. induction L as [|a L IH]; intros M HF; cbn [map] in HF; inversion HF; subst; constructor; auto. }
    assert (Hp' : nth i p false = true).
    { rewrite <- Hp. apply nth_indep. lia. }
    pose proof (Forall2_select_nth _ [] 0 p UtU Utm i HF' ltac:(lia) Hp' ltac:(lia)) as E. cbv beta in E.
    rewrite dot_select_scatter in E. lra.
  - intros Hp. split; [now apply nth_scatter_false|].
    unfold as_done in HD. apply orb_true_iff in HD. destruct HD as [HD|HD].
    + exfalso. apply negb_true_iff in HD.
      assert (anyb (negmask p) = true); [|congruence].
      apply (anyb_nth _ i). rewrite nth_negmask by lia. now rewrite Hp.
    + set (gy := grad (scatter Rops p ps)) in *.
      assert (Hin : In (nth i gy 0) (select (negmask p) gy)).
      { apply in_select; [rewrite nth_negmask by lia; now rewrite Hp|].
        unfold gy, gradient. rewrite length_map2, map_length. lia. }
      destruct (vmin' Rops (map (fopp Rops) (select (negmask p) gy))) as [nm|] eqn:EV.
      * cbn [fleb fopp Rops] in HD. apply Rleb_true in HD.
        assert (nm <= - nth i gy 0). { apply (vmin'_le _ _ EV). change (- nth i gy 0) with (fopp Rops (nth i gy 0)). now apply in_map. }
        lra.
      * destruct (select (negmask p) gy); [contradiction | discriminate].
Qed.
End Cert.

(* 1 + 2 together, for the whole function *)
Theorem active_set_exit_kkt (solve : list (list R) -> list R -> option (list R)) (rnd : R -> R)
        (Utm : list R) (UtU : list (list R)) (tol : R) x0 n_iter_max y :
  length UtU = length Utm -> (forall i, (i < length Utm)%nat -> length (nth i UtU []) = length Utm) ->
  (forall A b ps, solve A b = Some ps -> Forall2 (fun row bi => dot Rops row ps = bi) A b) ->
  active_set_run Rops solve rnd Utm UtU tol x0 n_iter_max = Some (y, true) ->
  exists s p, solve_scatter Rops solve Utm UtU p = Some s /\ y = map (fmax Rops (f0 Rops)) s /\
    (length p = length Utm -> Forall (fun v => 0 <= v) s ->
     forall i, (i < length Utm)%nat ->
       0 <= nth i y 0 /\
       (nth i p true = true -> nth i (gradient Rops Utm UtU y) 0 = 0) /\
       (nth i p true = false -> nth i y 0 = 0 /\ nth i (gradient Rops Utm UtU y) 0 <= tol)).
Proof.
  intros LG WG Hsolve H. destruct (active_set_exit solve rnd Utm UtU tol x0 n_iter_max y H) as (s & p & HS & Hy & HD).
  exists s, p. split; [exact HS|]. split; [exact Hy|]. intros LP Hpos.
  exact (exit_state_kkt solve Utm UtU tol LG Hsolve y s p LP WG HS Hy HD Hpos).
Qed.
