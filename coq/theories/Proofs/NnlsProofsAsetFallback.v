(* active_set_nnls, the `except:` path (tl.solve raises on the passive block chosen in the try block -- a singular block, possible
   only for a semidefinite UtU or a warm start): the code restarts from zeros and puts the index argmax(x_gradient) into the passive
   set, where x_gradient is still the gradient of the DISCARDED point.  Proved here (exact arithmetic, any tl.solve, any rounding
   function): the iteration that takes the fallback IS the first iteration of a run from the zero vector with that gradient, and so
   is the rest of the loop; when the stale gradient and the gradient at zero (= Utm) have the same argmax it is literally the
   cold-start run active_set_run None.  What is returned on that path is covered by the theorems that allow a raising tl.solve:
   active_set_nonneg (>= 0 on every exit), active_set_exit_kkt_full (KKT when left through the termination test). *)
From Coq Require Import List Arith Bool Reals Lra Lia.
From TLV Require Import Base.Ops Base.PyList Base.Tensor Base.RSum Model.Nnls Proofs.NnlsProofs.
Import ListNotations.
Open Scope R_scope.

Definition zeros_of (x : list R) : list R := map (fun _ => f0 Rops) x.

Lemma zeros_idem x : zeros_of (zeros_of x) = zeros_of x.
Proof. unfold zeros_of. rewrite map_map. reflexivity. Qed.
Lemma zeros_all0 x : forallb (is0 Rops) (zeros_of x) = true.
Proof.
  unfold zeros_of. induction x as [|a x IH]; [reflexivity|]. cbn [map forallb]. rewrite IH, andb_true_r.
  apply is0_R. reflexivity.
Qed.
Lemma anyb_neg_posmask_zeros x : anyb (negmask (posmask Rops (zeros_of x))) = false -> x = [].
Proof.
  destruct x as [|a x]; [reflexivity|]. unfold zeros_of, posmask, negmask, anyb. cbn [map existsb].
  assert (E : fltb Rops (f0 Rops) (f0 Rops) = false).
  { unfold fltb. cbn [fleb f0 Rops]. unfold Rleb. destruct (Rle_dec 0 0); [reflexivity | lra]. }
  rewrite E. cbn. discriminate.
Qed.

Lemma set_nth_nil {A} k (v : A) : set_nth k v [] = [].
Proof. destruct k; reflexivity. Qed.

Section Fallback.
Variables (solve : list (list R) -> list R -> option (list R)) (rnd : R -> R).
Variables (Utm : list R) (UtU : list (list R)) (tol : R).

(* the masks the except: block builds *)
Notation P0 x := (posmask Rops (zeros_of x)).
Notation A0 x := (negmask (posmask Rops (zeros_of x))).

Theorem as_body_fallback_is_cold_body iter0 x g passive active :
  let add := negb iter0 || forallb (is0 Rops) x in
  let p1 := if add then set_nth (argmax Rops g) true passive else passive in
  solve_scatter Rops solve Utm UtU p1 = None ->
  as_body Rops solve rnd Utm UtU iter0 x g passive active =
  as_body Rops solve rnd Utm UtU true (zeros_of x) g (P0 x) (A0 x).
Proof.
  cbv zeta. intros H. unfold as_body at 1. rewrite H.
  unfold as_body. rewrite zeros_all0. cbn [negb orb].
  change (map (fun _ : R => f0 Rops) x) with (zeros_of x).
  change (map (fun _ : R => f0 Rops) (zeros_of x)) with (zeros_of (zeros_of x)). rewrite zeros_idem.
  set (p0 := posmask Rops (zeros_of x)). set (a0 := negmask p0).
  destruct (anyb a0) eqn:EA.
  - destruct (solve_scatter Rops solve Utm UtU (set_nth (argmax Rops g) true p0)) eqn:ES; reflexivity.
  - apply anyb_neg_posmask_zeros in EA. subst x. cbn. rewrite !set_nth_nil.
    destruct (solve_scatter Rops solve Utm UtU []) eqn:ES; reflexivity.
Qed.

(* ... and so is the whole remaining loop *)
Theorem as_loop_fallback_is_cold_loop fuel iter0 x g passive active :
  let add := negb iter0 || forallb (is0 Rops) x in
  let p1 := if add then set_nth (argmax Rops g) true passive else passive in
  solve_scatter Rops solve Utm UtU p1 = None ->
  as_loop Rops solve rnd Utm UtU tol (S fuel) iter0 x g passive active =
  as_loop Rops solve rnd Utm UtU tol (S fuel) true (zeros_of x) g (P0 x) (A0 x).
Proof.
  cbv zeta. intros H. cbn [as_loop]. rewrite (as_body_fallback_is_cold_body iter0 x g passive active H). reflexivity.
Qed.

(* the body uses the gradient only through its argmax *)
Lemma as_body_gradient_argmax iter0 x g g' passive active : argmax Rops g = argmax Rops g' ->
  as_body Rops solve rnd Utm UtU iter0 x g passive active = as_body Rops solve rnd Utm UtU iter0 x g' passive active.
Proof. intros E. unfold as_body. rewrite E. reflexivity. Qed.

(* when the stale gradient selects the index the gradient at zero would select, the fallback run is the cold-start run *)
Theorem as_loop_fallback_is_cold_run fuel iter0 x g passive active :
  let add := negb iter0 || forallb (is0 Rops) x in
  let p1 := if add then set_nth (argmax Rops g) true passive else passive in
  solve_scatter Rops solve Utm UtU p1 = None ->
  length x = length (nth 0 UtU []) ->
  argmax Rops g = argmax Rops (gradient Rops Utm UtU (zeros_of x)) ->
  as_loop Rops solve rnd Utm UtU tol (S fuel) iter0 x g passive active = active_set_run Rops solve rnd Utm UtU tol None (S fuel).
Proof.
  cbv zeta. intros H L E. rewrite (as_loop_fallback_is_cold_loop fuel iter0 x g passive active H).
  unfold active_set_run.
  assert (Z : map (fun _ : R => f0 Rops) (nth 0 UtU []) = zeros_of x).
  { unfold zeros_of. clear -L. revert L. generalize (nth 0 UtU []). induction x as [|a x IH]; intros [|b l] L; cbn in *; try lia; [reflexivity|].
    f_equal. apply IH. lia. }
  rewrite Z. cbn [as_loop]. rewrite (as_body_gradient_argmax true (zeros_of x) g _ (P0 x) (A0 x) E). reflexivity.
Qed.
End Fallback.
