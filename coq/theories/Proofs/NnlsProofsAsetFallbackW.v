(* Executed witness (rational instance, exact elimination as tl.solve) that the `except:` path of active_set_nnls is reachable and what it
   returns: UtU = [[1,2],[2,4]] (rank 1), Utm = (3, 5), warm start (1, 1): both coordinates passive, the block is singular, the solve
   raises; the fallback restarts from zeros with the index argmax of the STALE gradient (0, -1), i.e. index 0 (the gradient at zero,
   (3, 5), would select index 1); the run ends through the termination test at (3, 0), a KKT point: gradient (0, -1). *)
From Coq Require Import List Arith Bool ZArith QArith.
From TLV Require Import Base.Ops Base.PyList Base.Tensor Model.Nnls.
Import ListNotations.

Lemma aset_fallback_witness :
  solve_scatter Qops (gauss_solve Qops) [3; 5]%Q [[1; 2]; [2; 4]]%Q [true; true] = None /\
  gradient Qops [3; 5]%Q [[1; 2]; [2; 4]]%Q [1; 1]%Q = [0; -1]%Q /\
  active_set_run Qops (gauss_solve Qops) (fun x => x) [3; 5]%Q [[1; 2]; [2; 4]]%Q (1 # 10000000)%Q (Some [1; 1]%Q) 100 = Some ([3; 0]%Q, true) /\
  gradient Qops [3; 5]%Q [[1; 2]; [2; 4]]%Q [3; 0]%Q = [0; -1]%Q /\
  active_set_run Qops (gauss_solve Qops) (fun x => x) [3; 5]%Q [[1; 2]; [2; 4]]%Q (1 # 10000000)%Q None 100 = Some ([3; 0]%Q, true).
Proof. vm_compute. repeat split; reflexivity. Qed.
