(* active_set_nnls in exact arithmetic (rounding function = identity), abstract tl.solve with its contract:
   the inner interpolation loop always ends with a NON-NEGATIVE support vector within its budget
   `len(passive_set)` (every inner iteration removes at least one index from the passive set and never adds one),
   so the hypothesis of the exit certificate (Proofs/NnlsProofsAsetCert.v) is discharged for every non-negative
   warm start and for the cold start. *)
From Coq Require Import List Arith Bool Reals Lra Lia.
From TLV Require Import Base.Ops Base.PyList Base.Tensor Base.RSum Model.Nnls Proofs.NnlsProofs Proofs.NnlsProofsFista Proofs.NnlsProofsAsetCert.
Import ListNotations.
Open Scope R_scope.

(* ---------- lists ---------- *)
Lemma length_scatter p : forall ps, length (scatter Rops p ps) = length p.
Proof. induction p as [|[|] p IH]; intros ps; cbn [scatter length]; [reflexivity | destruct ps; cbn [length]; now rewrite IH | now rewrite IH]. Qed.

Lemma length_map3 {A B C D} (f : A -> B -> C -> D) a : forall b c, length a = length b -> length a = length c ->
  length (map3 f a b c) = length a.
Proof. induction a as [|x a IH]; intros [|y b] [|z c] H1 H2; cbn in *; try lia. rewrite IH; lia. Qed.
Lemma nth_map3 {A B C D} (f : A -> B -> C -> D) da db dc dd a : forall b c i, length a = length b -> length a = length c ->
  (i < length a)%nat -> nth i (map3 f a b c) dd = f (nth i a da) (nth i b db) (nth i c dc).
Proof.
  induction a as [|x a IH]; intros [|y b] [|z c] i H1 H2 Hi; cbn in *; try lia.
  destruct i; [reflexivity|]. apply IH; lia.
Qed.
Lemma length_posmask (x : list R) : length (posmask Rops x) = length x.
Proof. unfold posmask. now rewrite map_length. Qed.
Lemma nth_posmask (x : list R) i : (i < length x)%nat -> nth i (posmask Rops x) false = fltb Rops 0 (nth i x 0).
Proof. intros H. unfold posmask. now rewrite (nth_map' _ x i 0 false). Qed.
Lemma fltb_R a b : fltb Rops a b = true <-> a < b.
Proof. unfold fltb. cbn [fleb Rops]. rewrite negb_true_iff, Rleb_false. tauto. Qed.
Lemma fleb_R a b : fleb Rops a b = true <-> a <= b.
Proof. cbn [fleb Rops]. apply Rleb_true. Qed.

Lemma length_blocking p (s : list R) : length p = length s -> length (blocking Rops p s) = length p.
Proof. intros H. unfold blocking. rewrite map_length, combine_length. lia. Qed.
Lemma nth_blocking p (s : list R) i : length p = length s -> (i < length p)%nat ->
  nth i (blocking Rops p s) false = nth i p false && fleb Rops (nth i s 0) 0.
Proof.
  intros H Hi. unfold blocking.
  rewrite (nth_map' _ (combine p s) i (false, 0) false) by (rewrite combine_length; lia).
  rewrite nth_combine by lia. reflexivity.
Qed.

(* the minimum is attained *)
Lemma vmin_attained l : forall d, vmin Rops d l = d \/ In (vmin Rops d l) l.
Proof.
  unfold vmin. induction l as [|y l IH]; intros d; cbn [fold_left]; [now left|].
  destruct (IH (fmin Rops d y)) as [E|E].
  - rewrite E. unfold fmin. destruct (fleb Rops d y); [now left | right; now left].
  - right. now right.
Qed.
Lemma vmin'_attained l m : vmin' Rops l = Some m -> In m l.
Proof.
  destruct l as [|y l]; [discriminate|]. cbn [vmin']. intros [= <-].
  destruct (vmin_attained l y) as [E|E]; [rewrite E; now left | now right].
Qed.

Lemma in_select_inv {A} (d : A) a : forall (g : list A) v, In v (select a g) ->
  exists i, nth i a false = true /\ (i < length g)%nat /\ (i < length a)%nat /\ nth i g d = v.
Proof.
  induction a as [|b a IH]; intros g v H; [destruct g; contradiction|].
  destruct g as [|y g]; [destruct b; contradiction|].
  destruct b; cbn [select] in H.
  - destruct H as [E|H].
    + exists 0%nat. cbn. split; [reflexivity|]. split; [lia|]. split; [lia | exact E].
    + destruct (IH g v H) as (i & H1 & H2 & H3 & H4). exists (S i). cbn. split; [exact H1|]. split; [lia|]. split; [lia | exact H4].
  - destruct (IH g v H) as (i & H1 & H2 & H3 & H4). exists (S i). cbn. split; [exact H1|]. split; [lia|]. split; [lia | exact H4].
Qed.

(* ---------- counting the passive indices ---------- *)
Fixpoint countb (p : list bool) : nat := match p with [] => 0 | b :: p' => (if b then 1 else 0) + countb p' end.
Lemma countb_le_length p : (countb p <= length p)%nat.
Proof. induction p as [|[|] p IH]; cbn; lia. Qed.
Lemma countb_pos p i : nth i p false = true -> (1 <= countb p)%nat.
Proof. revert i. induction p as [|b p IH]; intros [|i] H; cbn in *; try discriminate; [subst; lia | specialize (IH i H); destruct b; lia]. Qed.
Lemma countb_mono p : forall q, length q = length p -> (forall i, nth i q false = true -> nth i p false = true) ->
  (countb q <= countb p)%nat.
Proof.
  induction p as [|b p IH]; intros [|c q] HL H; cbn in *; try lia.
  assert (Hq : (countb q <= countb p)%nat) by (apply IH; [lia | intros i Hi; apply (H (S i) Hi)]).
  pose proof (H 0%nat) as H0. cbn in H0. destruct c, b; try lia; discriminate (H0 eq_refl).
Qed.
Lemma countb_strict p : forall q k, length q = length p -> (forall i, nth i q false = true -> nth i p false = true) ->
  nth k p false = true -> nth k q false = false -> (countb q < countb p)%nat.
Proof.
  induction p as [|b p IH]; intros [|c q] k HL H Hp Hq; cbn in *; try lia; [destruct k; discriminate|].
  assert (Hsub : forall i, nth i q false = true -> nth i p false = true) by (intros i Hi; apply (H (S i) Hi)).
  destruct k as [|k].
  - cbn in Hp, Hq. subst. pose proof (countb_mono p q ltac:(lia) Hsub). lia.
  - pose proof (IH q k ltac:(lia) Hsub Hp Hq) as HI. pose proof (H 0%nat) as Hh. cbn in Hh. destruct c, b; try lia; discriminate (Hh eq_refl).
Qed.
Lemma anyb_false_nth p i : anyb p = false -> nth i p false = false.
Proof.
  intros H. destruct (nth i p false) eqn:E; [|reflexivity]. rewrite (anyb_nth p i E) in H. discriminate.
Qed.

Lemma anyb_true_nth p : anyb p = true -> exists i, nth i p false = true.
Proof.
  unfold anyb. intros H. apply existsb_exists in H. destruct H as (b & Hin & Hb). subst b.
  destruct (In_nth p true false Hin) as (i & _ & E). now exists i.
Qed.
Lemma Forall_of_nth (l : list R) : (forall i, 0 <= nth i l 0) -> Forall (fun v => 0 <= v) l.
Proof. intros H. apply Forall_forall. intros v Hv. destruct (In_nth l v 0 Hv) as (i & _ & <-). apply H. Qed.
Lemma set_true_sub k p i : nth i (set_nth k true p) false = false -> nth i p false = false.
Proof.
  intros H. destruct (Nat.eq_dec i k) as [->|Hne]; [|now rewrite nth_set_nth_other in H].
  destruct (lt_dec k (length p)) as [L|L]; [rewrite nth_set_nth_same in H by exact L; discriminate | apply nth_overflow; lia].
Qed.

(* ---------- arithmetic of one interpolation step ---------- *)
Lemma ratio_bounds a b : 0 <= a -> b <= 0 -> 0 <= ratio Rops a b <= 1.
Proof.
  intros Ha Hb. unfold ratio. cbn [fdiv fsub Rops]. destruct (Req_dec (a - b) 0) as [E|E].
  - assert (a = 0) by lra. subst a. unfold Rdiv. rewrite Rmult_0_l. lra.
  - assert (D : 0 < a - b) by lra. split.
    + apply Rmult_le_pos; [lra | left; now apply Rinv_0_lt_compat].
    + apply Rmult_le_reg_r with (a - b); [exact D|]. unfold Rdiv. rewrite Rmult_assoc, Rinv_l by exact E. lra.
Qed.
Lemma step_above a b alpha : 0 <= a -> b <= 0 -> alpha < ratio Rops a b -> 0 <= a + alpha * (b - a).
Proof.
  intros Ha Hb H. unfold ratio in H. cbn [fdiv fsub Rops] in H. destruct (Req_dec (a - b) 0) as [E|E].
  - assert (a = 0) by lra. assert (b = 0) by lra. subst. lra.
  - assert (D : 0 < a - b) by lra.
    assert (alpha * (a - b) < a).
    { replace a with (a / (a - b) * (a - b)) at 2 by (field; exact E). apply Rmult_lt_compat_r; assumption. }
    lra.
Qed.

Section Full.
Variables (solve : list (list R) -> list R -> option (list R)).
Variables (Utm : list R) (UtU : list (list R)) (tol : R).
Notation r := (length Utm).
Notation idf := (fun x : R => x).
Notation sscat := (solve_scatter Rops solve Utm UtU).

(* x is non-negative, of the problem's length, and vanishes off the passive set *)
Definition xinv (x : list R) (p : list bool) : Prop :=
  length x = r /\ length p = r /\ (forall i, 0 <= nth i x 0) /\ (forall i, nth i p false = false -> nth i x 0 = 0).

Lemma support_facts p s : sscat p = Some s -> length s = length p /\ forall i, nth i p false = false -> nth i s 0 = 0.
Proof.
  unfold solve_scatter. destruct (solve _ _) as [ps|]; [|discriminate]. intros [= <-].
  split; [apply length_scatter|]. intros i H.
  destruct (lt_dec i (length p)) as [L|L].
  - apply nth_scatter_false. rewrite <- H. apply nth_indep. exact L.
  - apply nth_overflow. rewrite length_scatter. lia.
Qed.

(* a support vector that is positive on its passive set is non-negative everywhere *)
Lemma support_pos p s mn : sscat p = Some s -> vmin' Rops (select p s) = Some mn -> 0 < mn -> forall i, 0 <= nth i s 0.
Proof.
  intros HS HV Hmn i. destruct (support_facts p s HS) as [LS Z].
  destruct (nth i p false) eqn:E; [|rewrite Z by exact E; lra].
  destruct (lt_dec i (length s)) as [L|L]; [|rewrite nth_overflow by lia; lra].
  pose proof (vmin'_le _ _ HV (nth i s 0) (in_select 0 p s i E L)). lra.
Qed.

(* one interpolation step: the invariant is kept, no index enters the passive set and the index attaining alpha leaves it *)
Lemma step_facts alpha x s p : xinv x p -> sscat p = Some s ->
  vmin' Rops (select (blocking Rops p s) (map2 (ratio Rops) x s)) = Some alpha ->
  let x' := as_step Rops idf alpha p x s in let p' := posmask Rops x' in
  xinv x' p' /\ (forall i, nth i p' false = true -> nth i p false = true) /\
  exists k, nth k p false = true /\ nth k p' false = false.
Proof.
  intros (LX & LP & X0 & XZ) HS HA. cbv zeta. destruct (support_facts p s HS) as [LS SZ].
  set (x' := as_step Rops idf alpha p x s).
  assert (LX' : length x' = r) by (unfold x', as_step; rewrite length_map3; lia).
  (* the index attaining alpha *)
  apply vmin'_attained in HA. destruct (in_select_inv 0 _ _ _ HA) as (k & Bk & Lk & Lk' & Rk).
  rewrite length_map2 in Lk. rewrite length_blocking in Lk' by lia.
  rewrite nth_blocking in Bk by lia. apply andb_true_iff in Bk. destruct Bk as [Pk Sk]. apply fleb_R in Sk.
  rewrite nth_map2 in Rk by lia.
  assert (A01 : 0 <= alpha <= 1) by (rewrite <- Rk; apply ratio_bounds; [apply X0 | exact Sk]).
  (* entries of the new point *)
  assert (EN : forall i, (i < r)%nat -> nth i x' 0 =
            if nth i p false && fleb Rops (nth i s 0) 0 && fleb Rops (ratio Rops (nth i x 0) (nth i s 0)) alpha then 0
            else nth i x 0 + alpha * (nth i s 0 - nth i x 0)).
  { intros i Hi. unfold x', as_step. rewrite (nth_map3 _ false 0 0 0) by lia. reflexivity. }
  assert (GE : forall i, 0 <= nth i x' 0).
  { intros i. destruct (lt_dec i r) as [Hi|Hi]; [|rewrite nth_overflow by lia; lra]. rewrite EN by exact Hi.
    destruct (nth i p false) eqn:Pi; cbn [andb].
    - destruct (fleb Rops (nth i s 0) 0) eqn:Si; cbn [andb].
      + destruct (fleb Rops (ratio Rops (nth i x 0) (nth i s 0)) alpha) eqn:Ri; [lra|].
        apply fleb_R in Si. apply Rleb_false in Ri. apply step_above; [apply X0 | exact Si | exact Ri].
      + apply Rleb_false in Si. pose proof (X0 i). nra.
    - rewrite (XZ i Pi), (SZ i Pi). lra. }
  assert (OFF : forall i, nth i p false = false -> nth i x' 0 = 0).
  { intros i Pi. destruct (lt_dec i r) as [Hi|Hi]; [|apply nth_overflow; lia]. rewrite EN by exact Hi.
    rewrite Pi. cbn [andb]. rewrite (XZ i Pi), (SZ i Pi). lra. }
  assert (PM : forall i, nth i (posmask Rops x') false = true -> 0 < nth i x' 0).
  { intros i H. destruct (lt_dec i (length x')) as [Hi|Hi]; [|rewrite nth_overflow in H by (rewrite length_posmask; lia); discriminate].
    rewrite nth_posmask in H by exact Hi. now apply fltb_R in H. }
  split; [|split].
  - split; [exact LX'|]. split; [rewrite length_posmask; exact LX'|]. split; [exact GE|].
    intros i H. destruct (lt_dec i (length x')) as [Hi|Hi]; [|apply nth_overflow; lia].
    rewrite nth_posmask in H by exact Hi. unfold fltb in H. cbn [fleb Rops] in H. apply negb_false_iff, Rleb_true in H.
    pose proof (GE i). lra.
  - intros i H. apply PM in H. destruct (nth i p false) eqn:Pi; [reflexivity|]. rewrite (OFF i Pi) in H. lra.
  - exists k. split; [exact Pk|]. destruct (nth k (posmask Rops x') false) eqn:E; [|reflexivity].
    apply PM in E. rewrite EN in E by lia. rewrite Pk in E. cbn [andb] in E.
    replace (fleb Rops (nth k s 0) 0) with true in E by (symmetry; now apply fleb_R). cbn [andb] in E.
    replace (fleb Rops (ratio Rops (nth k x 0) (nth k s 0)) alpha) with true in E by (symmetry; apply fleb_R; lra). lra.
Qed.

(* the inner loop: with a budget of at least the number of passive indices it ends with a non-negative support vector *)
Lemma inner_good fuel : forall x s p x2 s2 p2, (countb p <= fuel)%nat -> anyb p = true -> xinv x p -> sscat p = Some s ->
  inner Rops solve idf Utm UtU fuel x s p = Some (x2, s2, p2) ->
  (forall i, 0 <= nth i s2 0) /\ length p2 = r.
Proof.
  induction fuel as [|f IH]; intros x s p x2 s2 p2 HC HA HI HS H.
  - exfalso. destruct (anyb_true_nth p HA) as (i & Hi). pose proof (countb_pos p i Hi). lia.
  - cbn [inner] in H. destruct (vmin' Rops _) as [alpha|] eqn:EA; [|discriminate]. cbv zeta in H.
    destruct (step_facts alpha x s p HI HS EA) as (HI' & SUB & k & Pk & Pk').
    set (x' := as_step Rops idf alpha p x s) in *. set (p' := posmask Rops x') in *.
    assert (LP' : length p' = r) by apply HI'.
    destruct (sscat p') as [s'|] eqn:ES; [|discriminate].
    destruct (support_facts p' s' ES) as [LS' SZ'].
    destruct (negb (anyb p')) eqn:EN.
    + inversion H; subst. split; [|exact LP']. intros i. rewrite SZ'; [lra|]. apply anyb_false_nth. now apply negb_true_iff in EN.
    + apply negb_false_iff in EN.
      destruct (vmin' Rops (select p' s')) as [mn|] eqn:EM.
      * destruct (fltb Rops (f0 Rops) mn) eqn:EF.
        -- inversion H; subst. split; [|exact LP']. apply fltb_R in EF. cbn [f0 Rops] in EF. exact (support_pos p' s2 mn ES EM EF).
        -- apply (IH x' s' p' x2 s2 p2); auto.
           assert ((countb p' < countb p)%nat); [|lia].
           apply (countb_strict p p' k); auto. rewrite LP'. symmetry. apply HI.
      * exfalso. destruct (anyb_true_nth p' EN) as (i & Hi).
        assert (Li : (i < length s')%nat).
        { rewrite LS'. destruct (lt_dec i (length p')); [assumption | rewrite nth_overflow in Hi by lia; discriminate]. }
        pose proof (in_select 0 p' s' i Hi Li) as Hin. destruct (select p' s'); [contradiction | discriminate].
Qed.

(* one outer iteration from a state satisfying the invariant returns a non-negative support vector *)
Lemma body_good iter0 x g p a s2 p2 a2 : xinv x p ->
  as_body Rops solve idf Utm UtU iter0 x g p a = Some (s2, p2, a2) -> (forall i, 0 <= nth i s2 0) /\ length p2 = r.
Proof.
  intros HI H. unfold as_body in H. cbv zeta in H.
  set (add := negb iter0 || forallb (is0 Rops) x) in *.
  set (p1 := if add then set_nth (argmax Rops g) true p else p) in *.
  assert (I1 : xinv x p1).
  { destruct HI as (LX & LP & X0 & XZ). unfold p1. destruct add; [|repeat split; assumption].
    split; [exact LX|]. split; [now rewrite set_nth_length|]. split; [exact X0|]. intros i Hi. apply XZ. eapply set_true_sub; eauto. }
  assert (CORE : forall x1 s1 q1 a1, xinv x1 q1 -> sscat q1 = Some s1 ->
            match vmin' Rops (select q1 s1) with
            | Some mn => if fleb Rops mn (f0 Rops)
                         then match inner Rops solve idf Utm UtU (length q1) x1 s1 q1 with
                              | Some (_, s2', p2') => Some (s2', p2', negmask p2') | None => None end
                         else Some (s1, q1, a1)
            | None => None end = Some (s2, p2, a2) -> (forall i, 0 <= nth i s2 0) /\ length p2 = r).
  { intros x1 s1 q1 a1 HI1 HS1 HM. destruct (vmin' Rops (select q1 s1)) as [mn|] eqn:EM; [|discriminate].
    destruct (fleb Rops mn (f0 Rops)) eqn:EF.
    - destruct (inner _ _ _ _ _ _ _ _ _) as [[[x2' s2'] p2']|] eqn:EI; [|discriminate]. inversion HM; subst.
      apply (inner_good (length q1) x1 s1 q1 x2' s2 p2); auto; [apply countb_le_length|].
      apply vmin'_attained in EM. destruct (in_select_inv 0 _ _ _ EM) as (i & Hi & _). now apply (anyb_nth q1 i).
    - inversion HM; subst. split; [|apply HI1]. apply Rleb_false in EF. cbn [f0 Rops] in EF. exact (support_pos p2 s2 mn HS1 EM EF). }
  destruct (sscat p1) as [s|] eqn:E1.
  - eapply CORE; eauto.
  - set (x0 := map (fun _ => f0 Rops) x) in *. set (p0 := posmask Rops x0) in *.
    set (q1 := if anyb (negmask p0) then set_nth (argmax Rops g) true p0 else p0) in *.
    assert (Z0 : forall i, nth i x0 0 = 0).
    { intros i. destruct (lt_dec i (length x)) as [L|L]; [unfold x0; now rewrite (nth_map' _ x i 0 0) | apply nth_overflow; unfold x0; rewrite map_length; lia]. }
    assert (I0 : xinv x0 q1).
    { destruct HI as (LX & _). split; [unfold x0; now rewrite map_length|].
      split; [unfold q1; destruct (anyb _); rewrite ?set_nth_length; unfold p0; rewrite length_posmask; unfold x0; now rewrite map_length|].
      split; [intros i; rewrite Z0; lra | intros i _; apply Z0]. }
    destruct (sscat q1) as [s|] eqn:E2; [|discriminate].
    eapply CORE; eauto.
Qed.

(* the outer loop keeps the invariant; leaving it through the termination test yields an exit state whose support
   vector is non-negative *)
Theorem loop_good fuel : forall iter0 x g p a y, a = negmask p -> xinv x p ->
  as_loop Rops solve idf Utm UtU tol fuel iter0 x g p a = Some (y, true) ->
  exists s p2, sscat p2 = Some s /\ y = map (fmax Rops (f0 Rops)) s /\
    as_done Rops tol (negmask p2) (gradient Rops Utm UtU y) = true /\ Forall (fun v => 0 <= v) s /\ length p2 = r.
Proof.
  induction fuel as [|f IH]; intros iter0 x g p a y Ha HI H; cbn [as_loop] in H; [discriminate|].
  destruct (as_body Rops solve idf Utm UtU iter0 x g p a) as [[[s2 p2] a2]|] eqn:EB; [|discriminate]. cbv zeta in H.
  destruct (body_spec solve idf Utm UtU _ _ _ _ _ _ _ _ Ha EB) as [HS HA].
  destruct (body_good _ _ _ _ _ _ _ _ HI EB) as [HP LP].
  pose proof (Forall_of_nth s2 HP) as HF.
  destruct (as_done Rops tol a2 _) eqn:ED.
  - inversion H; subst y. exists s2, p2. rewrite <- HA. auto.
  - refine (IH false _ _ p2 a2 y HA _ H).
    rewrite (clip_nonneg s2 HF). destruct (support_facts p2 s2 HS) as [LS SZ].
    split; [lia|]. split; [exact LP|]. split; [exact HP | exact SZ].
Qed.
End Full.

(* FULL: exact arithmetic, abstract tl.solve with its contract, cold start or any non-negative warm start of the
   problem's length: whenever active_set_nnls leaves its loop through the termination test the returned point
   satisfies the KKT conditions within tol, with the final passive set p as certificate *)
Theorem active_set_exit_kkt_full (solve : list (list R) -> list R -> option (list R))
        (Utm : list R) (UtU : list (list R)) (tol : R) x0 n_iter_max y :
  length UtU = length Utm -> (forall i, (i < length Utm)%nat -> length (nth i UtU []) = length Utm) ->
  (forall A b ps, solve A b = Some ps -> Forall2 (fun row bi => dot Rops row ps = bi) A b) ->
  match x0 with Some x => length x = length Utm /\ Forall (fun v => 0 <= v) x | None => True end ->
  active_set_run Rops solve (fun v => v) Utm UtU tol x0 n_iter_max = Some (y, true) ->
  exists p, length p = length Utm /\
    forall i, (i < length Utm)%nat ->
      0 <= nth i y 0 /\
      (nth i p true = true -> nth i (gradient Rops Utm UtU y) 0 = 0) /\
      (nth i p true = false -> nth i y 0 = 0 /\ nth i (gradient Rops Utm UtU y) 0 <= tol).
Proof.
  intros LG WG Hsolve Hx0 H. unfold active_set_run in H.
  set (x := match x0 with Some x => x | None => map (fun _ => f0 Rops) (nth 0 UtU []) end) in *.
  assert (HI : xinv Utm x (posmask Rops x)).
  { assert (LX : length x = length Utm).
    { unfold x. destruct x0 as [x1|]; [apply Hx0|]. rewrite map_length.
      destruct Utm as [|u Utm']; [destruct UtU; [reflexivity | discriminate] | apply (WG 0%nat); cbn; lia]. }
    assert (X0 : forall i, 0 <= nth i x 0).
    { intros i. unfold x. destruct x0 as [x1|].
      - destruct Hx0 as [_ HF]. destruct (lt_dec i (length x1)) as [L|L]; [|rewrite nth_overflow by lia; lra].
        rewrite Forall_forall in HF. apply HF. now apply nth_In.
      - destruct (lt_dec i (length (nth 0 UtU []))) as [L|L]; [rewrite (nth_map' _ _ i 0 0) by exact L; cbn; lra | rewrite nth_overflow by (rewrite map_length; lia); lra]. }
    split; [exact LX|]. split; [rewrite length_posmask; exact LX|]. split; [exact X0|].
    intros i Hi. destruct (lt_dec i (length x)) as [L|L]; [|apply nth_overflow; lia].
    rewrite nth_posmask in Hi by exact L. unfold fltb in Hi. cbn [fleb Rops] in Hi. apply negb_false_iff, Rleb_true in Hi.
    pose proof (X0 i). lra. }
  destruct (loop_good solve Utm UtU tol n_iter_max true x _ _ _ y eq_refl HI H) as (s & p & HS & Hy & HD & HF & LP).
  exists p. split; [exact LP|].
  exact (exit_state_kkt solve Utm UtU tol LG Hsolve y s p LP WG HS Hy HD HF).
Qed.
