(* active_set_nnls under a ROUNDED interpolation step: the counting argument of Proofs/NnlsProofsAsetFull.v (exact
   arithmetic) goes through for EVERY rounding function rnd of the step x + alpha (s - x) that maps 0 to 0 and
   non-negative numbers to non-negative numbers (true of IEEE round-to-nearest): the coordinates attaining alpha are put
   exactly on the bound by the code (repaired in dadc3ff), coordinates off the passive set stay exactly 0 (rnd 0 = 0) and
   the others stay >= 0, so the passive set strictly shrinks and the inner loop ends with a non-negative support vector.
   (The remaining operations -- tl.solve with its contract, the ratio, alpha, the gradient -- are exact, as in the other
   active-set theorems.) *)
From Coq Require Import List Arith Bool Reals Lra Lia Psatz.
From TLV Require Import Base.Ops Base.PyList Base.Tensor Base.RSum Model.Nnls Proofs.NnlsProofs Proofs.NnlsProofsFista Proofs.NnlsProofsAsetCert Proofs.NnlsProofsAsetFull.
Import ListNotations.
Open Scope R_scope.

Section FullR.
Variables (solve : list (list R) -> list R -> option (list R)).
Variables (Utm : list R) (UtU : list (list R)) (tol : R).
Notation r := (length Utm).
Variable rnd : R -> R.
Hypothesis rnd0 : rnd 0 = 0.
Hypothesis rnd_nonneg : forall v, 0 <= v -> 0 <= rnd v.
Notation sscat := (solve_scatter Rops solve Utm UtU).

(* x is non-negative, of the problem's length, and vanishes off the passive set *)
Definition xinv_r (x : list R) (p : list bool) : Prop :=
  length x = r /\ length p = r /\ (forall i, 0 <= nth i x 0) /\ (forall i, nth i p false = false -> nth i x 0 = 0).

Lemma support_facts_r p s : sscat p = Some s -> length s = length p /\ forall i, nth i p false = false -> nth i s 0 = 0.
Proof.
  unfold solve_scatter. destruct (solve _ _) as [ps|]; [|discriminate]. intros [= <-].
  split; [apply length_scatter|]. intros i H.
  destruct (lt_dec i (length p)) as [L|L].
  - apply nth_scatter_false. rewrite <- H. apply nth_indep. exact L.
  - apply nth_overflow. rewrite length_scatter. lia.
Qed.

(* a support vector that is positive on its passive set is non-negative everywhere *)
Lemma support_pos_r p s mn : sscat p = Some s -> vmin' Rops (select p s) = Some mn -> 0 < mn -> forall i, 0 <= nth i s 0.
Proof.
  intros HS HV Hmn i. destruct (support_facts_r p s HS) as [LS Z].
  destruct (nth i p false) eqn:E; [|rewrite Z by exact E; lra].
  destruct (lt_dec i (length s)) as [L|L]; [|rewrite nth_overflow by lia; lra].
  pose proof (vmin'_le _ _ HV (nth i s 0) (in_select 0 p s i E L)). lra.
Qed.

(* one interpolation step: the invariant is kept, no index enters the passive set and the index attaining alpha leaves it *)
Lemma step_facts_r alpha x s p : xinv_r x p -> sscat p = Some s ->
  vmin' Rops (select (blocking Rops p s) (map2 (ratio Rops) x s)) = Some alpha ->
  let x' := as_step Rops rnd alpha p x s in let p' := posmask Rops x' in
  xinv_r x' p' /\ (forall i, nth i p' false = true -> nth i p false = true) /\
  exists k, nth k p false = true /\ nth k p' false = false.
Proof.
  intros (LX & LP & X0 & XZ) HS HA. cbv zeta. destruct (support_facts_r p s HS) as [LS SZ].
  set (x' := as_step Rops rnd alpha p x s).
  assert (LX' : length x' = r) by (unfold x', as_step; rewrite length_map3; lia).
  (* the index attaining alpha *)
  apply vmin'_attained in HA. destruct (in_select_inv 0 _ _ _ HA) as (k & Bk & Lk & Lk' & Rk).
  rewrite length_map2 in Lk. rewrite length_blocking in Lk' by lia.
  rewrite nth_blocking in Bk by lia. apply andb_true_iff in Bk. destruct Bk as [Pk Sk]. apply fleb_R in Sk.
  rewrite nth_map2 in Rk by lia.
  assert (A01 : 0 <= alpha <= 1) by (rewrite <- Rk; apply ratio_bounds; [apply X0 | exact Sk]).
  (* entries of the new point *)
  assert (EN : forall i, (i < r)%nat -> nth i x' 0 =
            if nth i p false && fleb Rops (nth i s 0) 0 && fleb Rops (ratio Rops (nth i x 0) (nth i s 0)) alpha then 0
            else rnd (nth i x 0 + alpha * (nth i s 0 - nth i x 0))).
  { intros i Hi. unfold x', as_step. rewrite (nth_map3 _ false 0 0 0) by lia. reflexivity. }
  assert (GE : forall i, 0 <= nth i x' 0).
  { intros i. destruct (lt_dec i r) as [Hi|Hi]; [|rewrite nth_overflow by lia; lra]. rewrite EN by exact Hi.
    destruct (nth i p false) eqn:Pi; cbn [andb].
    - destruct (fleb Rops (nth i s 0) 0) eqn:Si; cbn [andb].
      + destruct (fleb Rops (ratio Rops (nth i x 0) (nth i s 0)) alpha) eqn:Ri; [lra|].
        apply fleb_R in Si. apply Rleb_false in Ri. apply rnd_nonneg. apply step_above; [apply X0 | exact Si | exact Ri].
      + apply Rleb_false in Si. pose proof (X0 i). apply rnd_nonneg. nra.
    - rewrite (XZ i Pi), (SZ i Pi). replace (0 + alpha * (0 - 0)) with 0 by ring. rewrite rnd0. lra. }
  assert (OFF : forall i, nth i p false = false -> nth i x' 0 = 0).
  { intros i Pi. destruct (lt_dec i r) as [Hi|Hi]; [|apply nth_overflow; lia]. rewrite EN by exact Hi.
    rewrite Pi. cbn [andb]. rewrite (XZ i Pi), (SZ i Pi). replace (0 + alpha * (0 - 0)) with 0 by ring. exact rnd0. }
  assert (PM : forall i, nth i (posmask Rops x') false = true -> 0 < nth i x' 0).
  { intros i H. destruct (lt_dec i (length x')) as [Hi|Hi]; [|rewrite nth_overflow in H by (rewrite length_posmask; lia); discriminate].
    rewrite nth_posmask in H by exact Hi. now apply fltb_R in H. }
  split; [|split].
  - split; [exact LX'|]. split; [rewrite length_posmask; exact LX'|]. split; [exact GE|].
    intros i H. destruct (lt_dec i (length x')) as [Hi|Hi]; [|apply nth_overflow; lia].
    rewrite nth_posmask in H by exact Hi. unfold fltb in H. cbn [fleb Rops] in H. apply negb_false_iff, Rleb_true in H.
    pose proof (GE i). lra.
  - intros i H. apply PM in H. destruct (nth i p false) eqn:Pi; [reflexivity|]. rewrite (OFF i Pi) in H. lra.
  - exists k. split; [exact Pk|]. destruct (nth k (posmask Rops x') false) eqn:E; [|reflexivity].
    apply PM in E. rewrite EN in E by lia. rewrite Pk in E. cbn [andb] in E.
    replace (fleb Rops (nth k s 0) 0) with true in E by (symmetry; now apply fleb_R). cbn [andb] in E.
    replace (fleb Rops (ratio Rops (nth k x 0) (nth k s 0)) alpha) with true in E by (symmetry; apply fleb_R; lra). lra.
Qed.

(* the inner loop: with a budget of at least the number of passive indices it ends with a non-negative support vector *)
Lemma inner_good_r fuel : forall x s p x2 s2 p2, (countb p <= fuel)%nat -> anyb p = true -> xinv_r x p -> sscat p = Some s ->
  inner Rops solve rnd Utm UtU fuel x s p = Some (x2, s2, p2) ->
  (forall i, 0 <= nth i s2 0) /\ length p2 = r.
Proof.
  induction fuel as [|f IH]; intros x s p x2 s2 p2 HC HA HI HS H.
  - exfalso. destruct (anyb_true_nth p HA) as (i & Hi). pose proof (countb_pos p i Hi). lia.
  - cbn [inner] in H. destruct (vmin' Rops _) as [alpha|] eqn:EA; [|discriminate]. cbv zeta in H.
    destruct (step_facts_r alpha x s p HI HS EA) as (HI' & SUB & k & Pk & Pk').
    set (x' := as_step Rops rnd alpha p x s) in *. set (p' := posmask Rops x') in *.
    assert (LP' : length p' = r) by apply HI'.
    destruct (sscat p') as [s'|] eqn:ES; [|discriminate].
    destruct (support_facts_r p' s' ES) as [LS' SZ'].
    destruct (negb (anyb p')) eqn:EN.
    + inversion H; subst. split; [|exact LP']. intros i. rewrite SZ'; [lra|]. apply anyb_false_nth. now apply negb_true_iff in EN.
    + apply negb_false_iff in EN.
      destruct (vmin' Rops (select p' s')) as [mn|] eqn:EM.
      * destruct (fltb Rops (f0 Rops) mn) eqn:EF.
        -- inversion H; subst. split; [|exact LP']. apply fltb_R in EF. cbn [f0 Rops] in EF. exact (support_pos_r p' s2 mn ES EM EF).
        -- apply (IH x' s' p' x2 s2 p2); auto.
           assert ((countb p' < countb p)%nat); [|lia].
           apply (countb_strict p p' k); auto. rewrite LP'. symmetry. apply HI.
      * exfalso. destruct (anyb_true_nth p' EN) as (i & Hi).
        assert (Li : (i < length s')%nat).
        { rewrite LS'. destruct (lt_dec i (length p')); [assumption | rewrite nth_overflow in Hi by lia; discriminate]. }
        pose proof (in_select 0 p' s' i Hi Li) as Hin. destruct (select p' s'); [contradiction | discriminate].
Qed.

(* one outer iteration from a state satisfying the invariant returns a non-negative support vector *)
Lemma body_good_r iter0 x g p a s2 p2 a2 : xinv_r x p ->
  as_body Rops solve rnd Utm UtU iter0 x g p a = Some (s2, p2, a2) -> (forall i, 0 <= nth i s2 0) /\ length p2 = r.
Proof.
  intros HI H. unfold as_body in H. cbv zeta in H.
  set (add := negb iter0 || forallb (is0 Rops) x) in *.
  set (p1 := if add then set_nth (argmax Rops g) true p else p) in *.
  assert (I1 : xinv_r x p1).
  { destruct HI as (LX & LP & X0 & XZ). unfold p1. destruct add; [|repeat split; assumption].
    split; [exact LX|]. split; [now rewrite set_nth_length|]. split; [exact X0|]. intros i Hi. apply XZ. eapply set_true_sub; eauto. }
  assert (CORE : forall x1 s1 q1 a1, xinv_r x1 q1 -> sscat q1 = Some s1 ->
            match vmin' Rops (select q1 s1) with
            | Some mn => if fleb Rops mn (f0 Rops)
                         then match inner Rops solve rnd Utm UtU (length q1) x1 s1 q1 with
                              | Some (_, s2', p2') => Some (s2', p2', negmask p2') | None => None end
                         else Some (s1, q1, a1)
            | None => None end = Some (s2, p2, a2) -> (forall i, 0 <= nth i s2 0) /\ length p2 = r).
  { intros x1 s1 q1 a1 HI1 HS1 HM. destruct (vmin' Rops (select q1 s1)) as [mn|] eqn:EM; [|discriminate].
    destruct (fleb Rops mn (f0 Rops)) eqn:EF.
    - destruct (inner _ _ _ _ _ _ _ _ _) as [[[x2' s2'] p2']|] eqn:EI; [|discriminate]. inversion HM; subst.
      apply (inner_good_r (length q1) x1 s1 q1 x2' s2 p2); auto; [apply countb_le_length|].
      apply vmin'_attained in EM. destruct (in_select_inv 0 _ _ _ EM) as (i & Hi & _). now apply (anyb_nth q1 i).
    - inversion HM; subst. split; [|apply HI1]. apply Rleb_false in EF. cbn [f0 Rops] in EF. exact (support_pos_r p2 s2 mn HS1 EM EF). }
  destruct (sscat p1) as [s|] eqn:E1.
  - eapply CORE; eauto.
  - set (x0 := map (fun _ => f0 Rops) x) in *. set (p0 := posmask Rops x0) in *.
    set (q1 := if anyb (negmask p0) then set_nth (argmax Rops g) true p0 else p0) in *.
    assert (Z0 : forall i, nth i x0 0 = 0).
    { intros i. destruct (lt_dec i (length x)) as [L|L]; [unfold x0; now rewrite (nth_map' _ x i 0 0) | apply nth_overflow; unfold x0; rewrite map_length; lia]. }
    assert (I0 : xinv_r x0 q1).
    { destruct HI as (LX & _). split; [unfold x0; now rewrite map_length|].
      split; [unfold q1; destruct (anyb _); rewrite ?set_nth_length; unfold p0; rewrite length_posmask; unfold x0; now rewrite map_length|].
      split; [intros i; rewrite Z0; lra | intros i _; apply Z0]. }
    destruct (sscat q1) as [s|] eqn:E2; [|discriminate].
    eapply CORE; eauto.
Qed.

(* the outer loop keeps the invariant; leaving it through the termination test yields an exit state whose support
   vector is non-negative *)
Theorem loop_good_r fuel : forall iter0 x g p a y, a = negmask p -> xinv_r x p ->
  as_loop Rops solve rnd Utm UtU tol fuel iter0 x g p a = Some (y, true) ->
  exists s p2, sscat p2 = Some s /\ y = map (fmax Rops (f0 Rops)) s /\
    as_done Rops tol (negmask p2) (gradient Rops Utm UtU y) = true /\ Forall (fun v => 0 <= v) s /\ length p2 = r.
Proof.
  induction fuel as [|f IH]; intros iter0 x g p a y Ha HI H; cbn [as_loop] in H; [discriminate|].
  destruct (as_body Rops solve rnd Utm UtU iter0 x g p a) as [[[s2 p2] a2]|] eqn:EB; [|discriminate]. cbv zeta in H.
  destruct (body_spec solve rnd Utm UtU _ _ _ _ _ _ _ _ Ha EB) as [HS HA].
  destruct (body_good_r _ _ _ _ _ _ _ _ HI EB) as [HP LP].
  pose proof (Forall_of_nth s2 HP) as HF.
  destruct (as_done Rops tol a2 _) eqn:ED.
  - inversion H; subst y. exists s2, p2. rewrite <- HA. auto.
  - refine (IH false _ _ p2 a2 y HA _ H).
    rewrite (clip_nonneg s2 HF). destruct (support_facts_r p2 s2 HS) as [LS SZ].
    split; [lia|]. split; [exact LP|]. split; [exact HP | exact SZ].
Qed.
End FullR.

(* FULL for every sign-preserving rounding of the interpolation step: abstract tl.solve with its contract, cold start or any
   non-negative warm start of the problem's length: whenever active_set_nnls leaves its loop through the termination test
   the returned point satisfies the KKT conditions within tol, with the final passive set p as certificate *)
Theorem active_set_exit_kkt_full_r (solve : list (list R) -> list R -> option (list R)) (rnd : R -> R)
        (Utm : list R) (UtU : list (list R)) (tol : R) x0 n_iter_max y :
  rnd 0 = 0 -> (forall v, 0 <= v -> 0 <= rnd v) ->
  length UtU = length Utm -> (forall i, (i < length Utm)%nat -> length (nth i UtU []) = length Utm) ->
  (forall A b ps, solve A b = Some ps -> Forall2 (fun row bi => dot Rops row ps = bi) A b) ->
  match x0 with Some x => length x = length Utm /\ Forall (fun v => 0 <= v) x | None => True end ->
  active_set_run Rops solve rnd Utm UtU tol x0 n_iter_max = Some (y, true) ->
  exists p, length p = length Utm /\
    forall i, (i < length Utm)%nat ->
      0 <= nth i y 0 /\
      (nth i p true = true -> nth i (gradient Rops Utm UtU y) 0 = 0) /\
      (nth i p true = false -> nth i y 0 = 0 /\ nth i (gradient Rops Utm UtU y) 0 <= tol).
Proof.
  intros R0 RN LG WG Hsolve Hx0 H. unfold active_set_run in H.
  set (x := match x0 with Some x => x | None => map (fun _ => f0 Rops) (nth 0 UtU []) end) in *.
  assert (HI : xinv_r Utm x (posmask Rops x)).
  { assert (LX : length x = length Utm).
    { unfold x. destruct x0 as [x1|]; [apply Hx0|]. rewrite map_length.
      destruct Utm as [|u Utm']; [destruct UtU; [reflexivity | discriminate] | apply (WG 0%nat); cbn; lia]. }
    assert (X0 : forall i, 0 <= nth i x 0).
    { intros i. unfold x. destruct x0 as [x1|].
      - destruct Hx0 as [_ HF]. destruct (lt_dec i (length x1)) as [L|L]; [|rewrite nth_overflow by lia; lra].
        rewrite Forall_forall in HF. apply HF. now apply nth_In.
      - destruct (lt_dec i (length (nth 0 UtU []))) as [L|L]; [rewrite (nth_map' _ _ i 0 0) by exact L; cbn; lra | rewrite nth_overflow by (rewrite map_length; lia); lra]. }
    split; [exact LX|]. split; [rewrite length_posmask; exact LX|]. split; [exact X0|].
    intros i Hi. destruct (lt_dec i (length x)) as [L|L]; [|apply nth_overflow; lia].
    rewrite nth_posmask in Hi by exact L. unfold fltb in Hi. cbn [fleb Rops] in Hi. apply negb_false_iff, Rleb_true in Hi.
    pose proof (X0 i). lra. }
  destruct (loop_good_r solve Utm UtU tol rnd R0 RN n_iter_max true x _ _ _ y eq_refl HI H) as (s & p & HS & Hy & HD & HF & LP).
  exists p. split; [exact LP|].
  exact (exit_state_kkt solve Utm UtU tol LG Hsolve y s p LP WG HS Hy HD HF).
Qed.
