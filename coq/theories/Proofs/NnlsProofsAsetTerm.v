(* FINITE TERMINATION of active_set_nnls (exact arithmetic, Lawson-Hanson): with a symmetric positive definite UtU, tl.solve
   total on the blocks (with its contract) and tol >= 0, every outer iteration after the first strictly decreases the
   objective; the iterate at the end of an iteration is the support vector of its passive set, so no passive set repeats
   and the termination test is reached within 2^r + 1 iterations: the budget never runs out. *)
From Coq Require Import List Arith Bool Reals Lra Lia Psatz.
From TLV Require Import Base.Ops Base.PyList Base.Tensor Base.RSum Model.Nnls Proofs.NnlsProofs Proofs.NnlsProofsFista
     Proofs.NnlsProofsAsetCert Proofs.NnlsProofsAsetFull Proofs.NnlsProofsConv.
Import ListNotations.
Open Scope R_scope.

(* ---------- quadratic forms ---------- *)
Lemma quad_scale n (G : nat -> nat -> R) (c : R) d : quad n G (fun i => c * d i) = c^2 * quad n G d.
Proof.
  unfold quad. rewrite <- rsum_scale. apply rsum_ext. intros i _. rewrite <- rsum_scale. apply rsum_ext. intros j _. ring.
Qed.
Lemma quad_ext n (G : nat -> nat -> R) d e : (forall i, (i < n)%nat -> d i = e i) -> quad n G d = quad n G e.
Proof. intros H. unfold quad. apply rsum_ext. intros i Hi. apply rsum_ext. intros j Hj. now rewrite (H i Hi), (H j Hj). Qed.

(* on a coordinate subspace {v : v_i = 0 off P} a point s that is stationary on P is the exact minimiser:
   f z - f s = (z - s)' G (z - s) / 2 *)
Lemma subspace_exact n (G : nat -> nat -> R) b (P : nat -> bool) (s z : nat -> R) :
  (forall i j, G i j = G j i) ->
  (forall i, (i < n)%nat -> P i = false -> s i = 0 /\ z i = 0) ->
  (forall i, (i < n)%nat -> P i = true -> qp_grad n G b 0 0 s i = 0) ->
  qp_f n G b 0 0 z - qp_f n G b 0 0 s = quad n G (fun i => z i - s i) / 2.
Proof.
  intros Gsym Hoff Hst. rewrite (qp_diff n G b 0 0 Gsym s z). cbv zeta.
  rewrite (rsum_zero n (fun i => (z i - s i) * qp_grad n G b 0 0 s i)); [ring|].
  intros i Hi. destruct (P i) eqn:E; [rewrite (Hst i Hi E); ring | destruct (Hoff i Hi E) as [-> ->]; ring].
Qed.

(* ---------- argmax ---------- *)
Lemma argmax_from_spec (l : list R) : forall best bi i, (bi < i)%nat ->
  let k := argmax_from Rops best bi i l in
  (k = bi \/ (i <= k < i + length l)%nat) /\
  (k = bi -> forall j, (j < length l)%nat -> nth j l 0 <= best) /\
  (forall j, (j < length l)%nat -> nth j l 0 <= (if Nat.eq_dec k bi then best else nth (k - i) l 0)) /\
  (k <> bi -> best <= nth (k - i) l 0).
Proof.
  induction l as [|y l IH]; intros best bi i Hb; cbn [argmax_from length].
  - cbv zeta. split; [now left|]. split; [intros _ j Hj; lia|]. split; [intros j Hj; lia | congruence].
  - cbv zeta. unfold fltb. cbn [fleb Rops]. destruct (Rleb y best) eqn:E; cbn [negb].
    + apply Rleb_true in E. destruct (IH best bi (S i) ltac:(lia)) as (A & B & C & D). cbv zeta in A, B, C, D.
      set (k := argmax_from Rops best bi (S i) l) in *.
      split; [destruct A as [A|A]; [now left | right; lia]|].
      split; [intros Hk j Hj; destruct j as [|j]; [exact E | apply (B Hk); lia]|].
      split.
      * intros j Hj. destruct (Nat.eq_dec k bi) as [Hk|Hk].
        -- destruct j as [|j]; [exact E | apply (B Hk); lia].
        -- destruct A as [A|A]; [congruence|]. replace (k - i)%nat with (S (k - S i)) by lia. cbn [nth].
           specialize (D Hk). destruct j as [|j]; cbn [nth]; [lra|]. specialize (C j ltac:(lia)). destruct (Nat.eq_dec k bi); [congruence | exact C].
      * intros Hk. destruct A as [A|A]; [congruence|]. replace (k - i)%nat with (S (k - S i)) by lia. cbn [nth]. exact (D Hk).
    + apply Rleb_false in E. destruct (IH y i (S i) ltac:(lia)) as (A & B & C & D). cbv zeta in A, B, C, D.
      set (k := argmax_from Rops y i (S i) l) in *.
      assert (Hki : (k = i \/ (S i <= k < S i + length l))%nat) by exact A.
      split; [right; destruct Hki; lia|].
      split; [intros Hk; destruct Hki; lia|].
      assert (Hne : k <> bi) by (destruct Hki; lia).
      split.
      * intros j Hj. destruct (Nat.eq_dec k bi) as [Hk|_]; [congruence|].
        destruct (Nat.eq_dec k i) as [Hk|Hk].
        -- rewrite Hk, Nat.sub_diag. cbn [nth]. destruct j as [|j]; cbn [nth]; [lra | apply (B Hk); lia].
        -- destruct Hki as [Hki|Hki]; [congruence|]. replace (k - i)%nat with (S (k - S i)) by lia. cbn [nth].
           specialize (D Hk). destruct j as [|j]; cbn [nth]; [lra|]. specialize (C j ltac:(lia)). destruct (Nat.eq_dec k i); [congruence | exact C].
      * intros _. destruct (Nat.eq_dec k i) as [Hk|Hk].
        -- rewrite Hk, Nat.sub_diag. cbn [nth]. lra.
        -- destruct Hki as [Hki|Hki]; [congruence|]. replace (k - i)%nat with (S (k - S i)) by lia. cbn [nth]. specialize (D Hk). lra.
Qed.

Lemma argmax_spec (l : list R) : l <> [] -> (argmax Rops l < length l)%nat /\ forall j, (j < length l)%nat -> nth j l 0 <= nth (argmax Rops l) l 0.
Proof.
  destruct l as [|y l]; [congruence|]. intros _. cbn [argmax length].
  destruct (argmax_from_spec l y 0%nat 1%nat ltac:(lia)) as (A & B & C & D). cbv zeta in A, B, C, D.
  set (k := argmax_from Rops y 0 1 l) in *.
  split; [destruct A; lia|].
  intros j Hj. destruct (Nat.eq_dec k 0) as [Hk|Hk].
  - rewrite Hk. cbn [nth]. destruct j as [|j]; cbn [nth]; [lra | apply (B Hk); lia].
  - destruct A as [A|A]; [congruence|]. replace k with (S (k - 1)) at 1 by lia. cbn [nth]. specialize (D Hk).
    destruct j as [|j]; cbn [nth]; [lra|]. specialize (C j ltac:(lia)). destruct (Nat.eq_dec k 0); [congruence | exact C].
Qed.

(* ---------- counting masks ---------- *)
Fixpoint all_masks (r : nat) : list (list bool) :=
  match r with O => [[]] | S r' => map (cons true) (all_masks r') ++ map (cons false) (all_masks r') end.
Lemma all_masks_in r : forall q, length q = r -> In q (all_masks r).
Proof.
  induction r as [|r IH]; intros q Hq.
  - destruct q; [now left | discriminate].
  - destruct q as [|b q]; [discriminate|]. cbn [all_masks]. apply in_or_app. injection Hq as Hq.
    destruct b; [left | right]; apply in_map; now apply IH.
Qed.
Lemma all_masks_length r : length (all_masks r) = (2 ^ r)%nat.
Proof. induction r as [|r IH]; [reflexivity|]. cbn [all_masks]. rewrite app_length, !map_length, IH. cbn. lia. Qed.

Lemma filter_length_strict {A} (P1 P2 : A -> bool) (l : list A) q0 :
  (forall q, P2 q = true -> P1 q = true) -> In q0 l -> P1 q0 = true -> P2 q0 = false ->
  (length (filter P2 l) < length (filter P1 l))%nat.
Proof.
  intros Hsub. 
  assert (Hle : forall l', (length (filter P2 l') <= length (filter P1 l'))%nat).
  { induction l' as [|a l' IH]; [cbn; lia|]. cbn [filter]. destruct (P2 a) eqn:E2.
    - rewrite (Hsub a E2). cbn [length]. lia.
    - destruct (P1 a); cbn [length]; lia. }
  induction l as [|a l IH]; intros Hin H1 H2; [contradiction|]. cbn [filter].
  destruct Hin as [->|Hin].
  - rewrite H1, H2. cbn [length]. specialize (Hle l). lia.
  - specialize (IH Hin H1 H2). destruct (P2 a) eqn:E2.
    + rewrite (Hsub a E2). cbn [length]. lia.
    + destruct (P1 a); cbn [length]; lia.
Qed.

Lemma vec_zero_dec n (d : nat -> R) : (forall i, (i < n)%nat -> d i = 0) \/ exists i, (i < n)%nat /\ d i <> 0.
Proof.
  induction n as [|n IH]; [left; intros; lia|].
  destruct IH as [IH|(i & Hi & Hd)]; [|right; exists i; split; [lia | exact Hd]].
  destruct (Req_dec (d n) 0) as [E|E]; [|right; exists n; split; [lia | exact E]].
  left. intros i Hi. destruct (Nat.eq_dec i n) as [->|Hne]; [exact E | apply IH; lia].
Qed.

Section Term.
Variables (solve : list (list R) -> list R -> option (list R)).
Variables (Utm : list R) (UtU : list (list R)) (tol : R).
Notation r := (length Utm).
Hypothesis LG : length UtU = r.
Hypothesis WG : forall i, (i < r)%nat -> length (nth i UtU []) = r.
Hypothesis solve_ok : forall A b ps, solve A b = Some ps -> Forall2 (fun row bi => dot Rops row ps = bi) A b.
Definition Gm : nat -> nat -> R := fun i j => nth j (nth i UtU []) 0.
Definition bv : nat -> R := fun i => nth i Utm 0.
Definition xf (x : list R) : nat -> R := fun i => nth i x 0.
Definition fobj (x : list R) : R := qp_f r Gm bv 0 0 (xf x).
Hypothesis Gsym : forall i j, Gm i j = Gm j i.
Hypothesis PD : forall d : nat -> R, (exists i, (i < r)%nat /\ d i <> 0) -> 0 < quad r Gm d.
Notation sscat := (solve_scatter Rops solve Utm UtU).
Notation grad := (gradient Rops Utm UtU).
Notation idf := (fun x : R => x).
Notation Pf p := (fun i => nth i p false).
Notation Qd x s := (quad r Gm (fun i => xf x i - xf s i)).

Lemma Gpsd d : 0 <= quad r Gm d.
Proof.
  destruct (vec_zero_dec r d) as [Z|E]; [|left; now apply PD].
  rewrite (quad_ext r Gm d (fun _ => 0)) by exact Z. unfold quad. right. symmetry. apply rsum_zero. intros i _. apply rsum_zero. intros j _. ring.
Qed.

Lemma grad_entry x i : length x = r -> (i < r)%nat -> nth i (grad x) 0 = - qp_grad r Gm bv 0 0 (xf x) i.
Proof.
  intros Lx Hi. rewrite (nth_gradient Utm UtU LG) by exact Hi.
  rewrite dot_rsum by (rewrite (WG i Hi); exact Lx). rewrite (WG i Hi).
  unfold qp_grad, Gm, bv, xf. ring.
Qed.

Lemma support_stationary p s : sscat p = Some s -> length p = r -> forall i, (i < r)%nat -> nth i p false = true ->
  qp_grad r Gm bv 0 0 (xf s) i = 0.
Proof.
  intros HS LP i Hi Hp.
  assert (Ls : length s = r) by (destruct (support_facts solve Utm UtU p s HS); lia).
  assert (E0 : nth i (grad s) 0 = 0); [|rewrite grad_entry in E0 by assumption; lra].
  unfold solve_scatter in HS. destruct (solve _ _) as [ps|] eqn:ES; [|discriminate]. inversion HS; subst s. clear HS.
  rewrite (nth_gradient Utm UtU LG) by exact Hi.
  pose proof (solve_ok _ _ _ ES) as HF. unfold sub_block in HF.
  assert (HF' : Forall2 (fun row bi => dot Rops (select p row) ps = bi) (select p UtU) (select p Utm)).
  { clear -HF. remember (select p UtU) as L. remember (select p Utm) as M. clear HeqL HeqM.
    revert M HF. induction L as [|a L IH]; intros M HF; cbn [map] in HF; inversion HF; subst; constructor; auto. }
  pose proof (Forall2_select_nth _ [] 0 p UtU Utm i HF' ltac:(lia) Hp ltac:(lia)) as E. cbv beta in E.
  rewrite dot_select_scatter in E. lra.
Qed.

(* x in the subspace of p, s its support vector: f x - f s = (x - s)' G (x - s) / 2 >= 0 *)
Lemma support_exact x s p : xinv Utm x p -> sscat p = Some s -> fobj x - fobj s = Qd x s / 2.
Proof.
  intros (LX & LP & X0 & XZ) HS. destruct (support_facts solve Utm UtU p s HS) as [LS SZ].
  unfold fobj. apply (subspace_exact r Gm bv (Pf p)); [exact Gsym | |].
  - intros i Hi Hp. unfold xf. split; [now apply SZ | now apply XZ].
  - intros i Hi Hp. now apply (support_stationary p s HS LP).
Qed.

(* one interpolation step in exact arithmetic is the plain interpolation x + alpha (s - x), alpha in [0, 1] attained at a blocking index *)
Lemma step_interp alpha x s p : xinv Utm x p -> sscat p = Some s ->
  vmin' Rops (select (blocking Rops p s) (map2 (ratio Rops) x s)) = Some alpha ->
  0 <= alpha <= 1 /\
  (forall i, (i < r)%nat -> nth i (as_step Rops idf alpha p x s) 0 = nth i x 0 + alpha * (nth i s 0 - nth i x 0)) /\
  (exists k, (k < r)%nat /\ nth k p false = true /\ nth k s 0 <= 0 /\ ratio Rops (nth k x 0) (nth k s 0) = alpha).
Proof.
  intros (LX & LP & X0 & XZ) HS HA. destruct (support_facts solve Utm UtU p s HS) as [LS SZ].
  pose proof HA as HA'. apply vmin'_attained in HA'. destruct (in_select_inv 0 _ _ _ HA') as (k & Bk & Lk & Lk' & Rk).
  rewrite length_map2 in Lk. rewrite length_blocking in Lk' by lia.
  rewrite nth_blocking in Bk by lia. apply andb_true_iff in Bk. destruct Bk as [Pk Sk]. apply fleb_R in Sk.
  rewrite nth_map2 in Rk by lia.
  assert (A01 : 0 <= alpha <= 1) by (rewrite <- Rk; apply ratio_bounds; [apply X0 | exact Sk]).
  split; [exact A01|]. split; [|exists k; repeat split; [lia | exact Pk | exact Sk | exact Rk]].
  intros i Hi. unfold as_step. rewrite (nth_map3 _ false 0 0 0) by lia.
  cbn [f0 fadd fmul fsub Rops].
  destruct (nth i p false) eqn:Pi; cbn [andb]; [|reflexivity].
  destruct (fleb Rops (nth i s 0) 0) eqn:Si; cbn [andb]; [|reflexivity].
  destruct (fleb Rops (ratio Rops (nth i x 0) (nth i s 0)) alpha) eqn:Ri; [|reflexivity].
  apply fleb_R in Si. apply fleb_R in Ri.
  (* alpha is the minimum over the blocking indices, i is one of them: ratio_i = alpha *)
  assert (Hge : alpha <= ratio Rops (nth i x 0) (nth i s 0)).
  { apply (vmin'_le _ _ HA). rewrite <- (nth_map2 (ratio Rops) x s i) by lia.
    apply in_select; [|rewrite length_map2; lia]. rewrite nth_blocking by lia. rewrite Pi. cbn [andb]. now apply fleb_R. }
  assert (Hr : ratio Rops (nth i x 0) (nth i s 0) = alpha) by lra.
  unfold ratio in Hr. cbn [fdiv fsub Rops] in Hr. pose proof (X0 i) as Hx.
  destruct (Req_dec (nth i x 0 - nth i s 0) 0) as [E|E].
  - assert (nth i x 0 = 0) by lra. assert (nth i s 0 = 0) by lra. rewrite H, H0. ring.
  - rewrite <- Hr. field. exact E.
Qed.

Lemma step_obj alpha x s p : xinv Utm x p -> sscat p = Some s ->
  vmin' Rops (select (blocking Rops p s) (map2 (ratio Rops) x s)) = Some alpha ->
  fobj (as_step Rops idf alpha p x s) - fobj x = - (alpha * (2 - alpha)) * (Qd x s / 2).
Proof.
  intros HI HS HA. destruct (step_interp alpha x s p HI HS HA) as (A01 & EN & _).
  pose proof (support_exact x s p HI HS) as E1.
  destruct HI as (LX & LP & X0 & XZ). destruct (support_facts solve Utm UtU p s HS) as [LS SZ].
  set (x' := as_step Rops idf alpha p x s) in *.
  assert (E2 : fobj x' - fobj s = (1 - alpha)^2 * Qd x s / 2).
  { unfold fobj. rewrite (subspace_exact r Gm bv (Pf p) (xf s) (xf x') Gsym).
    - rewrite (quad_ext r Gm (fun i => xf x' i - xf s i) (fun i => (1 - alpha) * (xf x i - xf s i))).
      + rewrite quad_scale. ring.
      + intros i Hi. unfold xf. rewrite EN by exact Hi. ring.
    - intros i Hi Hp. unfold xf. split; [now apply SZ|]. rewrite EN by exact Hi. rewrite (XZ i Hp), (SZ i Hp). ring.
    - intros i Hi Hp. now apply (support_stationary p s HS LP). }
  lra.
Qed.

Lemma inner_nonincr fuel : forall x s p x2 s2 p2, xinv Utm x p -> sscat p = Some s ->
  inner Rops solve idf Utm UtU fuel x s p = Some (x2, s2, p2) -> fobj s2 <= fobj x.
Proof.
  induction fuel as [|f IH]; intros x s p x2 s2 p2 HI HS H.
  - cbn [inner] in H. injection H as <- <- <-. pose proof (support_exact x s p HI HS). pose proof (Gpsd (fun i => xf x i - xf s i)). lra.
  - cbn [inner] in H. destruct (vmin' Rops _) as [alpha|] eqn:EA; [|discriminate]. cbv zeta in H.
    destruct (step_facts solve Utm UtU alpha x s p HI HS EA) as (HI' & _ & _).
    pose proof (step_obj alpha x s p HI HS EA) as SO. destruct (step_interp alpha x s p HI HS EA) as (A01 & _ & _).
    pose proof (Gpsd (fun i => xf x i - xf s i)) as Q0.
    set (x' := as_step Rops idf alpha p x s) in *. set (p' := posmask Rops x') in *.
    assert (D1 : fobj x' <= fobj x).
    { assert (0 <= alpha * (2 - alpha)) by nra.
      assert (0 <= alpha * (2 - alpha) * (Qd x s / 2)) by (apply Rmult_le_pos; lra). lra. }
    destruct (sscat p') as [s'|] eqn:ES; [|discriminate].
    assert (D2 : fobj s' <= fobj x') by (pose proof (support_exact x' s' p' HI' ES); pose proof (Gpsd (fun i => xf x' i - xf s' i)); lra).
    destruct (negb (anyb p')); [inversion H; subst; lra|].
    destruct (vmin' Rops (select p' s')) as [mn|]; [|inversion H; subst; lra].
    destruct (fltb Rops (f0 Rops) mn); [inversion H; subst; lra|].
    pose proof (IH x' s' p' x2 s2 p2 HI' ES H). lra.
Qed.

Lemma inner_strict f x s p x2 s2 p2 : xinv Utm x p -> sscat p = Some s ->
  (forall i, nth i p false = true -> nth i s 0 <= 0 -> 0 < nth i x 0) -> 0 < Qd x s ->
  inner Rops solve idf Utm UtU (S f) x s p = Some (x2, s2, p2) -> fobj s2 < fobj x.
Proof.
  intros HI HS Hpos HQ H.
  cbn [inner] in H. destruct (vmin' Rops _) as [alpha|] eqn:EA; [|discriminate]. cbv zeta in H.
  destruct (step_facts solve Utm UtU alpha x s p HI HS EA) as (HI' & _ & _).
  pose proof (step_obj alpha x s p HI HS EA) as SO. destruct (step_interp alpha x s p HI HS EA) as (A01 & _ & k & Hk & Pk & Sk & Rk).
  assert (Apos : 0 < alpha).
  { rewrite <- Rk. unfold ratio. cbn [fdiv fsub Rops]. pose proof (Hpos k Pk Sk). apply Rdiv_lt_0_compat; lra. }
  set (x' := as_step Rops idf alpha p x s) in *. set (p' := posmask Rops x') in *.
  assert (D1 : fobj x' < fobj x).
  { assert (0 < alpha * (2 - alpha)) by nra.
    assert (0 < alpha * (2 - alpha) * (Qd x s / 2)) by (apply Rmult_lt_0_compat; lra). lra. }
  destruct (sscat p') as [s'|] eqn:ES; [|discriminate].
  assert (D2 : fobj s' <= fobj x') by (pose proof (support_exact x' s' p' HI' ES); pose proof (Gpsd (fun i => xf x' i - xf s' i)); lra).
  destruct (negb (anyb p')); [inversion H; subst; lra|].
  destruct (vmin' Rops (select p' s')) as [mn|]; [|inversion H; subst; lra].
  destruct (fltb Rops (f0 Rops) mn); [inversion H; subst; lra|].
  pose proof (inner_nonincr f x' s' p' x2 s2 p2 HI' ES H). lra.
Qed.

(* ---------- positivity on the passive set is kept ---------- *)
Lemma inner_pos fuel : forall x s p x2 s2 p2, (countb p <= fuel)%nat -> anyb p = true -> xinv Utm x p -> sscat p = Some s ->
  inner Rops solve idf Utm UtU fuel x s p = Some (x2, s2, p2) -> forall i, nth i p2 false = true -> 0 < nth i s2 0.
Proof.
  induction fuel as [|f IH]; intros x s p x2 s2 p2 HC HA HI HS H.
  - exfalso. destruct (anyb_true_nth p HA) as (i & Hi). pose proof (countb_pos p i Hi). lia.
  - cbn [inner] in H. destruct (vmin' Rops _) as [alpha|] eqn:EA; [|discriminate]. cbv zeta in H.
    destruct (step_facts solve Utm UtU alpha x s p HI HS EA) as (HI' & SUB & k & Pk & Pk').
    set (x' := as_step Rops idf alpha p x s) in *. set (p' := posmask Rops x') in *.
    assert (LP' : length p' = r) by apply HI'.
    destruct (sscat p') as [s'|] eqn:ES; [|discriminate].
    destruct (support_facts solve Utm UtU p' s' ES) as [LS' SZ'].
    destruct (negb (anyb p')) eqn:EN.
    + injection H as _ <- <-. intros i Hi. apply negb_true_iff in EN. rewrite (anyb_false_nth p' i EN) in Hi. discriminate.
    + apply negb_false_iff in EN.
      destruct (vmin' Rops (select p' s')) as [mn|] eqn:EM.
      * destruct (fltb Rops (f0 Rops) mn) eqn:EF.
        -- injection H as _ <- <-. apply fltb_R in EF. cbn [f0 Rops] in EF. intros i Hi.
           assert (Li : (i < length s')%nat).
           { rewrite LS'. destruct (lt_dec i (length p')); [assumption | rewrite nth_overflow in Hi by lia; discriminate]. }
           pose proof (vmin'_le _ _ EM (nth i s' 0) (in_select 0 p' s' i Hi Li)). lra.
        -- apply (IH x' s' p' x2 s2 p2); auto.
           assert ((countb p' < countb p)%nat); [|lia].
           apply (countb_strict p p' k); auto. rewrite LP'. symmetry. apply HI.
      * exfalso. destruct (anyb_true_nth p' EN) as (i & Hi).
        assert (Li : (i < length s')%nat).
        { rewrite LS'. destruct (lt_dec i (length p')); [assumption | rewrite nth_overflow in Hi by lia; discriminate]. }
        pose proof (in_select 0 p' s' i Hi Li) as Hin. destruct (select p' s'); [contradiction | discriminate].
Qed.

Lemma body_pos iter0 x g p a s2 p2 a2 : xinv Utm x p ->
  as_body Rops solve idf Utm UtU iter0 x g p a = Some (s2, p2, a2) -> forall i, nth i p2 false = true -> 0 < nth i s2 0.
Proof.
  intros HI H. unfold as_body in H. cbv zeta in H.
  set (add := negb iter0 || forallb (is0 Rops) x) in *.
  set (p1 := if add then set_nth (argmax Rops g) true p else p) in *.
  assert (I1 : xinv Utm x p1).
  { destruct HI as (LX & LP & X0 & XZ). unfold p1. destruct add; [|repeat split; assumption].
    split; [exact LX|]. split; [now rewrite set_nth_length|]. split; [exact X0|]. intros i Hi. apply XZ. eapply set_true_sub; eauto. }
  assert (CORE : forall x1 s1 q1 a1, xinv Utm x1 q1 -> sscat q1 = Some s1 ->
            match vmin' Rops (select q1 s1) with
            | Some mn => if fleb Rops mn (f0 Rops)
                         then match inner Rops solve idf Utm UtU (length q1) x1 s1 q1 with
                              | Some (_, s2', p2') => Some (s2', p2', negmask p2') | None => None end
                         else Some (s1, q1, a1)
            | None => None end = Some (s2, p2, a2) -> forall i, nth i p2 false = true -> 0 < nth i s2 0).
  { intros x1 s1 q1 a1 HI1 HS1 HM. destruct (vmin' Rops (select q1 s1)) as [mn|] eqn:EM; [|discriminate].
    destruct (fleb Rops mn (f0 Rops)) eqn:EF.
    - destruct (inner _ _ _ _ _ _ _ _ _) as [[[x2' s2'] p2']|] eqn:EI; [|discriminate]. inversion HM; subst.
      apply (inner_pos (length q1) x1 s1 q1 x2' s2 p2); auto; [apply countb_le_length|].
      apply vmin'_attained in EM. destruct (in_select_inv 0 _ _ _ EM) as (i & Hi & _). now apply (anyb_nth q1 i).
    - inversion HM; subst. apply Rleb_false in EF. cbn [f0 Rops] in EF. intros i Hi.
      destruct (support_facts solve Utm UtU p2 s2 HS1) as [LS1 _].
      assert (Li : (i < length s2)%nat).
      { rewrite LS1. destruct (lt_dec i (length p2)); [assumption | rewrite nth_overflow in Hi by lia; discriminate]. }
      pose proof (vmin'_le _ _ EM (nth i s2 0) (in_select 0 p2 s2 i Hi Li)). lra. }
  destruct (sscat p1) as [s|] eqn:E1.
  - eapply CORE; eauto.
  - set (x0 := map (fun _ => f0 Rops) x) in *. set (p0 := posmask Rops x0) in *.
    set (q1 := if anyb (negmask p0) then set_nth (argmax Rops g) true p0 else p0) in *.
    assert (Z0 : forall i, nth i x0 0 = 0).
    { intros i. destruct (lt_dec i (length x)) as [L|L]; [unfold x0; now rewrite (nth_map' _ x i 0 0) | apply nth_overflow; unfold x0; rewrite map_length; lia]. }
    assert (I0 : xinv Utm x0 q1).
    { destruct HI as (LX & _). split; [unfold x0; now rewrite map_length|].
      split; [unfold q1; destruct (anyb _); rewrite ?set_nth_length; unfold p0; rewrite length_posmask; unfold x0; now rewrite map_length|].
      split; [intros i; rewrite Z0; lra | intros i _; apply Z0]. }
    destruct (sscat q1) as [s|] eqn:E2; [|discriminate].
    eapply CORE; eauto.
Qed.

(* the state at the end of an outer iteration: x is the support vector of p, positive on p *)
Definition pinv (x : list R) (p : list bool) : Prop := sscat p = Some x /\ length p = r /\ forall i, nth i p false = true -> 0 < nth i x 0.
Lemma pinv_xinv x p : pinv x p -> xinv Utm x p.
Proof.
  intros (HS & LP & Hpos). destruct (support_facts solve Utm UtU p x HS) as [LS SZ].
  split; [lia|]. split; [exact LP|]. split; [|exact SZ].
  intros i. destruct (nth i p false) eqn:E; [left; now apply Hpos | rewrite (SZ i E); lra].
Qed.

(* Lawson-Hanson: adding an index with positive gradient gives a support vector that is positive there and strictly better *)
Lemma new_index x p i1 s1 : pinv x p -> (i1 < r)%nat -> nth i1 p false = false -> 0 < nth i1 (grad x) 0 ->
  sscat (set_nth i1 true p) = Some s1 -> 0 < nth i1 s1 0 /\ fobj s1 < fobj x /\ 0 < Qd x s1.
Proof.
  intros HP Hi1 Pi1 Hw HS1. pose proof (pinv_xinv x p HP) as HI. destruct HP as (HS & LP & Hpos).
  destruct HI as (LX & _ & X0 & XZ).
  set (p1 := set_nth i1 true p) in *.
  assert (LP1 : length p1 = r) by (unfold p1; now rewrite set_nth_length).
  assert (P1i : nth i1 p1 false = true) by (unfold p1; apply nth_set_nth_same; lia).
  assert (I1 : xinv Utm x p1).
  { split; [exact LX|]. split; [exact LP1|]. split; [exact X0|]. intros i Hi. apply XZ. eapply set_true_sub; eauto. }
  destruct (support_facts solve Utm UtU p1 s1 HS1) as [LS1 SZ1].
  pose proof (support_exact x s1 p1 I1 HS1) as E1.
  set (w := nth i1 (grad x) 0) in *.
  assert (Gx : qp_grad r Gm bv 0 0 (xf x) i1 = - w) by (unfold w; rewrite grad_entry by assumption; lra).
  (* the expansion from x to s1: only the coordinate i1 contributes to the linear term *)
  pose proof (qp_diff r Gm bv 0 0 Gsym (xf x) (xf s1)) as D. cbv zeta in D. fold (fobj s1) (fobj x) in D.
  assert (Q' : quad r Gm (fun i => xf s1 i - xf x i) = Qd x s1).
  { rewrite (quad_ext r Gm (fun i => xf s1 i - xf x i) (fun i => (-1) * (xf x i - xf s1 i))) by (intros; ring).
    rewrite quad_scale. ring. }
  assert (L : rsum r (fun i => (xf s1 i - xf x i) * qp_grad r Gm bv 0 0 (xf x) i) = nth i1 s1 0 * (- w)).
  { rewrite (rsum_single r i1); [| exact Hi1 |].
    - rewrite Gx. unfold xf. rewrite (XZ i1 Pi1). ring.
    - intros i Hi Hne. destruct (nth i p false) eqn:Pi.
      + rewrite (support_stationary p x HS LP i Hi Pi). ring.
      + assert (nth i p1 false = false) by (unfold p1; rewrite nth_set_nth_other by exact Hne; exact Pi).
        unfold xf. rewrite (XZ i Pi), (SZ1 i H). ring. }
  rewrite Q', L in D.
  assert (EQ : Qd x s1 = nth i1 s1 0 * w) by lra.
  assert (Q0 : 0 <= Qd x s1) by apply Gpsd.
  assert (QP : 0 < Qd x s1).
  { destruct (vec_zero_dec r (fun i => xf x i - xf s1 i)) as [Z|E]; [|now apply PD].
    exfalso. pose proof (support_stationary p1 s1 HS1 LP1 i1 Hi1 P1i) as St.
    rewrite <- (qp_grad_ext r Gm bv 0 0 (xf x) (xf s1) i1 Hi1) in St; [lra|]. intros l Hl. specialize (Z l Hl). lra. }
  split; [|split; [lra | exact QP]]. nra.
Qed.

(* the termination test failed: some active coordinate has gradient > tol *)
Lemma done_false a g : as_done Rops tol a g = false -> exists j, nth j a false = true /\ (j < length g)%nat /\ tol < nth j g 0.
Proof.
  unfold as_done. intros H. apply orb_false_iff in H. destruct H as [_ H].
  destruct (vmin' Rops (map (fopp Rops) (select a g))) as [nm|] eqn:EV; [|discriminate].
  cbn [fleb fopp Rops] in H. apply Rleb_false in H.
  apply vmin'_attained in EV. apply in_map_iff in EV. destruct EV as (v & Ev & Hin). cbn [fopp Rops] in Ev.
  destruct (in_select_inv 0 _ _ _ Hin) as (j & Hj & Lj & _ & Ej). exists j. split; [exact Hj|]. split; [exact Lj|]. lra.
Qed.

Hypothesis Htol : 0 <= tol.
Hypothesis solve_total : forall p, length p = r -> sscat p <> None.

Lemma length_grad x : length x = r -> length (grad x) = r.
Proof. intros _. unfold gradient. rewrite length_map2, map_length. lia. Qed.

(* every outer iteration after the first strictly decreases the objective *)
Lemma body_decrease x p s2 p2 a2 : pinv x p -> as_done Rops tol (negmask p) (grad x) = false ->
  as_body Rops solve idf Utm UtU false x (grad x) p (negmask p) = Some (s2, p2, a2) -> fobj s2 < fobj x.
Proof.
  intros HP HD H. pose proof (pinv_xinv x p HP) as HI. pose proof HP as (HS & LP & Hpos). pose proof HI as (LX & _ & X0 & XZ).
  destruct (done_false _ _ HD) as (j & Aj & Lj & Gj). rewrite length_grad in Lj by exact LX.
  assert (Pj : nth j p false = false).
  { rewrite nth_negmask in Aj by lia. apply negb_true_iff in Aj. rewrite <- Aj. apply nth_indep. lia. }
  assert (Hne : grad x <> []) by (intros E; pose proof (length_grad x LX) as L; rewrite E in L; cbn in L; lia).
  destruct (argmax_spec (grad x) Hne) as [Li1 Hmax]. rewrite length_grad in Li1, Hmax by exact LX.
  set (i1 := argmax Rops (grad x)) in *.
  assert (Hw : 0 < nth i1 (grad x) 0) by (pose proof (Hmax j Lj); lra).
  assert (Pi1 : nth i1 p false = false).
  { destruct (nth i1 p false) eqn:E; [|reflexivity]. exfalso.
    pose proof (support_stationary p x HS LP i1 Li1 E) as St. rewrite grad_entry in Hw by assumption. lra. }
  unfold as_body in H. cbv zeta in H. cbn [negb orb] in H. fold i1 in H.
  set (p1 := set_nth i1 true p) in *.
  assert (LP1 : length p1 = r) by (unfold p1; now rewrite set_nth_length).
  destruct (sscat p1) as [s1|] eqn:E1; [|exfalso; exact (solve_total p1 LP1 E1)].
  destruct (new_index x p i1 s1 HP Li1 Pi1 Hw E1) as (S1pos & Fdec & QP).
  assert (I1 : xinv Utm x p1).
  { split; [exact LX|]. split; [exact LP1|]. split; [exact X0|]. intros i Hi. apply XZ. eapply set_true_sub; eauto. }
  destruct (vmin' Rops (select p1 s1)) as [mn|] eqn:EM; [|discriminate].
  destruct (fleb Rops mn (f0 Rops)) eqn:EF.
  - destruct (inner _ _ _ _ _ _ _ _ _) as [[[x2' s2'] p2']|] eqn:EI; [|discriminate]. inversion H; subst s2' p2 a2. clear H.
    remember (length p1) as fl eqn:EL. destruct fl as [|f']; [lia|].
    apply (inner_strict f' x s1 p1 x2' s2 p2' I1 E1); [| exact QP | exact EI].
    intros i Hi Hs. destruct (Nat.eq_dec i i1) as [->|Hn]; [lra|].
    apply Hpos. unfold p1 in Hi. now rewrite nth_set_nth_other in Hi by exact Hn.
  - inversion H; subst. exact Fdec.
Qed.

(* ---------- counting: the passive sets cannot repeat ---------- *)
Definition PhiA (q : list bool) : R := match sscat q with Some s => fobj s | None => 0 end.
Definition below (q : list bool) : nat :=
  length (filter (fun q' => if Rlt_dec (PhiA q') (PhiA q) then true else false) (all_masks r)).
Lemma below_decreases q q2 : length q2 = r -> PhiA q2 < PhiA q -> (below q2 < below q)%nat.
Proof.
  intros L H. unfold below. apply (filter_length_strict _ _ (all_masks r) q2).
  - intros q'. destruct (Rlt_dec (PhiA q') (PhiA q2)); [|discriminate]. intros _. destruct (Rlt_dec (PhiA q') (PhiA q)); [reflexivity | lra].
  - now apply all_masks_in.
  - destruct (Rlt_dec (PhiA q2) (PhiA q)); [reflexivity | lra].
  - destruct (Rlt_dec (PhiA q2) (PhiA q2)); [lra | reflexivity].
Qed.
Lemma below_bound q : (below q <= 2 ^ r)%nat.
Proof. unfold below. rewrite <- all_masks_length. generalize (all_masks r). intros l. induction l as [|a l IH]; cbn [filter length]; [lia|]. destruct (Rlt_dec _ _); cbn [length]; lia. Qed.

(* one outer iteration from a state satisfying the invariant of the start (xinv) re-establishes pinv *)
Lemma body_pinv iter0 x g p s2 p2 a2 : xinv Utm x p ->
  as_body Rops solve idf Utm UtU iter0 x g p (negmask p) = Some (s2, p2, a2) ->
  pinv s2 p2 /\ a2 = negmask p2 /\ map (fmax Rops (f0 Rops)) s2 = s2.
Proof.
  intros HI H. destruct (body_spec solve idf Utm UtU _ _ _ _ _ _ _ _ eq_refl H) as [HS HA].
  destruct (body_good solve Utm UtU _ _ _ _ _ _ _ _ HI H) as [HP LP].
  split; [|split; [exact HA | apply clip_nonneg, Forall_of_nth, HP]].
  split; [exact HS|]. split; [exact LP|]. exact (body_pos _ _ _ _ _ _ _ _ HI H).
Qed.

Theorem loop_never_out_of_budget fuel : forall x p y, pinv x p -> as_done Rops tol (negmask p) (grad x) = false ->
  (below p < fuel)%nat -> as_loop Rops solve idf Utm UtU tol fuel false x (grad x) p (negmask p) <> Some (y, false).
Proof.
  induction fuel as [|f IH]; intros x p y HP HD HB; [lia|].
  cbn [as_loop]. destruct (as_body Rops solve idf Utm UtU false x (grad x) p (negmask p)) as [[[s2 p2] a2]|] eqn:EB; [|discriminate].
  cbv zeta. destruct (body_pinv false x (grad x) p s2 p2 a2 (pinv_xinv x p HP) EB) as (HP2 & HA2 & HC).
  pose proof (body_decrease x p s2 p2 a2 HP HD EB) as Dec.
  rewrite HC. destruct (as_done Rops tol a2 (grad s2)) eqn:ED; [discriminate|].
  subst a2. apply IH; [exact HP2 | exact ED|].
  assert (below p2 < below p)%nat; [|lia].
  apply below_decreases; [apply HP2|]. unfold PhiA. destruct HP as (HS & _). destruct HP2 as (HS2 & _). rewrite HS, HS2. exact Dec.
Qed.

(* ---------- no exception escapes (tl.solve total on the blocks) ---------- *)
Lemma vmin'_some (l : list R) : l <> [] -> vmin' Rops l <> None.
Proof. destruct l; [congruence | discriminate]. Qed.

Lemma inner_total fuel : forall x s p mn, xinv Utm x p -> sscat p = Some s -> vmin' Rops (select p s) = Some mn -> mn <= 0 ->
  inner Rops solve idf Utm UtU fuel x s p <> None.
Proof.
  induction fuel as [|f IH]; intros x s p mn HI HS EM Hmn; [discriminate|].
  cbn [inner]. destruct (support_facts solve Utm UtU p s HS) as [LS SZ]. pose proof HI as (LX & LP & X0 & XZ).
  destruct (vmin' Rops (select (blocking Rops p s) (map2 (ratio Rops) x s))) as [alpha|] eqn:EA.
  - cbv zeta. destruct (step_facts solve Utm UtU alpha x s p HI HS EA) as (HI' & _ & _).
    set (x' := as_step Rops idf alpha p x s) in *. set (p' := posmask Rops x') in *.
    destruct (sscat p') as [s'|] eqn:ES; [|exfalso; apply (solve_total p'); [apply HI' | exact ES]].
    destruct (negb (anyb p')); [discriminate|].
    destruct (vmin' Rops (select p' s')) as [mn'|] eqn:EM'; [|discriminate].
    destruct (fltb Rops (f0 Rops) mn') eqn:EF; [discriminate|].
    apply (IH x' s' p' mn' HI' ES EM'). unfold fltb in EF. apply negb_false_iff in EF. apply fleb_R in EF. exact EF.
  - exfalso. revert EA. apply vmin'_some.
    pose proof EM as EM2. apply vmin'_attained in EM2. destruct (in_select_inv 0 _ _ _ EM2) as (k & Pk & Lk & Lk' & Ek).
    assert (Hin : In (nth k (map2 (ratio Rops) x s) 0) (select (blocking Rops p s) (map2 (ratio Rops) x s))).
    { apply in_select; [|rewrite length_map2; lia]. rewrite nth_blocking by lia. rewrite Pk. cbn [andb]. apply fleb_R. lra. }
    intros E. rewrite E in Hin. contradiction.
Qed.

Lemma body_total iter0 x g p a : xinv Utm x p -> length g = r -> (0 < r)%nat ->
  as_body Rops solve idf Utm UtU iter0 x g p a <> None.
Proof.
  intros HI Lg Hr. pose proof HI as (LX & LP & X0 & XZ). unfold as_body. cbv zeta.
  set (add := negb iter0 || forallb (is0 Rops) x).
  set (p1 := if add then set_nth (argmax Rops g) true p else p).
  assert (LP1 : length p1 = r) by (unfold p1; destruct add; [now rewrite set_nth_length | exact LP]).
  assert (I1 : xinv Utm x p1).
  { unfold p1. destruct add; [|exact HI].
    split; [exact LX|]. split; [now rewrite set_nth_length|]. split; [exact X0|]. intros i Hi. apply XZ. eapply set_true_sub; eauto. }
  assert (Hk : exists k, (k < r)%nat /\ nth k p1 false = true).
  { unfold p1. destruct add eqn:EA.
    - assert (Hne : g <> []) by (intros E; rewrite E in Lg; cbn in Lg; lia).
      destruct (argmax_spec g Hne) as [Li _]. exists (argmax Rops g). split; [lia|]. apply nth_set_nth_same. lia.
    - unfold add in EA. apply orb_false_iff in EA. destruct EA as [_ EA].
      assert (Hex : exists v, In v x /\ is0 Rops v = false).
      { clear -EA. induction x as [|v x' IHx]; [discriminate|]. cbn [forallb] in EA. apply andb_false_iff in EA.
        destruct EA as [E|E]; [exists v; split; [now left | exact E]|]. destruct (IHx E) as (u & Hu & Eu). exists u. split; [now right | exact Eu]. }
      destruct Hex as (v & Hv & Ev). destruct (In_nth x v 0 Hv) as (k & Lk & Ek). exists k. split; [lia|].
      destruct (nth k p false) eqn:Pk; [reflexivity|]. exfalso. rewrite (XZ k Pk) in Ek. subst v.
      apply is0_R_false in Ev. lra. }
  destruct Hk as (k & Lk & Pk).
  destruct (sscat p1) as [s1|] eqn:E1; [|exfalso; exact (solve_total p1 LP1 E1)].
  destruct (support_facts solve Utm UtU p1 s1 E1) as [LS1 _].
  destruct (vmin' Rops (select p1 s1)) as [mn|] eqn:EM.
  - destruct (fleb Rops mn (f0 Rops)) eqn:EF; [|discriminate].
    apply fleb_R in EF. cbn [f0 Rops] in EF.
    pose proof (inner_total (length p1) x s1 p1 mn I1 E1 EM EF) as HT.
    destruct (inner Rops solve idf Utm UtU (length p1) x s1 p1) as [[[x2 s2] p2]|]; [discriminate | congruence].
  - exfalso. revert EM. apply vmin'_some. intros E.
    pose proof (in_select 0 p1 s1 k Pk ltac:(lia)) as Hin. rewrite E in Hin. contradiction.
Qed.

Lemma loop_total fuel : forall iter0 x p, xinv Utm x p -> (0 < r)%nat ->
  as_loop Rops solve idf Utm UtU tol fuel iter0 x (grad x) p (negmask p) <> None.
Proof.
  induction fuel as [|f IH]; intros iter0 x p HI Hr; [discriminate|].
  cbn [as_loop]. pose proof HI as (LX & _).
  pose proof (body_total iter0 x (grad x) p (negmask p) HI (length_grad x LX) Hr) as HT.
  destruct (as_body Rops solve idf Utm UtU iter0 x (grad x) p (negmask p)) as [[[s2 p2] a2]|] eqn:EB; [|congruence].
  cbv zeta. destruct (body_pinv iter0 x (grad x) p s2 p2 a2 HI EB) as (HP2 & HA2 & HC).
  rewrite HC. destruct (as_done Rops tol a2 (grad s2)); [discriminate|]. subst a2.
  apply IH; [now apply pinv_xinv | exact Hr].
Qed.
End Term.

(* ---------- the whole function ---------- *)
Section Top.
Variables (solve : list (list R) -> list R -> option (list R)).
Variables (Utm : list R) (UtU : list (list R)) (tol : R).
Notation r := (length Utm).
Hypothesis LG : length UtU = r.
Hypothesis WG : forall i, (i < r)%nat -> length (nth i UtU []) = r.
Hypothesis solve_ok : forall A b ps, solve A b = Some ps -> Forall2 (fun row bi => dot Rops row ps = bi) A b.
Hypothesis Gsym : forall i j, Gm UtU i j = Gm UtU j i.
Hypothesis PD : forall d : nat -> R, (exists i, (i < r)%nat /\ d i <> 0) -> 0 < quad r (Gm UtU) d.
Hypothesis Htol : 0 <= tol.
Hypothesis solve_total : forall p, length p = r -> solve_scatter Rops solve Utm UtU p <> None.
Notation idf := (fun x : R => x).

Lemma start_xinv (x0 : option (list R)) :
  match x0 with Some x => length x = r /\ Forall (fun v => 0 <= v) x | None => True end ->
  let x := match x0 with Some x => x | None => map (fun _ => f0 Rops) (nth 0 UtU []) end in
  xinv Utm x (posmask Rops x).
Proof.
  intros Hx0 x.
  assert (LX : length x = r).
  { unfold x. destruct x0 as [x1|]; [apply Hx0|]. rewrite map_length.
    destruct Utm as [|u Utm']; [destruct UtU; [reflexivity | discriminate] | apply (WG 0%nat); cbn; lia]. }
  assert (X0 : forall i, 0 <= nth i x 0).
  { intros i. unfold x. destruct x0 as [x1|].
    - destruct Hx0 as [_ HF]. destruct (lt_dec i (length x1)) as [L|L]; [|rewrite nth_overflow by lia; lra].
      rewrite Forall_forall in HF. apply HF. now apply nth_In.
    - destruct (lt_dec i (length (nth 0 UtU []))) as [L|L]; [rewrite (nth_map' _ _ i 0 0) by exact L; cbn; lra | rewrite nth_overflow by (rewrite map_length; lia); lra]. }
  split; [exact LX|]. split; [rewrite length_posmask; exact LX|]. split; [exact X0|].
  intros i Hi. destruct (lt_dec i (length x)) as [L|L]; [|apply nth_overflow; lia].
  rewrite nth_posmask in Hi by exact L. unfold fltb in Hi. cbn [fleb Rops] in Hi. apply negb_false_iff, Rleb_true in Hi.
  pose proof (X0 i). lra.
Qed.

(* the budget never runs out: with more than 2^r + 1 iterations the loop is never left with flag false *)
Theorem active_set_never_out_of_budget x0 n_iter_max y :
  match x0 with Some x => length x = r /\ Forall (fun v => 0 <= v) x | None => True end ->
  (2 ^ r + 1 < n_iter_max)%nat ->
  active_set_run Rops solve idf Utm UtU tol x0 n_iter_max <> Some (y, false).
Proof.
  intros Hx0 Hn. unfold active_set_run. pose proof (start_xinv x0 Hx0) as HI. cbv zeta in HI.
  set (x := match x0 with Some x => x | None => map (fun _ => f0 Rops) (nth 0 UtU []) end) in *.
  destruct n_iter_max as [|fuel]; [lia|]. cbn [as_loop].
  destruct (as_body Rops solve idf Utm UtU true x (gradient Rops Utm UtU x) (posmask Rops x) (negmask (posmask Rops x))) as [[[s2 p2] a2]|] eqn:EB; [|discriminate].
  cbv zeta. destruct (body_pinv solve Utm UtU LG true x _ _ s2 p2 a2 HI EB) as (HP2 & HA2 & HC).
  rewrite HC. destruct (as_done Rops tol a2 _) eqn:ED; [discriminate|]. subst a2.
  apply (loop_never_out_of_budget solve Utm UtU tol LG WG solve_ok Gsym PD Htol solve_total fuel s2 p2 y HP2 ED).
  pose proof (below_bound solve Utm UtU LG p2). lia.
Qed.

(* END TO END: with a budget of more than 2^r + 1 iterations active_set_nnls RETURNS (no exception escapes, the budget does not
   run out), through its termination test, a point satisfying the KKT conditions within tol; with tol = 0 it is the global
   minimiser of u'(UtU)u/2 - Utm'u over the non-negative orthant *)
Theorem active_set_terminates_kkt x0 n_iter_max : (0 < r)%nat ->
  match x0 with Some x => length x = r /\ Forall (fun v => 0 <= v) x | None => True end ->
  (2 ^ r + 1 < n_iter_max)%nat ->
  exists y, active_set_nnls Rops solve idf Utm UtU tol x0 n_iter_max = Some y /\
    active_set_run Rops solve idf Utm UtU tol x0 n_iter_max = Some (y, true) /\ length y = r /\
    (exists p, length p = r /\ forall i, (i < r)%nat ->
       0 <= nth i y 0 /\
       (nth i p true = true -> nth i (gradient Rops Utm UtU y) 0 = 0) /\
       (nth i p true = false -> nth i y 0 = 0 /\ nth i (gradient Rops Utm UtU y) 0 <= tol)) /\
    (tol = 0 -> forall z : nat -> R, (forall i, (i < r)%nat -> 0 <= z i) ->
       qp_f r (Gm UtU) (bv Utm) 0 0 (xf y) <= qp_f r (Gm UtU) (bv Utm) 0 0 z).
Proof.
  intros Hr Hx0 Hn. pose proof (start_xinv x0 Hx0) as HI. cbv zeta in HI.
  pose proof (active_set_never_out_of_budget x0 n_iter_max) as NB.
  unfold active_set_nnls. unfold active_set_run in *.
  set (x := match x0 with Some x => x | None => map (fun _ => f0 Rops) (nth 0 UtU []) end) in *.
  pose proof (loop_total solve Utm UtU tol LG solve_total n_iter_max true x (posmask Rops x) HI Hr) as LT.
  destruct (as_loop Rops solve idf Utm UtU tol n_iter_max true x (gradient Rops Utm UtU x) (posmask Rops x) (negmask (posmask Rops x)))
    as [[y fl]|] eqn:EL; [|congruence].
  destruct fl; [|exfalso; exact (NB y Hx0 Hn eq_refl)].
  exists y. split; [reflexivity|]. split; [reflexivity|].
  destruct (loop_good solve Utm UtU tol n_iter_max true x _ _ _ y eq_refl HI EL) as (s & p & HS & Hy & HD & HF & LP).
  pose proof (exit_state_kkt solve Utm UtU tol LG solve_ok y s p LP WG HS Hy HD HF) as K.
  assert (Ly : length y = r) by (rewrite Hy, map_length; destruct (support_facts solve Utm UtU p s HS); lia).
  split; [exact Ly|]. split; [exists p; split; [exact LP | exact K]|].
  intros T0 z Hz. apply kkt_optimal; [exact Gsym | apply (Gpsd Utm UtU PD) | lra | | exact Hz].
  intros i Hi. destruct (K i Hi) as (K1 & K2 & K3).
  pose proof (grad_entry Utm UtU LG WG y i Ly Hi) as GE. unfold xf at 1 3.
  destruct (nth i p true) eqn:Pi.
  - specialize (K2 eq_refl). split; [exact K1|]. split; [lra|]. replace (qp_grad r (Gm UtU) (bv Utm) 0 0 (xf y) i) with 0 by lra. ring.
  - destruct (K3 eq_refl) as [Y0 GL]. split; [exact K1|]. split; [lra|]. rewrite Y0. ring.
Qed.
End Top.

(* ---------- non-vacuity over R (also: the contract of tl.solve and a run reaching the termination test hold JOINTLY) ---------- *)
Definition solve1 (A : list (list R)) (b : list R) : option (list R) :=
  match A, b with
  | [], [] => Some []
  | [[a]], [v] => if Req_EM_T a 0 then None else Some [v / a]
  | _, _ => None
  end.
Lemma solve1_ok : forall A b ps, solve1 A b = Some ps -> Forall2 (fun row bi => dot Rops row ps = bi) A b.
Proof.
  intros A b ps H. destruct A as [|[|a [|]] [|]]; destruct b as [|v [|]]; cbn in H; try discriminate.
  - constructor.
  - destruct (Req_EM_T a 0) as [E|E]; [discriminate|]. injection H as <-. constructor; [|constructor]. cbn. field. exact E.
Qed.
Lemma ex1_hyps :
  length [[1]] = length [1] /\ (forall i, (i < length [1])%nat -> length (nth i [[1]] []) = length [1]) /\
  (forall i j, Gm [[1]] i j = Gm [[1]] j i) /\
  (forall d : nat -> R, (exists i, (i < length [1])%nat /\ d i <> 0) -> 0 < quad (length [1]) (Gm [[1]]) d) /\
  (forall p, length p = length [1] -> solve_scatter Rops solve1 [1] [[1]] p <> None).
Proof.
  split; [reflexivity|]. split; [intros i Hi; destruct i; [reflexivity | cbn in Hi; lia]|].
  split.
  - intros i j. unfold Gm. destruct i as [|i]; destruct j as [|j]; cbn; try reflexivity;
      repeat (match goal with |- context [match ?n with O => _ | S _ => _ end] => destruct n end; cbn; try reflexivity).
  - split.
    + intros d (i & Hi & Hd). cbn in Hi. assert (i = 0%nat) by lia. subst i. unfold quad, Gm. cbn.
      assert (0 < d 0%nat * d 0%nat) by nra. lra.
    + intros p Hp. destruct p as [|b [|]]; cbn in Hp; try lia. unfold solve_scatter, sub_block. destruct b; cbn.
      * destruct (Req_EM_T 1 0) as [E|E]; [lra | discriminate].
      * discriminate.
Qed.
Lemma ex1_terminates : forall tol, 0 <= tol -> exists y,
  active_set_run Rops solve1 (fun v => v) [1] [[1]] tol None 4 = Some (y, true).
Proof.
  intros tol Ht. destruct ex1_hyps as (LG & WG & GS & PD & ST).
  destruct (active_set_terminates_kkt solve1 [1] [[1]] tol LG WG solve1_ok GS PD Ht ST None 4 ltac:(cbn; lia) I ltac:(cbn; lia)) as (y & _ & H & _).
  exists y. exact H.
Qed.
