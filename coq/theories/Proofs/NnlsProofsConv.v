(* Towards "run to convergence": the quantitative convergence argument of the HALS pass (block coordinate descent).
   (1) telescoping the sufficient decrease over passes: objective after M passes + the sum of the weighted squared
       steps of these passes <= objective at the start (per column and summed over the columns);
   (2) with a KKT point X as lower bound (C13_kkt_optimal) the squared steps are summable, uniformly in M, and some
       pass among the first M has weighted squared step <= (Phi(V0) - Phi(X)) / M;
   (3) a pass that moves V by little ends at an approximate KKT point: at W = pass V the KKT residuals of entry (k, j)
       are bounded by D = sum_l |UtU[k,l]| |W[l,j] - V[l,j]|  (g >= -D, |(W - eps) g| <= (W - eps) D);
   (4) together: among the first M passes there is one whose result has KKT residuals D with
       D^2 * w * M <= (sum_l UtU[k,l]^2) * (Phi(V0) - Phi(X)): the best iterate is KKT within O(1/sqrt M). *)
From Coq Require Import List Arith Bool Reals Lra Lia Psatz.
From TLV Require Import Base.Ops Base.PyList Base.Tensor Base.RSum Model.Nnls Proofs.NnlsProofs Proofs.NnlsProofsDescent Proofs.NnlsProofsExamples.
Import ListNotations.
Open Scope R_scope.

Lemma iterl_S {A} m (f : A -> A) : forall x, iterl (S m) f x = f (iterl m f x).
Proof. induction m; intros x; [reflexivity|]. cbn [iterl] in *. now rewrite IHm. Qed.

(* the smallest of M non-negative... (no sign needed) terms is at most their mean *)
Lemma rsum_argmin M (f : nat -> R) : (0 < M)%nat -> exists m, (m < M)%nat /\ INR M * f m <= rsum M f.
Proof.
  induction M as [|M IH]; intros HM; [lia|].
  destruct M as [|M'].
  - exists 0%nat. split; [lia|]. cbn [rsum INR]. lra.
  - destruct IH as (m & Hm & Hle); [lia|].
    rewrite S_INR. cbn [rsum] in *.
    destruct (Rle_dec (f m) (f (S M'))) as [H|H].
    + exists m. split; [lia|]. lra.
    + exists (S M'). split; [lia|].
      assert (0 <= INR (S M')) by apply pos_INR.
      assert (INR (S M') * f (S M') <= INR (S M') * f m) by (apply Rmult_le_compat_l; lra).
      cbn [rsum] in Hle. lra.
Qed.

Lemma rsum_abs n f : Rabs (rsum n f) <= rsum n (fun i => Rabs (f i)).
Proof.
  induction n as [|n IH]; cbn [rsum]; [rewrite Rabs_R0; lra|].
  eapply Rle_trans; [apply Rabs_triang|]. lra.
Qed.

Lemma rsum_ge_term n (f : nat -> R) j : (forall i, (i < n)%nat -> 0 <= f i) -> (j < n)%nat -> f j <= rsum n f.
Proof.
  induction n as [|n' IH]; intros Hnn Hj; [lia|]. cbn [rsum].
  assert (0 <= rsum n' f) by (apply rsum_nonneg; intros; apply Hnn; lia).
  assert (0 <= f n') by (apply Hnn; lia).
  destruct (Nat.eq_dec j n') as [->|Hne]; [lra|].
  assert (f j <= rsum n' f) by (apply IH; [intros; apply Hnn; lia | lia]). lra.
Qed.

Lemma pow2_Rabs x : (Rabs x)^2 = x^2.
Proof. rewrite <- !Rsqr_pow2. now rewrite <- Rsqr_abs. Qed.

(* the gradient is affine *)
Lemma qp_grad_diff n (G : nat -> nat -> R) b l1 l2 (v w : nat -> R) i :
  qp_grad n G b l1 l2 w i - qp_grad n G b l1 l2 v i = rsum n (fun l => G i l * (w l - v l)) + 2 * l2 * (w i - v i).
Proof.
  unfold qp_grad.
  rewrite (rsum_ext n (fun l => G i l * (w l - v l)) (fun l => G i l * w l - G i l * v l)) by (intros; ring).
  rewrite rsum_sub. ring.
Qed.

Lemma qp_grad_ext n (G : nat -> nat -> R) b l1 l2 (v w : nat -> R) i : (i < n)%nat -> (forall l, (l < n)%nat -> v l = w l) ->
  qp_grad n G b l1 l2 v i = qp_grad n G b l1 l2 w i.
Proof. intros Hi H. unfold qp_grad. rewrite (H i Hi). f_equal. f_equal. f_equal. apply rsum_ext. intros l Hl. now rewrite H. Qed.

(* one coordinate update: at the updated point the coordinate's KKT conditions hold exactly *)
Lemma hals_new_coord_kkt n (G : nat -> nat -> R) b l1 l2 eps (v : nat -> R) k : (k < n)%nat -> 0 < G k k + 2 * l2 ->
  let t := hals_new n G b l1 l2 eps v k in
  let g := qp_grad n G b l1 l2 (updv v k t) k in
  eps <= t /\ 0 <= g /\ (t - eps) * g = 0.
Proof.
  intros Hk Ha t g.
  assert (Eg : g = qp_grad n G b l1 l2 v k + (G k k + 2 * l2) * (t - v k)).
  { assert (D := qp_grad_diff n G b l1 l2 v (updv v k t) k). fold g in D.
    assert (S1 : rsum n (fun l => G k l * (updv v k t l - v l)) = G k k * (t - v k)).
    { rewrite (rsum_single n k); [| exact Hk |].
      - unfold updv. destruct (Nat.eq_dec k k); [reflexivity | congruence].
      - intros i _ Hi. unfold updv. destruct (Nat.eq_dec i k); [congruence | ring]. }
    rewrite S1 in D. unfold updv in D at 1. destruct (Nat.eq_dec k k); [|congruence]. lra. }
  set (a := G k k + 2 * l2) in *. set (g0 := qp_grad n G b l1 l2 v k) in *.
  assert (Hq : b k - rsum n (fun j => G k j * v j) + G k k * v k - l1 = a * v k - g0) by (unfold g0, qp_grad, a; ring).
  assert (Hs : (a * v k - g0) / a = v k - g0 / a) by (field; lra).
  assert (Ht : t = if Rle_dec eps (v k - g0 / a) then v k - g0 / a else eps).
  { unfold t, hals_new. cbv zeta. fold a. rewrite Hq, Hs. reflexivity. }
  assert (Hga : g0 / a * a = g0) by (field; lra).
  destruct (Rle_dec eps (v k - g0 / a)) as [H|H].
  - assert (g = 0) by (rewrite Eg, Ht; lra). split; [lra|]. split; [lra|]. rewrite H0. ring.
  - assert (0 < g0 + a * (eps - v k)) by nra. split; [lra|]. split; [rewrite Eg, Ht; lra|]. rewrite Ht. ring.
Qed.

Section Conv.
Variables (UtM UtU : mat) (r n : nat) (o : @hopts R).
Hypothesis WG : wfm r r UtU.
Hypothesis WB : wfm r n UtM.
Hypothesis NZ : h_nz o = false.
Notation G := (Gf UtU).
Notation eps := (h_eps o).
Hypothesis Gsym : forall i j, G i j = G j i.
Hypothesis Hden : forall k, (k < r)%nat -> G k k <> 0 -> 0 < G k k + 2 * l2of o.
Notation obj j := (qp_f r G (bf UtM j) (l1of o) (l2of o)).
Notation grad j := (qp_grad r G (bf UtM j) (l1of o) (l2of o)).
Notation step := (hals_step Rops UtM UtU n o).
Notation pass := (hals_pass Rops UtM UtU n o).
Notation foldp := (fold_left (hals_step Rops UtM UtU n o)).
Notation wk k := (G k k / 2 + l2of o).
Notation feas V := (forall i j, (i < r)%nat -> (j < n)%nat -> eps <= Mget V i j).

(* weighted squared step of the pass from V, column j *)
Definition stepsq (V : mat) (j : nat) : R := rsum r (fun k => wk k * (Mget (pass V) k j - Mget V k j)^2).
(* total objective and total squared step over the columns *)
Definition Phi (V : mat) : R := rsum n (fun j => obj j (colf V j)).
Definition stepsq_tot (V : mat) : R := rsum n (fun j => stepsq V j).

Lemma stepsq_nonneg V j : (forall k, (k < r)%nat -> 0 <= wk k) -> 0 <= stepsq V j.
Proof. intros Hw. apply rsum_nonneg. intros k Hk. apply Rmult_le_pos; [now apply Hw | apply pow2_ge_0]. Qed.

(* (1) telescoping over passes *)
Theorem iterates_steps_telescope M : forall V j, wfm r n V -> feas V -> (j < n)%nat ->
  obj j (colf (iterl M pass V) j) + rsum M (fun m => stepsq (iterl m pass V) j) <= obj j (colf V j).
Proof.
  induction M as [|M IH]; intros V j W Hf Hj; [cbn [iterl rsum]; lra|].
  rewrite rsum_shift. cbn [iterl].
  assert (W' : wfm r n (pass V)) by now apply (pass_wfm UtM UtU r n o WB NZ).
  assert (Hf' : feas (pass V)) by (apply (pass_feasible UtM UtU r n o WG WB NZ); assumption).
  pose proof (IH (pass V) j W' Hf' Hj) as H1.
  pose proof (pass_sufficient_decrease UtM UtU r n o WG WB NZ Gsym Hden V j W Hf Hj) as H2.
  unfold stepsq at 1. cbn [iterl]. lra.
Qed.

Theorem iterates_steps_telescope_tot M V : wfm r n V -> feas V ->
  Phi (iterl M pass V) + rsum M (fun m => stepsq_tot (iterl m pass V)) <= Phi V.
Proof.
  intros W Hf. unfold Phi, stepsq_tot. rewrite rsum_exchange, <- rsum_add.
  apply rsum_le. intros j Hj. now apply iterates_steps_telescope.
Qed.

(* (2) a KKT point X (epsilon = 0) bounds the objective below: the squared steps are summable uniformly in M *)
Section Bounded.
Hypothesis E0 : eps = 0.
Hypothesis Hl2 : 0 <= l2of o.
Hypothesis Gpsd : forall d, 0 <= quad r G d.
Variable X : mat.
Hypothesis XK : forall k j, (k < r)%nat -> (j < n)%nat ->
  0 <= Mget X k j /\ 0 <= grad j (colf X j) k /\ Mget X k j * grad j (colf X j) k = 0.

Lemma Phi_lower V : feas V -> Phi X <= Phi V.
Proof.
  intros Hf. apply rsum_le. intros j Hj. apply kkt_optimal; auto.
  - intros i Hi. apply XK; auto.
  - intros i Hi. unfold colf. rewrite <- E0. now apply Hf.
Qed.

Theorem steps_summable M V : wfm r n V -> feas V ->
  rsum M (fun m => stepsq_tot (iterl m pass V)) <= Phi V - Phi X.
Proof.
  intros W Hf. pose proof (iterates_steps_telescope_tot M V W Hf).
  assert (Phi X <= Phi (iterl M pass V)).
  { apply Phi_lower. apply (iterates_ge_eps UtM UtU r n o WG WB NZ); assumption. }
  lra.
Qed.

Theorem best_step_rate M V : (0 < M)%nat -> wfm r n V -> feas V ->
  exists m, (m < M)%nat /\ INR M * stepsq_tot (iterl m pass V) <= Phi V - Phi X.
Proof.
  intros HM W Hf. destruct (rsum_argmin M (fun m => stepsq_tot (iterl m pass V)) HM) as (m & Hm & Hle).
  exists m. split; [exact Hm|]. pose proof (steps_summable M V W Hf). cbv beta in Hle. lra.
Qed.
End Bounded.

(* (3) small step => approximate KKT *)
Hypothesis HG : forall k, (k < r)%nat -> G k k <> 0.

Lemma step_coord_kkt V k j : wfm r n V -> (k < r)%nat -> (j < n)%nat ->
  let U := step V k in
  eps <= Mget U k j /\ 0 <= grad j (colf U j) k /\ (Mget U k j - eps) * grad j (colf U j) k = 0.
Proof.
  intros W Hk Hj U.
  pose proof (hals_new_coord_kkt r G (bf UtM j) (l1of o) (l2of o) eps (colf V j) k Hk (Hden k Hk (HG k Hk))) as H.
  cbv zeta in H.
  assert (E1 : Mget U k j = hals_new r G (bf UtM j) (l1of o) (l2of o) eps (colf V j) k)
    by (apply (step_same UtM UtU r n o WG NZ); auto).
  assert (E2 : grad j (colf U j) k = grad j (updv (colf V j) k (hals_new r G (bf UtM j) (l1of o) (l2of o) eps (colf V j) k)) k).
  { apply qp_grad_ext; [exact Hk|]. intros l Hl. apply (step_col UtM UtU r n o WG NZ); auto. }
  rewrite E1, E2. exact H.
Qed.

Definition resid (W V : mat) (k j : nat) : R := rsum r (fun l => Rabs (G k l) * Rabs (Mget W l j - Mget V l j)).

Lemma resid_nonneg W V k j : 0 <= resid W V k j.
Proof. apply rsum_nonneg. intros l _. apply Rmult_le_pos; apply Rabs_pos. Qed.

Lemma fold_kkt_residual ks : forall V, NoDup ks -> (forall k, In k ks -> (k < r)%nat) -> wfm r n V ->
  forall k j, In k ks -> (j < n)%nat ->
  let W := foldp ks V in
  exists gt, eps <= Mget W k j /\ 0 <= gt /\ (Mget W k j - eps) * gt = 0 /\
             Rabs (grad j (colf W j) k - gt) <= resid W V k j.
Proof.
  induction ks as [|k0 ks IH]; intros V ND Hks W k j Hin Hj; [contradiction|].
  inversion ND as [|? ? Hnin ND']; subst. cbn [fold_left]. cbv zeta.
  set (U := step V k0). set (Wf := foldp ks U).
  assert (Hk0 : (k0 < r)%nat) by (apply Hks; now left).
  assert (WU : wfm r n U) by (apply (step_wfm UtM UtU r n o NZ); exact W).
  (* termwise: |G k l| |Wf_l - U_l| <= |G k l| |Wf_l - V_l| *)
  assert (T : forall k', rsum r (fun l => Rabs (G k' l) * Rabs (Mget Wf l j - Mget U l j)) <= resid Wf V k' j).
  { intros k'. apply rsum_le. intros l Hl. destruct (Nat.eq_dec l k0) as [->|Hne].
    - unfold Wf. rewrite (fold_row_other UtM UtU r n o NZ ks U k0 j Hnin).
      replace (Mget U k0 j - Mget U k0 j) with 0 by ring. rewrite Rabs_R0, Rmult_0_r.
      apply Rmult_le_pos; apply Rabs_pos.
    - unfold U at 1. rewrite (step_other UtM UtU n o NZ V k0 l j Hne). lra. }
  destruct Hin as [<-|Hin].
  - exists (grad j (colf U j) k0).
    destruct (step_coord_kkt V k0 j W Hk0 Hj) as (A1 & A2 & A3). fold U in A1, A2, A3.
    assert (EW : Mget Wf k0 j = Mget U k0 j) by (apply (fold_row_other UtM UtU r n o NZ); exact Hnin).
    rewrite EW. split; [exact A1|]. split; [exact A2|]. split; [exact A3|].
    rewrite qp_grad_diff. unfold colf at 3 4. rewrite EW.
    replace (2 * l2of o * (Mget U k0 j - Mget U k0 j)) with 0 by ring. rewrite Rplus_0_r.
    eapply Rle_trans; [apply rsum_abs|]. eapply Rle_trans; [|apply (T k0)].
    apply rsum_le. intros l Hl. unfold colf. rewrite Rabs_mult. lra.
  - destruct (IH U ND' (fun q Hq => Hks q (or_intror Hq)) WU k j Hin Hj) as (gt & B1 & B2 & B3 & B4).
    exists gt. fold Wf in B1, B3, B4. split; [exact B1|]. split; [exact B2|]. split; [exact B3|].
    eapply Rle_trans; [exact B4|]. apply T.
Qed.

(* at W = pass V the KKT residuals are bounded by the step: feasibility exactly, gradient >= -D, complementarity
   |(W - eps) g| <= (W - eps) D with D = sum_l |UtU[k,l]| |W[l,j] - V[l,j]| *)
Theorem pass_kkt_residual V k j : wfm r n V -> (k < r)%nat -> (j < n)%nat ->
  let W := pass V in let g := grad j (colf W j) k in let D := resid W V k j in
  eps <= Mget W k j /\ - D <= g /\ Rabs ((Mget W k j - eps) * g) <= (Mget W k j - eps) * D.
Proof.
  intros Wf Hk Hj. cbv zeta. rewrite (pass_unfold UtM UtU r n o WB).
  assert (Hin : In k (seq 0 r)) by (apply in_seq; lia).
  destruct (fold_kkt_residual (seq 0 r) V (seq_NoDup r 0) (in_seq_lt r) Wf k j Hin Hj) as (gt & A1 & A2 & A3 & A4).
  cbv zeta in A1, A3, A4.
  set (W := foldp (seq 0 r) V) in *. set (g := grad j (colf W j) k) in *. set (D := resid W V k j) in *.
  split; [exact A1|].
  assert (Hg : - D <= g - gt <= D) by (revert A4; unfold Rabs; destruct (Rcase_abs (g - gt)); intros; lra).
  split; [lra|].
  replace ((Mget W k j - eps) * g) with ((Mget W k j - eps) * (g - gt)) by (rewrite Rmult_minus_distr_l, A3; ring).
  rewrite Rabs_mult, (Rabs_pos_eq (Mget W k j - eps)) by lra.
  apply Rmult_le_compat_l; [lra | exact A4].
Qed.

(* D^2 <= (sum_l UtU[k,l]^2) * stepsq / w   when every weight UtU[l,l]/2 + ridge is >= w > 0 *)
Lemma resid_sq_le V k j (w : R) : 0 < w -> (forall l, (l < r)%nat -> w <= wk l) ->
  w * (resid (pass V) V k j)^2 <= rsum r (fun l => (G k l)^2) * stepsq V j.
Proof.
  intros Hw Hwk. unfold resid.
  pose proof (cauchy_schwarz r (fun l => Rabs (G k l)) (fun l => Rabs (Mget (pass V) l j - Mget V l j))) as CS. cbv beta in CS.
  rewrite (rsum_ext r (fun i => Rabs (G k i) ^ 2) (fun l => (G k l)^2)) in CS by (intros; apply pow2_Rabs).
  rewrite (rsum_ext r (fun i => Rabs (Mget (pass V) i j - Mget V i j) ^ 2) (fun l => (Mget (pass V) l j - Mget V l j)^2)) in CS
    by (intros; apply pow2_Rabs).
  assert (S1 : w * rsum r (fun l => (Mget (pass V) l j - Mget V l j)^2) <= stepsq V j).
  { rewrite <- rsum_scale. apply rsum_le. intros l Hl. apply Rmult_le_compat_r; [apply pow2_ge_0 | now apply Hwk]. }
  assert (0 <= rsum r (fun l => (G k l)^2)) by (apply rsum_nonneg; intros; apply pow2_ge_0).
  assert (0 <= rsum r (fun l => (Mget (pass V) l j - Mget V l j)^2)) by (apply rsum_nonneg; intros; apply pow2_ge_0).
  nra.
Qed.

(* (4) the best of the first M passes ends at a point whose KKT residuals are O(1/sqrt M) *)
Section Rate.
Hypothesis E0 : eps = 0.
Hypothesis Hl2 : 0 <= l2of o.
Hypothesis Gpsd : forall d, 0 <= quad r G d.
Variable X : mat.
Hypothesis XK : forall k j, (k < r)%nat -> (j < n)%nat ->
  0 <= Mget X k j /\ 0 <= grad j (colf X j) k /\ Mget X k j * grad j (colf X j) k = 0.
Variable w : R.
Hypothesis Hw : 0 < w.
Hypothesis Hwk : forall l, (l < r)%nat -> w <= wk l.

Theorem best_iterate_kkt M V : (0 < M)%nat -> wfm r n V -> feas V ->
  exists m, (m < M)%nat /\
    let V' := iterl m pass V in let W := iterl (S m) pass V in
    forall k j, (k < r)%nat -> (j < n)%nat ->
      let g := grad j (colf W j) k in let D := resid W V' k j in
      0 <= Mget W k j /\ - D <= g /\ Rabs (Mget W k j * g) <= Mget W k j * D /\
      INR M * (w * D^2) <= rsum r (fun l => (G k l)^2) * (Phi V - Phi X).
Proof.
  intros HM W Hf.
  destruct (best_step_rate E0 Hl2 Gpsd X XK M V HM W Hf) as (m & Hm & Hle).
  exists m. split; [exact Hm|]. cbv zeta. intros k j Hk Hj. rewrite iterl_S.
  set (V' := iterl m pass V) in *.
  assert (W' : wfm r n V') by (apply (iterl_feasible UtM UtU r n o WG WB NZ); assumption).
  destruct (pass_kkt_residual V' k j W' Hk Hj) as (A1 & A2 & A3). cbv zeta in A1, A2, A3.
  rewrite E0 in A1, A3. rewrite Rminus_0_r in A3.
  split; [exact A1|]. split; [exact A2|]. split; [exact A3|].
  pose proof (resid_sq_le V' k j w Hw Hwk) as R1.
  assert (Hs : stepsq V' j <= stepsq_tot V').
  { unfold stepsq_tot.
    assert (Hnn : forall j', (j' < n)%nat -> 0 <= stepsq V' j').
    { intros j' _. apply stepsq_nonneg. intros l Hl. pose proof (Hwk l Hl). lra. }
    apply (rsum_ge_term n (fun j0 => stepsq V' j0)); assumption. }
  assert (HS : 0 <= rsum r (fun l => (G k l)^2)) by (apply rsum_nonneg; intros; apply pow2_ge_0).
  assert (HM' : 0 <= INR M) by apply pos_INR.
  assert (B1 : INR M * (w * resid (pass V') V' k j ^ 2) <= INR M * (rsum r (fun l => (G k l)^2) * stepsq_tot V')).
  { apply Rmult_le_compat_l; [exact HM'|]. eapply Rle_trans; [exact R1|]. apply Rmult_le_compat_l; [exact HS | exact Hs]. }
  assert (B2 : rsum r (fun l => (G k l)^2) * (INR M * stepsq_tot V') <= rsum r (fun l => (G k l)^2) * (Phi V - Phi X))
    by (apply Rmult_le_compat_l; [exact HS | exact Hle]).
  lra.
Qed.
End Rate.
End Conv.

(* non-vacuity of the hypotheses of best_iterate_kkt (beyond those discharged by ex_all): the optimum of the 2 x 1 example
   in the form used here, a weight bound w = 1, a feasible non-optimal start (the zero matrix) *)
Definition ex_V0 : mat := [[0]; [0]].
Lemma ex_rate_hyps :
  (forall k j, (k < 2)%nat -> (j < 1)%nat ->
     0 <= Mget ex_V k j /\ 0 <= qp_grad 2 (Gf ex_UtU) (bf ex_UtM j) (l1of ex_o) (l2of ex_o) (colf ex_V j) k /\
     Mget ex_V k j * qp_grad 2 (Gf ex_UtU) (bf ex_UtM j) (l1of ex_o) (l2of ex_o) (colf ex_V j) k = 0) /\
  (forall l, (l < 2)%nat -> 1 <= Gf ex_UtU l l / 2 + l2of ex_o) /\
  wfm 2 1 ex_V0 /\ (forall i j, (i < 2)%nat -> (j < 1)%nat -> h_eps ex_o <= Mget ex_V0 i j) /\
  hals_pass Rops ex_UtM ex_UtU 1 ex_o ex_V0 <> ex_V0.
Proof.
  split; [|split; [|split; [|split]]].
  - intros k j Hk Hj. pose proof (ex_kkt k j Hk Hj) as H. cbv zeta in H. cbn [h_eps ex_o] in H.
    rewrite Rminus_0_r in H. exact H.
  - intros l Hl. small2 l; unfold Gf, mget, mrow, ex_UtU, l2of, ex_o; cbn; lra.
  - split; [reflexivity|]. intros i Hi. small2 i; reflexivity.
  - intros i j Hi Hj. small1 j. small2 i; unfold mget, mrow, ex_V0, ex_o; cbn; lra.
  - intros E.
    destruct ex_wf as (WG & WB & _).
    assert (W0 : wfm 2 1 ex_V0) by (split; [reflexivity | intros i Hi; small2 i; reflexivity]).
    assert (HG : forall k, (k < 2)%nat -> Gf ex_UtU k k <> 0 /\ 0 < Gf ex_UtU k k + 2 * l2of ex_o)
      by (intros k Hk; apply (ex_diag ex_o); [left; reflexivity | exact Hk]).
    pose proof (fixed_point_kkt ex_UtM ex_UtU 2 1 ex_o WG WB eq_refl ex_V0 W0 HG E 0%nat 0%nat ltac:(lia) ltac:(lia)) as H.
    cbv zeta in H. destruct H as (_ & H & _). revert H.
    unfold qp_grad, Gf, bf, colf, mget, mrow, ex_UtU, ex_UtM, ex_V0, l1of, l2of, ex_o. cbn. lra.
Qed.
