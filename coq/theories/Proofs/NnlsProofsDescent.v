(* Sufficient decrease of the HALS pass (the key inequality of the convergence analysis of block coordinate descent):
   every row update decreases the objective of every column by at least (UtU[k,k]/2 + ridge) * (change)^2, hence a
   whole pass by the weighted squared step; consequently the objective decreases STRICTLY unless the pass is a
   fixed point, i.e. (C13_hals_fixed_point_kkt) unless V is a KKT point. *)
From Coq Require Import List Arith Bool Reals Lra Lia Psatz.
From TLV Require Import Base.Ops Base.PyList Base.Tensor Base.RSum Model.Nnls Proofs.NnlsProofs.
Import ListNotations.
Open Scope R_scope.

(* one coordinate: moving a feasible v_k to the clipped minimiser t* gains at least (a/2) (t* - v_k)^2 *)
Lemma hals_coord_decrease n (G : nat -> nat -> R) b l1 l2 eps (v : nat -> R) k :
  (forall i j, G i j = G j i) -> (k < n)%nat -> 0 < G k k + 2 * l2 -> eps <= v k ->
  let t := hals_new n G b l1 l2 eps v k in
  qp_f n G b l1 l2 (updv v k t) <= qp_f n G b l1 l2 v - (G k k / 2 + l2) * (t - v k)^2.
Proof.
  intros Gsym Hk Ha Hv t.
  assert (E : qp_f n G b l1 l2 (updv v k t) - qp_f n G b l1 l2 v
              = (t - v k) * qp_grad n G b l1 l2 v k + (G k k / 2 + l2) * (t - v k)^2) by (apply qp_coord; assumption).
  set (a := G k k + 2 * l2) in *. set (g := qp_grad n G b l1 l2 v k) in *.
  assert (Hq : b k - rsum n (fun j => G k j * v j) + G k k * v k - l1 = a * v k - g) by (unfold g, qp_grad, a; ring).
  assert (Hs : (a * v k - g) / a = v k - g / a) by (field; lra).
  assert (Hh : G k k / 2 + l2 = a / 2) by (unfold a; field). rewrite Hh in *.
  (* first-order optimality of t over [eps, inf): (v_k - t) (g + a (t - v_k)) >= 0 *)
  assert (FO : 0 <= (v k - t) * (g + a * (t - v k))).
  { unfold t, hals_new. cbv zeta. fold a. rewrite Hq, Hs. destruct (Rle_dec eps (v k - g / a)) as [H|H].
    - replace (g + a * (v k - g / a - v k)) with 0 by (field; lra). lra.
    - assert (g / a * a = g) by (field; lra). assert (0 < g + a * (eps - v k)) by nra. apply Rmult_le_pos; lra. }
  nra.
Qed.

Section Descent.
Variables (UtM UtU : mat) (r n : nat) (o : @hopts R).
Hypothesis WG : wfm r r UtU.
Hypothesis WB : wfm r n UtM.
Hypothesis NZ : h_nz o = false.
Notation G := (Gf UtU).
Notation eps := (h_eps o).
Hypothesis Gsym : forall i j, G i j = G j i.
Hypothesis Hden : forall k, (k < r)%nat -> G k k <> 0 -> 0 < G k k + 2 * l2of o.
Notation obj j := (qp_f r G (bf UtM j) (l1of o) (l2of o)).
Notation step := (hals_step Rops UtM UtU n o).
Notation wk k := (G k k / 2 + l2of o).

(* one row update *)
Lemma step_decrease V k j : wfm r n V -> (k < r)%nat -> (j < n)%nat -> eps <= Mget V k j ->
  obj j (colf (step V k) j) <= obj j (colf V j) - wk k * (Mget (step V k) k j - Mget V k j)^2.
Proof.
  intros W Hk Hj Hf. destruct (Req_dec (G k k) 0) as [E|E].
  - rewrite (step_zero UtM UtU n o V k E). replace (Mget V k j - Mget V k j) with 0 by ring. lra.
  - rewrite (qp_f_ext UtU r o _ _ (updv (colf V j) k (hals_new r G (bf UtM j) (l1of o) (l2of o) eps (colf V j) k)))
      by (intros; now apply (step_col UtM UtU r n o WG NZ)).
    rewrite (step_same UtM UtU r n o WG NZ V k j W Hk Hj E).
    apply (hals_coord_decrease r G (bf UtM j) (l1of o) (l2of o) eps (colf V j) k Gsym Hk (Hden k Hk E) Hf).
Qed.

Fixpoint lsum (f : nat -> R) (ks : list nat) : R := match ks with [] => 0 | k :: ks' => f k + lsum f ks' end.
Lemma lsum_ext f g ks : (forall k, In k ks -> f k = g k) -> lsum f ks = lsum g ks.
Proof. induction ks as [|k ks IH]; intros H; cbn [lsum]; [reflexivity|]. rewrite (H k) by now left. rewrite IH; [reflexivity|]. intros; apply H; now right. Qed.
Lemma lsum_app f a b : lsum f (a ++ b) = lsum f a + lsum f b.
Proof. induction a as [|k a IH]; cbn [lsum app]; [ring | rewrite IH; ring]. Qed.
Lemma lsum_seq f m : lsum f (seq 0 m) = rsum m f.
Proof. induction m as [|m IH]; [reflexivity|]. rewrite seq_S, lsum_app, IH. cbn [lsum rsum plus]. ring. Qed.

Notation foldp := (fold_left (hals_step Rops UtM UtU n o)).

(* any sequence of distinct row updates from a feasible V *)
Lemma fold_decrease ks : forall V j, NoDup ks -> wfm r n V -> (forall k, In k ks -> (k < r)%nat) -> (j < n)%nat ->
  (forall i, (i < r)%nat -> rowge n o V i) ->
  obj j (colf (foldp ks V) j) <= obj j (colf V j) - lsum (fun k => wk k * (Mget (foldp ks V) k j - Mget V k j)^2) ks.
Proof.
  induction ks as [|k ks IH]; intros V j ND W Hks Hj Hf; cbn [fold_left lsum]; [lra|].
  inversion ND as [|? ? Hnin ND']; subst.
  assert (Hk : (k < r)%nat) by (apply Hks; now left).
  assert (W' : wfm r n (step V k)) by now apply (step_wfm UtM UtU r n o NZ).
  assert (Hf' : forall i, (i < r)%nat -> rowge n o (step V k) i).
  { intros i Hi. apply (fold_ge UtM UtU r n o WG NZ [k]); [exact W | intros ? [<-|[]]; auto | exact Hi | left; now apply Hf]. }
  pose proof (IH (step V k) j ND' W' (fun q Hq => Hks q (or_intror Hq)) Hj Hf') as H1.
  pose proof (step_decrease V k j W Hk Hj (Hf k Hk j Hj)) as H2.
  rewrite <- (fold_row_other UtM UtU r n o NZ ks (step V k) k j Hnin) in H2.
  rewrite (lsum_ext _ (fun q => wk q * (Mget (foldp ks (step V k)) q j - Mget V q j)^2)) in H1.
  2:{ intros q Hq. rewrite (step_other UtM UtU n o NZ V k q j); [reflexivity|]. intros ->. contradiction. }
  lra.
Qed.

(* SUFFICIENT DECREASE of a whole pass *)
Theorem pass_sufficient_decrease V j : wfm r n V -> (forall i j', (i < r)%nat -> (j' < n)%nat -> eps <= Mget V i j') -> (j < n)%nat ->
  obj j (colf (hals_pass Rops UtM UtU n o V) j)
  <= obj j (colf V j) - rsum r (fun k => wk k * (Mget (hals_pass Rops UtM UtU n o V) k j - Mget V k j)^2).
Proof.
  intros W Hf Hj. rewrite (pass_unfold UtM UtU r n o WB). rewrite <- lsum_seq.
  apply fold_decrease; auto using seq_NoDup.
  - intros k Hk. apply in_seq in Hk. lia.
  - intros i Hi j' Hj'. now apply Hf.
Qed.

Lemma rsum_nonneg_zero m (f : nat -> R) : (forall i, (i < m)%nat -> 0 <= f i) -> rsum m f <= 0 -> forall i, (i < m)%nat -> f i = 0.
Proof.
  induction m as [|m IH]; intros Hp Hs i Hi; [lia|]. cbn [rsum] in Hs.
  assert (0 <= rsum m f) by (apply rsum_nonneg; intros; apply Hp; lia). assert (0 <= f m) by (apply Hp; lia).
  destruct (Nat.eq_dec i m) as [->|Hne]; [lra|]. apply IH; [intros q Hq; apply Hp; lia | lra | lia].
Qed.

(* STRICT DESCENT: a pass from a feasible V that does not decrease the objective of any column is a fixed point
   (hence, by fixed_point_kkt, V is a KKT point): at every feasible non-KKT point some column's objective strictly decreases *)
Theorem pass_no_decrease_fixed V : wfm r n V -> (forall i j, (i < r)%nat -> (j < n)%nat -> eps <= Mget V i j) ->
  (forall k, (k < r)%nat -> G k k <> 0) ->
  (forall j, (j < n)%nat -> obj j (colf V j) <= obj j (colf (hals_pass Rops UtM UtU n o V) j)) ->
  hals_pass Rops UtM UtU n o V = V.
Proof.
  intros W Hf HG Hno.
  assert (WP : wfm r n (hals_pass Rops UtM UtU n o V)).
  { rewrite (pass_unfold UtM UtU r n o WB). now apply (fold_wfm UtM UtU r n o NZ). }
  apply (wfm_ext r n); [exact WP | exact W|]. intros i j Hi Hj.
  pose proof (pass_sufficient_decrease V j W Hf Hj) as HD. specialize (Hno j Hj).
  set (f := fun k => wk k * (Mget (hals_pass Rops UtM UtU n o V) k j - Mget V k j)^2) in *.
  assert (Hw : forall k, (k < r)%nat -> 0 < wk k).
  { intros k Hk. pose proof (Hden k Hk (HG k Hk)). lra. }
  assert (Z : f i = 0).
  { apply (rsum_nonneg_zero r f); [|lra | exact Hi]. intros k Hk. unfold f. apply Rmult_le_pos; [left; now apply Hw | apply pow2_ge_0]. }
  unfold f in Z. apply Rmult_integral in Z. destruct Z as [Z|Z]; [pose proof (Hw i Hi); lra|].
  assert (Mget (hals_pass Rops UtM UtU n o V) i j - Mget V i j = 0) by (apply Rsqr_eq_0; rewrite Rsqr_pow2; exact Z). lra.
Qed.
End Descent.
