(* fista's argument handling (Model/NnlsEntry.v): the documented value ridge_coef = None raises (refutation of "fista
   returns a solution for every offered penalisation"); with a number as ridge_coef the call is fista on the defaulted
   arguments and, non_negative with >= 1 iteration, returns a matrix >= epsilon of the shape of UtM. *)
From Coq Require Import List Arith Bool Reals Lra Lia.
From TLV Require Import Base.Ops Base.PyList Base.Tensor Base.RSum Model.Nnls Model.NnlsEntry Proofs.NnlsProofs Proofs.NnlsProofsFista.
Import ListNotations.
Open Scope R_scope.

Lemma fista_call_ridge_none {F} (Op : fops F) UtM UtU n nonneg sp lr sigma tol eps x0 betas :
  fista_call Op UtM UtU n nonneg sp None lr sigma tol eps x0 betas = Err.
Proof. reflexivity. Qed.

Lemma fista_call_ridge_none_witness :
  exists (UtM UtU : list (list R)) (betas : list R),
    fista_call Rops UtM UtU 1 true (Some 0) None None 3 (1 / 100000000) 0 None betas = Err /\ betas <> [].
Proof. exists [[3]; [-3]], [[2; 1]; [1; 2]], [0]. split; [reflexivity | discriminate]. Qed.

Lemma zeros_like_wfm r n (A : mat) : wfm r n A -> wfm r n (zeros_like Rops A).
Proof. intros W. unfold zeros_like. now apply wfm_mmap. Qed.

Theorem fista_call_some UtM UtU r n (sp lr : option R) (rd sigma tol eps : R) (x0 : option mat) betas :
  wfm r r UtU -> wfm r n UtM -> match x0 with Some x => wfm r n x | None => True end -> betas <> [] ->
  exists W, fista_call Rops UtM UtU n true sp (Some rd) lr sigma tol eps x0 betas = Ok W /\
    W = fista Rops UtM UtU n true (match sp with Some s => s | None => 0 end) rd
              (match lr with Some l => l | None => 1 / (sigma + 2 * rd) end) tol eps
              (match x0 with Some x => x | None => zeros_like Rops UtM end) betas /\
    forall i j, (i < r)%nat -> (j < n)%nat -> eps <= Mget W i j.
Proof.
  intros WG WB Wx Hb. eexists. split; [reflexivity|]. split.
  - unfold fista_default_lr, two. cbn [f0 f1 fadd fmul fdiv Rops]. reflexivity.
  - intros i j Hi Hj. apply (fista_ge_eps UtM UtU r n); auto.
    destruct x0 as [x|]; [exact Wx | now apply zeros_like_wfm].
Qed.
