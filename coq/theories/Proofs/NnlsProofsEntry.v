(* fista's argument handling (Model/NnlsEntry.v, repaired code ae57725): for EVERY offered value of sparsity_coef / ridge_coef /
   lr / x (a number or None) the call is fista on the defaulted arguments and, non_negative with >= 1 iteration, returns a
   matrix >= epsilon of the shape of UtM; ridge_coef = None is ridge_coef = 0.  Before ae57725 ridge_coef = None raised. *)
From Coq Require Import List Arith Bool Reals Lra Lia.
From TLV Require Import Base.Ops Base.PyList Base.Tensor Base.RSum Model.Nnls Model.NnlsEntry Proofs.NnlsProofs Proofs.NnlsProofsFista Proofs.NnlsProofsStep Proofs.NnlsProofsExamples Proofs.NnlsProofsFistaRate.
Import ListNotations.
Open Scope R_scope.

(* regression: the rule before ae57725 raised on the witness UtU = [[2,1],[1,2]], UtM = (3,-3), all defaults; the repaired call returns
   what ridge_coef = 0 returns *)
Lemma fista_call_before_ae57725_witness :
  exists (UtM UtU : list (list R)) (betas : list R), betas <> [] /\
    fista_call_before_ae57725 Rops UtM UtU 1 true (Some 0) None None 3 (1 / 100000000) 0 None betas = Err /\
    (fista_call Rops UtM UtU 1 true (Some 0) None None 3 (1 / 100000000) 0 None betas =
     fista_call Rops UtM UtU 1 true (Some 0) (Some 0) None 3 (1 / 100000000) 0 None betas).
Proof. exists [[3]; [-3]], [[2; 1]; [1; 2]], [0]. split; [discriminate | split; reflexivity]. Qed.

Lemma fista_call_ridge_none_is_zero {F} (Op : fops F) UtM UtU n nonneg sp lr sigma tol eps x0 betas :
  fista_call Op UtM UtU n nonneg sp None lr sigma tol eps x0 betas = fista_call Op UtM UtU n nonneg sp (Some (f0 Op)) lr sigma tol eps x0 betas.
Proof. reflexivity. Qed.

Lemma zeros_like_wfm r n (A : mat) : wfm r n A -> wfm r n (zeros_like Rops A).
Proof. intros W. unfold zeros_like. now apply wfm_mmap. Qed.

Theorem fista_call_returns UtM UtU r n (sp rd lr : option R) (sigma tol eps : R) (x0 : option mat) betas :
  wfm r r UtU -> wfm r n UtM -> match x0 with Some x => wfm r n x | None => True end -> betas <> [] ->
  let rdv := match rd with Some v => v | None => 0 end in
  exists W, fista_call Rops UtM UtU n true sp rd lr sigma tol eps x0 betas = Ok W /\
    W = fista Rops UtM UtU n true (match sp with Some s => s | None => 0 end) rdv
              (match lr with Some l => l | None => 1 / (sigma + 2 * rdv) end) tol eps
              (match x0 with Some x => x | None => zeros_like Rops UtM end) betas /\
    forall i j, (i < r)%nat -> (j < n)%nat -> eps <= Mget W i j.
Proof.
  intros WG WB Wx Hb rdv. eexists. split; [reflexivity|]. split.
  - unfold fista_default_lr, two. cbn [f0 f1 fadd fmul fdiv Rops]. reflexivity.
  - intros i j Hi Hj. apply (fista_ge_eps UtM UtU r n); auto.
    destruct x0 as [x|]; [exact Wx | now apply zeros_like_wfm].
Qed.

(* the DEFAULT step 1 / (sigma + 2 ridge) meets the step-size condition of fista_step_descent as soon as sigma bounds the
   Rayleigh quotient of UtU (the contract of the leading singular value of a symmetric PSD matrix) *)
Lemma default_lr_condition r (G : nat -> nat -> R) (sigma rd : R) : 0 < sigma + 2 * rd ->
  (forall d : nat -> R, quad r G d <= sigma * rsum r (fun i => (d i)^2)) ->
  forall d : nat -> R, 1 / (sigma + 2 * rd) * (quad r G d + 2 * rd * rsum r (fun i => (d i)^2)) <= rsum r (fun i => (d i)^2).
Proof.
  intros Hp Hs d. specialize (Hs d). set (S2 := rsum r (fun i => (d i)^2)) in *.
  assert (E : S2 = 1 / (sigma + 2 * rd) * ((sigma + 2 * rd) * S2)) by (field; lra). rewrite E at 2.
  apply Rmult_le_compat_l; [|lra]. unfold Rdiv. rewrite Rmult_1_l. left. now apply Rinv_0_lt_compat.
Qed.

(* fista called with lr=None and n_iter_max=1 from a start whose column j is feasible does not increase that column's objective *)
Theorem fista_call_default_step_descent UtM UtU r n (sp : option R) (rd sigma tol eps beta : R) (x0 : option mat) j :
  wfm r r UtU -> wfm r n UtM -> (forall i k, Gf UtU i k = Gf UtU k i) -> 0 < sigma + 2 * rd ->
  (forall d : nat -> R, quad r (Gf UtU) d <= sigma * rsum r (fun i => (d i)^2)) ->
  match x0 with Some x => wfm r n x /\ (forall i, (i < r)%nat -> eps <= Mget x i j) | None => eps <= 0 end -> (j < n)%nat ->
  let spv := match sp with Some s => s | None => 0 end in
  let start := match x0 with Some x => x | None => zeros_like Rops UtM end in
  exists W, fista_call Rops UtM UtU n true sp (Some rd) None sigma tol eps x0 [beta] = Ok W /\
    qp_f r (Gf UtU) (bf UtM j) spv rd (colf W j) <= qp_f r (Gf UtU) (bf UtM j) spv rd (colf start j).
Proof.
  intros WG WB Gsym Hp Hs Hx Hj spv start. eexists. split; [reflexivity|].
  assert (Wst : wfm r n start) by (unfold start; destruct x0 as [x|]; [apply Hx | now apply zeros_like_wfm]).
  assert (Fst : forall i, (i < r)%nat -> eps <= Mget start i j).
  { intros i Hi. unfold start. destruct x0 as [x|]; [now apply Hx|].
    unfold zeros_like. rewrite (mget_mmap r n) by assumption. cbn [f0 Rops]. exact Hx. }
  assert (Hlr : 0 < 1 / (sigma + 2 * rd)) by (unfold Rdiv; rewrite Rmult_1_l; now apply Rinv_0_lt_compat).
  pose proof (fista_first_iteration_descent UtM UtU r n spv rd (1 / (sigma + 2 * rd)) eps WG WB Gsym Hlr
                (default_lr_condition r (Gf UtU) sigma rd Hp Hs) tol start beta j Wst Fst Hj) as D.
  unfold fista_default_lr, two. cbn [f0 f1 fadd fmul fdiv Rops]. fold spv. fold start. exact D.
Qed.

(* non-vacuity: sigma = 3 bounds the Rayleigh quotient of UtU = [[2,1],[1,2]] *)
Lemma ex_sigma_bound : forall d : nat -> R, quad 2 (Gf ex_UtU) d <= 3 * rsum 2 (fun i => (d i)^2).
Proof. intros d. unfold quad, Gf, mget, mrow, ex_UtU. cbn. pose proof (pow2_ge_0 (d 0%nat - d 1%nat)). nra. Qed.

(* THE CALL AS A USER WRITES IT: fista with the default step (lr=None), any start (x=None: zeros -- infeasible for the default
   epsilon = 1e-8, which the rate does not mind), any tol and epsilon, the code's momentum: it returns, and the returned point's
   objective gap in column j against a KKT point X at the bound epsilon is at most 2 (sigma + 2 ridge) |start - X|^2 / (m+1)^2
   for the iteration m >= 1 at which it stopped *)
Theorem fista_call_rate UtM UtU r n (sp : option R) (rd sigma tol eps : R) (x0 : option mat) K' j (X : mat) :
  wfm r r UtU -> wfm r n UtM -> (j < n)%nat -> (forall i k, Gf UtU i k = Gf UtU k i) -> (forall d, 0 <= quad r (Gf UtU) d) ->
  0 <= rd -> 0 < sigma + 2 * rd ->
  (forall d : nat -> R, quad r (Gf UtU) d <= sigma * rsum r (fun i => (d i)^2)) ->
  match x0 with Some x => wfm r n x | None => True end ->
  let spv := match sp with Some s => s | None => 0 end in
  let start := match x0 with Some x => x | None => zeros_like Rops UtM end in
  (forall i, (i < r)%nat -> eps <= Mget X i j /\ 0 <= qp_grad r (Gf UtU) (bf UtM j) spv rd (colf X j) i /\
                            (Mget X i j - eps) * qp_grad r (Gf UtU) (bf UtM j) spv rd (colf X j) i = 0) ->
  exists W m, fista_call Rops UtM UtU n true sp (Some rd) None sigma tol eps x0 (map (beta_of tseq) (seq 0 (S K'))) = Ok W /\
    (1 <= m <= S K')%nat /\
    let gap := qp_f r (Gf UtU) (bf UtM j) spv rd (colf W j) - qp_f r (Gf UtU) (bf UtM j) spv rd (colf X j) in
    0 <= gap /\ (INR m + 1)^2 * gap <= 2 * (sigma + 2 * rd) * rsum r (fun i => (Mget start i j - Mget X i j)^2).
Proof.
  intros WG WB Hj Gsym Gpsd Hrd Hp Hs Hx spv start XK.
  assert (Wst : wfm r n start) by (unfold start; destruct x0 as [x|]; [exact Hx | now apply zeros_like_wfm]).
  assert (Hlr : 0 < 1 / (sigma + 2 * rd)) by (unfold Rdiv; rewrite Rmult_1_l; now apply Rinv_0_lt_compat).
  destruct (fista_rate_any_tol UtM UtU r n spv rd (1 / (sigma + 2 * rd)) tol eps j X K' start WG WB Hj Gsym Gpsd Hrd Hlr
              (default_lr_condition r (Gf UtU) sigma rd Hp Hs) XK Wst) as (m & Hm & G0 & G1).
  eexists. exists m. split; [reflexivity|]. split; [exact Hm|]. cbv zeta.
  unfold fista_default_lr, two. cbn [f0 f1 fadd fmul fdiv Rops]. fold spv. fold start.
  split; [exact G0|].
  match goal with |- (INR m + 1)^2 * ?g <= _ => set (gp := g) in * end.
  set (C := rsum r (fun i => (Mget start i j - Mget X i j)^2)) in *.
  assert (E : (INR m + 1)^2 * gp = (sigma + 2 * rd) * (1 / (sigma + 2 * rd) * (INR m + 1)^2 * gp)) by (field; lra).
  rewrite E. replace (2 * (sigma + 2 * rd) * C) with ((sigma + 2 * rd) * (2 * C)) by ring.
  apply Rmult_le_compat_l; [lra | exact G1].
Qed.
