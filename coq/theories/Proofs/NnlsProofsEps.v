(* The bound epsilon > 0 (hals_nnls: "V >= epsilon instead of V >= 0"; fista's default epsilon = 1e-8): KKT at the bound
   epsilon => global minimum over {v >= epsilon}; hence the fixed points of the HALS pass and of the FISTA step minimise every
   column's penalised objective over that set, for EVERY epsilon (the theorems with epsilon = 0 are the special case). *)
From Coq Require Import List Arith Bool Reals Lra Lia Psatz.
From TLV Require Import Base.Ops Base.PyList Base.Tensor Base.RSum Model.Nnls Proofs.NnlsProofs Proofs.NnlsProofsFista.
Import ListNotations.
Open Scope R_scope.

Theorem kkt_optimal_eps n (G : nat -> nat -> R) b l1 l2 eps (x z : nat -> R) :
  (forall i j, G i j = G j i) -> (forall d, 0 <= quad n G d) -> 0 <= l2 ->
  (forall i, (i < n)%nat -> eps <= x i /\ 0 <= qp_grad n G b l1 l2 x i /\ (x i - eps) * qp_grad n G b l1 l2 x i = 0) ->
  (forall i, (i < n)%nat -> eps <= z i) -> qp_f n G b l1 l2 x <= qp_f n G b l1 l2 z.
Proof.
  intros Gsym Gpsd Hl2 Hk Hz. pose proof (qp_diff n G b l1 l2 Gsym x z) as Hf. cbv zeta in Hf.
  set (d := fun i => z i - x i) in *.
  assert (Hg : 0 <= rsum n (fun i => d i * qp_grad n G b l1 l2 x i)).
  { apply rsum_nonneg. intros i Hi. destruct (Hk i Hi) as (Hx & Hgr & Hc). specialize (Hz i Hi). unfold d.
    replace ((z i - x i) * qp_grad n G b l1 l2 x i) with ((z i - eps) * qp_grad n G b l1 l2 x i - (x i - eps) * qp_grad n G b l1 l2 x i) by ring.
    rewrite Hc. nra. }
  assert (0 <= rsum n (fun i => (d i)^2)) by (apply rsum_nonneg; intros; apply pow2_ge_0).
  pose proof (Gpsd d). nra.
Qed.

Theorem hals_fixed_point_optimal_eps UtM UtU r n (o : @hopts R) V :
  wfm r r UtU -> wfm r n UtM -> h_nz o = false -> wfm r n V -> 0 <= l2of o ->
  (forall i j, Gf UtU i j = Gf UtU j i) -> (forall d, 0 <= quad r (Gf UtU) d) ->
  (forall k, (k < r)%nat -> Gf UtU k k <> 0 /\ 0 < Gf UtU k k + 2 * l2of o) ->
  hals_pass Rops UtM UtU n o V = V ->
  forall j z, (j < n)%nat -> (forall i, (i < r)%nat -> h_eps o <= z i) ->
    qp_f r (Gf UtU) (bf UtM j) (l1of o) (l2of o) (colf V j) <= qp_f r (Gf UtU) (bf UtM j) (l1of o) (l2of o) z.
Proof.
  intros WG WB NZ W Hl2 Gsym Gpsd HG Hfix j z Hj Hz. apply (kkt_optimal_eps r (Gf UtU) (bf UtM j) (l1of o) (l2of o) (h_eps o)); auto.
  intros i Hi. exact (fixed_point_kkt UtM UtU r n o WG WB NZ V W HG Hfix i j Hi Hj).
Qed.

Theorem fista_fixed_point_optimal_eps UtM UtU r n sp rd lr eps V :
  wfm r r UtU -> wfm r n UtM -> 0 < lr -> 0 <= rd -> wfm r n V ->
  (forall i j, Gf UtU i j = Gf UtU j i) -> (forall d, 0 <= quad r (Gf UtU) d) ->
  fista_new Rops UtM UtU n true sp rd lr eps V = V ->
  forall j z, (j < n)%nat -> (forall i, (i < r)%nat -> eps <= z i) ->
    qp_f r (Gf UtU) (bf UtM j) sp rd (colf V j) <= qp_f r (Gf UtU) (bf UtM j) sp rd z.
Proof.
  intros WG WB Hlr Hrd W Gsym Gpsd Hfix j z Hj Hz. apply (kkt_optimal_eps r (Gf UtU) (bf UtM j) sp rd eps); auto.
  intros i Hi. exact (fista_fixed_point_kkt UtM UtU r n sp rd lr eps WG WB V Hlr W Hfix i j Hi Hj).
Qed.
