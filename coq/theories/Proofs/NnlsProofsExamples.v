(* Non-vacuity: a concrete 2 x 1 problem with one inactive and one active constraint on which the
   hypotheses of the C13 theorems hold simultaneously (over R). *)
From Coq Require Import List Arith Bool Reals Lra Lia Psatz.
From TLV Require Import Base.Ops Base.PyList Base.Tensor Base.RSum Model.Nnls Proofs.NnlsProofs Proofs.NnlsProofsFista.
Import ListNotations.
Open Scope R_scope.

Definition ex_UtU : mat := [[2; 1]; [1; 2]].
Definition ex_UtM : mat := [[3]; [-3]].
Definition ex_V : mat := [[3 / 2]; [0]].          (* the NNLS optimum: gradient (0, 9/2) *)
Definition ex_o : @hopts R := mkH None None false 0 0.
Definition ex_o_pen : @hopts R := mkH (Some (1 / 2)) (Some (1 / 4)) false 0 0.
Definition ex_V_pen : mat := [[1]; [0]].           (* optimum of the l1 = 1/2, ridge = 1/4 problem: gradient (0, 9/2) *)

Ltac small2 k := destruct k as [|[|k]]; [| |lia].
Ltac small1 j := destruct j as [|j]; [|lia].

Lemma ex_wf : wfm 2 2 ex_UtU /\ wfm 2 1 ex_UtM /\ wfm 2 1 ex_V /\ wfm 2 1 ex_V_pen.
Proof. repeat split; try reflexivity; intros i Hi; small2 i; reflexivity. Qed.
Lemma ex_sym : forall i j, Gf ex_UtU i j = Gf ex_UtU j i.
Proof.
  intros i j. unfold Gf, mget, mrow, ex_UtU.
  destruct i as [|[|[|i]]]; destruct j as [|[|[|j]]]; cbn; try reflexivity; try (destruct i; reflexivity); try (destruct j; reflexivity).
Qed.
Lemma ex_psd : forall d, 0 <= quad 2 (Gf ex_UtU) d.
Proof. intros d. unfold quad, Gf, mget, mrow, ex_UtU. cbn. nra. Qed.
Lemma ex_diag o : l2of o = 0 \/ l2of o = 1 / 4 -> forall k, (k < 2)%nat -> Gf ex_UtU k k <> 0 /\ 0 < Gf ex_UtU k k + 2 * l2of o.
Proof. intros H k Hk. small2 k; unfold Gf, mget, mrow, ex_UtU; cbn; destruct H as [-> | ->]; split; lra. Qed.

Lemma ex_kkt : forall k j, (k < 2)%nat -> (j < 1)%nat ->
  let g := qp_grad 2 (Gf ex_UtU) (bf ex_UtM j) (l1of ex_o) (l2of ex_o) (colf ex_V j) k in
  h_eps ex_o <= mget Rops ex_V k j /\ 0 <= g /\ (mget Rops ex_V k j - h_eps ex_o) * g = 0.
Proof.
  intros k j Hk Hj. small1 j. small2 k; cbv zeta;
    unfold qp_grad, Gf, bf, colf, mget, mrow, ex_UtU, ex_UtM, ex_V, l1of, l2of, ex_o; cbn; repeat split; lra.
Qed.
Lemma ex_kkt_pen : forall k j, (k < 2)%nat -> (j < 1)%nat ->
  let g := qp_grad 2 (Gf ex_UtU) (bf ex_UtM j) (l1of ex_o_pen) (l2of ex_o_pen) (colf ex_V_pen j) k in
  h_eps ex_o_pen <= mget Rops ex_V_pen k j /\ 0 <= g /\ (mget Rops ex_V_pen k j - h_eps ex_o_pen) * g = 0.
Proof.
  intros k j Hk Hj. small1 j. small2 k; cbv zeta;
    unfold qp_grad, Gf, bf, colf, mget, mrow, ex_UtU, ex_UtM, ex_V_pen, l1of, l2of, ex_o_pen; cbn; repeat split; lra.
Qed.

(* the optimum is a fixed point of the HALS pass (plain and penalised) and of the FISTA step (lr = 1/3) *)
Lemma ex_hals_fixed : hals_pass Rops ex_UtM ex_UtU 1 ex_o ex_V = ex_V.
Proof.
  destruct ex_wf as (WG & WB & WV & _).
  apply (kkt_fixed_point ex_UtM ex_UtU 2 1 ex_o WG WB eq_refl ex_V WV); [|exact ex_kkt].
  intros k Hk _. apply (ex_diag ex_o); [left; reflexivity | exact Hk].
Qed.
Lemma ex_hals_fixed_pen : hals_pass Rops ex_UtM ex_UtU 1 ex_o_pen ex_V_pen = ex_V_pen.
Proof.
  destruct ex_wf as (WG & WB & _ & WV).
  apply (kkt_fixed_point ex_UtM ex_UtU 2 1 ex_o_pen WG WB eq_refl ex_V_pen WV); [|exact ex_kkt_pen].
  intros k Hk _. apply (ex_diag ex_o_pen); [right; reflexivity | exact Hk].
Qed.
Lemma ex_fista_fixed : fista_new Rops ex_UtM ex_UtU 1 true 0 0 (1 / 3) 0 ex_V = ex_V.
Proof.
  destruct ex_wf as (WG & WB & WV & _).
  apply (fista_kkt_fixed_point ex_UtM ex_UtU 2 1 0 0 (1 / 3) 0 WG WB ex_V); [lra | exact WV | exact ex_kkt].
Qed.

(* all hypotheses of the fixed-point / optimality theorems at once *)
Lemma ex_all :
  wfm 2 2 ex_UtU /\ wfm 2 1 ex_UtM /\ wfm 2 1 ex_V /\ h_nz ex_o = false /\ h_eps ex_o = 0 /\ 0 <= l2of ex_o /\
  (forall i j, Gf ex_UtU i j = Gf ex_UtU j i) /\ (forall d, 0 <= quad 2 (Gf ex_UtU) d) /\
  (forall k, (k < 2)%nat -> Gf ex_UtU k k <> 0 /\ 0 < Gf ex_UtU k k + 2 * l2of ex_o) /\
  hals_pass Rops ex_UtM ex_UtU 1 ex_o ex_V = ex_V /\
  hals_pass Rops ex_UtM ex_UtU 1 ex_o_pen ex_V_pen = ex_V_pen /\
  fista_new Rops ex_UtM ex_UtU 1 true 0 0 (1 / 3) 0 ex_V = ex_V /\
  mget Rops ex_V 0 0 = 3 / 2 /\ mget Rops ex_V 1 0 = 0.
Proof.
  destruct ex_wf as (WG & WB & WV & _).
  repeat split; try assumption; try reflexivity; try apply WG; try apply WB; try apply WV.
  - cbn. lra.
  - apply ex_sym.
  - apply ex_psd.
  - apply (ex_diag ex_o); [left; reflexivity | assumption].
  - apply (ex_diag ex_o); [left; reflexivity | assumption].
  - exact ex_hals_fixed.
  - exact ex_hals_fixed_pen.
  - exact ex_fista_fixed.
Qed.
