(* Lemmas about the FISTA model (Model/Nnls.v, Section Fista) at the real instance: entrywise meaning of
   the gradient / projected step, iterates >= epsilon, fixed point of the projected step <=> KKT at the
   bound epsilon (l1 and ridge inside the gradient), a KKT point is stationary for the whole accelerated
   iteration (momentum included), fixed point => global optimum.  Also the cold start of hals_nnls
   (hals_init, repaired code): shape, the zero class (clipped unconstrained solution identically zero), iterates. *)
From Coq Require Import List Arith Bool Reals Lra Lia Psatz.
From TLV Require Import Base.Ops Base.PyList Base.Tensor Base.RSum Model.Nnls Proofs.NnlsProofs.
Import ListNotations.
Open Scope R_scope.

(* ---------- entrywise access to map2 / mmap2 / mmap / matmul ---------- *)
Lemma nth_combine {A B} (a : list A) : forall (b : list B) i da db, (i < length a)%nat -> (i < length b)%nat ->
  nth i (combine a b) (da, db) = (nth i a da, nth i b db).
Proof.
  induction a as [|x a IH]; intros [|y b] i da db Ha Hb; simpl in *; try lia.
  destruct i; [reflexivity|]. apply IH; lia.
Qed.
Lemma length_map2 (f : R -> R -> R) a b : length (map2 f a b) = Nat.min (length a) (length b).
Proof. unfold map2. now rewrite map_length, combine_length. Qed.
Lemma nth_map2 (f : R -> R -> R) a b i : (i < length a)%nat -> (i < length b)%nat ->
  nth i (map2 f a b) 0 = f (nth i a 0) (nth i b 0).
Proof.
  intros Ha Hb. unfold map2.
  rewrite (nth_map' (fun p => f (fst p) (snd p)) (combine a b) i (0, 0) 0) by (rewrite combine_length; lia).
  now rewrite nth_combine.
Qed.
Lemma wfm_mmap2 r n (f : R -> R -> R) (A B : mat) : wfm r n A -> wfm r n B -> wfm r n (mmap2 f A B).
Proof.
  intros [LA RA] [LB RB]. unfold mmap2. split; [rewrite map_length, combine_length; lia|].
  intros i Hi. rewrite (nth_map' _ (combine A B) i ([], []) []) by (rewrite combine_length; lia).
  rewrite nth_combine by lia. cbn [fst snd]. rewrite length_map2, RA, RB by exact Hi. lia.
Qed.
Lemma mget_mmap2 r n (f : R -> R -> R) (A B : mat) i j : wfm r n A -> wfm r n B -> (i < r)%nat -> (j < n)%nat ->
  Mget (mmap2 f A B) i j = f (Mget A i j) (Mget B i j).
Proof.
  intros [LA RA] [LB RB] Hi Hj. unfold mget, mrow, mmap2.
  rewrite (nth_map' _ (combine A B) i ([], []) []) by (rewrite combine_length; lia).
  rewrite nth_combine by lia. cbn [fst snd]. apply nth_map2; [rewrite RA | rewrite RB]; assumption.
Qed.
Lemma wfm_mmap r n (f : R -> R) (A : mat) : wfm r n A -> wfm r n (mmap f A).
Proof.
  intros [LA RA]. unfold mmap. split; [now rewrite map_length|].
  intros i Hi. rewrite (nth_map' _ A i [] []) by lia. rewrite map_length. now apply RA.
Qed.
Lemma mget_mmap r n (f : R -> R) (A : mat) i j : wfm r n A -> (i < r)%nat -> (j < n)%nat ->
  Mget (mmap f A) i j = f (Mget A i j).
Proof.
  intros [LA RA] Hi Hj. unfold mget, mrow, mmap. rewrite (nth_map' _ A i [] []) by lia.
  apply nth_map'. now rewrite RA.
Qed.
Lemma wfm_matmul r n (A V : mat) : length A = r -> wfm r n (matmul Rops n A V).
Proof.
  intros LA. unfold matmul. split; [now rewrite map_length|].
  intros i Hi. rewrite (nth_map' _ A i [] []) by lia. unfold vecmat. now rewrite map_length, seq_length.
Qed.
Lemma mget_matmul r n (A V : mat) i j : wfm r r A -> wfm r n V -> (i < r)%nat -> (j < n)%nat ->
  Mget (matmul Rops n A V) i j = rsum r (fun k => Mget A i k * Mget V k j).
Proof.
  intros [LA RA] [LV RV] Hi Hj. unfold mget at 1. unfold mrow, matmul.
  rewrite (nth_map' _ A i [] []) by lia.
  rewrite nth_vecmat by (try exact Hj; rewrite RA, LV by exact Hi; reflexivity).
  rewrite LV. reflexivity.
Qed.

(* ====================================================================================== *)
(*  FISTA                                                                                 *)
(* ====================================================================================== *)
Section FistaFacts.
Variables (UtM UtU : mat) (r n : nat) (sp rd lr tol eps : R).
Hypothesis WG : wfm r r UtU.
Hypothesis WB : wfm r n UtM.
Notation G := (Gf UtU).
Notation grad := (fista_grad Rops UtM UtU n sp rd).
Notation new := (fista_new Rops UtM UtU n true sp rd lr eps).

Lemma fista_grad_wfm V : wfm r n V -> wfm r n (grad V).
Proof.
  intros W. unfold fista_grad. apply wfm_mmap2; [|exact W].
  apply wfm_mmap2; [now apply wfm_mmap | apply wfm_matmul, WG].
Qed.
(* the gradient used by the code is the gradient of the penalised objective of column j *)
Lemma fista_grad_entry V i j : wfm r n V -> (i < r)%nat -> (j < n)%nat ->
  Mget (grad V) i j = qp_grad r G (bf UtM j) sp rd (colf V j) i.
Proof.
  intros W Hi Hj. unfold fista_grad.
  assert (W1 : wfm r n (mmap (fopp Rops) UtM)) by now apply wfm_mmap.
  assert (W2 : wfm r n (matmul Rops n UtU V)) by apply wfm_matmul, WG.
  assert (W3 : wfm r n (mmap2 (fadd Rops) (mmap (fopp Rops) UtM) (matmul Rops n UtU V))) by now apply wfm_mmap2.
  rewrite (mget_mmap2 r n) by assumption.
  rewrite (mget_mmap2 r n) by assumption.
  rewrite (mget_mmap r n) by assumption. rewrite (mget_matmul r n) by assumption.
  unfold qp_grad, Gf, bf, colf, two. cbn [fadd fmul fopp f1 Rops]. ring.
Qed.
Lemma fista_new_wfm nonneg V : wfm r n V -> wfm r n (fista_new Rops UtM UtU n nonneg sp rd lr eps V).
Proof. intros W. unfold fista_new. apply wfm_mmap, wfm_mmap2; [exact W | now apply fista_grad_wfm]. Qed.
Lemma fista_new_entry V i j : wfm r n V -> (i < r)%nat -> (j < n)%nat ->
  Mget (new V) i j =
    let y := Mget V i j - lr * qp_grad r G (bf UtM j) sp rd (colf V j) i in if Rlt_dec y eps then eps else y.
Proof.
  intros W Hi Hj. unfold fista_new.
  assert (W1 : wfm r n (grad V)) by now apply fista_grad_wfm.
  assert (W2 : wfm r n (mmap2 (fun a g => fsub Rops a (fmul Rops lr g)) V (grad V))) by now apply wfm_mmap2.
  rewrite (mget_mmap r n) by assumption.
  rewrite (mget_mmap2 r n) by assumption.
  rewrite fista_grad_entry by assumption. cbv zeta. unfold fista_prox, fltb. cbn [fleb fsub fmul Rops]. unfold Rleb.
  destruct (Rle_dec eps _) as [H|H]; destruct (Rlt_dec _ eps) as [H'|H']; cbn [negb]; try reflexivity; lra.
Qed.

(* every entry of a projected step is >= epsilon (non_negative=True) *)
Lemma fista_new_ge V i j : wfm r n V -> (i < r)%nat -> (j < n)%nat -> eps <= Mget (new V) i j.
Proof. intros W Hi Hj. rewrite fista_new_entry by auto. cbv zeta. destruct (Rlt_dec _ eps); lra. Qed.

(* the loop returns its start or a projected step of some point of the right shape *)
Lemma fista_loop_shape nonneg betas : forall first norm0 x xu, wfm r n x -> wfm r n xu ->
  let y := fista_loop Rops UtM UtU n nonneg sp rd lr tol eps betas first norm0 x xu in
  (betas = [] /\ y = x) \/ exists w, wfm r n w /\ y = fista_new Rops UtM UtU n nonneg sp rd lr eps w.
Proof.
  induction betas as [|beta rest IH]; intros first norm0 x xu Wx Wu; cbv zeta; [left; split; reflexivity|].
  right. cbn [fista_loop]. cbv zeta. destruct (fltb _ _ _); [exists xu; split; [exact Wu | reflexivity]|].
  match goal with |- context [fista_loop _ _ _ _ _ _ _ _ _ _ rest ?f ?n0 ?a ?b] =>
    destruct (IH f n0 a b) as [[-> ->]|(w & Ww & ->)] end.
  - now apply fista_new_wfm.
  - apply wfm_mmap2; [now apply fista_new_wfm|]. apply wfm_mmap2; [now apply fista_new_wfm | exact Wx].
  - exists xu. split; [exact Wu | reflexivity].
  - exists w. split; [exact Ww | reflexivity].
Qed.
Theorem fista_ge_eps x0 betas i j : wfm r n x0 -> betas <> [] -> (i < r)%nat -> (j < n)%nat ->
  eps <= Mget (fista Rops UtM UtU n true sp rd lr tol eps x0 betas) i j.
Proof.
  intros W Hb Hi Hj. unfold fista.
  destruct (fista_loop_shape true betas true 0 x0 x0 W W) as [[E _]|(w & Ww & E)]; [contradiction|].
  cbv zeta in E. change (f0 Rops) with 0. rewrite E. now apply fista_new_ge.
Qed.

(* fixed point of the projected step <=> KKT at the bound epsilon, l1 and ridge inside the gradient *)
Theorem fista_fixed_point_kkt V : 0 < lr -> wfm r n V -> new V = V ->
  forall i j, (i < r)%nat -> (j < n)%nat ->
    let g := qp_grad r G (bf UtM j) sp rd (colf V j) i in
    eps <= Mget V i j /\ 0 <= g /\ (Mget V i j - eps) * g = 0.
Proof.
  intros Hlr W Hfix i j Hi Hj. cbv zeta. pose proof (fista_new_entry V i j W Hi Hj) as E. rewrite Hfix in E.
  cbv zeta in E. set (g := qp_grad r G (bf UtM j) sp rd (colf V j) i) in *. set (v := Mget V i j) in *.
  destruct (Rlt_dec (v - lr * g) eps) as [H|H].
  - assert (0 < lr * g) by lra. assert (0 < g) by nra. rewrite E. split; [lra | split; [lra | ring]].
  - assert (lr * g = 0) by lra. assert (g = 0) by nra. split; [lra | split; [lra | rewrite H1; ring]].
Qed.
Theorem fista_kkt_fixed_point V : 0 < lr -> wfm r n V ->
  (forall i j, (i < r)%nat -> (j < n)%nat ->
    let g := qp_grad r G (bf UtM j) sp rd (colf V j) i in
    eps <= Mget V i j /\ 0 <= g /\ (Mget V i j - eps) * g = 0) ->
  new V = V.
Proof.
  intros Hlr W HK. apply (wfm_ext r n); [now apply fista_new_wfm | exact W|].
  intros i j Hi Hj. rewrite fista_new_entry by auto. cbv zeta.
  destruct (HK i j Hi Hj) as (H1 & H2 & H3). apply Rmult_integral in H3.
  set (g := qp_grad r G (bf UtM j) sp rd (colf V j) i) in *.
  destruct (Rlt_dec (Mget V i j - lr * g) eps) as [H|H].
  - destruct H3 as [H3|H3]; [lra|]. rewrite H3 in H. lra.
  - destruct H3 as [H3|H3]; [|rewrite H3; ring].
    assert (0 <= lr * g) by (apply Rmult_le_pos; lra). assert (lr * g = 0) by lra. lra.
Qed.

(* a fixed point of the projected step is stationary for the whole accelerated iteration: started there
   (x = x_update = V) FISTA returns V whatever the momentum sequence, budget and tolerance *)
Lemma momentum_at_fixed V beta : wfm r n V ->
  mmap2 (fun a d => fadd Rops a (fmul Rops beta d)) V (mmap2 (fsub Rops) V V) = V.
Proof.
  intros W. apply (wfm_ext r n); [apply wfm_mmap2; [exact W | now apply wfm_mmap2] | exact W|].
  intros i j Hi Hj. assert (W1 : wfm r n (mmap2 (fsub Rops) V V)) by now apply wfm_mmap2.
  rewrite (mget_mmap2 r n) by assumption.
  rewrite (mget_mmap2 r n) by assumption. cbn [fadd fsub fmul Rops]. ring.
Qed.
Theorem fista_stationary V betas : wfm r n V -> new V = V ->
  forall first norm0, fista_loop Rops UtM UtU n true sp rd lr tol eps betas first norm0 V V = V.
Proof.
  intros W Hfix. induction betas as [|beta rest IH]; intros first norm0; [reflexivity|].
  cbn [fista_loop]. cbv zeta. rewrite Hfix. rewrite momentum_at_fixed by exact W.
  destruct (fltb _ _ _); [reflexivity | apply IH].
Qed.

(* fixed point, epsilon = 0, PSD Gram matrix => global minimiser of every column's penalised objective *)
Theorem fista_fixed_point_optimal V : 0 < lr -> eps = 0 -> 0 <= rd -> wfm r n V ->
  (forall i j, G i j = G j i) -> (forall d, 0 <= quad r G d) -> new V = V ->
  forall j z, (j < n)%nat -> (forall i, (i < r)%nat -> 0 <= z i) ->
    qp_f r G (bf UtM j) sp rd (colf V j) <= qp_f r G (bf UtM j) sp rd z.
Proof.
  intros Hlr E0 Hrd W Gsym Gpsd Hfix j z Hj Hz. apply kkt_optimal; auto.
  intros i Hi. pose proof (fista_fixed_point_kkt V Hlr W Hfix i j Hi Hj) as H. cbv zeta in H. rewrite E0 in H.
  unfold colf at 1 3. destruct H as (H1 & H2 & H3). rewrite Rminus_0_r in H3. auto.
Qed.
End FistaFacts.

(* ====================================================================================== *)
(*  hals_nnls: cold start                                                                 *)
(* ====================================================================================== *)
Definition allz (A : mat) : Prop := Forall (Forall (fun x => x = 0)) A.
Definition nonpos (A : mat) : Prop := Forall (Forall (fun x => x <= 0)) A.

Lemma clip_nonpos A : nonpos A -> allz (mmap (fmax Rops (f0 Rops)) A).
Proof.
  intros H. unfold mmap. apply Forall_map. eapply Forall_impl; [|exact H]. intros row Hr.
  apply Forall_map. eapply Forall_impl; [|exact Hr]. intros x Hx. cbn beta in *.
  unfold fmax. cbn [fleb f0 Rops]. unfold Rleb. destruct (Rle_dec 0 x); [lra | reflexivity].
Qed.
Lemma dot_zero_l a : Forall (fun x => x = 0) a -> forall b, dot Rops a b = 0.
Proof.
  induction 1 as [|x a Hx _ IH]; intros [|y b]; cbn [dot]; try reflexivity.
  rewrite IH, Hx. cbn [fadd fmul f0 Rops]. ring.
Qed.
Lemma matmul_zero_l n A B : allz A -> allz (matmul Rops n A B).
Proof.
  intros H. unfold matmul. apply Forall_map. eapply Forall_impl; [|exact H]. intros row Hr. cbn beta.
  unfold vecmat. apply Forall_map. apply Forall_forall. intros j _. now apply dot_zero_l.
Qed.
Lemma map2_mul_zero_r a : forall b, Forall (fun x => x = 0) b -> Forall (fun x => x = 0) (map2 (fmul Rops) a b).
Proof.
  unfold map2. induction a as [|x a IH]; intros b Hb; [constructor|].
  destruct Hb as [|y b Hy Hb]; [constructor|]. cbn [combine map fst snd]. constructor; [rewrite Hy; cbn; ring | now apply IH].
Qed.
Lemma mmap2_mul_zero_r A : forall B, allz B -> allz (mmap2 (fmul Rops) A B).
Proof.
  unfold mmap2, allz. induction A as [|ra A IH]; intros B HB; [constructor|].
  destruct HB as [|rb B Hb HB]; [constructor|]. cbn [combine map fst snd]. constructor; [now apply map2_mul_zero_r | now apply IH].
Qed.
Lemma fold_add_zero l : Forall (fun x => x = 0) l -> forall a, fold_left (fadd Rops) l a = a.
Proof. induction 1 as [|x l Hx _ IH]; intros a; [reflexivity|]. cbn [fold_left]. rewrite IH, Hx. cbn; ring. Qed.
Lemma msum_zero A : allz A -> msum Rops A = 0.
Proof.
  intros H. unfold msum, vsum. rewrite fold_add_zero; [reflexivity|].
  apply Forall_map. eapply Forall_impl; [|exact H]. intros row Hr. cbn beta. now rewrite fold_add_zero.
Qed.

(* the class that used to produce NaN (clipped unconstrained solution identically zero): the denominator of
   the rescaling is 0, the repaired code skips it and the start is the zero matrix *)
Theorem hals_init_zero_class UtM UtU n sol : nonpos sol ->
  hals_init Rops UtM UtU n sol = mmap (fmax Rops (f0 Rops)) sol /\ allz (hals_init Rops UtM UtU n sol).
Proof.
  intros H. unfold hals_init. cbv zeta.
  assert (E : msum Rops (mmap2 (fmul Rops) UtU
                 (matmul Rops (length UtM) (mmap (fmax Rops (f0 Rops)) sol)
                    (mtranspose Rops n (mmap (fmax Rops (f0 Rops)) sol)))) = 0).
  { apply msum_zero, mmap2_mul_zero_r, matmul_zero_l, clip_nonpos, H. }
  rewrite E. unfold fltb. cbn [fleb f0 Rops]. unfold Rleb. destruct (Rle_dec 0 0) as [_|N]; [|exfalso; apply N; lra].
  cbn [negb]. split; [reflexivity | now apply clip_nonpos].
Qed.

(* the start always has the shape of the solution *)
Lemma hals_init_wfm UtM UtU r n sol : wfm r n sol -> wfm r n (hals_init Rops UtM UtU n sol).
Proof.
  intros W. unfold hals_init. cbv zeta. destruct (fltb _ _ _); [now apply wfm_mmap, wfm_mmap | now apply wfm_mmap].
Qed.

(* the loop performs at least one pass when the budget is positive *)
Lemma hals_loop_iter_pos {F} (Op : fops F) UtM UtU n o tol fuel first err0 V : (0 < fuel)%nat ->
  exists m, (1 <= m <= fuel)%nat /\ hals_loop Op UtM UtU n o tol fuel first err0 V = iterl m (hals_pass Op UtM UtU n o) V.
Proof.
  destruct fuel as [|f]; [lia|]. intros _. cbn [hals_loop]. cbv zeta. rewrite hals_pass_e_fst.
  destruct (fltb _ _ _).
  - exists 1%nat. split; [lia | reflexivity].
  - destruct (hals_loop_iter Op UtM UtU n o tol f false (if first then snd (hals_pass_e Op UtM UtU n o V) else err0)
                             (hals_pass Op UtM UtU n o V)) as (m & Hm & E).
    exists (S m). split; [lia | exact E].
Qed.

(* cold start (V = None): the result is an iterate of the pass from a start of the right shape, for EVERY
   recorded solution (no NaN outcome any more) *)
Theorem hals_cold_start UtM UtU r n sol iters tol o : h_nz o = false -> wfm r n sol ->
  wfm r n (hals_init Rops UtM UtU n sol) /\ exists m, (m <= iters)%nat /\
    hals_nnls Rops UtM UtU n None sol iters tol o = Ok (iterl m (hals_pass Rops UtM UtU n o) (hals_init Rops UtM UtU n sol)).
Proof.
  intros NZ W. split; [now apply hals_init_wfm|].
  unfold hals_nnls, hals_rejects. rewrite NZ. cbn [andb].
  destruct (hals_loop_iter Rops UtM UtU n o tol iters true (f0 Rops) (hals_init Rops UtM UtU n sol)) as (m & Hm & ->). now exists m.
Qed.

(* ... and with a positive budget and a non-zero diagonal every entry of the result is >= epsilon, although the
   start itself may be infeasible (the scale can be negative) *)
Theorem hals_cold_start_ge_eps UtM UtU r n sol iters tol o : wfm r r UtU -> wfm r n UtM -> h_nz o = false -> wfm r n sol ->
  (0 < iters)%nat -> (forall k, (k < r)%nat -> Gf UtU k k <> 0) ->
  exists W, hals_nnls Rops UtM UtU n None sol iters tol o = Ok W /\
            forall i j, (i < r)%nat -> (j < n)%nat -> h_eps o <= Mget W i j.
Proof.
  intros WG WB NZ W Hit HG. unfold hals_nnls, hals_rejects. rewrite NZ. cbn [andb].
  destruct (hals_loop_iter_pos Rops UtM UtU n o tol iters true (f0 Rops) (hals_init Rops UtM UtU n sol) Hit) as (m & Hm & ->).
  eexists. split; [reflexivity|]. destruct m as [|m]; [lia|].
  intros i j Hi Hj. apply (iterates_ge_eps_any_start UtM UtU r n o WG WB NZ m); auto. now apply hals_init_wfm.
Qed.

(* the former NaN witness: positive definite 1 x 1 problem whose NNLS optimum is 0; the cold start is now [[0]] *)
Lemma hals_cold_start_witness :
  let UtM := [[-1]] in let UtU := [[2]] in let sol := [[-1/2]] in
  wfm 1 1 UtU /\ wfm 1 1 UtM /\ 0 < Mget UtU 0 0 /\ solves 1 1 UtU UtM sol /\ nonpos sol.
Proof.
  cbv zeta. repeat split; try reflexivity.
  - intros i Hi. assert (i = 0)%nat by lia. subst. reflexivity.
  - intros i Hi. assert (i = 0)%nat by lia. subst. reflexivity.
  - cbn. lra.
  - intros i Hi. assert (i = 0)%nat by lia. subst. reflexivity.
  - intros i c Hi Hc. assert (i = 0)%nat by lia. assert (c = 0)%nat by lia. subst. cbn. lra.
  - repeat constructor. lra.
Qed.
Lemma hals_cold_start_witness_zero : hals_init Rops [[-1]] [[2]] 1 [[-1/2]] = [[0]].
Proof.
  destruct hals_cold_start_witness as (_ & _ & _ & _ & H5).
  destruct (hals_init_zero_class [[-1]] [[2]] 1 [[-1/2]] H5) as [E _]. rewrite E.
  cbn. unfold fmax. cbn [fleb f0 Rops]. unfold Rleb. destruct (Rle_dec 0 (-1 / 2)); [lra | reflexivity].
Qed.

(* ====================================================================================== *)
(*  fista: the stopping rule                                                              *)
(* ====================================================================================== *)
(* the iteration without its stopping rule *)
Fixpoint fista_run (UtM UtU : mat) (n : nat) (nonneg : bool) (sp rd lr eps : R) (betas : list R) (x xu : mat) : mat :=
  match betas with
  | [] => x
  | beta :: rest =>
    let xn := fista_new Rops UtM UtU n nonneg sp rd lr eps xu in
    fista_run UtM UtU n nonneg sp rd lr eps rest xn
              (mmap2 (fun a d => fadd Rops a (fmul Rops beta d)) xn (mmap2 (fsub Rops) xn x))
  end.
Lemma fabs_nonneg t : 0 <= fabs Rops t.
Proof. unfold fabs. cbn [fleb f0 fopp Rops]. unfold Rleb. destruct (Rle_dec 0 t); lra. Qed.
Lemma fabs_R t : fabs Rops t = Rabs t.
Proof.
  unfold fabs. cbn [fleb f0 fopp Rops]. unfold Rleb. destruct (Rle_dec 0 t) as [H|H].
  - now rewrite Rabs_right by lra.
  - rewrite Rabs_left by lra. reflexivity.
Qed.

(* sums of non-negative numbers dominate every summand *)
Lemma fold_add_ge l : Forall (fun v => 0 <= v) l -> forall a,
  a <= fold_left (fadd Rops) l a /\ forall v, In v l -> a + v <= fold_left (fadd Rops) l a.
Proof.
  induction 1 as [|y l Hy _ IH]; intros a; cbn [fold_left]; [split; [lra | intros v []]|].
  destruct (IH (fadd Rops a y)) as [H1 H2]. cbn [fadd Rops] in *. split; [lra|].
  intros v [<-|Hv]; [exact H1 | specialize (H2 v Hv); lra].
Qed.
Lemma vsum_nonneg l : Forall (fun v => 0 <= v) l -> 0 <= vsum Rops l /\ forall v, In v l -> v <= vsum Rops l.
Proof.
  intros H. unfold vsum. destruct (fold_add_ge l H (f0 Rops)) as [H1 H2]. cbn [f0 Rops] in *. split; [exact H1|].
  intros v Hv. specialize (H2 v Hv). lra.
Qed.
Lemma msum_ge_entry (A : mat) : Forall (Forall (fun v => 0 <= v)) A ->
  0 <= msum Rops A /\ forall row v, In row A -> In v row -> v <= msum Rops A.
Proof.
  intros H. unfold msum.
  assert (HS : Forall (fun v => 0 <= v) (map (vsum Rops) A)).
  { apply Forall_map. eapply Forall_impl; [|exact H]. intros row Hr. cbn beta. exact (proj1 (vsum_nonneg row Hr)). }
  destruct (vsum_nonneg _ HS) as [H1 H2]. split; [exact H1|].
  intros row v Hrow Hv. apply Rle_trans with (vsum Rops row).
  - rewrite Forall_forall in H. exact (proj2 (vsum_nonneg row (H row Hrow)) v Hv).
  - apply H2. now apply in_map.
Qed.
Lemma mmap_fabs_nonneg (A : mat) : Forall (Forall (fun v => 0 <= v)) (mmap (fabs Rops) A).
Proof.
  unfold mmap. apply Forall_map. apply Forall_forall. intros row _. apply Forall_map. apply Forall_forall. intros v _. apply fabs_nonneg.
Qed.
Lemma fista_nrm_nonneg x xn : 0 <= fista_nrm Rops x xn.
Proof. unfold fista_nrm. apply msum_ge_entry, mmap_fabs_nonneg. Qed.

(* the repaired stopping quantity is the l1 norm of the step: it bounds every entry of the step, so that when
   `norm < tol * norm_0` fires, EVERY coordinate moved by less than tol * norm_0 (the signed sum of the old code
   bounded nothing) *)
Theorem fista_nrm_bounds_step r n (x xn : mat) i j : wfm r n x -> wfm r n xn -> (i < r)%nat -> (j < n)%nat ->
  Rabs (Mget x i j - Mget xn i j) <= fista_nrm Rops x xn.
Proof.
  intros Wx Wn Hi Hj. unfold fista_nrm.
  assert (WD : wfm r n (mmap2 (fsub Rops) x xn)) by now apply wfm_mmap2.
  assert (WA : wfm r n (mmap (fabs Rops) (mmap2 (fsub Rops) x xn))) by now apply wfm_mmap.
  set (A := mmap (fabs Rops) (mmap2 (fsub Rops) x xn)) in *.
  assert (E : Mget A i j = Rabs (Mget x i j - Mget xn i j)).
  { unfold A. rewrite (mget_mmap r n) by assumption. rewrite (mget_mmap2 r n) by assumption. cbn [fsub Rops]. apply fabs_R. }
  rewrite <- E. destruct WA as [LA RA].
  apply (proj2 (msum_ge_entry A (mmap_fabs_nonneg _)) (nth i A [])).
  - apply nth_In. lia.
  - unfold mget, mrow. apply nth_In. rewrite RA by exact Hi. exact Hj.
Qed.

(* with tol = 0 the rule norm < tol * norm_0 never fires: the result is the full iterate of the budget *)
Theorem fista_tol0_runs_all UtM UtU n nonneg sp rd lr eps betas : forall first norm0 x xu,
  fista_loop Rops UtM UtU n nonneg sp rd lr 0 eps betas first norm0 x xu = fista_run UtM UtU n nonneg sp rd lr eps betas x xu.
Proof.
  induction betas as [|beta rest IH]; intros first norm0 x xu; [reflexivity|].
  cbn [fista_loop fista_run]. cbv zeta.
  match goal with |- context [fltb Rops ?a ?b] => assert (E : fltb Rops a b = false) end.
  { unfold fltb. cbn [fleb fmul Rops]. apply negb_false_iff, Rleb_true.
    match goal with |- _ <= fista_nrm Rops ?u ?v => pose proof (fista_nrm_nonneg u v) end. lra. }
  rewrite E. apply IH.
Qed.

Lemma fista_trace_snd {F} (Op : fops F) UtM UtU n nonneg sp rd lr tol eps betas : forall first norm0 x xu,
  snd (fista_trace Op UtM UtU n nonneg sp rd lr tol eps betas first norm0 x xu) =
  fista_loop Op UtM UtU n nonneg sp rd lr tol eps betas first norm0 x xu.
Proof.
  induction betas as [|beta rest IH]; intros first norm0 x xu; [reflexivity|].
  cbn [fista_trace fista_loop]. cbv zeta. destruct (fltb _ _ _); [reflexivity|]. cbn [snd]. apply IH.
Qed.
