(* fista with a list [A, B] as UtU and a matrix unknown (Model/Nnls.v, Section Fista2): the gradient entry is that of
   the Kronecker-structured problem  sum_{k,l} A[i,k] x[k,l] B[j,l] - UtM[i,j] + l1 + 2 ridge x[i,j], and the fixed
   points of the projected step are exactly the KKT points at the bound epsilon for that gradient. *)
From Coq Require Import List Arith Bool Reals Lra Lia Psatz.
From TLV Require Import Base.Ops Base.PyList Base.Tensor Base.RSum Model.Nnls Proofs.NnlsProofs Proofs.NnlsProofsFista.
Import ListNotations.
Open Scope R_scope.

Lemma mget_matmul_g r s n (A V : mat) i j : wfm r s A -> wfm s n V -> (i < r)%nat -> (j < n)%nat ->
  Mget (matmul Rops n A V) i j = rsum s (fun k => Mget A i k * Mget V k j).
Proof.
  intros [LA RA] [LV RV] Hi Hj. unfold mget at 1. unfold mrow, matmul.
  rewrite (nth_map' _ A i [] []) by lia.
  rewrite nth_vecmat by (try exact Hj; rewrite RA, LV by exact Hi; reflexivity).
  rewrite LV. reflexivity.
Qed.

(* projected step with an arbitrary gradient matrix: fixed point <=> complementarity at the bound *)
Lemma prox_step_fixed_kkt r n lr eps (V Gm : mat) : 0 < lr -> wfm r n V -> wfm r n Gm ->
  mmap (fista_prox Rops true eps) (mmap2 (fun a g => fsub Rops a (fmul Rops lr g)) V Gm) = V ->
  forall i j, (i < r)%nat -> (j < n)%nat ->
    eps <= Mget V i j /\ 0 <= Mget Gm i j /\ (Mget V i j - eps) * Mget Gm i j = 0.
Proof.
  intros Hlr W WGm Hfix i j Hi Hj.
  assert (W2 : wfm r n (mmap2 (fun a g => fsub Rops a (fmul Rops lr g)) V Gm)) by now apply wfm_mmap2.
  assert (E : Mget V i j = let y := Mget V i j - lr * Mget Gm i j in if Rlt_dec y eps then eps else y).
  { rewrite <- Hfix at 1. rewrite (mget_mmap r n) by assumption. rewrite (mget_mmap2 r n) by assumption.
    cbv zeta. unfold fista_prox, fltb. cbn [fleb fsub fmul Rops]. unfold Rleb.
    destruct (Rle_dec eps _) as [H|H]; destruct (Rlt_dec _ eps) as [H'|H']; cbn [negb]; try reflexivity; lra. }
  cbv zeta in E. set (g := Mget Gm i j) in *. set (v := Mget V i j) in *.
  destruct (Rlt_dec (v - lr * g) eps) as [H|H].
  - assert (0 < lr * g) by lra. assert (0 < g) by nra. rewrite E. split; [lra | split; [lra | ring]].
  - assert (lr * g = 0) by lra. assert (g = 0) by nra. split; [lra | split; [lra | rewrite H1; ring]].
Qed.
Lemma kkt_prox_step_fixed r n lr eps (V Gm : mat) : 0 < lr -> wfm r n V -> wfm r n Gm ->
  (forall i j, (i < r)%nat -> (j < n)%nat -> eps <= Mget V i j /\ 0 <= Mget Gm i j /\ (Mget V i j - eps) * Mget Gm i j = 0) ->
  mmap (fista_prox Rops true eps) (mmap2 (fun a g => fsub Rops a (fmul Rops lr g)) V Gm) = V.
Proof.
  intros Hlr W WGm HK.
  assert (W2 : wfm r n (mmap2 (fun a g => fsub Rops a (fmul Rops lr g)) V Gm)) by now apply wfm_mmap2.
  apply (wfm_ext r n); [now apply wfm_mmap | exact W|]. intros i j Hi Hj.
  rewrite (mget_mmap r n) by assumption. rewrite (mget_mmap2 r n) by assumption.
  destruct (HK i j Hi Hj) as (H1 & H2 & H3). apply Rmult_integral in H3.
  unfold fista_prox, fltb. cbn [fleb fsub fmul Rops]. unfold Rleb.
  set (g := Mget Gm i j) in *. set (v := Mget V i j) in *.
  destruct (Rle_dec eps (v - lr * g)) as [H|H]; cbn [negb].
  - destruct H3 as [H3|H3]; [|rewrite H3; ring].
    assert (0 <= lr * g) by (apply Rmult_le_pos; lra). assert (lr * g = 0) by lra. lra.
  - destruct H3 as [H3|H3]; [lra|]. exfalso. apply H. rewrite H3. lra.
Qed.

Section Fista2Facts.
Variables (UtM A B : mat) (r1 r2 : nat) (sp rd lr eps : R).
Hypothesis WA : wfm r1 r1 A.
Hypothesis WBm : wfm r2 r2 B.
Hypothesis WM : wfm r1 r2 UtM.

Lemma mmd2_wfm V : wfm r1 r2 (mmd2 Rops A B r2 V).
Proof. unfold mmd2. apply wfm_matmul, WA. Qed.
(* multi_mode_dot(x, [A, B])[i, j] = sum_k sum_l A[i,k] x[k,l] B[j,l] *)
Lemma mmd2_entry V i j : wfm r1 r2 V -> (i < r1)%nat -> (j < r2)%nat ->
  Mget (mmd2 Rops A B r2 V) i j = rsum r1 (fun k => Mget A i k * rsum r2 (fun l => Mget V k l * Mget B j l)).
Proof.
  intros W Hi Hj. unfold mmd2.
  assert (WT : wfm r2 r2 (mtranspose Rops r2 B)) by (apply wfm_transpose, WBm).
  assert (WVB : wfm r1 r2 (matmul Rops r2 V (mtranspose Rops r2 B))) by (apply wfm_matmul, W).
  rewrite (mget_matmul_g r1 r1 r2) by assumption. apply rsum_ext. intros k Hk. f_equal.
  rewrite (mget_matmul_g r1 r2 r2) by assumption. apply rsum_ext. intros l Hl. f_equal.
  apply mget_transpose; [exact Hl | rewrite (proj1 WBm); exact Hj].
Qed.
Lemma fista2_grad_wfm V : wfm r1 r2 V -> wfm r1 r2 (fista2_grad Rops UtM A B r2 sp rd V).
Proof.
  intros W. unfold fista2_grad. apply wfm_mmap2; [|exact W]. apply wfm_mmap2; [now apply wfm_mmap | apply mmd2_wfm].
Qed.
Lemma fista2_grad_entry V i j : wfm r1 r2 V -> (i < r1)%nat -> (j < r2)%nat ->
  Mget (fista2_grad Rops UtM A B r2 sp rd V) i j =
  rsum r1 (fun k => Mget A i k * rsum r2 (fun l => Mget V k l * Mget B j l)) - Mget UtM i j + sp + 2 * rd * Mget V i j.
Proof.
  intros W Hi Hj. unfold fista2_grad.
  assert (W1 : wfm r1 r2 (mmap (fopp Rops) UtM)) by now apply wfm_mmap.
  assert (W2 : wfm r1 r2 (mmd2 Rops A B r2 V)) by apply mmd2_wfm.
  assert (W3 : wfm r1 r2 (mmap2 (fadd Rops) (mmap (fopp Rops) UtM) (mmd2 Rops A B r2 V))) by now apply wfm_mmap2.
  rewrite (mget_mmap2 r1 r2) by assumption. rewrite (mget_mmap2 r1 r2) by assumption.
  rewrite (mget_mmap r1 r2) by assumption. rewrite mmd2_entry by assumption.
  unfold two. cbn [fadd fmul fopp f1 Rops]. ring.
Qed.

Theorem fista2_fixed_point_kkt V : 0 < lr -> wfm r1 r2 V -> fista2_new Rops UtM A B r2 true sp rd lr eps V = V ->
  forall i j, (i < r1)%nat -> (j < r2)%nat ->
    let g := rsum r1 (fun k => Mget A i k * rsum r2 (fun l => Mget V k l * Mget B j l)) - Mget UtM i j + sp + 2 * rd * Mget V i j in
    eps <= Mget V i j /\ 0 <= g /\ (Mget V i j - eps) * g = 0.
Proof.
  intros Hlr W Hfix i j Hi Hj. cbv zeta. rewrite <- fista2_grad_entry by assumption.
  exact (prox_step_fixed_kkt r1 r2 lr eps V _ Hlr W (fista2_grad_wfm V W) Hfix i j Hi Hj).
Qed.
Theorem fista2_kkt_fixed_point V : 0 < lr -> wfm r1 r2 V ->
  (forall i j, (i < r1)%nat -> (j < r2)%nat ->
    let g := rsum r1 (fun k => Mget A i k * rsum r2 (fun l => Mget V k l * Mget B j l)) - Mget UtM i j + sp + 2 * rd * Mget V i j in
    eps <= Mget V i j /\ 0 <= g /\ (Mget V i j - eps) * g = 0) ->
  fista2_new Rops UtM A B r2 true sp rd lr eps V = V.
Proof.
  intros Hlr W HK. unfold fista2_new. apply (kkt_prox_step_fixed r1 r2 lr eps V _ Hlr W (fista2_grad_wfm V W)).
  intros i j Hi Hj. rewrite fista2_grad_entry by assumption. exact (HK i j Hi Hj).
Qed.
End Fista2Facts.
