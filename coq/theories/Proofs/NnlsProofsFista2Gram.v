(* The Kronecker form of two GRAM matrices is positive semidefinite: if A[i,k] = sum_m Ua[m,i] Ua[m,k] and
   B[j,l] = sum_n Ub[n,j] Ub[n,l] (the cross-product matrices factor^T factor that non_negative_tucker_hals passes to fista), then
   quad (r1 r2) (kronG A B r2) d = sum_m sum_n (sum_p Ua[m, p / r2] Ub[n, p mod r2] d_p)^2 >= 0.
   This discharges the PSD hypothesis of C13_fista_list_fixed_point_optimal / C13_fista_list_rate for that use. *)
From Coq Require Import List Arith Bool Reals Lra Lia Psatz.
From TLV Require Import Base.Ops Base.PyList Base.Tensor Base.RSum Model.Nnls Proofs.NnlsProofs Proofs.NnlsProofsFista Proofs.NnlsProofsFista2 Proofs.NnlsProofsFista2Opt Proofs.NnlsProofsFista2Kron.
Import ListNotations.
Open Scope R_scope.

Lemma sq_rsum N (c : nat -> R) : (rsum N c)^2 = rsum N (fun p => rsum N (fun q => c p * c q)).
Proof.
  replace ((rsum N c)^2) with (rsum N c * rsum N c) by ring.
  rewrite <- rsum_scale at 1.
  rewrite (rsum_ext N (fun p => rsum N c * c p) (fun p => rsum N (fun q => c p * c q))); [reflexivity|].
  intros p _. rewrite rsum_scale. ring.
Qed.
Lemma rsum_exchange3 N M (f : nat -> nat -> nat -> R) :
  rsum N (fun p => rsum N (fun q => rsum M (fun m => f p q m))) = rsum M (fun m => rsum N (fun p => rsum N (fun q => f p q m))).
Proof.
  rewrite (rsum_ext N _ (fun p => rsum M (fun m => rsum N (fun q => f p q m)))) by (intros p _; apply rsum_exchange).
  apply rsum_exchange.
Qed.
Lemma rsum_mul M1 M2 (u v : nat -> R) : rsum M1 u * rsum M2 v = rsum M1 (fun m => rsum M2 (fun n => u m * v n)).
Proof.
  rewrite (Rmult_comm (rsum M1 u)). rewrite <- rsum_scale. apply rsum_ext. intros m _.
  rewrite Rmult_comm. rewrite <- rsum_scale. reflexivity.
Qed.

Lemma gram_form_psd N m1 m2 (a b : nat -> nat -> R) (d : nat -> R) :
  quad N (fun p q => rsum m1 (fun m => a m p * a m q) * rsum m2 (fun n => b n p * b n q)) d =
  rsum m1 (fun m => rsum m2 (fun n => (rsum N (fun p => a m p * b n p * d p))^2)).
Proof.
  unfold quad.
  rewrite (rsum_ext N _ (fun p => rsum N (fun q => rsum m1 (fun m => rsum m2 (fun n => (a m p * b n p * d p) * (a m q * b n q * d q)))))).
  2:{ intros p _. apply rsum_ext. intros q _. rewrite rsum_mul.
      match goal with |- _ * ?S * _ = _ => set (SS := S) end.
      replace (d p * SS * d q) with ((d p * d q) * SS) by ring. unfold SS.
      rewrite <- rsum_scale. apply rsum_ext. intros m _.
      rewrite <- rsum_scale. apply rsum_ext. intros n _. ring. }
  rewrite rsum_exchange3. apply rsum_ext. intros m _.
  rewrite rsum_exchange3. apply rsum_ext. intros n _.
  now rewrite sq_rsum.
Qed.

Theorem kron_gram_psd (A B : mat) (r1 r2 m1 m2 : nat) (Ua Ub : nat -> nat -> R) :
  (forall i k, (i < r1)%nat -> (k < r1)%nat -> Mget A i k = rsum m1 (fun m => Ua m i * Ua m k)) ->
  (forall j l, (j < r2)%nat -> (l < r2)%nat -> Mget B j l = rsum m2 (fun n => Ub n j * Ub n l)) ->
  forall d, 0 <= quad (r1 * r2) (kronG A B r2) d.
Proof.
  intros HA HB d.
  rewrite (quad_ext (r1 * r2) (kronG A B r2)
             (fun p q => rsum m1 (fun m => Ua m (p / r2)%nat * Ua m (q / r2)%nat) * rsum m2 (fun n => Ub n (p mod r2)%nat * Ub n (q mod r2)%nat)) d).
  - rewrite (gram_form_psd (r1 * r2) m1 m2 (fun m p => Ua m (p / r2)%nat) (fun n p => Ub n (p mod r2)%nat) d).
    apply rsum_nonneg. intros m _. apply rsum_nonneg. intros n _. apply pow2_ge_0.
  - intros p q Hp Hq. unfold kronG.
    destruct (flat_bounds r1 r2 p Hp) as (Hi & Hj & _). destruct (flat_bounds r1 r2 q Hq) as (Hk & Hl & _).
    now rewrite HA, HB.
Qed.

(* non-vacuity: A = [[4, 2], [2, 1]] = u^T u with u = (2, 1) (a SINGULAR cross-product matrix), B = (1) *)
Definition g2_A : mat := [[4; 2]; [2; 1]].
Definition g2_U : nat -> nat -> R := fun _ i => match i with O => 2 | _ => 1 end.
Example kron_gram_hypotheses_satisfiable :
  (forall i k, (i < 2)%nat -> (k < 2)%nat -> Mget g2_A i k = rsum 1 (fun m => g2_U m i * g2_U m k)) /\
  (forall j l, (j < 1)%nat -> (l < 1)%nat -> Mget f2_B j l = rsum 1 (fun n => 1 * 1)).
Proof.
  split.
  - intros [|[|i]] [|[|k]] Hi Hk; try lia; cbn [rsum]; unfold mget, mrow, g2_A, g2_U; cbn; ring.
  - intros [|j] [|l] Hj Hl; try lia. cbn [rsum]. unfold mget, mrow, f2_B. cbn. ring.
Qed.
