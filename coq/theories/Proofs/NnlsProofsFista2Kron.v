(* fista with a list [A, B] as UtU IS fista on the Kronecker matrix (Model/Nnls.v, Sections Fista2 and Fista):
   with the row-major flattening  flatM X = the (r1 r2) x 1 column of the entries X[p / r2, p mod r2]  and
   kronM = the (r1 r2) x (r1 r2) matrix A[p / r2, q / r2] B[p mod r2, q mod r2],
      flatM (fista2 [A, B] x0 betas) = fista kronM (flatM x0) betas        (same stopping decisions, same result)
   for every start, step, tol, epsilon, non_negative flag and momentum list.  Every theorem about the matrix branch
   (descent, O(1/K^2) rate, iterates) therefore speaks about the list branch of an order-2 unknown. *)
From Coq Require Import List Arith Bool Reals Lra Lia Psatz.
From TLV Require Import Base.Ops Base.PyList Base.Tensor Base.RSum Model.Nnls Proofs.NnlsProofs Proofs.NnlsProofsFista Proofs.NnlsProofsFista2 Proofs.NnlsProofsFista2Opt Proofs.NnlsProofsFistaRate.
Import ListNotations.
Open Scope R_scope.

(* ---------- list sums as rsum ---------- *)
Lemma fold_add_rsum (l : list R) : forall a, fold_left Rplus l a = a + rsum (length l) (fun i => nth i l 0).
Proof.
  induction l as [|x l IH]; intros a; [cbn; ring|].
  cbn [fold_left length]. rewrite IH. rewrite rsum_shift. cbn [nth]. ring.
Qed.
Lemma vsum_rsum (l : list R) : vsum Rops l = rsum (length l) (fun i => nth i l 0).
Proof. unfold vsum. cbn [fadd f0 Rops]. rewrite fold_add_rsum. ring. Qed.
Lemma msum_rsum r n (X : mat) : wfm r n X -> msum Rops X = rsum r (fun i => rsum n (fun j => Mget X i j)).
Proof.
  intros [L Rw]. unfold msum. rewrite vsum_rsum, map_length, L. apply rsum_ext. intros i Hi.
  rewrite (nth_map' _ X i [] 0) by lia. rewrite vsum_rsum, Rw by exact Hi. reflexivity.
Qed.

Section Kron.
Variables (r1 r2 : nat).

Definition flatM (X : mat) : mat := map (fun p => [Mget X (p / r2) (p mod r2)]) (seq 0 (r1 * r2)).
Definition kronM (A B : mat) : mat :=
  map (fun p => map (fun q => Mget A (p / r2) (q / r2) * Mget B (p mod r2) (q mod r2)) (seq 0 (r1 * r2))) (seq 0 (r1 * r2)).

Lemma flatM_wfm X : wfm (r1 * r2) 1 (flatM X).
Proof.
  unfold flatM. split; [now rewrite map_length, seq_length|]. intros i Hi. now rewrite nth_map_seq.
Qed.
Lemma kronM_wfm A B : wfm (r1 * r2) (r1 * r2) (kronM A B).
Proof.
  unfold kronM. split; [now rewrite map_length, seq_length|]. intros i Hi. rewrite nth_map_seq by exact Hi.
  now rewrite map_length, seq_length.
Qed.
Lemma mget_flatM X p : (p < r1 * r2)%nat -> Mget (flatM X) p 0 = flatf r2 X p.
Proof. intros Hp. unfold flatM, mget, mrow. rewrite nth_map_seq by exact Hp. reflexivity. Qed.
Lemma mget_kronM A B p q : (p < r1 * r2)%nat -> (q < r1 * r2)%nat -> Mget (kronM A B) p q = kronG A B r2 p q.
Proof.
  intros Hp Hq. unfold kronM, mget, mrow. rewrite nth_map_seq by exact Hp. rewrite nth_map_seq by exact Hq. reflexivity.
Qed.
Lemma flat_bounds p : (p < r1 * r2)%nat -> (p / r2 < r1)%nat /\ (p mod r2 < r2)%nat /\ p = (p / r2 * r2 + p mod r2)%nat.
Proof.
  intros Hp. assert (H2 : (0 < r2)%nat) by (destruct r2; lia).
  split; [apply Nat.div_lt_upper_bound; lia|]. split; [apply Nat.mod_upper_bound; lia|].
  rewrite (Nat.div_mod p r2) at 1 by lia. lia.
Qed.
(* a column matrix is determined by its entries (p, 0) *)
Lemma col_ext (X Y : mat) : wfm (r1 * r2) 1 X -> wfm (r1 * r2) 1 Y ->
  (forall p, (p < r1 * r2)%nat -> Mget X p 0 = Mget Y p 0) -> X = Y.
Proof.
  intros WX WY H. apply (wfm_ext (r1 * r2) 1); try assumption. intros i j Hi Hj. assert (j = 0%nat) by lia. subst j. now apply H.
Qed.

Lemma flatM_mmap2 f X Y : wfm r1 r2 X -> wfm r1 r2 Y -> flatM (mmap2 f X Y) = mmap2 f (flatM X) (flatM Y).
Proof.
  intros WX WY. apply col_ext; [apply flatM_wfm | apply wfm_mmap2; apply flatM_wfm|].
  intros p Hp. destruct (flat_bounds p Hp) as (Hi & Hj & _).
  rewrite mget_flatM by exact Hp. unfold flatf. rewrite (mget_mmap2 r1 r2) by assumption.
  rewrite (mget_mmap2 (r1 * r2) 1) by (try apply flatM_wfm; lia). rewrite !mget_flatM by exact Hp. reflexivity.
Qed.
Lemma flatM_mmap f X : wfm r1 r2 X -> flatM (mmap f X) = mmap f (flatM X).
Proof.
  intros WX. apply col_ext; [apply flatM_wfm | apply wfm_mmap; apply flatM_wfm|].
  intros p Hp. destruct (flat_bounds p Hp) as (Hi & Hj & _).
  rewrite mget_flatM by exact Hp. unfold flatf. rewrite (mget_mmap r1 r2) by assumption.
  rewrite (mget_mmap (r1 * r2) 1) by (try apply flatM_wfm; lia). rewrite mget_flatM by exact Hp. reflexivity.
Qed.
Lemma msum_flatM X : wfm r1 r2 X -> msum Rops (flatM X) = msum Rops X.
Proof.
  intros WX. rewrite (msum_rsum (r1 * r2) 1 _ (flatM_wfm X)), (msum_rsum r1 r2 X WX).
  rewrite (rsum_ext (r1 * r2) _ (flatf r2 X)) by (intros p Hp; cbn [rsum]; rewrite mget_flatM by exact Hp; ring).
  rewrite rsum_flat. apply rsum_ext. intros i Hi. apply rsum_ext. intros j Hj. now apply flatf_unflat.
Qed.

Section Run.
Variables (UtM A B : mat) (nonneg : bool) (sp rd lr tol eps : R).
Hypothesis WA : wfm r1 r1 A.
Hypothesis WBm : wfm r2 r2 B.
Hypothesis WM : wfm r1 r2 UtM.

Lemma flatM_grad V : wfm r1 r2 V ->
  flatM (fista2_grad Rops UtM A B r2 sp rd V) = fista_grad Rops (flatM UtM) (kronM A B) 1 sp rd (flatM V).
Proof.
  intros W. apply col_ext; [apply flatM_wfm | apply (fista_grad_wfm (flatM UtM) (kronM A B) (r1 * r2) 1 sp rd (kronM_wfm A B) (flatM_wfm UtM)); apply flatM_wfm|].
  intros p Hp. destruct (flat_bounds p Hp) as (Hi & Hj & Ep).
  rewrite mget_flatM by exact Hp. unfold flatf at 1.
  rewrite (fista2_grad_entry UtM A B r1 r2 sp rd WA WBm WM V _ _ W Hi Hj).
  rewrite (fista_grad_entry (flatM UtM) (kronM A B) (r1 * r2) 1 sp rd (kronM_wfm A B) (flatM_wfm UtM) (flatM V) p 0%nat (flatM_wfm V) Hp) by lia.
  rewrite <- (kron_grad_entry UtM A B r1 r2 sp rd V (p / r2) (p mod r2) Hj). rewrite <- Ep.
  unfold qp_grad, Gf, bf, colf. rewrite !mget_flatM by exact Hp.
  f_equal. f_equal. f_equal. apply rsum_ext. intros q Hq. rewrite mget_kronM, mget_flatM by assumption. reflexivity.
Qed.
Lemma flatM_new V : wfm r1 r2 V ->
  flatM (fista2_new Rops UtM A B r2 nonneg sp rd lr eps V) = fista_new Rops (flatM UtM) (kronM A B) 1 nonneg sp rd lr eps (flatM V).
Proof.
  intros W. unfold fista2_new, fista_new.
  assert (WG : wfm r1 r2 (fista2_grad Rops UtM A B r2 sp rd V)) by exact (fista2_grad_wfm UtM A B r1 r2 sp rd WA WM V W).
  rewrite flatM_mmap by (now apply wfm_mmap2). rewrite flatM_mmap2 by assumption. now rewrite flatM_grad.
Qed.
Lemma flatM_nrm x xn : wfm r1 r2 x -> wfm r1 r2 xn -> fista_nrm Rops (flatM x) (flatM xn) = fista_nrm Rops x xn.
Proof.
  intros Wx Wn. unfold fista_nrm. rewrite <- flatM_mmap2 by assumption. rewrite <- flatM_mmap by (now apply wfm_mmap2).
  apply msum_flatM. now apply wfm_mmap, wfm_mmap2.
Qed.

(* the two loops take the same decisions and return the same point *)
Lemma flatM_trace betas : forall first norm0 x xu, wfm r1 r2 x -> wfm r1 r2 xu ->
  let t2 := fista2_trace Rops UtM A B r2 nonneg sp rd lr tol eps betas first norm0 x xu in
  let t1 := fista_trace Rops (flatM UtM) (kronM A B) 1 nonneg sp rd lr tol eps betas first norm0 (flatM x) (flatM xu) in
  fst t2 = fst t1 /\ flatM (snd t2) = snd t1.
Proof.
  induction betas as [|beta rest IH]; intros first norm0 x xu Wx Wu; cbv zeta; [split; reflexivity|].
  cbn [fista2_trace fista_trace]. cbv zeta.
  assert (Wn : wfm r1 r2 (fista2_new Rops UtM A B r2 nonneg sp rd lr eps xu)) by exact (fista2_new_wfm UtM A B r1 r2 sp rd lr eps WA WM nonneg xu Wu).
  rewrite <- (flatM_new xu Wu). rewrite (flatM_nrm x _ Wx Wn).
  destruct (fltb _ _ _); [split; reflexivity|].
  set (xn := fista2_new Rops UtM A B r2 nonneg sp rd lr eps xu) in *.
  assert (Wd : wfm r1 r2 (mmap2 (fsub Rops) xn x)) by now apply wfm_mmap2.
  assert (Wu' : wfm r1 r2 (mmap2 (fun a d => fadd Rops a (fmul Rops beta d)) xn (mmap2 (fsub Rops) xn x))) by now apply wfm_mmap2.
  rewrite <- (flatM_mmap2 (fsub Rops) xn x Wn Wx).
  rewrite <- (flatM_mmap2 (fun a d => fadd Rops a (fmul Rops beta d)) xn _ Wn Wd).
  match goal with |- context [fista2_trace _ _ _ _ _ _ _ _ _ _ _ rest ?f ?n0 ?a ?b] => destruct (IH f n0 a b Wn Wu') as [E1 E2] end.
  cbv zeta in E1, E2. cbn [fst snd]. rewrite E1, E2. split; reflexivity.
Qed.

Theorem fista2_is_fista_on_kronecker x0 betas : wfm r1 r2 x0 ->
  flatM (fista2 Rops UtM A B r2 nonneg sp rd lr tol eps x0 betas) =
  fista Rops (flatM UtM) (kronM A B) 1 nonneg sp rd lr tol eps (flatM x0) betas.
Proof.
  intros W. unfold fista2, fista. rewrite <- fista_trace_snd.
  exact (proj2 (flatM_trace betas true (f0 Rops) x0 x0 W W)).
Qed.
End Run.

(* ---------- transfer of the O(1/K^2) rate to the list branch ---------- *)
Lemma mget_kronM_out A B p q : (r1 * r2 <= p \/ r1 * r2 <= q)%nat -> Mget (kronM A B) p q = 0.
Proof.
  intros H. unfold mget, mrow. destruct (lt_dec p (r1 * r2)) as [Hp|Hp].
  - unfold kronM. rewrite nth_map_seq by exact Hp. apply nth_overflow. rewrite map_length, seq_length. lia.
  - rewrite (nth_overflow (kronM A B)) by (unfold kronM; rewrite map_length, seq_length; lia). now destruct q.
Qed.
Lemma Gf_kronM_sym A B : (forall i k, Mget A i k = Mget A k i) -> (forall j l, Mget B j l = Mget B l j) ->
  forall p q, Gf (kronM A B) p q = Gf (kronM A B) q p.
Proof.
  intros HA HB p q. unfold Gf. destruct (lt_dec p (r1 * r2)) as [Hp|Hp]; destruct (lt_dec q (r1 * r2)) as [Hq|Hq].
  - rewrite !mget_kronM by assumption. now apply kronG_sym.
  - rewrite !mget_kronM_out by lia. reflexivity.
  - rewrite !mget_kronM_out by lia. reflexivity.
  - rewrite !mget_kronM_out by lia. reflexivity.
Qed.
Lemma quad_ext n (G G' : nat -> nat -> R) d : (forall i j, (i < n)%nat -> (j < n)%nat -> G i j = G' i j) -> quad n G d = quad n G' d.
Proof. intros H. unfold quad. apply rsum_ext. intros i Hi. apply rsum_ext. intros j Hj. now rewrite H. Qed.
Lemma qp_f_ext n (G G' : nat -> nat -> R) (b b' : nat -> R) l1 l2 (v v' : nat -> R) :
  (forall i j, (i < n)%nat -> (j < n)%nat -> G i j = G' i j) -> (forall i, (i < n)%nat -> b i = b' i) -> (forall i, (i < n)%nat -> v i = v' i) ->
  qp_f n G b l1 l2 v = qp_f n G' b' l1 l2 v'.
Proof.
  intros HG Hb Hv. unfold qp_f, quad.
  rewrite (rsum_ext n (fun i => rsum n (fun j => v i * G i j * v j)) (fun i => rsum n (fun j => v' i * G' i j * v' j)))
    by (intros i Hi; apply rsum_ext; intros j Hj; now rewrite HG, !Hv).
  rewrite (rsum_ext n (fun i => b i * v i) (fun i => b' i * v' i)) by (intros i Hi; now rewrite Hb, Hv).
  rewrite (rsum_ext n v v') by exact Hv.
  rewrite (rsum_ext n (fun i => v i ^ 2) (fun i => v' i ^ 2)) by (intros i Hi; now rewrite Hv).
  reflexivity.
Qed.

(* Beck-Teboulle rate for the list branch (non_negative=True, tol = 0: the loop never stops early), in the flattened index:
     2 lr t_K^2 (F(x_K) - F(s)) <= |x_0 - s|^2   for every comparison point s >= epsilon,
   F = qp_f (r1 r2) kronG (flatf UtM) sp rd = the matrix objective obj2 (qp_f_flat) *)
Theorem fista2_rate (UtM A B : mat) (sp rd lr eps : R) :
  wfm r1 r1 A -> wfm r2 r2 B -> wfm r1 r2 UtM ->
  (forall i k, Mget A i k = Mget A k i) -> (forall j l, Mget B j l = Mget B l j) ->
  (forall d, 0 <= quad (r1 * r2) (kronG A B r2) d) -> 0 <= rd -> 0 < lr ->
  (forall d : nat -> R, lr * (quad (r1 * r2) (kronG A B r2) d + 2 * rd * rsum (r1 * r2) (fun i => (d i)^2)) <= rsum (r1 * r2) (fun i => (d i)^2)) ->
  forall t : nat -> R, (forall k, t (S k) ^ 2 - t (S k) = t k ^ 2) -> (forall k, 1 <= t (S k)) ->
  forall s : nat -> R, (forall p, (p < r1 * r2)%nat -> eps <= s p) ->
  forall (K : nat) (x0 : mat), t 0%nat = 0 -> t 1%nat = 1 -> wfm r1 r2 x0 ->
  2 * lr * t K ^ 2 * (qp_f (r1 * r2) (kronG A B r2) (flatf r2 UtM) sp rd (flatf r2 (fista2 Rops UtM A B r2 true sp rd lr 0 eps x0 (map (beta_of t) (seq 0 K))))
                      - qp_f (r1 * r2) (kronG A B r2) (flatf r2 UtM) sp rd s)
  <= rsum (r1 * r2) (fun p => (flatf r2 x0 p - s p)^2).
Proof.
  intros WA WB WM HA HB Hpsd Hrd Hlr HL t Trec Tge s Hs K x0 T0 T1 W.
  assert (EG : forall i j, (i < r1 * r2)%nat -> (j < r1 * r2)%nat -> Gf (kronM A B) i j = kronG A B r2 i j) by (intros; unfold Gf; now apply mget_kronM).
  assert (Hpsd' : forall d, 0 <= quad (r1 * r2) (Gf (kronM A B)) d) by (intros d; rewrite (quad_ext _ _ _ d EG); apply Hpsd).
  assert (HL' : forall d : nat -> R, lr * (quad (r1 * r2) (Gf (kronM A B)) d + 2 * rd * rsum (r1 * r2) (fun i => (d i)^2)) <= rsum (r1 * r2) (fun i => (d i)^2))
    by (intros d; rewrite (quad_ext _ _ _ d EG); apply HL).
  pose proof (fista_rate (flatM UtM) (kronM A B) (r1 * r2) 1 sp rd lr eps 0%nat (kronM_wfm A B) (flatM_wfm UtM) (Nat.lt_0_1)
                (Gf_kronM_sym A B HA HB) Hpsd' Hrd Hlr HL' t Trec Tge s Hs K (flatM x0) T0 T1 (flatM_wfm x0)) as H.
  rewrite <- (fista_tol0_runs_all (flatM UtM) (kronM A B) 1 true sp rd lr eps _ true (f0 Rops)) in H.
  change (fista_loop Rops (flatM UtM) (kronM A B) 1 true sp rd lr 0 eps (map (beta_of t) (seq 0 K)) true (f0 Rops) (flatM x0) (flatM x0))
    with (fista Rops (flatM UtM) (kronM A B) 1 true sp rd lr 0 eps (flatM x0) (map (beta_of t) (seq 0 K))) in H.
  rewrite <- (fista2_is_fista_on_kronecker UtM A B true sp rd lr 0 eps WA WB WM x0 _ W) in H.
  rewrite (qp_f_ext (r1 * r2) (Gf (kronM A B)) (kronG A B r2) (bf (flatM UtM) 0) (flatf r2 UtM) sp rd
             (colf (flatM (fista2 Rops UtM A B r2 true sp rd lr 0 eps x0 (map (beta_of t) (seq 0 K)))) 0)
             (flatf r2 (fista2 Rops UtM A B r2 true sp rd lr 0 eps x0 (map (beta_of t) (seq 0 K))))) in H
    by (try exact EG; intros i Hi; unfold bf, colf; now apply mget_flatM).
  rewrite (qp_f_ext (r1 * r2) (Gf (kronM A B)) (kronG A B r2) (bf (flatM UtM) 0) (flatf r2 UtM) sp rd s s) in H
    by (try exact EG; try reflexivity; intros i Hi; unfold bf; now apply mget_flatM).
  rewrite (rsum_ext (r1 * r2) (fun i => (Mget (flatM x0) i 0 - s i) ^ 2) (fun p => (flatf r2 x0 p - s p) ^ 2)) in H
    by (intros i Hi; now rewrite mget_flatM).
  exact H.
Qed.
End Kron.

(* non-vacuity of the data hypotheses of fista2_rate on the instance of NnlsProofsFista2Opt (A = diag(2, 1), B = (1), lr = 1/2) *)
Lemma f2_lipschitz : forall d : nat -> R,
  (1 / 2) * (quad (2 * 1) (kronG f2_A f2_B 1) d + 2 * 0 * rsum (2 * 1) (fun i => (d i)^2)) <= rsum (2 * 1) (fun i => (d i)^2).
Proof.
  intros d. unfold quad, kronG. cbn [Nat.mul Nat.add rsum]. unfold mget, mrow, f2_A, f2_B. cbn.
  pose proof (pow2_ge_0 (d 0%nat)). pose proof (pow2_ge_0 (d 1%nat)). nra.
Qed.
