(* fista with a list [A, B] as UtU (Model/Nnls.v, Section Fista2), continued:
   (1) every returned point of a run with at least one iteration is >= epsilon (non_negative=True);
   (2) with tol = 0 ... not needed here;
   (3) a fixed point of the projected step (epsilon = 0) is a GLOBAL minimiser over the non-negative orthant of the
       Kronecker-structured penalised objective, read through the row-major flattening p = i * r2 + j:
       G(p, q) = A[p / r2, q / r2] * B[p mod r2, q mod r2]  (the Kronecker product A (x) B),  b(p) = UtM[p / r2, p mod r2].
       The flattening is index arithmetic only (rsum_flat); the optimisation argument is Base.RSum.kkt_optimal.
       Positive semidefiniteness of the Kronecker form is a HYPOTHESIS on the form (that A (x) B is PSD when A and B are
       is not proved here). *)
From Coq Require Import List Arith Bool Reals Lra Lia Psatz.
From TLV Require Import Base.Ops Base.PyList Base.Tensor Base.RSum Model.Nnls Proofs.NnlsProofs Proofs.NnlsProofsFista Proofs.NnlsProofsFista2.
Import ListNotations.
Open Scope R_scope.

(* ---------- sums over a product range ---------- *)
Lemma rsum_app a b f : rsum (a + b) f = rsum a f + rsum b (fun j => f (a + j)%nat).
Proof.
  induction b as [|b IH]; [rewrite Nat.add_0_r; cbn [rsum]; ring|].
  rewrite Nat.add_succ_r. cbn [rsum]. rewrite IH. ring.
Qed.
Lemma rsum_flat r1 r2 f : rsum (r1 * r2) f = rsum r1 (fun i => rsum r2 (fun j => f (i * r2 + j)%nat)).
Proof.
  induction r1 as [|r1 IH]; [reflexivity|].
  cbn [rsum]. rewrite <- IH. replace (S r1 * r2)%nat with (r1 * r2 + r2)%nat by lia. apply rsum_app.
Qed.
Lemma flat_div i j r2 : (j < r2)%nat -> ((i * r2 + j) / r2 = i)%nat.
Proof. intros H. rewrite Nat.div_add_l by lia. rewrite Nat.div_small by exact H. lia. Qed.
Lemma flat_mod i j r2 : (j < r2)%nat -> ((i * r2 + j) mod r2 = j)%nat.
Proof. intros H. rewrite Nat.add_comm, Nat.mod_add by lia. now apply Nat.mod_small. Qed.

Section Fista2More.
Variables (UtM A B : mat) (r1 r2 : nat) (sp rd lr tol eps : R).
Hypothesis WA : wfm r1 r1 A.
Hypothesis WBm : wfm r2 r2 B.
Hypothesis WM : wfm r1 r2 UtM.

Lemma fista2_new_wfm nonneg V : wfm r1 r2 V -> wfm r1 r2 (fista2_new Rops UtM A B r2 nonneg sp rd lr eps V).
Proof.
  intros W. unfold fista2_new. apply wfm_mmap, wfm_mmap2; [exact W|].
  exact (fista2_grad_wfm UtM A B r1 r2 sp rd WA WM V W).
Qed.
Lemma fista2_new_ge V i j : wfm r1 r2 V -> (i < r1)%nat -> (j < r2)%nat ->
  eps <= Mget (fista2_new Rops UtM A B r2 true sp rd lr eps V) i j.
Proof.
  intros W Hi Hj. unfold fista2_new.
  assert (W1 : wfm r1 r2 (fista2_grad Rops UtM A B r2 sp rd V)) by exact (fista2_grad_wfm UtM A B r1 r2 sp rd WA WM V W).
  assert (W2 : wfm r1 r2 (mmap2 (fun a g => fsub Rops a (fmul Rops lr g)) V (fista2_grad Rops UtM A B r2 sp rd V))) by now apply wfm_mmap2.
  rewrite (mget_mmap r1 r2) by assumption.
  unfold fista_prox, fltb. cbn [fleb Rops]. unfold Rleb.
  destruct (Rle_dec eps _) as [H|H]; cbn [negb]; lra.
Qed.

(* the loop returns its start or a projected step of some point of the right shape *)
Lemma fista2_trace_shape nonneg betas : forall first norm0 x xu, wfm r1 r2 x -> wfm r1 r2 xu ->
  let y := snd (fista2_trace Rops UtM A B r2 nonneg sp rd lr tol eps betas first norm0 x xu) in
  (betas = [] /\ y = x) \/ exists w, wfm r1 r2 w /\ y = fista2_new Rops UtM A B r2 nonneg sp rd lr eps w.
Proof.
  induction betas as [|beta rest IH]; intros first norm0 x xu Wx Wu; cbv zeta; [left; split; reflexivity|].
  right. cbn [fista2_trace]. cbv zeta. destruct (fltb _ _ _); [exists xu; split; [exact Wu | reflexivity]|].
  cbn [snd].
  match goal with |- context [fista2_trace _ _ _ _ _ _ _ _ _ _ _ rest ?f ?n0 ?a ?b] =>
    destruct (IH f n0 a b) as [[-> ->]|(w & Ww & ->)] end.
  - now apply fista2_new_wfm.
  - apply wfm_mmap2; [now apply fista2_new_wfm|]. apply wfm_mmap2; [now apply fista2_new_wfm | exact Wx].
  - exists xu. split; [exact Wu | reflexivity].
  - exists w. split; [exact Ww | reflexivity].
Qed.
Theorem fista2_ge_eps x0 betas i j : wfm r1 r2 x0 -> betas <> [] -> (i < r1)%nat -> (j < r2)%nat ->
  eps <= Mget (fista2 Rops UtM A B r2 true sp rd lr tol eps x0 betas) i j.
Proof.
  intros W Hb Hi Hj. unfold fista2.
  destruct (fista2_trace_shape true betas true 0 x0 x0 W W) as [[E _]|(w & Ww & E)]; [contradiction|].
  cbv zeta in E. change (f0 Rops) with 0. rewrite E. now apply fista2_new_ge.
Qed.

(* ---------- the Kronecker problem through the row-major flattening ---------- *)
Definition kronG : nat -> nat -> R := fun p q => Mget A (p / r2) (q / r2) * Mget B (p mod r2) (q mod r2).
Definition flatf (V : mat) : nat -> R := fun p => Mget V (p / r2) (p mod r2).

Lemma kronG_sym : (forall i k, Mget A i k = Mget A k i) -> (forall j l, Mget B j l = Mget B l j) ->
  forall p q, kronG p q = kronG q p.
Proof. intros HA HB p q. unfold kronG. rewrite (HA (p / r2)%nat), (HB (p mod r2)%nat). reflexivity. Qed.

(* the gradient of the flattened problem at p = i * r2 + j is the gradient entry (i, j) used by the code *)
Lemma kron_grad_entry V i j : (j < r2)%nat ->
  qp_grad (r1 * r2) kronG (flatf UtM) sp rd (flatf V) (i * r2 + j) =
  rsum r1 (fun k => Mget A i k * rsum r2 (fun l => Mget V k l * Mget B j l)) - Mget UtM i j + sp + 2 * rd * Mget V i j.
Proof.
  intros Hj. unfold qp_grad. rewrite rsum_flat. unfold flatf at 2 3. rewrite flat_div, flat_mod by exact Hj.
  f_equal. f_equal. f_equal. apply rsum_ext. intros k Hk.
  rewrite <- rsum_scale. apply rsum_ext. intros l Hl.
  unfold kronG, flatf. rewrite !flat_div, !flat_mod by assumption. ring.
Qed.

(* KKT (= fixed point of the projected step, C13_fista_list_fixed_point_kkt) => global optimum over the non-negative orthant *)
Theorem fista2_fixed_point_optimal V :
  (forall i k, Mget A i k = Mget A k i) -> (forall j l, Mget B j l = Mget B l j) ->
  (forall d, 0 <= quad (r1 * r2) kronG d) -> 0 <= rd -> 0 < lr -> wfm r1 r2 V ->
  fista2_new Rops UtM A B r2 true sp rd lr 0 V = V ->
  forall z : nat -> R, (forall p, (p < r1 * r2)%nat -> 0 <= z p) ->
  qp_f (r1 * r2) kronG (flatf UtM) sp rd (flatf V) <= qp_f (r1 * r2) kronG (flatf UtM) sp rd z.
Proof.
  intros HA HB Hpsd Hrd Hlr W Hfix z Hz.
  apply (kkt_optimal (r1 * r2) kronG (flatf UtM) sp rd (kronG_sym HA HB) Hpsd (flatf V) z Hrd); [|exact Hz].
  intros p Hp.
  assert (H2 : (0 < r2)%nat) by (destruct r2; [lia | lia]).
  assert (Hj : (p mod r2 < r2)%nat) by (apply Nat.mod_upper_bound; lia).
  assert (Hi : (p / r2 < r1)%nat) by (apply Nat.div_lt_upper_bound; lia).
  assert (Ep : p = (p / r2 * r2 + p mod r2)%nat) by (rewrite (Nat.div_mod p r2) at 1 by lia; lia).
  pose proof (fista2_fixed_point_kkt UtM A B r1 r2 sp rd lr 0 WA WBm WM V Hlr W Hfix (p / r2)%nat (p mod r2)%nat Hi Hj) as K.
  cbv zeta in K. rewrite <- (kron_grad_entry V (p / r2) (p mod r2) Hj) in K. rewrite <- Ep in K.
  change (Mget V (p / r2) (p mod r2)) with (flatf V p) in K.
  destruct K as (K1 & K2 & K3). split; [lra | split; [exact K2 | lra]].
Qed.

(* the flattened objective IS the matrix objective  <X, A X B^T>/2 - <UtM, X> + sp sum X + rd sum X^2 *)
Definition obj2 (X : nat -> nat -> R) : R :=
  rsum r1 (fun i => rsum r2 (fun j => X i j * rsum r1 (fun k => Mget A i k * rsum r2 (fun l => X k l * Mget B j l)))) / 2
  - rsum r1 (fun i => rsum r2 (fun j => Mget UtM i j * X i j))
  + sp * rsum r1 (fun i => rsum r2 (fun j => X i j))
  + rd * rsum r1 (fun i => rsum r2 (fun j => (X i j)^2)).
Lemma qp_f_flat (z : nat -> R) :
  qp_f (r1 * r2) kronG (flatf UtM) sp rd z = obj2 (fun i j => z (i * r2 + j)%nat).
Proof.
  unfold qp_f, obj2.
  assert (Q : quad (r1 * r2) kronG z =
    rsum r1 (fun i => rsum r2 (fun j => z (i * r2 + j)%nat * rsum r1 (fun k => Mget A i k * rsum r2 (fun l => z (k * r2 + l)%nat * Mget B j l))))).
  { unfold quad. rewrite rsum_flat. apply rsum_ext. intros i Hi. apply rsum_ext. intros j Hj. rewrite rsum_flat.
    rewrite <- rsum_scale. apply rsum_ext. intros k Hk. rewrite <- !rsum_scale. apply rsum_ext. intros l Hl.
    unfold kronG. rewrite !flat_div, !flat_mod by assumption. ring. }
  assert (L : rsum (r1 * r2) (fun p => flatf UtM p * z p) = rsum r1 (fun i => rsum r2 (fun j => Mget UtM i j * z (i * r2 + j)%nat))).
  { rewrite rsum_flat. apply rsum_ext. intros i Hi. apply rsum_ext. intros j Hj. unfold flatf. now rewrite flat_div, flat_mod. }
  rewrite Q, L, !rsum_flat. reflexivity.
Qed.
Lemma flatf_unflat V i j : (j < r2)%nat -> flatf V (i * r2 + j) = Mget V i j.
Proof. intros Hj. unfold flatf. now rewrite flat_div, flat_mod. Qed.

(* the statement in matrix form: a fixed point V of the projected step minimises obj2 over all entrywise non-negative Z *)
Theorem fista2_fixed_point_optimal_matrix V :
  (forall i k, Mget A i k = Mget A k i) -> (forall j l, Mget B j l = Mget B l j) ->
  (forall d, 0 <= quad (r1 * r2) kronG d) -> 0 <= rd -> 0 < lr -> wfm r1 r2 V ->
  fista2_new Rops UtM A B r2 true sp rd lr 0 V = V ->
  forall Z : nat -> nat -> R, (forall i j, 0 <= Z i j) ->
  obj2 (fun i j => Mget V i j) <= obj2 Z.
Proof.
  intros HA HB Hpsd Hrd Hlr W Hfix Z HZ.
  pose proof (fista2_fixed_point_optimal V HA HB Hpsd Hrd Hlr W Hfix (fun p => Z (p / r2)%nat (p mod r2)%nat) (fun p _ => HZ _ _)) as H.
  rewrite !qp_f_flat in H.
  assert (E1 : obj2 (fun i j => flatf V (i * r2 + j)) = obj2 (fun i j => Mget V i j)).
  { unfold obj2. f_equal; [f_equal; [f_equal|]|].
    - f_equal. apply rsum_ext. intros i Hi. apply rsum_ext. intros j Hj. rewrite flatf_unflat by exact Hj. f_equal.
      apply rsum_ext. intros k Hk. f_equal. apply rsum_ext. intros l Hl. now rewrite flatf_unflat.
    - apply rsum_ext. intros i Hi. apply rsum_ext. intros j Hj. now rewrite flatf_unflat.
    - f_equal. apply rsum_ext. intros i Hi. apply rsum_ext. intros j Hj. now rewrite flatf_unflat.
    - f_equal. apply rsum_ext. intros i Hi. apply rsum_ext. intros j Hj. now rewrite flatf_unflat. }
  assert (E2 : obj2 (fun i j => Z ((i * r2 + j) / r2)%nat ((i * r2 + j) mod r2)%nat) = obj2 Z).
  { unfold obj2. f_equal; [f_equal; [f_equal|]|].
    - f_equal. apply rsum_ext. intros i Hi. apply rsum_ext. intros j Hj. rewrite flat_div, flat_mod by exact Hj. f_equal.
      apply rsum_ext. intros k Hk. f_equal. apply rsum_ext. intros l Hl. now rewrite flat_div, flat_mod.
    - apply rsum_ext. intros i Hi. apply rsum_ext. intros j Hj. now rewrite flat_div, flat_mod.
    - f_equal. apply rsum_ext. intros i Hi. apply rsum_ext. intros j Hj. now rewrite flat_div, flat_mod.
    - f_equal. apply rsum_ext. intros i Hi. apply rsum_ext. intros j Hj. now rewrite flat_div, flat_mod. }
  rewrite E1, E2 in H. exact H.
Qed.
End Fista2More.

(* ---------- non-vacuity: a 2 x 1 unknown with one inactive and one active bound ---------- *)
Definition f2_A : mat := [[2; 0]; [0; 1]].
Definition f2_B : mat := [[1]].
Definition f2_UtM : mat := [[2]; [-1]].
Definition f2_V : mat := [[1]; [0]].
Lemma f2_wfm : wfm 2 2 f2_A /\ wfm 1 1 f2_B /\ wfm 2 1 f2_UtM /\ wfm 2 1 f2_V.
Proof.
  repeat match goal with |- _ /\ _ => split end; (split; [reflexivity|]); intros [|[|i]] Hi; try lia; reflexivity.
Qed.
Lemma f2_sym : (forall i k, Mget f2_A i k = Mget f2_A k i) /\ (forall j l, Mget f2_B j l = Mget f2_B l j).
Proof.
  split.
  - intros [|[|[|i]]] [|[|[|k]]]; try reflexivity; unfold mget, mrow, f2_A; cbn; try (destruct k; reflexivity); try (destruct i; reflexivity); try (destruct i, k; reflexivity).
  - intros [|[|j]] [|[|l]]; try reflexivity; unfold mget, mrow, f2_B; cbn; try (destruct l; reflexivity); try (destruct j; reflexivity); try (destruct j, l; reflexivity).
Qed.
Lemma f2_psd : forall d, 0 <= quad (2 * 1) (kronG f2_A f2_B 1) d.
Proof.
  intros d. unfold quad, kronG. cbn [Nat.mul Nat.add rsum]. unfold mget, mrow, f2_A, f2_B. cbn.
  pose proof (pow2_ge_0 (d 0%nat)). pose proof (pow2_ge_0 (d 1%nat)). nra.
Qed.
Lemma f2_fixed : fista2_new Rops f2_UtM f2_A f2_B 1 true 0 0 (1 / 2) 0 f2_V = f2_V.
Proof.
  destruct f2_wfm as (WA & WB & WM & WV).
  apply (fista2_kkt_fixed_point f2_UtM f2_A f2_B 2 1 0 0 (1 / 2) 0 WA WB WM f2_V); [lra | exact WV|].
  intros [|[|i]] [|j] Hi Hj; try lia; cbv zeta; cbn [rsum]; unfold mget, mrow, f2_A, f2_B, f2_UtM, f2_V; cbn; repeat split; lra.
Qed.
Example fista2_opt_hypotheses_satisfiable :
  wfm 2 2 f2_A /\ wfm 1 1 f2_B /\ wfm 2 1 f2_UtM /\ wfm 2 1 f2_V /\
  (forall i k, Mget f2_A i k = Mget f2_A k i) /\ (forall j l, Mget f2_B j l = Mget f2_B l j) /\
  (forall d, 0 <= quad (2 * 1) (kronG f2_A f2_B 1) d) /\
  fista2_new Rops f2_UtM f2_A f2_B 1 true 0 0 (1 / 2) 0 f2_V = f2_V /\
  Mget f2_V 0 0 = 1 /\ Mget f2_V 1 0 = 0.
Proof.
  destruct f2_wfm as (WA & WB & WM & WV). destruct f2_sym as (SA & SB).
  repeat match goal with |- _ /\ _ => split end; try assumption; try exact f2_psd; try exact f2_fixed; reflexivity.
Qed.
