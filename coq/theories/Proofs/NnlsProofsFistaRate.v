(* The O(1/k^2) rate of FISTA (Beck & Teboulle 2009, Theorem 4.4) for the model's accelerated loop, per column:
   with a step lr <= 1/L, a symmetric PSD Gram matrix, ridge >= 0, a start whose column j is feasible and the momentum
   sequence t_0 = 0, t_1 = 1, t_{k+1}^2 - t_{k+1} = t_k^2 (the code's momentum = (1 + sqrt(1 + 4 momentum_old^2)) / 2),
       2 lr t_K^2 (F_j(x_K) - F_j(s)) <= |x_0[:,j] - s|^2      for EVERY feasible s  (in particular the optimum)
   where x_K is the K-th iterate of the loop run without its stopping rule (tol = 0) and F_j the penalised objective
   of column j.  With t_K >= (K+1)/2:  F_j(x_K) - F_j(s) <= 2 |x_0 - s|^2 / (lr (K+1)^2). *)
From Coq Require Import List Arith Bool Reals Lra Lia Psatz.
From TLV Require Import Base.Ops Base.PyList Base.Tensor Base.RSum Model.Nnls Proofs.NnlsProofs Proofs.NnlsProofsFista Proofs.NnlsProofsEps Proofs.NnlsProofsConv.
Import ListNotations.
Open Scope R_scope.

Lemma rsum_lin4 n (c1 c2 c3 c4 : R) (f1 f2 f3 f4 : nat -> R) :
  rsum n (fun i => c1 * f1 i + c2 * f2 i + c3 * f3 i + c4 * f4 i) = c1 * rsum n f1 + c2 * rsum n f2 + c3 * rsum n f3 + c4 * rsum n f4.
Proof.
  rewrite (rsum_add n (fun i => c1 * f1 i + c2 * f2 i + c3 * f3 i) (fun i => c4 * f4 i)).
  rewrite (rsum_add n (fun i => c1 * f1 i + c2 * f2 i) (fun i => c3 * f3 i)).
  rewrite (rsum_add n (fun i => c1 * f1 i) (fun i => c2 * f2 i)). now rewrite !rsum_scale.
Qed.

Section Prox.
Variables (r : nat) (G : nat -> nat -> R) (b : nat -> R) (sp rd lr eps : R).
Hypothesis Gsym : forall i j, G i j = G j i.
Hypothesis Gpsd : forall d, 0 <= quad r G d.
Hypothesis Hrd : 0 <= rd.
Hypothesis Hlr : 0 < lr.
Hypothesis HL : forall d : nat -> R, lr * (quad r G d + 2 * rd * rsum r (fun i => (d i)^2)) <= rsum r (fun i => (d i)^2).
Notation F := (qp_f r G b sp rd).
Notation gr := (qp_grad r G b sp rd).

(* p is the projected gradient step of y (on the indices < r) *)
Definition isstep (y p : nat -> R) : Prop :=
  forall i, (i < r)%nat -> p i = (let t := y i - lr * gr y i in if Rlt_dec t eps then eps else t).

(* Beck-Teboulle Lemma 2.3, multiplied by lr: for every feasible x *)
Lemma prox_ineq y p x : isstep y p -> (forall i, (i < r)%nat -> eps <= x i) ->
  rsum r (fun i => (p i - y i)^2) / 2 + rsum r (fun i => (y i - x i) * (p i - y i)) <= lr * (F x - F p).
Proof.
  intros HS Hx.
  pose proof (qp_diff r G b sp rd Gsym y p) as D1. pose proof (qp_diff r G b sp rd Gsym y x) as D2. cbv zeta in D1, D2.
  set (N := rsum r (fun i => (p i - y i)^2)) in *. set (A := rsum r (fun i => (y i - x i) * (p i - y i))).
  set (S1 := rsum r (fun i => (p i - y i) * gr y i)) in *. set (S2 := rsum r (fun i => (x i - y i) * gr y i)) in *.
  set (Qd := quad r G (fun i => p i - y i)) in *. set (Qe := quad r G (fun i => x i - y i)) in *.
  set (E2 := rsum r (fun i => (x i - y i)^2)) in *.
  assert (HQe : 0 <= Qe) by apply Gpsd.
  assert (HE2 : 0 <= E2) by (apply rsum_nonneg; intros; apply pow2_ge_0).
  pose proof (HL (fun i => p i - y i)) as L1. cbv beta in L1. fold N Qd in L1.
  (* projection: ((p - y) + lr g) (x - p) >= 0 coordinatewise *)
  assert (P : 0 <= (-1) * N + (-1) * A + lr * S2 + (- lr) * S1).
  { unfold N, A, S1, S2. rewrite <- rsum_lin4. apply rsum_nonneg. intros i Hi.
    rewrite (HS i Hi). cbv zeta. specialize (Hx i Hi). set (g := gr y i).
    destruct (Rlt_dec (y i - lr * g) eps) as [H|H].
    - replace (-1 * (eps - y i)^2 + -1 * ((y i - x i) * (eps - y i)) + lr * ((x i - y i) * g) + - lr * ((eps - y i) * g))
        with ((eps - y i + lr * g) * (x i - eps)) by ring.
      apply Rmult_le_pos; lra.
    - replace (-1 * (y i - lr * g - y i)^2 + -1 * ((y i - x i) * (y i - lr * g - y i)) + lr * ((x i - y i) * g) + - lr * ((y i - lr * g - y i) * g))
        with 0 by ring. lra. }
  assert (M1 : 0 <= lr * (Qe / 2 + rd * E2)).
  { apply Rmult_le_pos; [lra|]. assert (0 <= rd * E2) by (apply Rmult_le_pos; assumption). lra. }
  assert (EQ : lr * (F x - F p) = lr * (Qe / 2 + rd * E2) + lr * S2 - lr * (Qd / 2 + rd * N) - lr * S1).
  { replace (F x - F p) with ((F x - F y) - (F p - F y)) by ring. rewrite D1, D2. ring. }
  rewrite EQ. lra.
Qed.
End Prox.

(* ---------- the momentum sequence of the code ---------- *)
Fixpoint tseq (k : nat) : R := match k with O => 0 | S k' => (1 + sqrt (1 + 4 * (tseq k')^2)) / 2 end.
Lemma tseq_facts k : 0 <= tseq k /\ (tseq (S k))^2 - tseq (S k) = (tseq k)^2 /\ 1 <= tseq (S k) /\ tseq k + / 2 <= tseq (S k).
Proof.
  assert (P : forall t, 0 <= t -> let t' := (1 + sqrt (1 + 4 * t^2)) / 2 in t'^2 - t' = t^2 /\ 1 <= t' /\ t + / 2 <= t').
  { intros t Ht t'. set (s := sqrt (1 + 4 * t^2)) in *.
    assert (H0 : 0 <= 1 + 4 * t^2) by nra.
    assert (Hs : s * s = 1 + 4 * t^2) by (apply sqrt_sqrt; exact H0).
    assert (Hs0 : 0 <= s) by apply sqrt_pos.
    assert (Hs1 : 1 <= s) by nra.
    assert (Hs2 : 2 * t <= s) by nra.
    unfold t'. repeat split; [field_simplify; nra | lra | lra]. }
  induction k as [|k IH].
  - split; [cbn; lra|]. cbn [tseq]. destruct (P 0 ltac:(lra)) as (A & B & C). cbv zeta in A, B, C. auto.
  - destruct IH as (I0 & _ & I1 & _). assert (H0 : 0 <= tseq (S k)) by lra.
    split; [exact H0|]. change (tseq (S (S k))) with ((1 + sqrt (1 + 4 * (tseq (S k))^2)) / 2).
    destruct (P (tseq (S k)) H0) as (A & B & C). cbv zeta in A, B, C. auto.
Qed.
Lemma tseq_1 : tseq 1 = 1.
Proof. cbn. replace (1 + 4 * (0 * (0 * 1))) with 1 by ring. rewrite sqrt_1. field. Qed.
Lemma tseq_lower k : (INR (S k) + 1) / 2 <= tseq (S k).
Proof.
  induction k as [|k IH]; [rewrite tseq_1; cbn; lra|]. destruct (tseq_facts (S k)) as (_ & _ & _ & H).
  rewrite S_INR. lra.
Qed.

Section Rate.
Variables (UtM UtU : mat) (r n : nat) (sp rd lr eps : R) (j : nat).
Hypothesis WG : wfm r r UtU.
Hypothesis WB : wfm r n UtM.
Hypothesis Hj : (j < n)%nat.
Notation G := (Gf UtU).
Hypothesis Gsym : forall i k, G i k = G k i.
Hypothesis Gpsd : forall d, 0 <= quad r G d.
Hypothesis Hrd : 0 <= rd.
Hypothesis Hlr : 0 < lr.
Hypothesis HL : forall d : nat -> R, lr * (quad r G d + 2 * rd * rsum r (fun i => (d i)^2)) <= rsum r (fun i => (d i)^2).
Variable t : nat -> R.
Hypothesis t_rec : forall k, (t (S k))^2 - t (S k) = (t k)^2.
Hypothesis t_ge1 : forall k, 1 <= t (S k).
Variable s : nat -> R.        (* the comparison point: any feasible vector, e.g. the optimum of column j *)
Hypothesis s_feas : forall i, (i < r)%nat -> eps <= s i.
Notation F := (qp_f r G (bf UtM j) sp rd).
Notation new := (fista_new Rops UtM UtU n true sp rd lr eps).
Definition beta_of (k : nat) : R := (t (S k) - 1) / t (S (S k)).
Definition momentum_step (beta : R) (xn x : mat) : mat := mmap2 (fun a d => fadd Rops a (fmul Rops beta d)) xn (mmap2 (fsub Rops) xn x).

(* the potential of Beck & Teboulle at time k on the state (x, x_update) *)
Definition potential (k : nat) (x xu : mat) : R :=
  2 * lr * (t k)^2 * (F (colf x j) - F s) + rsum r (fun i => (t (S k) * Mget xu i j - (t (S k) - 1) * Mget x i j - s i)^2).

Lemma potential_step k (x xu : mat) : wfm r n x -> wfm r n xu -> (t (S k) = 1 \/ forall i, (i < r)%nat -> eps <= Mget x i j) ->
  let xn := new xu in let xu' := momentum_step (beta_of k) xn x in
  wfm r n xn /\ wfm r n xu' /\ (forall i, (i < r)%nat -> eps <= Mget xn i j) /\ potential (S k) xn xu' <= potential k x xu.
Proof.
  intros Wx Wu Hf xn xu'.
  assert (Wn : wfm r n xn) by (apply (fista_new_wfm UtM UtU r n sp rd lr eps); assumption).
  assert (Wd : wfm r n (mmap2 (fsub Rops) xn x)) by (apply wfm_mmap2; assumption).
  assert (Wu' : wfm r n xu') by (apply wfm_mmap2; assumption).
  assert (Fn : forall i, (i < r)%nat -> eps <= Mget xn i j) by (intros i Hi; apply (fista_new_ge UtM UtU r n sp rd lr eps); assumption).
  split; [exact Wn|]. split; [exact Wu'|]. split; [exact Fn|].
  assert (HS : isstep r G (bf UtM j) sp rd lr eps (colf xu j) (colf xn j)).
  { intros i Hi. unfold colf at 1. apply (fista_new_entry UtM UtU r n sp rd lr eps WG WB xu i j Wu Hi Hj). }
  pose proof (prox_ineq r G (bf UtM j) sp rd lr eps Gsym Gpsd Hrd Hlr HL (colf xu j) (colf xn j) s HS s_feas) as Ib.
  set (N := rsum r (fun i => (colf xn j i - colf xu j i)^2)) in *.
  set (A := rsum r (fun i => (colf xu j i - colf x j i) * (colf xn j i - colf xu j i))) in *.
  set (B := rsum r (fun i => (colf xu j i - s i) * (colf xn j i - colf xu j i))) in *.
  set (T := t (S k)) in *.
  assert (HT : 1 <= T) by apply t_ge1.
  assert (HT' : t (S (S k)) <> 0) by (pose proof (t_ge1 (S k)); lra).
  (* the new potential's quadratic term is |T xn - (T - 1) x - s|^2 *)
  assert (U1 : rsum r (fun i => (t (S (S k)) * Mget xu' i j - (t (S (S k)) - 1) * Mget xn i j - s i)^2)
             = rsum r (fun i => (T * Mget xn i j - (T - 1) * Mget x i j - s i)^2)).
  { apply rsum_ext. intros i Hi. unfold xu', momentum_step.
    rewrite (mget_mmap2 r n) by assumption. rewrite (mget_mmap2 r n) by assumption. cbn [fadd fsub fmul Rops].
    unfold beta_of. fold T. f_equal. field. exact HT'. }
  (* |T xn - (T-1) x - s|^2 - |T xu - (T-1) x - s|^2 = T^2 N + 2 T ((T-1) A + B) *)
  assert (U2 : rsum r (fun i => (T * Mget xn i j - (T - 1) * Mget x i j - s i)^2)
             - rsum r (fun i => (T * Mget xu i j - (T - 1) * Mget x i j - s i)^2) = T^2 * N + 2 * T * ((T - 1) * A + B)).
  { rewrite <- rsum_sub. unfold N, A, B, colf.
    replace (T^2 * rsum r (fun i => (Mget xn i j - Mget xu i j)^2)
             + 2 * T * ((T - 1) * rsum r (fun i => (Mget xu i j - Mget x i j) * (Mget xn i j - Mget xu i j))
                        + rsum r (fun i => (Mget xu i j - s i) * (Mget xn i j - Mget xu i j))))
      with (T^2 * rsum r (fun i => (Mget xn i j - Mget xu i j)^2)
            + (2 * T * (T - 1)) * rsum r (fun i => (Mget xu i j - Mget x i j) * (Mget xn i j - Mget xu i j))
            + (2 * T) * rsum r (fun i => (Mget xu i j - s i) * (Mget xn i j - Mget xu i j)) + 0 * rsum r (fun _ => 0)) by ring.
    rewrite <- rsum_lin4. apply rsum_ext. intros i _. ring. }
  unfold potential. fold T. rewrite U1.
  set (vk := F (colf x j) - F s) in *. set (vk1 := F (colf xn j) - F s) in *.
  assert (Ib' : N / 2 + B <= lr * (0 - vk1)) by (unfold vk1; lra).
  assert (TR : (t k)^2 = T^2 - T) by (unfold T; rewrite <- t_rec; ring).
  rewrite TR.
  assert (K1 : 0 <= (T - 1) * (lr * (vk - vk1) - (N / 2 + A))).
  { destruct Hf as [Hf|Hf].
    - fold T in Hf. rewrite Hf. lra.   (* first iteration: no extrapolation, the previous point need not be feasible *)
    - pose proof (prox_ineq r G (bf UtM j) sp rd lr eps Gsym Gpsd Hrd Hlr HL (colf xu j) (colf xn j) (colf x j) HS Hf) as Ia.
      fold N A in Ia. apply Rmult_le_pos; [lra|]. unfold vk, vk1. lra. }
  assert (K2 : 0 <= T * (lr * (0 - vk1) - (N / 2 + B))) by (apply Rmult_le_pos; lra).
  nra.
Qed.

Notation run := (fista_run UtM UtU n true sp rd lr eps).

Lemma potential_run K : forall k x xu, wfm r n x -> wfm r n xu -> (t (S k) = 1 \/ forall i, (i < r)%nat -> eps <= Mget x i j) ->
  2 * lr * (t (k + K))^2 * (F (colf (run (map beta_of (seq k K)) x xu) j) - F s) <= potential k x xu.
Proof.
  induction K as [|K IH]; intros k x xu Wx Wu Hf.
  - cbn [seq map fista_run]. rewrite Nat.add_0_r. unfold potential.
    assert (0 <= rsum r (fun i => (t (S k) * Mget xu i j - (t (S k) - 1) * Mget x i j - s i)^2)) by (apply rsum_nonneg; intros; apply pow2_ge_0).
    lra.
  - cbn [seq map fista_run]. cbv zeta.
    destruct (potential_step k x xu Wx Wu Hf) as (Wn & Wu' & Fn & Hp). cbv zeta in Wn, Wu', Fn, Hp.
    replace (k + S K)%nat with (S k + K)%nat by lia.
    eapply Rle_trans; [apply (IH (S k)); [assumption | assumption | right; exact Fn] | exact Hp].
Qed.

(* the rate: K iterations from x0 (= x_update), column j of x0 feasible, t 0 = 0 and t 1 = 1 *)
Theorem fista_rate K (x0 : mat) : t 0%nat = 0 -> t 1%nat = 1 -> wfm r n x0 ->
  2 * lr * (t K)^2 * (F (colf (run (map beta_of (seq 0 K)) x0 x0) j) - F s) <= rsum r (fun i => (Mget x0 i j - s i)^2).
Proof.
  intros T0 T1 W. pose proof (potential_run K 0 x0 x0 W W (or_introl T1)) as H. cbn [plus] in H.
  eapply Rle_trans; [exact H|]. unfold potential. rewrite T0, T1. apply Req_le.
  replace (2 * lr * 0 ^ 2 * (F (colf x0 j) - F s)) with 0 by ring. rewrite Rplus_0_l.
  apply rsum_ext. intros i _. ring.
Qed.
End Rate.

(* with the code's own momentum sequence, K >= 1 iterations: F_j(x_K) - F_j(s) <= 2 |x0 - s|^2 / (lr (K+1)^2), in multiplied form
   (for a comparison point s below which the iterate has not fallen, e.g. the optimum) *)
Theorem fista_rate_code UtM UtU r n sp rd lr eps j (s : nat -> R) K' (x0 : mat) :
  wfm r r UtU -> wfm r n UtM -> (j < n)%nat -> (forall i k, Gf UtU i k = Gf UtU k i) -> (forall d, 0 <= quad r (Gf UtU) d) ->
  0 <= rd -> 0 < lr ->
  (forall d : nat -> R, lr * (quad r (Gf UtU) d + 2 * rd * rsum r (fun i => (d i)^2)) <= rsum r (fun i => (d i)^2)) ->
  (forall i, (i < r)%nat -> eps <= s i) -> wfm r n x0 ->
  let K := S K' in
  let xK := fista_run UtM UtU n true sp rd lr eps (map (beta_of tseq) (seq 0 K)) x0 x0 in
  0 <= qp_f r (Gf UtU) (bf UtM j) sp rd (colf xK j) - qp_f r (Gf UtU) (bf UtM j) sp rd s ->
  lr * (INR K + 1)^2 * (qp_f r (Gf UtU) (bf UtM j) sp rd (colf xK j) - qp_f r (Gf UtU) (bf UtM j) sp rd s)
  <= 2 * rsum r (fun i => (Mget x0 i j - s i)^2).
Proof.
  intros WG WB Hj Gsym Gpsd Hrd Hlr HL Hs W K xK Hv.
  assert (Trec : forall k, (tseq (S k))^2 - tseq (S k) = (tseq k)^2) by (intros k; apply tseq_facts).
  assert (Tge : forall k, 1 <= tseq (S k)) by (intros k; apply tseq_facts).
  pose proof tseq_1 as T1.
  pose proof (fista_rate UtM UtU r n sp rd lr eps j WG WB Hj Gsym Gpsd Hrd Hlr HL tseq Trec Tge s Hs K x0 eq_refl T1 W) as H.
  fold xK in H. set (v := qp_f r (Gf UtU) (bf UtM j) sp rd (colf xK j) - qp_f r (Gf UtU) (bf UtM j) sp rd s) in *.
  set (C := rsum r (fun i => (Mget x0 i j - s i)^2)) in *.
  assert (TK : INR K + 1 <= 2 * tseq K).
  { unfold K. pose proof (tseq_lower K') as TL'. lra. }
  assert (Hk : 0 <= INR K) by apply pos_INR.
  assert (Q2 : (INR K + 1)^2 <= 4 * (tseq K)^2) by nra.
  assert (0 <= lr * v) by (apply Rmult_le_pos; lra). nra.
Qed.

(* the statement for the model's function `fista` itself (tol = 0: the stopping rule never fires), ANY bound epsilon and ANY start
   (feasible or not, e.g. the zeros of x=None with the default epsilon = 1e-8), against a KKT point X at the bound epsilon (the optimum
   over {v >= epsilon}): the objective gap of column j after K >= 1 iterations is >= 0 and at most 2 |x0 - X|^2 / (lr (K+1)^2) *)
Theorem fista_rate_optimum UtM UtU r n sp rd lr eps j (X : mat) K' (x0 : mat) :
  wfm r r UtU -> wfm r n UtM -> (j < n)%nat -> (forall i k, Gf UtU i k = Gf UtU k i) -> (forall d, 0 <= quad r (Gf UtU) d) ->
  0 <= rd -> 0 < lr ->
  (forall d : nat -> R, lr * (quad r (Gf UtU) d + 2 * rd * rsum r (fun i => (d i)^2)) <= rsum r (fun i => (d i)^2)) ->
  (forall i, (i < r)%nat -> eps <= Mget X i j /\ 0 <= qp_grad r (Gf UtU) (bf UtM j) sp rd (colf X j) i /\
                            (Mget X i j - eps) * qp_grad r (Gf UtU) (bf UtM j) sp rd (colf X j) i = 0) ->
  wfm r n x0 ->
  let K := S K' in
  let xK := fista Rops UtM UtU n true sp rd lr 0 eps x0 (map (beta_of tseq) (seq 0 K)) in
  let gap := qp_f r (Gf UtU) (bf UtM j) sp rd (colf xK j) - qp_f r (Gf UtU) (bf UtM j) sp rd (colf X j) in
  0 <= gap /\ lr * (INR K + 1)^2 * gap <= 2 * rsum r (fun i => (Mget x0 i j - Mget X i j)^2).
Proof.
  intros WG WB Hj Gsym Gpsd Hrd Hlr HL XK W K xK gap.
  assert (E : xK = fista_run UtM UtU n true sp rd lr eps (map (beta_of tseq) (seq 0 K)) x0 x0).
  { unfold xK, fista. change (f0 Rops) with 0. apply fista_tol0_runs_all. }
  assert (Hgap : 0 <= gap).
  { unfold gap. assert (qp_f r (Gf UtU) (bf UtM j) sp rd (colf X j) <= qp_f r (Gf UtU) (bf UtM j) sp rd (colf xK j)); [|lra].
    apply (NnlsProofsEps.kkt_optimal_eps r (Gf UtU) (bf UtM j) sp rd eps); auto.
    intros i Hi. unfold colf at 1. unfold xK. apply (fista_ge_eps UtM UtU r n sp rd lr 0 eps WG WB x0); auto. unfold K. cbn. discriminate. }
  split; [exact Hgap|].
  pose proof (fista_rate_code UtM UtU r n sp rd lr eps j (colf X j) K' x0 WG WB Hj Gsym Gpsd Hrd Hlr HL
                (fun i Hi => proj1 (XK i Hi)) W) as H. cbv zeta in H. fold K in H. rewrite <- E in H.
  unfold gap in *. unfold colf at 3 in H. apply H. exact Hgap.
Qed.

(* with its stopping rule (any tol) the loop returns the iterate of the rule-free run at which it stopped: a prefix of the run *)
Lemma fista_loop_is_prefix_run UtM UtU n nonneg sp rd lr tol eps betas : forall first norm0 x xu,
  exists m, (m <= length betas)%nat /\ (betas <> [] -> (1 <= m)%nat) /\
    fista_loop Rops UtM UtU n nonneg sp rd lr tol eps betas first norm0 x xu = fista_run UtM UtU n nonneg sp rd lr eps (firstn m betas) x xu.
Proof.
  induction betas as [|beta rest IH]; intros first norm0 x xu; [exists 0%nat; split; [lia | split; [congruence | reflexivity]]|].
  cbn [fista_loop]. cbv zeta. destruct (fltb _ _ _).
  - exists 1%nat. split; [cbn; lia | split; [lia | reflexivity]].
  - match goal with |- context [fista_loop _ _ _ _ _ _ _ _ _ _ rest ?f ?n0 ?a ?b] => destruct (IH f n0 a b) as (m & Hm & _ & E) end.
    exists (S m). split; [cbn; lia|]. split; [lia|]. cbn [firstn fista_run]. cbv zeta. exact E.
Qed.

Lemma firstn_map_seq {A} (f : nat -> A) m K : (m <= K)%nat -> firstn m (map f (seq 0 K)) = map f (seq 0 m).
Proof.
  intros H. rewrite firstn_map. f_equal. replace K with (m + (K - m))%nat by lia. rewrite seq_app, firstn_app, seq_length.
  replace (m - m)%nat with 0%nat by lia. cbn [firstn]. rewrite app_nil_r. apply firstn_all2. rewrite seq_length. lia.
Qed.

(* the rate for ANY tol: fista returns the iterate m at which it stopped (1 <= m <= n_iter_max), and the bound holds with that m *)
Theorem fista_rate_any_tol UtM UtU r n sp rd lr tol eps j (X : mat) K' (x0 : mat) :
  wfm r r UtU -> wfm r n UtM -> (j < n)%nat -> (forall i k, Gf UtU i k = Gf UtU k i) -> (forall d, 0 <= quad r (Gf UtU) d) ->
  0 <= rd -> 0 < lr ->
  (forall d : nat -> R, lr * (quad r (Gf UtU) d + 2 * rd * rsum r (fun i => (d i)^2)) <= rsum r (fun i => (d i)^2)) ->
  (forall i, (i < r)%nat -> eps <= Mget X i j /\ 0 <= qp_grad r (Gf UtU) (bf UtM j) sp rd (colf X j) i /\
                            (Mget X i j - eps) * qp_grad r (Gf UtU) (bf UtM j) sp rd (colf X j) i = 0) ->
  wfm r n x0 ->
  let y := fista Rops UtM UtU n true sp rd lr tol eps x0 (map (beta_of tseq) (seq 0 (S K'))) in
  let gap := qp_f r (Gf UtU) (bf UtM j) sp rd (colf y j) - qp_f r (Gf UtU) (bf UtM j) sp rd (colf X j) in
  exists m, (1 <= m <= S K')%nat /\ 0 <= gap /\ lr * (INR m + 1)^2 * gap <= 2 * rsum r (fun i => (Mget x0 i j - Mget X i j)^2).
Proof.
  intros WG WB Hj Gsym Gpsd Hrd Hlr HL XK W y gap.
  destruct (fista_loop_is_prefix_run UtM UtU n true sp rd lr tol eps (map (beta_of tseq) (seq 0 (S K'))) true 0 x0 x0) as (m & Hm & H1 & E).
  rewrite map_length, seq_length in Hm. specialize (H1 ltac:(cbn; discriminate)).
  rewrite firstn_map_seq in E by exact Hm.
  exists m. split; [lia|].
  destruct m as [|m']; [lia|].
  pose proof (fista_rate_optimum UtM UtU r n sp rd lr eps j X m' x0 WG WB Hj Gsym Gpsd Hrd Hlr HL XK W) as R1. cbv zeta in R1.
  assert (EY : y = fista Rops UtM UtU n true sp rd lr 0 eps x0 (map (beta_of tseq) (seq 0 (S m')))).
  { unfold y, fista. change (f0 Rops) with 0. rewrite E. symmetry. apply fista_tol0_runs_all. }
  unfold gap. rewrite EY. exact R1.
Qed.

Lemma tseq_props : tseq 0 = 0 /\ tseq 1 = 1 /\
  forall k, tseq (S k) ^ 2 - tseq (S k) = tseq k ^ 2 /\ 1 <= tseq (S k) /\ (INR (S k) + 1) / 2 <= tseq (S k).
Proof. split; [reflexivity|]. split; [exact tseq_1|]. intros k. destruct (tseq_facts k) as (_ & A & B & _). split; [exact A|]. split; [exact B | apply tseq_lower]. Qed.

(* ---------- the ITERATES converge to the solution (well-conditioned problem) ---------- *)
(* strong convexity at a KKT point X (bound eps): for every x >= eps,  f x - f X >= (x - X)'G(x - X)/2 + ridge |x - X|^2 *)
Lemma kkt_strong_gap n (G : nat -> nat -> R) b l1 l2 eps (X x : nat -> R) :
  (forall i j, G i j = G j i) ->
  (forall i, (i < n)%nat -> eps <= X i /\ 0 <= qp_grad n G b l1 l2 X i /\ (X i - eps) * qp_grad n G b l1 l2 X i = 0) ->
  (forall i, (i < n)%nat -> eps <= x i) ->
  quad n G (fun i => x i - X i) / 2 + l2 * rsum n (fun i => (x i - X i)^2) <= qp_f n G b l1 l2 x - qp_f n G b l1 l2 X.
Proof.
  intros Gsym HK Hx. rewrite (qp_diff n G b l1 l2 Gsym X x). cbv zeta.
  assert (0 <= rsum n (fun i => (x i - X i) * qp_grad n G b l1 l2 X i)); [|lra].
  apply rsum_nonneg. intros i Hi. destruct (HK i Hi) as (A & B & C). specialize (Hx i Hi).
  replace ((x i - X i) * qp_grad n G b l1 l2 X i) with ((x i - eps) * qp_grad n G b l1 l2 X i - (X i - eps) * qp_grad n G b l1 l2 X i) by ring.
  rewrite C. nra.
Qed.

(* with mu > 0 a lower bound of the penalised form (mu |d|^2 <= d'Gd + 2 ridge |d|^2: the well-conditioned problem of the property) the
   point returned by fista -- any tol, stopped at iteration m -- is within 4 |x0 - X|^2 / (mu lr (m+1)^2) of the solution X in squared
   distance: the iterates themselves converge, with rate O(1/m), and X is the only limit *)
Theorem fista_distance_rate UtM UtU r n sp rd lr tol eps mu j (X : mat) K' (x0 : mat) :
  wfm r r UtU -> wfm r n UtM -> (j < n)%nat -> (forall i k, Gf UtU i k = Gf UtU k i) -> (forall d, 0 <= quad r (Gf UtU) d) ->
  0 <= rd -> 0 < lr ->
  (forall d : nat -> R, lr * (quad r (Gf UtU) d + 2 * rd * rsum r (fun i => (d i)^2)) <= rsum r (fun i => (d i)^2)) ->
  (forall d : nat -> R, mu * rsum r (fun i => (d i)^2) <= quad r (Gf UtU) d + 2 * rd * rsum r (fun i => (d i)^2)) ->
  (forall i, (i < r)%nat -> eps <= Mget X i j /\ 0 <= qp_grad r (Gf UtU) (bf UtM j) sp rd (colf X j) i /\
                            (Mget X i j - eps) * qp_grad r (Gf UtU) (bf UtM j) sp rd (colf X j) i = 0) ->
  wfm r n x0 ->
  let y := fista Rops UtM UtU n true sp rd lr tol eps x0 (map (beta_of tseq) (seq 0 (S K'))) in
  exists m, (1 <= m <= S K')%nat /\
    lr * (INR m + 1)^2 * (mu * rsum r (fun i => (Mget y i j - Mget X i j)^2)) <= 4 * rsum r (fun i => (Mget x0 i j - Mget X i j)^2).
Proof.
  intros WG WB Hj Gsym Gpsd Hrd Hlr HL Hmu XK W y.
  destruct (fista_rate_any_tol UtM UtU r n sp rd lr tol eps j X K' x0 WG WB Hj Gsym Gpsd Hrd Hlr HL XK W) as (m & Hm & G0 & G1).
  cbv zeta in G0, G1. fold y in G0, G1. exists m. split; [exact Hm|].
  assert (Fy : forall i, (i < r)%nat -> eps <= colf y j i).
  { intros i Hi. unfold colf, y. apply (fista_ge_eps UtM UtU r n sp rd lr tol eps WG WB x0); auto. cbn. discriminate. }
  pose proof (kkt_strong_gap r (Gf UtU) (bf UtM j) sp rd eps (colf X j) (colf y j) Gsym XK Fy) as SG.
  pose proof (Hmu (fun i => colf y j i - colf X j i)) as M1. cbv beta in M1.
  set (D2 := rsum r (fun i => (Mget y i j - Mget X i j)^2)) in *.
  change (rsum r (fun i => (colf y j i - colf X j i)^2)) with D2 in SG, M1.
  set (gap := qp_f r (Gf UtU) (bf UtM j) sp rd (colf y j) - qp_f r (Gf UtU) (bf UtM j) sp rd (colf X j)) in *.
  assert (Hg : mu * D2 <= 2 * gap) by lra.
  assert (HP : 0 <= lr * (INR m + 1)^2) by (apply Rmult_le_pos; [lra | apply pow2_ge_0]).
  assert (lr * (INR m + 1)^2 * (mu * D2) <= lr * (INR m + 1)^2 * (2 * gap)) by (apply Rmult_le_compat_l; assumption).
  lra.
Qed.

(* distance to a KKT point bounds the KKT residuals: with E_i = sum_l |G[i,l]| |y_l - X_l| + 2 ridge |y_i - X_i|,
   gradient_i(y) >= - E_i  and  |(y_i - eps) gradient_i(y)| <= |y_i - eps| E_i + |y_i - X_i| gradient_i(X);
   with fista_distance_rate: the KKT residuals of the returned points tend to zero like O(1/m) *)
Lemma kkt_residual_from_distance n (G : nat -> nat -> R) b l1 l2 eps (X y : nat -> R) i : (i < n)%nat -> 0 <= l2 ->
  eps <= X i -> 0 <= qp_grad n G b l1 l2 X i -> (X i - eps) * qp_grad n G b l1 l2 X i = 0 ->
  let E := rsum n (fun l => Rabs (G i l) * Rabs (y l - X l)) + 2 * l2 * Rabs (y i - X i) in
  - E <= qp_grad n G b l1 l2 y i /\
  Rabs ((y i - eps) * qp_grad n G b l1 l2 y i) <= Rabs (y i - eps) * E + Rabs (y i - X i) * qp_grad n G b l1 l2 X i.
Proof.
  intros Hi Hl2 HX HG HC E.
  pose proof (qp_grad_diff n G b l1 l2 X y i) as D.
  assert (B : Rabs (qp_grad n G b l1 l2 y i - qp_grad n G b l1 l2 X i) <= E).
  { rewrite D. eapply Rle_trans; [apply Rabs_triang|]. unfold E. apply Rplus_le_compat.
    - eapply Rle_trans; [apply rsum_abs|]. apply rsum_le. intros l _. rewrite Rabs_mult. lra.
    - rewrite !Rabs_mult. rewrite (Rabs_pos_eq 2) by lra. rewrite (Rabs_pos_eq l2) by exact Hl2. lra. }
  set (gy := qp_grad n G b l1 l2 y i) in *. set (gX := qp_grad n G b l1 l2 X i) in *.
  assert (B2 : - E <= gy - gX <= E) by (revert B; unfold Rabs; destruct (Rcase_abs (gy - gX)); intros; lra).
  split; [lra|].
  assert (EQ : (y i - eps) * gy = (y i - eps) * (gy - gX) + (y i - X i) * gX).
  { replace ((y i - eps) * (gy - gX) + (y i - X i) * gX) with ((y i - eps) * gy - (X i - eps) * gX) by ring. fold gX in HC. rewrite HC. ring. }
  rewrite EQ.
  eapply Rle_trans; [apply Rabs_triang|]. rewrite !Rabs_mult. rewrite (Rabs_pos_eq gX) by exact HG.
  apply Rplus_le_compat; [|lra]. apply Rmult_le_compat_l; [apply Rabs_pos | exact B].
Qed.
