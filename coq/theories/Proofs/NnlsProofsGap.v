(* Approximate KKT => near-optimal objective ("hence attain the same objective value as a reference solver", quantitatively):
   for a symmetric PSD Gram matrix and ridge >= 0, a non-negative point w whose gradient is >= -d_i and whose
   complementarity products are bounded by c_i has objective at most sum_i (c_i + d_i z_i) above that of ANY non-negative z
   (in particular above the minimum / a reference solver's value).  Applied to the HALS pass: at W = pass(V), epsilon = 0,
   the objective of column j exceeds that of any z >= 0 by at most sum_k D_k (W[k,j] + z_k), D_k the residual bound of
   pass_kkt_residual (small step => small objective gap). *)
From Coq Require Import List Arith Bool Reals Lra Lia Psatz.
From TLV Require Import Base.Ops Base.PyList Base.Tensor Base.RSum Model.Nnls Proofs.NnlsProofs Proofs.NnlsProofsDescent Proofs.NnlsProofsConv Proofs.NnlsProofsFistaRate.
Import ListNotations.
Open Scope R_scope.

Theorem approx_kkt_objective_gap n (G : nat -> nat -> R) b l1 l2 (w z c d : nat -> R) :
  (forall i j, G i j = G j i) -> (forall e, 0 <= quad n G e) -> 0 <= l2 ->
  (forall i, (i < n)%nat -> 0 <= z i) ->
  (forall i, (i < n)%nat -> - d i <= qp_grad n G b l1 l2 w i /\ Rabs (w i * qp_grad n G b l1 l2 w i) <= c i) ->
  qp_f n G b l1 l2 w - qp_f n G b l1 l2 z <= rsum n (fun i => c i + d i * z i).
Proof.
  intros Gsym Gpsd Hl2 Hz Hw.
  pose proof (qp_diff n G b l1 l2 Gsym w z) as D. cbv zeta in D.
  set (e := fun i => z i - w i) in *.
  assert (0 <= quad n G e) by apply Gpsd.
  assert (0 <= rsum n (fun i => (e i)^2)) by (apply rsum_nonneg; intros; apply pow2_ge_0).
  assert (L : - rsum n (fun i => e i * qp_grad n G b l1 l2 w i) <= rsum n (fun i => c i + d i * z i)).
  { replace (- rsum n (fun i => e i * qp_grad n G b l1 l2 w i)) with (rsum n (fun i => (-1) * (e i * qp_grad n G b l1 l2 w i)))
      by (rewrite rsum_scale; ring).
    apply rsum_le. intros i Hi. destruct (Hw i Hi) as [H1 H2]. specialize (Hz i Hi). unfold e.
    set (g := qp_grad n G b l1 l2 w i) in *.
    assert (w i * g <= c i) by (eapply Rle_trans; [apply Rle_abs | exact H2]).
    assert (- (z i * g) <= d i * z i) by nra.
    lra. }
  nra.
Qed.

Section PassGap.
Variables (UtM UtU : mat) (r n : nat) (o : @hopts R).
Hypothesis WG : wfm r r UtU.
Hypothesis WB : wfm r n UtM.
Hypothesis NZ : h_nz o = false.
Hypothesis Gsym : forall i j, Gf UtU i j = Gf UtU j i.
Hypothesis Gpsd : forall e, 0 <= quad r (Gf UtU) e.
Hypothesis Hl2 : 0 <= l2of o.
Hypothesis Hden : forall k, (k < r)%nat -> Gf UtU k k <> 0 -> 0 < Gf UtU k k + 2 * l2of o.
Hypothesis HG : forall k, (k < r)%nat -> Gf UtU k k <> 0.
Hypothesis E0 : h_eps o = 0.

Theorem pass_objective_gap V j (z : nat -> R) : wfm r n V -> (j < n)%nat -> (forall i, (i < r)%nat -> 0 <= z i) ->
  let W := hals_pass Rops UtM UtU n o V in
  qp_f r (Gf UtU) (bf UtM j) (l1of o) (l2of o) (colf W j) - qp_f r (Gf UtU) (bf UtM j) (l1of o) (l2of o) z
  <= rsum r (fun k => resid UtU r W V k j * (Mget W k j + z k)).
Proof.
  intros Wf Hj Hz W.
  pose proof (approx_kkt_objective_gap r (Gf UtU) (bf UtM j) (l1of o) (l2of o) (colf W j) z
                (fun k => Mget W k j * resid UtU r W V k j) (fun k => resid UtU r W V k j) Gsym Gpsd Hl2 Hz) as A.
  assert (HW : forall i, (i < r)%nat ->
     - resid UtU r W V i j <= qp_grad r (Gf UtU) (bf UtM j) (l1of o) (l2of o) (colf W j) i /\
     Rabs (colf W j i * qp_grad r (Gf UtU) (bf UtM j) (l1of o) (l2of o) (colf W j) i) <= Mget W i j * resid UtU r W V i j).
  { intros i Hi. destruct (pass_kkt_residual UtM UtU r n o WG WB NZ Hden HG V i j Wf Hi Hj) as (A1 & A2 & A3).
    cbv zeta in A1, A2, A3. fold W in A1, A2, A3. rewrite E0 in A3. rewrite Rminus_0_r in A3. split; [exact A2 | exact A3]. }
  specialize (A HW). eapply Rle_trans; [exact A|]. apply Req_le. apply rsum_ext. intros k Hk. ring.
Qed.

(* ... hence, for a well-conditioned problem (mu |d|^2 <= d'Gd + 2 ridge |d|^2), the DISTANCE of W = pass(V) to a KKT point X is
   controlled by the step: mu/2 |W[:,j] - X[:,j]|^2 <= sum_k D_k (W[k,j] + X[k,j]).  With the limit theorem (D_k -> 0 along the
   iterates) and the monotone objective (bounded iterates) the HALS iterates approach the solution itself. *)
Theorem pass_distance V j (X : mat) (mu : R) : wfm r n V -> (j < n)%nat ->
  (forall d : nat -> R, mu * rsum r (fun i => (d i)^2) <= quad r (Gf UtU) d + 2 * l2of o * rsum r (fun i => (d i)^2)) ->
  (forall i, (i < r)%nat -> 0 <= Mget X i j /\ 0 <= qp_grad r (Gf UtU) (bf UtM j) (l1of o) (l2of o) (colf X j) i /\
                            Mget X i j * qp_grad r (Gf UtU) (bf UtM j) (l1of o) (l2of o) (colf X j) i = 0) ->
  let W := hals_pass Rops UtM UtU n o V in
  mu / 2 * rsum r (fun k => (Mget W k j - Mget X k j)^2) <= rsum r (fun k => resid UtU r W V k j * (Mget W k j + Mget X k j)).
Proof.
  intros Wf Hj Hmu XK W.
  pose proof (pass_objective_gap V j (colf X j) Wf Hj (fun i Hi => proj1 (XK i Hi))) as G1. cbv zeta in G1. fold W in G1.
  assert (XK' : forall i, (i < r)%nat -> 0 <= colf X j i /\ 0 <= qp_grad r (Gf UtU) (bf UtM j) (l1of o) (l2of o) (colf X j) i /\
                 (colf X j i - 0) * qp_grad r (Gf UtU) (bf UtM j) (l1of o) (l2of o) (colf X j) i = 0).
  { intros i Hi. destruct (XK i Hi) as (A & B & C). unfold colf at 1 3. rewrite Rminus_0_r. auto. }
  assert (FW : forall i, (i < r)%nat -> 0 <= colf W j i).
  { intros i Hi. unfold colf, W. rewrite <- E0. apply (pass_ge_eps UtM UtU r n o WG WB NZ V i j Wf Hi Hj). left. now apply HG. }
  pose proof (kkt_strong_gap r (Gf UtU) (bf UtM j) (l1of o) (l2of o) 0 (colf X j) (colf W j) Gsym XK' FW) as SG.
  pose proof (Hmu (fun i => colf W j i - colf X j i)) as M1. cbv beta in M1.
  unfold colf in SG at 1 2 3 4. unfold colf in M1 at 1 2 3 4 5 6. unfold colf in G1 at 3.
  change (fun k => resid UtU r W V k j * (Mget W k j + colf X j k)) with (fun k => resid UtU r W V k j * (Mget W k j + Mget X k j)) in G1.
  lra.
Qed.
End PassGap.
