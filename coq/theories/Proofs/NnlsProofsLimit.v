(* "Run to convergence" as a LIMIT statement about the iterates of hals_nnls themselves (not only the best one): the squared
   steps are summable (steps_summable), hence tend to zero, hence -- pass_kkt_residual, resid_sq_le -- the KKT residual bounds of
   the m-th iterate tend to zero as m grows. *)
From Coq Require Import List Arith Bool Reals Lra Lia Psatz.
From TLV Require Import Base.Ops Base.PyList Base.Tensor Base.RSum Model.Nnls Proofs.NnlsProofs Proofs.NnlsProofsDescent Proofs.NnlsProofsConv Proofs.NnlsProofsTol0 Proofs.NnlsProofsFista.
Import ListNotations.
Open Scope R_scope.

(* the terms of a non-negative series with bounded partial sums tend to zero (completeness of R) *)
Lemma bounded_sums_terms_to_zero (a : nat -> R) (C : R) :
  (forall m, 0 <= a m) -> (forall M, rsum M a <= C) -> forall eps, 0 < eps -> exists N, forall m, (N <= m)%nat -> a m < eps.
Proof.
  intros Ha HC eps He.
  set (s := fun M => rsum M a).
  assert (G : Un_growing s) by (intros M; unfold s; cbn [rsum]; pose proof (Ha M); lra).
  assert (B : has_ub s) by (exists C; intros x (i & ->); apply HC).
  destruct (growing_cv s G B) as (l & Hl).
  destruct (Hl (eps / 2)) as (N & HN); [lra|].
  exists N. intros m Hm.
  pose proof (HN m ltac:(lia)) as H1. pose proof (HN (S m) ltac:(lia)) as H2.
  unfold R_dist in H1, H2. unfold s in H1, H2. cbn [rsum] in H2.
  apply Rabs_def2 in H1. apply Rabs_def2 in H2. lra.
Qed.

Section Limit.
Variables (UtM UtU : mat) (r n : nat) (o : @hopts R).
Hypothesis WG : wfm r r UtU.
Hypothesis WB : wfm r n UtM.
Hypothesis NZ : h_nz o = false.
Notation G := (Gf UtU).
Hypothesis Gsym : forall i j, G i j = G j i.
Hypothesis Hden : forall k, (k < r)%nat -> G k k <> 0 -> 0 < G k k + 2 * l2of o.
Hypothesis HG : forall k, (k < r)%nat -> G k k <> 0.
Hypothesis E0 : h_eps o = 0.
Hypothesis Hl2 : 0 <= l2of o.
Hypothesis Gpsd : forall d, 0 <= quad r G d.
Variable X : mat.
Hypothesis XK : forall k j, (k < r)%nat -> (j < n)%nat ->
  0 <= Mget X k j /\ 0 <= qp_grad r G (bf UtM j) (l1of o) (l2of o) (colf X j) k /\
  Mget X k j * qp_grad r G (bf UtM j) (l1of o) (l2of o) (colf X j) k = 0.
Variable w : R.
Hypothesis Hw : 0 < w.
Hypothesis Hwk : forall l, (l < r)%nat -> w <= G l l / 2 + l2of o.
Notation pass := (hals_pass Rops UtM UtU n o).

Theorem steps_tend_to_zero V : wfm r n V -> (forall i j, (i < r)%nat -> (j < n)%nat -> h_eps o <= Mget V i j) ->
  forall eps, 0 < eps -> exists N, forall m, (N <= m)%nat -> stepsq_tot UtM UtU r n o (iterl m pass V) < eps.
Proof.
  intros W Hf. apply (bounded_sums_terms_to_zero _ (Phi UtM UtU r n o V - Phi UtM UtU r n o X)).
  - intros m. unfold stepsq_tot. apply rsum_nonneg. intros j _. apply stepsq_nonneg. intros l Hl. pose proof (Hwk l Hl). lra.
  - intros M. apply (steps_summable UtM UtU r n o WG WB NZ Gsym Hden E0 Hl2 Gpsd X XK M V W Hf).
Qed.

Theorem kkt_residuals_tend_to_zero V : wfm r n V -> (forall i j, (i < r)%nat -> (j < n)%nat -> h_eps o <= Mget V i j) ->
  forall eps, 0 < eps -> exists N, forall m, (N <= m)%nat ->
    let V' := iterl m pass V in let Wm := iterl (S m) pass V in
    forall k j, (k < r)%nat -> (j < n)%nat ->
      let g := qp_grad r G (bf UtM j) (l1of o) (l2of o) (colf Wm j) k in let D := resid UtU r Wm V' k j in
      0 <= Mget Wm k j /\ - D <= g /\ Rabs (Mget Wm k j * g) <= Mget Wm k j * D /\
      w * D^2 <= rsum r (fun l => (G k l)^2) * eps.
Proof.
  intros W Hf eps He. destruct (steps_tend_to_zero V W Hf eps He) as (N & HN). exists N. intros m Hm. cbv zeta.
  intros k j Hk Hj. rewrite iterl_S. set (V' := iterl m pass V) in *.
  assert (W' : wfm r n V') by (apply (iterl_feasible UtM UtU r n o WG WB NZ); assumption).
  destruct (pass_kkt_residual UtM UtU r n o WG WB NZ Hden HG V' k j W' Hk Hj) as (A1 & A2 & A3). cbv zeta in A1, A2, A3.
  rewrite E0 in A1, A3. rewrite Rminus_0_r in A3.
  split; [exact A1|]. split; [exact A2|]. split; [exact A3|].
  pose proof (resid_sq_le UtM UtU r n o V' k j w Hw Hwk) as R1.
  assert (Hs : stepsq UtM UtU r n o V' j <= stepsq_tot UtM UtU r n o V').
  { unfold stepsq_tot. apply (rsum_ge_term n (fun j0 => stepsq UtM UtU r n o V' j0)); [|exact Hj].
    intros j' _. apply stepsq_nonneg. intros l Hl. pose proof (Hwk l Hl). lra. }
  assert (HS : 0 <= rsum r (fun l => (G k l)^2)) by (apply rsum_nonneg; intros; apply pow2_ge_0).
  specialize (HN m Hm). fold V' in HN.
  eapply Rle_trans; [exact R1|]. apply Rmult_le_compat_l; [exact HS | lra].
Qed.

(* the function itself: hals_nnls run with tol = 0 for n_iter_max = m + 1 passes from a feasible warm start returns a
   non-negative matrix whose KKT residuals are bounded by some D >= 0 with w D^2 <= (sum_l UtU[k,l]^2) eps, for every
   m beyond some N(eps): the returned points converge to the KKT conditions as the budget grows *)
Theorem hals_nnls_converges_to_kkt V : wfm r n V -> (forall i j, (i < r)%nat -> (j < n)%nat -> h_eps o <= Mget V i j) ->
  forall eps, 0 < eps -> exists N, forall m, (N <= m)%nat ->
    exists Wm, hals_nnls Rops UtM UtU n (Some V) [] (S m) 0 o = Ok Wm /\
    forall k j, (k < r)%nat -> (j < n)%nat ->
      let g := qp_grad r G (bf UtM j) (l1of o) (l2of o) (colf Wm j) k in
      exists D, 0 <= D /\ 0 <= Mget Wm k j /\ - D <= g /\ Rabs (Mget Wm k j * g) <= Mget Wm k j * D /\
                w * D^2 <= rsum r (fun l => (G k l)^2) * eps.
Proof.
  intros W Hf eps He. destruct (kkt_residuals_tend_to_zero V W Hf eps He) as (N & HN). exists N. intros m Hm.
  exists (iterl (S m) pass V). split.
  - rewrite hals_nnls_tol0; [reflexivity|]. unfold hals_rejects. rewrite NZ. reflexivity.
  - intros k j Hk Hj. cbv zeta. specialize (HN m Hm). cbv zeta in HN. destruct (HN k j Hk Hj) as (A1 & A2 & A3 & A4).
    exists (resid UtU r (iterl (S m) pass V) (iterl m pass V) k j). split; [apply resid_nonneg|]. auto.
Qed.

(* the COLD start (V = None): whatever tl.solve answered, the start clip-and-rescale(sol) may be infeasible (the scale can be
   negative), but the first pass makes it feasible; from there the same limit statement holds *)
Theorem hals_nnls_cold_converges_to_kkt sol : wfm r n sol ->
  forall eps, 0 < eps -> exists N, forall m, (N <= m)%nat ->
    exists Wm, hals_nnls Rops UtM UtU n None sol (S (S m)) 0 o = Ok Wm /\
    forall k j, (k < r)%nat -> (j < n)%nat ->
      let g := qp_grad r G (bf UtM j) (l1of o) (l2of o) (colf Wm j) k in
      exists D, 0 <= D /\ 0 <= Mget Wm k j /\ - D <= g /\ Rabs (Mget Wm k j * g) <= Mget Wm k j * D /\
                w * D^2 <= rsum r (fun l => (G k l)^2) * eps.
Proof.
  intros Ws eps He.
  set (V0 := hals_init Rops UtM UtU n sol).
  assert (W0 : wfm r n V0) by (apply hals_init_wfm; exact Ws).
  set (V1 := pass V0).
  assert (W1 : wfm r n V1) by (apply (pass_wfm UtM UtU r n o WB NZ); exact W0).
  assert (F1 : forall i j, (i < r)%nat -> (j < n)%nat -> h_eps o <= Mget V1 i j).
  { intros i j Hi Hj. apply (pass_ge_eps UtM UtU r n o WG WB NZ V0 i j W0 Hi Hj). left. now apply HG. }
  destruct (kkt_residuals_tend_to_zero V1 W1 F1 eps He) as (N & HN). exists N. intros m Hm.
  exists (iterl (S m) pass V1). split.
  - rewrite hals_nnls_tol0; [reflexivity|]. unfold hals_rejects. rewrite NZ. reflexivity.
  - intros k j Hk Hj. cbv zeta. specialize (HN m Hm). cbv zeta in HN. destruct (HN k j Hk Hj) as (A1 & A2 & A3 & A4).
    exists (resid UtU r (iterl (S m) pass V1) (iterl m pass V1) k j). split; [apply resid_nonneg|]. auto.
Qed.
End Limit.
