(* The momentum sequence computed in the model (Model/NnlsMomentum.v):
   at R with sqrt it is the sequence tseq of Proofs/NnlsProofsFistaRate.v, so the coefficient list of n_iter_max
   iterations is `map (beta_of tseq) (seq 0 n_iter_max)` -- the list the rate theorems are stated for -- and the rate
   theorem of the entry point holds for fista_full (the call with its own momentum);
   at Q the executable square root qsqrt is the floor of the square root on the grid 2^-60. *)
From Coq Require Import List Arith Bool Reals Lra Lia Psatz ZArith QArith.
From TLV Require Import Base.Ops Base.PyList Base.Tensor Base.RSum Model.Nnls Model.NnlsEntry Model.NnlsMomentum
     Proofs.NnlsProofs Proofs.NnlsProofsFista Proofs.NnlsProofsFistaRate Proofs.NnlsProofsEntry.
Import ListNotations.

(* ---------- Q: the executable square root ---------- *)
Lemma qsqrt_spec (q : Q) : (0 <= q)%Q ->
  (qsqrt q * qsqrt q <= q)%Q /\ (q < (qsqrt q + (1 # 2 ^ 60)) * (qsqrt q + (1 # 2 ^ 60)))%Q /\ (0 <= qsqrt q)%Q.
Proof.
  intros Hq. destruct q as [a b]. unfold Qle in Hq. cbn in Hq. rewrite Z.mul_1_r in Hq.
  unfold qsqrt. cbn [Qnum Qden].
  set (p := (2 ^ 60)%positive). assert (EP : (4 ^ 60 = Zpos p * Zpos p)%Z) by (vm_compute; reflexivity).
  rewrite EP. set (n := (a * (Zpos p * Zpos p) / Zpos b)%Z). set (s := Z.sqrt n).
  assert (Hn : (0 <= n)%Z) by (apply Z.div_pos; [apply Z.mul_nonneg_nonneg; lia | lia]).
  destruct (Z.sqrt_spec n Hn) as [S1 S2]. fold s in S1, S2.
  assert (Hs : (0 <= s)%Z) by apply Z.sqrt_nonneg.
  assert (D1 : (Zpos b * n <= a * (Zpos p * Zpos p))%Z) by (apply Z.mul_div_le; lia).
  assert (D2 : (a * (Zpos p * Zpos p) < Zpos b * Z.succ n)%Z) by (apply Z.mul_succ_div_gt; lia).
  rewrite (Qred_correct (s # p)).
  split; [|split].
  - unfold Qle. cbn. nia.
  - unfold Qlt. cbn. nia.
  - unfold Qle. cbn. lia.
Qed.

(* ---------- R: the model's momentum is tseq ---------- *)
Open Scope R_scope.
Lemma momentum_next_tseq k : momentum_next Rops sqrt (tseq k) = tseq (S k).
Proof.
  unfold momentum_next, four, two. cbn [fadd fmul fdiv f1 Rops tseq].
  assert (E : sqrt (1 + (1 + 1 + (1 + 1)) * (tseq k * tseq k)) = sqrt (1 + 4 * (tseq k)^2)) by (f_equal; ring).
  rewrite E. field.
Qed.
Lemma momentum_betas_tseq K : forall k, momentum_betas Rops sqrt (tseq (S k)) K = map (beta_of tseq) (seq k K).
Proof.
  induction K as [|K IH]; intros k; [reflexivity|]. cbn [momentum_betas seq map].
  rewrite momentum_next_tseq. f_equal. apply IH.
Qed.
Theorem fista_betas_tseq K : fista_betas Rops sqrt K = map (beta_of tseq) (seq 0 K).
Proof. unfold fista_betas. cbn [f1 Rops]. rewrite <- tseq_1. apply momentum_betas_tseq. Qed.

(* the first coefficient is 0 (momentum_old = 1), every later one lies in [0, 1) *)
Theorem fista_betas_range K : Forall (fun b => 0 <= b < 1) (fista_betas Rops sqrt K).
Proof.
  rewrite fista_betas_tseq. apply Forall_forall. intros b Hb. apply in_map_iff in Hb. destruct Hb as (k & <- & _).
  unfold beta_of. destruct (tseq_facts (S k)) as (_ & _ & H1 & H2). destruct (tseq_facts k) as (_ & _ & H3 & _).
  assert (P : 0 < tseq (S (S k))) by lra. split.
  - apply Rmult_le_pos; [lra | left; now apply Rinv_0_lt_compat].
  - apply Rmult_lt_reg_r with (tseq (S (S k))); [exact P|]. unfold Rdiv. rewrite Rmult_assoc, Rinv_l by lra. lra.
Qed.

(* the O(1/K^2) rate for the CALL with its own momentum: fista(UtM, UtU, x0, n_iter_max = K'+1, non_negative=True,
   sparsity_coef, ridge_coef, lr=None, tol, epsilon) *)
Theorem fista_full_rate (UtM UtU : mat) (r n : nat) (sp : option R) (rd sigma tol eps : R)
  (x0 : option mat) (K' j : nat) (X : mat) :
  wfm r r UtU -> wfm r n UtM -> (j < n)%nat -> (forall i k, Gf UtU i k = Gf UtU k i) -> (forall d, 0 <= quad r (Gf UtU) d) ->
  0 <= rd -> 0 < sigma + 2 * rd ->
  (forall d : nat -> R, quad r (Gf UtU) d <= sigma * rsum r (fun i => (d i)^2)) ->
  match x0 with Some x => wfm r n x | None => True end ->
  let spv := match sp with Some s => s | None => 0 end in
  let start := match x0 with Some x => x | None => zeros_like Rops UtM end in
  (forall i, (i < r)%nat -> eps <= Mget X i j /\ 0 <= qp_grad r (Gf UtU) (bf UtM j) spv rd (colf X j) i /\
                            (Mget X i j - eps) * qp_grad r (Gf UtU) (bf UtM j) spv rd (colf X j) i = 0) ->
  exists W m, fista_full Rops sqrt UtM UtU n true sp (Some rd) None sigma tol eps x0 (S K') = Ok W /\
    (1 <= m <= S K')%nat /\
    let gap := qp_f r (Gf UtU) (bf UtM j) spv rd (colf W j) - qp_f r (Gf UtU) (bf UtM j) spv rd (colf X j) in
    0 <= gap /\ (INR m + 1)^2 * gap <= 2 * (sigma + 2 * rd) * rsum r (fun i => (Mget start i j - Mget X i j)^2).
Proof. unfold fista_full. rewrite fista_betas_tseq. apply fista_call_rate. Qed.
