(* hals_nnls with nonzero_rows = True or False (any h_nz): the safety procedure `if nonzero_rows and all(V[k,:] == 0):
   V[k,:] = eps(dtype) * max(V)` keeps every iterate >= epsilon (machine epsilon >= 0), although it gives up
   monotonicity (see the Example in Props: the reset moves a row away from its constrained minimiser). *)
From Coq Require Import List Arith Bool Reals Lra Lia.
From TLV Require Import Base.Ops Base.PyList Base.Tensor Base.RSum Model.Nnls Proofs.NnlsProofs.
Import ListNotations.
Open Scope R_scope.

Lemma fmax_ge_l a b : a <= fmax Rops a b.
Proof. unfold fmax. cbn [fleb Rops]. unfold Rleb. destruct (Rle_dec a b); lra. Qed.
Lemma fmax_ge_r a b : b <= fmax Rops a b.
Proof. unfold fmax. cbn [fleb Rops]. unfold Rleb. destruct (Rle_dec a b); lra. Qed.
Lemma vmax_ge l : forall d, d <= vmax Rops d l /\ forall v, In v l -> v <= vmax Rops d l.
Proof.
  unfold vmax. induction l as [|y l IH]; intros d; cbn [fold_left]; [split; [lra | intros v []]|].
  destruct (IH (fmax Rops d y)) as [H1 H2]. split.
  - eapply Rle_trans; [apply fmax_ge_l | exact H1].
  - intros v [<-|Hv]; [eapply Rle_trans; [apply fmax_ge_r | exact H1] | now apply H2].
Qed.
Lemma mmax_ge_first (A : mat) k : (k < length A)%nat -> Mget A k 0 <= mmax Rops A.
Proof.
  intros Hk. unfold mmax.
  apply Rle_trans with (vmax Rops (nth 0 (nth k A []) 0) (nth k A [])); [exact (proj1 (vmax_ge (nth k A []) (nth 0 (nth k A []) 0)))|].
  apply (proj2 (vmax_ge _ _)).
  apply (in_map (fun r => vmax Rops (nth 0 r (f0 Rops)) r) A (nth k A [])). now apply nth_In.
Qed.

Section Nz.
Variables (UtM UtU : mat) (r n : nat) (o : @hopts R).
Hypothesis WG : wfm r r UtU.
Hypothesis WB : wfm r n UtM.
Hypothesis MEPS : 0 <= h_meps o.
Notation G := (Gf UtU).
Notation eps := (h_eps o).
Notation step := (hals_step Rops UtM UtU n o).
Notation newrow := (hals_newrow Rops UtM UtU n o).

Lemma newrow_ge V k j : wfm r n V -> (k < r)%nat -> (j < n)%nat -> eps <= nth j (newrow V k) 0.
Proof. intros W Hk Hj. rewrite (nth_newrow UtM UtU r n o WG V k j W Hk Hj). apply hals_new_ge. Qed.

Lemma gstep_wfm V k : wfm r n V -> wfm r n (step V k).
Proof.
  intros W. unfold hals_step. destruct (is0 Rops _); [exact W|]. cbv zeta.
  assert (W1 : wfm r n (set_nth k (newrow V k) V)) by (apply wfm_set_nth; [exact W | apply length_newrow]).
  destruct (h_nz o && forallb (is0 Rops) (newrow V k)); [|exact W1].
  apply wfm_set_nth; [exact W1 | rewrite map_length; apply length_newrow].
Qed.
Lemma gstep_other V k i j : i <> k -> Mget (step V k) i j = Mget V i j.
Proof.
  intros H. unfold hals_step. destruct (is0 Rops _); [reflexivity|]. cbv zeta.
  destruct (h_nz o && forallb (is0 Rops) (newrow V k)); rewrite ?mget_set_other by exact H; reflexivity.
Qed.
(* the updated row is >= epsilon, with or without the reset *)
Lemma gstep_row V k j : wfm r n V -> (k < r)%nat -> (j < n)%nat -> G k k <> 0 -> eps <= Mget (step V k) k j.
Proof.
  intros W Hk Hj E. unfold hals_step. apply is0_R_false in E. unfold Gf in E. rewrite E. cbv zeta.
  assert (LV : (k < length V)%nat) by (destruct W as [-> _]; exact Hk).
  destruct (h_nz o && forallb (is0 Rops) (newrow V k)) eqn:EN.
  - apply andb_true_iff in EN. destruct EN as [_ EZ]. rewrite forallb_forall in EZ.
    rewrite mget_set_same by (now rewrite set_nth_length).
    rewrite (nth_map' _ (newrow V k) j 0 0) by (rewrite length_newrow; exact Hj).
    (* every entry of the new row is 0 and >= eps, so eps <= 0 <= meps * max *)
    assert (Z : forall j', (j' < n)%nat -> nth j' (newrow V k) 0 = 0).
    { intros j' Hj'. apply is0_R, EZ, nth_In. now rewrite length_newrow. }
    pose proof (newrow_ge V k j W Hk Hj) as H1. rewrite (Z j Hj) in H1.
    assert (H2 : 0 <= mmax Rops (set_nth k (newrow V k) V)).
    { eapply Rle_trans; [|apply (mmax_ge_first _ k); now rewrite set_nth_length].
      rewrite mget_set_same by exact LV. rewrite Z by lia. lra. }
    cbn [fmul Rops]. pose proof (Rmult_le_pos _ _ MEPS H2). lra.
  - rewrite mget_set_same by exact LV. now apply newrow_ge.
Qed.

Notation foldp := (fold_left (hals_step Rops UtM UtU n o)).
Lemma gfold_wfm ks : forall V, wfm r n V -> wfm r n (foldp ks V).
Proof. induction ks; simpl; intros V W; [exact W | apply IHks, gstep_wfm, W]. Qed.
Lemma gstep_zero V k : G k k = 0 -> step V k = V.
Proof. intros H. unfold hals_step. apply is0_R in H. unfold Gf in H. now rewrite H. Qed.

Lemma gfold_ge ks : forall V i, wfm r n V -> (forall k, In k ks -> (k < r)%nat) -> (i < r)%nat ->
  (rowge n o V i \/ (In i ks /\ G i i <> 0)) -> rowge n o (foldp ks V) i.
Proof.
  induction ks as [|k ks IH]; simpl; intros V i W Hks Hi H.
  - destruct H as [H|[[] _]]. exact H.
  - apply IH; [now apply gstep_wfm | intros; apply Hks; tauto | exact Hi |].
    destruct (Nat.eq_dec i k) as [->|Hne].
    + destruct (Req_dec (G k k) 0) as [E|E].
      * rewrite gstep_zero by exact E. destruct H as [H|[[_|H] H2]]; [now left | contradiction | now right].
      * left. intros j Hj. now apply gstep_row.
    + destruct H as [H|[[H|H] H2]]; [left | congruence | now right].
      intros j Hj. rewrite gstep_other by exact Hne. now apply H.
Qed.

Notation pass := (hals_pass Rops UtM UtU n o).
Lemma gpass_unfold V : pass V = foldp (seq 0 r) V.
Proof. unfold hals_pass. destruct WB as [-> _]. reflexivity. Qed.
Lemma gpass_wfm V : wfm r n V -> wfm r n (pass V).
Proof. intros W. rewrite gpass_unfold. now apply gfold_wfm. Qed.
Lemma gpass_ge V i j : wfm r n V -> (i < r)%nat -> (j < n)%nat ->
  (G i i <> 0 \/ (forall j', (j' < n)%nat -> eps <= Mget V i j')) -> eps <= Mget (pass V) i j.
Proof.
  intros W Hi Hj H. rewrite gpass_unfold.
  assert (D : rowge n o V i \/ (In i (seq 0 r) /\ G i i <> 0)).
  { destruct H as [H|H]; [right; split; [apply in_seq; lia | exact H] | left; exact H]. }
  eapply gfold_ge; eauto. intros k Hk. apply in_seq in Hk. lia.
Qed.

(* (i) for ANY setting of nonzero_rows *)
Theorem giterates_ge_eps m : forall V, wfm r n V -> (forall i j, (i < r)%nat -> (j < n)%nat -> eps <= Mget V i j) ->
  forall i j, (i < r)%nat -> (j < n)%nat -> eps <= Mget (iterl m pass V) i j.
Proof.
  induction m; simpl; intros V W H i j Hi Hj; [now apply H|].
  apply IHm; auto; [now apply gpass_wfm|]. intros i' j' Hi' Hj'. apply gpass_ge; auto.
Qed.
Theorem giterates_ge_eps_any_start m V : wfm r n V -> (forall k, (k < r)%nat -> G k k <> 0) ->
  forall i j, (i < r)%nat -> (j < n)%nat -> eps <= Mget (iterl (S m) pass V) i j.
Proof.
  intros W HG. cbn [iterl]. apply giterates_ge_eps; [now apply gpass_wfm|].
  intros i j Hi Hj. apply gpass_ge; auto.
Qed.
(* the whole function, warm start: rejects (ValueError) or returns a matrix >= epsilon *)
Theorem ghals_nnls_ge_eps V tol iters : wfm r n V -> (forall i j, (i < r)%nat -> (j < n)%nat -> eps <= Mget V i j) ->
  hals_nnls Rops UtM UtU n (Some V) [] iters tol o = Err /\ hals_rejects Rops UtM UtU iters o = true \/
  exists W, hals_nnls Rops UtM UtU n (Some V) [] iters tol o = Ok W /\ forall i j, (i < r)%nat -> (j < n)%nat -> eps <= Mget W i j.
Proof.
  intros W H. unfold hals_nnls. destruct (hals_rejects Rops UtM UtU iters o); [now left|]. right. cbv zeta.
  eexists. split; [reflexivity|].
  destruct (hals_loop_iter Rops UtM UtU n o tol iters true (f0 Rops) V) as (m & _ & ->). now apply giterates_ge_eps.
Qed.
End Nz.
