(* hals_nnls with nonzero_rows=True and epsilon > 0: every updated row is >= epsilon > 0, so the safety reset (`if nonzero_rows and
   all(V[k,:] == 0)`) never fires; when no diagonal entry of UtU vanishes (otherwise nonzero_rows raises) the call IS the call with
   nonzero_rows=False -- for every start, budget, tol, sparsity / ridge -- and every theorem proved for nonzero_rows=False
   (descent, limit, KKT, optimality at the bound epsilon) applies to it. *)
From Coq Require Import List Arith Bool Reals Lra Lia.
From TLV Require Import Base.Ops Base.PyList Base.Tensor Base.RSum Model.Nnls Proofs.NnlsProofs.
Import ListNotations.
Open Scope R_scope.

Definition nz_off (o : @hopts R) : @hopts R := mkH (h_sp o) (h_ridge o) false (h_eps o) (h_meps o).

Lemma fold_left_ext2 {A B} (f g : A -> B -> A) l : (forall a x, f a x = g a x) -> forall a, fold_left f l a = fold_left g l a.
Proof. intros H. induction l as [|x l IH]; intros a; [reflexivity|]. cbn. rewrite H. apply IH. Qed.

Section NzEps.
Variables (UtM UtU : mat) (n : nat) (o : @hopts R).
Hypothesis Heps : 0 < h_eps o.
Hypothesis Hn : n <> 0%nat.

Lemma newrow_not_all_zero V k : forallb (is0 Rops) (hals_newrow Rops UtM UtU n o V k) = false.
Proof.
  unfold hals_newrow. destruct n as [|n']; [congruence|]. cbn [seq map forallb].
  match goal with |- is0 Rops ?v && _ = false => assert (P : 0 < v) end.
  { unfold fmax. cbn [fleb Rops]. unfold Rleb. destruct (Rle_dec _ _); lra. }
  match goal with |- is0 Rops ?v && _ = false => destruct (is0 Rops v) eqn:E end; [|reflexivity].
  apply is0_R in E. lra.
Qed.

Lemma hals_step_nz_eps V k : hals_step Rops UtM UtU n o V k = hals_step Rops UtM UtU n (nz_off o) V k.
Proof.
  unfold hals_step. destruct (is0 Rops (mget Rops UtU k k)); [reflexivity|].
  change (hals_newrow Rops UtM UtU n (nz_off o) V k) with (hals_newrow Rops UtM UtU n o V k).
  rewrite newrow_not_all_zero. rewrite andb_false_r. reflexivity.
Qed.
Lemma hals_pass_e_nz_eps V : hals_pass_e Rops UtM UtU n o V = hals_pass_e Rops UtM UtU n (nz_off o) V.
Proof.
  unfold hals_pass_e. apply fold_left_ext2. intros st k. unfold hals_step_e. rewrite hals_step_nz_eps. reflexivity.
Qed.
Lemma hals_loop_nz_eps tol fuel : forall first err0 V,
  hals_loop Rops UtM UtU n o tol fuel first err0 V = hals_loop Rops UtM UtU n (nz_off o) tol fuel first err0 V.
Proof.
  induction fuel as [|f IH]; intros first err0 V; [reflexivity|]. cbn [hals_loop]. rewrite hals_pass_e_nz_eps.
  destruct (fltb Rops _ _); [reflexivity | apply IH].
Qed.

Theorem hals_nnls_nonzero_rows_eps V0 sol iters tol : zero_diag Rops UtM UtU = false ->
  hals_nnls Rops UtM UtU n V0 sol iters tol o = hals_nnls Rops UtM UtU n V0 sol iters tol (nz_off o).
Proof.
  intros Z. unfold hals_nnls, hals_rejects. rewrite Z. cbn [h_nz nz_off]. rewrite !andb_false_r, ?andb_false_l. cbn [andb].
  rewrite hals_loop_nz_eps. reflexivity.
Qed.
End NzEps.
