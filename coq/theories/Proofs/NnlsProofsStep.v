(* (a) the projected gradient step of fista (x_new = max(x - lr * gradient, eps)) is a DESCENT step when the step size is at
       most 1/L (L = Lipschitz constant of the gradient, stated as lr * (d'Gd + 2 ridge d'd) <= d'd for every direction d):
       from a feasible point it lowers every column's penalised objective by at least |x_new - x|^2 / (2 lr); the first
       iteration of fista (momentum_old = 1: no extrapolation) is such a step, so fista(n_iter_max=1) never increases it.
   (b) active_set_nnls: whatever tl.solve answers and however the interpolation step is rounded, every returned vector
       (termination test OR exhausted budget) is non-negative once the loop body ran (or the start was non-negative). *)
From Coq Require Import List Arith Bool Reals Lra Lia Psatz.
From TLV Require Import Base.Ops Base.PyList Base.Tensor Base.RSum Model.Nnls Proofs.NnlsProofs Proofs.NnlsProofsFista Proofs.NnlsProofsAsetCert Proofs.NnlsProofsExamples.
Import ListNotations.
Open Scope R_scope.

Section FistaDescent.
Variables (UtM UtU : mat) (r n : nat) (sp rd lr eps : R).
Hypothesis WG : wfm r r UtU.
Hypothesis WB : wfm r n UtM.
Notation G := (Gf UtU).
Notation new := (fista_new Rops UtM UtU n true sp rd lr eps).
Hypothesis Gsym : forall i j, G i j = G j i.
Hypothesis Hlr : 0 < lr.
Hypothesis HL : forall d : nat -> R, lr * (quad r G d + 2 * rd * rsum r (fun i => (d i)^2)) <= rsum r (fun i => (d i)^2).

Theorem fista_step_descent V j : wfm r n V -> (forall i, (i < r)%nat -> eps <= Mget V i j) -> (j < n)%nat ->
  qp_f r G (bf UtM j) sp rd (colf (new V) j)
  <= qp_f r G (bf UtM j) sp rd (colf V j) - / (2 * lr) * rsum r (fun i => (Mget (new V) i j - Mget V i j)^2).
Proof.
  intros W Hf Hj.
  pose proof (qp_diff r G (bf UtM j) sp rd Gsym (colf V j) (colf (new V) j)) as D. cbv zeta in D.
  set (d := fun i => colf (new V) j i - colf V j i) in *.
  set (S2 := rsum r (fun i => (d i)^2)) in *.
  assert (HS2 : rsum r (fun i => (Mget (new V) i j - Mget V i j)^2) = S2) by reflexivity.
  rewrite HS2.
  (* per coordinate: lr * d_i * g_i <= - d_i^2 (projection onto [eps, inf) of x_i - lr g_i, x_i feasible) *)
  assert (P : lr * rsum r (fun i => d i * qp_grad r G (bf UtM j) sp rd (colf V j) i) <= - S2).
  { rewrite <- rsum_scale.
    replace (- S2) with (rsum r (fun i => (-1) * (d i)^2)) by (rewrite rsum_scale; unfold S2; ring).
    apply rsum_le. intros i Hi. unfold d.
    change (colf (new V) j i) with (Mget (new V) i j). change (colf V j i) with (Mget V i j).
    rewrite (fista_new_entry UtM UtU r n sp rd lr eps WG WB V i j W Hi Hj). cbv zeta.
    set (g := qp_grad r G (bf UtM j) sp rd (colf V j) i).
    pose proof (Hf i Hi) as Hx. set (x := Mget V i j) in *.
    destruct (Rlt_dec (x - lr * g) eps) as [H|H].
    - assert (0 <= (lr * g + (eps - x)) * (x - eps)) by (apply Rmult_le_pos; lra). nra.
    - nra. }
  pose proof (HL d) as L1. fold S2 in L1.
  assert (Hi2 : / (2 * lr) * S2 = S2 / lr / 2) by (field; lra).
  assert (Q1 : quad r G d / 2 + rd * S2 <= S2 / lr / 2).
  { assert (lr * (quad r G d / 2 + rd * S2) <= S2 / 2) by lra.
    assert (S2 / lr / 2 = / lr * (S2 / 2)) by (field; lra). rewrite H0.
    assert (quad r G d / 2 + rd * S2 = / lr * (lr * (quad r G d / 2 + rd * S2))) by (field; lra). rewrite H1.
    apply Rmult_le_compat_l; [left; now apply Rinv_0_lt_compat | exact H]. }
  assert (Q2 : rsum r (fun i => d i * qp_grad r G (bf UtM j) sp rd (colf V j) i) <= - (S2 / lr)).
  { assert (- (S2 / lr) = / lr * (- S2)) by (field; lra). rewrite H.
    set (T := rsum r (fun i => d i * qp_grad r G (bf UtM j) sp rd (colf V j) i)) in *.
    assert (T = / lr * (lr * T)) by (field; lra). rewrite H0.
    apply Rmult_le_compat_l; [left; now apply Rinv_0_lt_compat | exact P]. }
  rewrite Hi2. lra.
Qed.

(* the first iteration of fista is this step (the extrapolated point is only used by the NEXT iteration) *)
Lemma fista_one_iteration nonneg tol x0 beta :
  fista Rops UtM UtU n nonneg sp rd lr tol eps x0 [beta] = fista_new Rops UtM UtU n nonneg sp rd lr eps x0.
Proof. unfold fista. cbn [fista_loop]. cbv zeta. destruct (fltb _ _ _); reflexivity. Qed.

Theorem fista_first_iteration_descent tol x0 beta j : wfm r n x0 -> (forall i, (i < r)%nat -> eps <= Mget x0 i j) -> (j < n)%nat ->
  qp_f r G (bf UtM j) sp rd (colf (fista Rops UtM UtU n true sp rd lr tol eps x0 [beta]) j) <= qp_f r G (bf UtM j) sp rd (colf x0 j).
Proof.
  intros W Hf Hj. rewrite fista_one_iteration. pose proof (fista_step_descent x0 j W Hf Hj).
  assert (0 <= / (2 * lr) * rsum r (fun i => (Mget (new x0) i j - Mget x0 i j)^2)).
  { apply Rmult_le_pos; [left; apply Rinv_0_lt_compat; lra | apply rsum_nonneg; intros; apply pow2_ge_0]. }
  lra.
Qed.
End FistaDescent.

(* non-vacuity of the step-size hypothesis: UtU = [[2,1],[1,2]] (eigenvalues 1 and 3), ridge 0, lr = 1/3 *)
Lemma ex_fista_lipschitz : forall d : nat -> R,
  1 / 3 * (quad 2 (Gf ex_UtU) d + 2 * 0 * rsum 2 (fun i => (d i)^2)) <= rsum 2 (fun i => (d i)^2).
Proof. intros d. unfold quad, Gf, mget, mrow, ex_UtU. cbn. pose proof (pow2_ge_0 (d 0%nat - d 1%nat)). nra. Qed.

(* ---------------------------------------------------------------------------------------------- *)
Section AsetNonneg.
Variables (solve : list (list R) -> list R -> option (list R)) (rnd : R -> R).
Variables (Utm : list R) (UtU : mat) (tol : R).

Lemma clip_Forall_ge0 s : Forall (fun v => 0 <= v) (map (fmax Rops (f0 Rops)) s).
Proof.
  apply Forall_forall. intros v Hv. apply in_map_iff in Hv. destruct Hv as (u & <- & _).
  unfold fmax. cbn [fleb f0 Rops]. unfold Rleb. destruct (Rle_dec 0 u); lra.
Qed.

Lemma as_loop_nonneg fuel : forall iter0 x g p a y fl,
  as_loop Rops solve rnd Utm UtU tol fuel iter0 x g p a = Some (y, fl) ->
  (fuel <> 0%nat \/ Forall (fun v => 0 <= v) x) -> Forall (fun v => 0 <= v) y.
Proof.
  induction fuel as [|f IH]; intros iter0 x g p a y fl E H.
  - cbn [as_loop] in E. inversion E; subst. destruct H as [H|H]; [congruence | exact H].
  - cbn [as_loop] in E. destruct (as_body Rops solve rnd Utm UtU iter0 x g p a) as [[[s2 p2] a2]|]; [|discriminate].
    cbv zeta in E. destruct (as_done Rops tol a2 _).
    + inversion E; subst. apply clip_Forall_ge0.
    + eapply IH; [exact E|]. right. apply clip_Forall_ge0.
Qed.

Theorem active_set_nonneg x0 n_iter_max y :
  (n_iter_max <> 0%nat \/ match x0 with Some x => Forall (fun v => 0 <= v) x | None => True end) ->
  active_set_nnls Rops solve rnd Utm UtU tol x0 n_iter_max = Some y -> Forall (fun v => 0 <= v) y.
Proof.
  intros H E. unfold active_set_nnls, active_set_run in E.
  match type of E with match ?L with _ => _ end = _ => destruct L as [[y' fl]|] eqn:EL end; [|discriminate].
  inversion E; subst. eapply as_loop_nonneg; [exact EL|].
  destruct H as [H|H]; [now left|]. right. destruct x0 as [x|]; [exact H|].
  apply Forall_forall. intros v Hv. apply in_map_iff in Hv. destruct Hv as (u & <- & _). cbn. lra.
Qed.
End AsetNonneg.
