(* hals_nnls with tol = 0 (the protocol under which the harness runs it to convergence, and `exact=True` up to its
   1e-16): the per-pass error is a sum of squares, hence >= 0, so `rec_error < 0 * rec_error0` never fires and the loop
   performs exactly n_iter_max passes, for any setting of nonzero_rows. *)
From Coq Require Import List Arith Bool Reals Lra Lia Psatz.
From TLV Require Import Base.Ops Base.PyList Base.Tensor Base.RSum Model.Nnls Proofs.NnlsProofs Proofs.NnlsProofsFista.
Import ListNotations.
Open Scope R_scope.

Section Tol0.
Variables (UtM UtU : mat) (n : nat) (o : @hopts R).

Lemma hals_err_nonneg V k : 0 <= hals_err Rops UtM UtU n o V k.
Proof.
  unfold hals_err. destruct (is0 Rops _); [cbn; lra|].
  apply msum_ge_entry. apply Forall_map. apply Forall_forall. intros row _.
  unfold map2. apply Forall_map. apply Forall_forall. intros p _. cbv beta. unfold sq. cbn [fmul fsub Rops]. set (t := fst p - snd p). nra.
Qed.

Lemma fold_step_e_snd_nonneg ks : forall st, 0 <= snd st -> 0 <= snd (fold_left (hals_step_e Rops UtM UtU n o) ks st).
Proof.
  induction ks as [|k ks IH]; intros st H; [exact H|]. cbn [fold_left]. apply IH.
  unfold hals_step_e. cbn [snd fadd Rops]. pose proof (hals_err_nonneg (fst st) k). lra.
Qed.

Lemma hals_pass_e_snd_nonneg V : 0 <= snd (hals_pass_e Rops UtM UtU n o V).
Proof. unfold hals_pass_e. apply fold_step_e_snd_nonneg. cbn. lra. Qed.

Theorem hals_tol0_runs_all fuel : forall first err0 V,
  hals_loop Rops UtM UtU n o 0 fuel first err0 V = iterl fuel (hals_pass Rops UtM UtU n o) V.
Proof.
  induction fuel as [|f IH]; intros first err0 V; [reflexivity|].
  cbn [hals_loop iterl]. cbv zeta.
  match goal with |- context [fltb Rops ?a ?b] => assert (E : fltb Rops a b = false) end.
  { unfold fltb. cbn [fleb fmul Rops]. apply negb_false_iff, Rleb_true.
    pose proof (hals_pass_e_snd_nonneg V). lra. }
  rewrite E, hals_pass_e_fst. apply IH.
Qed.

Corollary hals_nnls_tol0 V0 sol iters : hals_rejects Rops UtM UtU iters o = false ->
  hals_nnls Rops UtM UtU n V0 sol iters 0 o =
  Ok (iterl iters (hals_pass Rops UtM UtU n o) (match V0 with Some V => V | None => hals_init Rops UtM UtU n sol end)).
Proof. intros H. unfold hals_nnls. rewrite H. now rewrite hals_tol0_runs_all. Qed.
End Tol0.
