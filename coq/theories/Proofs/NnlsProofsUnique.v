(* Uniqueness: for a well-conditioned problem (the penalised quadratic form is positive definite) the KKT point is unique,
   so "the same objective value as a reference solver" is "the same SOLUTION": a fixed point of the HALS pass, a fixed
   point of the FISTA step and any other KKT point (e.g. the answer of a reference solver) coincide. *)
From Coq Require Import List Arith Bool Reals Lra Lia Psatz.
From TLV Require Import Base.Ops Base.PyList Base.Tensor Base.RSum Model.Nnls Proofs.NnlsProofs Proofs.NnlsProofsFista.
Import ListNotations.
Open Scope R_scope.

Definition kkt0 n (G : nat -> nat -> R) b l1 l2 (x : nat -> R) : Prop :=
  forall i, (i < n)%nat -> 0 <= x i /\ 0 <= qp_grad n G b l1 l2 x i /\ x i * qp_grad n G b l1 l2 x i = 0.

Theorem kkt_unique n (G : nat -> nat -> R) b l1 l2 (x z : nat -> R) :
  (forall i j, G i j = G j i) ->
  (forall d : nat -> R, (exists i, (i < n)%nat /\ d i <> 0) -> 0 < quad n G d / 2 + l2 * rsum n (fun i => (d i)^2)) ->
  kkt0 n G b l1 l2 x -> kkt0 n G b l1 l2 z -> forall i, (i < n)%nat -> x i = z i.
Proof.
  intros Gsym PD Kx Kz i Hi. destruct (Req_dec (x i) (z i)) as [E|E]; [exact E | exfalso].
  pose proof (qp_diff n G b l1 l2 Gsym x z) as D1. pose proof (qp_diff n G b l1 l2 Gsym z x) as D2. cbv zeta in D1, D2.
  set (d := fun k => z k - x k) in *. set (e := fun k => x k - z k) in *.
  assert (P1 : 0 < quad n G d / 2 + l2 * rsum n (fun k => (d k)^2)) by (apply PD; exists i; split; [exact Hi | unfold d; lra]).
  assert (P2 : 0 < quad n G e / 2 + l2 * rsum n (fun k => (e k)^2)) by (apply PD; exists i; split; [exact Hi | unfold e; lra]).
  assert (S1 : 0 <= rsum n (fun k => d k * qp_grad n G b l1 l2 x k)).
  { apply rsum_nonneg. intros k Hk. destruct (Kx k Hk) as (A1 & A2 & A3). destruct (Kz k Hk) as (B1 & _). unfold d.
    replace ((z k - x k) * qp_grad n G b l1 l2 x k) with (z k * qp_grad n G b l1 l2 x k - x k * qp_grad n G b l1 l2 x k) by ring.
    rewrite A3. nra. }
  assert (S2 : 0 <= rsum n (fun k => e k * qp_grad n G b l1 l2 z k)).
  { apply rsum_nonneg. intros k Hk. destruct (Kz k Hk) as (A1 & A2 & A3). destruct (Kx k Hk) as (B1 & _). unfold e.
    replace ((x k - z k) * qp_grad n G b l1 l2 z k) with (x k * qp_grad n G b l1 l2 z k - z k * qp_grad n G b l1 l2 z k) by ring.
    rewrite A3. nra. }
  lra.
Qed.

(* the fixed points of the HALS pass and of the FISTA step coincide with each other and with any KKT point X *)
Theorem hals_fista_fixed_points_agree UtM UtU r n (o : @hopts R) lr (V W : mat) :
  wfm r r UtU -> wfm r n UtM -> h_nz o = false -> h_eps o = 0 -> 0 < lr ->
  (forall i j, Gf UtU i j = Gf UtU j i) ->
  (forall d : nat -> R, (exists i, (i < r)%nat /\ d i <> 0) -> 0 < quad r (Gf UtU) d / 2 + l2of o * rsum r (fun i => (d i)^2)) ->
  (forall k, (k < r)%nat -> Gf UtU k k <> 0 /\ 0 < Gf UtU k k + 2 * l2of o) ->
  wfm r n V -> wfm r n W ->
  hals_pass Rops UtM UtU n o V = V -> fista_new Rops UtM UtU n true (l1of o) (l2of o) lr 0 W = W -> V = W.
Proof.
  intros WG WB NZ E0 Hlr Gsym PD HG WV WW FV FW. apply (wfm_ext r n); [exact WV | exact WW|]. intros i j Hi Hj.
  apply (kkt_unique r (Gf UtU) (bf UtM j) (l1of o) (l2of o) (colf V j) (colf W j) Gsym PD); [| |exact Hi].
  - intros k Hk. pose proof (fixed_point_kkt UtM UtU r n o WG WB NZ V WV HG FV k j Hk Hj) as H. cbv zeta in H.
    rewrite E0 in H. rewrite Rminus_0_r in H. exact H.
  - intros k Hk. pose proof (fista_fixed_point_kkt UtM UtU r n (l1of o) (l2of o) lr 0 WG WB W Hlr WW FW k j Hk Hj) as H. cbv zeta in H.
    rewrite Rminus_0_r in H. exact H.
Qed.

(* non-vacuity: the form of the 2 x 1 example is positive definite *)
From TLV Require Import Proofs.NnlsProofsExamples.
Lemma ex_pd : forall d : nat -> R, (exists i, (i < 2)%nat /\ d i <> 0) -> 0 < quad 2 (Gf ex_UtU) d / 2 + l2of ex_o * rsum 2 (fun i => (d i)^2).
Proof.
  intros d (i & Hi & Hd). unfold quad, Gf, mget, mrow, ex_UtU, l2of, ex_o. cbn.
  assert (P : forall t : R, t <> 0 -> 0 < t ^ 2) by (intros t Ht; assert (0 < t * t) by nra; nra).
  assert (0 < (d 0%nat)^2 + (d 1%nat)^2).
  { small2 i; [pose proof (P _ Hd); pose proof (pow2_ge_0 (d 1%nat)) | pose proof (P _ Hd); pose proof (pow2_ge_0 (d 0%nat))]; lra. }
  pose proof (pow2_ge_0 (d 0%nat + d 1%nat)). nra.
Qed.
