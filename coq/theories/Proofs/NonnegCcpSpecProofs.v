(* C10 -- constrained_parafac with the raw `non_negative` argument: every declared mode is registered, every registered mode is returned entrywise >= 0. *)
From Coq Require Import List Arith Bool ZArith Reals Lra Lia.
From TLV Require Import Base.Shape Base.PyList Base.Tensor Base.Ops Model.Nonneg Model.NonnegOptions Model.NonnegCcpSpec
     Proofs.NonnegProofs Proofs.NonnegProofs2.
Import ListNotations.
Open Scope R_scope.

Lemma declared_registered n s : incl (declared n s) (registered n s).
Proof.
  destruct s as [|b|l|l]; simpl; try apply incl_refl.
  intros m Hm. apply in_map_iff in Hm. destruct Hm as [kv [E Hkv]]. apply filter_In in Hkv. apply in_map_iff. exists kv. tauto.
Qed.
Lemma registered_bool_true n m : In m (registered n (NSBool true)) <-> (m < n)%nat.
Proof. simpl. rewrite in_seq. lia. Qed.
Lemma registered_list n l m : In m (registered n (NSList l)) <-> (m < n)%nat /\ nth m l false = true.
Proof. simpl. rewrite filter_In, in_seq. intuition lia. Qed.
Lemma declared_dict n l m : In m (declared n (NSDict l)) <-> exists k, In (k, true) l /\ m = py_index n k.
Proof.
  simpl. rewrite in_map_iff. split.
  - intros [[k b] [E H]]. apply filter_In in H. destruct H as [H Hb]. simpl in *. subst b. exists k. auto.
  - intros [k [H E]]. exists (k, true). split; auto. apply filter_In. auto.
Qed.
(* a negative key counts from the end *)
Lemma py_index_neg n k : (0 < k <= n)%nat -> py_index n (- Z.of_nat k) = (n - k)%nat.
Proof.
  intros H. unfold py_index.
  replace (- Z.of_nat k)%Z with (Z.of_nat (n - k) + (-1) * Z.of_nat n)%Z by lia.
  rewrite Z.mod_add by lia. rewrite Z.mod_small by lia. apply Nat2Z.id.
Qed.
Lemma py_index_pos n k : (k < n)%nat -> py_index n (Z.of_nat k) = k.
Proof. intros H. unfold py_index. rewrite Z.mod_small by lia. apply Nat2Z.id. Qed.

Lemma ccp_user_init_nn (D : nat -> Prop) w Fs : vnn w -> (forall m, D m -> mnn (nth m Fs [])) ->
  forall m, D m -> mnn (nth m (ccp_user_init Rops w Fs) []).
Proof.
  intros Hw HF m Hm. unfold ccp_user_init.
  destruct (rev Fs) as [|L r] eqn:E.
  - destruct m; constructor.
  - assert (EF : Fs = rev r ++ [L]) by (rewrite <- (rev_involutive Fs), E; reflexivity).
    destruct (Nat.lt_ge_cases m (length (rev r))) as [Hlt|Hge].
    + rewrite app_nth1 by auto. specialize (HF m Hm). rewrite EF, app_nth1 in HF by auto. exact HF.
    + rewrite app_nth2 by auto. destruct (m - length (rev r))%nat as [|j] eqn:Ej; simpl.
      * apply mul_cols_nn; auto. specialize (HF m Hm). rewrite EF, app_nth2, Ej in HF by auto. exact HF.
      * destruct j; constructor.
Qed.

(* the entry point with its raw options: from a user initialisation that is entrywise >= 0 on the registered modes (weights >= 0), every registered - hence
   every declared - mode is returned entrywise >= 0, for any data (split oracle), any inner / outer iteration counts, any fixed_modes *)
Theorem constrained_parafac_entry_nonneg other split inner stop n spec fixed n_iter_max w Fs :
  vnn w -> (forall m, In m (registered n spec) -> mnn (nth m Fs [])) ->
  forall m, In m (registered n spec) ->
    mnn (nth m (fst (constrained_parafac_entry Rops other split inner stop n spec fixed n_iter_max w Fs)) []).
Proof.
  intros Hw HF. unfold constrained_parafac_entry. apply constrained_parafac_nonneg.
  apply (ccp_user_init_nn (fun m => In m (registered n spec))); auto.
Qed.
Corollary constrained_parafac_entry_declared other split inner stop n spec fixed n_iter_max w Fs :
  vnn w -> (forall m, In m (registered n spec) -> mnn (nth m Fs [])) ->
  forall m, In m (declared n spec) ->
    mnn (nth m (fst (constrained_parafac_entry Rops other split inner stop n spec fixed n_iter_max w Fs)) []).
Proof. intros Hw HF m Hm. apply constrained_parafac_entry_nonneg; auto. apply declared_registered; auto. Qed.

(* non-vacuity / what the parsing does: {-1: True} on an order-3 tensor declares mode 2; {0: False, 1: True} registers (clips) mode 0 as well;
   a short list [True] declares mode 0 only; False / {} declare nothing *)
Example spec_examples :
  declared 3 (NSDict [((-1)%Z, true)]) = [2%nat] /\ registered 3 (NSDict [(0%Z, false); (1%Z, true)]) = [0%nat; 1%nat] /\
  declared 3 (NSDict [(0%Z, false); (1%Z, true)]) = [1%nat] /\ declared 3 (NSList [true]) = [0%nat] /\
  declared 3 (NSList [true; false; true]) = [0%nat; 2%nat] /\ declared 3 (NSBool false) = [] /\ declared 3 (NSDict []) = [] /\ declared 2 (NSBool true) = [0%nat; 1%nat].
Proof. repeat split; reflexivity. Qed.
