(* C10 -- the "at least one iteration" rule of the flow translator (harness/props/C10_sign.py, option peel): a `for` loop that is known to run at least
   once (n_iter_max >= 1) is translated as  CBlock (CSeq c (CLoop c)).  Every run of CLoop c that executes its body at least once is a run of that block,
   so the verdict of the flow analysis on the peeled program covers all such runs of the loop. *)
From Coq Require Import List Arith Bool Reals Lra Lia.
From TLV Require Import Base.Shape Base.PyList Base.Tensor Base.Ops Model.Nonneg Model.NonnegSign Model.NonnegFlow
     Proofs.NonnegProofs Proofs.NonnegProofs2 Proofs.NonnegSignProofs Proofs.NonnegFlowProofs.
Import ListNotations.
Open Scope R_scope.

(* a run of CLoop c in which the body is entered at least once (every constructor of exec for CLoop but x_loop_0) *)
Inductive loop_once (c : cmd) : state -> outc -> state -> Prop :=
| lo_n st st1 o st2 : exec c st ONorm st1 -> exec (CLoop c) st1 o st2 -> loop_once c st o st2
| lo_b st st1 : exec c st OBrk st1 -> loop_once c st ONorm st1
| lo_r st st1 l : exec c st (ORet l) st1 -> loop_once c st (ORet l) st1.

Lemma loop_once_is_loop c st o st' : loop_once c st o st' -> exec (CLoop c) st o st'.
Proof. intros H. destruct H; [eapply x_loop_n; eauto | apply x_loop_b; auto | apply x_loop_r; auto]. Qed.

Lemma loop_never_breaks c st o st' : exec (CLoop c) st o st' -> o <> OBrk.
Proof.
  intros H. remember (CLoop c) as lc eqn:E. revert c E.
  induction H; intros c0 E; try discriminate; try (intros A; discriminate A).
  inversion E; subst. eapply IHexec2; reflexivity.
Qed.

Theorem peel_sound c st o st' : loop_once c st o st' -> exec (CBlock (CSeq c (CLoop c))) st o st'.
Proof.
  intros H. destruct H as [st st1 o st2 H1 H2 | st st1 H1 | st st1 l H1].
  - pose proof (loop_never_breaks _ _ _ _ H2) as Nb.
    destruct o as [| |l].
    + apply x_block_n. eapply x_seq_n; eauto.
    + congruence.
    + apply x_block_r. eapply x_seq_n; eauto.
  - apply x_block_b. apply x_seq_b; auto.
  - apply x_block_r. apply x_seq_r; auto.
Qed.

(* the peeled block has no other runs: the rule does not add behaviours either *)
Theorem peel_complete c st o st' : exec (CBlock (CSeq c (CLoop c))) st o st' -> loop_once c st o st'.
Proof.
  intros H. inversion H; subst.
  - match goal with S : exec (CSeq _ _) _ ONorm _ |- _ => inversion S; subst end. eapply lo_n; eauto.
  - match goal with S : exec (CSeq _ _) _ OBrk _ |- _ => inversion S; subst end.
    + exfalso. eapply loop_never_breaks; eauto.
    + apply lo_b; auto.
  - match goal with S : exec (CSeq _ _) _ (ORet _) _ |- _ => inversion S; subst end.
    + eapply lo_n; eauto.
    + apply lo_r; auto.
Qed.

(* with the soundness of the analysis: verdict 0 on `prefix; peeled loop; suffix` covers every run of `prefix; loop; suffix` whose loop body is entered *)
Theorem peel_verdict_sound (pre c post : cmd) (a0 : aenv) :
  flow_verdict (CSeq pre (CSeq (CBlock (CSeq c (CLoop c))) post)) a0 = 0%nat ->
  forall st st1 st2 st' l, gamma a0 st -> exec pre st ONorm st1 -> loop_once c st1 ONorm st2 -> exec post st2 (ORet l) st' -> vnnR l.
Proof.
  intros V st st1 st2 st' l G Hp Hl Hq.
  eapply flow_verdict_sound; [exact V | exact G |].
  eapply x_seq_n; [exact Hp|]. eapply x_seq_n; [apply peel_sound; exact Hl | exact Hq].
Qed.

(* non-vacuity: a miniature active-set body -- x signed; for ..: { x = x + data; x = clip(x, 0); maybe break }; return x -- is rejected as a plain loop and
   accepted once the loop is known to run at least once *)
Definition mini_body : cmd := CSeq (CAssign [0%nat] (XAdd (XVar 0%nat) XAny)) (CSeq (CAssign [0%nat] (XClip XNonneg (XVar 0%nat))) (CIf CBreak CSkip)).
Example peel_rejected_without : flow_verdict (CSeq CSkip (CSeq (CLoop mini_body) (CReturn (XVar 0%nat)))) [SgAny] = 2%nat.
Proof. vm_compute. reflexivity. Qed.
Example peel_accepted_with : flow_verdict (CSeq CSkip (CSeq (CBlock (CSeq mini_body (CLoop mini_body))) (CReturn (XVar 0%nat)))) [SgAny] = 0%nat.
Proof. vm_compute. reflexivity. Qed.
