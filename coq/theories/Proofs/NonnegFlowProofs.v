(* C10 -- soundness of the flow-sensitive sign analysis of Model/NonnegFlow.v. *)
From Coq Require Import List Arith Bool Reals Lra Lia.
From TLV Require Import Base.Shape Base.PyList Base.Tensor Base.Ops Model.Nonneg Model.NonnegSign Model.NonnegFlow
     Proofs.NonnegProofs Proofs.NonnegProofs2 Proofs.NonnegSignProofs.
Import ListNotations.
Open Scope R_scope.

Lemma sg_le_refl s : sg_le s s = true.
Proof. destruct s; reflexivity. Qed.
Lemma sg_le_any s : sg_le s SgAny = true.
Proof. destruct s; reflexivity. Qed.

(* ---- join *)
Lemma alook_ajoin_l : forall a b x, sg_le (alook a x) (alook (ajoin a b) x) = true.
Proof.
  unfold alook. induction a as [|h a IH]; intros b x; simpl.
  - destruct x; apply sg_le_any.
  - destruct b as [|k b]; simpl; [destruct x; apply sg_le_any|].
    destruct x; simpl; [apply sg_le_join_l | apply IH].
Qed.
Lemma alook_ajoin_r : forall a b x, sg_le (alook b x) (alook (ajoin a b) x) = true.
Proof.
  unfold alook. induction a as [|h a IH]; intros b x; simpl.
  - destruct x; apply sg_le_any.
  - destruct b as [|k b]; simpl; [destruct x; apply sg_le_any|].
    destruct x; simpl; [apply sg_le_join_r | apply IH].
Qed.
Lemma gamma_ajoin_l a b st : gamma a st -> gamma (ajoin a b) st.
Proof. intros G x. eapply sat_le; [apply alook_ajoin_l | apply G]. Qed.
Lemma gamma_ajoin_r a b st : gamma b st -> gamma (ajoin a b) st.
Proof. intros G x. eapply sat_le; [apply alook_ajoin_r | apply G]. Qed.
Lemma ojoin_l o1 o2 a st : o1 = Some a -> gamma a st -> exists y, ojoin o1 o2 = Some y /\ gamma y st.
Proof. intros -> G. destruct o2 as [b|]; simpl; eexists; split; eauto. apply gamma_ajoin_l; auto. Qed.
Lemma ojoin_r o1 o2 b st : o2 = Some b -> gamma b st -> exists y, ojoin o1 o2 = Some y /\ gamma y st.
Proof. intros -> G. destruct o1 as [a|]; simpl; eexists; split; eauto. apply gamma_ajoin_r; auto. Qed.

(* ---- strong update *)
Lemma alook_aset1_other : forall a x s y, y <> x -> alook (aset1 a x s) y = alook a y.
Proof.
  unfold alook. induction a as [|h a IH]; intros x s y N; simpl; auto.
  destruct x; simpl; [destruct y; [congruence|reflexivity]|]. destruct y; simpl; auto.
Qed.
Lemma alook_aset1_same : forall a x s, alook (aset1 a x s) x = s \/ alook (aset1 a x s) x = SgAny.
Proof.
  unfold alook. induction a as [|h a IH]; intros x s; simpl.
  - right. destruct x; reflexivity.
  - destruct x; simpl; [left; reflexivity | apply IH].
Qed.
Lemma alook_aset_other s y : forall xs a, ~ In y xs -> alook (aset a xs s) y = alook a y.
Proof.
  unfold aset. induction xs as [|x xs IH]; intros a N; simpl; auto.
  rewrite IH by (intros H; apply N; right; auto). apply alook_aset1_other. intros ->. apply N; left; auto.
Qed.
Lemma alook_aset_in s y : forall xs a, In y xs -> alook (aset a xs s) y = s \/ alook (aset a xs s) y = SgAny.
Proof.
  unfold aset. induction xs as [|x xs IH]; intros a H; [destruct H|]. simpl.
  destruct (in_dec Nat.eq_dec y xs) as [I|I]; [apply IH; auto|].
  pose proof (alook_aset_other s y xs (aset1 a x s) I) as E. unfold aset in E. rewrite E.
  destruct H as [->|H]; [apply alook_aset1_same | contradiction].
Qed.
Lemma gamma_aset a xs s st st' : gamma a st -> (forall x, In x xs -> sat s (st' x)) -> (forall x, ~ In x xs -> st' x = st x) ->
  gamma (aset a xs s) st'.
Proof.
  intros G H1 H2 y. destruct (in_dec Nat.eq_dec y xs) as [I|I].
  - destruct (alook_aset_in s y xs a I) as [E|E]; rewrite E; [apply H1; auto | exact Logic.I].
  - rewrite alook_aset_other by auto. rewrite H2 by auto. apply G.
Qed.

(* ---- weak update *)
Lemma alook_raise_ge : forall a x s y, sg_le (alook a y) (alook (raise a x s) y) = true.
Proof.
  unfold alook. induction a as [|h a IH]; intros x s y; simpl; [apply sg_le_refl|].
  destruct x; simpl; [destruct y; simpl; [apply sg_le_join_l | apply sg_le_refl]|].
  destruct y; simpl; [apply sg_le_refl | apply IH].
Qed.
Lemma alook_raise_val : forall a x s, sg_le s (alook (raise a x s) x) = true.
Proof.
  unfold alook. induction a as [|h a IH]; intros x s; simpl; [destruct x; apply sg_le_any|].
  destruct x; simpl; [apply sg_le_join_r | apply IH].
Qed.
Lemma gamma_raise a x s st st' l : gamma a st -> sat s l -> incl (st' x) (st x ++ l) -> (forall y, y <> x -> st' y = st y) ->
  gamma (raise a x s) st'.
Proof.
  intros G Hs Hi Ho y. destruct (Nat.eq_dec y x) as [->|N].
  - eapply sat_incl; [exact Hi|]. apply sat_app.
    + eapply sat_le; [apply alook_raise_ge | apply G].
    + eapply sat_le; [apply alook_raise_val | exact Hs].
  - rewrite Ho by auto. eapply sat_le; [apply alook_raise_ge | apply G].
Qed.

(* ---- the theorem *)
Definition okres (res : ares) (o : outc) (st' : state) : Prop :=
  let '(n, b, r) := res in
  r = true ->
  match o with
  | ONorm => exists an, n = Some an /\ gamma an st'
  | OBrk => exists ab, b = Some ab /\ gamma ab st'
  | ORet l => vnn l
  end.

Arguments ojoin : simpl never.
Ltac okr := first [assumption | reflexivity].
Theorem aexec_sound fuel : forall c a st o st', gamma a st -> exec c st o st' -> okres (aexec fuel c a) o st'.
Proof.
  induction c as [| xs e | x e | c1 IH1 c2 IH2 | c1 IH1 c2 IH2 | c IH | c IH | | e]; intros a st o st' G X.
  - inversion X; subst. simpl. intros _. eexists; split; eauto.
  - inversion X; subst. simpl. intros _. eexists; split; eauto.
    apply gamma_aset with (st := st); auto. intros y Hy. eapply sat_incl; [eauto|]. eapply asign_sound; eauto.
  - inversion X; subst. simpl. intros _. eexists; split; eauto.
    eapply gamma_raise; eauto. eapply asign_sound; eauto.
  - simpl. destruct (aexec fuel c1 a) as [[n1 b1] r1] eqn:E1.
    inversion X; subst.
    + match goal with Hx : exec c1 _ ONorm _ |- _ => pose proof (IH1 _ _ _ _ G Hx) as P1 end. rewrite E1 in P1. simpl in P1.
      destruct n1 as [a1|].
      * destruct (aexec fuel c2 a1) as [[n2 b2] r2] eqn:E2. simpl. intros R. apply andb_prop in R. destruct R as [R1 R2].
        destruct (P1 ltac:(okr)) as [an [Ean Gan]]. inversion Ean; subst an.
        match goal with Hx : exec c2 _ _ _ |- _ => pose proof (IH2 _ _ _ _ Gan Hx) as P2 end. rewrite E2 in P2. simpl in P2. specialize (P2 ltac:(okr)).
        destruct o; auto. destruct P2 as [ab [-> Gb]]. eapply ojoin_r; eauto.
      * simpl. intros R. destruct (P1 ltac:(okr)) as [an [Ean _]]. discriminate.
    + match goal with Hx : exec c1 _ OBrk _ |- _ => pose proof (IH1 _ _ _ _ G Hx) as P1 end. rewrite E1 in P1. simpl in P1.
      destruct n1 as [a1|].
      * destruct (aexec fuel c2 a1) as [[n2 b2] r2]. simpl. intros R. apply andb_prop in R. destruct R as [R1 R2].
        destruct (P1 ltac:(okr)) as [ab [-> Gb]]. eapply ojoin_l; eauto.
      * simpl. auto.
    + match goal with Hx : exec c1 _ (ORet _) _ |- _ => pose proof (IH1 _ _ _ _ G Hx) as P1 end. rewrite E1 in P1. simpl in P1.
      destruct n1 as [a1|].
      * destruct (aexec fuel c2 a1) as [[n2 b2] r2]. simpl. intros R. apply andb_prop in R. destruct R as [R1 R2]. auto.
      * simpl. auto.
  - simpl. destruct (aexec fuel c1 a) as [[n1 b1] r1] eqn:E1. destruct (aexec fuel c2 a) as [[n2 b2] r2] eqn:E2.
    simpl. intros R. apply andb_prop in R. destruct R as [R1 R2].
    inversion X; subst.
    + match goal with Hx : exec c1 _ _ _ |- _ => pose proof (IH1 _ _ _ _ G Hx) as P end. rewrite E1 in P. simpl in P. specialize (P ltac:(okr)).
      destruct o; auto; destruct P as [y [-> Gy]]; eapply ojoin_l; eauto.
    + match goal with Hx : exec c2 _ _ _ |- _ => pose proof (IH2 _ _ _ _ G Hx) as P end. rewrite E2 in P. simpl in P. specialize (P ltac:(okr)).
      destruct o; auto; destruct P as [y [-> Gy]]; eapply ojoin_r; eauto.
  - simpl. set (inv := loop_inv (aexec fuel c) fuel a).
    destruct (aexec fuel c inv) as [[n b] r] eqn:E. simpl. intros R.
    apply andb_prop in R. destruct R as [R R3]. apply andb_prop in R. destruct R as [R1 R2].
    assert (Ginv : gamma inv st) by (eapply env_le_gamma; eauto).
    clear G R3.
    remember (CLoop c) as lc eqn:Elc. revert Ginv.
    induction X; inversion Elc; subst; intros Ginv.
    + eapply ojoin_l; eauto.
    + pose proof (IH inv st ONorm st1 Ginv X1) as P. rewrite E in P. simpl in P. destruct (P ltac:(okr)) as [an [-> Gan]].
      apply IHX2; auto. simpl in R2. eapply env_le_gamma; eauto.
    + pose proof (IH inv st OBrk st1 Ginv X) as P. rewrite E in P. simpl in P. destruct (P ltac:(okr)) as [ab [-> Gb]].
      eapply ojoin_r; eauto.
    + pose proof (IH inv st (ORet l) st1 Ginv X) as P. rewrite E in P. simpl in P. auto.
  - simpl. destruct (aexec fuel c a) as [[n b] r] eqn:E. simpl. intros R.
    inversion X; subst.
    + match goal with Hx : exec c _ _ _ |- _ => pose proof (IH _ _ _ _ G Hx) as P end. rewrite E in P. simpl in P. destruct (P ltac:(okr)) as [y [-> Gy]]. eapply ojoin_l; eauto.
    + match goal with Hx : exec c _ _ _ |- _ => pose proof (IH _ _ _ _ G Hx) as P end. rewrite E in P. simpl in P. destruct (P ltac:(okr)) as [y [-> Gy]]. eapply ojoin_r; eauto.
    + match goal with Hx : exec c _ _ _ |- _ => pose proof (IH _ _ _ _ G Hx) as P end. rewrite E in P. simpl in P. auto.
  - inversion X; subst. simpl. intros _. eexists; split; eauto.
  - inversion X; subst. simpl. intros R. eapply sat_le_nn; [exact R|]. eapply asign_sound; eauto.
Qed.

(* verdict 0 for a (regenerated) structured body: from every initial state satisfying the assumptions on the parameters, every value the
   body can return is entrywise non-negative *)
Theorem flow_verdict_sound c a0 : flow_verdict c a0 = 0%nat ->
  forall st0 st l, gamma a0 st0 -> exec c st0 (ORet l) st -> vnn l.
Proof.
  unfold flow_verdict. intros V st0 st l G X.
  pose proof (aexec_sound (2 * length a0 + 2) c a0 st0 (ORet l) st G X) as P.
  destruct (aexec (2 * length a0 + 2) c a0) as [[n b] r]. simpl in P. destruct r; [auto|discriminate].
Qed.

(* non-vacuity: x = <data>; loop { x = x + <data>; x = clip(x, 0); if ..: break }; return x -- the flow-insensitive analysis cannot
   accept it (x is also assigned unclipped values), the flow-sensitive one does when the loop is entered through a clipped value *)
Definition mini_flow (clip_first : bool) : cmd :=
  CSeq (CAssign [0%nat] (if clip_first then XClip XNonneg XAny else XAny))
       (CSeq (CLoop (CSeq (CAssign [0%nat] (XAdd (XVar 0%nat) XAny))
                          (CSeq (CAssign [0%nat] (XClip XNonneg (XVar 0%nat))) (CIf CBreak CSkip))))
             (CReturn (XVar 0%nat))).
Example flow_accepts : flow_verdict (mini_flow true) [SgPos] = 0%nat.
Proof. vm_compute. reflexivity. Qed.
Example flow_rejects : flow_verdict (mini_flow false) [SgPos] = 2%nat.
Proof. vm_compute. reflexivity. Qed.
Example flow_insensitive_rejects :
  sign_verdict [SAssign [0%nat] (XClip XNonneg XAny); SAssign [0%nat] (XAdd (XVar 0%nat) XAny); SAssign [0%nat] (XClip XNonneg (XVar 0%nat))]
               [SgPos] (XVar 0%nat) = 2%nat.
Proof. vm_compute. reflexivity. Qed.
Example flow_exec_inhabited : exists st l, exec (mini_flow true) (fun _ => []) (ORet l) st.
Proof.
  exists (fun _ => []), []. unfold mini_flow.
  eapply x_seq_n.
  - eapply x_assign with (l := []); [eapply ev_clip with (l1 := []) (l2 := []); [apply ev_nonneg; constructor | apply ev_any | intros v []] | intros; apply incl_refl | reflexivity].
  - eapply x_seq_n; [apply x_loop_0|]. apply x_return. apply ev_var.
Qed.
