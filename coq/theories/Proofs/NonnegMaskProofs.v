(* C10 -- proofs for Model/NonnegMask.v: the masked multiplicative update and the cold start of hals_nnls *)
From Coq Require Import List Arith Bool Reals Lra Lia QArith.
From TLV Require Import Base.Shape Base.PyList Base.Tensor Base.Ops Model.Nonneg Model.NonnegMask Proofs.NonnegProofs Proofs.NonnegProofs2.
Import ListNotations.
Open Scope R_scope.

(* ---- (1) masked non_negative_parafac: ANY mask (not only 0/1), ANY signed tensor *)
Theorem non_negative_parafac_masked_nonneg (T mask : tensor R) eps stop nm modes n w Fs :
  0 < eps -> vnn w -> Forall mnn Fs ->
  let out := non_negative_parafac Rops nrm2 eps (fun _ => cp_mu_num_mask Rops T mask) (fun _ => cp_mu_den Rops) stop nm modes n (w, Fs) in
  vnn (fst out) /\ Forall mnn (snd out).
Proof. intros. apply non_negative_parafac_nonneg; auto. apply nrm2_nonneg. Qed.

(* the implementation overwrites `tensor` with the imputed tensor at every mode update; for a 0/1 mask imputing an imputed tensor is imputing the original *)
Lemma impute_entry_idem t m c' c : m = 0 \/ m = 1 ->
  impute_entry Rops (impute_entry Rops t m c') m c = impute_entry Rops t m c.
Proof. unfold impute_entry; rops. intros [-> | ->]; ring. Qed.

Lemma nth_map_seq {A} (f : nat -> A) d : forall n s p, (p < n)%nat -> nth p (map f (seq s n)) d = f (s + p)%nat.
Proof.
  induction n; intros s p Hp; [lia|]. destruct p; simpl.
  - f_equal; lia.
  - rewrite IHn by lia. f_equal; lia.
Qed.

Theorem impute_idem (T mask : tensor R) st' st :
  (forall p, (p < prod (shape T))%nat -> nth p (data mask) 0 = 0 \/ nth p (data mask) 0 = 1) ->
  impute Rops (impute Rops T mask st') mask st = impute Rops T mask st.
Proof.
  intros Hm. unfold impute. cbn [shape data]. f_equal. apply map_ext_in. intros p Hp. apply in_seq in Hp.
  change (f0 Rops) with 0. rewrite (nth_map_seq _ 0) by lia. cbn [Nat.add].
  apply impute_entry_idem. apply Hm. lia.
Qed.

(* ---- (2) hals_nnls: after at least one sweep every row with a non-zero diagonal entry is >= epsilon, from ANY start - in particular from the cold start,
        whose scaling factor sum(UtM * V) / sum(UtU * V V^T) can be negative (Example below) *)
Lemma hals_sweep_length eps sp rg UtM UtU V : length (hals_sweep Rops eps sp rg UtM UtU V) = length V.
Proof. unfold hals_sweep. apply fold_hals_rows_length. Qed.
Lemma hals_nnls_length eps sp rg UtM UtU : forall n V, length (hals_nnls Rops eps sp rg UtM UtU V n) = length V.
Proof. unfold hals_nnls. induction n; intros V; simpl; auto. rewrite IHn. apply hals_sweep_length. Qed.
Theorem hals_nnls_ge eps sp rg UtM UtU V n k :
  (k < length UtM)%nat -> (k < length V)%nat -> feqb Rops (nth k (nth k UtU []) 0) 0 = false ->
  vge eps (nth k (hals_nnls Rops eps sp rg UtM UtU V (S n)) []).
Proof.
  intros Hk HV Hd. unfold hals_nnls. rewrite iter_n_last. apply hals_sweep_ge; auto.
  change (iter_n n (hals_sweep Rops eps sp rg UtM UtU) V) with (hals_nnls Rops eps sp rg UtM UtU V n).
  rewrite hals_nnls_length. exact HV.
Qed.
Lemma hals_cold_start_length (UtM UtU S0 : list (list R)) : length (hals_cold_start Rops UtM UtU S0) = length S0.
Proof. unfold hals_cold_start. destruct (fltb _ _ _); unfold mmap; rewrite ?map_length; reflexivity. Qed.
Theorem hals_nnls_cold_ge eps sp rg UtM UtU S0 n k :
  (k < length UtM)%nat -> (k < length S0)%nat -> feqb Rops (nth k (nth k UtU []) 0) 0 = false ->
  vge eps (nth k (hals_nnls Rops eps sp rg UtM UtU (hals_cold_start Rops UtM UtU S0) (S n)) []).
Proof. intros. apply hals_nnls_ge; auto. rewrite hals_cold_start_length. auto. Qed.

(* the cold start itself is NOT entrywise >= 0 in general: UtU = [[1, 9/10], [9/10, 1]], UtM = UtU (1, -3)^T: the clipped solution (1, 0) is scaled by -17/10
   (hals_nnls(UtM, UtU, V=None, n_iter_max=0) returns it; one sweep repairs it: both diagonal entries are non-zero) *)
Example hals_cold_start_can_be_negative :
  hals_cold_start Qops [[(-17 # 10)%Q]; [(-21 # 10)%Q]] [[1%Q; (9 # 10)%Q]; [(9 # 10)%Q; 1%Q]] [[1%Q]; [(-3)%Q]] = [[(-17 # 10)%Q]; [0%Q]] /\
  hals_nnls Qops 0%Q None None [[(-17 # 10)%Q]; [(-21 # 10)%Q]] [[1%Q; (9 # 10)%Q]; [(9 # 10)%Q; 1%Q]] [[(-17 # 10)%Q]; [0%Q]] 1 = [[0%Q]; [0%Q]].
Proof. split; vm_compute; reflexivity. Qed.

(* non-vacuity of the masked theorem: one masked sweep on a signed 2 x 2 tensor with an unobserved entry, computed *)
Example masked_sweep_computes :
  let T := mk [2; 2]%nat [(-1)%Q; 2%Q; 3%Q; (-4)%Q] in let mask := mk [2; 2]%nat [1%Q; 0%Q; 1%Q; 1%Q] in
  data (impute Qops T mask ([1%Q], [[[1%Q]; [2%Q]]; [[1%Q]; [3%Q]]])) = [(-1)%Q; 3%Q; 3%Q; (-4)%Q].
Proof. vm_compute. reflexivity. Qed.
