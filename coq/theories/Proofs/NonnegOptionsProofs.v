(* C10 -- the entry points as functions of their RAW options: parsing lemmas and the sign theorems at entry-point level. *)
From Coq Require Import List Arith Bool Reals Lra Lia.
From TLV Require Import Base.Shape Base.PyList Base.Tensor Base.Ops Model.Nonneg Model.NonnegOptions Proofs.NonnegProofs Proofs.NonnegProofs2.
Import ListNotations.
Open Scope R_scope.

Lemma modes_of_spec n fixed m : In m (modes_of n fixed) <-> (m < n)%nat /\ ~ In m fixed.
Proof.
  unfold modes_of. rewrite filter_In, in_seq. split.
  - intros [H1 H2]. split; [lia|]. intros Hin. apply memb_In in Hin. rewrite Hin in H2. discriminate.
  - intros [H1 H2]. split; [lia|]. destruct (memb m fixed) eqn:E; auto. apply memb_In in E. contradiction.
Qed.
Lemma parse_nn_all n m : In m (parse_nn_modes n NNAll) <-> (m < n)%nat.
Proof. simpl. rewrite in_seq. lia. Qed.
Lemma parse_nn_none n m : ~ In m (parse_nn_modes n NNNone).
Proof. simpl. auto. Qed.
Lemma remove_first_notin x l : NoDup l -> ~ In x (remove_first x l).
Proof.
  induction 1 as [|y l Hy Hn IH]; simpl; auto.
  destruct (Nat.eqb_spec x y) as [->|N]; auto. intros [E|H]; [congruence|auto].
Qed.
Lemma remove_first_incl x l : incl (remove_first x l) l.
Proof. induction l as [|y l IH]; simpl; [apply incl_refl|]. destruct (Nat.eqb x y); [apply incl_tl, incl_refl | apply incl_cons; [left; auto | apply incl_tl; auto]]. Qed.
(* a fixed_modes list without repetitions never keeps the last mode fixed: the last mode is always updated *)
Lemma unfix_last_spec n fixed : NoDup fixed -> ~ In (n - 1)%nat (unfix_last n fixed).
Proof.
  intros H. unfold unfix_last. destruct (memb (n - 1) fixed) eqn:E.
  - apply remove_first_notin; auto.
  - intros Hin. apply memb_In in Hin. congruence.
Qed.
Lemma last_mode_updated n fixed : (0 < n)%nat -> NoDup fixed -> In (n - 1)%nat (modes_of n (unfix_last n fixed)).
Proof. intros Hn H. apply modes_of_spec. split; [lia|]. apply unfix_last_spec; auto. Qed.
(* every other fixed mode stays fixed *)
Lemma unfix_last_other n fixed m : m <> (n - 1)%nat -> In m fixed -> In m (unfix_last n fixed).
Proof.
  intros N H. unfold unfix_last. destruct (memb (n - 1) fixed); auto.
  induction fixed as [|y l IH]; simpl in *; auto. destruct (Nat.eqb_spec (n - 1) y) as [E|E].
  - destruct H; [congruence|auto].
  - destruct H; [left; auto | right; auto].
Qed.
(* sharpness of the NoDup hypothesis (list.remove drops one occurrence): fixed_modes = [2; 2] on an order-3 tensor keeps mode 2 fixed *)
Example unfix_last_repeated : unfix_last 3 [2; 2]%nat = [2]%nat /\ modes_of 3 (unfix_last 3 [2; 2]%nat) = [0; 1]%nat.
Proof. split; reflexivity. Qed.

Section Entry.
Variable nrm : list R -> R.
Hypothesis nrm_nonneg : forall v, 0 <= nrm v.

Theorem non_negative_parafac_entry_nonneg eps numf denf stop n fixed nm n_iter_max w Fs :
  0 < eps -> vnn w -> Forall mnn Fs ->
  let out := non_negative_parafac_entry Rops nrm eps numf denf stop n fixed nm n_iter_max w Fs in
  vnn (fst out) /\ Forall mnn (snd out).
Proof.
  intros He Hw HF. unfold non_negative_parafac_entry.
  assert (I : cp_inv (fun _ => True) (initialize_cp_user_norm Rops nrm w Fs nm)).
  { apply initialize_cp_user_norm_inv; auto. intros m _. apply Forall_nth_d; auto. constructor. }
  apply cp_inv_all_Forall in I. destruct (initialize_cp_user_norm Rops nrm w Fs nm) as [w' Fs']. destruct I as [I1 I2].
  apply non_negative_parafac_nonneg; auto.
Qed.

Theorem non_negative_parafac_hals_entry_nonneg utm utu solve inner stop n fixed nn sp nm n_iter_max w Fs :
  vnn w -> (forall m, In m (parse_nn_modes n nn) -> mnn (nth m Fs [])) ->
  let out := non_negative_parafac_hals_entry Rops nrm utm utu solve inner stop n fixed nn sp nm n_iter_max w Fs in
  vnn (fst out) /\ forall m, In m (parse_nn_modes n nn) -> mnn (nth m (snd out) []).
Proof.
  intros Hw HF out.
  change (cp_inv (fun m => In m (parse_nn_modes n nn)) out). unfold out, non_negative_parafac_hals_entry.
  apply non_negative_parafac_hals_inv_sub; auto.
  apply initialize_cp_user_hals_inv; auto.
Qed.
(* nn_modes='all': every factor of an order-n decomposition *)
Corollary non_negative_parafac_hals_entry_all utm utu solve inner stop n fixed sp nm n_iter_max w Fs :
  vnn w -> Forall mnn Fs ->
  let out := non_negative_parafac_hals_entry Rops nrm utm utu solve inner stop n fixed NNAll sp nm n_iter_max w Fs in
  vnn (fst out) /\ forall m, (m < n)%nat -> mnn (nth m (snd out) []).
Proof.
  intros Hw HF out.
  destruct (non_negative_parafac_hals_entry_nonneg utm utu solve inner stop n fixed NNAll sp nm n_iter_max w Fs Hw) as [H1 H2].
  - intros m _. apply Forall_nth_d; auto. constructor.
  - split; auto. intros m Hm. apply H2. apply parse_nn_all; auto.
Qed.

(* no hypothesis on the start at all: initialize_tucker(non_negative=True) takes the absolute value of a user (core, factors) as well *)
Theorem non_negative_tucker_hals_entry_nonneg alg feps utm utu inner lr csp lin cutm betas support as_n stop n fixed sp nm n_iter_max core Fs :
  0 <= feps ->
  let out := non_negative_tucker_hals_entry Rops nrm alg feps utm utu inner lr csp lin cutm betas support as_n stop n fixed sp nm n_iter_max core Fs in
  vnn (data (fst out)) /\ Forall mnn (snd out).
Proof. intros He. unfold non_negative_tucker_hals_entry. apply init_then_non_negative_tucker_hals; auto. Qed.
End Entry.
