(* C10 -- parafac2 with a user-supplied line-search object: what holds (the instance clips at least the declared modes) and what does not. *)
From Coq Require Import List Arith Bool Reals Lra Lia.
From TLV Require Import Base.Shape Base.PyList Base.Tensor Base.Ops Model.Nonneg Model.NonnegP2Ls Proofs.NonnegProofs Proofs.NonnegProofs2.
Import ListNotations.
Open Scope R_scope.

(* the decomposition's own line search (ls_nn = nn) is Model/Nonneg.v's parafac2 *)
Lemma parafac2_ls_same {F} (Op : fops F) nrm utm utu solve inner istop nn nip line accept nm stop n init :
  parafac2_ls Op nrm utm utu solve inner istop nn nn nip line accept nm stop n init
  = parafac2 Op nrm utm utu solve inner istop nn nip line accept nm stop n init.
Proof. reflexivity. Qed.

Section P2Ls.
Variable nrm : list R -> R.
Hypothesis nrm_nonneg : forall v, 0 <= nrm v.

Lemma parafac2_iter_ls_inv (D : nat -> Prop) utm utu solve inner istop nn ls_nn nip line accept nm it st :
  (forall m, D m -> In m nn) -> (forall m, D m -> In m ls_nn) ->
  cp_inv D st -> cp_inv D (parafac2_iter_ls Rops nrm utm utu solve inner istop nn ls_nn nip line accept nm it st).
Proof.
  intros HD HL. destruct st as [w Fs]. intros [Hw HF]. cbn [fst snd] in *. unfold parafac2_iter_ls.
  set (Fs0 := set_nth 1 (mul_cols Rops (nth 1 Fs []) w) Fs).
  assert (H0 : forall m, D m -> mnn (nth m Fs0 [])).
  { intros m Hm. unfold Fs0. apply nth_set_nth_P; auto. intros ->. apply mul_cols_nn; auto. }
  pose proof (non_negative_parafac_hals_inv_sub nrm nrm_nonneg D (utm it) (utu it) solve (inner it) (istop it) nn (repeat None 3) false [0;1;2]%nat nip
               (initialize_cp_user Rops (repeat (f1 Rops) (length w)) Fs0) HD
               (initialize_cp_user_inv D _ _ (ones_nn _) H0)) as H1.
  destruct (non_negative_parafac_hals Rops nrm (utm it) (utu it) solve (inner it) (istop it) nn (repeat None 3) false [0;1;2]%nat nip
               (initialize_cp_user Rops (repeat (f1 Rops) (length w)) Fs0)) as [w1 Fs1].
  destruct H1 as [_ H1]. cbn [snd] in H1.
  assert (H2 : forall m, D m -> mnn (nth m (match line it with
             | Some jump => if accept it (repeat (f1 Rops) (length w), Fs1) then line_step Rops ls_nn jump Fs0 Fs1 else Fs1
             | None => Fs1 end) [])).
  { intros m Hm. destruct (line it) as [jump|] eqn:El; auto. destruct (accept it _); auto.
    unfold line_step.
    apply (line_step_from_nth ls_nn jump (fun k M => D k -> mnn M)) with (k := 0%nat); auto.
    - intros; constructor.
    - intros k L C Hk. apply line_entry_clipped; auto. }
  assert (I : cp_inv D (repeat (f1 Rops) (length w), match line it with
             | Some jump => if accept it (repeat (f1 Rops) (length w), Fs1) then line_step Rops ls_nn jump Fs0 Fs1 else Fs1
             | None => Fs1 end)) by (split; [apply ones_nn | exact H2]).
  destruct nm; auto. apply cp_normalize_inv; auto.
Qed.

(* a user-supplied line search whose own nn_modes contain every declared mode keeps the declared modes feasible *)
Theorem parafac2_ls_nonneg utm utu solve inner istop nn ls_nn nip line accept nm stop n w Fs :
  incl nn ls_nn -> vnn w -> (forall m, In m nn -> mnn (nth m Fs [])) ->
  let out := parafac2_ls Rops nrm utm utu solve inner istop nn ls_nn nip line accept nm stop n (w, Fs) in
  vnn (fst out) /\ forall m, In m nn -> mnn (nth m (snd out) []).
Proof.
  intros Hincl Hw HF out. change (cp_inv (fun m => In m nn) out).
  unfold out, parafac2_ls. apply outer_loop_inv; auto.
  - intros it s Hs. apply parafac2_iter_ls_inv; auto.
  - apply cp_fin_inv; auto. split; auto.
Qed.
End P2Ls.

(* what does NOT hold (executed over Q on the same functions): a line-search instance created without nn_modes (ls_nn = []) and an
   accepted jump of 3: the declared mode 0 goes 1 -> 1/2 in the HALS iteration, the extrapolation 1 + (1/2 - 1) * 3 = -1/2 is returned unclipped *)
From Coq Require Import QArith.
Lemma parafac2_user_linesearch_witness :
  exists utm utu solve inner istop,
    let init := ([1%Q], [[[1%Q]]; [[1%Q]]; [[1%Q]]]) in
    (* entrywise non-negative start, modes 0 and 2 declared *)
    qneg (nth 0 (nth 0 (nth 0 (snd (parafac2_ls Qops (fun _ => 1%Q) utm utu solve inner istop [0; 2]%nat (@nil nat) 1 (fun _ => Some 3%Q) (fun _ _ => true)
                                     false (fun _ _ => false) 1 init)) []) []) 0%Q) /\
    (* the same run with the decomposition's own line search (ls_nn = nn) is feasible *)
    nth 0 (nth 0 (nth 0 (snd (parafac2_ls Qops (fun _ => 1%Q) utm utu solve inner istop [0; 2]%nat [0; 2]%nat 1 (fun _ => Some 3%Q) (fun _ _ => true)
                                     false (fun _ _ => false) 1 init)) []) []) 1%Q = 0%Q.
Proof.
  exists (fun _ _ _ mode => [[(1 # 2)%Q]]), (fun _ _ _ mode => [[1%Q]]), (fun _ M => M), (fun _ _ _ _ => 1%nat), (fun _ _ _ => false).
  split; vm_compute; reflexivity.
Qed.
