(* C10 -- the candidate repair v2 satisfies the full statement, whatever nn_modes the caller's line-search object carries *)
From Coq Require Import List Arith Bool Reals Lra Lia.
From TLV Require Import Base.Shape Base.PyList Base.Tensor Base.Ops Model.Nonneg Model.NonnegP2Ls Model.NonnegP2Repair Proofs.NonnegProofs Proofs.NonnegProofs2 Proofs.NonnegP2LsProofs.
Import ListNotations.
Open Scope R_scope.

Lemma memb_app k a b : memb k (a ++ b) = memb k a || memb k b.
Proof. induction a; simpl; auto. rewrite IHa. apply orb_assoc. Qed.
Lemma clip0_idem x : clip_min Rops 0 (clip_min Rops 0 x) = clip_min Rops 0 x.
Proof. apply clip_min_id. apply clip_min_ge. Qed.
Lemma mmap_clip_idem M : mmap (clip_min Rops 0) (mmap (clip_min Rops 0) M) = mmap (clip_min Rops 0) M.
Proof.
  unfold mmap. rewrite map_map. apply map_ext. intros row. rewrite map_map. apply map_ext. intros x. apply clip0_idem.
Qed.
(* projecting the step of a line search that clips on ls_nn on the modes nn is the step of a line search that clips on ls_nn ++ nn *)
Lemma line_step_then_clip_from nn ls_nn jump : forall last cur k,
  clip_modes_from Rops k nn (line_step_from Rops k ls_nn jump last cur) = line_step_from Rops k (ls_nn ++ nn) jump last cur.
Proof.
  induction last as [|L last IH]; intros cur k; simpl; auto. destruct cur as [|C cur]; simpl; auto.
  rewrite IH. f_equal. unfold line_entry. rewrite memb_app.
  destruct (memb k ls_nn), (memb k nn); simpl; auto.
  change (f0 Rops) with 0. apply mmap_clip_idem.
Qed.
Theorem line_step_then_clip nn ls_nn jump last cur :
  clip_modes Rops nn (line_step Rops ls_nn jump last cur) = line_step Rops (ls_nn ++ nn) jump last cur.
Proof. apply line_step_then_clip_from. Qed.

Theorem parafac2_repaired_nonneg (nrm : list R -> R) (Hn : forall v, 0 <= nrm v) utm utu solve inner istop nn ls_nn nip line accept nm stop n w Fs :
  vnn w -> (forall m, In m nn -> mnn (nth m Fs [])) ->
  let out := parafac2_repaired Rops nrm utm utu solve inner istop nn ls_nn nip line accept nm stop n (w, Fs) in
  vnn (fst out) /\ forall m, In m nn -> mnn (nth m (snd out) []).
Proof. intros. apply parafac2_ls_nonneg; auto. apply incl_appr, incl_refl. Qed.
