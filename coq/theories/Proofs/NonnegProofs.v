(* C10 -- sign lemmas for Model/Nonneg.v over R.  The data tensor, LAPACK, stopping tests and iteration counts
   enter the model only through function arguments; every theorem quantifies over ALL such functions. *)
From Coq Require Import List Arith Bool Reals Lra Lia.
From TLV Require Import Base.Shape Base.PyList Base.Tensor Base.Ops Model.Nonneg.
Import ListNotations.
Open Scope R_scope.

Definition vnn (v : list R) : Prop := Forall (fun x => 0 <= x) v.
Definition mnn (M : list (list R)) : Prop := Forall vnn M.
Definition vge (eps : R) (v : list R) : Prop := Forall (fun x => eps <= x) v.
Definition mge (eps : R) (M : list (list R)) : Prop := Forall (vge eps) M.

Ltac rops := cbn [fadd fsub fmul fdiv fopp fleb f0 f1 Rops] in *.

(* ------------------------------------------------------------------ generic list facts *)
Lemma Forall_map_any {A B} (Q : B -> Prop) (f : A -> B) l : (forall x, Q (f x)) -> Forall Q (map f l).
Proof. intros H. induction l; simpl; constructor; auto. Qed.
Lemma Forall_map_P {A B} (P : A -> Prop) (Q : B -> Prop) (f : A -> B) l :
  (forall x, P x -> Q (f x)) -> Forall P l -> Forall Q (map f l).
Proof. intros H HP. induction HP; simpl; constructor; auto. Qed.
Lemma Forall_map2_any {A B C} (Q : C -> Prop) (f : A -> B -> C) : (forall x y, Q (f x y)) -> forall a b, Forall Q (map2 f a b).
Proof. intros H. induction a; destruct b; simpl; constructor; auto. Qed.
Lemma Forall_map2_1 {A B C} (P : A -> Prop) (Q : C -> Prop) (f : A -> B -> C) :
  (forall x y, P x -> Q (f x y)) -> forall a b, Forall P a -> Forall Q (map2 f a b).
Proof. intros H a b HP. revert b. induction HP; destruct b; simpl; constructor; auto. Qed.
Lemma Forall_map2_both {A B C} (P1 : A -> Prop) (P2 : B -> Prop) (Q : C -> Prop) (f : A -> B -> C) :
  (forall x y, P1 x -> P2 y -> Q (f x y)) -> forall a b, Forall P1 a -> Forall P2 b -> Forall Q (map2 f a b).
Proof. intros H a b HP. revert b. induction HP; destruct b; simpl; intros HQ; constructor; inversion HQ; subst; auto. Qed.
Lemma Forall_map3_any {A B C D} (Q : D -> Prop) (f : A -> B -> C -> D) :
  (forall x y z, Q (f x y z)) -> forall a b c, Forall Q (map3 f a b c).
Proof. intros H. induction a; destruct b, c; simpl; constructor; auto. Qed.
Lemma Forall_map3_1 {A B C D} (P : A -> Prop) (Q : D -> Prop) (f : A -> B -> C -> D) :
  (forall x y z, P x -> Q (f x y z)) -> forall a b c, Forall P a -> Forall Q (map3 f a b c).
Proof. intros H a b c HP. revert b c. induction HP; destruct b, c; simpl; constructor; auto. Qed.
Lemma Forall_set_nth {A} (P : A -> Prop) v : P v -> forall k l, Forall P l -> Forall P (set_nth k v l).
Proof. intros Hv. induction k; destruct l; simpl; intros H; auto; inversion H; subst; constructor; auto. Qed.
Lemma Forall_nth_d {A} (P : A -> Prop) d : P d -> forall l k, Forall P l -> P (nth k l d).
Proof. intros Hd. induction l; destruct k; simpl; intros H; auto; inversion H; subst; auto. Qed.
Lemma nth_set_nth_P {A} (P : A -> Prop) v d : forall k l m,
  P (nth m l d) -> (m = k -> P v) -> P (nth m (set_nth k v l) d).
Proof.
  induction k; destruct l, m; simpl; intros H Hv; auto.
Qed.
Lemma fold_left_inv {A B} (P : A -> Prop) (f : A -> B -> A) : (forall s x, P s -> P (f s x)) -> forall l s, P s -> P (fold_left f l s).
Proof. intros H. induction l; simpl; auto. Qed.
Lemma iter_n_inv {A} (P : A -> Prop) (f : A -> A) : (forall s, P s -> P (f s)) -> forall n s, P s -> P (iter_n n f s).
Proof. intros H. induction n; simpl; auto. Qed.
Lemma iter_n_last {A} (f : A -> A) : forall n s, iter_n (S n) f s = f (iter_n n f s).
Proof. induction n; intros s; [reflexivity|]. change (iter_n (S (S n)) f s) with (iter_n (S n) f (f s)). rewrite IHn. reflexivity. Qed.
Lemma outer_loop_inv {St} (P : St -> Prop) body stop fb fc :
  (forall it s, P s -> P (body it s)) -> (forall s, P s -> P (fb s)) -> (forall s, P s -> P (fc s)) ->
  forall n it s, P s -> P (@outer_loop St n it body stop fb fc s).
Proof.
  intros Hb Hfb Hfc. induction n; simpl; intros it s Hs; auto.
  destruct (stop it (body it s)); auto.
Qed.
Lemma all_nth_Forall {A} (P : A -> Prop) d l : (forall m, P (nth m l d)) -> Forall P l.
Proof. intros H. apply Forall_forall. intros x Hx. destruct (In_nth l x d Hx) as [n [_ E]]. rewrite <- E. apply H. Qed.

(* ------------------------------------------------------------------ entry formulas *)
Lemma clip_min_ge eps x : eps <= clip_min Rops eps x.
Proof. unfold clip_min, fmax; rops. destruct (Rleb eps x) eqn:E; [apply Rleb_true in E|]; lra. Qed.
Lemma clip_min_ge_arg eps x : x <= clip_min Rops eps x.
Proof. unfold clip_min, fmax; rops. destruct (Rleb eps x) eqn:E; [|apply Rleb_false in E]; lra. Qed.
Lemma clip_min_id eps x : eps <= x -> clip_min Rops eps x = x.
Proof. intros H. unfold clip_min, fmax; rops. destruct (Rleb eps x) eqn:E; [reflexivity|apply Rleb_false in E; lra]. Qed.
Lemma where_lt_ge eps x : eps <= where_lt Rops eps x.
Proof.
  unfold where_lt, fltb; rops. destruct (Rleb eps x) eqn:E; simpl; [apply Rleb_true in E|]; lra.
Qed.
Lemma fabs_nonneg x : 0 <= fabs Rops x.
Proof. unfold fabs; rops. destruct (Rleb 0 x) eqn:E; [apply Rleb_true in E|apply Rleb_false in E]; lra. Qed.
(* multiplicative update of _nn_cp.py *)
Lemma mu_entry_nonneg eps x n d : 0 < eps -> 0 <= x -> 0 <= mu_entry Rops eps x n d.
Proof.
  intros He Hx. unfold mu_entry; rops. pose proof (clip_min_ge eps n). pose proof (clip_min_ge eps d).
  apply Rmult_le_pos; [apply Rmult_le_pos; lra | left; apply Rinv_0_lt_compat; lra].
Qed.
Lemma mu_entry_pos eps x n d : 0 < eps -> 0 < x -> 0 < mu_entry Rops eps x n d.
Proof.
  intros He Hx. unfold mu_entry; rops. pose proof (clip_min_ge eps n). pose proof (clip_min_ge eps d).
  apply Rmult_lt_0_compat; [apply Rmult_lt_0_compat; lra | apply Rinv_0_lt_compat; lra].
Qed.
(* multiplicative update of _tucker.py *)
Lemma mu_entry_tk_nonneg eps x n d : 0 < eps -> 0 <= x -> 0 <= mu_entry_tk Rops eps x n d.
Proof.
  intros He Hx. unfold mu_entry_tk; rops. pose proof (clip_min_ge eps n). pose proof (clip_min_ge eps d).
  apply Rmult_le_pos; [lra | apply Rmult_le_pos; [lra | left; apply Rinv_0_lt_compat; lra]].
Qed.
Lemma nz_pos s : 0 <= s -> 0 < nz Rops s.
Proof.
  intros H. unfold nz, feqb; rops. destruct (Rleb s 0) eqn:E1; simpl.
  - destruct (Rleb 0 s) eqn:E2; [lra|]. apply Rleb_false in E2. lra.
  - apply Rleb_false in E1. lra.
Qed.
(* division by a (non-zero) scale: signs are preserved *)
Lemma div_nz_nonneg x s : 0 <= x -> 0 <= s -> 0 <= fdiv Rops x (nz Rops s).
Proof. intros Hx Hs. rops. apply Rmult_le_pos; [lra | left; apply Rinv_0_lt_compat; apply nz_pos; lra]. Qed.

Lemma mu_update_nn eps X N D : 0 < eps -> mnn X -> mnn (mu_update Rops eps X N D).
Proof.
  intros He HX. unfold mu_update. apply Forall_map3_1 with (P := vnn); auto.
  intros x y z Hx. apply Forall_map3_1 with (P := fun t => 0 <= t); auto. intros; apply mu_entry_nonneg; auto.
Qed.
Lemma mu_update_tk_nn eps X N D : 0 < eps -> mnn X -> mnn (mu_update_tk Rops eps X N D).
Proof.
  intros He HX. unfold mu_update_tk. apply Forall_map3_1 with (P := vnn); auto.
  intros x y z Hx. apply Forall_map3_1 with (P := fun t => 0 <= t); auto. intros; apply mu_entry_tk_nonneg; auto.
Qed.
Lemma abs_mat_nn M : mnn (abs_mat Rops M).
Proof. unfold abs_mat, mmap. apply Forall_map_any. intros r. apply Forall_map_any. apply fabs_nonneg. Qed.
Lemma col_nn j M : mnn M -> vnn (col Rops j M).
Proof. intros H. unfold col. eapply Forall_map_P; [|exact H]. intros row Hr. apply Forall_nth_d; auto. rops. lra. Qed.
Lemma transp_nn M : mnn M -> mnn (transp Rops M).
Proof. intros H. unfold transp. apply Forall_map_any. intros j. apply col_nn; auto. Qed.
Lemma mul_cols_nn M w : mnn M -> vnn w -> mnn (mul_cols Rops M w).
Proof.
  intros HM Hw. unfold mul_cols. eapply Forall_map_P; [|exact HM]. intros row Hr.
  apply Forall_map2_both with (P1 := fun t => 0 <= t) (P2 := fun t => 0 <= t); auto. intros; rops. apply Rmult_le_pos; auto.
Qed.
Lemma mmap_clip_ge eps M : mge eps (mmap (clip_min Rops eps) M).
Proof. unfold mmap. apply Forall_map_any. intros r. apply Forall_map_any. apply clip_min_ge. Qed.
Lemma vge_vnn eps v : 0 <= eps -> vge eps v -> vnn v.
Proof. intros He H. eapply Forall_impl; [|exact H]. simpl. intros; lra. Qed.
Lemma mge_mnn eps M : 0 <= eps -> mge eps M -> mnn M.
Proof. intros He H. eapply Forall_impl; [|exact H]. intros v. apply vge_vnn; auto. Qed.

(* ------------------------------------------------------------------ normalisation *)
Section WithNorm.
Variable nrm : list R -> R.
Hypothesis nrm_nonneg : forall v, 0 <= nrm v.

Lemma scales_nn Rk M : vnn (scales Rops nrm Rk M).
Proof. unfold scales. apply Forall_map_any. intros; apply nrm_nonneg. Qed.
Lemma div_cols_nn M sc : mnn M -> vnn sc -> mnn (div_cols Rops M sc).
Proof.
  intros HM Hs. unfold div_cols. eapply Forall_map_P; [|exact HM]. intros row Hr.
  apply Forall_map2_both with (P1 := fun t => 0 <= t) (P2 := fun t => 0 <= t); auto. intros; apply div_nz_nonneg; auto.
Qed.

(* D = the declared modes *)
Definition cp_inv (D : nat -> Prop) (st : @cp_state R) : Prop :=
  vnn (fst st) /\ forall m, D m -> mnn (nth m (snd st) []).

Lemma cp_normalize_inv D st : cp_inv D st -> cp_inv D (cp_normalize Rops nrm st).
Proof.
  destruct st as [w Fs]. intros [Hw HF]. unfold cp_normalize. split; cbn [fst snd] in *.
  - apply fold_left_inv.
    + intros acc M Hacc. apply Forall_map2_both with (P1 := fun t => 0 <= t) (P2 := fun t => 0 <= t); auto.
      * intros; rops. apply Rmult_le_pos; auto.
      * apply scales_nn.
    + apply Forall_forall. intros x Hx. apply repeat_spec in Hx. subst. rops. lra.
  - intros m Hm.
    change (@nil (list R)) with ((fun M => div_cols Rops M (scales Rops nrm (length w) M)) []).
    rewrite map_nth. apply div_cols_nn; [|apply scales_nn].
    specialize (HF m Hm). destruct Fs as [|F0 r]; [destruct m; simpl; constructor|].
    destruct m; simpl in *; auto. apply mul_cols_nn; auto.
Qed.
Lemma cp_fin_inv D b st : cp_inv D st -> cp_inv D (cp_fin Rops nrm b st).
Proof. intros H. unfold cp_fin. destruct b; auto. apply cp_normalize_inv; auto. Qed.

Lemma cp_set_mode_inv D (b : bool) w Fs mode M :
  cp_inv D (w, Fs) -> (D mode -> mnn M) ->
  cp_inv D (if b then cp_normalize Rops nrm (w, set_nth mode M Fs) else (w, set_nth mode M Fs)).
Proof.
  intros [Hw HF] HM.
  assert (I : cp_inv D (w, set_nth mode M Fs)).
  { split; auto. cbn [snd] in *. intros m Hm. apply nth_set_nth_P; auto. intros ->. auto. }
  destruct b; auto. apply cp_normalize_inv; auto.
Qed.

(* ------------------------------------------------------------------ non_negative_parafac (MU) *)
Lemma cp_mu_mode_inv eps numf denf nm lastm st mode : 0 < eps ->
  cp_inv (fun _ => True) st -> cp_inv (fun _ => True) (cp_mu_mode Rops nrm eps numf denf nm lastm st mode).
Proof.
  intros He H. destruct st as [w Fs]. unfold cp_mu_mode. apply cp_set_mode_inv; auto.
  intros _. apply mu_update_nn; auto. destruct H as [_ HF]. apply HF; exact I.
Qed.

Theorem non_negative_parafac_nonneg eps numf denf stop nm modes n w Fs :
  0 < eps -> vnn w -> Forall mnn Fs ->
  let out := non_negative_parafac Rops nrm eps numf denf stop nm modes n (w, Fs) in
  vnn (fst out) /\ Forall mnn (snd out).
Proof.
  intros He Hw HF out.
  assert (I : cp_inv (fun _ => True) out).
  { unfold out, non_negative_parafac. apply outer_loop_inv.
    - intros it s Hs. unfold cp_mu_sweep. apply fold_left_inv; auto. intros; apply cp_mu_mode_inv; auto.
    - intros; apply cp_fin_inv; auto.
    - intros; apply cp_fin_inv; auto.
    - split; auto. intros m _. apply Forall_nth_d; auto. constructor. }
  destruct I as [I1 I2]. split; auto. apply all_nth_Forall with (d := []). intros; apply I2; exact I.
Qed.

(* initialisation: abs of any (signed) SVD / random factors, weights one, optional normalisation *)
Lemma initialize_cp_nn_inv Rk raw nm : cp_inv (fun _ => True) (initialize_cp_nn Rops nrm Rk raw nm).
Proof.
  unfold initialize_cp_nn. apply cp_fin_inv. split; cbn [fst snd].
  - apply Forall_forall. intros x Hx. apply repeat_spec in Hx. subst. rops; lra.
  - intros m _. apply Forall_nth_d; [constructor|]. apply Forall_map_any. apply abs_mat_nn.
Qed.

(* ------------------------------------------------------------------ HALS (solvers/nnls.py) *)
Lemma hals_row_nn eps sp rg UtM UtU V k : 0 <= eps -> mnn V -> mnn (hals_row Rops eps sp rg UtM UtU V k).
Proof.
  intros He HV. unfold hals_row. destruct (feqb Rops _ _); auto.
  apply Forall_set_nth; auto. apply Forall_map_any. intros x. pose proof (clip_min_ge eps (fdiv Rops x
    match rg with Some r => fadd Rops (nth k (nth k UtU []) (f0 Rops)) (fmul Rops (fadd Rops (f1 Rops) (f1 Rops)) r)
             | None => nth k (nth k UtU []) (f0 Rops) end)). lra.
Qed.
(* the updated row is >= eps whatever the signs of the data, of the Gram matrix and of the previous iterate *)
Lemma hals_row_ge eps sp rg UtM UtU V k :
  feqb Rops (nth k (nth k UtU []) 0) 0 = false -> (k < length V)%nat ->
  vge eps (nth k (hals_row Rops eps sp rg UtM UtU V k) []).
Proof.
  intros Hd Hk. unfold hals_row. rops. rewrite Hd. rewrite nth_set_nth_same by exact Hk.
  apply Forall_map_any. intros x. apply clip_min_ge.
Qed.
Lemma hals_row_length eps sp rg UtM UtU V k : length (hals_row Rops eps sp rg UtM UtU V k) = length V.
Proof. unfold hals_row. destruct (feqb Rops _ _); auto. apply set_nth_length. Qed.
Lemma hals_row_other eps sp rg UtM UtU V k j : j <> k ->
  nth j (hals_row Rops eps sp rg UtM UtU V k) [] = nth j V [].
Proof. intros H. unfold hals_row. destruct (feqb Rops _ _); auto. apply nth_set_nth_other; auto. Qed.
Lemma hals_sweep_nn eps sp rg UtM UtU V : 0 <= eps -> mnn V -> mnn (hals_sweep Rops eps sp rg UtM UtU V).
Proof. intros He. unfold hals_sweep. apply fold_left_inv. intros; apply hals_row_nn; auto. Qed.
Lemma hals_nnls_nn eps sp rg UtM UtU V n : 0 <= eps -> mnn V -> mnn (hals_nnls Rops eps sp rg UtM UtU V n).
Proof. intros He. unfold hals_nnls. apply iter_n_inv. intros; apply hals_sweep_nn; auto. Qed.

Lemma fold_hals_rows_keep eps sp rg UtM UtU j : forall ks V, ~ In j ks ->
  nth j (fold_left (hals_row Rops eps sp rg UtM UtU) ks V) [] = nth j V [].
Proof.
  induction ks; simpl; intros V H; auto. rewrite IHks by tauto. apply hals_row_other. intros ->. tauto.
Qed.
Lemma fold_hals_rows_length eps sp rg UtM UtU : forall ks V,
  length (fold_left (hals_row Rops eps sp rg UtM UtU) ks V) = length V.
Proof. induction ks; simpl; intros V; auto. rewrite IHks. apply hals_row_length. Qed.
(* after one sweep, every row with a non-zero diagonal entry of UtU is >= eps, for ANY (signed) start V *)
Lemma hals_sweep_ge eps sp rg UtM UtU V k :
  (k < length UtM)%nat -> (k < length V)%nat -> feqb Rops (nth k (nth k UtU []) 0) 0 = false ->
  vge eps (nth k (hals_sweep Rops eps sp rg UtM UtU V) []).
Proof.
  intros Hk HV Hd. unfold hals_sweep.
  assert (E : seq 0 (length UtM) = seq 0 k ++ k :: seq (S k) (length UtM - S k)).
  { replace (length UtM) with (k + S (length UtM - S k))%nat at 1 by lia. rewrite seq_app. reflexivity. }
  rewrite E, fold_left_app. cbn [fold_left].
  rewrite fold_hals_rows_keep by (rewrite in_seq; lia).
  apply hals_row_ge; auto. rewrite fold_hals_rows_length. exact HV.
Qed.

(* ------------------------------------------------------------------ FISTA *)
Lemma fista_step_ge eps lr sp rg lin UtM st beta : vge eps (fst (fista_step Rops eps lr sp rg true lin UtM st beta)).
Proof. destruct st as [x xu]. unfold fista_step. cbn [fst]. apply Forall_map_any. apply where_lt_ge. Qed.
(* at least one executed iteration: every entry of the returned core is >= eps, for any data / step size / momentum *)
Lemma fista_ge eps lr sp rg lin UtM x betas : betas <> [] -> vge eps (fista Rops eps lr sp rg true lin UtM x betas).
Proof.
  intros H. destruct (exists_last H) as [bs [b ->]]. unfold fista. rewrite fold_left_app. cbn [fold_left]. apply fista_step_ge.
Qed.
Lemma fista_nn eps lr sp rg lin UtM x betas : 0 <= eps -> vnn x -> vnn (fista Rops eps lr sp rg true lin UtM x betas).
Proof.
  intros He Hx. destruct betas as [|b0 bs]; [exact Hx|]. eapply vge_vnn; [exact He|]. apply fista_ge. discriminate.
Qed.
(* ------------------------------------------------------------------ active set *)
Lemma iter_idx_last {A} (f : nat -> A -> A) : forall n k s, iter_idx (S n) k f s = f (k + n)%nat (iter_idx n k f s).
Proof.
  induction n; intros k s; [simpl; rewrite Nat.add_0_r; reflexivity|].
  change (iter_idx (S (S n)) k f s) with (iter_idx (S n) (S k) f (f k s)). rewrite IHn.
  replace (S k + n)%nat with (k + S n)%nat by lia. reflexivity.
Qed.
Lemma active_set_ge support x n : (0 < n)%nat -> vnn (active_set Rops support x n).
Proof.
  intros H. destruct n; [lia|]. unfold active_set. rewrite iter_idx_last. apply Forall_map_any. intros y.
  pose proof (clip_min_ge 0 y). rops. lra.
Qed.
Lemma active_set_nn support x n : vnn x -> vnn (active_set Rops support x n).
Proof. intros Hx. destruct n; [exact Hx|]. apply active_set_ge. lia. Qed.

(* ------------------------------------------------------------------ non_negative_parafac_hals *)
Lemma cp_hals_mode_inv utm utu solve inner nn sps nm lastm st mode :
  cp_inv (fun m => In m nn) st ->
  cp_inv (fun m => In m nn) (cp_hals_mode Rops nrm utm utu solve inner nn sps nm lastm st mode).
Proof.
  intros H. destruct st as [w Fs]. unfold cp_hals_mode. apply cp_set_mode_inv; auto.
  intros Hin. apply memb_In in Hin. rewrite Hin. apply transp_nn. apply hals_nnls_nn; [rops; lra|].
  apply transp_nn. destruct H as [_ HF]. apply HF. apply memb_In; auto.
Qed.

Theorem non_negative_parafac_hals_nonneg utm utu solve inner stop nn sps nm modes n w Fs :
  vnn w -> (forall m, In m nn -> mnn (nth m Fs [])) ->
  let out := non_negative_parafac_hals Rops nrm utm utu solve inner stop nn sps nm modes n (w, Fs) in
  vnn (fst out) /\ forall m, In m nn -> mnn (nth m (snd out) []).
Proof.
  intros Hw HF out. change (cp_inv (fun m => In m nn) out). unfold out, non_negative_parafac_hals.
  destruct modes as [|m0 modes']; [split; auto|]. set (modes := m0 :: modes').
  apply outer_loop_inv.
  - intros it s Hs. apply fold_left_inv; auto. intros; apply cp_hals_mode_inv; auto.
  - intros; apply cp_fin_inv; auto.
  - intros; apply cp_fin_inv; auto.
  - split; auto.
Qed.

(* ------------------------------------------------------------------ Tucker *)
Definition tk_inv (st : @tk_state R) : Prop := vnn (data (fst st)) /\ Forall mnn (snd st).

Lemma scale_core_nn core i sc : vnn (data core) -> vnn sc -> vnn (data (scale_core Rops core i sc)).
Proof.
  intros Hc Hs. unfold scale_core. cbn [data]. apply Forall_map_any. intros p. rops.
  apply Rmult_le_pos; apply Forall_nth_d; auto; lra.
Qed.
Lemma tucker_normalize_inv st : tk_inv st -> tk_inv (tucker_normalize Rops nrm st).
Proof.
  destruct st as [core Fs]. intros [Hc HF]. cbn [fst snd] in *. unfold tucker_normalize. split; cbn [fst snd].
  - apply fold_left_inv; auto. intros c kf Hcc. apply scale_core_nn; auto. apply scales_nn.
  - apply Forall_forall. intros M HM. apply in_map_iff in HM. destruct HM as [[k M0] [<- Hin]]. cbn [fst snd].
    apply div_cols_nn; [|apply scales_nn]. apply in_combine_r in Hin. rewrite Forall_forall in HF. apply HF; auto.
Qed.
Lemma tk_fin_inv b st : tk_inv st -> tk_inv (tk_fin Rops nrm b st).
Proof. intros H. unfold tk_fin. destruct b; auto. apply tucker_normalize_inv; auto. Qed.
Lemma tk_mu_mode_inv eps numf denf st mode : 0 < eps -> tk_inv st -> tk_inv (tk_mu_mode Rops eps numf denf st mode).
Proof.
  intros He. destruct st as [core Fs]. intros [Hc HF]. unfold tk_mu_mode. split; cbn [fst snd] in *; auto.
  apply Forall_set_nth; auto. apply mu_update_tk_nn; auto. apply Forall_nth_d; auto. constructor.
Qed.
Lemma tk_mu_core_inv eps numc denc st : 0 < eps -> tk_inv st -> tk_inv (tk_mu_core Rops eps numc denc st).
Proof.
  intros He. destruct st as [core Fs]. intros [Hc HF]. unfold tk_mu_core. split; cbn [fst snd data] in *; auto.
  apply Forall_map3_1 with (P := fun t => 0 <= t); auto. intros; apply mu_entry_tk_nonneg; auto.
Qed.

Theorem non_negative_tucker_nonneg eps numf denf numc denc stop nm n_modes n core Fs :
  0 < eps -> vnn (data core) -> Forall mnn Fs ->
  let out := non_negative_tucker Rops nrm eps numf denf numc denc stop nm n_modes n (core, Fs) in
  vnn (data (fst out)) /\ Forall mnn (snd out).
Proof.
  intros He Hc HF out. change (tk_inv out). unfold out, non_negative_tucker. apply outer_loop_inv.
  - intros it s Hs. apply tk_mu_core_inv; auto. apply fold_left_inv; auto. intros; apply tk_mu_mode_inv; auto.
  - intros; apply tk_fin_inv; auto.
  - intros; apply tk_fin_inv; auto.
  - apply tk_fin_inv. split; auto.
Qed.
Lemma initialize_tucker_nn_inv core raw : tk_inv (initialize_tucker_nn Rops core raw).
Proof.
  unfold initialize_tucker_nn. split; cbn [fst snd data].
  - apply Forall_map_any. apply fabs_nonneg.
  - apply Forall_map_any. apply abs_mat_nn.
Qed.

Lemma tk_hals_mode_inv utm utu inner sps st mode : tk_inv st -> tk_inv (tk_hals_mode Rops utm utu inner sps st mode).
Proof.
  destruct st as [core Fs]. intros [Hc HF]. unfold tk_hals_mode. split; cbn [fst snd] in *; auto.
  apply Forall_set_nth; auto. apply transp_nn. apply hals_nnls_nn; [rops; lra|]. apply transp_nn.
  apply Forall_nth_d; auto. constructor.
Qed.
Lemma tk_hals_core_inv alg feps lr csp lin cutm betas support as_n st : 0 <= feps ->
  tk_inv st -> tk_inv (tk_hals_core Rops alg feps lr csp lin cutm betas support as_n st).
Proof.
  intros He. destruct st as [core Fs]. intros [Hc HF]. unfold tk_hals_core. destruct alg; split; cbn [fst snd data] in *; auto.
  - apply fista_nn; auto.
  - apply active_set_nn; auto.
Qed.

Theorem non_negative_tucker_hals_nonneg alg feps utm utu inner sps lr csp lin cutm betas support as_n stop nm modes n core Fs :
  0 <= feps -> vnn (data core) -> Forall mnn Fs ->
  let out := non_negative_tucker_hals Rops nrm alg feps utm utu inner sps lr csp lin cutm betas support as_n stop nm modes n (core, Fs) in
  vnn (data (fst out)) /\ Forall mnn (snd out).
Proof.
  intros He Hc HF out. change (tk_inv out). unfold out, non_negative_tucker_hals. apply outer_loop_inv.
  - intros it s Hs. apply tk_hals_core_inv; auto. apply fold_left_inv; auto. intros; apply tk_hals_mode_inv; auto.
  - intros; apply tk_fin_inv; auto.
  - intros; apply tk_fin_inv; auto.
  - apply tk_fin_inv. split; auto.
Qed.

(* ------------------------------------------------------------------ parafac2 *)
Lemma initialize_cp_user_inv (D : nat -> Prop) w Fs :
  vnn w -> (forall m, D m -> mnn (nth m Fs [])) -> cp_inv D (initialize_cp_user Rops w Fs).
Proof.
  intros Hw HF. unfold initialize_cp_user. split; cbn [fst snd].
  - apply Forall_forall. intros x Hx. apply repeat_spec in Hx. subst. rops; lra.
  - intros m Hm. specialize (HF m Hm). change (@mat R) with (list (list R)) in *. destruct (rev Fs) as [|L r] eqn:E.
    + destruct m; constructor.
    + assert (EF : Fs = rev r ++ [L]) by (rewrite <- (rev_involutive Fs), E; reflexivity).
      rewrite EF in HF. destruct (lt_dec m (length (rev r))) as [Hlt|Hge].
      * rewrite app_nth1 in * by auto. auto.
      * rewrite app_nth2 in * by lia. destruct (m - length (rev r))%nat; simpl in *; auto. apply mul_cols_nn; auto.
Qed.

Lemma initialize_cp_user_norm_inv (D : nat -> Prop) w Fs nm :
  vnn w -> (forall m, D m -> mnn (nth m Fs [])) -> cp_inv D (initialize_cp_user_norm Rops nrm w Fs nm).
Proof. intros Hw HF. unfold initialize_cp_user_norm. apply cp_fin_inv. apply initialize_cp_user_inv; auto. Qed.

Lemma line_step_from_nth nn jump (P : nat -> list (list R) -> Prop) :
  (forall k, P k []) -> (forall k L C, P k (line_entry Rops nn jump k L C)) ->
  forall last cur k m, P (k + m)%nat (nth m (line_step_from Rops k nn jump last cur) []).
Proof.
  intros P0 HP. induction last as [|L last IH]; intros cur k m.
  - simpl. destruct m; apply P0.
  - destruct cur as [|C cur]; [simpl; destruct m; apply P0|]. simpl. destruct m.
    + rewrite Nat.add_0_r. apply HP.
    + replace (k + S m)%nat with (S k + m)%nat by lia. apply IH.
Qed.
End WithNorm.
