(* C10 -- second part: constrained_parafac, parafac2, the Euclidean norm instance, the real oracles. *)
From Coq Require Import List Arith Bool Reals Lra Lia.
From TLV Require Import Base.Shape Base.PyList Base.Tensor Base.Ops Model.Nonneg Proofs.NonnegProofs.
Import ListNotations.
Open Scope R_scope.

(* ------------------------------------------------------------------ the column norm of cp_normalize / tucker_normalize *)
Definition nrm2 (v : list R) : R := sqrt (fold_right (fun x acc => x * x + acc) 0 v).
Lemma nrm2_nonneg v : 0 <= nrm2 v.
Proof. apply sqrt_pos. Qed.

(* ------------------------------------------------------------------ constrained_parafac *)
Lemma prox_nn_declared other M : mnn (prox_nn Rops true other M).
Proof. unfold prox_nn. eapply mge_mnn; [|apply mmap_clip_ge]. rops; lra. Qed.
Lemma admm_nn other split x dual n : mnn x -> mnn (fst (admm Rops true other split x dual n)).
Proof.
  intros Hx. unfold admm. apply iter_n_inv with (P := fun xd : list (list R) * list (list R) => mnn (fst xd)); auto.
  intros [x' d'] _. cbn [fst]. apply prox_nn_declared.
Qed.
Definition ccp_inv (nn : list nat) (st : @ccp_state R) : Prop := forall m, In m nn -> mnn (nth m (fst st) []).
Lemma ccp_mode_inv nn other split inner st mode : ccp_inv nn st -> ccp_inv nn (ccp_mode Rops nn other split inner st mode).
Proof.
  destruct st as [Fs Ds]. intros H. unfold ccp_mode.
  destruct (admm Rops (memb mode nn) (other mode) (split (Fs, Ds) mode) (nth mode Fs []) (nth mode Ds []) (inner (Fs, Ds) mode)) as [x d] eqn:E.
  intros m Hm. cbn [fst]. apply nth_set_nth_P; [apply H; auto|]. intros ->.
  replace x with (fst (admm Rops (memb mode nn) (other mode) (split (Fs, Ds) mode) (nth mode Fs []) (nth mode Ds []) (inner (Fs, Ds) mode)))
    by (rewrite E; reflexivity).
  pose proof Hm as Hb. apply memb_In in Hb. rewrite Hb. apply admm_nn. apply H; auto.
Qed.
Theorem constrained_parafac_nonneg nn other split inner stop modes n Fs Ds :
  (forall m, In m nn -> mnn (nth m Fs [])) ->
  forall m, In m nn -> mnn (nth m (fst (constrained_parafac Rops nn other split inner stop modes n (Fs, Ds))) []).
Proof.
  intros H. change (ccp_inv nn (constrained_parafac Rops nn other split inner stop modes n (Fs, Ds))).
  unfold constrained_parafac. apply outer_loop_inv; auto.
  intros it s Hs. apply fold_left_inv; auto. intros; apply ccp_mode_inv; auto.
Qed.
Lemma mapi_from_nth {A B} (P : nat -> B -> Prop) (f : nat -> A -> B) d :
  (forall k, P k d) -> (forall k x, P k (f k x)) -> forall l k m, P (k + m)%nat (nth m (mapi_from k f l) d).
Proof.
  intros P0 HP. induction l as [|x l IH]; intros k m; simpl.
  - destruct m; apply P0.
  - destruct m; [rewrite Nat.add_0_r; apply HP|]. replace (k + S m)%nat with (S k + m)%nat by lia. apply IH.
Qed.
(* the built-in initialisations go through the operator: feasible whatever the (signed) SVD / random factors *)
Lemma initialize_ccp_nonneg nn other raw : forall m, In m nn -> mnn (nth m (initialize_ccp Rops nn other raw) []).
Proof.
  intros m. unfold initialize_ccp.
  apply (mapi_from_nth (fun k M => In k nn -> mnn M) (fun k M => prox_nn Rops (memb k nn) (other k) M) [] ) with (k := 0%nat).
  - intros; constructor.
  - intros k x Hk. apply memb_In in Hk. rewrite Hk. apply prox_nn_declared.
Qed.

(* parafac2's built-in initialisations are projected on the declared modes: feasible whatever the raw (signed SVD) factors *)
Lemma initialize_parafac2_nn_nonneg nn raw : forall m, In m nn -> mnn (nth m (initialize_parafac2_nn Rops nn raw) []).
Proof.
  intros m. unfold initialize_parafac2_nn.
  apply (mapi_from_nth (fun k M => In k nn -> mnn M) (fun k M => if memb k nn then mmap (clip_min Rops (f0 Rops)) M else M) [] ) with (k := 0%nat).
  - intros; constructor.
  - intros k x Hk. apply memb_In in Hk. rewrite Hk. eapply mge_mnn; [|apply mmap_clip_ge]. rops; lra.
Qed.

(* ------------------------------------------------------------------ parafac2 *)
Section P2.
Variable nrm : list R -> R.
Hypothesis nrm_nonneg : forall v, 0 <= nrm v.

Lemma cp_hals_mode_inv_sub (D : nat -> Prop) utm utu solve inner nn sps nm lastm st mode :
  (forall m, D m -> In m nn) -> cp_inv D st -> cp_inv D (cp_hals_mode Rops nrm utm utu solve inner nn sps nm lastm st mode).
Proof.
  intros HD H. destruct st as [w Fs]. unfold cp_hals_mode. apply cp_set_mode_inv; auto.
  intros Hm. pose proof (HD _ Hm) as Hin. apply memb_In in Hin. rewrite Hin. apply transp_nn. apply hals_nnls_nn; [rops; lra|].
  apply transp_nn. destruct H as [_ HF]. apply HF. auto.
Qed.
Lemma non_negative_parafac_hals_inv_sub (D : nat -> Prop) utm utu solve inner stop nn sps nm modes n st :
  (forall m, D m -> In m nn) -> cp_inv D st ->
  cp_inv D (non_negative_parafac_hals Rops nrm utm utu solve inner stop nn sps nm modes n st).
Proof.
  intros HD H. unfold non_negative_parafac_hals. destruct modes as [|m0 modes']; auto. set (modes := m0 :: modes').
  apply outer_loop_inv; auto.
  - intros it s Hs. apply fold_left_inv; auto. intros; apply cp_hals_mode_inv_sub; auto.
  - intros; apply cp_fin_inv; auto.
  - intros; apply cp_fin_inv; auto.
Qed.
Lemma ones_nn n : vnn (repeat (f1 Rops) n).
Proof. apply Forall_forall. intros x Hx. apply repeat_spec in Hx. subst. rops; lra. Qed.

Lemma line_entry_clipped nn jump k L C : In k nn -> mnn (line_entry Rops nn jump k L C).
Proof.
  intros Hin. unfold line_entry. apply memb_In in Hin. rewrite Hin.
  eapply mge_mnn; [|apply mmap_clip_ge]. rops; lra.
Qed.

Lemma parafac2_iter_inv (D : nat -> Prop) utm utu solve inner istop nn nip line accept nm it st :
  (forall m, D m -> In m nn) ->
  cp_inv D st -> cp_inv D (parafac2_iter Rops nrm utm utu solve inner istop nn nip line accept nm it st).
Proof.
  intros HD. destruct st as [w Fs]. intros [Hw HF]. cbn [fst snd] in *. unfold parafac2_iter.
  set (Fs0 := set_nth 1 (mul_cols Rops (nth 1 Fs []) w) Fs).
  assert (H0 : forall m, D m -> mnn (nth m Fs0 [])).
  { intros m Hm. unfold Fs0. apply nth_set_nth_P; auto. intros ->. apply mul_cols_nn; auto. }
  pose proof (non_negative_parafac_hals_inv_sub D (utm it) (utu it) solve (inner it) (istop it) nn (repeat None 3) false [0;1;2]%nat nip
               (initialize_cp_user Rops (repeat (f1 Rops) (length w)) Fs0) HD
               (initialize_cp_user_inv D _ _ (ones_nn _) H0)) as H1.
  destruct (non_negative_parafac_hals Rops nrm (utm it) (utu it) solve (inner it) (istop it) nn (repeat None 3) false [0;1;2]%nat nip
               (initialize_cp_user Rops (repeat (f1 Rops) (length w)) Fs0)) as [w1 Fs1].
  destruct H1 as [_ H1]. cbn [snd] in H1.
  assert (H2 : forall m, D m -> mnn (nth m (match line it with
             | Some jump => if accept it (repeat (f1 Rops) (length w), Fs1) then line_step Rops nn jump Fs0 Fs1 else Fs1
             | None => Fs1 end) [])).
  { intros m Hm. destruct (line it) as [jump|] eqn:El; auto. destruct (accept it _); auto.
    unfold line_step.
    apply (line_step_from_nth nn jump (fun k M => D k -> mnn M)) with (k := 0%nat); auto.
    - intros; constructor.
    - intros k L C Hk. apply line_entry_clipped; auto. }
  assert (I : cp_inv D (repeat (f1 Rops) (length w), match line it with
             | Some jump => if accept it (repeat (f1 Rops) (length w), Fs1) then line_step Rops nn jump Fs0 Fs1 else Fs1
             | None => Fs1 end)) by (split; [apply ones_nn | exact H2]).
  destruct nm; auto. apply cp_normalize_inv; auto.
Qed.

(* every declared mode (the B mode 1 included), with or without line search, any acceptance pattern *)
Theorem parafac2_nonneg utm utu solve inner istop nn nip line accept nm stop n w Fs :
  vnn w -> (forall m, In m nn -> mnn (nth m Fs [])) ->
  let out := parafac2 Rops nrm utm utu solve inner istop nn nip line accept nm stop n (w, Fs) in
  vnn (fst out) /\ forall m, In m nn -> mnn (nth m (snd out) []).
Proof.
  intros Hw HF out. change (cp_inv (fun m => In m nn) out).
  unfold out, parafac2. apply outer_loop_inv; auto.
  - intros it s Hs. apply parafac2_iter_inv; auto.
  - apply cp_fin_inv; auto. split; auto.
Qed.
End P2.

(* ------------------------------------------------------------------ the real algorithm: oracles instantiated *)
Theorem non_negative_parafac_real (T : tensor R) eps stop nm modes n w Fs :
  0 < eps -> vnn w -> Forall mnn Fs ->
  let out := non_negative_parafac Rops nrm2 eps (fun _ => cp_mu_num Rops T) (fun _ => cp_mu_den Rops) stop nm modes n (w, Fs) in
  vnn (fst out) /\ Forall mnn (snd out).
Proof. intros. apply non_negative_parafac_nonneg; auto. apply nrm2_nonneg. Qed.
Theorem non_negative_parafac_hals_real (T : tensor R) solve inner stop nn sps nm modes n w Fs :
  vnn w -> (forall m, In m nn -> mnn (nth m Fs [])) ->
  let out := non_negative_parafac_hals Rops nrm2 (fun _ => cp_hals_utm Rops T) (fun _ => cp_hals_utu Rops) solve inner stop nn sps nm modes n (w, Fs) in
  vnn (fst out) /\ forall m, In m nn -> mnn (nth m (snd out) []).
Proof. intros. apply non_negative_parafac_hals_nonneg; auto. apply nrm2_nonneg. Qed.

Theorem non_negative_tucker_real (T : tensor R) eps stop nm n_modes n core Fs :
  0 < eps -> vnn (data core) -> Forall mnn Fs ->
  let out := non_negative_tucker Rops nrm2 eps (fun _ => tk_mu_num Rops T) (fun _ => tk_mu_den Rops)
                                 (fun _ => tk_mu_numc Rops T) (fun _ => tk_mu_denc Rops) stop nm n_modes n (core, Fs) in
  vnn (data (fst out)) /\ Forall mnn (snd out).
Proof. intros. apply non_negative_tucker_nonneg; auto. apply nrm2_nonneg. Qed.

(* ------------------------------------------------------------------ active_set_nnls, the statement-by-statement transcription:
   whatever tl.solve returns (any function, failing or not), whatever the masks and the gradient *)
Lemma clipped_vnn (s : list R) : vnn (map (clip_min Rops 0) s).
Proof. apply Forall_map_any. intros y. pose proof (clip_min_ge 0 y). lra. Qed.
Lemma as_loop_vnn solve Utm UtU tol : forall fuel it x g p a out,
  vnn x -> as_loop Rops solve Utm UtU tol fuel it x g p a = Some out -> vnn out.
Proof.
  induction fuel as [|f IH]; intros it x g p a out Hx H.
  - simpl in H. inversion H; subst; exact Hx.
  - simpl in H. destruct (as_body Rops solve Utm UtU it x g p a) as [[[s2 p2] a2]|]; [|discriminate].
    destruct (as_done Rops tol a2 _).
    + inversion H; subst. apply clipped_vnn.
    + eapply IH; [|exact H]. apply clipped_vnn.
Qed.
Theorem active_set_nnls_nonneg solve Utm UtU tol x0 n out :
  active_set_nnls Rops solve Utm UtU tol x0 n = Some out -> vnn x0 \/ (0 < n)%nat -> vnn out.
Proof.
  unfold active_set_nnls. intros H [Hx|Hn]; [eapply as_loop_vnn; eauto|].
  destruct n as [|f]; [lia|]. simpl in H.
  destruct (as_body Rops solve Utm UtU true x0 _ _ _) as [[[s2 p2] a2]|]; [|discriminate].
  destruct (as_done Rops tol a2 _).
  - inversion H; subst. apply clipped_vnn.
  - eapply as_loop_vnn; [|exact H]. apply clipped_vnn.
Qed.

(* the transcription is an instance of the skeleton's "every executed iteration ends with a clip of some support vector":
   whenever active_set_nnls returns, its result is active_set support x0 k for the support vectors of that run and k <= n_iter_max
   executed iterations -- so the Tucker-HALS theorem (stated for every support oracle) covers the transcribed control flow *)
Lemma iter_idx_ext {A} (f g : nat -> A -> A) : forall n k a, (forall i y, (k <= i)%nat -> f i y = g i y) -> iter_idx n k f a = iter_idx n k g a.
Proof.
  induction n; intros k a H; simpl; auto. rewrite (H k a) by lia. apply IHn. intros i y Hi. apply H. lia.
Qed.
Lemma as_loop_is_skeleton solve Utm UtU tol : forall fuel it x g p a out j,
  as_loop Rops solve Utm UtU tol fuel it x g p a = Some out ->
  exists (support : nat -> list R -> list R) (k : nat), (k <= fuel)%nat /\
    out = iter_idx k j (fun i y => map (clip_min Rops 0) (support i y)) x.
Proof.
  induction fuel as [|f IH]; intros it x g p a out j H.
  - simpl in H. inversion H; subst. exists (fun _ y => y), 0%nat. split; [lia|reflexivity].
  - simpl in H. destruct (as_body Rops solve Utm UtU it x g p a) as [[[s2 p2] a2]|]; [|discriminate].
    destruct (as_done Rops tol a2 _).
    + inversion H; subst. exists (fun _ _ => s2), 1%nat. split; [lia|reflexivity].
    + destruct (IH _ _ _ _ _ _ (S j) H) as [sup [k [Hk E]]].
      exists (fun i y => if Nat.eqb i j then s2 else sup i y), (S k). split; [lia|].
      simpl. rewrite Nat.eqb_refl. rewrite E. apply iter_idx_ext. intros i y Hi.
      destruct (Nat.eqb_spec i j); [lia|reflexivity].
Qed.
Theorem active_set_nnls_is_skeleton solve Utm UtU tol x0 n out :
  active_set_nnls Rops solve Utm UtU tol x0 n = Some out ->
  exists (support : nat -> list R -> list R) (k : nat), (k <= n)%nat /\ out = active_set Rops support x0 k.
Proof. unfold active_set_nnls, active_set. intros H. eapply as_loop_is_skeleton; eauto. Qed.

(* ------------------------------------------------------------------ initialise, then decompose: the built-in initialisations composed
   with the decompositions, for ANY raw (signed) SVD / random factors and core *)
Section Composed.
Variable nrm : list R -> R.
Hypothesis nrm_nonneg : forall v, 0 <= nrm v.
Lemma cp_inv_all_Forall st : cp_inv (fun _ => True) st -> vnn (fst st) /\ Forall mnn (snd st).
Proof. intros [H1 H2]. split; auto. apply all_nth_Forall with (d := []). intros; apply H2; exact I. Qed.
Lemma initialize_cp_user_hals_inv (D : nat -> Prop) w Fs modes nm :
  vnn w -> (forall m, D m -> mnn (nth m Fs [])) -> cp_inv D (initialize_cp_user_hals Rops nrm w Fs modes nm).
Proof.
  intros Hw HF. unfold initialize_cp_user_hals. apply cp_fin_inv; auto. split; cbn [fst snd].
  - apply ones_nn.
  - intros m Hm. unfold absorb_at. apply nth_set_nth_P; auto. intros ->. apply mul_cols_nn; auto.
Qed.
Theorem init_then_non_negative_parafac Rk raw nm0 eps numf denf stop nm modes n :
  0 < eps ->
  let out := non_negative_parafac Rops nrm eps numf denf stop nm modes n (initialize_cp_nn Rops nrm Rk raw nm0) in
  vnn (fst out) /\ Forall mnn (snd out).
Proof.
  intros He. destruct (cp_inv_all_Forall _ (initialize_cp_nn_inv nrm nrm_nonneg Rk raw nm0)) as [H1 H2].
  destruct (initialize_cp_nn Rops nrm Rk raw nm0) as [w Fs]. apply non_negative_parafac_nonneg; auto.
Qed.
Theorem init_then_non_negative_parafac_hals Rk raw nm0 utm utu solve inner stop nn sps nm modes n :
  let out := non_negative_parafac_hals Rops nrm utm utu solve inner stop nn sps nm modes n (initialize_cp_nn Rops nrm Rk raw nm0) in
  vnn (fst out) /\ forall m, In m nn -> mnn (nth m (snd out) []).
Proof.
  destruct (cp_inv_all_Forall _ (initialize_cp_nn_inv nrm nrm_nonneg Rk raw nm0)) as [H1 H2].
  destruct (initialize_cp_nn Rops nrm Rk raw nm0) as [w Fs]. apply non_negative_parafac_hals_nonneg; auto.
  intros m _. apply Forall_nth_d; auto. constructor.
Qed.
Theorem init_then_non_negative_tucker core raw eps numf denf numc denc stop nm n_modes n :
  0 < eps ->
  let out := non_negative_tucker Rops nrm eps numf denf numc denc stop nm n_modes n (initialize_tucker_nn Rops core raw) in
  vnn (data (fst out)) /\ Forall mnn (snd out).
Proof.
  intros He. destruct (initialize_tucker_nn_inv core raw) as [H1 H2].
  destruct (initialize_tucker_nn Rops core raw) as [c Fs]. apply non_negative_tucker_nonneg; auto.
Qed.
Theorem init_then_non_negative_tucker_hals core raw alg feps utm utu inner sps lr csp lin cutm betas support as_n stop nm modes n :
  0 <= feps ->
  let out := non_negative_tucker_hals Rops nrm alg feps utm utu inner sps lr csp lin cutm betas support as_n stop nm modes n
               (initialize_tucker_nn Rops core raw) in
  vnn (data (fst out)) /\ Forall mnn (snd out).
Proof.
  intros He. destruct (initialize_tucker_nn_inv core raw) as [H1 H2].
  destruct (initialize_tucker_nn Rops core raw) as [c Fs]. apply non_negative_tucker_hals_nonneg; auto.
Qed.
Theorem init_then_constrained_parafac nn other raw Ds split inner stop modes n :
  forall m, In m nn -> mnn (nth m (fst (constrained_parafac Rops nn other split inner stop modes n (initialize_ccp Rops nn other raw, Ds))) []).
Proof. apply constrained_parafac_nonneg. apply initialize_ccp_nonneg. Qed.
Theorem init_then_parafac2 nn raw Rk utm utu solve inner istop nip line accept nm stop n :
  let out := parafac2 Rops nrm utm utu solve inner istop nn nip line accept nm stop n (repeat (f1 Rops) Rk, initialize_parafac2_nn Rops nn raw) in
  vnn (fst out) /\ forall m, In m nn -> mnn (nth m (snd out) []).
Proof. apply parafac2_nonneg; auto. - apply ones_nn. - apply initialize_parafac2_nn_nonneg. Qed.
End Composed.

(* ------------------------------------------------------------------ what does NOT hold (executed over Q, the same functions) *)
From Coq Require Import QArith.
Definition qneg (x : Q) : Prop := Qle_bool 0 x = false.

(* the hypothesis on a USER start cannot be dropped: a start with a negative entry in a declared mode is returned as is
   when no iteration runs, and survives a full iteration when the row update is skipped (`if UtU[k, k]:`, zero Gram
   diagonal because another factor's column was clipped to zero).  (The built-in initialisations are projected.) *)
Lemma parafac2_signed_init_witness :
  exists utm utu solve inner istop,
    let init := ([1%Q], [[[1%Q]]; [[1%Q]]; [[(-1)%Q]]]) in
    qneg (nth 0 (nth 0 (nth 2 (snd (parafac2 Qops (fun _ => 1%Q) utm utu solve inner istop [0; 1; 2]%nat 1 (fun _ => None) (fun _ _ => false)
                                     false (fun _ _ => false) 1 init)) []) []) 0%Q) /\
    qneg (nth 0 (nth 0 (nth 2 (snd (parafac2 Qops (fun _ => 1%Q) utm utu solve inner istop [0; 1; 2]%nat 1 (fun _ => None) (fun _ _ => false)
                                     false (fun _ _ => false) 0 init)) []) []) 0%Q).
Proof.
  exists (fun _ _ _ mode => [[(-1)%Q]]), (fun _ _ _ mode => if Nat.eqb mode 0 then [[1%Q]] else [[0%Q]]), (fun _ M => M),
         (fun _ _ _ _ => 1%nat), (fun _ _ _ => false).
  split; vm_compute; reflexivity.
Qed.
(* modes that are not declared are unconstrained: the least-squares solve of an undeclared mode may return anything *)
Lemma undeclared_mode_unconstrained_witness :
  exists utm utu solve inner,
    qneg (nth 0 (nth 0 (nth 1 (snd (non_negative_parafac_hals Qops (fun _ => 1%Q) utm utu solve inner (fun _ _ => false) [0]%nat
                                     [None; None] false [0; 1]%nat 1 ([1%Q], [[[1%Q]]; [[1%Q]]]))) []) []) 0%Q).
Proof.
  exists (fun _ _ _ => [[1%Q]]), (fun _ _ _ => [[1%Q]]), (fun _ _ => [[(-5)%Q]]), (fun _ _ _ => 1%nat).
  vm_compute. reflexivity.
Qed.
(* the model computes: one MU sweep on a signed 2x2 matrix, rank 1 (eps = 1/1000) *)
Lemma mu_signed_example :
  non_negative_parafac Qops (fun _ => 1%Q) (1 # 1000)%Q (fun _ => cp_mu_num Qops (mk [2; 2]%nat [1%Q; (-2)%Q; (-3)%Q; 4%Q])) (fun _ => cp_mu_den Qops)
      (fun _ _ => false) false [0; 1]%nat 1 ([1%Q], [[[1%Q]; [1%Q]]; [[1%Q]; [1%Q]]])
  = ([1%Q], [[[(1 # 2000)%Q]; [(1 # 2)%Q]]; [[(4000 # 1000001)%Q]; [(7996000 # 1000001)%Q]]]).
Proof. vm_compute. reflexivity. Qed.
