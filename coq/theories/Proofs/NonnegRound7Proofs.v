(* C10 -- round 7, small compositions and a sharpness example.
   (1) the built-in initialisation composed with the raw-option entry of constrained_parafac and with parafac2 under a user-supplied line search;
   (2) the ORDER of the l1 shift and the projection in the HALS row update matters: the variant that applies the shift AFTER the projection (a plausible slip of
       solvers/nnls.py hals_nnls) leaves entries on the bound at -sparsity / UtU[k, k] < 0, while the model (= the code: shift, then clip) satisfies hals_row_ge. *)
From Coq Require Import List Arith Bool ZArith Reals Lra Lia.
From TLV Require Import Base.Shape Base.PyList Base.Tensor Base.Ops Model.Nonneg Model.NonnegOptions Model.NonnegCcpSpec Model.NonnegP2Ls
     Proofs.NonnegProofs Proofs.NonnegProofs2 Proofs.NonnegCcpSpecProofs Proofs.NonnegP2LsProofs.
Import ListNotations.
Open Scope R_scope.

(* constrained_parafac(non_negative = raw spec, init = 'svd' | 'random'): the raw factors go through the proximal operator of their mode - the clip on every
   REGISTERED mode -, then the ADMM sweeps: registered (hence declared) modes >= 0 for ANY raw factors, data, iteration counts, fixed modes *)
Theorem init_then_constrained_parafac_spec n spec other raw Ds split inner stop fixed n_iter_max :
  forall m, In m (registered n spec) ->
    mnn (nth m (fst (constrained_parafac Rops (registered n spec) other split inner stop (modes_of n (unfix_last n (parse_fixed fixed))) n_iter_max
                                         (initialize_ccp Rops (registered n spec) other raw, Ds))) []).
Proof. apply constrained_parafac_nonneg. apply initialize_ccp_nonneg. Qed.

(* parafac2(nn_modes, init = 'svd' | 'random', linesearch = an instance whose nn_modes contain the declared modes): no hypothesis on the start is left *)
Theorem init_then_parafac2_ls (nrm : list R -> R) (Hn : forall v, 0 <= nrm v) nn ls_nn raw Rk utm utu solve inner istop nip line accept nm stop n :
  incl nn ls_nn ->
  let out := parafac2_ls Rops nrm utm utu solve inner istop nn ls_nn nip line accept nm stop n (repeat (f1 Rops) Rk, initialize_parafac2_nn Rops nn raw) in
  vnn (fst out) /\ forall m, In m nn -> mnn (nth m (snd out) []).
Proof. intros Hi. apply parafac2_ls_nonneg; auto. - apply ones_nn. - apply initialize_parafac2_nn_nonneg. Qed.

(* ---- the order of shift and projection (executed over Q) *)
From Coq Require Import QArith.
Section Order.
Context {F : Type} (Op : fops F).
(* the row update with the l1 shift applied AFTER the projection: clip(num / den, eps) - sp / den *)
Definition hals_row_shift_after (eps : F) (sp rg : option F) (UtM UtU V : list (list F)) (k : nat) : list (list F) :=
  let ukk := nth k (nth k UtU []) (f0 Op) in
  if feqb Op ukk (f0 Op) then V else
  let urow := nth k UtU [] in
  let vk := nth k V [] in
  let uv := map (fun j => dotv Op urow (col Op j V)) (seq 0 (length vk)) in
  let num := map3 (fun m x v => fadd Op (fsub Op m x) (fmul Op ukk v)) (nth k UtM []) uv vk in
  let den := match rg with None => ukk | Some r => fadd Op ukk (fmul Op (fadd Op (f1 Op) (f1 Op)) r) end in
  let shift := match sp with None => f0 Op | Some s => fdiv Op s den end in
  set_nth k (map (fun x => fsub Op (clip_min Op eps (fdiv Op x den)) shift) num) V.
End Order.
(* UtM = [[-1]], UtU = [[2]], V = [[1]], sparsity 1/2: the unconstrained minimiser is negative, the projection puts the entry on the bound 0;
   the code's order returns 0, the other order 0 - (1/2)/2 = -1/4; without sparsity both agree *)
Lemma hals_order_matters :
  hals_row Qops 0%Q (Some (1 # 2)%Q) None [[(-1)%Q]] [[2%Q]] [[1%Q]] 0 = [[0%Q]] /\
  hals_row_shift_after Qops 0%Q (Some (1 # 2)%Q) None [[(-1)%Q]] [[2%Q]] [[1%Q]] 0 = [[(-1 # 4)%Q]] /\
  hals_row_shift_after Qops 0%Q None None [[(-1)%Q]] [[2%Q]] [[1%Q]] 0 = hals_row Qops 0%Q None None [[(-1)%Q]] [[2%Q]] [[1%Q]] 0.
Proof. repeat split; vm_compute; reflexivity. Qed.
