(* C10 -- soundness of the sign analysis of Model/NonnegSign.v: an environment accepted by [analyse] holds in every state
   reachable by executing the statements of the body in any order, any number of times. *)
From Coq Require Import List Arith Bool Reals Lra Lia.
From TLV Require Import Base.Shape Base.PyList Base.Tensor Base.Ops Model.Nonneg Model.NonnegSign Proofs.NonnegProofs Proofs.NonnegProofs2.
Import ListNotations.
Open Scope R_scope.

Definition sat (s : sg) (l : list R) : Prop :=
  match s with SgPos => Forall (fun v => 0 < v) l | SgNN => Forall (fun v => 0 <= v) l | SgAny => True end.
Definition gamma (a : aenv) (st : state) : Prop := forall x, sat (alook a x) (st x).

Lemma sat_le a b l : sg_le a b = true -> sat a l -> sat b l.
Proof.
  destruct a, b; simpl; intros E H; try discriminate; auto.
  eapply Forall_impl; [|exact H]. simpl; intros; lra.
Qed.
Lemma sat_incl s l0 l : incl l l0 -> sat s l0 -> sat s l.
Proof.
  destruct s; simpl; auto; intros Hi H; apply Forall_forall; intros v Hv; (eapply Forall_forall in H; [exact H|]); apply Hi; exact Hv.
Qed.
Lemma sat_app s l1 l2 : sat s l1 -> sat s l2 -> sat s (l1 ++ l2).
Proof. destruct s; simpl; auto; intros; apply Forall_app; split; auto. Qed.
Lemma sat_nn_iff l : sat SgNN l <-> vnn l.
Proof. reflexivity. Qed.
Lemma sat_pos_nn l : sat SgPos l -> sat SgNN l.
Proof. apply sat_le. reflexivity. Qed.
Lemma sat_le_nn s l : sg_le s SgNN = true -> sat s l -> vnn l.
Proof. intros E H. apply (sat_le _ _ _ E H). Qed.
Lemma sg_le_join_l a b : sg_le a (sg_join a b) = true.
Proof. destruct a, b; reflexivity. Qed.
Lemma sg_le_join_r a b : sg_le b (sg_join a b) = true.
Proof. destruct a, b; reflexivity. Qed.

(* ------------------------------------------------------------------ bags of matrices *)
Lemma vnn_concat (M : list (list R)) : mnn M <-> vnn (concat M).
Proof.
  unfold mnn, vnn. induction M as [|r M IH]; simpl; [split; constructor|].
  split; intros H.
  - inversion H; subst. apply Forall_app; split; auto. apply IH; auto.
  - apply Forall_app in H. destruct H as [H1 H2]. constructor; auto. apply IH; auto.
Qed.
Lemma Forall_mnn_concat (Fs : list (list (list R))) : Forall mnn Fs <-> vnn (concat (concat Fs)).
Proof.
  induction Fs as [|M Fs IH]; simpl; [split; constructor|].
  rewrite concat_app. split; intros H.
  - inversion H; subst. apply Forall_app; split; [apply vnn_concat; auto | apply IH; auto].
  - apply Forall_app in H. destruct H as [H1 H2]. constructor; [apply vnn_concat; auto | apply IH; auto].
Qed.
Lemma cp_bag_inv st : vnn (cp_bag st) <-> vnn (fst st) /\ Forall mnn (snd st).
Proof.
  unfold cp_bag. split.
  - intros H. apply Forall_app in H. destruct H; split; auto. apply Forall_mnn_concat; auto.
  - intros [H1 H2]. apply Forall_app; split; auto. apply Forall_mnn_concat; auto.
Qed.
Lemma tk_bag_inv st : vnn (tk_bag st) <-> tk_inv st.
Proof.
  unfold tk_bag, tk_inv. split.
  - intros H. apply Forall_app in H. destruct H; split; auto. apply Forall_mnn_concat; auto.
  - intros [H1 H2]. apply Forall_app; split; auto. apply Forall_mnn_concat; auto.
Qed.
Lemma cp_inv_all st : cp_inv (fun _ => True) st <-> vnn (fst st) /\ Forall mnn (snd st).
Proof.
  split.
  - intros [H1 H2]. split; auto. apply all_nth_Forall with (d := []). intros; apply H2; exact I.
  - intros [H1 H2]. split; auto. intros m _. apply Forall_nth_d; auto. constructor.
Qed.

Lemma dbag_inv D Fs : vnn (dbag D Fs) <-> forall m, In m D -> mnn (nth m Fs []).
Proof.
  unfold dbag. rewrite <- Forall_mnn_concat. rewrite Forall_map. rewrite Forall_forall. reflexivity.
Qed.
Lemma cp_dbag_inv D st : vnn (cp_dbag D st) <-> cp_inv (fun m => In m D) st.
Proof.
  unfold cp_dbag, cp_inv. split.
  - intros H. apply Forall_app in H. destruct H as [H1 H2]. split; auto. apply dbag_inv; auto.
  - intros [H1 H2]. apply Forall_app; split; auto. apply dbag_inv; auto.
Qed.

(* every call contract preserves entrywise non-negativity: the theorems about the functions of Model/Nonneg.v *)
Theorem contract_sound f l0 l1 : contract f l0 l1 -> vnn l0 -> vnn l1.
Proof.
  intros C H. destruct C.
  - apply vnn_concat. apply hals_nnls_nn; auto. apply vnn_concat; auto.
  - apply fista_nn; auto.
  - eapply active_set_nnls_nonneg; eauto.
  - apply cp_bag_inv. apply cp_inv_all. apply cp_normalize_inv; auto. apply cp_inv_all. apply cp_bag_inv in H. exact H.
  - apply cp_dbag_inv. apply cp_normalize_inv; auto. apply cp_dbag_inv; auto.
  - apply tk_bag_inv. apply tucker_normalize_inv; auto. apply tk_bag_inv; auto.
  - apply cp_bag_inv. apply cp_inv_all. apply initialize_cp_nn_inv; auto.
  - apply cp_bag_inv. apply cp_inv_all. apply cp_bag_inv in H. cbn [fst snd] in H. destruct H as [H1 H2].
    apply initialize_cp_user_norm_inv; auto. intros m _. apply Forall_nth_d; auto. constructor.
  - apply tk_bag_inv. apply initialize_tucker_nn_inv.
Qed.

(* ------------------------------------------------------------------ expressions *)
Lemma prod_nonneg (m : list R) : vnn m -> 0 <= fold_right Rmult 1 m.
Proof. induction 1; simpl; [lra|]. apply Rmult_le_pos; auto. Qed.
Lemma poly_nonneg (l0 : list R) (ms : list (list R)) : vnn l0 -> (forall m, In m ms -> incl m l0) ->
  0 <= fold_right (fun m acc => fold_right Rmult 1 m + acc) 0 ms.
Proof.
  intros H0. induction ms as [|m ms IH]; simpl; intros H; [lra|].
  assert (0 <= fold_right Rmult 1 m).
  { apply prod_nonneg. apply Forall_forall. intros v Hv. apply (proj1 (Forall_forall _ _) H0). apply (H m (or_introl eq_refl)); auto. }
  assert (0 <= fold_right (fun m acc => fold_right Rmult 1 m + acc) 0 ms) by (apply IH; intros; apply H; right; auto).
  lra.
Qed.

Ltac inl H v := let T := type of H in
  match T with Forall _ ?l => match goal with Hin : In v l |- _ => pose proof (proj1 (Forall_forall _ _) H _ Hin) end end.

Theorem asign_sound a st : gamma a st -> forall e l, ev st e l -> sat (asign a e) l.
Proof.
  intros G e l E. induction E; simpl.
  - apply G.
  - exact H.
  - exact H.
  - exact I.
  - eapply sat_incl; eauto.
  - destruct (asign a e); simpl in *; apply Forall_forall; intros v Hv; destruct (H v Hv) as [u [Hu ->]].
    + pose proof (proj1 (Forall_forall _ _) IHE _ Hu) as P. simpl in P. apply Rabs_pos_lt. lra.
    + apply Rabs_pos.
    + apply Rabs_pos.
  - destruct (asign a lo), (asign a e); simpl in *; auto; apply Forall_forall; intros v Hv;
      destruct (H v Hv) as [p [q [Hp [Hq ->]]]];
      try (pose proof (proj1 (Forall_forall _ _) IHE1 _ Hp) as P1; simpl in P1);
      try (pose proof (proj1 (Forall_forall _ _) IHE2 _ Hq) as P2; simpl in P2);
      pose proof (Rmax_l p q); pose proof (Rmax_r p q); lra.
  - destruct (asign a a0), (asign a b); simpl in *; auto; apply Forall_forall; intros v Hv;
      destruct (H v Hv) as [p [q [Hp [Hq ->]]]];
      pose proof (proj1 (Forall_forall _ _) IHE1 _ Hp) as P1; pose proof (proj1 (Forall_forall _ _) IHE2 _ Hq) as P2; simpl in P1, P2;
      first [apply Rmult_lt_0_compat; lra | apply Rmult_le_pos; lra].
  - destruct (asign a a0), (asign a b); simpl in *; auto; apply Forall_forall; intros v Hv;
      destruct (H v Hv) as [p [q [Hp [Hq ->]]]];
      pose proof (proj1 (Forall_forall _ _) IHE1 _ Hp) as P1; pose proof (proj1 (Forall_forall _ _) IHE2 _ Hq) as P2; simpl in P1, P2; lra.
  - destruct (asign a b); simpl in *; auto. destruct (asign a a0); simpl in *; auto; apply Forall_forall; intros v Hv;
      destruct (H v Hv) as [p [q [Hp [Hq ->]]]];
      pose proof (proj1 (Forall_forall _ _) IHE1 _ Hp) as P1; pose proof (proj1 (Forall_forall _ _) IHE2 _ Hq) as P2; simpl in P1, P2;
      pose proof (Rinv_0_lt_compat q P2); unfold Rdiv;
      first [apply Rmult_lt_0_compat; lra | apply Rmult_le_pos; lra].
  - destruct (sg_le (asign a e) SgNN) eqn:Q1; simpl; auto.
    pose proof (sat_le_nn _ _ Q1 IHE) as N1.
    apply Forall_forall. intros v Hv. destruct (H v Hv) as [ms [Hms ->]]. exact (poly_nonneg l0 ms N1 Hms).
  - eapply sat_incl; [exact H|]. apply sat_app.
    + eapply sat_le; [apply sg_le_join_l|exact IHE1].
    + eapply sat_le; [apply sg_le_join_r|exact IHE2].
  - destruct (sg_le (asign a arg) SgNN) eqn:Q1; simpl; auto.
    pose proof (sat_le_nn _ _ Q1 IHE) as N. pose proof (contract_sound _ _ _ H N) as N1.
    apply Forall_forall. intros v Hv. apply (proj1 (Forall_forall _ _) N1). apply H0; auto.
Qed.

(* ------------------------------------------------------------------ statements *)
Lemma check_stmt_sound a s st st' : check_stmt a s = true -> gamma a st -> step st s st' -> gamma a st'.
Proof.
  intros C G S. destruct S as [xs e l st' E Hin Hout | x e l st' E Hin Hout]; simpl in C; intros y.
  - destruct (in_dec Nat.eq_dec y xs) as [I|I].
    + rewrite forallb_forall in C. eapply sat_incl; [apply Hin; auto|]. eapply sat_le; [apply C; auto|]. eapply asign_sound; eauto.
    + rewrite Hout; auto.
  - destruct (Nat.eq_dec y x) as [->|N].
    + eapply sat_incl; [exact Hin|]. apply sat_app; [apply G|]. eapply sat_le; [exact C|]. eapply asign_sound; eauto.
    + rewrite Hout; auto.
Qed.
Theorem check_sound a prog : forallb (check_stmt a) prog = true -> forall st st', gamma a st -> reach prog st st' -> gamma a st'.
Proof.
  intros C st st' G R. induction R; auto. apply IHR. eapply check_stmt_sound; eauto.
  rewrite forallb_forall in C. apply C; auto.
Qed.
Lemma env_le_gamma a0 a st : env_le a0 a = true -> gamma a0 st -> gamma a st.
Proof.
  unfold env_le. intros E G x. apply andb_prop in E. destruct E as [EL EF]. apply Nat.eqb_eq in EL.
  unfold alook. destruct (lt_dec x (length a)) as [L|L].
  - rewrite forallb_forall in EF.
    assert (In (nth x a0 SgAny, nth x a SgAny) (combine a0 a)).
    { rewrite <- combine_nth by auto. apply nth_In. rewrite combine_length. lia. }
    eapply sat_le; [apply (EF _ H)|]. apply G.
  - rewrite nth_overflow by lia. exact I.
Qed.

(* the deciding theorem: if the analysis accepts the regenerated body with the sign of the returned expression established,
   then in EVERY state reachable from an initial state that satisfies the assumptions on the parameters, every value the returned
   expression can take is entrywise non-negative *)
Theorem sign_verdict_sound prog a0 ret : sign_verdict prog a0 ret = 0%nat ->
  forall st0 st l, gamma a0 st0 -> reach prog st0 st -> ev st ret l -> vnn l.
Proof.
  unfold sign_verdict, analyse. intros V st0 st l G0 R E.
  set (a := iter_n (2 * length a0 + 2) (fun a => fold_left infer_stmt prog a) a0) in *.
  destruct (forallb (check_stmt a) prog && env_le a0 a) eqn:C; [|discriminate].
  apply andb_prop in C. destruct C as [C1 C2].
  destruct (sg_le (asign a ret) SgNN) eqn:S; [|discriminate].
  eapply sat_le_nn; [exact S|]. eapply asign_sound; [|exact E].
  eapply check_sound; eauto. eapply env_le_gamma; eauto.
Qed.

(* non-vacuity: a miniature multiplicative-update body
     eps = <positive literal>; w, F = initialize_cp(init, non_negative=True); num = clip(<data>, eps); den = clip(dot(F, dot(F^T, F)), eps);
     F[mode] = F[mode] * num / den; w, F = cp_normalize((w, F)); return (w, F)
   is accepted, and the same body with the clip of the numerator removed is rejected (verdict 2) *)
Definition mini_mu (clipped : bool) : list stmt :=
  [ SAssign [1%nat] XPos;
    SAssign [2%nat; 3%nat] (XCall FInitCp (XVar 0%nat));
    SAssign [4%nat] (if clipped then XClip (XVar 1%nat) XAny else XAny);
    SAssign [5%nat] (XClip (XVar 1%nat) (XPoly (XSub (XVar 3%nat))));
    SUpdate 3%nat (XDiv (XMul (XSub (XVar 3%nat)) (XVar 4%nat)) (XVar 5%nat));
    SAssign [2%nat; 3%nat] (XCall FCpNormalize (XPair (XVar 2%nat) (XVar 3%nat))) ].
Definition mini_a0 : aenv := [SgNN; SgPos; SgPos; SgPos; SgPos; SgPos].
Example sign_verdict_accepts : sign_verdict (mini_mu true) mini_a0 (XPair (XVar 2%nat) (XVar 3%nat)) = 0%nat.
Proof. vm_compute. reflexivity. Qed.
Example sign_verdict_rejects : sign_verdict (mini_mu false) mini_a0 (XPair (XVar 2%nat) (XVar 3%nat)) = 2%nat.
Proof. vm_compute. reflexivity. Qed.
(* the semantics is inhabited: from the empty state the first statement of the body can execute *)
Example reach_nonvacuous : exists st, reach (mini_mu true) (fun _ => []) st /\ st 1%nat = [1].
Proof.
  exists (fun x => if Nat.eqb x 1 then [1] else []). split; [|reflexivity].
  eapply reach_step with (s := SAssign [1%nat] XPos); [left; reflexivity | | apply reach_refl].
  eapply step_assign with (l := [1]).
  - apply ev_pos. constructor; [lra|constructor].
  - intros x [<-|[]]. simpl. apply incl_refl.
  - intros x Hx. destruct (Nat.eqb_spec x 1); [subst; exfalso; apply Hx; left; reflexivity|reflexivity].
Qed.
