(* Lemmas about the model of tensorly/tenalg/proximal.py at the instance Rops (Coq reals):
   closed-form operators are the exact minimisers of their prox objective, projections are
   feasible / optimal / idempotent, and the generic "optimal projection onto a convex set is
   firmly non-expansive" lemma. *)
From Coq Require Import List Reals Lra Psatz Lia Bool.
From TLV Require Import Base.Ops Model.Prox.
Import ListNotations.
Open Scope R_scope.

(* ---------- the R instance, unfolded *)
Lemma relu_spec x : (0 <= x /\ relu Rops x = x) \/ (x < 0 /\ relu Rops x = 0).
Proof. unfold relu; cbn. destruct (Rleb 0 x) eqn:E; [apply Rleb_true in E | apply Rleb_false in E]; auto. Qed.
Lemma fsign_spec x : (0 < x /\ fsign Rops x = 1) \/ (x < 0 /\ fsign Rops x = -1) \/ (x = 0 /\ fsign Rops x = 0).
Proof.
  unfold fsign, fltb; cbn.
  destruct (Rleb x 0) eqn:E1; [apply Rleb_true in E1 | apply Rleb_false in E1]; cbn.
  - destruct (Rleb 0 x) eqn:E2; [apply Rleb_true in E2 | apply Rleb_false in E2]; cbn.
    + right; right; split; [lra | reflexivity].
    + right; left; split; [lra | reflexivity].
  - left; split; [lra | reflexivity].
Qed.
Lemma fabs_Rabs x : fabs Rops x = Rabs x.
Proof.
  unfold fabs; cbn. destruct (Rleb 0 x) eqn:E; [apply Rleb_true in E | apply Rleb_false in E].
  - rewrite Rabs_right; lra.
  - rewrite Rabs_left; lra.
Qed.
Lemma Rabs_cases x : (0 <= x /\ Rabs x = x) \/ (x < 0 /\ Rabs x = - x).
Proof. destruct (Rle_dec 0 x); [left; split; auto; apply Rabs_right; lra | right; split; [lra | apply Rabs_left; lra]]. Qed.

Lemma lsum_cons a l : lsum Rops (a :: l) = a + lsum Rops l. Proof. reflexivity. Qed.
Lemma sumsq_cons a l : sumsq Rops (a :: l) = a * a + sumsq Rops l. Proof. reflexivity. Qed.
Lemma l1n_cons a l : l1n Rops (a :: l) = Rabs a + l1n Rops l.
Proof. unfold l1n. cbn [map lsum]. rewrite fabs_Rabs. reflexivity. Qed.
Lemma dist2_cons a b l m : dist2 Rops (a :: l) (b :: m) = (a - b) * (a - b) + dist2 Rops l m. Proof. reflexivity. Qed.
Lemma dot_cons a b l m : dot Rops (a :: l) (b :: m) = a * b + dot Rops l m. Proof. reflexivity. Qed.

Lemma sq_nonneg (a : R) : 0 <= a * a.
Proof. pose proof (Rle_0_sqr a) as H. unfold Rsqr in H. exact H. Qed.
Lemma dist2_nonneg : forall a b, 0 <= dist2 Rops a b.
Proof. induction a as [|x a IH]; intros [|y b]; cbn; try lra. specialize (IH b). pose proof (sq_nonneg (x - y)). lra. Qed.
Lemma sumsq_nonneg : forall a, 0 <= sumsq Rops a.
Proof. induction a as [|x a IH]; [cbn; lra|]. rewrite sumsq_cons. pose proof (sq_nonneg x). lra. Qed.
Lemma l1n_nonneg : forall a, 0 <= l1n Rops a.
Proof. induction a as [|x a IH]; [cbn; lra|]. rewrite l1n_cons. pose proof (Rabs_pos x). lra. Qed.
Lemma dist2_refl : forall a, dist2 Rops a a = 0.
Proof. induction a as [|x a IH]; [reflexivity|]. rewrite dist2_cons, IH. ring. Qed.
Lemma dist2_zero_eq : forall a b, length a = length b -> dist2 Rops a b = 0 -> a = b.
Proof.
  induction a as [|x a IH]; intros [|y b] Hl H; try discriminate; [reflexivity|].
  rewrite dist2_cons in H. injection Hl as Hl. pose proof (dist2_nonneg a b).
  assert (x = y) by nra. subst. f_equal. apply IH; [exact Hl | nra].
Qed.
Lemma dist2_sym : forall a b, dist2 Rops a b = dist2 Rops b a.
Proof. induction a as [|x a IH]; intros [|y b]; try reflexivity. rewrite !dist2_cons, IH. ring. Qed.

(* ---------- non-negativity projection *)
Lemma nonneg_length v : length (non_negative Rops v) = length v.
Proof. apply map_length. Qed.
Lemma nonneg_feasible : forall v, Forall (fun x => 0 <= x) (non_negative Rops v).
Proof. induction v as [|a v IH]; constructor; [|exact IH]. destruct (relu_spec a) as [[H E]|[H E]]; rewrite E; lra. Qed.
Lemma nonneg_optimal : forall v z, length z = length v -> Forall (fun x => 0 <= x) z ->
  dist2 Rops (non_negative Rops v) v <= dist2 Rops z v.
Proof.
  induction v as [|a v IH]; intros [|c z] Hl Hz; try discriminate; [cbn; lra|].
  injection Hl as Hl. inversion Hz as [|? ? Hc Hz']; subst. specialize (IH z Hl Hz').
  unfold non_negative in *. cbn [map]. rewrite !dist2_cons.
  pose proof (sq_nonneg (c - a)) as Q1. pose proof (sq_nonneg c) as Q2.
  destruct (relu_spec a) as [[H E]|[H E]]; rewrite E; [nra|].
  assert (0 <= c * (- a)) by (apply Rmult_le_pos; lra). nra.
Qed.
Lemma nonneg_fixes_feasible : forall v, Forall (fun x => 0 <= x) v -> non_negative Rops v = v.
Proof.
  induction 1 as [|a v Ha Hv IH]; [reflexivity|]. unfold non_negative in *. cbn [map]. rewrite IH. f_equal.
  destruct (relu_spec a) as [[H E]|[H E]]; [exact E | lra].
Qed.
Lemma nonneg_idempotent v : non_negative Rops (non_negative Rops v) = non_negative Rops v.
Proof. apply nonneg_fixes_feasible, nonneg_feasible. Qed.

(* ---------- soft thresholding = prox of t * |.|_1 *)
Lemma soft1_spec t x : 0 <= t ->
  (t < x /\ soft1 Rops t x = x - t) \/ (x < - t /\ soft1 Rops t x = x + t) \/ (- t <= x <= t /\ soft1 Rops t x = 0).
Proof.
  intros Ht. unfold soft1. rewrite fabs_Rabs. cbn [fmul fsub Rops].
  destruct (fsign_spec x) as [[Hx Es]|[[Hx Es]|[Hx Es]]]; rewrite Es;
    destruct (relu_spec (Rabs x - t)) as [[Hr Er]|[Hr Er]]; rewrite Er;
    destruct (Rabs_cases x) as [[Ha Ea]|[Ha Ea]]; rewrite Ea in *; try lra.
Qed.
Lemma soft1_optimal t x z : 0 <= t ->
  t * Rabs (soft1 Rops t x) + (soft1 Rops t x - x) * (soft1 Rops t x - x) / 2 <= t * Rabs z + (z - x) * (z - x) / 2.
Proof.
  intros Ht. pose proof (sq_nonneg (z - x + t)) as Q1. pose proof (sq_nonneg (z - x - t)) as Q2.
  pose proof (sq_nonneg (z - x)) as Q3. pose proof (sq_nonneg z) as Q4.
  destruct (soft1_spec t x Ht) as [[H E]|[[H E]|[H E]]]; rewrite E;
    destruct (Rabs_cases z) as [[Hz Ez]|[Hz Ez]]; rewrite Ez.
  - rewrite Rabs_right by lra. nra.
  - rewrite Rabs_right by lra. nra.
  - rewrite Rabs_left by lra. nra.
  - rewrite Rabs_left by lra. nra.
  - rewrite Rabs_R0. nra.
  - rewrite Rabs_R0. nra.
Qed.
Lemma soft_length t v : length (soft_thresholding Rops t v) = length v.
Proof. apply map_length. Qed.
Lemma soft_optimal t : 0 <= t -> forall v z, length z = length v ->
  t * l1n Rops (soft_thresholding Rops t v) + dist2 Rops (soft_thresholding Rops t v) v / 2
  <= t * l1n Rops z + dist2 Rops z v / 2.
Proof.
  intros Ht. induction v as [|a v IH]; intros [|c z] Hl; try discriminate; [cbn; lra|].
  injection Hl as Hl. specialize (IH z Hl). unfold soft_thresholding in *. cbn [map].
  rewrite !l1n_cons, !dist2_cons. pose proof (soft1_optimal t a c Ht). lra.
Qed.
(* per-entry thresholds (threshold passed as an array) *)
Lemma soft_arr_optimal : forall ts v z, Forall (fun t => 0 <= t) ts -> length ts = length v -> length z = length v ->
  lsum Rops (map (fun tx => fst tx * Rabs (snd tx)) (combine ts (soft_thresholding_arr Rops ts v)))
    + dist2 Rops (soft_thresholding_arr Rops ts v) v / 2
  <= lsum Rops (map (fun tx => fst tx * Rabs (snd tx)) (combine ts z)) + dist2 Rops z v / 2.
Proof.
  induction ts as [|t ts IH]; intros [|a v] [|c z] Hts Hl1 Hl2; try discriminate; try (cbn; lra).
  injection Hl1 as Hl1. injection Hl2 as Hl2. inversion Hts as [|? ? Ht Hts']; subst.
  specialize (IH v z Hts' Hl1 Hl2). unfold soft_thresholding_arr in *. cbn [combine map fst snd].
  rewrite !lsum_cons, !dist2_cons. cbn [fst snd]. pose proof (soft1_optimal t a c Ht). lra.
Qed.

(* ---------- squared l2 prox *)
Lemma l2sq1_optimal t x z : 0 <= t ->
  let y := x / (1 + 2 * t) in t * (y * y) + (y - x) * (y - x) / 2 <= t * (z * z) + (z - x) * (z - x) / 2.
Proof.
  intros Ht y. assert (E : x = (1 + 2 * t) * y) by (unfold y; field; lra).
  clearbody y. subst x.
  assert (0 <= (1 + 2 * t) * ((z - y) * (z - y))) by (apply Rmult_le_pos; [lra | apply sq_nonneg]). nra.
Qed.
Lemma l2sq_entry t x : fdiv Rops x (fadd Rops (f1 Rops) (fmul Rops (two Rops) t)) = x / (1 + 2 * t).
Proof. unfold two; cbn. replace ((1 + 1) * t) with (2 * t) by ring. reflexivity. Qed.
Lemma l2sq_optimal t : 0 <= t -> forall v z, length z = length v ->
  t * sumsq Rops (l2_square_prox Rops t v) + dist2 Rops (l2_square_prox Rops t v) v / 2
  <= t * sumsq Rops z + dist2 Rops z v / 2.
Proof.
  intros Ht. induction v as [|a v IH]; intros [|c z] Hl; try discriminate; [cbn; lra|].
  injection Hl as Hl. specialize (IH z Hl). unfold l2_square_prox in *. cbn [map].
  rewrite l2sq_entry, !sumsq_cons, !dist2_cons. pose proof (l2sq1_optimal t a c Ht) as H. cbv zeta in H. lra.
Qed.

(* ---------- l2 (block soft thresholding); the norm enters through its contract  0 <= s, s*s = sumsq *)
Lemma scale_sumsq c : forall v, sumsq Rops (map (fun x => c * x) v) = c * c * sumsq Rops v.
Proof. induction v as [|a v IH]; [cbn; ring|]. cbn [map]. rewrite !sumsq_cons, IH. ring. Qed.
Lemma scale_dist2 c : forall v, dist2 Rops (map (fun x => c * x) v) v = (c - 1) * (c - 1) * sumsq Rops v.
Proof. induction v as [|a v IH]; [cbn; ring|]. cbn [map]. rewrite dist2_cons, sumsq_cons, IH. ring. Qed.
Lemma dist2_expand_dot : forall z v, length z = length v ->
  dist2 Rops z v = sumsq Rops z - 2 * dot Rops z v + sumsq Rops v.
Proof.
  induction z as [|c z IH]; intros [|a v] Hl; try discriminate; [cbn; ring|].
  injection Hl as Hl. rewrite dist2_cons, dot_cons, !sumsq_cons, (IH v Hl). ring.
Qed.
Lemma lincomb_sq al be : forall z v, length z = length v ->
  0 <= al * al * sumsq Rops z - 2 * al * be * dot Rops z v + be * be * sumsq Rops v.
Proof.
  induction z as [|c z IH]; intros [|a v] Hl; try discriminate; [cbn; lra|].
  injection Hl as Hl. specialize (IH v Hl). rewrite dot_cons, !sumsq_cons.
  assert (0 <= (al * c - be * a) * (al * c - be * a)) by apply sq_nonneg. nra.
Qed.
Lemma sumsq_zero_dot : forall z v, sumsq Rops z = 0 -> dot Rops z v = 0.
Proof.
  induction z as [|c z IH]; intros [|a v] H; try reflexivity.
  rewrite sumsq_cons in H. pose proof (sumsq_nonneg z). assert (c = 0) by nra. subst c.
  rewrite dot_cons, IH by nra. ring.
Qed.
Lemma sumsq_zero_dot_r : forall z v, sumsq Rops v = 0 -> dot Rops z v = 0.
Proof.
  induction z as [|c z IH]; intros [|a v] H; try reflexivity.
  rewrite sumsq_cons in H. pose proof (sumsq_nonneg v). assert (a = 0) by nra. subst a.
  rewrite dot_cons, IH by nra. ring.
Qed.
(* Cauchy-Schwarz in the form needed *)
Lemma dot_le_norms z v sz s : length z = length v -> 0 <= sz -> 0 <= s ->
  sz * sz = sumsq Rops z -> s * s = sumsq Rops v -> dot Rops z v <= sz * s.
Proof.
  intros Hl Hsz Hs Ez Ev.
  destruct (Req_dec sz 0) as [Z|NZ].
  - subst sz. rewrite sumsq_zero_dot by lra. lra.
  - destruct (Req_dec s 0) as [Z'|NZ'].
    + subst s. rewrite sumsq_zero_dot_r by lra. lra.
    + pose proof (lincomb_sq s sz z v Hl) as H. rewrite <- Ez, <- Ev in H.
      assert (0 < sz * s) by nra. nra.
Qed.
Lemma l2_prox_scale s t v : l2_prox_with Rops s t v = map (fun x => (if fltb Rops t s then 1 - t / s else 0) * x) v.
Proof. unfold l2_prox_with. destruct (fltb Rops t s); apply map_ext; intros x; cbn; unfold Rdiv; ring. Qed.
Lemma fltb_R a b : (fltb Rops a b = true /\ a < b) \/ (fltb Rops a b = false /\ b <= a).
Proof. unfold fltb; cbn. destruct (Rleb b a) eqn:E; [apply Rleb_true in E; right | apply Rleb_false in E; left]; auto. Qed.
Lemma sq_eq_nonneg a b : 0 <= a -> 0 <= b -> a * a = b * b -> a = b.
Proof. intros Ha Hb H. apply Rsqr_inj; auto. Qed.
Theorem l2_optimal t s v z sx sz : 0 <= t -> 0 <= s -> s * s = sumsq Rops v ->
  length z = length v -> 0 <= sz -> sz * sz = sumsq Rops z ->
  0 <= sx -> sx * sx = sumsq Rops (l2_prox_with Rops s t v) ->
  t * sx + dist2 Rops (l2_prox_with Rops s t v) v / 2 <= t * sz + dist2 Rops z v / 2.
Proof.
  intros Ht Hs Es Hl Hsz Ez Hsx Ex.
  pose proof (dot_le_norms z v sz s Hl Hsz Hs Ez Es) as CS.
  rewrite (dist2_expand_dot z v Hl), <- Ez, <- Es.
  rewrite l2_prox_scale in *. rewrite scale_dist2, <- Es. rewrite scale_sumsq, <- Es in Ex.
  destruct (fltb_R t s) as [[E H]|[E H]]; rewrite E in *.
  - (* t < s : shrink towards 0 by t *)
    assert (Hc : (1 - t / s) * s = s - t) by (field; lra).
    assert (Hsx' : sx = s - t).
    { apply sq_eq_nonneg; [lra | lra |]. rewrite Ex, <- Hc. ring. }
    assert (Hd : (1 - t / s - 1) * (1 - t / s - 1) * (s * s) = t * t) by (field; lra).
    rewrite Hd, Hsx'. pose proof (sq_nonneg (sz - s + t)). nra.
  - (* s <= t : the result is 0 *)
    assert (sx = 0). { apply sq_eq_nonneg; [lra | lra |]. rewrite Ex. ring. } subst sx.
    pose proof (sq_nonneg sz). assert (0 <= sz * (t - s)) by (apply Rmult_le_pos; lra). nra.
Qed.
Corollary l2_optimal_sqrt t v z : 0 <= t -> length z = length v ->
  let x := l2_prox_with Rops (sqrt (sumsq Rops v)) t v in
  t * sqrt (sumsq Rops x) + dist2 Rops x v / 2 <= t * sqrt (sumsq Rops z) + dist2 Rops z v / 2.
Proof.
  intros Ht Hl x. unfold x.
  apply l2_optimal; auto using sqrt_pos, sqrt_sqrt, sumsq_nonneg.
Qed.

(* ---------- smoothness: any solution of the coded tridiagonal system minimises
   (t/2) * (x_0^2 + sum (x_i - x_{i+1})^2 + x_{n-1}^2) + |x - v|^2 / 2 *)
Fixpoint rough (prev : R) (x : list R) : R :=
  match x with [] => prev * prev | a :: r => (a - prev) * (a - prev) + rough a r end.
Fixpoint bil (px pd : R) (x d : list R) : R :=
  match x, d with a :: x', e :: d' => (a - px) * (e - pd) + bil a e x' d' | _, _ => px * pd end.
Lemma rough_nonneg : forall x p, 0 <= rough p x.
Proof. induction x as [|a x IH]; intros p; cbn; [apply sq_nonneg|]. specialize (IH a). pose proof (sq_nonneg (a - p)). lra. Qed.
Lemma rough_add : forall x d px pd, length d = length x ->
  rough (px + pd) (map (fun p => fst p + snd p) (combine x d)) = rough px x + rough pd d + 2 * bil px pd x d.
Proof.
  induction x as [|a x IH]; intros [|e d] px pd Hl; try discriminate; cbn; [ring|].
  injection Hl as Hl. rewrite (IH d a e Hl). ring.
Qed.
Lemma bil_apply t : forall x d px pd, length d = length x ->
  t * bil px pd x d + dot Rops x d - t * pd * (px - hd 0 x)
  = dot Rops (sm_apply Rops t px x) d.
Proof.
  induction x as [|a x IH]; intros [|e d] px pd Hl; try discriminate; [cbn; ring|].
  injection Hl as Hl. cbn [sm_apply bil hd]. rewrite !dot_cons, <- (IH d a e Hl).
  unfold two; cbn [fadd fsub fmul f1 f0 Rops]. destruct x; cbn [hd]; ring.
Qed.
Definition smooth_obj (t : R) (x v : list R) : R := t / 2 * rough 0 x + dist2 Rops x v / 2.
Lemma dist2_add : forall x d v, length d = length x -> length v = length x ->
  dist2 Rops (map (fun p => fst p + snd p) (combine x d)) v
  = dist2 Rops x v + sumsq Rops d + 2 * dot Rops x d - 2 * dot Rops v d.
Proof.
  induction x as [|a x IH]; intros [|e d] [|b v] H1 H2; try discriminate; [cbn; ring|].
  injection H1 as H1. injection H2 as H2. cbn [combine map fst snd]. rewrite !dist2_cons, sumsq_cons, !dot_cons, (IH d v H1 H2). ring.
Qed.
Lemma add_sub_combine : forall x z : list R, length z = length x ->
  map (fun p => fst p + snd p) (combine x (map (fun p => fst p - snd p) (combine z x))) = z.
Proof.
  induction x as [|a x IH]; intros [|c z] Hl; try discriminate; [reflexivity|].
  injection Hl as Hl. cbn. rewrite (IH z Hl). f_equal. ring.
Qed.
Theorem smooth_optimal t x v z : 0 <= t -> sm_apply Rops t 0 x = v -> length z = length x ->
  smooth_obj t x v <= smooth_obj t z v.
Proof.
  intros Ht Hx Hl.
  set (d := map (fun p => fst p - snd p) (combine z x)).
  assert (Hd : length d = length x).
  { unfold d. rewrite map_length, combine_length, Hl. apply Nat.min_id. }
  assert (Hv : length v = length x).
  { rewrite <- Hx. clear. generalize 0. induction x; intros; cbn; [reflexivity | f_equal; apply IHx]. }
  rewrite <- (add_sub_combine x z Hl). fold d. unfold smooth_obj.
  rewrite (dist2_add x d v Hd Hv).
  pose proof (rough_add x d 0 0 Hd) as RA. rewrite Rplus_0_l in RA. rewrite RA.
  pose proof (bil_apply t x d 0 0 Hd) as B. rewrite Hx in B.
  pose proof (rough_nonneg d 0). pose proof (sumsq_nonneg d). nra.
Qed.

(* ---------- generic: an optimal projection onto a convex set is firmly non-expansive *)
Definition lerp (lam : R) (a b : list R) : list R := map (fun p => fst p + lam * (snd p - fst p)) (combine a b).
Definition convex_set (n : nat) (C : list R -> Prop) : Prop :=
  forall a b lam, C a -> C b -> length a = n -> length b = n -> 0 <= lam <= 1 -> C (lerp lam a b).
Fixpoint dotd (a b c d : list R) : R :=   (* <a - b, c - d> *)
  match a, b, c, d with x :: a', y :: b', u :: c', w :: d' => (x - y) * (u - w) + dotd a' b' c' d' | _, _, _, _ => 0 end.
Lemma lerp_dist2 lam : forall x z v, length z = length x -> length v = length x ->
  dist2 Rops (lerp lam x z) v = dist2 Rops x v + lam * lam * dist2 Rops z x - 2 * lam * dotd v x z x.
Proof.
  induction x as [|a x IH]; intros [|c z] [|b v] H1 H2; try discriminate; [cbn; ring|].
  injection H1 as H1. injection H2 as H2. unfold lerp in *. cbn [combine map fst snd dotd].
  rewrite !dist2_cons, (IH z v H1 H2). ring.
Qed.
(* variational inequality from optimality *)
Lemma projection_variational n (C : list R -> Prop) x v z :
  convex_set n C -> C x -> C z -> length x = n -> length z = n -> length v = n ->
  (forall w, C w -> length w = n -> dist2 Rops x v <= dist2 Rops w v) ->
  dotd v x z x <= 0.
Proof.
  intros Hc Hx Hz Lx Lz Lv Hopt.
  destruct (Rle_dec (dotd v x z x) 0) as [|N]; [assumption|exfalso].
  assert (Hp : 0 < dotd v x z x) by lra.
  pose proof (dist2_nonneg z x) as Hd.
  set (lam := Rmin 1 (dotd v x z x / (dist2 Rops z x + 1))).
  assert (Hq : 0 < dotd v x z x / (dist2 Rops z x + 1)) by (apply Rdiv_lt_0_compat; lra).
  assert (Hl : 0 < lam <= 1).
  { unfold lam. split; [apply Rmin_glb_lt; lra | apply Rmin_l]. }
  assert (Hl2 : lam * (dist2 Rops z x + 1) <= dotd v x z x).
  { assert (lam <= dotd v x z x / (dist2 Rops z x + 1)) by apply Rmin_r.
    apply Rmult_le_compat_r with (r := dist2 Rops z x + 1) in H; [|lra].
    unfold Rdiv in H. rewrite Rmult_assoc, Rinv_l, Rmult_1_r in H by lra. exact H. }
  assert (Lw : length (lerp lam x z) = n).
  { unfold lerp. rewrite map_length, combine_length, Lx, Lz. apply Nat.min_id. }
  pose proof (Hopt (lerp lam x z) (Hc x z lam Hx Hz Lx Lz ltac:(lra)) Lw) as H.
  rewrite (lerp_dist2 lam x z v) in H by congruence. nra.
Qed.
Lemma dotd_split : forall u v x y, length v = length u -> length x = length u -> length y = length u ->
  dotd x y u v = dist2 Rops x y - dotd u x y x - dotd v y x y.
Proof.
  induction u as [|a u IH]; intros [|b v] [|c x] [|e y] H1 H2 H3; try discriminate; [cbn; ring|].
  injection H1 as H1. injection H2 as H2. injection H3 as H3. cbn [dotd]. rewrite dist2_cons, (IH v x y H1 H2 H3). ring.
Qed.
Theorem firmly_nonexpansive n (C : list R -> Prop) (P : list R -> list R) :
  convex_set n C ->
  (forall v, length v = n -> C (P v) /\ length (P v) = n /\ forall w, C w -> length w = n -> dist2 Rops (P v) v <= dist2 Rops w v) ->
  forall u v, length u = n -> length v = n -> dist2 Rops (P u) (P v) <= dotd (P u) (P v) u v.
Proof.
  intros Hc HP u v Lu Lv.
  destruct (HP u Lu) as (Cu & Lpu & Ou). destruct (HP v Lv) as (Cv & Lpv & Ov).
  pose proof (projection_variational n C (P u) u (P v) Hc Cu Cv Lpu Lpv Lu Ou) as V1.
  pose proof (projection_variational n C (P v) v (P u) Hc Cv Cu Lpv Lpu Lv Ov) as V2.
  rewrite (dotd_split u v (P u) (P v)) by congruence. lra.
Qed.
(* instance: the non-negative orthant *)
Lemma nonneg_convex n : convex_set n (Forall (fun x => 0 <= x)).
Proof.
  intros a b lam Ha Hb _ _ Hlam. revert b Hb.
  induction Ha as [|x a Hx Ha IH]; intros b Hb; [constructor|].
  destruct Hb as [|y b Hy Hb]; [constructor|]. unfold lerp in *. cbn [combine map fst snd]. constructor; [|apply IH; exact Hb].
  assert (0 <= (1 - lam) * x) by (apply Rmult_le_pos; lra).
  assert (0 <= lam * y) by (apply Rmult_le_pos; lra). lra.
Qed.
Theorem nonneg_firmly_nonexpansive u v : length u = length v ->
  dist2 Rops (non_negative Rops u) (non_negative Rops v) <= dotd (non_negative Rops u) (non_negative Rops v) u v.
Proof.
  intros L. apply (firmly_nonexpansive (length v) (Forall (fun x => 0 <= x)) (non_negative Rops)); auto.
  - apply nonneg_convex.
  - intros w Lw. split; [apply nonneg_feasible|]. split; [rewrite nonneg_length; exact Lw|].
    intros z Hz Lz. apply nonneg_optimal; [congruence | exact Hz].
Qed.
