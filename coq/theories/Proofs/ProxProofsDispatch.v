(* validate_constraints (Model/ProxDispatch.v): the selected mode receives exactly the constraint (and parameter) registered for
   it, whatever the order in which the keyword arguments are written, and no constraint if none is registered for it. *)
From Coq Require Import List Arith Lia Bool.
From TLV Require Import Model.ProxDispatch.
Import ListNotations.

Section P.
Context {P : Type}.
Notation table := (list (option (nat * P))).

Lemma set_at_length : forall (t : table) i x, length (set_at i x t) = length t.
Proof. induction t as [|y t IH]; intros [|i] x; cbn; auto. Qed.
Lemma set_at_nth : forall (t : table) i x o, (i < length t)%nat ->
  nth o (set_at i x t) None = if Nat.eqb o i then x else nth o t None.
Proof.
  induction t as [|y t IH]; intros [|i] x o Hi; cbn in Hi; try lia.
  - destruct o; reflexivity.
  - destruct o as [|o]; [reflexivity|]. cbn [set_at nth]. rewrite IH by lia. reflexivity.
Qed.
Lemma set_at_nth_out : forall (t : table) i x o, (length t <= i)%nat -> nth o (set_at i x t) None = nth o t None.
Proof.
  induction t as [|y t IH]; intros [|i] x o Hi; cbn in Hi; try lia; try reflexivity.
  destruct o as [|o]; [reflexivity|]. cbn [set_at nth]. apply IH. lia.
Qed.

Lemma find_app' {A} (f : A -> bool) : forall l1 l2, find f (l1 ++ l2) = match find f l1 with Some x => Some x | None => find f l2 end.
Proof. induction l1 as [|x l1 IH]; intros l2; cbn; [reflexivity|]. destruct (f x); [reflexivity | apply IH]. Qed.
Lemma dict_fold_length c : forall (es : list (nat * P)) (t : table),
  length (fold_left (fun t (mp : nat * P) => set_at (fst mp) (Some (c, snd mp)) t) es t) = length t.
Proof. induction es as [|e es IH]; intros t; cbn; [reflexivity|]. rewrite IH. apply set_at_length. Qed.
Lemma dict_fold_nth c o : forall (es : list (nat * P)) (t : table), (o < length t)%nat ->
  nth o (fold_left (fun t (mp : nat * P) => set_at (fst mp) (Some (c, snd mp)) t) es t) None =
  match find (fun mp : nat * P => Nat.eqb (fst mp) o) (rev es) with Some mp => Some (c, snd mp) | None => nth o t None end.
Proof.
  induction es as [|e es IH]; intros t Ho; [reflexivity|].
  cbn [fold_left rev]. rewrite IH by (rewrite set_at_length; exact Ho).
  rewrite find_app'. destruct (find _ (rev es)); [reflexivity|].
  cbn [find]. destruct (Nat.ltb (fst e) (length t)) eqn:L.
  - apply Nat.ltb_lt in L. rewrite set_at_nth by exact L. rewrite (Nat.eqb_sym (fst e) o). destruct (Nat.eqb o (fst e)); reflexivity.
  - apply Nat.ltb_ge in L. rewrite set_at_nth_out by exact L.
    destruct (Nat.eqb (fst e) o) eqn:E; [apply Nat.eqb_eq in E; lia | reflexivity].
Qed.
Lemma reg_list_length c : forall (l : list (option P)) i (t : table), length (reg_list c i l t) = length t.
Proof. induction l as [|e l IH]; intros i t; cbn; [reflexivity|]. rewrite IH. destruct e; [apply set_at_length | reflexivity]. Qed.
Lemma reg_list_nth c o : forall (l : list (option P)) i (t : table), (o < length t)%nat ->
  nth o (reg_list c i l t) None =
  if Nat.leb i o then match nth (o - i) l None with Some p => Some (c, p) | None => nth o t None end else nth o t None.
Proof.
  induction l as [|e l IH]; intros i t Ho.
  - cbn. destruct (Nat.leb i o); [destruct (o - i)%nat|]; reflexivity.
  - cbn [reg_list]. rewrite IH by (destruct e; rewrite ?set_at_length; exact Ho).
    destruct (Nat.leb (S i) o) eqn:L1.
    + apply Nat.leb_le in L1. assert (L2 : Nat.leb i o = true) by (apply Nat.leb_le; lia). rewrite L2.
      replace (o - i)%nat with (S (o - S i)) by lia. cbn [nth].
      destruct (nth (o - S i) l None); [reflexivity|].
      destruct e; [|reflexivity].
      destruct (Nat.ltb i (length t)) eqn:L3; [apply Nat.ltb_lt in L3; rewrite set_at_nth by exact L3 | apply Nat.ltb_ge in L3; rewrite set_at_nth_out by exact L3; reflexivity].
      assert (E : Nat.eqb o i = false) by (apply Nat.eqb_neq; lia). rewrite E. reflexivity.
    + apply Nat.leb_gt in L1. destruct (Nat.leb i o) eqn:L2.
      * apply Nat.leb_le in L2. assert (o = i) by lia. subst o. rewrite Nat.sub_diag. cbn [nth].
        destruct e; [|reflexivity]. rewrite set_at_nth by exact Ho. rewrite Nat.eqb_refl. reflexivity.
      * apply Nat.leb_gt in L2. destruct e; [|reflexivity].
        destruct (Nat.ltb i (length t)) eqn:L3; [apply Nat.ltb_lt in L3; rewrite set_at_nth by exact L3 | apply Nat.ltb_ge in L3; rewrite set_at_nth_out by exact L3; reflexivity].
        assert (E : Nat.eqb o i = false) by (apply Nat.eqb_neq; lia). rewrite E. reflexivity.
Qed.

Lemma nth_map_const {A B} (y : B) : forall (l : list A) o d, (o < length l)%nat -> nth o (map (fun _ => y) l) d = y.
Proof. induction l as [|x l IH]; intros o d Ho; [cbn in Ho; lia|]. destruct o; [reflexivity|]. cbn [map nth]. apply IH. cbn in Ho; lia. Qed.
Lemma register_length (t : table) cs : length (register t cs) = length t.
Proof. destruct cs as [c [es|l|p]]; cbn; [apply dict_fold_length | apply reg_list_length | apply map_length]. Qed.
(* one keyword argument: the selected mode is overwritten iff the argument names it *)
Lemma register_nth (t : table) c s o : (o < length t)%nat ->
  nth o (register t (c, s)) None = match param_at s o with Some p => Some (c, p) | None => nth o t None end.
Proof.
  intros Ho. destruct s as [es|l|p]; cbn [register param_at].
  - rewrite dict_fold_nth by exact Ho. destruct (find _ (rev es)); reflexivity.
  - rewrite reg_list_nth by exact Ho. cbn. rewrite Nat.sub_0_r. reflexivity.
  - apply nth_map_const. exact Ho.
Qed.

Lemma fold_register_length : forall L (t : table), length (fold_left register L t) = length t.
Proof. induction L as [|x L IH]; intros t; cbn; [reflexivity|]. rewrite IH. apply register_length. Qed.
Lemma fold_none o : forall L (t : table), (o < length t)%nat ->
  (forall c s, In (c, s) L -> param_at s o = None) -> nth o (fold_left register L t) None = nth o t None.
Proof.
  induction L as [|[c s] L IH]; intros t Ho H; [reflexivity|]. cbn [fold_left].
  rewrite IH; [| rewrite register_length; exact Ho | intros c' s' Hin; apply (H c' s'); right; exact Hin].
  rewrite register_nth by exact Ho. rewrite (H c s (or_introl eq_refl)). reflexivity.
Qed.
Lemma fold_keep o c s p : param_at s o = Some p -> forall L (t : table), (o < length t)%nat ->
  (forall c' s', In (c', s') L -> param_at s' o <> None -> (c', s') = (c, s)) ->
  nth o t None = Some (c, p) -> nth o (fold_left register L t) None = Some (c, p).
Proof.
  intros Hp. induction L as [|[c' s'] L IH]; intros t Ho H Ht; [exact Ht|]. cbn [fold_left].
  apply IH; [rewrite register_length; exact Ho | intros c2 s2 Hin; apply H; right; exact Hin|].
  rewrite register_nth by exact Ho. destruct (param_at s' o) as [p'|] eqn:E; [|exact Ht].
  assert (Eq : (c', s') = (c, s)) by (apply H; [left; reflexivity | rewrite E; discriminate]).
  injection Eq as -> ->. rewrite Hp in E. injection E as ->. reflexivity.
Qed.
Lemma fold_unique o c s p : param_at s o = Some p -> forall L (t : table), (o < length t)%nat ->
  (forall c' s', In (c', s') L -> param_at s' o <> None -> (c', s') = (c, s)) ->
  In (c, s) L -> nth o (fold_left register L t) None = Some (c, p).
Proof.
  intros Hp. induction L as [|[c' s'] L IH]; intros t Ho H Hin; [destruct Hin|]. cbn [fold_left].
  destruct Hin as [Eq|Hin].
  - injection Eq as -> ->. apply (fold_keep o c s p Hp); [rewrite register_length; exact Ho | intros c2 s2 Hin2; apply H; right; exact Hin2|].
    rewrite register_nth by exact Ho. rewrite Hp. reflexivity.
  - apply IH; [rewrite register_length; exact Ho | intros c2 s2 Hin2; apply H; right; exact Hin2 | exact Hin].
Qed.

Lemma insert_c_in x y : forall l : list (nat * cspec P), In x (insert_c y l) <-> x = y \/ In x l.
Proof.
  induction l as [|z l IH]; cbn [insert_c]; [cbn; intuition|].
  destruct (Nat.leb (fst y) (fst z)); cbn [In]; [intuition|]. rewrite IH. cbn. intuition.
Qed.
Lemma sort_c_in x : forall l : list (nat * cspec P), In x (sort_c l) <-> In x l.
Proof. induction l as [|y l IH]; [reflexivity|]. cbn [sort_c fold_right]. fold (sort_c l). rewrite insert_c_in, IH. cbn. intuition. Qed.

(* ---------- validate_constraints *)
Theorem validate_selected n order (specs : list (nat * cspec P)) c s p : (order < n)%nat ->
  In (c, s) specs -> param_at s order = Some p ->
  (forall c' s', In (c', s') specs -> param_at s' order <> None -> (c', s') = (c, s)) ->
  validate n order specs = Some (c, p).
Proof.
  intros Ho Hin Hp Huniq. unfold validate.
  apply (fold_unique order c s p Hp); [rewrite repeat_length; exact Ho | | apply sort_c_in; exact Hin].
  intros c' s' Hin'. apply Huniq. apply sort_c_in. exact Hin'.
Qed.
Theorem validate_unconstrained n order (specs : list (nat * cspec P)) :
  (forall c s, In (c, s) specs -> param_at s order = None) -> validate n order specs = @None (nat * P).
Proof.
  intros H. unfold validate. destruct (Nat.ltb order n) eqn:L.
  - apply Nat.ltb_lt in L. rewrite fold_none; [| rewrite repeat_length; exact L | intros c s Hin; apply (H c s); apply sort_c_in; exact Hin].
    apply nth_repeat.
  - apply Nat.ltb_ge in L. apply nth_overflow. rewrite fold_register_length, repeat_length. exact L.
Qed.
End P.
