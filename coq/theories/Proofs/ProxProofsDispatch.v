(* proximal_operator's keyword arguments: the selection is independent of the order in which the keywords are written, and
   (instance of C11's zvalidate_spec, the authoritative theorem) returns exactly the constraint requested for the selected mode. *)
From Coq Require Import List QArith Bool Permutation Lia.
From TLV Require Import Base.Tensor Model.Constraints Proofs.ConstraintsProofsKeys Model.ProxDispatch.
Import ListNotations.

Lemma kind_eqb_eq a b : kind_eqb a b = true <-> a = b.
Proof. split; [destruct a, b; cbn; intros H; try reflexivity; discriminate H | intros ->; destruct b; reflexivity]. Qed.
Lemma kind_dec (a b : kind) : {a = b} + {a <> b}.
Proof. decide equality. Qed.
Lemma spec_of_in : forall (specs : kwargs) k s, NoDup (map fst specs) -> In (k, s) specs -> spec_of specs k = s.
Proof.
  induction specs as [|[k0 s0] specs IH]; intros k s Hnd Hin; [destruct Hin|].
  unfold spec_of. cbn [find fst snd]. inversion Hnd as [|? ? Hnot Hnd']; subst.
  destruct (kind_eqb k k0) eqn:E.
  - apply kind_eqb_eq in E. subst k0. destruct Hin as [Eq|Hin]; [injection Eq as ->; reflexivity|].
    exfalso. apply Hnot. apply (in_map fst) in Hin. exact Hin.
  - destruct Hin as [Eq|Hin]; [injection Eq as -> ->; rewrite (proj2 (kind_eqb_eq k k) eq_refl) in E; discriminate|].
    apply (IH k s Hnd' Hin).
Qed.
Lemma spec_of_absent : forall (specs : kwargs) k, ~ In k (map fst specs) -> spec_of specs k = ZNone.
Proof.
  induction specs as [|[k0 s0] specs IH]; intros k H; [reflexivity|]. unfold spec_of. cbn [find fst snd].
  destruct (kind_eqb k k0) eqn:E; [apply kind_eqb_eq in E; subst; exfalso; apply H; left; reflexivity|].
  apply IH. intros Hin. apply H. right. exact Hin.
Qed.
(* the keywords may be written in any order *)
Theorem validate_kwargs_order_irrelevant n order (specs specs' : kwargs) :
  NoDup (map fst specs) -> Permutation specs specs' -> validate_kwargs n order specs = validate_kwargs n order specs'.
Proof.
  intros Hnd Hp. unfold validate_kwargs. f_equal. unfold zkeywords. apply map_ext. intros k. f_equal.
  assert (Hnd' : NoDup (map fst specs')) by (eapply Permutation_NoDup; [apply Permutation_map, Hp | exact Hnd]).
  destruct (in_dec kind_dec k (map fst specs)) as [Hin|Hout].
  - apply in_map_iff in Hin. destruct Hin as ([k0 s] & <- & Hin). cbn [fst].
    rewrite (spec_of_in specs k0 s Hnd Hin). symmetry. apply spec_of_in; [exact Hnd' | eapply Permutation_in; eauto].
  - rewrite (spec_of_absent specs k Hout). symmetry. apply spec_of_absent.
    intros Hin. apply Hout. eapply Permutation_in; [apply Permutation_sym, Permutation_map, Hp | exact Hin].
Qed.
(* what is selected (C11's theorem at the instance used by the C12 correspondence) *)
Theorem validate_kwargs_spec n order (specs : kwargs) c : validate_kwargs n order specs = Ok c ->
  (order < n)%nat /\
  (forall k p, c = Some (k, p) <-> exists s, In (k, s) (zkeywords (spec_of specs)) /\ zrequested qtruthy n s order p) /\
  (c = None <-> forall k s p, In (k, s) (zkeywords (spec_of specs)) -> ~ zrequested qtruthy n s order p).
Proof. apply zvalidate_spec. Qed.
