(* The proximal operator of a CONVEX function is firmly non-expansive: generic lemma from the optimality inequality
   f(P v) + |P v - v|^2/2 <= f(w) + |w - v|^2/2, instantiated for the penalised (non-projection) operators
   soft_thresholding (t |.|_1), l2_square_prox (t |.|_2^2) and l2_prox (t |.|_2). *)
From Coq Require Import List Reals Lra Psatz Lia Bool.
From TLV Require Import Base.Ops Model.Prox Proofs.ProxProofs.
Import ListNotations.
Open Scope R_scope.

Definition convex_fun (n : nat) (f : list R -> R) : Prop :=
  forall a b lam, length a = n -> length b = n -> 0 <= lam <= 1 -> f (lerp lam a b) <= (1 - lam) * f a + lam * f b.

Lemma lerp_length lam a b : length a = length b -> length (lerp lam a b) = length a.
Proof. intros L. unfold lerp. rewrite map_length, combine_length, L. apply Nat.min_id. Qed.

Lemma prox_variational n f x u z :
  convex_fun n f -> length x = n -> length z = n -> length u = n ->
  (forall w, length w = n -> f x + dist2 Rops x u / 2 <= f w + dist2 Rops w u / 2) ->
  dotd u x z x <= f z - f x.
Proof.
  intros Hc Lx Lz Lu Hopt.
  destruct (Rle_dec (dotd u x z x) (f z - f x)) as [|N]; [assumption|exfalso].
  set (g := dotd u x z x - (f z - f x)). assert (Hg : 0 < g) by (unfold g; lra).
  pose proof (dist2_nonneg z x) as Hd. set (E := dist2 Rops z x) in *.
  set (lam := Rmin 1 (g / (E + 1))).
  assert (Hq : 0 < g / (E + 1)) by (apply Rdiv_lt_0_compat; lra).
  assert (Hl : 0 < lam <= 1) by (unfold lam; split; [apply Rmin_glb_lt; lra | apply Rmin_l]).
  assert (Hl2 : lam * (E + 1) <= g).
  { assert (H : lam <= g / (E + 1)) by apply Rmin_r.
    apply Rmult_le_compat_r with (r := E + 1) in H; [|lra].
    unfold Rdiv in H. rewrite Rmult_assoc, Rinv_l, Rmult_1_r in H by lra. exact H. }
  assert (Lw : length (lerp lam x z) = n) by (rewrite lerp_length; congruence).
  pose proof (Hopt (lerp lam x z) Lw) as H.
  pose proof (Hc x z lam Lx Lz ltac:(lra)) as C.
  rewrite (lerp_dist2 lam x z u) in H by congruence. fold E in H. unfold g in *. nra.
Qed.

Theorem prox_firmly_nonexpansive n (f : list R -> R) (P : list R -> list R) :
  convex_fun n f ->
  (forall v, length v = n -> length (P v) = n /\ forall w, length w = n -> f (P v) + dist2 Rops (P v) v / 2 <= f w + dist2 Rops w v / 2) ->
  forall u v, length u = n -> length v = n -> dist2 Rops (P u) (P v) <= dotd (P u) (P v) u v.
Proof.
  intros Hc HP u v Lu Lv.
  destruct (HP u Lu) as (Lpu & Ou). destruct (HP v Lv) as (Lpv & Ov).
  pose proof (prox_variational n f (P u) u (P v) Hc Lpu Lpv Lu Ou) as V1.
  pose proof (prox_variational n f (P v) v (P u) Hc Lpv Lpu Lv Ov) as V2.
  rewrite (dotd_split u v (P u) (P v)) by congruence. lra.
Qed.

(* ---------- convexity of the three penalties *)
Lemma l1n_convex t n : 0 <= t -> convex_fun n (fun x => t * l1n Rops x).
Proof.
  intros Ht a b lam La Lb Hlam. cbv beta.
  assert (H : l1n Rops (lerp lam a b) <= (1 - lam) * l1n Rops a + lam * l1n Rops b).
  { assert (L : length a = length b) by congruence. clear La Lb. revert b L.
    induction a as [|x a IH]; intros [|y b] L; try discriminate; [cbn; lra|].
    injection L as L. unfold lerp in *. cbn [combine map fst snd]. rewrite !l1n_cons. specialize (IH b L).
    assert (Rabs (x + lam * (y - x)) <= (1 - lam) * Rabs x + lam * Rabs y).
    { replace (x + lam * (y - x)) with ((1 - lam) * x + lam * y) by ring.
      eapply Rle_trans; [apply Rabs_triang|]. rewrite !Rabs_mult, (Rabs_right (1 - lam)), (Rabs_right lam) by lra. lra. }
    lra. }
  nra.
Qed.
Lemma sumsq_convex t n : 0 <= t -> convex_fun n (fun x => t * sumsq Rops x).
Proof.
  intros Ht a b lam La Lb Hlam. cbv beta.
  assert (H : sumsq Rops (lerp lam a b) <= (1 - lam) * sumsq Rops a + lam * sumsq Rops b).
  { assert (L : length a = length b) by congruence. clear La Lb. revert b L.
    induction a as [|x a IH]; intros [|y b] L; try discriminate; [cbn; lra|].
    injection L as L. unfold lerp in *. cbn [combine map fst snd]. rewrite !sumsq_cons. specialize (IH b L).
    assert ((x + lam * (y - x)) * (x + lam * (y - x)) <= (1 - lam) * (x * x) + lam * (y * y)).
    { assert (0 <= lam * (1 - lam) * ((x - y) * (x - y))) by (apply Rmult_le_pos; [apply Rmult_le_pos; lra | apply sq_nonneg]). nra. }
    lra. }
  nra.
Qed.
Lemma sumsq_lerp lam : forall a b, length a = length b ->
  sumsq Rops (lerp lam a b) = (1 - lam) * (1 - lam) * sumsq Rops a + 2 * lam * (1 - lam) * dot Rops a b + lam * lam * sumsq Rops b.
Proof.
  induction a as [|x a IH]; intros [|y b] L; try discriminate; [cbn; ring|].
  injection L as L. unfold lerp in *. cbn [combine map fst snd]. rewrite !sumsq_cons, dot_cons, (IH b L). ring.
Qed.
Lemma norm_convex t n : 0 <= t -> convex_fun n (fun x => t * sqrt (sumsq Rops x)).
Proof.
  intros Ht a b lam La Lb Hlam. cbv beta.
  assert (L : length a = length b) by congruence.
  set (A := sqrt (sumsq Rops a)). set (B := sqrt (sumsq Rops b)).
  assert (HA : 0 <= A) by apply sqrt_pos. assert (HB : 0 <= B) by apply sqrt_pos.
  assert (EA : A * A = sumsq Rops a) by (apply sqrt_sqrt, sumsq_nonneg).
  assert (EB : B * B = sumsq Rops b) by (apply sqrt_sqrt, sumsq_nonneg).
  pose proof (dot_le_norms a b A B L HA HB EA EB) as CS.
  set (m := (1 - lam) * A + lam * B). assert (Hm : 0 <= m) by (unfold m; nra).
  assert (H : sqrt (sumsq Rops (lerp lam a b)) <= m).
  { rewrite <- (sqrt_square m Hm). apply sqrt_le_1; [apply sumsq_nonneg | nra |].
    rewrite (sumsq_lerp lam a b L), <- EA, <- EB. unfold m.
    assert (0 <= 2 * lam * (1 - lam)) by nra.
    assert (2 * lam * (1 - lam) * dot Rops a b <= 2 * lam * (1 - lam) * (A * B)) by (apply Rmult_le_compat_l; assumption).
    nra. }
  fold A B. unfold m in H. nra.
Qed.

(* ---------- the three penalised operators are firmly non-expansive *)
Theorem soft_firmly_nonexpansive t u v : 0 <= t -> length u = length v ->
  dist2 Rops (soft_thresholding Rops t u) (soft_thresholding Rops t v)
  <= dotd (soft_thresholding Rops t u) (soft_thresholding Rops t v) u v.
Proof.
  intros Ht L. apply (prox_firmly_nonexpansive (length v) (fun x => t * l1n Rops x) (soft_thresholding Rops t)); auto.
  - apply l1n_convex; exact Ht.
  - intros w Lw. split; [rewrite soft_length; exact Lw|]. intros z Lz. apply soft_optimal; [exact Ht | congruence].
Qed.
Theorem l2sq_firmly_nonexpansive t u v : 0 <= t -> length u = length v ->
  dist2 Rops (l2_square_prox Rops t u) (l2_square_prox Rops t v)
  <= dotd (l2_square_prox Rops t u) (l2_square_prox Rops t v) u v.
Proof.
  intros Ht L. apply (prox_firmly_nonexpansive (length v) (fun x => t * sumsq Rops x) (l2_square_prox Rops t)); auto.
  - apply sumsq_convex; exact Ht.
  - intros w Lw. split; [unfold l2_square_prox; rewrite map_length; exact Lw|]. intros z Lz. apply l2sq_optimal; [exact Ht | congruence].
Qed.
Lemma l2_prox_length s t v : length (l2_prox_with Rops s t v) = length v.
Proof. unfold l2_prox_with. destruct (fltb Rops t s); apply map_length. Qed.
Theorem l2_firmly_nonexpansive t u v : 0 <= t -> length u = length v ->
  let P := fun w => l2_prox_with Rops (sqrt (sumsq Rops w)) t w in
  dist2 Rops (P u) (P v) <= dotd (P u) (P v) u v.
Proof.
  intros Ht L P.
  apply (prox_firmly_nonexpansive (length v) (fun x => t * sqrt (sumsq Rops x)) P); auto.
  - apply norm_convex; exact Ht.
  - intros w Lw. split; [unfold P; rewrite l2_prox_length; exact Lw|]. intros z Lz. unfold P.
    apply (l2_optimal_sqrt t w z Ht). congruence.
Qed.
