(* Remaining firm non-expansiveness / idempotence instances: soft thresholding with per-entry thresholds (weighted l1 penalty),
   idempotence of the l1-ball operator on or outside the ball. *)
From Coq Require Import List Reals Lra Lia.
From TLV Require Import Base.Ops Model.Prox Proofs.ProxProofs Proofs.ProxProofsFirm Proofs.ProxProofsSimplex Proofs.ProxProofsRefute Proofs.ProxProofsMore.
Import ListNotations.
Open Scope R_scope.

Definition wl1 (ts x : list R) : R := lsum Rops (map (fun tx => fst tx * Rabs (snd tx)) (combine ts x)).
Lemma wl1_cons t ts x xs : wl1 (t :: ts) (x :: xs) = t * Rabs x + wl1 ts xs.
Proof. reflexivity. Qed.
Lemma wl1_convex : forall ts n, Forall (fun t => 0 <= t) ts -> length ts = n -> convex_fun n (wl1 ts).
Proof.
  intros ts n Hts Ln a b lam La Lb Hlam. subst n.
  revert a b La Lb. induction Hts as [|t ts Ht Hts IH]; intros a b La Lb.
  - destruct a; [|discriminate La]. destruct b; [|discriminate Lb]. cbn. lra.
  - destruct a as [|x a]; [discriminate La|]. destruct b as [|y b]; [discriminate Lb|].
    injection La as La. injection Lb as Lb. unfold lerp. cbn [combine map fst snd]. rewrite !wl1_cons.
    specialize (IH a b La Lb). unfold lerp in IH.
    assert (Rabs (x + lam * (y - x)) <= (1 - lam) * Rabs x + lam * Rabs y).
    { replace (x + lam * (y - x)) with ((1 - lam) * x + lam * y) by ring.
      eapply Rle_trans; [apply Rabs_triang|]. rewrite !Rabs_mult, (Rabs_right (1 - lam)), (Rabs_right lam) by lra. lra. }
    nra.
Qed.
Lemma soft_arr_length ts v : length ts = length v -> length (soft_thresholding_arr Rops ts v) = length v.
Proof. intros L. unfold soft_thresholding_arr. rewrite map_length, combine_length, L. apply Nat.min_id. Qed.
Theorem soft_arr_firmly_nonexpansive ts u v : Forall (fun t => 0 <= t) ts -> length ts = length u -> length u = length v ->
  dist2 Rops (soft_thresholding_arr Rops ts u) (soft_thresholding_arr Rops ts v)
  <= dotd (soft_thresholding_arr Rops ts u) (soft_thresholding_arr Rops ts v) u v.
Proof.
  intros Hts Lt L. apply (prox_firmly_nonexpansive (length v) (wl1 ts) (soft_thresholding_arr Rops ts)); auto.
  - apply wl1_convex; [exact Hts | congruence].
  - intros w Lw. split; [rewrite soft_arr_length; congruence|]. intros z Lz. unfold wl1.
    apply soft_arr_optimal; [exact Hts | congruence | congruence].
Qed.

(* the l1-ball operator fixes its own output when the input lies on or outside the ball *)
Theorem l1ball_outside_idempotent p v : 0 < p -> p <= l1n Rops v ->
  soft_sparsity_prox Rops p (soft_sparsity_prox Rops p v) = soft_sparsity_prox Rops p v.
Proof.
  intros Hp Hout. set (w := soft_sparsity_prox Rops p v).
  assert (Hw : l1n Rops w = p) by (apply l1ball_outside_feasible; assumption).
  assert (Lw : length (soft_sparsity_prox Rops p w) = length w) by apply soft_sparsity_length.
  apply dist2_zero_eq; [exact Lw|].
  pose proof (l1ball_outside_optimal p w w Hp ltac:(lra) eq_refl ltac:(lra)) as H.
  assert (E : dist2 Rops w w = 0).
  { clear. induction w as [|x w IH]; [reflexivity|]. rewrite dist2_cons, IH. ring. }
  pose proof (ProxProofs.dist2_nonneg (soft_sparsity_prox Rops p w) w). lra.
Qed.
