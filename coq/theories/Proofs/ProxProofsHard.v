(* hard_thresholding (Model/Prox.v) and the relational checker valid_ht, over Rops, for ALL lists and all k:
   length, entrywise shape, sparsity, nearest-point property among the vectors with at most k non-zero
   entries, soundness of valid_ht, validity of the model output, fixed points / idempotence. *)
From Coq Require Import List Arith Bool Reals Lra Lia Psatz Permutation Sorting.Sorted.
From TLV Require Import Base.Ops Model.Prox.
Import ListNotations.
Local Open Scope R_scope.

(* ---------- specification vocabulary *)
Definition nnzR (l : list R) : nat := length (filter (fun x => if Req_EM_T x 0 then false else true) l).

Definition nzb (x : R) : bool := if Req_EM_T x 0 then false else true.
Fixpoint cnt (m : list bool) : nat := match m with [] => O | b :: r => ((if b then 1 else 0) + cnt r)%nat end.
(* sum of the squares of the entries that a mask drops *)
Fixpoint dropsum (m : list bool) (v : list R) : R :=
  match m, v with b :: m', y :: v' => (if b then 0 else y * y) + dropsum m' v' | _, _ => 0 end.

(* ---------- generic list helpers *)
Lemma Forall2_nth_intro {A B} (P : A -> B -> Prop) da db : forall l1 l2, length l1 = length l2 ->
  (forall i, (i < length l1)%nat -> P (nth i l1 da) (nth i l2 db)) -> Forall2 P l1 l2.
Proof.
  induction l1; destruct l2; simpl; intros E H; try discriminate; constructor.
  - apply (H O). lia.
  - apply IHl1; [lia|]. intros i Hi. apply (H (S i)). lia.
Qed.

Lemma nth_map_seq {A} (f : nat -> A) n i d : (i < n)%nat -> nth i (map f (seq 0 n)) d = f i.
Proof.
  intros Hi. rewrite nth_indep with (d' := f O) by (rewrite map_length, seq_length; auto).
  rewrite map_nth. rewrite seq_nth; auto.
Qed.

Lemma forallb_combine_nth {A B} (f : A * B -> bool) (l1 : list A) (l2 : list B) da db :
  length l1 = length l2 ->
  (forallb f (combine l1 l2) = true <-> forall i, (i < length l1)%nat -> f (nth i l1 da, nth i l2 db) = true).
Proof.
  intros L. rewrite forallb_forall. split.
  - intros H i Hi. apply H. rewrite <- combine_nth by auto. apply nth_In. rewrite combine_length. lia.
  - intros H p Hp. apply (In_nth _ _ (da, db)) in Hp. destruct Hp as (i & Hi & E). rewrite <- E.
    rewrite combine_nth by auto. apply H. rewrite combine_length in Hi. lia.
Qed.

Lemma mem_true i l : existsb (Nat.eqb i) l = true <-> In i l.
Proof.
  rewrite existsb_exists. split.
  - intros (j & Hj & E). apply Nat.eqb_eq in E. subst; auto.
  - intros H. exists i. split; auto. apply Nat.eqb_refl.
Qed.

Lemma cnt_map {A} (f : A -> bool) l : cnt (map f l) = length (filter f l).
Proof. induction l; simpl; auto. destruct (f a); simpl; lia. Qed.

Lemma cnt_le_length m : (cnt m <= length m)%nat.
Proof. induction m as [|b m IH]; simpl; auto. destruct b; lia. Qed.

Lemma sorted_app_split {A} (Rel : A -> A -> Prop) l1 l2 :
  StronglySorted Rel (l1 ++ l2) -> forall a b, In a l1 -> In b l2 -> Rel a b.
Proof.
  induction l1 as [|x l1 IH]; simpl; intros H a b Ha Hb; [contradiction|].
  apply StronglySorted_inv in H. destruct H as [Hs Hf]. destruct Ha as [<-|Ha].
  - rewrite Forall_forall in Hf. apply Hf. apply in_or_app; auto.
  - eapply IH; eauto.
Qed.

Lemma nodup_app_l {A} (l l' : list A) : NoDup (l ++ l') -> NoDup l.
Proof.
  induction l as [|x l IH]; simpl; intros H; constructor; inversion H; subst.
  - intro Hx. apply H2. apply in_or_app; auto.
  - apply IH; auto.
Qed.

(* ---------- Rops helpers *)
Lemma fabs_Rabs x : fabs Rops x = Rabs x.
Proof.
  unfold fabs; simpl. destruct (Rleb 0 x) eqn:E.
  - apply Rleb_true in E. rewrite Rabs_right; lra.
  - apply Rleb_false in E. rewrite Rabs_left; lra.
Qed.

Lemma feqb_true a b : feqb Rops a b = true <-> a = b.
Proof.
  unfold feqb; simpl. rewrite andb_true_iff, !Rleb_true. split; [intros [? ?]; lra | intros ->; lra].
Qed.

Lemma nzb_true x : nzb x = true <-> x <> 0.
Proof. unfold nzb. destruct (Req_EM_T x 0); split; intros H; auto; try discriminate; try contradiction. Qed.
Lemma nzb_false x : nzb x = false <-> x = 0.
Proof. unfold nzb. destruct (Req_EM_T x 0); split; intros H; auto; try discriminate; try contradiction. Qed.
Lemma nzb_0 : nzb 0 = false.
Proof. apply nzb_false; reflexivity. Qed.

Lemma fnz_nzb x : fnz Rops x = nzb x.
Proof.
  unfold fnz. change (f0 Rops) with 0. destruct (nzb x) eqn:E.
  - apply nzb_true in E. destruct (feqb Rops x 0) eqn:E2; auto. apply feqb_true in E2. contradiction.
  - apply nzb_false in E. subst. replace (feqb Rops 0 0) with true; auto. symmetry. apply feqb_true; auto.
Qed.

Lemma nnz_fnz x : length (filter (fnz Rops) x) = nnzR x.
Proof.
  unfold nnzR. induction x as [|a x IH]; simpl; auto. rewrite fnz_nzb. unfold nzb.
  destruct (Req_EM_T a 0); simpl; auto.
Qed.

Lemma cnt_nzb z : cnt (map nzb z) = nnzR z.
Proof. rewrite cnt_map. reflexivity. Qed.

Lemma nnzR_le_length z : (nnzR z <= length z)%nat.
Proof. rewrite <- cnt_nzb. rewrite <- (map_length nzb z). apply cnt_le_length. Qed.

Lemma nth_nzb x i : nth i (map nzb x) false = nzb (nth i x 0).
Proof. rewrite <- (map_nth nzb). rewrite nzb_0. reflexivity. Qed.

Lemma abs_sq a b : Rabs a <= Rabs b -> a * a <= b * b.
Proof. intros H. apply Rsqr_le_abs_1 in H. exact H. Qed.

Lemma dist2_nonneg : forall a b, 0 <= dist2 Rops a b.
Proof.
  induction a as [|x a IH]; destruct b as [|y b]; simpl; try lra.
  specialize (IH b). pose proof (Rle_0_sqr (x - y)) as Hs. unfold Rsqr in Hs. lra.
Qed.

Lemma dist2_self : forall a, dist2 Rops a a = 0.
Proof. induction a as [|x a IH]; simpl; auto. rewrite IH. ring. Qed.

Lemma dist2_zero_eq : forall a b, length a = length b -> dist2 Rops a b = 0 -> a = b.
Proof.
  induction a as [|x a IH]; destruct b as [|y b]; simpl; intros L H; try discriminate; auto.
  pose proof (dist2_nonneg a b) as Hn.
  pose proof (Rle_0_sqr (x - y)) as Hs. unfold Rsqr in Hs.
  assert (E1 : (x - y) * (x - y) = 0) by lra.
  assert (E2 : dist2 Rops a b = 0) by lra.
  f_equal; [apply Rmult_integral in E1; destruct E1; lra | apply IH; auto].
Qed.

(* ---------- the exchange argument *)
Lemma exchange c : 0 <= c -> forall m v,
  Forall2 (fun (b : bool) y => if b then c <= y * y else y * y <= c) m v ->
  forall w, length w = length v -> c * (INR (cnt m) - INR (cnt w)) <= dropsum w v - dropsum m v.
Proof.
  intros Hc m v H. induction H as [|b y m v Hb H IH]; intros w Hw.
  - destruct w; simpl in *; [lra | discriminate].
  - destruct w as [|b' w]; simpl in Hw; [discriminate|]. injection Hw as Hw. specialize (IH w Hw).
    cbn [cnt dropsum]. rewrite !plus_INR. destruct b, b'; simpl INR; nra.
Qed.

Lemma sep_idx (f : nat -> R) (g : nat -> bool) : (forall i, 0 <= f i) -> forall n,
  (forall i j, (i < n)%nat -> (j < n)%nat -> g i = true -> g j = false -> f j <= f i) ->
  exists c, 0 <= c /\ (forall i, (i < n)%nat -> g i = true -> c <= f i)
                   /\ (forall i, (i < n)%nat -> g i = false -> f i <= c).
Proof.
  intros Hf. induction n as [|n IH]; intros Hp.
  - exists 0. repeat split; try lra; intros; lia.
  - destruct IH as (c & Hc & Hk & Hd). { intros; apply Hp; auto; lia. }
    destruct (g n) eqn:En.
    + exists (Rmin c (f n)). repeat split.
      * apply Rmin_glb; auto.
      * intros i Hi Gi. assert (i = n \/ i < n)%nat as [->|Hi'] by lia.
        apply Rmin_r. eapply Rle_trans; [apply Rmin_l | apply Hk; auto].
      * intros i Hi Gi. assert (i = n \/ i < n)%nat as [->|Hi'] by lia; [congruence|].
        apply Rmin_glb; [apply Hd; auto | apply Hp; auto; lia].
    + exists (Rmax c (f n)). repeat split.
      * eapply Rle_trans; [exact Hc | apply Rmax_l].
      * intros i Hi Gi. assert (i = n \/ i < n)%nat as [->|Hi'] by lia; [congruence|].
        apply Rmax_lub; [apply Hk; auto | apply Hp; auto; lia].
      * intros i Hi Gi. assert (i = n \/ i < n)%nat as [->|Hi'] by lia.
        apply Rmax_r. eapply Rle_trans; [apply Hd; auto | apply Rmax_l].
Qed.

Theorem exchange_main m w v : length m = length v -> length w = length v ->
  (forall i j, (i < length v)%nat -> (j < length v)%nat -> nth i m false = true -> nth j m false = false ->
     nth j v 0 * nth j v 0 <= nth i v 0 * nth i v 0) ->
  (cnt w <= cnt m)%nat -> dropsum m v <= dropsum w v.
Proof.
  intros Hm Hw Hp Hc.
  destruct (sep_idx (fun i => nth i v 0 * nth i v 0) (fun i => nth i m false)) with (n := length v)
    as (c & Hc0 & Hk & Hd).
  - intros; nra.
  - exact Hp.
  - assert (F2 : Forall2 (fun (b : bool) y => if b then c <= y * y else y * y <= c) m v).
    { apply Forall2_nth_intro with false 0; auto. intros i Hi.
      destruct (nth i m false) eqn:E; [apply Hk | apply Hd]; auto; lia. }
    pose proof (exchange c Hc0 m v F2 w Hw) as H. apply le_INR in Hc. nra.
Qed.

(* ---------- masks, distances *)
Lemma apply_mask_cons b m (y : R) v :
  apply_mask Rops (b :: m) (y :: v) = (if b then y else 0) :: apply_mask Rops m v.
Proof. reflexivity. Qed.
Lemma apply_mask_nil_l (v : list R) : apply_mask Rops [] v = [].
Proof. reflexivity. Qed.
Lemma apply_mask_nil_r m : apply_mask Rops m [] = [].
Proof. destruct m; reflexivity. Qed.

Lemma dist2_apply_mask : forall m v, dist2 Rops (apply_mask Rops m v) v = dropsum m v.
Proof.
  induction m as [|b m IH]; destruct v as [|y v]; try reflexivity.
  rewrite apply_mask_cons. cbn [dist2 dropsum]. rewrite IH. destruct b; simpl; ring.
Qed.

Lemma dist2_ge_dropsum : forall z v, length z = length v -> dropsum (map nzb z) v <= dist2 Rops z v.
Proof.
  induction z as [|a z IH]; destruct v as [|y v]; simpl; intros L; try lra; try discriminate.
  injection L as L. specialize (IH v L). unfold nzb at 1.
  pose proof (Rle_0_sqr (a - y)) as Hs. unfold Rsqr in Hs.
  destruct (Req_EM_T a 0); subst; lra.
Qed.

Lemma dropsum_zero m v : Forall2 (fun (b : bool) y => b = false -> y = 0) m v -> dropsum m v = 0.
Proof.
  induction 1 as [|b y m v Hb H IH]; simpl; auto. rewrite IH. destruct b; [ring|]. rewrite Hb; auto. ring.
Qed.

Lemma nnz_apply_mask : forall m v, (nnzR (apply_mask Rops m v) <= cnt m)%nat.
Proof.
  induction m as [|b m IH]; destruct v as [|y v]; try (unfold nnzR; simpl; lia).
  rewrite apply_mask_cons. specialize (IH v). unfold nnzR in *. cbn [filter cnt].
  destruct b.
  - destruct (Req_EM_T y 0); simpl; lia.
  - destruct (Req_EM_T 0 0); [simpl; lia | congruence].
Qed.

Lemma apply_mask_nth : forall m v i,
  nth i (apply_mask Rops m v) 0 = if nth i m false then nth i v 0 else 0.
Proof.
  induction m as [|b m IH]; intros v i.
  - rewrite apply_mask_nil_l. destruct i; reflexivity.
  - destruct v as [|y v].
    + rewrite apply_mask_nil_r. destruct i; simpl; [destruct b | destruct (nth i m false)]; auto.
    + rewrite apply_mask_cons. destruct i; simpl; auto.
Qed.

(* ---------- the order of positions *)
Definition gek (v : list R) (a b : nat) : Prop := Rabs (nth b v 0) <= Rabs (nth a v 0).

Lemma key_before_true v a b : key_before Rops v a b = true -> gek v a b.
Proof.
  unfold key_before, fltb, gek. rewrite !fabs_Rabs. change (f0 Rops) with 0. change (fleb Rops) with Rleb.
  destruct (Rleb (Rabs (nth a v 0)) (Rabs (nth b v 0))) eqn:E1; simpl.
  - destruct (Rleb (Rabs (nth b v 0)) (Rabs (nth a v 0))) eqn:E2; simpl; [|discriminate].
    intros _. apply Rleb_true in E2. exact E2.
  - intros _. apply Rleb_false in E1. lra.
Qed.

Lemma key_before_false v a b : key_before Rops v a b = false -> gek v b a.
Proof.
  unfold key_before, fltb, gek. rewrite !fabs_Rabs. change (f0 Rops) with 0. change (fleb Rops) with Rleb.
  destruct (Rleb (Rabs (nth a v 0)) (Rabs (nth b v 0))) eqn:E1; simpl.
  - intros _. apply Rleb_true in E1. exact E1.
  - discriminate.
Qed.

Lemma insert_perm v a l : Permutation (insert_idx Rops v a l) (a :: l).
Proof.
  induction l as [|b r IH]; simpl; [reflexivity|].
  destruct (key_before Rops v a b); [reflexivity|].
  etransitivity; [apply perm_skip, IH | apply perm_swap].
Qed.

Lemma insert_sorted v a l : StronglySorted (gek v) l -> StronglySorted (gek v) (insert_idx Rops v a l).
Proof.
  induction l as [|b r IH]; intros H; simpl.
  - repeat constructor.
  - apply StronglySorted_inv in H. destruct H as [Hs Hf].
    destruct (key_before Rops v a b) eqn:E.
    + apply key_before_true in E. constructor; [constructor; auto|]. constructor; auto.
      eapply Forall_impl; [|exact Hf]. intros c Hc. unfold gek in *. lra.
    + apply key_before_false in E. constructor; auto.
      rewrite Forall_forall. intros c Hc. apply (Permutation_in _ (insert_perm v a r)) in Hc.
      destruct Hc as [<-|Hc]; [exact E|]. rewrite Forall_forall in Hf; auto.
Qed.

Lemma order_perm v : Permutation (order_desc Rops v) (seq 0 (length v)).
Proof.
  unfold order_desc. generalize (seq 0 (length v)). induction l as [|a l IH]; simpl; [constructor|].
  etransitivity; [apply insert_perm | apply perm_skip, IH].
Qed.

Lemma order_sorted v : StronglySorted (gek v) (order_desc Rops v).
Proof.
  unfold order_desc. generalize (seq 0 (length v)). induction l as [|a l IH]; simpl; [constructor|].
  apply insert_sorted; auto.
Qed.

Lemma order_length v : length (order_desc Rops v) = length v.
Proof. rewrite (Permutation_length (order_perm v)). apply seq_length. Qed.

Lemma order_nodup v : NoDup (order_desc Rops v).
Proof. apply (Permutation_NoDup (Permutation_sym (order_perm v))). apply seq_NoDup. Qed.

Lemma kept_in k v i : In i (firstn k (order_desc Rops v)) -> In i (order_desc Rops v).
Proof. intros H. rewrite <- (firstn_skipn k (order_desc Rops v)). apply in_or_app; auto. Qed.

Lemma kept_nodup k v : NoDup (firstn k (order_desc Rops v)).
Proof.
  pose proof (order_nodup v) as H. rewrite <- (firstn_skipn k (order_desc Rops v)) in H.
  apply nodup_app_l in H. exact H.
Qed.

Lemma kept_lt k v i : In i (firstn k (order_desc Rops v)) -> (i < length v)%nat.
Proof.
  intros H. apply kept_in in H. apply (Permutation_in _ (order_perm v)) in H. apply in_seq in H. lia.
Qed.

Lemma kept_length k v : length (firstn k (order_desc Rops v)) = Nat.min k (length v).
Proof. rewrite firstn_length, order_length. reflexivity. Qed.

Lemma kept_dropped_le k v i j : In i (firstn k (order_desc Rops v)) -> (j < length v)%nat ->
  ~ In j (firstn k (order_desc Rops v)) -> Rabs (nth j v 0) <= Rabs (nth i v 0).
Proof.
  intros Hi Hj Hn.
  assert (Hin : In j (order_desc Rops v)).
  { apply (Permutation_in _ (Permutation_sym (order_perm v))). apply in_seq. lia. }
  rewrite <- (firstn_skipn k (order_desc Rops v)) in Hin. apply in_app_or in Hin.
  destruct Hin as [Hin|Hin]; [contradiction|].
  pose proof (order_sorted v) as Hs. rewrite <- (firstn_skipn k (order_desc Rops v)) in Hs.
  exact (sorted_app_split _ _ _ Hs i j Hi Hin).
Qed.

(* ---------- the mask of hard_thresholding *)
Lemma hard_mask_length k v : length (hard_mask Rops k v) = length v.
Proof. unfold hard_mask. cbv zeta. rewrite map_length, seq_length. reflexivity. Qed.

Lemma hard_mask_nth k v i : (i < length v)%nat ->
  nth i (hard_mask Rops k v) false = existsb (Nat.eqb i) (firstn k (order_desc Rops v)).
Proof. intros Hi. unfold hard_mask. cbv zeta. rewrite nth_map_seq; auto. Qed.

Lemma cnt_hard_mask k v : cnt (hard_mask Rops k v) = Nat.min k (length v).
Proof.
  unfold hard_mask. cbv zeta. rewrite cnt_map. rewrite <- (kept_length k v).
  apply Permutation_length. apply NoDup_Permutation.
  - apply NoDup_filter. apply seq_NoDup.
  - apply kept_nodup.
  - intros i. rewrite filter_In, in_seq, mem_true. split.
    + intros [_ H]; auto.
    + intros H. split; auto. pose proof (kept_lt _ _ _ H). lia.
Qed.

Lemma hard_mask_pair k v i j : (i < length v)%nat -> (j < length v)%nat ->
  nth i (hard_mask Rops k v) false = true -> nth j (hard_mask Rops k v) false = false ->
  Rabs (nth j v 0) <= Rabs (nth i v 0).
Proof.
  intros Hi Hj. rewrite !hard_mask_nth by auto. intros A B.
  apply kept_dropped_le with k; auto.
  - apply mem_true; auto.
  - intro C. apply mem_true in C. congruence.
Qed.

(* ---------- main theorems on hard_thresholding *)
Theorem hard_length : forall k v, length (hard_thresholding Rops k v) = length v.
Proof.
  intros k v. unfold hard_thresholding, apply_mask.
  rewrite map_length, combine_length, hard_mask_length. lia.
Qed.

Theorem hard_entries : forall k v i,
  nth i (hard_thresholding Rops k v) 0 = nth i v 0 \/ nth i (hard_thresholding Rops k v) 0 = 0.
Proof.
  intros k v i. unfold hard_thresholding. rewrite apply_mask_nth.
  destruct (nth i (hard_mask Rops k v) false); auto.
Qed.

Theorem hard_sparse : forall k v, (nnzR (hard_thresholding Rops k v) <= k)%nat.
Proof.
  intros k v. unfold hard_thresholding.
  pose proof (nnz_apply_mask (hard_mask Rops k v) v) as H. rewrite cnt_hard_mask in H. lia.
Qed.

Theorem hard_nearest : forall k v z, length z = length v -> (nnzR z <= k)%nat ->
  dist2 Rops (hard_thresholding Rops k v) v <= dist2 Rops z v.
Proof.
  intros k v z Hl Hk. unfold hard_thresholding. rewrite dist2_apply_mask.
  eapply Rle_trans; [|apply dist2_ge_dropsum; exact Hl].
  apply exchange_main.
  - apply hard_mask_length.
  - rewrite map_length; auto.
  - intros i j Hi Hj A B. apply abs_sq. eapply hard_mask_pair; eauto.
  - rewrite cnt_nzb, cnt_hard_mask. pose proof (nnzR_le_length z). lia.
Qed.

Theorem hard_fixes_sparse : forall k v, (nnzR v <= k)%nat -> hard_thresholding Rops k v = v.
Proof.
  intros k v H. apply dist2_zero_eq; [apply hard_length|].
  pose proof (hard_nearest k v v eq_refl H) as Hn. rewrite dist2_self in Hn.
  pose proof (dist2_nonneg (hard_thresholding Rops k v) v). lra.
Qed.

Theorem hard_idempotent : forall k v,
  hard_thresholding Rops k (hard_thresholding Rops k v) = hard_thresholding Rops k v.
Proof. intros k v. apply hard_fixes_sparse. apply hard_sparse. Qed.

(* ---------- the relational checker valid_ht *)
Lemma entry_cond (vi xi : R) :
  (feqb Rops xi vi || feqb Rops xi (f0 Rops)) = true <-> (xi = vi \/ xi = 0).
Proof. change (f0 Rops) with 0. rewrite orb_true_iff, !feqb_true. tauto. Qed.

Lemma pair_cond (vi xi vj xj : R) :
  (negb (fnz Rops xi) || fnz Rops xj || fleb Rops (fabs Rops vj) (fabs Rops vi)) = true <->
  (xi <> 0 -> xj = 0 -> Rabs vj <= Rabs vi).
Proof.
  rewrite !fnz_nzb, !fabs_Rabs. change (fleb Rops) with Rleb.
  destruct (nzb xi) eqn:Ei; destruct (nzb xj) eqn:Ej; simpl.
  - apply nzb_true in Ej. split; intros H; auto. intros _ E. contradiction.
  - rewrite Rleb_true. apply nzb_true in Ei. apply nzb_false in Ej. tauto.
  - apply nzb_false in Ei. split; intros H; auto. intros E. contradiction.
  - apply nzb_false in Ei. split; intros H; auto. intros E. contradiction.
Qed.

Lemma fill_cond (vi xi : R) :
  (fnz Rops xi || negb (fnz Rops vi)) = true <-> (xi = 0 -> vi = 0).
Proof.
  rewrite !fnz_nzb. destruct (nzb xi) eqn:Ei; destruct (nzb vi) eqn:Ev; simpl.
  - apply nzb_true in Ei. split; intros H; auto. intros E. contradiction.
  - apply nzb_true in Ei. split; intros H; auto. intros E. contradiction.
  - apply nzb_false in Ei. apply nzb_true in Ev. split; intros H; [discriminate|]. exfalso; auto.
  - apply nzb_false in Ev. split; intros H; auto.
Qed.

Lemma valid_ht_iff k v x : valid_ht Rops k v x = true <->
  (length x = length v /\
   (forall i, (i < length v)%nat -> nth i x 0 = nth i v 0 \/ nth i x 0 = 0) /\
   (nnzR x <= k)%nat /\
   (forall i j, (i < length v)%nat -> (j < length v)%nat -> nth i x 0 <> 0 -> nth j x 0 = 0 ->
      Rabs (nth j v 0) <= Rabs (nth i v 0)) /\
   ((k <= nnzR x)%nat \/ forall i, (i < length v)%nat -> nth i x 0 = 0 -> nth i v 0 = 0)).
Proof.
  unfold valid_ht. cbv zeta. rewrite !andb_true_iff, orb_true_iff, Nat.eqb_eq, !Nat.leb_le, nnz_fnz. split.
  - intros ((((H1 & H2) & H3) & H4) & H5). assert (L : length v = length x) by lia.
    pose proof (proj1 (forallb_combine_nth _ _ _ 0 0 L) H2) as H2'.
    pose proof (proj1 (forallb_combine_nth _ _ _ 0 0 L) H4) as H4'.
    repeat split; auto.
    + intros i Hi. apply entry_cond. exact (H2' i Hi).
    + intros i j Hi Hj. specialize (H4' i Hi). cbv beta in H4'.
      pose proof (proj1 (forallb_combine_nth _ _ _ 0 0 L) H4' j Hj) as H. cbv beta in H. cbn [fst snd] in H.
      exact (proj1 (pair_cond _ _ _ _) H).
    + destruct H5 as [H5|H5]; [left; exact H5 | right].
      pose proof (proj1 (forallb_combine_nth _ _ _ 0 0 L) H5) as H5'.
      intros i Hi. apply fill_cond. exact (H5' i Hi).
  - intros (H1 & H2 & H3 & H4 & H5). assert (L : length v = length x) by lia.
    repeat split; auto.
    + apply (proj2 (forallb_combine_nth _ _ _ 0 0 L)). intros i Hi. cbn [fst snd]. apply entry_cond. auto.
    + apply (proj2 (forallb_combine_nth _ _ _ 0 0 L)). intros i Hi.
      apply (proj2 (forallb_combine_nth _ _ _ 0 0 L)). intros j Hj. cbn [fst snd]. apply pair_cond. auto.
    + destruct H5 as [H5|H5]; [left; exact H5 | right].
      apply (proj2 (forallb_combine_nth _ _ _ 0 0 L)). intros i Hi. cbn [fst snd]. apply fill_cond. auto.
Qed.

Theorem valid_ht_sparse : forall k v x, valid_ht Rops k v x = true -> (nnzR x <= k)%nat.
Proof. intros k v x H. apply valid_ht_iff in H. tauto. Qed.

Lemma dist2_entries x v : Forall2 (fun xi vi => xi = vi \/ xi = 0) x v ->
  dist2 Rops x v = dropsum (map nzb x) v.
Proof.
  induction 1 as [|xi vi x v Hb H IH]; simpl; auto. rewrite IH. destruct (nzb xi) eqn:E.
  - apply nzb_true in E. destruct Hb as [->|Hb]; [ring | contradiction].
  - apply nzb_false in E. subst. ring.
Qed.

Theorem valid_ht_nearest : forall k v x z, valid_ht Rops k v x = true -> length z = length v ->
  (nnzR z <= k)%nat -> dist2 Rops x v <= dist2 Rops z v.
Proof.
  intros k v x z H Hl Hk. apply valid_ht_iff in H. destruct H as (H1 & H2 & H3 & H4 & H5).
  rewrite dist2_entries.
  2:{ apply Forall2_nth_intro with 0 0; auto. intros i Hi. apply H2. lia. }
  destruct H5 as [H5|H5].
  - eapply Rle_trans; [|apply dist2_ge_dropsum; exact Hl].
    apply exchange_main.
    + rewrite map_length; auto.
    + rewrite map_length; auto.
    + intros i j Hi Hj. rewrite !nth_nzb. intros A B. apply nzb_true in A. apply nzb_false in B.
      apply abs_sq. apply H4; auto.
    + rewrite !cnt_nzb. lia.
  - rewrite dropsum_zero; [apply dist2_nonneg|].
    apply Forall2_nth_intro with false 0; [rewrite map_length; auto|].
    rewrite map_length. intros i Hi. rewrite nth_nzb. intros B. apply nzb_false in B. apply H5; auto. lia.
Qed.

(* ---------- the model output passes the checker *)
Lemma nnz_mask_or_zero : forall m v, length m = length v ->
  nnzR (apply_mask Rops m v) = cnt m \/
  exists i, (i < length v)%nat /\ nth i m false = true /\ nth i v 0 = 0.
Proof.
  induction m as [|b m IH]; destruct v as [|y v]; simpl; intros L; try discriminate.
  - left. reflexivity.
  - injection L as L. rewrite apply_mask_cons.
    destruct (IH v L) as [E|(i & Hi & Hm & Hv)].
    2:{ right. exists (S i). split; [lia|]. simpl. auto. }
    destruct b.
    + destruct (Req_EM_T y 0) as [Ey|Ey].
      * right. exists O. split; [lia|]. simpl. auto.
      * left. unfold nnzR in *. cbn [filter]. destruct (Req_EM_T y 0); [contradiction|]. simpl. rewrite E. lia.
    + left. unfold nnzR in *. cbn [filter]. destruct (Req_EM_T 0 0); [|congruence]. rewrite E. lia.
Qed.

Theorem hard_valid : forall k v, valid_ht Rops k v (hard_thresholding Rops k v) = true.
Proof.
  intros k v. apply valid_ht_iff. split; [apply hard_length|]. split; [intros; apply hard_entries|].
  split; [apply hard_sparse|]. unfold hard_thresholding. split.
  - intros i j Hi Hj. rewrite !apply_mask_nth.
    destruct (nth i (hard_mask Rops k v) false) eqn:Ei; [|intros A; contradiction].
    destruct (nth j (hard_mask Rops k v) false) eqn:Ej.
    + intros _ B. rewrite B, Rabs_R0. apply Rabs_pos.
    + intros _ _. eapply hard_mask_pair; eauto.
  - destruct (nnz_mask_or_zero (hard_mask Rops k v) v (hard_mask_length k v)) as [E|(i & Hi & Hm & Hv)].
    + rewrite E, cnt_hard_mask. destruct (le_lt_dec k (length v)) as [Hk|Hk]; [left; lia|].
      right. intros j Hj. rewrite apply_mask_nth.
      assert (Hj' : nth j (hard_mask Rops k v) false = true).
      { rewrite hard_mask_nth by auto. apply mem_true. rewrite firstn_all2 by (rewrite order_length; lia).
        apply (Permutation_in _ (Permutation_sym (order_perm v))). apply in_seq. lia. }
      rewrite Hj'. auto.
    + right. intros j Hj. rewrite apply_mask_nth.
      destruct (nth j (hard_mask Rops k v) false) eqn:Ej; auto. intros _.
      pose proof (hard_mask_pair k v i j Hi Hj Hm Ej) as H. rewrite Hv, Rabs_R0 in H.
      pose proof (Rabs_pos (nth j v 0)) as Hp.
      destruct (Req_dec (nth j v 0) 0) as [E|E]; auto. apply Rabs_no_R0 in E. lra.
Qed.

Print Assumptions hard_length.
Print Assumptions hard_entries.
Print Assumptions hard_sparse.
Print Assumptions hard_nearest.
Print Assumptions valid_ht_sparse.
Print Assumptions valid_ht_nearest.
Print Assumptions hard_valid.
Print Assumptions hard_fixes_sparse.
Print Assumptions hard_idempotent.
