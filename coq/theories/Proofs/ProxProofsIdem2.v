(* Round 7: idempotence of EVERY projection of the property's list, end to end through proximal_operator.
   - the l1-ball operator (soft_sparsity_prox) is idempotent for every column that lies on or outside the ball OR has no zero entry
     (a column strictly inside the ball is moved onto the sphere |x|_1 = p - the known, deliberately unfixed defect - but the moved point
     is then a fixed point); it is NOT idempotent for a column inside the ball with a zero entry (exact witness);
   - normalized_sparsity_prox: the second call asks tl.norm again (a second tape value s'); under the contract of both tape values the
     second call returns the first result;
   - unimodality_prox is not idempotent (exact witness: P(P(v)) <> P(v)). *)
From Coq Require Import List Reals QArith Qreals Lra Lia Bool.
From TLV Require Import Base.Ops Base.Tensor Model.Prox Model.Constraints Model.ProxDispatch
  Proofs.ProxProofs Proofs.ProxProofsHard Proofs.ProxProofsRefute Proofs.ProxProofsSimplex Proofs.ProxProofsMono Proofs.ProxProofsIso
  Proofs.ProxProofsSmooth Proofs.ProxProofsNormSp Proofs.ProxProofsMore Proofs.ProxProofsMatrix Proofs.ProxProofsFirm2
  Proofs.ProxProofsRunIdem.
Import ListNotations.

(* ---------- refutations on the executed instance *)
Lemma l1ball_idempotent_refuted : exists (p : Q) (v : list Q),
  Qle_bool (l1n Qops v) p = true /\
  (let P := soft_sparsity_prox Qops p in
   forallb (fun xy : Q * Q => Qeq_bool (fst xy) (snd xy)) (combine (P (P v)) (P v)) = false).
Proof. exists 1%Q, [0; (1#10)]%Q. split; vm_compute; reflexivity. Qed.
Lemma unimodal_idempotent_refuted : exists (v : list Q),
  unimodalb Qops v = true /\
  (let P := fun w => hd [] (unimodality_cols Qops [w]) in
   forallb (fun xy : Q * Q => Qeq_bool (fst xy) (snd xy)) (combine (P (P v)) (P v)) = false).
Proof. exists [0; 1; 0]%Q. split; vm_compute; reflexivity. Qed.

Open Scope R_scope.

(* ---------- the l1-ball operator: a column without zero entries is mapped onto the sphere |x|_1 = p *)
Lemma sign_mult_l1n : forall (x v : list R), length x = length v -> Forall (fun a => 0 <= a) x -> Forall (fun b => b <> 0) v ->
  l1n Rops (map (fun ab : R * R => fmul Rops (fst ab) (fsign Rops (snd ab))) (combine x v)) = lsum Rops x.
Proof.
  induction x as [|a x IH]; intros [|b v] L Hx Hv; try discriminate L; [reflexivity|].
  injection L as L. inversion Hx; subst. inversion Hv; subst.
  cbn [combine map fst snd]. rewrite l1n_cons, lsum_cons, IH by assumption. f_equal. cbn [fmul Rops].
  destruct (fsign_spec b) as [[Hb ->]|[[Hb ->]|[Hb _]]]; [| |contradiction].
  - rewrite Rmult_1_r. apply Rabs_right. lra.
  - replace (a * -1) with (- a) by ring. rewrite Rabs_Ropp. apply Rabs_right. lra.
Qed.
Theorem l1ball_nonzero_feasible p v : 0 < p -> v <> [] -> Forall (fun b => b <> 0) v -> l1n Rops (soft_sparsity_prox Rops p v) = p.
Proof.
  intros Hp Hne Hnz. unfold soft_sparsity_prox.
  assert (Hne' : map (fabs Rops) v <> []) by (destruct v; [contradiction | discriminate]).
  destruct (simplex_feasible p (map (fabs Rops) v) Hp Hne') as [F S].
  rewrite sign_mult_l1n; [exact S | rewrite simplex_length, map_length; reflexivity | exact F | exact Hnz].
Qed.
(* fixed point after ONE application, wherever the column lies relative to the ball *)
Theorem l1ball_idempotent p v : 0 < p -> (p <= l1n Rops v \/ (v <> [] /\ Forall (fun b => b <> 0) v)) ->
  soft_sparsity_prox Rops p (soft_sparsity_prox Rops p v) = soft_sparsity_prox Rops p v.
Proof.
  intros Hp [Hout|[Hne Hnz]]; [apply l1ball_outside_idempotent; assumption|].
  set (w := soft_sparsity_prox Rops p v).
  assert (Hw : l1n Rops w = p) by (apply l1ball_nonzero_feasible; assumption).
  assert (Lw : length (soft_sparsity_prox Rops p w) = length w) by apply soft_sparsity_length.
  apply dist2_zero_eq; [exact Lw|].
  pose proof (l1ball_outside_optimal p w w Hp ltac:(lra) eq_refl ltac:(lra)) as H.
  rewrite dist2_refl in H. pose proof (ProxProofs.dist2_nonneg (soft_sparsity_prox Rops p w) w). lra.
Qed.

(* ---------- normalised sparsity: the norm tape of the second call is forced to 1 by its contract *)
Lemma normalized_sparsity_second_tape s s' k v : 0 < s -> s * s = sumsq Rops (hard_thresholding Rops k v) ->
  0 < s' -> s' * s' = sumsq Rops (hard_thresholding Rops k (normalized_sparsity_with Rops s k v)) -> s' = 1.
Proof.
  intros Hs E Hs' E'. destruct (normalized_sparsity_feasible s k v Hs E) as [H1 Hk].
  rewrite (hard_fixes_sparse k _ Hk), H1 in E'. nra.
Qed.
Theorem normalized_sparsity_idempotent2 s s' k v : 0 < s -> s * s = sumsq Rops (hard_thresholding Rops k v) ->
  0 < s' -> s' * s' = sumsq Rops (hard_thresholding Rops k (normalized_sparsity_with Rops s k v)) ->
  normalized_sparsity_with Rops s' k (normalized_sparsity_with Rops s k v) = normalized_sparsity_with Rops s k v.
Proof.
  intros Hs E Hs' E'. rewrite (normalized_sparsity_second_tape s s' k v Hs E Hs' E'). apply normalized_sparsity_idempotent; assumption.
Qed.

(* ---------- end to end.  o : the operator selected for the first call, o' : for the second call (the same keyword arguments; only the
   norm tape may differ).  Side conditions as in the per-vector theorems. *)
Definition idem_side2 (o o' : @pop R) (X : list (list R)) : Prop :=
  match o, o' with
  | PNormSparsity k s, PNormSparsity k' s' =>
      k' = k /\ 0 < s /\ s * s = sumsq Rops (hard_thresholding Rops k (concat X)) /\
      0 < s' /\ s' * s' = sumsq Rops (hard_thresholding Rops k (concat (prun Rops o X)))
  | PSoftSparsity p, _ =>
      o' = o /\ 0 < p /\ Forall (fun col => p <= l1n Rops col \/ Forall (fun b => b <> 0) col) (cols_of Rops X)
  | _, _ => o' = o /\ idem_side o X
  end.
Theorem prun_idempotent2 o o' nr nc X : (1 <= nr)%nat -> (1 <= nc)%nat -> rect nr nc X -> idem_side2 o o' X ->
  prun Rops o' (prun Rops o X) = prun Rops o X.
Proof.
  intros Hn Hc HX Hs. pose proof (cols_of_rect nr nc X Hn HX) as [_ FC].
  destruct o; cbn [idem_side2] in Hs;
    try (destruct Hs as [-> Hs]; apply (prun_idempotent _ nr nc); assumption).
  - (* normalised sparsity *)
    destruct o' as [| | | | | | |k' s'| | | | |]; try (exfalso; exact (proj2 Hs)).
    destruct Hs as (-> & Hs0 & E & Hs' & E'). cbn [prun] in *.
    assert (Hl : forall s0 w, length (normalized_sparsity_with Rops s0 k w) = length w)
      by (intros; unfold normalized_sparsity_with; rewrite map_length; apply hard_length).
    pose proof (flatwise_rect nr nc (normalized_sparsity_with Rops s k) X Hn Hc HX (Hl _ _)) as HY.
    rewrite (flatwise_unfold nr nc _ (flatwise (normalized_sparsity_with Rops s k) X) Hn HY).
    rewrite (flatwise_flat nr nc _ X Hn Hc HX (Hl _ _)) in *.
    rewrite (normalized_sparsity_idempotent2 s s' k (concat X) Hs0 E Hs' E').
    symmetry. apply (flatwise_unfold nr nc _ X Hn HX).
  - (* l1 ball *)
    destruct Hs as (-> & Hp & Hcols). cbn [prun].
    apply (colwise_idempotent nr nc); auto; [apply soft_sparsity_length|].
    rewrite Forall_forall in *. intros col Hin. apply l1ball_idempotent; [exact Hp|].
    destruct (Hcols col Hin) as [H|H]; [left; exact H | right; split; [|exact H]].
    intros ->. specialize (FC [] Hin). cbn in FC. lia.
Qed.
(* proximal_operator called again with the same keyword arguments on its own result (the norm oracle answering aux' this time) returns
   that result *)
Theorem proximal_operator_idempotent2 n_const order specs aux aux' nr nc X Y o o' : (1 <= nr)%nat -> (1 <= nc)%nat -> rect nr nc X ->
  selected_pop Q2R n_const order specs aux = Ok o -> selected_pop Q2R n_const order specs aux' = Ok o' -> idem_side2 o o' X ->
  proximal_operator Rops Q2R n_const order specs aux X = Ok Y -> proximal_operator Rops Q2R n_const order specs aux' Y = Ok Y.
Proof.
  intros Hn Hc HX Hsel Hsel' Hs. unfold proximal_operator. rewrite Hsel, Hsel'. intros H. injection H as <-. f_equal.
  apply (prun_idempotent2 o o' nr nc); assumption.
Qed.
(* the side condition is satisfiable for normalised sparsity through the dispatch: the two selected operators differ in the tape only *)
Lemma selected_pop_aux_normsp n_const order specs aux aux' k s :
  selected_pop Q2R n_const order specs aux = Ok (PNormSparsity k s) ->
  selected_pop Q2R n_const order specs aux' = Ok (PNormSparsity k aux') /\ s = aux.
Proof.
  unfold selected_pop. destruct n_const as [n|]; [|discriminate].
  destruct (validate_kwargs n order specs) as [[[kd p]|]|]; try discriminate.
  destruct kd; cbn [pop_of]; intros H; try discriminate H. injection H as <- <-. split; reflexivity.
Qed.
